/-
  C03 — Retry exactly when permitted: no premature give-up, no wasted backoff.

  Theorems are about `Mon.C03.ok`, the monitor the driver also evaluates on implementation traces:
  for EVERY configuration, EVERY answer stream and every entry point, the monitor accepts the model's
  run.  Structure as in `Props/C01.lean`; the leaf procedures come from the exchange-level footprints
  `FootQ` / `FootE` of `Lemmas/Footprint.lean`.
-/
import Redress.Lemmas.Footprint
import Redress.Monitors

open Std.Do

namespace Redress.Props.C03
open Redress Redress.Retry Redress.Mon Redress.Mon.C03

/-! ### the monitor as a function of the world's (newest-first) log -/

/-- the loop's clock -/
def clk (tr : List (Req × Ans)) : Clock := tr.foldr (fun x c => c.tick x) {}

/-- the monitor state -/
def cur (cfg : Cfg) : List (Req × Ans) → St
  | [] => {}
  | x :: t => step cfg (cur cfg t) x (clk (x :: t)).el

@[simp] theorem clk_cons (x : Req × Ans) (t : List (Req × Ans)) : clk (x :: t) = (clk t).tick x := rfl

@[simp] theorem cur_cons (cfg : Cfg) (x : Req × Ans) (t : List (Req × Ans)) :
    cur cfg (x :: t) = step cfg (cur cfg t) x ((clk t).tick x).el := rfl

theorem pair_fold (cfg : Cfg) (t : List (Req × Ans)) :
    t.foldr (fun x (acc : St × Clock) => (step cfg acc.1 x (acc.2.tick x).el, acc.2.tick x)) ({}, {})
      = (cur cfg t, clk t) := by
  induction t with
  | nil => rfl
  | cons x t ih => simp [List.foldr, ih]

theorem run_reverse (cfg : Cfg) (t : List (Req × Ans)) : run cfg t.reverse = cur cfg t := by
  simp only [run, List.foldl_reverse]
  exact congrArg Prod.fst (pair_fold cfg t)

theorem elapsedOf_reverse (t : List (Req × Ans)) : elapsedOf t.reverse = (clk t).el := by
  simp [elapsedOf, clk, List.foldl_reverse]

/-- an attempt hook or the abort predicate raised (`Mon.attemptHookFault`) -/
def flt (tr : List (Req × Ans)) : Bool := attemptHookFault tr

theorem fault_reverse (t : List (Req × Ans)) : attemptHookFault t.reverse = flt t := by
  simp [attemptHookFault, flt, List.any_reverse]

theorem raisedBy_reverse (p : Req → Bool) (t : List (Req × Ans)) (e : Exn) :
    raisedBy p t.reverse e = raisedBy p t e := by
  simp [raisedBy, List.any_reverse]

/-- the monitor's clock is the total duration of `retryTrace` (what the deadline clause used before
    it was written as a fold) -/
theorem elapsedOf_eq (t : Trace) : elapsedOf t = (retryTrace t).foldl (fun n x => n + x.2.dur) 0 := by
  have hstarted : ∀ (l : Trace) (n : Nat),
      (l.foldl Clock.tick { started := true, el := n }).el = l.foldl (fun n x => n + x.2.dur) n := by
    intro l
    induction l with
    | nil => intro n; rfl
    | cons x l ih => intro n; simp [List.foldl, Clock.tick, ih]
  unfold elapsedOf retryTrace
  induction t with
  | nil => rfl
  | cons x t ih =>
    by_cases hp : isPrelude x.1 = true
    · simp only [List.foldl, List.dropWhile, hp]
      have : Clock.tick {} x = {} := by simp [Clock.tick, hp]
      rw [this]; exact ih
    · have hp' : isPrelude x.1 = false := by simpa using hp
      simp only [List.foldl, List.dropWhile, hp']
      have : Clock.tick {} x = { started := true, el := x.2.dur } := by simp [Clock.tick, hp']
      rw [this, hstarted]
      simp


/-! ### requests that never move the monitor; the view -/

/-- requests of the retry loop that are inert for the C03 monitor (and never part of the prelude) -/
def loopR : Req → Bool
  | .metric ev .. => ev != .retry && ev != .budgetExhausted && !isBreakerEv ev
  | .log ev .. => !isBreakerEv ev
  | .beforeSleep .. | .attemptStart _ | .attemptEnd _ | .stratRecordFailure .. | .stratRecordSuccess _ => true
  | _ => false

/-- `loopR`, plus (when `bx`) the `budget_exhausted` metric event, which is inert once the budget has
    refused -/
def loopRx (bx : Bool) (r : Req) : Bool :=
  loopR r || (bx && (match r with
    | .metric .budgetExhausted .. => true
    | _ => false))

theorem loopRx_false (r : Req) : loopRx false r = loopR r := by simp [loopRx]

/-- an inert request moves nothing but (when it raises an abort) `sawAbort` -/
theorem step_inert' (cfg : Cfg) (bx : Bool) (s : St) (x : Req × Ans) (el : Nat) (h : loopRx bx x.1 = true)
    (hx : bx = true → s.refused = true) :
    step cfg s x el = { s with sawAbort := s.sawAbort || abortRaise x } := by
  obtain ⟨r, a⟩ := x
  cases r with
  | metric ev _ _ _ =>
    cases ev
    case budgetExhausted =>
      have hr : s.refused = true := hx (by simpa [loopRx, loopR] using h)
      cases s
      cases a <;> simp_all [step, abortKind, abortRaise]
    all_goals (simp_all [loopRx, loopR, step, abortKind, abortRaise, isBreakerEv])
  | _ => simp_all [loopRx, loopR, step, abortKind, abortRaise]

theorem abortRaise_quiet (bx : Bool) (x : Req × Ans) (h : loopRx bx x.1 = true) (hq : quietX x = true) :
    abortRaise x = false := by
  obtain ⟨r, a⟩ := x
  cases a <;> simp_all [abortRaise, quietX]
  cases r <;> simp_all [loopRx, loopR, swallowedReq, abortKind]

theorem step_inert (cfg : Cfg) (bx : Bool) (s : St) (x : Req × Ans) (el : Nat) (h : loopRx bx x.1 = true)
    (hq : quietX x = true) (hx : bx = true → s.refused = true) : step cfg s x el = s := by
  rw [step_inert' cfg bx s x el h hx, abortRaise_quiet bx x h hq]
  simp

theorem loopR_not_prelude (bx : Bool) (r : Req) (h : loopRx bx r = true) : isPrelude r = false := by
  cases r with
  | metric ev _ _ _ => cases ev <;> simp_all [loopRx, loopR, isPrelude, isBreakerEv]
  | _ => simp_all [loopRx, loopR, isPrelude]

theorem loopR_not_op (bx : Bool) (r : Req) (h : loopRx bx r = true) : isOp r = false := by
  cases r <;> simp_all [loopRx, loopR, isOp]

theorem tick_el (c : Clock) (x : Req × Ans) (h : isPrelude x.1 = false) : (c.tick x).el = c.el + x.2.dur := by
  simp [Clock.tick, h]

/-- this exchange is an attempt hook (or the abort predicate) raising -/
def hookRaise (x : Req × Ans) : Bool :=
  match x.2 with
  | .raise .. => isAttemptHook x.1
  | _ => false

theorem flt_cons (x : Req × Ans) (t : List (Req × Ans)) : flt (x :: t) = (hookRaise x || flt t) := by
  obtain ⟨r, a⟩ := x
  simp only [flt, attemptHookFault, List.any_cons]
  cases a <;> simp [hookRaise]

theorem flt_quiet (bx : Bool) (x : Req × Ans) (t : List (Req × Ans)) (hr : loopRx bx x.1 = true)
    (hq : quietX x = true) : flt (x :: t) = flt t := by
  obtain ⟨r, a⟩ := x
  rw [flt_cons]
  cases a <;> simp_all [quietX, hookRaise]
  cases r <;> simp_all [loopRx, loopR, swallowedReq, isAttemptHook]

/-- what the last invocation of the operation raised -/
def lastOpExn : List (Req × Ans) → Option Exn
  | [] => none
  | (.op _, .raise e _) :: _ => some e
  | (.op _, _) :: _ => none
  | _ :: t => lastOpExn t

theorem lastOpExn_nonop (x : Req × Ans) (t : List (Req × Ans)) (h : isOp x.1 = false) :
    lastOpExn (x :: t) = lastOpExn t := by
  obtain ⟨r, a⟩ := x
  cases r <;> simp_all [lastOpExn, isOp]

theorem raisedBy_of_lastOpExn (t : List (Req × Ans)) (e : Exn) (h : lastOpExn t = some e) :
    raisedBy isOp t e = true := by
  induction t with
  | nil => simp [lastOpExn] at h
  | cons x t ih =>
    obtain ⟨r, a⟩ := x
    cases r with
    | op k =>
      cases a <;> simp_all [lastOpExn, raisedBy, isOp]
    | _ =>
      rw [lastOpExn_nonop _ _ (by simp [isOp])] at h
      have := ih h
      simp_all [raisedBy]

/-- what the C03 argument looks at -/
structure View where
  mon : St
  flt : Bool
  sync : Bool                     -- now = start + (elapsed according to the log): true inside the loop
  stop : Option StopReason        -- `last_stop_reason`
  stopOk : Bool                   -- … and its condition holds
  counts : EClass → Nat
  unknown : Nat
  noExc : Bool                    -- `last_exc is None`
  opExn : Option Exn              -- what the last invocation of the operation raised

def stopOkOf (cfg : Cfg) (m : St) (el : Nat) : Option StopReason → Bool
  | none => true
  | some r => stopCond cfg m el r

def view (cfg : Cfg) (w : World) : View :=
  ⟨cur cfg w.trace, flt w.trace, decide (w.now = w.rs.start + (clk w.trace).el), w.rs.lastStop,
   stopOkOf cfg (cur cfg w.trace) (clk w.trace).el w.rs.lastStop,
   w.rs.perClassCounts, w.rs.unknownAttempts, w.rs.lastExc.isNone, lastOpExn w.trace⟩

theorem stopCond_mono (cfg : Cfg) (m : St) {el el' : Nat} (h : el ≤ el') (r : StopReason)
    (hc : stopCond cfg m el r = true) : stopCond cfg m el' r = true := by
  cases r <;> simp_all [stopCond]
  omega

theorem stopOkOf_mono (cfg : Cfg) (m : St) {el el' : Nat} (h : el ≤ el') (r : Option StopReason)
    (hc : stopOkOf cfg m el r = true) : stopOkOf cfg m el' r = true := by
  cases r with
  | none => rfl
  | some r => exact stopCond_mono cfg m h r hc

/-- quiet inert exchanges: the monitor, the fault flag and the slack do not move -/
theorem cur_append_quiet (cfg : Cfg) (bx : Bool) (δ t : List (Req × Ans)) (h : QuietAll (loopRx bx) δ)
    (hx : bx = true → (cur cfg t).refused = true) :
    cur cfg (δ ++ t) = cur cfg t ∧ flt (δ ++ t) = flt t ∧ (clk (δ ++ t)).el = (clk t).el + dsum δ ∧
      lastOpExn (δ ++ t) = lastOpExn t := by
  induction δ with
  | nil => simp [dsum]
  | cons x δ ih =>
    have hx' := h x (by simp)
    have := ih (fun y hy => h y (by simp [hy]))
    refine ⟨?_, ?_, ?_, ?_⟩
    rotate_right
    · rw [List.cons_append, lastOpExn_nonop _ _ (loopR_not_op bx _ hx'.1), this.2.2.2]
    · simp only [List.cons_append, cur_cons, this.1]
      exact step_inert cfg bx _ x _ hx'.1 hx'.2 hx
    · rw [List.cons_append, flt_quiet bx _ _ hx'.1 hx'.2, this.2.1]
    · simp only [List.cons_append, clk_cons, tick_el _ _ (loopR_not_prelude bx _ hx'.1), this.2.2.1, dsum]
      omega

theorem view_fq (cfg : Cfg) (bx : Bool) (w w' : World) (h : FootQ (loopRx bx) w w')
    (hok : (view cfg w).stopOk = true) (hx : bx = true → (view cfg w).mon.refused = true) :
    view cfg w' = view cfg w := by
  obtain ⟨δ, e, q, t⟩ := h.trace
  have hc := cur_append_quiet cfg bx δ w.trace q hx
  have hrs := h.rs
  have hmono := stopOkOf_mono cfg (cur cfg w.trace) (Nat.le_add_right (clk w.trace).el (dsum δ)) w.rs.lastStop
    (by simpa [view] using hok)
  simp only [view, e, hc.1, hc.2.1, hc.2.2.1, hc.2.2.2, hrs, t, View.mk.injEq, true_and, and_true]
  refine ⟨by simp only [decide_eq_decide]; omega, ?_⟩
  simp_all [view]


/-! ### what the verdict needs when a run ends with an exception -/

structure ExcCore (cfg : Cfg) (e : Exn) (m : St) (el : Nat) (tr : List (Req × Ans)) : Prop where
  bad : m.bad = false
  must : m.mustOp = false
  stop : ∀ f, e = .libExhausted f →
    raisedBy (fun _ => true) tr e = true ∨ stopCond cfg m el f.stop = true
  give : 1 ≤ m.ops → m.done = false → e.isException = true → e.isAbort = false → e.isExhausted = false →
    raisedBy nonOp tr e = true ∨ (e = .libValueError ∧ m.sawOther = true) ∨
    (raisedBy isOp tr e = true ∧ m.classified = true ∧ anyStop cfg m el = true)
  grant : m.granted = true → (cfg.metric = true → m.retryEv = true) ∧
    (m.slept = true ∨ m.decision.isSome = true ∨
      ∀ f, e = .libExhausted f → raisedBy (fun _ => true) tr e = true ∨ f.stop = .aborted)

/-- a granted token has been reported -/
def GrantInv (cfg : Cfg) (m : St) : Prop := m.granted = true → cfg.metric = true → m.retryEv = true

/-- if the exception is an abort, the log shows the abort, and no other stop reason is recorded -/
def AbortOK (cfg : Cfg) (e : Exn) (w : World) : Prop :=
  e.isAbort = true →
    (cur cfg w.trace).sawAbort = true ∧ (w.rs.lastStop = none ∨ w.rs.lastStop = some .aborted)

/-- … unless an attempt hook raised -/
def Exc (cfg : Cfg) (e : Exn) (w : World) : Prop :=
  flt w.trace = false → ExcCore cfg e (cur cfg w.trace) (clk w.trace).el w.trace ∧ AbortOK cfg e w

theorem raisedBy_append (p : Req → Bool) (δ t : List (Req × Ans)) (e : Exn) :
    raisedBy p (δ ++ t) e = (raisedBy p δ e || raisedBy p t e) := by
  simp [raisedBy]

theorem raisedBy_head (p : Req → Bool) (r : Req) (e : Exn) (d : Nat) (t : List (Req × Ans)) (h : p r = true) :
    raisedBy p ((r, Ans.raise e d) :: t) e = true := by
  simp [raisedBy, h]

theorem raisedBy_any_of (p : Req → Bool) (t : List (Req × Ans)) (e : Exn) (h : raisedBy p t e = true) :
    raisedBy (fun _ => true) t e = true := by
  simp only [raisedBy, List.any_eq_true] at h ⊢
  obtain ⟨x, hx, h⟩ := h
  exact ⟨x, hx, by simp_all⟩

/-- a leaf that makes only inert requests failed: one of its callbacks raised -/
theorem exc_of_fe (cfg : Cfg) (bx : Bool) {e : Exn} {w w' : World} (h : FootE (loopRx bx) e w w')
    (hx : bx = true → (view cfg w).mon.refused = true)
    (hb : (view cfg w).mon.bad = false) (hg : GrantInv cfg (view cfg w).mon)
    (hm : (∀ r d rest, w'.trace = (r, Ans.raise e d) :: rest → isAttemptHook r = true) ∨
          ((view cfg w).mon.mustOp = false ∧
           (e.isAbort = false ∨
            (((view cfg w).stop = none ∨ (view cfg w).stop = some .aborted) ∧
             ∀ r d rest, w'.trace = (r, Ans.raise e d) :: rest → abortKind r = true)))) :
    Exc cfg e w' := by
  obtain ⟨δ, et, _, r, d, δ', hd, hr, q⟩ := h.trace
  subst hd
  intro hf
  have hc := cur_append_quiet cfg bx δ' w.trace q hx
  have hcur : cur cfg w'.trace =
      { cur cfg w.trace with sawAbort := (cur cfg w.trace).sawAbort || abortRaise (r, Ans.raise e d) } := by
    rw [et]
    simp only [List.cons_append, cur_cons, hc.1]
    exact step_inert' cfg bx _ (r, Ans.raise e d) _ hr hx
  have hrb : raisedBy nonOp w'.trace e = true := by
    rw [et]; exact raisedBy_head _ _ _ _ _ (by simp [nonOp, loopR_not_op bx r hr])
  have hm' : (cur cfg w.trace).mustOp = false ∧
      (e.isAbort = false ∨
        (((view cfg w).stop = none ∨ (view cfg w).stop = some .aborted) ∧ abortKind r = true)) := by
    rcases hm with hm | ⟨hm1, hm2⟩
    · have := hm r d (δ' ++ w.trace) (by simpa using et)
      rw [et] at hf
      simp [flt_cons, hookRaise, this] at hf
    · refine ⟨hm1, ?_⟩
      rcases hm2 with h | ⟨h1, h2⟩
      · exact Or.inl h
      · exact Or.inr ⟨h1, h2 r d (δ' ++ w.trace) (by simpa using et)⟩
  refine ⟨?_, ?_⟩
  · rw [hcur]
    exact ⟨hb, hm'.1, fun f _ => Or.inl (raisedBy_any_of _ _ _ hrb), fun _ _ _ _ _ => Or.inl hrb,
      fun h => ⟨hg h, Or.inr (Or.inr fun f _ => Or.inl (raisedBy_any_of _ _ _ hrb))⟩⟩
  · intro ha
    rcases hm'.2 with h | ⟨h1, h2⟩
    · simp [h] at ha
    · refine ⟨by rw [hcur]; simp [abortRaise, ha, h2], ?_⟩
      have hrs : w'.rs.lastStop = w.rs.lastStop := by rw [h.rs]
      rw [hrs]
      exact h1

/-- leaves whose requests all go to hooks whose `Exception`s are swallowed: the view does not move; a
    failure is a callback raising something that is not an `Exception` -/
theorem leaf_spec {α : Type} {x : M α} (cfg : Cfg) (bx : Bool)
    (hx : ∀ w0, ⦃fun w => ⌜FootQ (loopRx bx) w0 w⌝⦄ x ⦃fqPost (loopRx bx) w0⦄)
    (hnx : ⦃fun _ => ⌜True⌝⦄ x ⦃post⟨fun _ _ => ⌜True⌝, fun e _ => ⌜e.isException = false⌝⟩⦄) (v : View)
    (hr : bx = true → v.mon.refused = true)
    (hok : v.stopOk = true) (hb : v.mon.bad = false) (hg : GrantInv cfg v.mon) (hm : v.mon.mustOp = false) :
    ⦃fun w => ⌜view cfg w = v⌝⦄ x ⦃post⟨fun _ w => ⌜view cfg w = v⌝, fun e w => ⌜Exc cfg e w⌝⟩⦄ := by
  apply triple_of_run
  intro w hw
  have := adequacy (hx w) w (FootQ.refl (loopRx bx) w)
  have hn := adequacy hnx w trivial
  subst hw
  split <;> simp_all
  · exact view_fq cfg bx _ _ this hok hr
  · rename_i e w' _
    refine exc_of_fe cfg bx this hr hb hg (Or.inr ⟨hm, Or.inl ?_⟩)
    cases e <;> simp_all [Exn.isException, Exn.isAbort]

/-- leaves that ask one callback whose `AbortRetryError` aborts the run -/
theorem leaf_spec_ns {α : Type} {x : M α} (cfg : Cfg) (R : Req → Bool)
    (hR : ∀ r, R r = true → loopRx false r = true ∧ abortKind r = true)
    (hx : ∀ w0, ⦃fun w => ⌜FootQ R w0 w⌝⦄ x ⦃fqPost R w0⦄) (v : View)
    (hs : v.stop = none) (hok : v.stopOk = true) (hb : v.mon.bad = false) (hg : GrantInv cfg v.mon)
    (hm : v.mon.mustOp = false) :
    ⦃fun w => ⌜view cfg w = v⌝⦄ x ⦃post⟨fun _ w => ⌜view cfg w = v⌝, fun e w => ⌜Exc cfg e w⌝⟩⦄ := by
  apply triple_of_run
  intro w hw
  have := adequacy (hx w) w (FootQ.refl R w)
  subst hw
  split <;> simp_all
  · exact view_fq cfg false _ _ (this.mono (fun r h => (hR r h).1)) hok (by simp)
  · refine exc_of_fe cfg false (this.mono (fun r h => (hR r h).1)) (by simp) hb hg
      (Or.inr ⟨hm, Or.inr ⟨Or.inl hs, ?_⟩⟩)
    obtain ⟨δ, et, _, r, d, δ', hd, hr, _⟩ := this.trace
    intro r' d' rest h'
    rw [et, hd] at h'
    have h1 := (Prod.mk.inj (List.cons.inj h').1).1
    rw [← h1]
    exact (hR r hr).2

/-- requests of the attempt hooks -/
def hookR : Req → Bool
  | .attemptStart _ | .attemptEnd _ => true
  | _ => false

theorem hookR_loopR (r : Req) (h : hookR r = true) : loopRx false r = true := by
  cases r <;> simp_all [hookR, loopR, loopRx]

/-- leaves that only call attempt hooks: a failure is outside the property's environment -/
theorem hook_spec {α : Type} {x : M α} (cfg : Cfg)
    (hx : ∀ w0, ⦃fun w => ⌜FootQ hookR w0 w⌝⦄ x ⦃fqPost hookR w0⦄) (v : View)
    (hok : v.stopOk = true) (hb : v.mon.bad = false) (hg : GrantInv cfg v.mon) :
    ⦃fun w => ⌜view cfg w = v⌝⦄ x ⦃post⟨fun _ w => ⌜view cfg w = v⌝, fun e w => ⌜Exc cfg e w⌝⟩⦄ := by
  apply triple_of_run
  intro w hw
  have := adequacy (hx w) w (FootQ.refl hookR w)
  subst hw
  split <;> simp_all
  · exact view_fq cfg false _ _ (this.mono hookR_loopR) hok (by simp)
  · refine exc_of_fe cfg false (this.mono hookR_loopR) (by simp) hb hg (Or.inl ?_)
    obtain ⟨δ, et, _, r, d, δ', hd, hr, _⟩ := this.trace
    intro r' d' rest h'
    rw [et, hd] at h'
    have h1 := (Prod.mk.inj (List.cons.inj h').1).1
    rw [← h1]
    cases r <;> simp_all [hookR, isAttemptHook]


/-- a callback other than the operation raised and nothing caught it -/
theorem exc_of_raise (cfg : Cfg) {w' : World} {tr : List (Req × Ans)} {r : Req} {e : Exn} {d : Nat}
    (ht : w'.trace = (r, Ans.raise e d) :: tr) (hnop : isOp r = false)
    (hb : (cur cfg w'.trace).bad = false) (hg : GrantInv cfg (cur cfg w'.trace))
    (hm : isAttemptHook r = true ∨
          ((cur cfg w'.trace).mustOp = false ∧
           (e.isAbort = true → (cur cfg w'.trace).sawAbort = true ∧
              (w'.rs.lastStop = none ∨ w'.rs.lastStop = some .aborted)))) : Exc cfg e w' := by
  intro hf
  have hrb : raisedBy nonOp w'.trace e = true := by
    rw [ht]; exact raisedBy_head _ _ _ _ _ (by simp [nonOp, hnop])
  have hm' : (cur cfg w'.trace).mustOp = false ∧
      (e.isAbort = true → (cur cfg w'.trace).sawAbort = true ∧
        (w'.rs.lastStop = none ∨ w'.rs.lastStop = some .aborted)) := by
    rcases hm with hm | hm
    · rw [ht] at hf
      simp [flt_cons, hookRaise, hm] at hf
    · exact hm
  exact ⟨⟨hb, hm'.1, fun f _ => Or.inl (raisedBy_any_of _ _ _ hrb), fun _ _ _ _ _ => Or.inl hrb,
    fun h => ⟨hg h, Or.inr (Or.inr fun f _ => Or.inl (raisedBy_any_of _ _ _ hrb))⟩⟩, hm'.2⟩

/-- `emit` fails only with something that is not an `Exception` -/
theorem emit_nonexc (cfg : Cfg) (tl : Bool) (ev : Event) (a s : Nat) (k : Option EClass) (e : Option Exn)
    (st : Option StopReason) (c : Option Cause) (cl : Option Classification) :
    ⦃fun _ => ⌜True⌝⦄ emit cfg tl ev a s k e st c cl
    ⦃post⟨fun _ _ => ⌜True⌝, fun e' _ => ⌜e'.isException = false⌝⟩⦄ := by
  mvcgen [emit, metricHook, askMetric, askLog, askHook, swallowException, recordTimeline]
  all_goals simp_all

theorem callBeforeSleep_nonexc (cfg : Cfg) (ctx : BackoffCtx) (s : Nat) :
    ⦃fun _ => ⌜True⌝⦄ callBeforeSleep cfg ctx s
    ⦃post⟨fun _ _ => ⌜True⌝, fun e' _ => ⌜e'.isException = false⌝⟩⦄ := by
  mvcgen [callBeforeSleep, askHook, swallowException]
  all_goals simp_all

/-! ### leaf procedures -/

abbrev leafPost (cfg : Cfg) (v : View) : PostCond α (.except Exn (.arg World .pure)) :=
  post⟨fun _ w => ⌜view cfg w = v⌝, fun e w => ⌜Exc cfg e w⌝⟩

/-- events of the loop other than `retry` (and `budget_exhausted`, unless the budget has refused) -/
def plainEv (bx : Bool) (ev : Event) : Bool :=
  ev != .retry && !isBreakerEv ev && (bx || ev != .budgetExhausted)

@[simp] theorem isAbort_of_not_exception (e : Exn) (h : e.isException = false) : e.isAbort = false := by
  cases e <;> simp_all [Exn.isException, Exn.isAbort]

/-- requests to an adaptive strategy's `record_failure` / `record_success` -/
def recR : Req → Bool
  | .stratRecordFailure .. | .stratRecordSuccess _ => true
  | _ => false

theorem recR_ok (r : Req) (h : recR r = true) : loopRx false r = true ∧ abortKind r = true := by
  cases r <;> simp_all [recR, loopRx, loopR, abortKind]

section leaves
variable (cfg : Cfg) (tl : Bool) (v : View) (hok : v.stopOk = true) (hb : v.mon.bad = false)
  (hg : GrantInv cfg v.mon)
include hok hb hg

theorem emit_v (hm : v.mon.mustOp = false) (ev : Event) (hev : plainEv v.mon.refused ev = true) (a s : Nat)
    (k : Option EClass) (e : Option Exn) (st : Option StopReason) (c : Option Cause)
    (cl : Option Classification) :
    ⦃fun w => ⌜view cfg w = v⌝⦄ emit cfg tl ev a s k e st c cl ⦃leafPost cfg v⦄ :=
  leaf_spec cfg v.mon.refused (fun w0 => emit_fq (loopRx v.mon.refused) w0 cfg tl ev a s k e st c cl
    (fun _ => by cases ev <;> simp_all [loopRx, loopR, plainEv])
    (fun _ _ => by cases ev <;> simp_all [loopRx, loopR, plainEv]))
    (emit_nonexc cfg tl ev a s k e st c cl) v id hok hb hg hm

theorem callBeforeSleep_v (hm : v.mon.mustOp = false) (ctx : BackoffCtx) (s : Nat) :
    ⦃fun w => ⌜view cfg w = v⌝⦄ callBeforeSleep cfg ctx s ⦃leafPost cfg v⦄ :=
  leaf_spec cfg false (fun w0 => callBeforeSleep_fq (loopRx false) w0 cfg ctx s (fun _ => rfl))
    (callBeforeSleep_nonexc cfg ctx s) v (by simp) hok hb hg hm

theorem stratRecordFailure_v (hs : v.stop = none) (hm : v.mon.mustOp = false) (key : SKey) (k : EClass) :
    ⦃fun w => ⌜view cfg w = v⌝⦄ stratRecordFailure cfg key k ⦃leafPost cfg v⦄ :=
  leaf_spec_ns cfg recR recR_ok (fun w0 => stratRecordFailure_fq recR w0 cfg key k rfl) v hs hok hb hg hm

theorem recordStrategySuccess_v (hs : v.stop = none) (hm : v.mon.mustOp = false) :
    ⦃fun w => ⌜view cfg w = v⌝⦄ recordStrategySuccess cfg ⦃leafPost cfg v⦄ :=
  leaf_spec_ns cfg recR recR_ok (fun w0 => recordStrategySuccess_fq recR w0 cfg (fun _ => rfl)) v hs hok hb hg hm

theorem callAttemptStart_v (a : Nat) :
    ⦃fun w => ⌜view cfg w = v⌝⦄ callAttemptStart cfg a ⦃leafPost cfg v⦄ :=
  hook_spec cfg (fun w0 => callAttemptStart_fq hookR w0 cfg a (fun _ => rfl)) v hok hb hg

theorem callAttemptEnd_v (a : Nat) (cls : Option Classification) (exc : Option Exn) (result : Option Nat)
    (d : AttemptDecision) (stop : Option StopReason) (cause : Option Cause) (sleep : Option Nat) :
    ⦃fun w => ⌜view cfg w = v⌝⦄ callAttemptEnd cfg a cls exc result d stop cause sleep ⦃leafPost cfg v⦄ :=
  hook_spec cfg (fun w0 => callAttemptEnd_fq hookR w0 cfg a cls exc result d stop cause sleep (fun _ => rfl))
    v hok hb hg

theorem handleSuccessAttemptEnd_v (hs : v.stop = none) (hm : v.mon.mustOp = false) (a x : Nat) :
    ⦃fun w => ⌜view cfg w = v⌝⦄ handleSuccessAttemptEnd cfg tl a x ⦃leafPost cfg v⦄ := by
  have h1 := recordStrategySuccess_v cfg v hok hb hg hs hm
  have h2 := emit_v cfg tl v hok hb hg hm .success (by simp [plainEv, isBreakerEv]) a 0 none none none none none
  have h3 := callAttemptEnd_v cfg v hok hb hg a none none (some x) .success none none none
  mvcgen [handleSuccessAttemptEnd, h1, h2, h3]

theorem callAttemptEndFromOutcome_v (a : Nat) (o : AOutcome) :
    ⦃fun w => ⌜view cfg w = v⌝⦄ callAttemptEndFromOutcome cfg a o ⦃leafPost cfg v⦄ :=
  hook_spec cfg (fun w0 => callAttemptEndFromOutcome_fq hookR w0 cfg a o (fun _ => rfl)) v hok hb hg

theorem handleAbortAttemptEnd_v (a : Nat) (e : Exn) :
    ⦃fun w => ⌜view cfg w = v⌝⦄ handleAbortAttemptEnd cfg a e ⦃leafPost cfg v⦄ :=
  hook_spec cfg (fun w0 => handleAbortAttemptEnd_fq hookR w0 cfg a e (fun _ => rfl)) v hok hb hg

end leaves


/-! ### requests the monitor follows: one `ask` each -/

@[simp] theorem view_mon (cfg : Cfg) (w : World) : (view cfg w).mon = cur cfg w.trace := rfl
@[simp] theorem view_flt (cfg : Cfg) (w : World) : (view cfg w).flt = flt w.trace := rfl

/-- the library itself raises `e` (not a report of exhaustion) -/
theorem exc_made (cfg : Cfg) {w' : World} {e : Exn} (hne : ∀ f, e ≠ .libExhausted f)
    (hb : (cur cfg w'.trace).bad = false) (hm : flt w'.trace = false → (cur cfg w'.trace).mustOp = false)
    (hgr : GrantInv cfg (cur cfg w'.trace))
    (hg : e.isException = false ∨ e.isAbort = true ∨ e.isExhausted = true ∨
          (e = .libValueError ∧ (cur cfg w'.trace).sawOther = true))
    (hab : e.isAbort = true → (cur cfg w'.trace).sawAbort = true ∧
      (w'.rs.lastStop = none ∨ w'.rs.lastStop = some .aborted)) :
    Exc cfg e w' := by
  intro hf
  refine ⟨⟨hb, hm hf, fun f h => absurd h (hne f), fun _ _ h1 h2 h3 => ?_,
    fun h => ⟨hgr h, Or.inr (Or.inr fun f h => absurd h (hne f))⟩⟩, hab⟩
  rcases hg with h | h | h | h <;> simp_all

/-- the run ends with an exception that is neither an attempt failure nor a report of exhaustion -/
theorem exc_plain (cfg : Cfg) {w' : World} {e : Exn} (hne : ∀ f, e ≠ .libExhausted f)
    (hg : e.isException = false ∨ e.isAbort = true ∨ e.isExhausted = true)
    (hb : (cur cfg w'.trace).bad = false) (hm : flt w'.trace = false → (cur cfg w'.trace).mustOp = false)
    (hgr : GrantInv cfg (cur cfg w'.trace))
    (hab : e.isAbort = true → (cur cfg w'.trace).sawAbort = true ∧
      (w'.rs.lastStop = none ∨ w'.rs.lastStop = some .aborted)) :
    Exc cfg e w' :=
  exc_made cfg hne hb hm hgr (by rcases hg with h | h | h <;> simp [h]) hab

/-! #### phases of an attempt (predicates on the view) -/

/-- inside attempt `n`: the operation has been called, the run has not stopped, no backoff yet -/
def Core (cfg : Cfg) (n : Nat) (v : View) : Prop :=
  v.mon.ops = n ∧ 1 ≤ n ∧ n ≤ cfg.maxAttempts ∧ v.mon.bad = false ∧ v.flt = false ∧ v.sync = true ∧
  v.stop = none ∧ v.stopOk = true ∧ v.mon.mustOp = false ∧ v.mon.decision = none ∧ v.mon.slept = false

/-- no strategy has been asked in this attempt -/
def NoStrat (v : View) : Prop :=
  v.mon.strat = false ∧ v.mon.granted = false ∧ v.mon.retryEv = false ∧ v.mon.pollFalse = false ∧
  v.mon.refused = false

/-- the runner's failure counters agree with the log -/
def CntOK (v : View) : Prop :=
  (∀ k, v.counts k = v.mon.classCount k) ∧ v.unknown = v.mon.classCount .unknown

/-- the top of the loop after `n` attempts -/
def Rel (cfg : Cfg) (n : Nat) (v : View) : Prop :=
  v.mon.ops = n ∧ v.mon.bad = false ∧ v.mon.done = false ∧ v.flt = false ∧ v.sync = true ∧ v.stop = none ∧
  v.stopOk = true ∧ CntOK v ∧ (1 ≤ n → v.mon.slept = true) ∧ (n = 0 → v.noExc = true ∧ v.mon.mustOp = false ∧ v.mon.granted = false) ∧
  (n = 0 ∨ n < cfg.maxAttempts) ∧ GrantInv cfg v.mon

/-- the failure of attempt `n` has been classified as `k`; the runner has not counted it yet -/
def ClsA (k : EClass) (v : View) : Prop :=
  v.mon.classified = true ∧ v.mon.lastClass = some k ∧
  (∀ k', v.mon.classCount k' = if k' = k then v.counts k' + 1 else v.counts k') ∧
  v.unknown + (if EClass.unknown = k then 1 else 0) = v.mon.classCount .unknown

/-- … the runner has counted it in `per_class_counts` -/
def ClsB (k : EClass) (v : View) : Prop :=
  v.mon.classified = true ∧ v.mon.lastClass = some k ∧ (∀ k', v.counts k' = v.mon.classCount k') ∧
  v.unknown + (if EClass.unknown = k then 1 else 0) = v.mon.classCount .unknown

/-- … and in `unknown_attempts` -/
def ClsC (k : EClass) (v : View) : Prop :=
  v.mon.classified = true ∧ v.mon.lastClass = some k ∧ CntOK v

/-- the strategy has computed a delay; the budget has not been consulted -/
def Strat (cfg : Cfg) (n : Nat) (v : View) : Prop :=
  Core cfg n v ∧ v.mon.strat = true ∧ v.mon.granted = false ∧ v.mon.retryEv = false ∧
  v.mon.pollFalse = false ∧ v.mon.refused = false ∧ n < cfg.maxAttempts ∧ v.mon.done = false

/-- the budget granted a token (or there is no budget) -/
def Gr (cfg : Cfg) (n : Nat) (v : View) : Prop :=
  Core cfg n v ∧ v.mon.strat = true ∧ v.mon.granted = cfg.budget.isSome ∧ v.mon.pollFalse = false ∧
  v.mon.refused = false ∧ n < cfg.maxAttempts ∧ v.mon.done = false

/-- the budget refused -/
def Refd (cfg : Cfg) (n : Nat) (v : View) : Prop :=
  Core cfg n v ∧ v.mon.strat = true ∧ v.mon.granted = false ∧ v.mon.refused = true ∧ v.mon.done = false

/-- reasons with which a failed attempt stops the run -/
def isFailure : StopReason → Bool
  | .aborted | .scheduled => false
  | _ => true

/-- the failure handler has decided to stop with reason `r` -/
def Stopped (cfg : Cfg) (n : Nat) (r : StopReason) (v : View) : Prop :=
  v.mon.ops = n ∧ 1 ≤ n ∧ v.mon.bad = false ∧ v.flt = false ∧ v.mon.mustOp = false ∧ v.mon.done = false ∧
  v.stop = some r ∧ v.stopOk = true ∧ v.mon.classified = true ∧ GrantInv cfg v.mon ∧
  (v.mon.granted = true → v.mon.slept = true ∨ v.mon.decision.isSome = true)

@[simp] theorem dur_unit (d : Nat) : (Ans.unit d).dur = d := rfl
@[simp] theorem dur_bool (b : Bool) (d : Nat) : (Ans.bool b d).dur = d := rfl
@[simp] theorem dur_value (v d : Nat) : (Ans.value v d).dur = d := rfl
@[simp] theorem dur_klass (c : Classification) (d : Nat) : (Ans.klass c d).dur = d := rfl
@[simp] theorem dur_noFailure (d : Nat) : (Ans.noFailure d).dur = d := rfl
@[simp] theorem dur_delay (s : SOut) (d : Nat) : (Ans.delay s d).dur = d := rfl
@[simp] theorem dur_decision (x : SleepDecision) (d : Nat) : (Ans.decision x d).dur = d := rfl
@[simp] theorem dur_raise (e : Exn) (d : Nat) : (Ans.raise e d).dur = d := rfl
@[simp] theorem dur_granted (b : Bool) : (Ans.granted b).dur = 0 := rfl
@[simp] theorem stuck_isException : Exn.stuck.isException = false := rfl
@[simp] theorem stuck_isAbort : Exn.stuck.isAbort = false := rfl
@[simp] theorem stuck_isExhausted : Exn.stuck.isExhausted = false := rfl
@[simp] theorem libAbort_isAbort : Exn.libAbort.isAbort = true := rfl
@[simp] theorem libAbort_isException : Exn.libAbort.isException = true := rfl
@[simp] theorem libValueError_isException : Exn.libValueError.isException = true := rfl
@[simp] theorem libValueError_isAbort : Exn.libValueError.isAbort = false := rfl
@[simp] theorem libValueError_isExhausted : Exn.libValueError.isExhausted = false := rfl
@[simp] theorem libExhausted_isExhausted (f : ExhaustedFields) : (Exn.libExhausted f).isExhausted = true := rfl
@[simp] theorem libExhausted_isAbort (f : ExhaustedFields) : (Exn.libExhausted f).isAbort = false := rfl

/-- a confirmed success in attempt `n` -/
def Succ (n : Nat) (v : View) : Prop :=
  v.mon.ops = n ∧ 1 ≤ n ∧ v.mon.bad = false ∧ v.flt = false ∧ v.mon.mustOp = false ∧ v.mon.done = true ∧
  v.stop = none ∧ v.stopOk = true ∧ v.mon.granted = false

/-- the retry has been granted and reported, the abort predicate polled: ready to back off -/
def Ready (cfg : Cfg) (n : Nat) (v : View) : Prop :=
  v.mon.ops = n ∧ 1 ≤ n ∧ n < cfg.maxAttempts ∧ v.mon.bad = false ∧ v.flt = false ∧ v.sync = true ∧
  v.stop = none ∧ v.stopOk = true ∧ v.mon.mustOp = false ∧ v.mon.slept = false ∧ v.mon.done = false ∧
  v.mon.strat = true ∧ v.mon.granted = cfg.budget.isSome ∧ v.mon.refused = false ∧
  v.mon.retryEv = cfg.metric ∧ v.mon.pollFalse = cfg.abortIf ∧ v.mon.classified = true ∧ CntOK v

/-- the backoff sleep has been requested -/
def Slept (cfg : Cfg) (n : Nat) (v : View) : Prop :=
  v.mon.ops = n ∧ 1 ≤ n ∧ n < cfg.maxAttempts ∧ v.mon.bad = false ∧ v.flt = false ∧ v.sync = true ∧
  v.stop = none ∧ v.stopOk = true ∧ v.mon.slept = true ∧ v.mon.done = false ∧
  v.mon.granted = cfg.budget.isSome ∧ v.mon.retryEv = cfg.metric ∧ v.mon.classified = true ∧ CntOK v

/-- the failure handler is about to stop the run -/
def PreStop (n : Nat) (v : View) : Prop :=
  v.mon.ops = n ∧ 1 ≤ n ∧ v.mon.bad = false ∧ v.flt = false ∧ v.mon.mustOp = false ∧ v.mon.done = false ∧
  v.stop = none ∧ v.sync = true ∧ v.mon.classified = true ∧ v.mon.granted = false

/-- the class of the failure permits a retry (what `_handle_failure` has checked before it selects a strategy) -/
def Permit (cfg : Cfg) (k : EClass) (v : View) : Prop :=
  k.nonRetryable = false ∧ overClass cfg v.mon k = false ∧ (k = .unknown → C03.overUnknown cfg v.mon = false)

/-- simp set that turns statements about the view of an explicit world into statements about fields -/
syntax "c03_simp" : tactic
macro_rules | `(tactic| c03_simp) => `(tactic|
  simp_all +zetaDelta [GrantInv, Core, NoStrat, CntOK, Rel, ClsA, ClsB, ClsC, bumpCount, view, cur_cons, clk_cons, flt_cons, hookRaise, Clock.tick,
    isPrelude, step, classify, abortKind, abortRaise, isAttemptHook, stopOkOf, raisedBy, isOp, lastOpExn, classStop, Permit, overClass, Mon.C03.overUnknown])

macro "c03_close" : tactic => `(tactic| all_goals (
  (try subst_vars) <;> (try c03_simp) <;> (try (and_intros <;> (try simp_all [Ans.dur]) <;> omega))))

/-! the view does not look at these parts of the world -/
@[simp] theorem view_prevSleep (cfg : Cfg) (s : World) (x : Option Nat) :
    view cfg { s with rs := { s.rs with prevSleep := x } } = view cfg s := rfl
@[simp] theorem view_lastStrategy (cfg : Cfg) (s : World) (x : Option SKey) :
    view cfg { s with rs := { s.rs with lastStrategy := x } } = view cfg s := rfl
@[simp] theorem view_as (cfg : Cfg) (s : World) (x : AState) : view cfg { s with as := x } = view cfg s := rfl
@[simp] theorem view_attempts (cfg : Cfg) (s : World) (x : Nat) :
    view cfg { s with attempts := x } = view cfg s := rfl
@[simp] theorem view_opCalls (cfg : Cfg) (s : World) (x : Nat) :
    view cfg { s with opCalls := x } = view cfg s := rfl

/-- what the failure handler leaves behind -/
def Decided (cfg : Cfg) (n : Nat) (d : Decision) (v : View) : Prop :=
  match d with
  | .raise => match v.stop with
    | some r => Stopped cfg n r v ∧ isFailure r = true
    | none => False
  | .retry _ _ => Gr cfg n v ∧ CntOK v ∧ v.mon.retryEv = cfg.metric ∧ v.mon.classified = true

/-- unfold the phase predicates, keep the view folded -/
syntax "c03_phase" : tactic
macro_rules | `(tactic| c03_phase) => `(tactic|
  simp_all +zetaDelta [Ready, Slept, Decided, GrantInv, PreStop, plainEv, isBreakerEv, Strat, Gr, Refd, Stopped, isFailure, Succ,
    Core, NoStrat, CntOK, Rel, ClsA, ClsB, ClsC, stopCond])

/-- chaining goals: first with the phases folded, then unfolded -/
macro "c03_chain" : tactic => `(tactic| all_goals (
  (try intros) <;> (try subst_vars) <;>
  first
    | (simp_all +zetaDelta; done)
    | (exact ⟨_, by assumption⟩)
    | (c03_phase; done)
    | skip))

/-- the operation is invoked -/
theorem invokeOp_spec (cfg : Cfg) (n : Nat) (u : View) (hr : Rel cfg n u) (hn : n < cfg.maxAttempts)
    (a : Nat) :
    ⦃fun w => ⌜view cfg w = u⌝⦄ invokeOp a
    ⦃post⟨fun _ w => ⌜Core cfg (n + 1) (view cfg w) ∧ NoStrat (view cfg w) ∧ CntOK (view cfg w) ∧
                      (view cfg w).mon.classified = false ∧
                      (view cfg w).mon.done = !cfg.resultClassifier⌝,
          fun e w => ⌜Core cfg (n + 1) (view cfg w) ∧ NoStrat (view cfg w) ∧ CntOK (view cfg w) ∧
                      (view cfg w).mon.classified = false ∧ (view cfg w).mon.done = false ∧
                      (e.isException = true → raisedBy isOp w.trace e = true) ∧
                      (e.isException = true → (view cfg w).opExn = some e) ∧
                      (e.isAbort = true → (view cfg w).mon.sawAbort = true)⌝⟩⦄ := by
  simp only [Rel] at hr
  mvcgen [invokeOp, ask]
  c03_close


/-- goals `Exc cfg e W` for an explicit world `W` whose newest exchange is the failing one -/
macro "c03_exc" : tactic => `(tactic| first
  | (refine exc_of_raise _ rfl rfl ?_ ?_ ?_ <;> c03_simp; done)
  | (refine exc_plain _ (by simp) (by simp) ?_ ?_ ?_ ?_ <;> c03_simp; done))

macro "c03_done" : tactic => `(tactic| all_goals (
  (try subst_vars) <;>
  first
    | c03_exc
    | ((try c03_simp) <;>
       (try (and_intros <;> (try intros) <;>
             first
               | omega
               | (simp_all; done)
               | (split <;> rename_i h <;>
                    first
                      | omega
                      | (rw [← h]; first | done | omega))
               | skip)))))

theorem bump_self (f : EClass → Nat) (k : EClass) : bumpCount f k k = f k + 1 := by simp [bumpCount]

theorem callClassifier_spec (cfg : Cfg) (n : Nat) (u : View) (hc : Core cfg n u) (hn : NoStrat u)
    (hk : CntOK u) (hcl : u.mon.classified = false) (hd : u.mon.done = false) (e : Exn) :
    ⦃fun w => ⌜view cfg w = u⌝⦄ callClassifier e
    ⦃post⟨fun c w => ⌜Core cfg n (view cfg w) ∧ NoStrat (view cfg w) ∧ ClsA c.klass (view cfg w) ∧
                      (view cfg w).mon.done = false⌝,
          fun e w => ⌜Exc cfg e w⌝⟩⦄ := by
  simp only [Core, NoStrat, CntOK] at hc hn hk
  mvcgen [callClassifier, ask]
  c03_done


macro_rules | `(tactic| c03_simp) => `(tactic|
  simp_all +zetaDelta [GrantInv, Succ, Core, NoStrat, CntOK, Rel, ClsA, ClsB, ClsC, bumpCount, view, cur_cons, clk_cons,
    flt_cons, hookRaise, Clock.tick, isPrelude, step, classify, abortKind, abortRaise, isAttemptHook, stopOkOf,
    raisedBy, isOp, lastOpExn, classStop, Permit, overClass, Mon.C03.overUnknown])

theorem shouldClassifyResult_spec (cfg : Cfg) (n : Nat) (u : View) (hc : Core cfg n u) (hn : NoStrat u)
    (hk : CntOK u) (hcl : u.mon.classified = false) (hd : u.mon.done = !cfg.resultClassifier) (x : Nat) :
    ⦃fun w => ⌜view cfg w = u⌝⦄ shouldClassifyResult cfg x
    ⦃post⟨fun r w => ⌜match r with
                      | none => Succ n (view cfg w)
                      | some c => Core cfg n (view cfg w) ∧ NoStrat (view cfg w) ∧ ClsA c.klass (view cfg w) ∧
                                  (view cfg w).mon.done = false⌝,
          fun e w => ⌜Exc cfg e w⌝⟩⦄ := by
  simp only [Core, NoStrat, CntOK] at hc hn hk
  mvcgen [shouldClassifyResult, ask]
  c03_done

/-- the view after a poll that answered False -/
def pollV (cfg : Cfg) (u : View) : View :=
  if cfg.abortIf then { u with mon := { u.mon with pollFalse := u.mon.pollFalse || u.mon.strat } } else u

macro_rules | `(tactic| c03_simp) => `(tactic|
  simp_all +zetaDelta [Ready, Slept, Decided, PreStop, plainEv, isBreakerEv, GrantInv, Strat, Gr, Refd, Stopped, isFailure, pollV, stopCond, Succ, Core, NoStrat, CntOK, Rel, ClsA, ClsB, ClsC, bumpCount, view, cur_cons,
    clk_cons, flt_cons, hookRaise, Clock.tick, isPrelude, step, classify, abortKind, abortRaise, isAttemptHook,
    stopOkOf, raisedBy, isOp, lastOpExn, classStop, Permit, overClass, Mon.C03.overUnknown])

/-- `check_abort`: a poll that answers False changes nothing but `pollFalse`; True ends the run -/
theorem checkAbort_spec (cfg : Cfg) (tl : Bool) (u : View) (hs : u.stop = none) (hb : u.mon.bad = false)
    (hg : GrantInv cfg u.mon) (a : Nat) :
    ⦃fun w => ⌜view cfg w = u⌝⦄ checkAbort cfg tl a
    ⦃post⟨fun _ w => ⌜view cfg w = pollV cfg u⌝, fun e w => ⌜Exc cfg e w⌝⟩⦄ := by
  have he := fun v hok hb hg hm => emit_v cfg tl v hok hb hg hm .aborted (by simp [plainEv, isBreakerEv]) a 0
    none none (some .aborted) none none
  mvcgen [checkAbort, ask, setStop, modifyRS, he]
  all_goals (clear he)
  c03_done


theorem budgetConsume_spec (cfg : Cfg) (n : Nat) (u : View) (k : EClass) (hc : Strat cfg n u) (hk : ClsC k u) :
    ⦃fun w => ⌜view cfg w = u⌝⦄ budgetConsume cfg
    ⦃post⟨fun g w => ⌜ClsC k (view cfg w) ∧ (view cfg w).mon.retryEv = false ∧
                      (g = true → Gr cfg n (view cfg w)) ∧ (g = false → Refd cfg n (view cfg w))⌝,
          fun e w => ⌜Exc cfg e w⌝⟩⦄ := by
  simp only [Strat, Core, ClsC, CntOK] at hc hk
  mvcgen [budgetConsume]
  c03_done


/-- the `retry` event: reported to the metric hook exactly when one is configured -/
theorem emit_retry_spec (cfg : Cfg) (tl : Bool) (n : Nat) (u : View) (kc : EClass) (hc : Gr cfg n u)
    (hk : ClsC kc u) (hr : u.mon.retryEv = false)
    (a s : Nat) (k : Option EClass) (e : Option Exn) (st : Option StopReason) (c : Option Cause)
    (cl : Option Classification) :
    ⦃fun w => ⌜view cfg w = u⌝⦄ emit cfg tl .retry a s k e st c cl
    ⦃post⟨fun _ w => ⌜Gr cfg n (view cfg w) ∧ ClsC kc (view cfg w) ∧
                      (view cfg w).mon.retryEv = cfg.metric⌝,
          fun e w => ⌜Exc cfg e w⌝⟩⦄ := by
  simp only [Gr, Core, ClsC, CntOK] at hc hk
  mvcgen [emit, metricHook, askMetric, askLog, askHook, swallowException, recordTimeline]
  c03_done
  all_goals (sil_durs; omega)


/-- terminal branch of `_handle_failure` (reasons other than the deadline): the reason's condition holds -/
theorem stopWith_spec (cfg : Cfg) (tl : Bool) (n : Nat) (u : View) (r : StopReason) (ev : Event)
    (hp : PreStop n u) (hf : isFailure r = true) (hev : plainEv u.mon.refused ev = true)
    (hcond : ∀ el, stopCond cfg u.mon el r = true)
    (a : Nat) (k : EClass) (exc : Option Exn) (cause : Cause) :
    ⦃fun w => ⌜view cfg w = u⌝⦄ stopWith cfg tl r ev a k exc cause
    ⦃post⟨fun d w => ⌜d = .raise ∧ Stopped cfg n r (view cfg w)⌝, fun e w => ⌜Exc cfg e w⌝⟩⦄ := by
  have he := fun v hok hb hg hm hev =>
    emit_v cfg tl v hok hb hg hm ev hev a 0 (some k) exc (some r) (some cause) none
  simp only [PreStop] at hp
  mvcgen [stopWith, setStop, modifyRS, he]
  all_goals (clear he)
  c03_done


theorem handleFailure2_spec (cfg : Cfg) (tl : Bool) (n : Nat) (u : View) (c : Classification)
    (hc : Core cfg n u) (hn : NoStrat u) (hk : ClsC c.klass u) (hd : u.mon.done = false)
    (hp : Permit cfg c.klass u) (cause : Cause) (e : Option Exn) :
    ⦃fun w => ⌜view cfg w = u⌝⦄ handleFailure2 cfg tl c n cause e
    ⦃post⟨fun d w => ⌜Decided cfg n d (view cfg w)⌝, fun e w => ⌜Exc cfg e w⌝⟩⦄ := by
  have he := fun v hok hb hg hm ev hev r =>
    emit_v cfg tl v hok hb hg hm ev hev n 0 (some c.klass) e (some r) (some cause) none
  have h1 := fun v hok hb hg hs hm key => stratRecordFailure_v cfg v hok hb hg hs hm key c.klass
  have h2 := fun u hc hk => budgetConsume_spec cfg n u c.klass hc hk
  have h3 := fun u hc hk hr s => emit_retry_spec cfg tl n u c.klass hc hk hr n s (some c.klass) e none
    (some cause) (some c)
  simp only [Permit] at hp
  mvcgen [handleFailure2, elapsed, modifyRS, stopWith, setStop, grantRetry, getRS, callStrategy, ask,
    he, h1, h2, h3]
  all_goals (clear he h1 h2 h3)
  c03_chain
  c03_done

theorem overUnknown_mono (cfg : Cfg) (m : St) (x : Nat) (h : Retry.overUnknown cfg x = true)
    (hx : x ≤ m.classCount .unknown) : C03.overUnknown cfg m = true := by
  unfold Retry.overUnknown at h
  unfold C03.overUnknown
  cases hm : cfg.maxUnknown <;> simp [hm] at h ⊢
  omega

theorem overClass_of (cfg : Cfg) (m : St) (f : EClass → Nat) (k : EClass) (h : overPerClass cfg f k = true)
    (hx : f k = m.classCount k) : overClass cfg m k = true := by
  unfold overPerClass at h
  unfold overClass
  cases hm : cfg.perClass k <;> simp [hm] at h ⊢
  omega

theorem overUnknown_false_of (cfg : Cfg) (m : St) (x : Nat) (h : Retry.overUnknown cfg x = false)
    (hx : x = m.classCount .unknown) : C03.overUnknown cfg m = false := by
  unfold Retry.overUnknown at h
  unfold C03.overUnknown
  cases hm : cfg.maxUnknown <;> simp [hm] at h ⊢
  omega

theorem overClass_false_of (cfg : Cfg) (m : St) (f : EClass → Nat) (k : EClass)
    (h : overPerClass cfg f k = false) (hx : f k = m.classCount k) : overClass cfg m k = false := by
  unfold overPerClass at h
  unfold overClass
  cases hm : cfg.perClass k <;> simp [hm] at h ⊢
  omega

theorem handleUnknown_spec (cfg : Cfg) (tl : Bool) (n : Nat) (u : View) (c : Classification)
    (hc : Core cfg n u) (hn : NoStrat u) (hk : ClsB c.klass u) (hu : c.klass = .unknown)
    (hd : u.mon.done = false) (hoc : overClass cfg u.mon c.klass = false) (cause : Cause) (e : Option Exn) :
    ⦃fun w => ⌜view cfg w = u⌝⦄ handleUnknown cfg tl c n cause e
    ⦃post⟨fun d w => ⌜Decided cfg n d (view cfg w)⌝, fun e w => ⌜Exc cfg e w⌝⟩⦄ := by
  have h1 := fun u hp hev hcond => stopWith_spec cfg tl n u .maxUnknownAttempts .maxUnknownAttemptsExceeded hp rfl
    hev hcond n c.klass e cause
  have h2 := fun u hc hn hk hd hp => handleFailure2_spec cfg tl n u c hc hn hk hd hp cause e
  mvcgen [handleUnknown, getRS, modifyRS, h1, h2]
  all_goals (clear h1 h2)
  c03_chain
  c03_done
  all_goals first
    | (have h2 := hk.2.2.2; exact overUnknown_mono _ _ _ (by assumption) (by omega))
    | (have h2 := hk.2.2.2; exact overUnknown_false_of _ _ _ (by simpa using ‹¬ _›) (by omega))
    | (have h2 := hk.2.2.2; exact overUnknown_false_of _ _ _ (by assumption) (by omega))
    | rfl
    | skip

theorem handleFailure1_spec (cfg : Cfg) (tl : Bool) (n : Nat) (u : View) (c : Classification)
    (hc : Core cfg n u) (hn : NoStrat u) (hk : ClsB c.klass u) (hd : u.mon.done = false)
    (cause : Cause) (e : Option Exn) :
    ⦃fun w => ⌜view cfg w = u⌝⦄ handleFailure1 cfg tl c n cause e
    ⦃post⟨fun d w => ⌜Decided cfg n d (view cfg w)⌝, fun e w => ⌜Exc cfg e w⌝⟩⦄ := by
  have h1 := fun u r ev hp hf hev hcond => stopWith_spec cfg tl n u r ev hp hf hev hcond n c.klass e cause
  have h2 := fun u hc hn hk hd hp => handleFailure2_spec cfg tl n u c hc hn hk hd hp cause e
  have h3 := fun u hc hn hk hu hd hoc => handleUnknown_spec cfg tl n u c hc hn hk hu hd hoc cause e
  mvcgen [handleFailure1, getRS, h1, h2, h3]
  all_goals (clear h1 h2 h3)
  c03_chain
  c03_done
  all_goals first
    | exact overClass_of _ _ _ _ (by assumption) (hk.2.2.1 _)
    | exact overClass_false_of _ _ _ _ (by assumption) (hk.2.2.1 _)
    | exact overClass_false_of _ _ _ _ (by simpa using ‹¬ _›) (hk.2.2.1 _)
    | (have h2 := hk.2.2.2
       rw [if_neg (fun h => (‹¬ c.klass = EClass.unknown›) h.symm)] at h2
       simpa using h2)
    | skip


theorem handleFailure_spec (cfg : Cfg) (tl : Bool) (n : Nat) (u : View) (c : Classification)
    (hc : Core cfg n u) (hn : NoStrat u) (hk : ClsA c.klass u) (hd : u.mon.done = false)
    (cause : Cause) (e : Option Exn) (r : Option Nat) :
    ⦃fun w => ⌜view cfg w = u⌝⦄ handleFailure cfg tl c n cause e r
    ⦃post⟨fun d w => ⌜Decided cfg n d (view cfg w)⌝, fun e w => ⌜Exc cfg e w⌝⟩⦄ := by
  have h1 := fun u hc hn hk hd => handleFailure1_spec cfg tl n u c hc hn hk hd cause e
  mvcgen [handleFailure, Retry.recordFailure, modifyRS, h1]
  all_goals (clear h1)
  c03_chain
  c03_done
  all_goals (
    have h := hk.2.2.2
    rw [hk.2.2.1 EClass.unknown] at h
    exact h)

theorem handleException_spec (cfg : Cfg) (tl : Bool) (n : Nat) (u : View) (hc : Core cfg n u) (hn : NoStrat u)
    (hk : CntOK u) (hcl : u.mon.classified = false) (hd : u.mon.done = false) (e : Exn) :
    ⦃fun w => ⌜view cfg w = u⌝⦄ handleException cfg tl e n
    ⦃post⟨fun d w => ⌜Decided cfg n d (view cfg w)⌝, fun e w => ⌜Exc cfg e w⌝⟩⦄ := by
  have h1 := fun u hc hn hk hcl hd => callClassifier_spec cfg n u hc hn hk hcl hd e
  have h2 := fun u c hc hn hk hd => handleFailure_spec cfg tl n u c hc hn hk hd .exception (some e) none
  mvcgen [handleException, h1, h2]
  all_goals (clear h1 h2)
  c03_chain
  c03_done

/-- the sleep handler is asked -/
theorem callSleepHandler_spec (cfg : Cfg) (n : Nat) (u : View) (hr : Ready cfg n u) (hdn : u.mon.decision = none)
    (lvl : Lvl) (ctx : BackoffCtx) (s : Nat) :
    ⦃fun w => ⌜view cfg w = u⌝⦄ callSleepHandler lvl ctx s
    ⦃post⟨fun d w => ⌜Ready cfg n (view cfg w) ∧ (view cfg w).mon.decision = some d ∧
                      (d = .abort → (view cfg w).mon.sawAbort = true) ∧
                      (d = .defer → (view cfg w).mon.sawDefer = true) ∧
                      (d = .other → (view cfg w).mon.sawOther = true)⌝,
          fun e w => ⌜Exc cfg e w⌝⟩⦄ := by
  simp only [Ready, CntOK] at hr
  mvcgen [callSleepHandler, ask]
  c03_done

/-- the sleeper is asked: permitted; and if it returns, the monitor expects another attempt exactly when the
    loop will make one -/
theorem callSleeper_spec (cfg : Cfg) (n : Nat) (u : View) (hr : Ready cfg n u)
    (hdn : u.mon.decision = if cfg.handler.isSome then some .sleep else none) (s : Nat) :
    ⦃fun w => ⌜view cfg w = u⌝⦄ callSleeper cfg s
    ⦃post⟨fun _ w => ⌜Slept cfg n (view cfg w) ∧
                      (view cfg w).mon.mustOp = decide (w.now - w.rs.start ≤ cfg.deadline)⌝,
          fun e w => ⌜Exc cfg e w⌝⟩⦄ := by
  simp only [Ready, CntOK] at hr
  mvcgen [callSleeper, ask]
  c03_done

/-- `aborted` is recorded and reported once -/
theorem emitAbortedOnce_spec (cfg : Cfg) (tl : Bool) (u : View) (hsa : u.mon.sawAbort = true)
    (hok : u.stopOk = true) (hb : u.mon.bad = false) (hg : GrantInv cfg u.mon) (hm : u.mon.mustOp = false)
    (a : Nat) :
    ⦃fun w => ⌜view cfg w = u⌝⦄ emitAbortedOnce cfg tl a
    ⦃post⟨fun _ w => ⌜view cfg w = { u with stop := some .aborted, stopOk := true }⌝,
          fun e w => ⌜Exc cfg e w⌝⟩⦄ := by
  have he := fun v hok hb hg hm => emit_v cfg tl v hok hb hg hm .aborted (by simp [plainEv, isBreakerEv]) a 0
    none none (some .aborted) none none
  mvcgen [emitAbortedOnce, getRS, setStop, modifyRS, he]
  all_goals (clear he)
  c03_chain
  c03_done

theorem handleSleepDecision_spec (cfg : Cfg) (tl : Bool) (n : Nat) (u : View) (act : SleepDecision)
    (hr : Ready cfg n u) (hdn : u.mon.decision = some act)
    (h1 : act = .abort → u.mon.sawAbort = true) (h2 : act = .defer → u.mon.sawDefer = true)
    (h3 : act = .other → u.mon.sawOther = true) (s : Nat) :
    ⦃fun w => ⌜view cfg w = u⌝⦄ handleSleepDecision cfg tl act n s
    ⦃post⟨fun r w => ⌜r = act ∧ (act = .sleep → view cfg w = u) ∧
                      (act = .defer → Stopped cfg n .scheduled (view cfg w)) ∧
                      (act = .abort → Stopped cfg n .aborted (view cfg w)) ∧ act ≠ .other⌝,
          fun e w => ⌜Exc cfg e w⌝⟩⦄ := by
  have he := fun v hok hb hg hm cl ex cs => emit_v cfg tl v hok hb hg hm .scheduled
    (by simp [plainEv, isBreakerEv]) n s cl ex (some .scheduled) cs none
  have ha := fun u hsa hok hb hg hm => emitAbortedOnce_spec cfg tl u hsa hok hb hg hm n
  simp only [Ready, CntOK] at hr
  cases act <;> mvcgen [handleSleepDecision, getRS, setStop, modifyRS, he, ha]
  all_goals (clear he ha)
  case other =>
    subst_vars
    refine exc_made cfg (by simp) ?_ ?_ ?_ (Or.inr (Or.inr (Or.inr ⟨rfl, ?_⟩))) (by simp) <;> c03_simp
  c03_chain
  c03_done


/-- the failure handler's decision, after the poll that follows a grant -/
def Decided2 (cfg : Cfg) (n : Nat) (d : Decision) (v : View) : Prop :=
  match d with
  | .raise => Decided cfg n .raise v
  | .retry _ _ => Ready cfg n v ∧ v.mon.decision = none

/-- what `_sync_failure_outcome` leaves behind, by attempt decision -/
def Fin (cfg : Cfg) (n : Nat) (o : AOutcome) (v : View) : Prop :=
  match o.decision with
  | .retry => Slept cfg n v
  | .success => False
  | _ => match v.stop with
    | some r => Stopped cfg n r v ∧ o.stop = some r ∧ (o.decision = .raise → isFailure r = true) ∧
                (o.decision = .scheduled → r = .scheduled) ∧ (o.decision = .aborted → r = .aborted)
    | none => False

macro_rules | `(tactic| c03_simp) => `(tactic|
  simp_all +zetaDelta [Fin, Decided2, Ready, Slept, Decided, PreStop, plainEv, isBreakerEv, GrantInv, Strat, Gr, Refd,
    Stopped, isFailure, pollV, stopCond, Succ, Core, NoStrat, CntOK, Rel, ClsA, ClsB, ClsC, bumpCount, view,
    cur_cons, clk_cons, flt_cons, hookRaise, Clock.tick, isPrelude, step, classify, abortKind, abortRaise,
    isAttemptHook, stopOkOf, raisedBy, isOp, lastOpExn, classStop, Permit, overClass, Mon.C03.overUnknown])

macro_rules | `(tactic| c03_phase) => `(tactic|
  simp_all +zetaDelta [Fin, Decided2, Ready, Slept, Decided, GrantInv, PreStop, plainEv, isBreakerEv, Strat, Gr, Refd,
    Stopped, isFailure, Succ, Core, NoStrat, CntOK, Rel, ClsA, ClsB, ClsC, stopCond, pollV])

/-- after the grant, a poll that answers False makes the attempt ready to back off -/
theorem decided2_of_poll (cfg : Cfg) (n : Nat) (s : Nat) (c : BackoffCtx) (v : View)
    (h : Decided cfg n (.retry s c) v) : Decided2 cfg n (.retry s c) (pollV cfg v) := by
  simp only [Decided, Decided2, Gr, Core, Ready, CntOK, pollV] at *
  split <;> simp_all

/-- what the backoff leaves behind, by the handler's decision -/
def AfterSleep (cfg : Cfg) (n : Nat) (r : SleepDecision) (w : World) : Prop :=
  (r = .sleep → Slept cfg n (view cfg w) ∧
                (view cfg w).mon.mustOp = decide (w.now - w.rs.start ≤ cfg.deadline)) ∧
  (r = .defer → Stopped cfg n .scheduled (view cfg w)) ∧
  (r = .abort → Stopped cfg n .aborted (view cfg w)) ∧ r ≠ .other

/-- `_sync_sleep_action` -/
theorem sleepAction_spec (cfg : Cfg) (tl : Bool) (n : Nat) (u : View) (hr : Ready cfg n u)
    (hdn : u.mon.decision = none) (s : Nat) (ctx : BackoffCtx) :
    ⦃fun w => ⌜view cfg w = u⌝⦄ sleepAction cfg tl n s ctx
    ⦃post⟨fun r w => ⌜AfterSleep cfg n r w⌝, fun e w => ⌜Exc cfg e w⌝⟩⦄ := by
  have h1 := fun u hr hdn lvl ctx s => callSleepHandler_spec cfg n u hr hdn lvl ctx s
  have h2 := fun u act hr hdn a1 a2 a3 s => handleSleepDecision_spec cfg tl n u act hr hdn a1 a2 a3 s
  have h3 := fun v hok hb hg hm ctx s => callBeforeSleep_v cfg v hok hb hg hm ctx s
  have h4 := fun u hr hdn s => callSleeper_spec cfg n u hr hdn s
  mvcgen [sleepAction, h1, h2, h3, h4]
  all_goals (clear h1 h2 h3 h4)
  all_goals (try simp only [AfterSleep])
  c03_chain
  exact ⟨fun _ => by assumption, by simp, by simp, by simp⟩

/-- `_sync_failure_outcome`: back off (if the decision is "retry") and finalise the attempt -/
theorem failureOutcome_spec (cfg : Cfg) (tl : Bool) (n : Nat) (u : View) (d : Decision)
    (hd : Decided2 cfg n d u) (cls : Option Classification) (e : Option Exn) (r : Option Nat)
    (c : Option Cause) :
    ⦃fun w => ⌜view cfg w = u⌝⦄ failureOutcome cfg tl n d cls e r c
    ⦃post⟨fun o w => ⌜Fin cfg n o (view cfg w)⌝, fun e w => ⌜Exc cfg e w⌝⟩⦄ := by
  cases d with
  | raise =>
    mvcgen [failureOutcome, finalizeAttempt, getRS]
    subst_vars
    simp only [Decided2, Decided] at hd
    have hst : ∀ w : World, w.rs.lastStop = (view cfg w).stop := fun _ => rfl
    simp +zetaDelta only [Fin, hst]
    split at hd <;> simp_all
  | retry s ctx =>
    have he := fun v hok hb hg hm ev hev k st =>
      emit_v cfg tl v hok hb hg hm ev hev n 0 k e st c none
    have h1 := fun u hr hdn => sleepAction_spec cfg tl n u hr hdn s ctx
    simp only [Decided2] at hd
    mvcgen [failureOutcome, finalizeAttempt, getRS, elapsed, setStop, modifyRS, he, h1]
    all_goals (clear he h1)
    all_goals (try simp only [AfterSleep] at *)
    c03_chain
    all_goals (cases ‹SleepDecision›)
    c03_chain
    c03_done

theorem anyStop_of (cfg : Cfg) (m : St) (el : Nat) (r : StopReason) (h : stopCond cfg m el r = true)
    (hf : isFailure r = true) : anyStop cfg m el = true := by
  cases r <;> simp_all [anyStop, isFailure]

theorem stopCond_of_view (cfg : Cfg) (w : World) (r : StopReason) (hs : (view cfg w).stop = some r)
    (hok : (view cfg w).stopOk = true) : stopCond cfg (cur cfg w.trace) (clk w.trace).el r = true := by
  have hs' : w.rs.lastStop = some r := hs
  simpa [view, stopOkOf, hs'] using hok

/-- the library reports exhaustion with the recorded stop reason -/
theorem exc_lib_exhausted (cfg : Cfg) {w : World} {n : Nat} {r : StopReason} (f : ExhaustedFields)
    (hS : Stopped cfg n r (view cfg w)) (hf : f.stop = r) : Exc cfg (.libExhausted f) w := by
  have hc := stopCond_of_view cfg w r hS.2.2.2.2.2.2.1 hS.2.2.2.2.2.2.2.1
  simp only [Stopped, GrantInv, view_mon] at hS
  intro _
  refine ⟨⟨hS.2.2.1, hS.2.2.2.2.1, fun f' h => ?_, fun _ _ _ _ h => by simp at h,
    fun hg => ⟨hS.2.2.2.2.2.2.2.2.2.1 hg, ?_⟩⟩, fun h => by simp at h⟩
  · cases h; exact Or.inr (hf ▸ hc)
  · rcases hS.2.2.2.2.2.2.2.2.2.2 hg with h | h
    · exact Or.inl h
    · exact Or.inr (Or.inl h)

/-- the run was aborted -/
theorem exc_lib_abort (cfg : Cfg) {w : World} {n : Nat}
    (hS : Stopped cfg n .aborted (view cfg w)) : Exc cfg .libAbort w := by
  have hc := stopCond_of_view cfg w .aborted hS.2.2.2.2.2.2.1 hS.2.2.2.2.2.2.2.1
  have hst : w.rs.lastStop = some .aborted := hS.2.2.2.2.2.2.1
  simp only [Stopped, view_mon] at hS
  exact exc_made cfg (by simp) hS.2.2.1 (fun _ => hS.2.2.2.2.1) hS.2.2.2.2.2.2.2.2.2.1 (Or.inr (Or.inl rfl))
    (fun _ => ⟨by simpa [stopCond] using hc, Or.inr hst⟩)

/-- `call()` re-raises the operation's exception: the failure was classified and a stop condition holds -/
theorem exc_reraise (cfg : Cfg) {w : World} {n : Nat} {r : StopReason} {e : Exn}
    (hS : Stopped cfg n r (view cfg w)) (hfail : isFailure r = true) (hrb : raisedBy isOp w.trace e = true)
    (hex : e.isExhausted = false) (hna : e.isAbort = false) : Exc cfg e w := by
  have hc := stopCond_of_view cfg w r hS.2.2.2.2.2.2.1 hS.2.2.2.2.2.2.2.1
  simp only [Stopped, GrantInv, view_mon] at hS
  intro _
  refine ⟨⟨hS.2.2.1, hS.2.2.2.2.1, fun f h => ?_,
    fun _ _ _ _ _ => Or.inr (Or.inr ⟨hrb, hS.2.2.2.2.2.2.2.2.1, anyStop_of cfg _ _ r hc hfail⟩),
    fun hg => ⟨hS.2.2.2.2.2.2.2.2.2.1 hg, ?_⟩⟩, fun h => by simp [hna] at h⟩
  · subst h; simp at hex
  · rcases hS.2.2.2.2.2.2.2.2.2.2 hg with h | h
    · exact Or.inl h
    · exact Or.inr (Or.inl h)

/-- what follows the attempt's outcome in call mode, exception path -/
theorem deliverCall_exn_spec (cfg : Cfg) (n : Nat) (u : View) (o : AOutcome) (rs : RState) (e : Exn)
    (fb : ExhaustedFields) (hF : Fin cfg n o u) (hex : e.isExhausted = false) (hna : e.isAbort = false) :
    ⦃fun w => ⌜view cfg w = u⌝⦄ deliverCall (determineAction o rs n false) (some e) fb
    ⦃post⟨fun r w => ⌜r = none ∧ Slept cfg n (view cfg w)⌝,
          fun e' w => ⌜raisedBy isOp w.trace e = true → Exc cfg e' w⌝⟩⦄ := by
  unfold determineAction
  simp only [Fin] at hF
  cases hdec : o.decision <;> simp only [hdec] at hF ⊢ <;> mvcgen [deliverCall]
  all_goals (subst_vars)
  case retry => exact ⟨trivial, hF⟩
  case raise =>
    split at hF <;> first | contradiction | exact fun hrb => exc_reraise cfg hF.1 (by simp_all) hrb hex hna
  case scheduled =>
    split at hF <;> first | contradiction | exact fun _ => exc_lib_exhausted cfg _ hF.1 (by simp [hF.2.1])
  case aborted =>
    split at hF <;> first
      | contradiction
      | (obtain ⟨hS, _, _, _, hr⟩ := hF; subst hr; exact fun _ => exc_lib_abort cfg hS)


/-- what follows the attempt's outcome in call mode, result path -/
theorem deliverCall_res_spec (cfg : Cfg) (n : Nat) (u : View) (o : AOutcome) (rs : RState)
    (fb : ExhaustedFields) (hF : Fin cfg n o u) :
    ⦃fun w => ⌜view cfg w = u⌝⦄ deliverCall (determineAction o rs n true) none fb
    ⦃post⟨fun r w => ⌜r = none ∧ Slept cfg n (view cfg w)⌝, fun e' w => ⌜Exc cfg e' w⌝⟩⦄ := by
  unfold determineAction
  simp only [Fin] at hF
  cases hdec : o.decision <;> simp only [hdec] at hF ⊢ <;> mvcgen [deliverCall]
  all_goals (subst_vars)
  case retry => exact ⟨trivial, hF⟩
  case raise =>
    split at hF <;> first | contradiction | exact exc_lib_exhausted cfg _ hF.1 (by simp [hF.2.1])
  case scheduled =>
    split at hF <;> first | contradiction | exact exc_lib_exhausted cfg _ hF.1 (by simp [hF.2.1])
  case aborted =>
    split at hF <;> first
      | contradiction
      | (obtain ⟨hS, _, _, _, hr⟩ := hF; subst hr; exact exc_lib_abort cfg hS)


/-- a poll that answers False before any strategy was asked leaves the view alone -/
theorem pollV_noStrat (cfg : Cfg) (u : View) (h1 : u.mon.strat = false) (h2 : u.mon.pollFalse = false) :
    pollV cfg u = u := by
  unfold pollV
  split
  · obtain ⟨m, _, _, _, _, _, _, _, _⟩ := u
    cases m
    simp_all
  · rfl

theorem fin_basic (cfg : Cfg) (n : Nat) (o : AOutcome) (v : View) (h : Fin cfg n o v) :
    v.stopOk = true ∧ v.mon.bad = false ∧ GrantInv cfg v.mon ∧ v.flt = false := by
  simp only [Fin] at h
  cases hd : o.decision <;> simp only [hd] at h
  case retry => simp only [Slept, GrantInv] at *; simp_all
  all_goals (split at h <;> first | contradiction | (simp only [Stopped, GrantInv] at *; simp_all))

/-- the log only grows during the retry loop, so "the operation raised `e`" is never forgotten -/
theorem rbOp_ext (e : Exn) (w w' : World) (h : Ext loopK w w') (hr : raisedBy isOp w.trace e = true) :
    raisedBy isOp w'.trace e = true := by
  obtain ⟨δ, ht⟩ := h.grows
  rw [ht, raisedBy_append, hr]
  simp

/-- a triple with an extra invariant that the program keeps (both exits) -/
theorem triple_and_inv {α : Type} {x : M α} {P I : World → Prop} {Q : α → World → Prop}
    {E : Exn → World → Prop}
    (h1 : ⦃fun w => ⌜P w⌝⦄ x ⦃post⟨fun a w => ⌜Q a w⌝, fun e w => ⌜I w → E e w⌝⟩⦄)
    (h2 : ⦃fun w => ⌜I w⌝⦄ x ⦃post⟨fun _ w => ⌜I w⌝, fun _ w => ⌜I w⌝⟩⦄) :
    ⦃fun w => ⌜P w ∧ I w⌝⦄ x ⦃post⟨fun a w => ⌜Q a w⌝, fun e w => ⌜E e w⌝⟩⦄ := by
  apply triple_of_run
  intro w hw
  have a1 := adequacy h1 w hw.1
  have a2 := adequacy h2 w hw.2
  split <;> simp_all

/-- one attempt in call mode: the loop goes on with the invariant, or the run has succeeded -/
abbrev attemptPost (cfg : Cfg) (n : Nat) : PostCond (Option Nat) (.except Exn (.arg World .pure)) :=
  post⟨fun r w => ⌜(r = none → Rel cfg n (view cfg w)) ∧ (r ≠ none → Succ n (view cfg w))⌝,
       fun e w => ⌜Exc cfg e w⌝⟩

theorem rel_of_slept (cfg : Cfg) (n : Nat) (v : View) (h : Slept cfg n v) : Rel cfg n v := by
  simp only [Slept, Rel, CntOK, GrantInv] at *
  obtain ⟨h1, h2, h3, h4, h5, h6, h7, h8, h9, h10, _, h12, _, h14, h15⟩ := h
  exact ⟨h1, h4, h10, h5, h6, h7, h8, ⟨h14, h15⟩, fun _ => h9, fun h0 => by omega, Or.inr h3,
    fun _ hm => by rw [h12, hm]⟩

@[simp] theorem isRaise_iff (d : Decision) : d.isRaise = true ↔ d = .raise := by
  cases d <;> simp [Decision.isRaise]

/-- a poll before any strategy was asked -/
theorem checkAbort_keep (cfg : Cfg) (tl : Bool) (u : View) (hs : u.stop = none) (hb : u.mon.bad = false)
    (hg : GrantInv cfg u.mon) (h1 : u.mon.strat = false) (h2 : u.mon.pollFalse = false) (a : Nat) :
    ⦃fun w => ⌜view cfg w = u⌝⦄ checkAbort cfg tl a
    ⦃post⟨fun _ w => ⌜view cfg w = u⌝, fun e w => ⌜Exc cfg e w⌝⟩⦄ := by
  have h := checkAbort_spec cfg tl u hs hb hg a
  rw [pollV_noStrat cfg u h1 h2] at h
  exact h

theorem decided2_cases (cfg : Cfg) (n : Nat) (d : Decision) (v : View) (h : Decided cfg n d v)
    (hd : d = .raise) : Decided2 cfg n d v := by
  subst hd; exact h

macro_rules | `(tactic| c03_phase) => `(tactic|
  simp_all +zetaDelta [pollV_noStrat, Fin, Decided2, Ready, Slept, Decided, GrantInv, PreStop, plainEv, isBreakerEv,
    Strat, Gr, Refd, Stopped, isFailure, Succ, Core, NoStrat, CntOK, Rel, ClsA, ClsB, ClsC, stopCond])

/-- the decision after the poll that follows it (no poll after "raise") -/
theorem decided2_of (cfg : Cfg) (n : Nat) (d : Decision) (v v' : View) (h : Decided cfg n d v)
    (h1 : d = .raise → v' = v) (h2 : d ≠ .raise → v' = pollV cfg v) : Decided2 cfg n d v' := by
  cases d with
  | raise => rw [h1 rfl]; exact h
  | retry s c => rw [h2 (by simp)]; exact decided2_of_poll cfg n s c v h

theorem callExceptionPath_core (cfg : Cfg) (n : Nat) (u : View) (e : Exn) (hc : Core cfg n u) (hn : NoStrat u)
    (hk : CntOK u) (hcl : u.mon.classified = false) (hd : u.mon.done = false)
    (hex : e.isExhausted = false) (hna : e.isAbort = false) :
    ⦃fun w => ⌜view cfg w = u⌝⦄ callExceptionPath cfg n e
    ⦃post⟨fun r w => ⌜(r = none → Rel cfg n (view cfg w)) ∧ (r ≠ none → Succ n (view cfg w))⌝,
          fun e' w => ⌜raisedBy isOp w.trace e = true → Exc cfg e' w⌝⟩⦄ := by
  have h1 := fun u hs hb hg => checkAbort_spec cfg false u hs hb hg n
  have h2 := fun u hc hn hk hcl hd => handleException_spec cfg false n u hc hn hk hcl hd e
  have h3 := fun u d hd cls => failureOutcome_spec cfg false n u d hd cls (some e) none (some .exception)
  have h4 := fun v hok hb hg o => callAttemptEndFromOutcome_v cfg v hok hb hg n o
  have h5 := fun u o rs hF => deliverCall_exn_spec cfg n u o rs e default hF hex hna
  mvcgen [callExceptionPath, getRS, modifyAS, h1, h2, h3, h4, h5]
  all_goals (clear h1 h2 h3 h4 h5)
  c03_chain
  all_goals first
    | exact (fin_basic _ _ _ _ (by assumption)).1
    | exact (fin_basic _ _ _ _ (by assumption)).2.1
    | exact (fin_basic _ _ _ _ (by assumption)).2.2.1
    | exact ⟨fun _ => rel_of_slept _ _ _ (by assumption), fun h => absurd rfl h⟩
    | (refine decided2_of cfg n _ _ _ (by assumption) ?_ ?_ <;> simp_all +zetaDelta; done)
    | (cases ‹Decision› <;> c03_phase; done)
    | skip

theorem not_exception_of_kise (e : Exn) (h : e.isKiSe = true) : e.isException = false := by
  cases e <;> simp_all [Exn.isKiSe, Exn.isException]

/-- the operation's exception propagates at once (abort, cancellation, nested exhaustion) -/
theorem exc_propagate (cfg : Cfg) {w : World} {e : Exn} (hb : (view cfg w).mon.bad = false)
    (hm : (view cfg w).mon.mustOp = false) (hgr : (view cfg w).mon.granted = false)
    (hgo : e.isException = false ∨ e.isAbort = true ∨ e.isExhausted = true)
    (hab : e.isAbort = true → (view cfg w).mon.sawAbort = true ∧
      ((view cfg w).stop = none ∨ (view cfg w).stop = some .aborted))
    (hrb : e.isException = true → raisedBy isOp w.trace e = true) : Exc cfg e w := by
  simp only [view_mon] at hb hm hgr hab
  intro _
  refine ⟨⟨hb, hm, fun f h => Or.inl ?_, fun _ _ h1 h2 h3 => ?_, fun h => by simp [hgr] at h⟩, hab⟩
  · subst h
    exact raisedBy_any_of _ _ _ (hrb rfl)
  · rcases hgo with h | h | h <;> simp_all

/-- the `except` ladder around `func()` in call mode -/
theorem callOpHandler_core (cfg : Cfg) (n : Nat) (u : View) (e : Exn) (hc : Core cfg n u) (hn : NoStrat u)
    (hk : CntOK u) (hcl : u.mon.classified = false) (hd : u.mon.done = false)
    (hsa : e.isAbort = true → u.mon.sawAbort = true) :
    ⦃fun w => ⌜view cfg w = u⌝⦄ callOpHandler cfg n e
    ⦃post⟨fun r w => ⌜(r = none → Rel cfg n (view cfg w)) ∧ (r ≠ none → Succ n (view cfg w))⌝,
          fun e' w => ⌜(e.isException = true → raisedBy isOp w.trace e = true) → Exc cfg e' w⌝⟩⦄ := by
  have h1 := fun v hok hb hg => handleAbortAttemptEnd_v cfg v hok hb hg n e
  have h2 := fun u hsa hok hb hg hm => emitAbortedOnce_spec cfg false u hsa hok hb hg hm n
  have h3 := fun u hc hn hk hcl hd hex hna => callExceptionPath_core cfg n u e hc hn hk hcl hd hex hna
  mvcgen [callOpHandler, h1, h2, h3]
  all_goals (clear h1 h2 h3)
  c03_chain
  all_goals (try subst_vars)
  all_goals first
    | (refine exc_propagate cfg ?_ ?_ ?_ ?_ ?_ (by assumption) <;>
        first
          | (simp_all [not_exception_of_kise]; done)
          | (c03_phase; done)
          | (left; rfl))
    | skip

/-- … with what the log says about where `e` came from -/
theorem callOpHandler_spec (cfg : Cfg) (n : Nat) (u : View) (e : Exn) (hc : Core cfg n u) (hn : NoStrat u)
    (hk : CntOK u) (hcl : u.mon.classified = false) (hd : u.mon.done = false)
    (hsa : e.isAbort = true → u.mon.sawAbort = true) :
    ⦃fun w => ⌜view cfg w = u ∧ (e.isException = true → raisedBy isOp w.trace e = true)⌝⦄
    callOpHandler cfg n e ⦃attemptPost cfg n⦄ :=
  triple_and_inv (callOpHandler_core cfg n u e hc hn hk hcl hd hsa)
    (inv_of_ext (fun w => e.isException = true → raisedBy isOp w.trace e = true)
      (fun w0 => callOpHandler_ext w0 cfg n e) (fun w w' h hi he => rbOp_ext e w w' h (hi he)))

/-- result-based failure in call mode -/
theorem callResultFailure_spec (cfg : Cfg) (n : Nat) (u : View) (x : Nat) (c : Classification)
    (hc : Core cfg n u) (hn : NoStrat u) (hk : ClsA c.klass u) (hd : u.mon.done = false) :
    ⦃fun w => ⌜view cfg w = u⌝⦄ callResultFailure cfg n x c ⦃attemptPost cfg n⦄ := by
  have h1 := fun u hs hb hg => checkAbort_spec cfg false u hs hb hg n
  have h2 := fun u hc hn hk hd => handleFailure_spec cfg false n u c hc hn hk hd .result none (some x)
  have h3 := fun u d hd => failureOutcome_spec cfg false n u d hd (some c) none (some x) (some .result)
  have h4 := fun v hok hb hg o => callAttemptEndFromOutcome_v cfg v hok hb hg n o
  have h5 := fun u o rs fb hF => deliverCall_res_spec cfg n u o rs fb hF
  mvcgen [callResultFailure, getRS, modifyAS, h1, h2, h3, h4, h5]
  all_goals (clear h1 h2 h3 h4 h5)
  c03_chain
  all_goals first
    | exact (fin_basic _ _ _ _ (by assumption)).1
    | exact (fin_basic _ _ _ _ (by assumption)).2.1
    | exact (fin_basic _ _ _ _ (by assumption)).2.2.1
    | exact ⟨fun _ => rel_of_slept _ _ _ (by assumption), fun h => absurd rfl h⟩
    | (refine decided2_of cfg n _ _ _ (by assumption) ?_ ?_ <;> simp_all +zetaDelta; done)
    | (cases ‹Decision› <;> c03_phase; done)
    | skip
  all_goals (simp only [NoStrat] at hn; simp +zetaDelta only [view_as]; rw [‹view cfg _ = pollV cfg _›, pollV_noStrat cfg _ hn.1 hn.2.2.2.1]; exact hk)

/-- after `func()` returned, call mode -/
theorem callResultPath_spec (cfg : Cfg) (n : Nat) (u : View) (x : Nat) (hc : Core cfg n u) (hn : NoStrat u)
    (hk : CntOK u) (hcl : u.mon.classified = false) (hd : u.mon.done = !cfg.resultClassifier) :
    ⦃fun w => ⌜view cfg w = u⌝⦄ callResultPath cfg n x ⦃attemptPost cfg n⦄ := by
  have h1 := fun u hc hn hk hcl hd => shouldClassifyResult_spec cfg n u hc hn hk hcl hd x
  have h2 := fun v hok hb hg hs hm => handleSuccessAttemptEnd_v cfg false v hok hb hg hs hm n x
  have h3 := fun u c hc hn hk hd => callResultFailure_spec cfg n u x c hc hn hk hd
  mvcgen [callResultPath, h1, h2, h3]
  all_goals (clear h1 h2 h3)
  c03_chain

theorem rel_pollV (cfg : Cfg) (n : Nat) (u : View) (h : Rel cfg n u) : Rel cfg n (pollV cfg u) := by
  simp only [Rel, CntOK, GrantInv, pollV] at *
  split <;> simp_all

/-- one iteration of the loop in call mode -/
theorem callAttempt_spec (cfg : Cfg) (n : Nat) (u : View) (hr : Rel cfg n u) (hlt : n < cfg.maxAttempts) :
    ⦃fun w => ⌜view cfg w = u⌝⦄ callAttempt cfg (n + 1) ⦃attemptPost cfg (n + 1)⦄ := by
  have h1 := fun u hs hb hg => checkAbort_spec cfg false u hs hb hg n
  have h2 := fun v hok hb hg => callAttemptStart_v cfg v hok hb hg (n + 1)
  have h3 := fun u hr => invokeOp_spec cfg n u hr hlt (n + 1)
  have h4 := fun u e hc hn hk hcl hd hsa => callOpHandler_spec cfg (n + 1) u e hc hn hk hcl hd hsa
  have h5 := fun u x hc hn hk hcl hd => callResultPath_spec cfg (n + 1) u x hc hn hk hcl hd
  mvcgen [callAttempt, modifyAS, h1, h2, h3, h4, h5]
  all_goals (clear h1 h2 h3 h4 h5)
  c03_chain
  all_goals (
    have hp := rel_pollV cfg n _ hr
    simp +zetaDelta only [view_as] at *
    first
      | (simp_all; done)
      | (simp only [Rel] at hp; simp_all; done))

/-- no attempt was made (`max_attempts = 0`) -/
theorem exc_zero (cfg : Cfg) {w : World} {e : Exn} (hops : (cur cfg w.trace).ops = 0)
    (hb : (cur cfg w.trace).bad = false) (hm : (cur cfg w.trace).mustOp = false)
    (hgr : (cur cfg w.trace).granted = false)
    (hstop : ∀ f, e = .libExhausted f → f.stop = .maxAttemptsGlobal ∧ cfg.maxAttempts = 0)
    (hna : e.isAbort = false) : Exc cfg e w := by
  intro _
  refine ⟨⟨hb, hm, fun f h => Or.inr ?_, fun h => by omega, fun h => by simp [hgr] at h⟩,
    fun h => by simp [hna] at h⟩
  obtain ⟨h1, h2⟩ := hstop f h
  simp [h1, stopCond, h2]

theorem raiseExhaustedCall_spec (cfg : Cfg) (u : View) (hr : Rel cfg 0 u) (h0 : cfg.maxAttempts = 0) :
    ⦃fun w => ⌜view cfg w = u⌝⦄ raiseExhaustedCall cfg
    ⦃post⟨fun _ _ => ⌜False⌝, fun e w => ⌜Exc cfg e w⌝⟩⦄ := by
  have he := fun v hok hb hg hm k ex cs => emit_v cfg false v hok hb hg hm .maxAttemptsExceeded
    (by simp [plainEv, isBreakerEv]) cfg.maxAttempts 0 k ex (some .maxAttemptsGlobal) cs none
  simp only [Rel, CntOK, GrantInv] at hr
  mvcgen [raiseExhaustedCall, emitMaxAttemptsExceeded, getRS, setStop, modifyRS, he]
  all_goals (clear he)
  c03_chain
  all_goals first
    | (refine exc_zero cfg ?_ ?_ ?_ ?_ ?_ (by first | rfl | simp) <;> c03_simp; done)
    | (exfalso; c03_simp; done)
    | skip

/-- what the verdict needs when a run returns a value -/
def RetOK (cfg : Cfg) (w : World) : Prop :=
  flt w.trace = false → ∃ n, Succ n (view cfg w)

/-- the loop of `_run_sync_call`: `fuel` iterations left after `n` attempts -/
theorem callLoop_spec (cfg : Cfg) : ∀ (fuel n : Nat) (u : View), Rel cfg n u → n + fuel = cfg.maxAttempts →
    ⦃fun w => ⌜view cfg w = u⌝⦄ callLoop cfg fuel (n + 1)
    ⦃post⟨fun _ w => ⌜RetOK cfg w⌝, fun e w => ⌜Exc cfg e w⌝⟩⦄ := by
  intro fuel
  induction fuel with
  | zero =>
    intro n u hr hn
    have h0 : n = 0 := by
      simp only [Rel] at hr
      omega
    subst h0
    have h1 := raiseExhaustedCall_spec cfg u hr (by omega)
    mvcgen [callLoop, h1]
    all_goals (intro h; exact absurd h id)
  | succ f ih =>
    intro n u hr hn
    have h1 := callAttempt_spec cfg n u hr (by omega)
    mvcgen [callLoop, h1]
    all_goals (clear h1)
    · rename_i hpost
      intro _
      exact ⟨n + 1, hpost.2 (by simp)⟩
    · intro s hrel _
      exact ih (n + 1) (view cfg s) hrel (by omega) s rfl


theorem initState_spec (cfg : Cfg) :
    ⦃fun w => ⌜cur cfg w.trace = {} ∧ clk w.trace = {} ∧ flt w.trace = false⌝⦄ initState
    ⦃post⟨fun _ w => ⌜Rel cfg 0 (view cfg w)⌝, fun _ _ => ⌜False⌝⟩⦄ := by
  mvcgen [initState]
  all_goals (simp_all +zetaDelta [Rel, CntOK, GrantInv, view, stopOkOf])

/-- `Retry.call` -/
theorem runCall_spec (cfg : Cfg) :
    ⦃fun w => ⌜cur cfg w.trace = {} ∧ clk w.trace = {} ∧ flt w.trace = false⌝⦄ runCall cfg
    ⦃post⟨fun _ w => ⌜RetOK cfg w⌝, fun e w => ⌜Exc cfg e w⌝⟩⦄ := by
  have h1 := initState_spec cfg
  have h2 := fun u hr => callLoop_spec cfg cfg.maxAttempts 0 u hr (by omega)
  mvcgen [runCall, h1, h2]
  all_goals (intros; assumption)

/-! ### execute mode -/

/-- what the verdict needs when `execute()` returns an outcome -/
structure OutCore (cfg : Cfg) (o : Outcome) (m : St) (el : Nat) : Prop where
  bad : m.bad = false
  must : m.mustOp = false
  stop : ∀ r, o.stop = some r → stopCond cfg m el r = true
  give : 1 ≤ m.ops → m.done = false → o.ok = false ∧ o.stop.isSome = true
  grant : m.granted = true → (cfg.metric = true → m.retryEv = true) ∧
    (m.slept = true ∨ m.decision.isSome = true ∨ o.stop = none ∨ o.stop = some .aborted)

def OutOK (cfg : Cfg) (o : Outcome) (w : World) : Prop :=
  flt w.trace = false → OutCore cfg o (cur cfg w.trace) (clk w.trace).el

/-- `_build_outcome` does not touch the world; the stop reason it reports is the recorded one -/
theorem buildOutcome_spec (cfg : Cfg) (u : View) (ok : Bool) (value : Option Nat) (n : Nat) (ns : Option Nat) :
    ⦃fun w => ⌜view cfg w = u⌝⦄ buildOutcome ok value n ns
    ⦃post⟨fun o w => ⌜view cfg w = u ∧ o.ok = ok ∧ o.stop = if ok then none else u.stop⌝,
          fun _ _ => ⌜False⌝⟩⦄ := by
  mvcgen [buildOutcome, getRS, elapsed]
  all_goals (subst_vars; simp [view])

theorem outOK_of_stopped (cfg : Cfg) {w : World} {n : Nat} {r : StopReason} {o : Outcome}
    (hS : Stopped cfg n r (view cfg w)) (ho : o.ok = false) (hs : o.stop = some r) : OutOK cfg o w := by
  have hc := stopCond_of_view cfg w r hS.2.2.2.2.2.2.1 hS.2.2.2.2.2.2.2.1
  simp only [Stopped, GrantInv, view_mon] at hS
  intro _
  refine ⟨hS.2.2.1, hS.2.2.2.2.1, fun r' h => ?_, fun _ _ => ⟨ho, by simp [hs]⟩, fun hg => ⟨hS.2.2.2.2.2.2.2.2.2.1 hg, ?_⟩⟩
  · rw [hs] at h; cases h; exact hc
  · rcases hS.2.2.2.2.2.2.2.2.2.2 hg with h | h
    · exact Or.inl h
    · exact Or.inr (Or.inl h)

theorem outOK_of_succ (cfg : Cfg) {w : World} {n : Nat} {o : Outcome} (hS : Succ n (view cfg w))
    (hs : o.stop = none) : OutOK cfg o w := by
  simp only [Succ, view_mon] at hS
  intro _
  exact ⟨hS.2.2.1, hS.2.2.2.2.1, fun r h => by simp [hs] at h, fun _ h => by simp [hS.2.2.2.2.2.1] at h,
    fun h => by simp [hS.2.2.2.2.2.2.2.2] at h⟩


/-- the run has been aborted (a poll answered True, or a callback raised `AbortRetryError`) -/
def Ab (cfg : Cfg) (v : View) : Prop :=
  v.mon.bad = false ∧ v.flt = false ∧ v.mon.mustOp = false ∧ v.stop = some .aborted ∧ v.stopOk = true ∧
  v.mon.sawAbort = true ∧ GrantInv cfg v.mon

theorem outOK_of_ab (cfg : Cfg) {w : World} {o : Outcome} (hA : Ab cfg (view cfg w)) (ho : o.ok = false)
    (hs : o.stop = some .aborted) : OutOK cfg o w := by
  simp only [Ab, GrantInv, view_mon] at hA
  intro _
  refine ⟨hA.1, hA.2.2.1, fun r h => ?_, fun _ _ => ⟨ho, by simp [hs]⟩,
    fun hg => ⟨hA.2.2.2.2.2.2 hg, Or.inr (Or.inr (Or.inr hs))⟩⟩
  rw [hs] at h; cases h
  simp [stopCond, hA.2.2.2.2.2.1]

/-- conjunction of the exceptional posts of two triples for the same program -/
theorem triple_and_exc {α : Type} {x : M α} {P : World → Prop} {Q : α → World → Prop}
    {E1 E2 : Exn → World → Prop}
    (h1 : ⦃fun w => ⌜P w⌝⦄ x ⦃post⟨fun a w => ⌜Q a w⌝, fun e w => ⌜E1 e w⌝⟩⦄)
    (h2 : ⦃fun _ => ⌜True⌝⦄ x ⦃post⟨fun _ _ => ⌜True⌝, fun e w => ⌜E2 e w⌝⟩⦄) :
    ⦃fun w => ⌜P w⌝⦄ x ⦃post⟨fun a w => ⌜Q a w⌝, fun e w => ⌜E1 e w ∧ E2 e w⌝⟩⦄ := by
  apply triple_of_run
  intro w hw
  have a1 := adequacy h1 w hw
  have a2 := adequacy h2 w trivial
  split <;> simp_all

theorem not_abort_of_not_exception (e : Exn) (h : e.isException = false) : e.isAbort = false :=
  isAbort_of_not_exception e h

macro_rules | `(tactic| c03_simp) => `(tactic|
  simp_all +zetaDelta [Ab, Fin, Decided2, Ready, Slept, Decided, PreStop, plainEv, isBreakerEv, GrantInv, Strat, Gr, Refd,
    Stopped, isFailure, pollV, stopCond, Succ, Core, NoStrat, CntOK, Rel, ClsA, ClsB, ClsC, bumpCount, view,
    cur_cons, clk_cons, flt_cons, hookRaise, Clock.tick, isPrelude, step, classify, abortKind, abortRaise,
    isAttemptHook, stopOkOf, raisedBy, isOp, lastOpExn, classStop, Permit, overClass, Mon.C03.overUnknown])

/-- how `check_abort` can fail, seen from `execute()`'s handlers -/
def XAb (cfg : Cfg) (e : Exn) (w : World) : Prop :=
  flt w.trace = true ∨ (e.isAbort = false ∧ e.isException = false ∧ Exc cfg e w) ∨
  (e = .libAbort ∧ Ab cfg (view cfg w))

theorem checkAbort_x (cfg : Cfg) (tl : Bool) (u : View) (hs : u.stop = none) (hb : u.mon.bad = false)
    (hg : GrantInv cfg u.mon) (hf : u.flt = false) (a : Nat) :
    ⦃fun w => ⌜view cfg w = u⌝⦄ checkAbort cfg tl a
    ⦃post⟨fun _ w => ⌜view cfg w = pollV cfg u⌝, fun e w => ⌜XAb cfg e w⌝⟩⦄ := by
  have he := fun v hok hb hg hm => triple_and_exc
    (emit_v cfg tl v hok hb hg hm .aborted (by simp [plainEv, isBreakerEv]) a 0 none none (some .aborted) none none)
    (emit_nonexc cfg tl .aborted a 0 none none (some .aborted) none none)
  mvcgen [checkAbort, ask, setStop, modifyRS, he]
  all_goals (clear he)
  all_goals (try subst_vars)
  all_goals first
    | (refine Or.inl ?_; simp [flt_cons, hookRaise, isAttemptHook]; done)
    | (intro hE hne; exact Or.inr (Or.inl ⟨not_abort_of_not_exception _ hne, hne, hE⟩))
    | (refine Or.inr (Or.inl ⟨rfl, rfl, ?_⟩); c03_exc)
    | (refine Or.inr (Or.inr ⟨rfl, ?_⟩); c03_simp; done)
    | skip
  c03_done


/-- the run can be ended as ABORTED here -/
def PreAb (cfg : Cfg) (v : View) : Prop :=
  v.mon.sawAbort = true ∧ v.stopOk = true ∧ v.mon.bad = false ∧ GrantInv cfg v.mon ∧ v.mon.mustOp = false ∧
  v.flt = false

/-- an execute() attempt: the loop goes on, or an outcome is returned that satisfies the verdict -/
abbrev xPost (cfg : Cfg) (P : World → Prop) : PostCond (Option Outcome) (.except Exn (.arg World .pure)) :=
  post⟨fun r w => ⌜match r with
                  | none => P w
                  | some o => OutOK cfg o w⌝,
       fun e w => ⌜Exc cfg e w⌝⟩

/-- … where "the loop goes on" means: with the invariant, unless an attempt hook raised -/
abbrev xPostG (cfg : Cfg) (n : Nat) : PostCond (Option Outcome) (.except Exn (.arg World .pure)) :=
  xPost cfg (fun w => flt w.trace = false → Slept cfg n (view cfg w))

theorem abortOutcome_spec (cfg : Cfg) (tl : Bool) (u : View) (hp : PreAb cfg u) (a : Nat) :
    ⦃fun w => ⌜view cfg w = u⌝⦄ abortOutcome cfg tl a
    ⦃post⟨fun o w => ⌜OutOK cfg o w⌝, fun e w => ⌜Exc cfg e w⌝⟩⦄ := by
  have h1 := fun u hsa hok hb hg hm => emitAbortedOnce_spec cfg tl u hsa hok hb hg hm a
  have h2 := fun u ok v n ns => buildOutcome_spec cfg u ok v n ns
  simp only [PreAb] at hp
  mvcgen [abortOutcome, h1, h2]
  all_goals (clear h1 h2)
  c03_chain
  all_goals (refine outOK_of_ab cfg ?_ (by assumption) (by simp_all) ; simp_all [Ab])


theorem execAbortExit_spec (cfg : Cfg) (tl : Bool) (u : View) (hp : PreAb cfg u) (a : Nat) (e : Exn)
    (P : World → Prop) :
    ⦃fun w => ⌜view cfg w = u⌝⦄ execAbortExit cfg tl a e ⦃xPost cfg P⦄ := by
  have h1 := fun v hok hb hg => handleAbortAttemptEnd_v cfg v hok hb hg a e
  have h2 := fun u hp n => abortOutcome_spec cfg tl u hp n
  have hp' := hp
  simp only [PreAb] at hp'
  mvcgen [execAbortExit, h1, h2]
  all_goals (clear h1 h2)
  c03_chain


theorem sawAbort_of_stopped (cfg : Cfg) (w : World) (n : Nat) (h : Stopped cfg n .aborted (view cfg w)) :
    (view cfg w).mon.sawAbort = true := by
  have := stopCond_of_view cfg w .aborted h.2.2.2.2.2.2.1 h.2.2.2.2.2.2.2.1
  simpa [stopCond] using this

/-- what follows the attempt's outcome in execute mode -/
theorem deliverExecute_spec (cfg : Cfg) (tl : Bool) (n : Nat) (u : View) (o : AOutcome) (rs : RState)
    (fr : Bool) (hF : Fin cfg n o u) :
    ⦃fun w => ⌜view cfg w = u⌝⦄ deliverExecute cfg tl (determineAction o rs n fr) o ⦃xPostG cfg n⦄ := by
  have h1 := fun u hp a => abortOutcome_spec cfg tl u hp a
  have h2 := fun u ok v n ns => buildOutcome_spec cfg u ok v n ns
  unfold determineAction
  simp only [Fin] at hF
  cases hdec : o.decision <;> cases fr <;> simp only [hdec] at hF ⊢ <;> mvcgen [deliverExecute, h1, h2]
  all_goals (clear h1 h2)
  all_goals (try subst_vars)
  all_goals first
    | (intro _; assumption)
    | (split at hF <;> first
        | contradiction
        | (rename_i x r heq
           obtain ⟨hv, hok, hst⟩ := ‹view cfg _ = view cfg _ ∧ _ ∧ _›
           rw [← hv] at hF heq
           exact outOK_of_stopped cfg hF.1 hok (by rw [hst, ← hv]; simpa using heq))
        | (rename_i x r heq
           obtain ⟨hS, _, _, _, hr⟩ := hF
           have hr' := hr
           subst hr'
           have hsa := sawAbort_of_stopped cfg _ n hS
           simp only [Stopped] at hS
           simp only [PreAb]
           simp_all))

/-- the rest of the exception path of `execute()`: back off, report, deliver -/
theorem execExceptionPath3_spec (cfg : Cfg) (tl : Bool) (n : Nat) (u : View) (e : Exn) (d : Decision)
    (hd : Decided2 cfg n d u) :
    ⦃fun w => ⌜view cfg w = u⌝⦄ execExceptionPath3 cfg tl n e d ⦃xPostG cfg n⦄ := by
  have h3 := fun u hd cls => failureOutcome_spec cfg tl n u d hd cls (some e) none (some .exception)
  have h4 := fun v hok hb hg o => callAttemptEndFromOutcome_v cfg v hok hb hg n o
  have h5 := fun u o rs hF => deliverExecute_spec cfg tl n u o rs false hF
  mvcgen [execExceptionPath3, getRS, modifyAS, h3, h4, h5]
  all_goals (clear h3 h4 h5)
  c03_chain
  all_goals first
    | exact (fin_basic _ _ _ _ (by assumption)).1
    | exact (fin_basic _ _ _ _ (by assumption)).2.1
    | exact (fin_basic _ _ _ _ (by assumption)).2.2.1
    | skip


/-- `try: check_abort() except AbortRetryError` -/
theorem checkAbortCaught_spec (cfg : Cfg) (tl : Bool) (u : View) (hs : u.stop = none) (hb : u.mon.bad = false)
    (hg : GrantInv cfg u.mon) (hf : u.flt = false) (a : Nat) :
    ⦃fun w => ⌜view cfg w = u⌝⦄ checkAbortCaught cfg tl a
    ⦃post⟨fun b w => ⌜(b = false → view cfg w = pollV cfg u) ∧
                      (b = true → flt w.trace = true ∨ Ab cfg (view cfg w))⌝,
          fun e w => ⌜flt w.trace = true ∨ (e.isAbort = false ∧ e.isException = false ∧ Exc cfg e w)⌝⟩⦄ := by
  have h1 := fun u hs hb hg hf => checkAbort_x cfg tl u hs hb hg hf a
  mvcgen [checkAbortCaught, abortToTrue, h1]
  all_goals (clear h1)
  all_goals (try subst_vars)
  all_goals (try simp only [restore_dummy] at *)
  all_goals first
    | assumption
    | (exact ⟨by assumption, fun h => by simp at h⟩)
    | (rename_i hx; simp only [XAb] at hx; rcases hx with h | ⟨h1, _, _⟩ | ⟨h1, h2⟩ <;> simp_all; done)


/-- once an attempt hook has raised, nothing is claimed any more -/
theorem flt_grows (w w' : World) (h : Ext loopK w w') (hf : flt w.trace = true) : flt w'.trace = true := by
  obtain ⟨δ, ht⟩ := h.grows
  rw [ht]
  simp only [flt, attemptHookFault, List.any_append] at hf ⊢
  simp [hf]

theorem xpost_of_flt {x : M (Option Outcome)} (cfg : Cfg) (n : Nat)
    (hx : ∀ w0, ⦃fun w => ⌜Ext loopK w0 w⌝⦄ x ⦃extPost loopK w0⦄) :
    ⦃fun w => ⌜flt w.trace = true⌝⦄ x ⦃xPostG cfg n⦄ := by
  apply triple_of_run
  intro w hw
  have := adequacy (hx w) w (Ext.refl loopK w)
  split <;> simp_all
  · rename_i r w' _
    have hf := flt_grows _ _ this hw
    cases r <;> simp [OutOK, hf]
  · rename_i e w' _
    have hf := flt_grows _ _ this hw
    simp [Exc, hf]

/-- a spec for views satisfying `H`, and the remark above, give a spec for "`H` or an attempt hook raised" -/
theorem guard_spec {x : M (Option Outcome)} (cfg : Cfg) (n : Nat) (H : View → Prop)
    (h1 : ∀ u, H u → ⦃fun w => ⌜view cfg w = u⌝⦄ x ⦃xPostG cfg n⦄)
    (hx : ∀ w0, ⦃fun w => ⌜Ext loopK w0 w⌝⦄ x ⦃extPost loopK w0⦄) :
    ⦃fun w => ⌜flt w.trace = true ∨ H (view cfg w)⌝⦄ x ⦃xPostG cfg n⦄ := by
  apply triple_of_run
  intro w hw
  rcases hw with hw | hw
  · exact adequacy (xpost_of_flt cfg n hx) w hw
  · exact adequacy (h1 _ hw) w rfl


theorem execAbortExit_g (cfg : Cfg) (tl : Bool) (n a : Nat) (e : Exn) :
    ⦃fun w => ⌜flt w.trace = true ∨ PreAb cfg (view cfg w)⌝⦄ execAbortExit cfg tl a e ⦃xPostG cfg n⦄ :=
  guard_spec cfg n (PreAb cfg) (fun u hp => execAbortExit_spec cfg tl u hp a e _)
    (fun w0 => execAbortExit_ext w0 cfg tl a e)

theorem preAb_of_ab (cfg : Cfg) (v : View) (h : Ab cfg v) : PreAb cfg v := by
  simp only [Ab, PreAb] at *
  simp_all

theorem exc_of_flt (cfg : Cfg) (e : Exn) (w : World) (h : flt w.trace = true) : Exc cfg e w := by
  intro hf; simp [h] at hf

theorem exc_of_caught (cfg : Cfg) (e : Exn) (w : World)
    (h : flt w.trace = true ∨ e.isAbort = false ∧ e.isException = false ∧ Exc cfg e w) : Exc cfg e w := by
  rcases h with h | ⟨_, _, h⟩
  · exact exc_of_flt cfg e w h
  · exact h

theorem execExceptionPath2_spec (cfg : Cfg) (tl : Bool) (n : Nat) (u : View) (e : Exn) (hc : Core cfg n u)
    (hn : NoStrat u) (hk : CntOK u) (hcl : u.mon.classified = false) (hd : u.mon.done = false) :
    ⦃fun w => ⌜view cfg w = u⌝⦄ execExceptionPath2 cfg tl n e ⦃xPostG cfg n⦄ := by
  have h1 := fun u hc hn hk hcl hd => handleException_spec cfg tl n u hc hn hk hcl hd e
  have h2 := fun u d hd => execExceptionPath3_spec cfg tl n u e d hd
  have h3 := fun u hs hb hg hf => checkAbortCaught_spec cfg tl u hs hb hg hf n
  have h4 := execAbortExit_g cfg tl n n e
  mvcgen [execExceptionPath2, getRS, modifyAS, h1, h2, h3, h4]
  all_goals (clear h1 h2 h3 h4)
  c03_chain
  all_goals first
    | (exact exc_of_caught cfg _ _ (by assumption))
    | (refine decided2_of cfg n _ _ _ (by assumption) ?_ ?_ <;> simp_all +zetaDelta; done)
    | (rename_i h; rcases h.2 rfl with h | h
       · exact Or.inl h
       · exact Or.inr (preAb_of_ab cfg _ h))
    | (cases ‹Decision› <;> c03_phase; done)
    | skip


theorem execExceptionPath_spec (cfg : Cfg) (tl : Bool) (n : Nat) (u : View) (e : Exn) (hc : Core cfg n u)
    (hn : NoStrat u) (hk : CntOK u) (hcl : u.mon.classified = false) (hd : u.mon.done = false) :
    ⦃fun w => ⌜view cfg w = u⌝⦄ execExceptionPath cfg tl n e ⦃xPostG cfg n⦄ := by
  have h2 := fun u hc hn hk hcl hd => execExceptionPath2_spec cfg tl n u e hc hn hk hcl hd
  have h3 := fun u hs hb hg hf => checkAbortCaught_spec cfg tl u hs hb hg hf n
  have h4 := execAbortExit_g cfg tl n n e
  mvcgen [execExceptionPath, modifyAS, h2, h3, h4]
  all_goals (clear h2 h3 h4)
  c03_chain
  all_goals first
    | (exact exc_of_caught cfg _ _ (by assumption))
    | (rename_i h; rcases h.2 rfl with h | h
       · exact Or.inl h
       · exact Or.inr (preAb_of_ab cfg _ h))
    | skip


/-- the operation failed in attempt `n` -/
def OpFail (cfg : Cfg) (n : Nat) (e : Exn) (v : View) : Prop :=
  Core cfg n v ∧ NoStrat v ∧ CntOK v ∧ v.mon.classified = false ∧ v.mon.done = false ∧
  (e.isAbort = true → v.mon.sawAbort = true)

/-- the `except` ladder of `execute()` when the operation itself raised -/
theorem execHandler_core (cfg : Cfg) (tl : Bool) (n : Nat) (u : View) (e : Exn) (ho : OpFail cfg n e u) :
    ⦃fun w => ⌜view cfg w = u⌝⦄ execHandler cfg tl n e
    ⦃post⟨fun r w => ⌜match r with
                      | none => flt w.trace = false → Slept cfg n (view cfg w)
                      | some o => OutOK cfg o w⌝,
          fun e' w => ⌜(e.isException = true → raisedBy isOp w.trace e = true) → Exc cfg e' w⌝⟩⦄ := by
  have h1 := execAbortExit_g cfg tl n n e
  have h2 := fun u hc hn hk hcl hd => execExceptionPath_spec cfg tl n u e hc hn hk hcl hd
  simp only [OpFail] at ho
  mvcgen [execHandler, h1, h2]
  all_goals (clear h1 h2)
  c03_chain
  all_goals (try subst_vars)
  all_goals first
    | assumption
    | (intro _; assumption)
    | (refine Or.inr ?_; simp only [PreAb]; c03_phase; done)
    | (refine exc_propagate cfg ?_ ?_ ?_ ?_ ?_ (by assumption) <;>
        first
          | (simp_all [not_exception_of_kise]; done)
          | (c03_phase; done)
          | (left; rfl))
    | skip


/-- how the part of an `execute()` attempt up to and including `func()` can fail -/
def HPre (cfg : Cfg) (n : Nat) (e : Exn) (w : World) : Prop :=
  flt w.trace = true ∨ (e.isAbort = false ∧ e.isException = false ∧ Exc cfg e w) ∨
  (e = .libAbort ∧ Ab cfg (view cfg w)) ∨
  (OpFail cfg n e (view cfg w) ∧ (e.isException = true → raisedBy isOp w.trace e = true))

theorem execHandler_rethrow (cfg : Cfg) (tl : Bool) (n : Nat) (e : Exn) (h1 : e.isAbort = false)
    (h2 : e.isException = false) : execHandler cfg tl n e = throw e := by
  unfold execHandler
  simp only [h1, h2, Bool.false_eq_true, if_false]
  repeat' split
  all_goals rfl

theorem execHandler_g (cfg : Cfg) (tl : Bool) (n : Nat) (e : Exn) :
    ⦃fun w => ⌜HPre cfg n e w⌝⦄ execHandler cfg tl n e ⦃xPostG cfg n⦄ := by
  apply triple_of_run
  intro w hw
  rcases hw with hw | ⟨h1, h2, hE⟩ | ⟨h1, hA⟩ | ⟨hO, hrb⟩
  · exact adequacy (xpost_of_flt cfg n (fun w0 => execHandler_ext w0 cfg tl n e)) w hw
  · rw [execHandler_rethrow cfg tl n e h1 h2]
    exact hE
  · subst h1
    have : execHandler cfg tl n Exn.libAbort = execAbortExit cfg tl n Exn.libAbort := by
      unfold execHandler; simp [Exn.isAbort]
    rw [this]
    exact adequacy (execAbortExit_spec cfg tl _ (preAb_of_ab cfg _ hA) n _ _) w rfl
  · exact adequacy (triple_and_inv (execHandler_core cfg tl n _ e hO)
      (inv_of_ext (fun w => e.isException = true → raisedBy isOp w.trace e = true)
        (fun w0 => execHandler_ext w0 cfg tl n e) (fun w w' h hi he => rbOp_ext e w w' h (hi he)))) w ⟨rfl, hrb⟩


/-- attempt-hook leaves, seen from `execute()`: a failure sets the fault flag -/
theorem hook_spec_flt {α : Type} {x : M α} (cfg : Cfg)
    (hx : ∀ w0, ⦃fun w => ⌜FootQ hookR w0 w⌝⦄ x ⦃fqPost hookR w0⦄) (v : View) (hok : v.stopOk = true) :
    ⦃fun w => ⌜view cfg w = v⌝⦄ x ⦃post⟨fun _ w => ⌜view cfg w = v⌝, fun _ w => ⌜flt w.trace = true⌝⟩⦄ := by
  apply triple_of_run
  intro w hw
  have := adequacy (hx w) w (FootQ.refl hookR w)
  subst hw
  split <;> simp_all
  · exact view_fq cfg false _ _ (this.mono hookR_loopR) hok (by simp)
  · obtain ⟨δ, et, _, r, d, δ', hd, hr, _⟩ := this.trace
    rw [et, hd]
    simp only [List.cons_append, flt_cons, hookRaise]
    cases r <;> simp_all [hookR, isAttemptHook]

theorem callAttemptStart_x (cfg : Cfg) (v : View) (hok : v.stopOk = true) (a : Nat) :
    ⦃fun w => ⌜view cfg w = v⌝⦄ callAttemptStart cfg a
    ⦃post⟨fun _ w => ⌜view cfg w = v⌝, fun _ w => ⌜flt w.trace = true⌝⟩⦄ :=
  hook_spec_flt cfg (fun w0 => callAttemptStart_fq hookR w0 cfg a (fun _ => rfl)) v hok

@[simp] theorem view_as_attempts (cfg : Cfg) (s : World) (x : AState) (y : Nat) :
    view cfg { s with as := x, attempts := y } = view cfg s := rfl

/-- the `try:` body of `execute()` up to and including `func()` -/
theorem execPre_spec (cfg : Cfg) (tl : Bool) (n : Nat) (u : View) (hr : Rel cfg n u) (hlt : n < cfg.maxAttempts) :
    ⦃fun w => ⌜view cfg w = u⌝⦄ execPre cfg tl (n + 1)
    ⦃post⟨fun _ w => ⌜Core cfg (n + 1) (view cfg w) ∧ NoStrat (view cfg w) ∧ CntOK (view cfg w) ∧
                      (view cfg w).mon.classified = false ∧
                      (view cfg w).mon.done = !cfg.resultClassifier⌝,
          fun e w => ⌜HPre cfg (n + 1) e w⌝⟩⦄ := by
  have h1 := fun u hs hb hg hf => checkAbort_x cfg tl u hs hb hg hf n
  have h2 := fun v hok => callAttemptStart_x cfg v hok (n + 1)
  have h3 := fun u hr => invokeOp_spec cfg n u hr hlt (n + 1)
  mvcgen [execPre, modifyAS, h1, h2, h3]
  all_goals (clear h1 h2 h3)
  c03_chain
  all_goals first
    | (exact Or.inl (by assumption))
    | (rename_i hx; simp only [XAb] at hx; rcases hx with h | h | h
       · exact Or.inl h
       · exact Or.inr (Or.inl h)
       · exact Or.inr (Or.inr (Or.inl h)))
    | (refine Or.inr (Or.inr (Or.inr ⟨?_, by assumption⟩)); simp only [OpFail]; simp_all; done)
    | (have hp := rel_pollV cfg n _ hr
       first
         | (simp_all +zetaDelta; done)
         | (simp only [Rel] at hp; simp_all; done))


/-- from the verdict at an exceptional exit: an abort can be turned into an ABORTED outcome -/
theorem preAb_of_exc (cfg : Cfg) (e : Exn) (w : World) (h : Exc cfg e w) (hf : flt w.trace = false)
    (ha : e.isAbort = true) : PreAb cfg (view cfg w) := by
  obtain ⟨hc, hab⟩ := h hf
  obtain ⟨hsa, hst⟩ := hab ha
  refine ⟨hsa, ?_, hc.bad, fun hg hm => (hc.grant hg).1 hm, hc.must, hf⟩
  rcases hst with h | h <;> simp [view, stopOkOf, h, stopCond, hsa]

/-- result-based failure in execute mode -/
theorem execResultFailure_spec (cfg : Cfg) (tl : Bool) (n : Nat) (u : View) (x : Nat) (c : Classification)
    (hc : Core cfg n u) (hn : NoStrat u) (hk : ClsA c.klass u) (hd : u.mon.done = false) :
    ⦃fun w => ⌜view cfg w = u⌝⦄ execResultFailure cfg tl n x c ⦃xPostG cfg n⦄ := by
  have h1 := fun u hs hb hg => checkAbort_spec cfg tl u hs hb hg n
  have h2 := fun u hc hn hk hd => handleFailure_spec cfg tl n u c hc hn hk hd .result none (some x)
  have h3 := fun u d hd => failureOutcome_spec cfg tl n u d hd (some c) none (some x) (some .result)
  have h4 := fun v hok hb hg o => callAttemptEndFromOutcome_v cfg v hok hb hg n o
  have h5 := fun u o rs hF => deliverExecute_spec cfg tl n u o rs true hF
  mvcgen [execResultFailure, getRS, modifyAS, h1, h2, h3, h4, h5]
  all_goals (clear h1 h2 h3 h4 h5)
  c03_chain
  all_goals first
    | exact (fin_basic _ _ _ _ (by assumption)).1
    | exact (fin_basic _ _ _ _ (by assumption)).2.1
    | exact (fin_basic _ _ _ _ (by assumption)).2.2.1
    | (refine decided2_of cfg n _ _ _ (by assumption) ?_ ?_ <;> simp_all +zetaDelta; done)
    | (cases ‹Decision› <;> c03_phase; done)
    | skip
  all_goals (try (simp only [NoStrat] at hn; simp +zetaDelta only [view_as]; rw [‹view cfg _ = pollV cfg _›, pollV_noStrat cfg _ hn.1 hn.2.2.2.1]; exact hk))


/-- the rest of the `try:` body of `execute()`, after `func()` returned -/
theorem execResultPath_spec (cfg : Cfg) (tl : Bool) (n : Nat) (u : View) (x : Nat) (hc : Core cfg n u)
    (hn : NoStrat u) (hk : CntOK u) (hcl : u.mon.classified = false) (hd : u.mon.done = !cfg.resultClassifier) :
    ⦃fun w => ⌜view cfg w = u⌝⦄ execResultPath cfg tl n x ⦃xPostG cfg n⦄ := by
  have h1 := fun u hc hn hk hcl hd => shouldClassifyResult_spec cfg n u hc hn hk hcl hd x
  have h2 := fun v hok hb hg hs hm => handleSuccessAttemptEnd_v cfg tl v hok hb hg hs hm n x
  have h3 := fun u c hc hn hk hd => execResultFailure_spec cfg tl n u x c hc hn hk hd
  have h4 := fun u ok v n ns => buildOutcome_spec cfg u ok v n ns
  mvcgen [execResultPath, h1, h2, h3, h4]
  all_goals (clear h1 h2 h3 h4)
  c03_chain
  all_goals (
    obtain ⟨hv, _, hst⟩ := ‹view cfg _ = view cfg _ ∧ _ ∧ _›
    refine outOK_of_succ cfg (n := n) ?_ (by simpa using hst)
    rw [hv]; simp_all)

/-- the `except` ladder of `execute()` once `func()` has returned: an `AbortRetryError` still ends the run as
    ABORTED, everything else is re-raised -/
theorem execReturnedHandler_g (cfg : Cfg) (tl : Bool) (n : Nat) (e : Exn) :
    ⦃fun w => ⌜Exc cfg e w⌝⦄ execReturnedHandler cfg tl n e ⦃xPostG cfg n⦄ := by
  apply triple_of_run
  intro w hE
  by_cases hf : flt w.trace = true
  · exact adequacy (xpost_of_flt cfg n (fun w0 => execReturnedHandler_ext w0 cfg tl n e)) w hf
  · have hf' : flt w.trace = false := by simpa using hf
    by_cases ha : e.isAbort = true
    · have : execReturnedHandler cfg tl n e = execAbortExit cfg tl n e := by
        unfold execReturnedHandler; simp [ha]
      rw [this]
      exact adequacy (execAbortExit_spec cfg tl _ (preAb_of_exc cfg e w hE hf' ha) n e _) w rfl
    · have : execReturnedHandler cfg tl n e = throw e := by
        unfold execReturnedHandler; simp [ha]
      rw [this]
      exact hE


/-- one iteration of the loop of `execute()` when no attempt hook has raised so far -/
theorem execAttempt_core (cfg : Cfg) (tl : Bool) (n : Nat) (u : View) (hr : Rel cfg n u)
    (hlt : n < cfg.maxAttempts) :
    ⦃fun w => ⌜view cfg w = u⌝⦄ execAttempt cfg tl (n + 1) ⦃xPostG cfg (n + 1)⦄ := by
  have h1 := fun u hr => execPre_spec cfg tl n u hr hlt
  have h2 := fun e => execHandler_g cfg tl (n + 1) e
  have h3 := fun u x hc hn hk hcl hd => execResultPath_spec cfg tl (n + 1) u x hc hn hk hcl hd
  have h4 := fun e => execReturnedHandler_g cfg tl (n + 1) e
  mvcgen [execAttempt, h1, h2, h3, h4]
  all_goals (clear h1 h2 h3 h4)
  c03_chain


/-- … and in general -/
theorem execAttempt_g (cfg : Cfg) (tl : Bool) (n : Nat) (hlt : n < cfg.maxAttempts) :
    ⦃fun w => ⌜flt w.trace = true ∨ Rel cfg n (view cfg w)⌝⦄ execAttempt cfg tl (n + 1)
    ⦃xPostG cfg (n + 1)⦄ :=
  guard_spec cfg (n + 1) (Rel cfg n) (fun u hr => execAttempt_core cfg tl n u hr hlt)
    (fun w0 => execAttempt_ext w0 cfg tl (n + 1))

abbrev outPost (cfg : Cfg) : PostCond Outcome (.except Exn (.arg World .pure)) :=
  post⟨fun o w => ⌜OutOK cfg o w⌝, fun e w => ⌜Exc cfg e w⌝⟩

theorem outpost_of_flt {x : M Outcome} (cfg : Cfg)
    (hx : ∀ w0, ⦃fun w => ⌜Ext loopK w0 w⌝⦄ x ⦃extPost loopK w0⦄) :
    ⦃fun w => ⌜flt w.trace = true⌝⦄ x ⦃outPost cfg⦄ := by
  apply triple_of_run
  intro w hw
  have := adequacy (hx w) w (Ext.refl loopK w)
  split <;> simp_all
  · rename_i r w' _
    simp [OutOK, flt_grows _ _ this hw]
  · rename_i e w' _
    simp [Exc, flt_grows _ _ this hw]

theorem outOK_zero (cfg : Cfg) {w : World} {o : Outcome} (hops : (cur cfg w.trace).ops = 0)
    (hb : (cur cfg w.trace).bad = false) (hm : (cur cfg w.trace).mustOp = false)
    (hgr : (cur cfg w.trace).granted = false) (hs : o.stop = some .maxAttemptsGlobal)
    (h0 : cfg.maxAttempts = 0) : OutOK cfg o w := by
  intro _
  refine ⟨hb, hm, fun r h => ?_, fun h => by omega, fun h => by simp [hgr] at h⟩
  rw [hs] at h; cases h
  simp [stopCond, h0]

/-- `build_exhausted_outcome` when no attempt was made (`max_attempts = 0`) -/
theorem buildExhaustedOutcome_spec (cfg : Cfg) (tl : Bool) (u : View) (hr : Rel cfg 0 u)
    (h0 : cfg.maxAttempts = 0) :
    ⦃fun w => ⌜view cfg w = u⌝⦄ buildExhaustedOutcome cfg tl ⦃outPost cfg⦄ := by
  have he := fun v hok hb hg hm k ex cs => emit_v cfg tl v hok hb hg hm .maxAttemptsExceeded
    (by simp [plainEv, isBreakerEv]) cfg.maxAttempts 0 k ex (some .maxAttemptsGlobal) cs none
  have h2 := fun u ok v n ns => buildOutcome_spec cfg u ok v n ns
  simp only [Rel, CntOK, GrantInv] at hr
  mvcgen [buildExhaustedOutcome, emitMaxAttemptsExceeded, getRS, setStop, modifyRS, he, h2]
  all_goals (clear he h2)
  c03_chain
  all_goals (refine outOK_zero cfg ?_ ?_ ?_ ?_ ?_ h0 <;> c03_simp)


/-- the loop of `_run_sync_execute` -/
theorem execLoop_spec (cfg : Cfg) (tl : Bool) : ∀ (fuel n : Nat), n + fuel = cfg.maxAttempts →
    ⦃fun w => ⌜flt w.trace = true ∨ Rel cfg n (view cfg w)⌝⦄ execLoop cfg tl fuel (n + 1) ⦃outPost cfg⦄ := by
  intro fuel
  induction fuel with
  | zero =>
    intro n hn
    apply triple_of_run
    intro w hw
    rcases hw with hw | hw
    · exact adequacy (outpost_of_flt cfg (fun w0 => execLoop_ext w0 cfg tl 0 (n + 1))) w hw
    · have h0 : n = 0 := by
        have := hw
        simp only [Rel] at this
        omega
      subst h0
      have : execLoop cfg tl 0 (0 + 1) = buildExhaustedOutcome cfg tl := rfl
      rw [this]
      exact adequacy (buildExhaustedOutcome_spec cfg tl _ hw (by omega)) w rfl
  | succ f ih =>
    intro n hn
    have h1 := execAttempt_g cfg tl n (by omega)
    have h2 := ih (n + 1) (by omega)
    mvcgen [execLoop, h1, h2]
    all_goals (clear h1 h2)
    all_goals (try assumption)
    all_goals (
      rename_i s h
      by_cases hf : flt s.trace = true
      · exact Or.inl hf
      · exact Or.inr (rel_of_slept cfg _ _ (h (by simpa using hf))))


/-- `Retry.execute` -/
theorem runExecute_spec (cfg : Cfg) :
    ⦃fun w => ⌜cur cfg w.trace = {} ∧ clk w.trace = {} ∧ flt w.trace = false⌝⦄ runExecute cfg
    ⦃outPost cfg⦄ := by
  have h1 := initState_spec cfg
  have h2 := execLoop_spec cfg cfg.timeline cfg.maxAttempts 0 (by omega)
  mvcgen [runExecute, h1, h2]
  all_goals (first | assumption | exact Or.inr (by assumption))

open Redress.Policy

/-! ### the policy wrappers: what happens before and after the retry loop -/

/-- the verdict for a run that raises (`Exc` without the bookkeeping about aborts) -/
def ExcV (cfg : Cfg) (e : Exn) (w : World) : Prop :=
  flt w.trace = false → ExcCore cfg e (cur cfg w.trace) (clk w.trace).el w.trace

theorem excV_of_exc (cfg : Cfg) (e : Exn) (w : World) (h : Exc cfg e w) : ExcV cfg e w :=
  fun hf => (h hf).1

/-- the verdict for a run that returns a value -/
def RetV (cfg : Cfg) (w : World) : Prop :=
  flt w.trace = false →
    (cur cfg w.trace).bad = false ∧ (cur cfg w.trace).mustOp = false ∧
    (1 ≤ (cur cfg w.trace).ops → (cur cfg w.trace).done = true) ∧ (cur cfg w.trace).granted = false

theorem retV_of_retOK (cfg : Cfg) (w : World) (h : RetOK cfg w) : RetV cfg w := by
  intro hf
  obtain ⟨n, hS⟩ := h hf
  simp only [Succ, view_mon] at hS
  exact ⟨hS.2.2.1, hS.2.2.2.2.1, fun _ => hS.2.2.2.2.2.1, hS.2.2.2.2.2.2.2.2⟩

/-- requests made by the policy wrappers outside the retry loop -/
def polR : Req → Bool
  | .breakerAllow | .breakerSuccess | .breakerFailure _ | .breakerCancel => true
  | .metric ev .. => isBreakerEv ev
  | .log ev .. => isBreakerEv ev
  | _ => false

theorem step_pol (cfg : Cfg) (s : St) (x : Req × Ans) (el : Nat) (h : polR x.1 = true) : step cfg s x el = s := by
  obtain ⟨r, a⟩ := x
  cases r with
  | metric ev _ _ _ =>
    cases ev <;> simp_all [polR, step, abortKind, abortRaise, isBreakerEv] <;> (cases a <;> simp)
  | _ => simp_all [polR, step, abortKind, abortRaise] <;> (cases a <;> simp)

theorem polR_not_op (r : Req) (h : polR r = true) : isOp r = false := by
  cases r <;> simp_all [polR, isOp]

theorem polR_not_hook (r : Req) (h : polR r = true) : isAttemptHook r = false := by
  cases r <;> simp_all [polR, isAttemptHook]

theorem polR_prelude_or (r : Req) (h : polR r = true) :
    isPrelude r = true ∨ r = .breakerSuccess ∨ (∃ k, r = .breakerFailure k) ∨ r = .breakerCancel := by
  cases r <;> simp_all [polR, isPrelude]

/-- exchanges of the wrappers (whatever the answers): the monitor and the fault flag do not move, the loop's
    clock does not go back, nothing that was raised is forgotten -/
theorem pol_append (cfg : Cfg) (δ t : List (Req × Ans)) (h : ∀ x ∈ δ, polR x.1 = true) :
    cur cfg (δ ++ t) = cur cfg t ∧ flt (δ ++ t) = flt t ∧ (clk t).el ≤ (clk (δ ++ t)).el := by
  induction δ with
  | nil => simp
  | cons x δ ih =>
    have hx := h x (by simp)
    have := ih (fun y hy => h y (by simp [hy]))
    refine ⟨?_, ?_, ?_⟩
    · simp only [List.cons_append, cur_cons, this.1]
      exact step_pol cfg _ x _ hx
    · obtain ⟨r, a⟩ := x
      rw [List.cons_append, flt_cons, this.2.1]
      cases a <;> simp [hookRaise, polR_not_hook r hx]
    · simp only [List.cons_append, clk_cons, Clock.tick]
      split
      · exact this.2.2
      · exact Nat.le_trans this.2.2 (Nat.le_add_right _ _)

theorem raisedBy_mono (p : Req → Bool) (δ t : List (Req × Ans)) (e : Exn) (h : raisedBy p t e = true) :
    raisedBy p (δ ++ t) e = true := by
  rw [raisedBy_append, h]; simp

theorem anyStop_mono (cfg : Cfg) (m : St) {el el' : Nat} (h : el ≤ el') (ha : anyStop cfg m el = true) :
    anyStop cfg m el' = true := by
  simp only [anyStop, List.any_eq_true] at ha ⊢
  obtain ⟨r, hr, hc⟩ := ha
  exact ⟨r, hr, stopCond_mono cfg m h r hc⟩

/-- the verdict survives what the wrappers do after the loop (same exception) -/
theorem excCore_grow (cfg : Cfg) (e : Exn) (m : St) {el el' : Nat} (t δ : List (Req × Ans))
    (h : ExcCore cfg e m el t) (hel : el ≤ el') : ExcCore cfg e m el' (δ ++ t) := by
  refine ⟨h.bad, h.must, fun f hf => ?_, fun h1 h2 h3 h4 h5 => ?_, fun hg => ⟨(h.grant hg).1, ?_⟩⟩
  · rcases h.stop f hf with h | h
    · exact Or.inl (raisedBy_mono _ _ _ _ h)
    · exact Or.inr (stopCond_mono cfg m hel _ h)
  · rcases h.give h1 h2 h3 h4 h5 with h | h | ⟨h, h', h''⟩
    · exact Or.inl (raisedBy_mono _ _ _ _ h)
    · exact Or.inr (Or.inl h)
    · exact Or.inr (Or.inr ⟨raisedBy_mono _ _ _ _ h, h', anyStop_mono cfg m hel h''⟩)
  · rcases (h.grant hg).2 with h | h | h
    · exact Or.inl h
    · exact Or.inr (Or.inl h)
    · refine Or.inr (Or.inr fun f hf => ?_)
      rcases h f hf with h | h
      · exact Or.inl (raisedBy_mono _ _ _ _ h)
      · exact Or.inr h


/-- what any exception raised by a callback of the wrappers needs from the state it was raised in -/
def Bv (cfg : Cfg) (w : World) : Prop :=
  flt w.trace = false →
    (cur cfg w.trace).bad = false ∧ (cur cfg w.trace).mustOp = false ∧ GrantInv cfg (cur cfg w.trace)

theorem bv_of_retV (cfg : Cfg) (w : World) (h : RetV cfg w) : Bv cfg w := by
  intro hf
  obtain ⟨h1, h2, _, h4⟩ := h hf
  exact ⟨h1, h2, fun hg => by simp [h4] at hg⟩

theorem bv_of_excV (cfg : Cfg) (e : Exn) (w : World) (h : ExcV cfg e w) : Bv cfg w := by
  intro hf
  have := h hf
  exact ⟨this.bad, this.must, fun hg hm => (this.grant hg).1 hm⟩

/-- a callback of the wrappers (or the classifier, asked again for the breaker) raised `e` -/
theorem excV_of_raised (cfg : Cfg) {w' : World} {e : Exn} {r : Req} {d : Nat} {t : List (Req × Ans)}
    (ht : w'.trace = (r, Ans.raise e d) :: t) (hnop : isOp r = false)
    (hb : (cur cfg w'.trace).bad = false) (hm : (cur cfg w'.trace).mustOp = false)
    (hg : GrantInv cfg (cur cfg w'.trace)) : ExcV cfg e w' := by
  intro _
  have hrb : raisedBy nonOp w'.trace e = true := by
    rw [ht]; exact raisedBy_head _ _ _ _ _ (by simp [nonOp, hnop])
  exact ⟨hb, hm, fun f _ => Or.inl (raisedBy_any_of _ _ _ hrb), fun _ _ _ _ _ => Or.inl hrb,
    fun h => ⟨hg h, Or.inr (Or.inr fun f _ => Or.inl (raisedBy_any_of _ _ _ hrb))⟩⟩

/-- leaves of the wrappers: predicates that survive their exchanges are preserved; a failure is a callback
    raising -/
theorem pol_spec {α : Type} {x : M α} (cfg : Cfg) (R : Req → Bool) (hR : ∀ r, R r = true → polR r = true)
    (hx : ∀ w0, ⦃fun w => ⌜FootQ R w0 w⌝⦄ x ⦃fqPost R w0⦄) (I : World → Prop)
    (hI : ∀ w w' δ, w'.trace = δ ++ w.trace → (∀ y ∈ δ, R y.1 = true) → w'.rs = w.rs → I w → I w')
    (hB : ∀ w, I w → Bv cfg w) :
    ⦃fun w => ⌜I w⌝⦄ x ⦃post⟨fun _ w => ⌜I w⌝, fun e w => ⌜ExcV cfg e w⌝⟩⦄ := by
  apply triple_of_run
  intro w hw
  have := adequacy (hx w) w (FootQ.refl R w)
  split
  · rename_i a w' heq
    rw [heq] at this
    have this : FootQ R w w' := this
    obtain ⟨δ, et, q, _⟩ := this.trace
    exact hI _ _ δ et (fun y hy => (q y hy).1) this.rs hw
  · rename_i e w' heq
    rw [heq] at this
    have this : FootE R e w w' := this
    obtain ⟨δ, et, _, r, d, δ', hd, hr, q⟩ := this.trace
    have hI' := hI w w' δ et (by
      intro y hy
      rw [hd] at hy
      rcases List.mem_cons.mp hy with rfl | hy
      · exact hr
      · exact (q y hy).1) this.rs hw
    show ExcV cfg e w'
    intro hf
    obtain ⟨h1, h2, h3⟩ := hB _ hI' hf
    exact excV_of_raised cfg (by rw [et, hd]; rfl) (polR_not_op r (hR r hr)) h1 h2 h3 hf

/-- `RetV`, `ExcV e`, … survive the wrappers' exchanges -/
theorem retV_grow (cfg : Cfg) (w w' : World) (δ : List (Req × Ans)) (ht : w'.trace = δ ++ w.trace)
    (hd : ∀ y ∈ δ, polR y.1 = true) (h : RetV cfg w) : RetV cfg w' := by
  have := pol_append cfg δ w.trace hd
  intro hf
  rw [ht, this.2.1] at hf
  rw [ht, this.1]
  exact h hf

theorem excV_grow (cfg : Cfg) (e : Exn) (w w' : World) (δ : List (Req × Ans)) (ht : w'.trace = δ ++ w.trace)
    (hd : ∀ y ∈ δ, polR y.1 = true) (h : ExcV cfg e w) : ExcV cfg e w' := by
  have := pol_append cfg δ w.trace hd
  intro hf
  rw [ht, this.2.1] at hf
  rw [ht, this.1]
  exact excCore_grow cfg e _ _ _ (h hf) this.2.2

theorem outOK_grow (cfg : Cfg) (o : Outcome) (w w' : World) (δ : List (Req × Ans))
    (ht : w'.trace = δ ++ w.trace) (hd : ∀ y ∈ δ, polR y.1 = true) (h : OutOK cfg o w) : OutOK cfg o w' := by
  have := pol_append cfg δ w.trace hd
  intro hf
  rw [ht, this.2.1] at hf
  rw [ht, this.1]
  have h' := h hf
  exact ⟨h'.bad, h'.must, fun r hr => stopCond_mono cfg _ this.2.2 r (h'.stop r hr), h'.give, h'.grant⟩


/-- how a call ends, as far as the verdict is concerned -/
inductive Rz
  | ret
  | exn (e : Exn)
  | out (o : Outcome)

/-- the verdict, by the way the call ends -/
def Inv (cfg : Cfg) (z : Rz) (w : World) : Prop :=
  match z with
  | .ret => RetV cfg w
  | .exn e => ExcV cfg e w
  | .out o => OutOK cfg o w

theorem inv_grow (cfg : Cfg) (z : Rz) (w w' : World) (δ : List (Req × Ans)) (ht : w'.trace = δ ++ w.trace)
    (hd : ∀ y ∈ δ, polR y.1 = true) (h : Inv cfg z w) : Inv cfg z w' := by
  cases z with
  | ret => exact retV_grow cfg w w' δ ht hd h
  | exn e => exact excV_grow cfg e w w' δ ht hd h
  | out o => exact outOK_grow cfg o w w' δ ht hd h

theorem bv_of_inv (cfg : Cfg) (z : Rz) (w : World) (h : Inv cfg z w) : Bv cfg w := by
  cases z with
  | ret => exact bv_of_retV cfg w h
  | exn e => exact bv_of_excV cfg e w h
  | out o =>
    intro hf
    have := h hf
    exact ⟨this.bad, this.must, fun hg hm => (this.grant hg).1 hm⟩

theorem isCircuit_eq (ev : Event) : ev.isCircuit = isBreakerEv ev := by
  cases ev <;> rfl

theorem polR_metric (ev : Event) (h : ev.isCircuit = true) (t : Tags) : polR (.metric ev 0 0 t) = true := by
  simpa [polR, isCircuit_eq] using h

theorem polR_log (ev : Event) (h : ev.isCircuit = true) (t : Tags) : polR (.log ev 0 0 t none) = true := by
  simpa [polR, isCircuit_eq] using h

abbrev invPost (cfg : Cfg) (z : Rz) : PostCond α (.except Exn (.arg World .pure)) :=
  post⟨fun _ w => ⌜Inv cfg z w⌝, fun e w => ⌜Inv cfg (.exn e) w⌝⟩

section polLeaves
variable (cfg : Cfg) (z : Rz)

theorem inv_spec {α : Type} {x : M α} (hx : ∀ w0, ⦃fun w => ⌜FootQ polR w0 w⌝⦄ x ⦃fqPost polR w0⦄) :
    ⦃fun w => ⌜Inv cfg z w⌝⦄ x ⦃invPost cfg z⦄ :=
  pol_spec cfg polR (fun _ h => h) hx (Inv cfg z)
    (fun w w' δ ht hd _ h => inv_grow cfg z w w' δ ht hd h) (bv_of_inv cfg z)

theorem recordSuccess_p : ⦃fun w => ⌜Inv cfg z w⌝⦄ Policy.recordSuccess cfg ⦃invPost cfg z⦄ :=
  inv_spec cfg z (fun w0 => recordSuccess_fq polR w0 polR_metric polR_log cfg rfl)

theorem recordCancel_p : ⦃fun w => ⌜Inv cfg z w⌝⦄ Policy.recordCancel cfg ⦃invPost cfg z⦄ :=
  inv_spec cfg z (fun w0 => recordCancel_fq polR w0 cfg rfl)

theorem recordFailure_p (k : EClass) : ⦃fun w => ⌜Inv cfg z w⌝⦄ Policy.recordFailure cfg k ⦃invPost cfg z⦄ :=
  inv_spec cfg z (fun w0 => recordFailure_fq polR w0 polR_metric polR_log cfg k (fun _ => rfl))

theorem ensureSettled_p : ⦃fun w => ⌜Inv cfg z w⌝⦄ ensureSettled cfg ⦃invPost cfg z⦄ :=
  inv_spec cfg z (fun w0 => ensureSettled_fq polR w0 cfg rfl)

theorem handleExhaustedCall_p (e : Exn) :
    ⦃fun w => ⌜Inv cfg z w⌝⦄ handleExhaustedCall cfg e ⦃invPost cfg z⦄ :=
  inv_spec cfg z (fun w0 => handleExhaustedCall_fq polR w0 polR_metric polR_log cfg e (fun _ => rfl))

theorem policyOutcome_p (ok : Bool) (value : Option Nat) (stop : Option StopReason) (attempts : Nat)
    (lc : Option EClass) (le : Option String) (cause : Option Cause) :
    ⦃fun w => ⌜Inv cfg z w⌝⦄ policyOutcome ok value stop attempts lc le cause ⦃invPost cfg z⦄ :=
  inv_spec cfg z (fun w0 => policyOutcome_fq polR w0 ok value stop attempts lc le cause)

end polLeaves


theorem overClass_sawAbort (cfg : Cfg) (m : St) (b : Bool) :
    overClass cfg { m with sawAbort := b } = overClass cfg m := by
  funext k; simp [overClass]

theorem overUnknown_sawAbort (cfg : Cfg) (m : St) (b : Bool) :
    C03.overUnknown cfg { m with sawAbort := b } = C03.overUnknown cfg m := by
  simp [C03.overUnknown]

theorem anyStop_sawAbort (cfg : Cfg) (m : St) (b : Bool) (el : Nat) :
    anyStop cfg { m with sawAbort := b } el = anyStop cfg m el := by
  simp [anyStop, stopCond, overClass_sawAbort, overUnknown_sawAbort]

/-- `Policy.call` asks the classifier once more, for the breaker: the verdict about the exception that is
    being re-raised is not affected -/
theorem excCore_classifyStep (cfg : Cfg) (e : Exn) (m : St) (el el' el'' : Nat) (t : List (Req × Ans))
    (r : String) (a : Ans) (h : ExcCore cfg e m el t) (hex : e.isExhausted = false) (hel : el ≤ el') :
    ExcCore cfg e (step cfg m (.classify r, a) el'') el' ((.classify r, a) :: t) := by
  have hne : ∀ f, e ≠ .libExhausted f := fun f hf => by subst hf; simp at hex
  have hg := excCore_grow cfg e m t [(Req.classify r, a)] h hel
  have key : ∀ m' : St, m'.bad = m.bad → m'.mustOp = m.mustOp → m'.ops = m.ops → m'.done = m.done →
      m'.sawOther = m.sawOther → m'.granted = m.granted → m'.retryEv = m.retryEv → m'.slept = m.slept →
      m'.decision = m.decision →
      (m.classified = true → m'.classified = true ∧ anyStop cfg m' el' = anyStop cfg m el') →
      ExcCore cfg e m' el' ((.classify r, a) :: t) := by
    intro m' h1 h2 h3 h4 h5 h6 h7 h8 h9 h10
    refine ⟨h1 ▸ hg.bad, h2 ▸ hg.must, fun f hf => absurd hf (hne f), fun a1 a2 a3 a4 a5 => ?_, fun a1 => ?_⟩
    · rcases hg.give (h3 ▸ a1) (h4 ▸ a2) a3 a4 a5 with g | g | ⟨g1, g2, g3⟩
      · exact Or.inl g
      · exact Or.inr (Or.inl ⟨g.1, h5 ▸ g.2⟩)
      · exact Or.inr (Or.inr ⟨g1, (h10 g2).1, (h10 g2).2 ▸ g3⟩)
    · have := hg.grant (h6 ▸ a1)
      rw [h7, h8, h9]
      exact this
  cases a with
  | klass c d =>
    simp only [step, abortRaise, Bool.or_false]
    by_cases hc : m.classified = true
    · have hcl : classify { m with sawAbort := m.sawAbort } c.klass = { m with sawAbort := m.sawAbort } := by
        simp [classify, hc]
      rw [hcl]
      apply key <;> simp
    · have hc' : m.classified = false := by simpa using hc
      apply key <;> simp [classify, hc']
  | _ =>
    simp only [step, abortRaise, abortKind, Bool.and_true]
    apply key <;> simp [anyStop_sawAbort]


theorem classify_step_fields (cfg : Cfg) (m : St) (r : String) (a : Ans) (el : Nat) :
    (step cfg m (.classify r, a) el).bad = m.bad ∧ (step cfg m (.classify r, a) el).mustOp = m.mustOp ∧
    (step cfg m (.classify r, a) el).granted = m.granted ∧ (step cfg m (.classify r, a) el).retryEv = m.retryEv := by
  cases a <;> simp [step, classify, abortRaise] <;> split <;> simp

theorem flt_classify (r : String) (a : Ans) (t : List (Req × Ans)) : flt ((Req.classify r, a) :: t) = flt t := by
  rw [flt_cons]; cases a <;> simp [hookRaise, isAttemptHook]

theorem clk_classify_le (r : String) (a : Ans) (t : List (Req × Ans)) :
    (clk t).el ≤ (clk ((Req.classify r, a) :: t)).el := by
  simp [Clock.tick, isPrelude]

theorem inv_classify_keep (cfg : Cfg) (e0 : Exn) (w w' : World) (r : String) (a : Ans)
    (ht : w'.trace = (Req.classify r, a) :: w.trace) (hex : e0.isExhausted = false)
    (h : Inv cfg (.exn e0) w) : Inv cfg (.exn e0) w' := by
  simp only [Inv, ExcV] at h ⊢
  rw [ht, flt_classify]
  intro hf
  exact excCore_classifyStep cfg e0 _ _ _ _ _ r a (h hf) hex (clk_classify_le r a w.trace)

theorem inv_classify_raise (cfg : Cfg) (e0 e1 : Exn) (w w' : World) (r : String) (d : Nat)
    (ht : w'.trace = (Req.classify r, Ans.raise e1 d) :: w.trace) (h : Inv cfg (.exn e0) w) :
    Inv cfg (.exn e1) w' := by
  simp only [Inv] at h ⊢
  intro hf
  have hf' : flt w.trace = false := by rw [ht, flt_classify] at hf; exact hf
  obtain ⟨h1, h2, h3⟩ := bv_of_excV cfg e0 w h hf'
  have hs := classify_step_fields cfg (cur cfg w.trace) r (Ans.raise e1 d) ((clk w.trace).tick (Req.classify r, Ans.raise e1 d)).el
  refine excV_of_raised cfg ht rfl ?_ ?_ ?_ hf
  · rw [ht, cur_cons, hs.1]; exact h1
  · rw [ht, cur_cons, hs.2.1]; exact h2
  · rw [ht, cur_cons]; intro hg hm; rw [hs.2.2.2]; rw [hs.2.2.1] at hg; exact h3 hg hm

theorem inv_classify_stuck (cfg : Cfg) (e0 : Exn) (w w' : World) (r : String) (a : Ans)
    (ht : w'.trace = (Req.classify r, a) :: w.trace) (h : Inv cfg (.exn e0) w) :
    Inv cfg (.exn .stuck) w' := by
  simp only [Inv] at h ⊢
  intro hf
  have hf' : flt w.trace = false := by rw [ht, flt_classify] at hf; exact hf
  obtain ⟨h1, h2, h3⟩ := bv_of_excV cfg e0 w h hf'
  have hs := classify_step_fields cfg (cur cfg w.trace) r a ((clk w.trace).tick (Req.classify r, a)).el
  rw [ht, cur_cons]
  refine ⟨hs.1 ▸ h1, hs.2.1 ▸ h2, fun f hf => by simp at hf, fun _ _ hx => by simp at hx,
    fun hg => ⟨fun hm => ?_, Or.inr (Or.inr fun f hf => by simp at hf)⟩⟩
  rw [hs.2.2.2]; rw [hs.2.2.1] at hg; exact h3 hg hm

/-- `classify_for_breaker` -/
theorem callClassifier_p (cfg : Cfg) (e0 e' : Exn) (hex : e0.isExhausted = false) :
    ⦃fun w => ⌜Inv cfg (.exn e0) w⌝⦄ callClassifier e' ⦃invPost cfg (.exn e0)⦄ := by
  mvcgen [callClassifier, ask]
  all_goals (try subst_vars)
  all_goals first
    | exact inv_classify_keep cfg e0 _ _ _ _ rfl hex (by assumption)
    | exact inv_classify_raise cfg e0 _ _ _ _ _ rfl (by assumption)
    | exact inv_classify_stuck cfg e0 _ _ _ _ rfl (by assumption)


/-! #### before the loop -/

/-- requests made before the retry state exists -/
def preR : Req → Bool
  | .breakerAllow => true
  | .metric ev .. => isBreakerEv ev
  | .log ev .. => isBreakerEv ev
  | _ => false

theorem preR_polR (r : Req) (h : preR r = true) : polR r = true := by
  cases r <;> simp_all [preR, polR]

theorem preR_prelude (r : Req) (h : preR r = true) : isPrelude r = true := by
  cases r <;> simp_all [preR, isPrelude]

/-- nothing that concerns the monitor has happened yet -/
def Pre0 (cfg : Cfg) (w : World) : Prop :=
  cur cfg w.trace = {} ∧ clk w.trace = {} ∧ flt w.trace = false

theorem clk_prelude (δ t : List (Req × Ans)) (hd : ∀ y ∈ δ, isPrelude y.1 = true) (h : clk t = {}) :
    clk (δ ++ t) = {} := by
  induction δ with
  | nil => simpa using h
  | cons x δ ih =>
    have := ih (fun y hy => hd y (by simp [hy]))
    simp [this, Clock.tick, hd x (by simp)]

theorem pre0_grow (cfg : Cfg) (w w' : World) (δ : List (Req × Ans)) (ht : w'.trace = δ ++ w.trace)
    (hd : ∀ y ∈ δ, preR y.1 = true) (h : Pre0 cfg w) : Pre0 cfg w' := by
  have hp := pol_append cfg δ w.trace (fun y hy => preR_polR _ (hd y hy))
  have hc := clk_prelude δ w.trace (fun y hy => preR_prelude _ (hd y hy)) h.2.1
  exact ⟨by rw [ht, hp.1]; exact h.1, by rw [ht]; exact hc, by rw [ht, hp.2.1]; exact h.2.2⟩

theorem bv_of_pre0 (cfg : Cfg) (w : World) (h : Pre0 cfg w) : Bv cfg w := by
  intro _
  rw [h.1]
  exact ⟨rfl, rfl, fun hg => by simp at hg⟩

/-- an exception raised before any attempt was made -/
theorem inv_exn_of_pre0 (cfg : Cfg) (w : World) (e : Exn) (h : Pre0 cfg w) (hne : ∀ f, e ≠ .libExhausted f) :
    Inv cfg (.exn e) w := by
  intro _
  rw [h.1]
  exact ⟨rfl, rfl, fun f hf => absurd hf (hne f), fun h1 => by simp at h1, fun hg => by simp at hg⟩

theorem inv_out_of_pre0 (cfg : Cfg) (w : World) (o : Outcome) (h : Pre0 cfg w) (hs : o.stop = none) :
    Inv cfg (.out o) w := by
  intro _
  rw [h.1]
  exact ⟨rfl, rfl, fun r hr => by simp [hs] at hr, fun h1 => by simp at h1, fun hg => by simp at hg⟩

theorem pre_spec {α : Type} {x : M α} (cfg : Cfg)
    (hx : ∀ w0, ⦃fun w => ⌜FootQ preR w0 w⌝⦄ x ⦃fqPost preR w0⦄) :
    ⦃fun w => ⌜Pre0 cfg w⌝⦄ x ⦃post⟨fun _ w => ⌜Pre0 cfg w⌝, fun e w => ⌜Inv cfg (.exn e) w⌝⟩⦄ :=
  pol_spec cfg preR preR_polR hx (Pre0 cfg)
    (fun w w' δ ht hd _ h => pre0_grow cfg w w' δ ht hd h) (bv_of_pre0 cfg)

theorem preR_metric (ev : Event) (h : ev.isCircuit = true) (t : Tags) : preR (.metric ev 0 0 t) = true := by
  simpa [preR, isCircuit_eq] using h

theorem preR_log (ev : Event) (h : ev.isCircuit = true) (t : Tags) : preR (.log ev 0 0 t none) = true := by
  simpa [preR, isCircuit_eq] using h

theorem initCtx_pre (cfg : Cfg) :
    ⦃fun w => ⌜Pre0 cfg w⌝⦄ initCtx ⦃post⟨fun _ w => ⌜Pre0 cfg w⌝, fun e w => ⌜Inv cfg (.exn e) w⌝⟩⦄ :=
  pre_spec cfg (fun w0 => initCtx_fq preR w0)

theorem emitBreakerEvent_pre (cfg : Cfg) (ev : Option Event) (st : CState) (k : Option EClass)
    (hev : ∀ ev', ev = some ev' → ev'.isCircuit = true) :
    ⦃fun w => ⌜Pre0 cfg w⌝⦄ emitBreakerEvent cfg ev st k
    ⦃post⟨fun _ w => ⌜Pre0 cfg w⌝, fun e w => ⌜Inv cfg (.exn e) w⌝⟩⦄ :=
  pre_spec cfg (fun w0 => emitBreakerEvent_fq preR w0 cfg ev st k
    (fun ev' h t => preR_metric ev' (hev ev' h) t) (fun ev' h t => preR_log ev' (hev ev' h) t))

/-- `breaker.allow()` -/
theorem breakerAllow_pre (cfg : Cfg) (bc : Breaker.Cfg) :
    ⦃fun w => ⌜Pre0 cfg w⌝⦄ breakerAllow bc
    ⦃post⟨fun d w => ⌜Pre0 cfg w ∧ ∀ ev', d.2.2 = some ev' → ev'.isCircuit = true⌝,
          fun e w => ⌜Inv cfg (.exn e) w⌝⟩⦄ := by
  mvcgen [breakerAllow]
  rename_i s h
  exact ⟨pre0_grow cfg s _ [_] rfl (by simp [preR]) h, fun ev' hev => Breaker.allow_ev bc s.breaker s.now ev' hev⟩


/-! #### the wrappers -/

theorem runCall_p (cfg : Cfg) :
    ⦃fun w => ⌜Pre0 cfg w⌝⦄ runCall cfg ⦃invPost cfg .ret⦄ := by
  apply triple_of_run
  intro w hw
  have := adequacy (runCall_spec cfg) w hw
  split <;> simp_all
  · exact retV_of_retOK cfg _ this
  · exact excV_of_exc cfg _ _ this

theorem runExecute_p (cfg : Cfg) :
    ⦃fun w => ⌜Pre0 cfg w⌝⦄ runExecute cfg
    ⦃post⟨fun o w => ⌜Inv cfg (.out o) w⌝, fun e w => ⌜Inv cfg (.exn e) w⌝⟩⦄ := by
  apply triple_of_run
  intro w hw
  have := adequacy (runExecute_spec cfg) w hw
  split <;> simp_all
  · exact this
  · exact excV_of_exc cfg _ _ this

theorem checkBreaker_pre (cfg : Cfg) :
    ⦃fun w => ⌜Pre0 cfg w⌝⦄ checkBreaker cfg
    ⦃post⟨fun _ w => ⌜Pre0 cfg w⌝, fun e w => ⌜Inv cfg (.exn e) w⌝⟩⦄ := by
  have h1 := breakerAllow_pre cfg
  have h2 := fun ev st k hev => emitBreakerEvent_pre cfg ev st k hev
  mvcgen [checkBreaker, h1, h2]
  all_goals (clear h1 h2)
  all_goals (try (simp_all; done))
  all_goals (exact inv_exn_of_pre0 cfg _ _ (by assumption) (by simp))

/-- `Policy.call` with a retry component -/
theorem call_retry_spec (cfg : Cfg) (hret : cfg.hasRetry = true) :
    ⦃fun w => ⌜Pre0 cfg w⌝⦄ Policy.call cfg ⦃invPost cfg .ret⦄ := by
  have h1 := initCtx_pre cfg
  have h2 := checkBreaker_pre cfg
  have h3 := runCall_p cfg
  have h4 := fun z => recordSuccess_p cfg z
  have h5 := fun z => recordCancel_p cfg z
  have h6 := fun z => ensureSettled_p cfg z
  have h7 := fun z e => handleExhaustedCall_p cfg z e
  have h8 := fun z k => recordFailure_p cfg z k
  have h9 := fun e0 e' hex => callClassifier_p cfg e0 e' hex
  unfold Policy.call callAdmitted
  simp only [hret, if_true]
  mvcgen [withFinally, callLadder, handleAbortCall, handleExceptionCall, classifyForBreaker,
    h1, h2, h3, h4, h5, h6, h7, h8, h9]
  all_goals (clear h1 h2 h3 h4 h5 h6 h7 h8 h9)
  all_goals (try (simp_all; done))


theorem policyOutcome_pre (cfg : Cfg) (ok : Bool) (value : Option Nat) (attempts : Nat)
    (lc : Option EClass) (le : Option String) (cause : Option Cause) :
    ⦃fun w => ⌜Pre0 cfg w⌝⦄ policyOutcome ok value none attempts lc le cause
    ⦃post⟨fun o w => ⌜Inv cfg (.out o) w⌝, fun e w => ⌜Inv cfg (.exn e) w⌝⟩⦄ := by
  mvcgen [policyOutcome, xElapsed]
  exact inv_out_of_pre0 cfg _ _ (by assumption) rfl

/-- `Policy.execute` with a retry component -/
theorem execute_retry_spec (cfg : Cfg) (hret : cfg.hasRetry = true) :
    ⦃fun w => ⌜Pre0 cfg w⌝⦄ Policy.execute cfg
    ⦃post⟨fun o w => ⌜Inv cfg (.out o) w⌝, fun e w => ⌜Inv cfg (.exn e) w⌝⟩⦄ := by
  have h1 := initCtx_pre cfg
  have h2 := breakerAllow_pre cfg
  have h2' := fun ev st k hev => emitBreakerEvent_pre cfg ev st k hev
  have h3 := runExecute_p cfg
  have h4 := fun z => recordSuccess_p cfg z
  have h5 := fun z => recordCancel_p cfg z
  have h6 := fun z => ensureSettled_p cfg z
  have h7 := fun z e => handleExhaustedCall_p cfg z e
  have h8 := fun z k => recordFailure_p cfg z k
  have h9 := fun e0 e' hex => callClassifier_p cfg e0 e' hex
  have h10 := fun ok v a lc le c => policyOutcome_pre cfg ok v a lc le c
  unfold Policy.execute executeAdmitted executeAdmitted2
  simp only [hret, if_true]
  mvcgen [withFinally, executeWithRetry, executeLadder, handleExceptionCall, classifyForBreaker,
    h1, h2, h2', h3, h4, h5, h6, h7, h8, h9, h10]
  all_goals (clear h1 h2 h2' h3 h4 h5 h6 h7 h8 h9 h10)
  all_goals (try (simp_all; done))


/-! ### the theorems -/

/-- the monitor's verdict on a result, in terms of the fold state -/
def verdict (cfg : Cfg) (t : Trace) (s : St) (r : Res) : Bool :=
  !s.bad && stopSound cfg t s r && !s.mustOp && giveUpOk cfg t s r && grantOk cfg t s r

theorem ok_eq (cfg : Cfg) (e : Entry) (tr : List (Req × Ans)) (r : Res) :
    Mon.C03.ok cfg e tr.reverse r =
      if hasLoop cfg e && !flt tr then verdict cfg tr.reverse (cur cfg tr) r else true := by
  simp only [Mon.C03.ok, verdict, run_reverse, fault_reverse]

theorem verdict_ret (cfg : Cfg) (w : World) (v : Nat) (h : RetV cfg w) (hf : flt w.trace = false) :
    verdict cfg w.trace.reverse (cur cfg w.trace) (.ret v) = true := by
  obtain ⟨h1, h2, h3, h4⟩ := h hf
  simp only [verdict, stopSound, stopOf, giveUpOk, grantOk, h1, h2, h4]
  by_cases ho : (cur cfg w.trace).ops = 0
  · simp [ho]
  · have := h3 (by omega)
    simp [this]

theorem stopOf_cases (t : Trace) (e : Exn) :
    stopOf t (.raised e) = none ∨
    ∃ f, e = .libExhausted f ∧ raisedBy (fun _ => true) t e = false ∧ stopOf t (.raised e) = some f.stop := by
  cases e <;> simp [stopOf]

theorem verdict_exn (cfg : Cfg) (w : World) (e : Exn) (h : ExcV cfg e w) (hf : flt w.trace = false) :
    verdict cfg w.trace.reverse (cur cfg w.trace) (.raised e) = true := by
  have hc := h hf
  have hstop : stopSound cfg w.trace.reverse (cur cfg w.trace) (.raised e) = true := by
    rcases stopOf_cases w.trace.reverse e with h | ⟨f, he, hnr, hs⟩
    · simp [stopSound, h]
    · simp only [stopSound, hs, elapsedOf_reverse]
      rw [raisedBy_reverse] at hnr
      rcases hc.stop f he with h | h
      · rw [h] at hnr; cases hnr
      · exact h
  have hgive : giveUpOk cfg w.trace.reverse (cur cfg w.trace) (.raised e) = true := by
    simp only [giveUpOk, raisedBy_reverse, elapsedOf_reverse]
    by_cases h0 : ((cur cfg w.trace).ops == 0 || (cur cfg w.trace).done) = true
    · simp [h0]
    · by_cases hx : (!e.isException || e.isAbort || e.isExhausted) = true
      · simp [hx]
      · simp only [h0, hx, Bool.false_eq_true, if_false]
        simp only [Bool.or_eq_true, beq_iff_eq, not_or, Bool.not_eq_true] at h0
        simp only [Bool.or_eq_true, Bool.not_eq_eq_eq_not, Bool.not_true, not_or, Bool.not_eq_true,
          Bool.not_eq_false] at hx
        rcases hc.give (by omega) h0.2 hx.1.1 hx.1.2 hx.2 with g | g | g
        · simp [g]
        · simp [g.1, g.2]
        · simp [g.1, g.2.1, g.2.2]
  have hgrant : grantOk cfg w.trace.reverse (cur cfg w.trace) (.raised e) = true := by
    simp only [grantOk]
    by_cases hg : (cur cfg w.trace).granted = true
    · obtain ⟨g1, g2⟩ := hc.grant hg
      have g1' : (!cfg.metric || (cur cfg w.trace).retryEv) = true := by
        cases hm : cfg.metric <;> simp_all
      simp only [hg, Bool.not_true, Bool.false_or, g1', Bool.true_and]
      rcases g2 with g | g | g
      · simp [g]
      · simp [g]
      · rcases stopOf_cases w.trace.reverse e with h | ⟨f, he, hnr, hs⟩
        · simp [h]
        · rw [raisedBy_reverse] at hnr
          rcases g f he with g | g
          · rw [g] at hnr; cases hnr
          · simp [hs, g]
    · simp [hg]
  simp [verdict, hc.bad, hc.must, hstop, hgive, hgrant]

theorem verdict_out (cfg : Cfg) (w : World) (o : Outcome) (tl : List TimelineEv) (h : OutOK cfg o w)
    (hf : flt w.trace = false) :
    verdict cfg w.trace.reverse (cur cfg w.trace) (.outcome o tl) = true := by
  have hc := h hf
  have hstop : stopSound cfg w.trace.reverse (cur cfg w.trace) (.outcome o tl) = true := by
    simp only [stopSound, stopOf, elapsedOf_reverse]
    cases hs : o.stop with
    | none => rfl
    | some r => exact hc.stop r hs
  have hgive : giveUpOk cfg w.trace.reverse (cur cfg w.trace) (.outcome o tl) = true := by
    simp only [giveUpOk]
    by_cases h0 : ((cur cfg w.trace).ops == 0 || (cur cfg w.trace).done) = true
    · simp [h0]
    · simp only [h0, Bool.false_eq_true, if_false]
      simp only [Bool.or_eq_true, beq_iff_eq, not_or, Bool.not_eq_true] at h0
      obtain ⟨g1, g2⟩ := hc.give (by omega) h0.2
      simp [g1, g2]
  have hgrant : grantOk cfg w.trace.reverse (cur cfg w.trace) (.outcome o tl) = true := by
    simp only [grantOk, stopOf]
    by_cases hg : (cur cfg w.trace).granted = true
    · obtain ⟨g1, g2⟩ := hc.grant hg
      have g1' : (!cfg.metric || (cur cfg w.trace).retryEv) = true := by
        cases hm : cfg.metric <;> simp_all
      simp only [hg, Bool.not_true, Bool.false_or, g1', Bool.true_and]
      rcases g2 with g | g | g | g <;> simp [g]
    · simp [hg]
  simp [verdict, hc.bad, hc.must, hstop, hgive, hgrant]


/-- the world `runEntry` starts a call from -/
def startWorld (w : World) : World := { w with trace := [], timeline := [], opCalls := 0 }

theorem pre0_start (cfg : Cfg) (w : World) : Pre0 cfg (startWorld w) := ⟨rfl, rfl, rfl⟩

theorem ok_of_inv (cfg : Cfg) (e : Entry) (w : World) (z : Rz) (r : Res) (h : Inv cfg z w)
    (hr : match z with
      | .ret => ∃ v, r = .ret v
      | .exn x => r = .raised x
      | .out o => ∃ tl, r = .outcome o tl) :
    Mon.C03.ok cfg e w.trace.reverse r = true := by
  rw [ok_eq]
  split
  · rename_i hg
    have hf : flt w.trace = false := by
      have := (Bool.and_eq_true _ _ ▸ hg).2
      simpa using this
    cases z with
    | ret => obtain ⟨v, rfl⟩ := hr; exact verdict_ret cfg w v h hf
    | exn x => subst hr; exact verdict_exn cfg w x h hf
    | out o => obtain ⟨tl, rfl⟩ := hr; exact verdict_out cfg w o tl h hf
  · rfl

/--
**C03.**  For every configuration, every entry point (`Retry`/`Policy` × `call`/`execute`) and every world
— every answer stream, clock value and state of a shared budget or breaker — the run satisfies the
"retry exactly when permitted" monitor (`Mon.C03.ok`; each clause is restated below).
-/
theorem permitted_holds (cfg : Cfg) (e : Entry) (w : World) :
    Mon.C03.ok cfg e (runEntry cfg e w).2.trace.reverse (runEntry cfg e w).1 = true := by
  cases e with
  | call =>
    have := adequacy (runCall_p cfg) (startWorld w) (pre0_start cfg w)
    simp only [runEntry, startWorld] at this ⊢
    split at this <;> rename_i heq <;> simp only [heq, toRes]
    · exact ok_of_inv cfg _ _ .ret _ this ⟨_, rfl⟩
    · exact ok_of_inv cfg _ _ (.exn _) _ this rfl
  | execute =>
    have := adequacy (runExecute_p cfg) (startWorld w) (pre0_start cfg w)
    simp only [runEntry, startWorld] at this ⊢
    split at this <;> rename_i heq <;> simp only [heq, toResO]
    · exact ok_of_inv cfg _ _ (.out _) _ this ⟨_, rfl⟩
    · exact ok_of_inv cfg _ _ (.exn _) _ this rfl
  | pcall =>
    cases hret : cfg.hasRetry with
    | true =>
      have := adequacy (call_retry_spec cfg hret) (startWorld w) (pre0_start cfg w)
      simp only [runEntry, startWorld] at this ⊢
      split at this <;> rename_i heq <;> simp only [heq, toRes]
      · exact ok_of_inv cfg _ _ .ret _ this ⟨_, rfl⟩
      · exact ok_of_inv cfg _ _ (.exn _) _ this rfl
    | false => simp [Mon.C03.ok, hasLoop, hret, Entry.isPolicy]
  | pexecute =>
    cases hret : cfg.hasRetry with
    | true =>
      have := adequacy (execute_retry_spec cfg hret) (startWorld w) (pre0_start cfg w)
      simp only [runEntry, startWorld] at this ⊢
      split at this <;> rename_i heq <;> simp only [heq, toResO]
      · exact ok_of_inv cfg _ _ (.out _) _ this ⟨_, rfl⟩
      · exact ok_of_inv cfg _ _ (.exn _) _ this rfl
    | false => simp [Mon.C03.ok, hasLoop, hret, Entry.isPolicy]

/-- …and therefore of every call in every script of calls and clock advances on ONE policy object -/
theorem permitted_holds_script (cfg : Cfg) : ∀ (steps : List Step) (w : World),
    ∀ l ∈ (runScript cfg steps w).1, Mon.C03.ok cfg l.entry l.trace l.res = true := by
  intro steps
  induction steps with
  | nil => intro w l hl; simp [runScript] at hl
  | cons st rest ih =>
    intro w l hl
    cases st with
    | advance d => exact ih _ l (by simpa [runScript] using hl)
    | run e =>
      simp only [runScript, List.mem_cons] at hl
      rcases hl with rfl | hl
      · exact permitted_holds cfg e w
      · exact ih _ l hl

/-! ### the clauses of the monitor, one by one

The monitor's flag `bad` is sticky, so `permitted_holds` says of EVERY exchange of a run what the flag
checks when that exchange is processed.  `at cfg t p x` = "`x` is the exchange that follows the prefix `p`
of the log `t`". -/

/-- one step of the monitor together with the loop's clock -/
def stepP (cfg : Cfg) (acc : St × Clock) (x : Req × Ans) : St × Clock :=
  (step cfg acc.1 x (acc.2.tick x).el, acc.2.tick x)

theorem run_eq (cfg : Cfg) (t : Trace) : run cfg t = (t.foldl (stepP cfg) ({}, {})).1 := rfl

theorem step_bad_mono (cfg : Cfg) (s : St) (x : Req × Ans) (el : Nat) (h : (step cfg s x el).bad = false) :
    s.bad = false := by
  obtain ⟨r, a⟩ := x
  cases hb : s.bad with
  | false => rfl
  | true =>
    exfalso
    revert h
    cases r with
    | metric ev _ _ _ => cases ev <;> simp [step, hb]
    | _ => simp [step, classify, hb] <;> (try (cases a <;> simp [hb])) <;> (try (split <;> simp [hb]))


theorem foldl_bad_mono (cfg : Cfg) (q : Trace) (acc : St × Clock)
    (h : (q.foldl (stepP cfg) acc).1.bad = false) : acc.1.bad = false := by
  induction q generalizing acc with
  | nil => exact h
  | cons x q ih => exact step_bad_mono cfg _ x _ (ih (stepP cfg acc x) h)

/-- if the monitor has not flagged at the end of the log, it did not flag when it processed the exchange `x`
    that follows the prefix `p` -/
theorem unflagged (cfg : Cfg) (p rest : Trace) (x : Req × Ans) (h : (run cfg (p ++ x :: rest)).bad = false) :
    (step cfg (run cfg p) x (elapsedOf (p ++ [x]))).bad = false := by
  simp only [run_eq, List.foldl_append, List.foldl_cons] at h
  have := foldl_bad_mono cfg rest _ h
  have hclk : ∀ (t : Trace) (acc : St × Clock), (t.foldl (stepP cfg) acc).2 = t.foldl Clock.tick acc.2 := by
    intro t
    induction t with
    | nil => intro acc; rfl
    | cons y t ih => intro acc; simp [List.foldl, ih, stepP]
  simp only [stepP] at this
  rw [hclk] at this
  simpa [run_eq, elapsedOf, List.foldl_append] using this

/-- the guards of the monitor: an entry point with a retry loop, and no attempt hook / abort predicate raised -/
def Guarded (cfg : Cfg) (e : Entry) (t : Trace) : Prop := hasLoop cfg e = true ∧ attemptHookFault t = false

theorem clauses (cfg : Cfg) (e : Entry) (w : World)
    (hg : Guarded cfg e (runEntry cfg e w).2.trace.reverse) :
    let t := (runEntry cfg e w).2.trace.reverse
    let r := (runEntry cfg e w).1
    (run cfg t).bad = false ∧ stopSound cfg t (run cfg t) r = true ∧ (run cfg t).mustOp = false ∧
      giveUpOk cfg t (run cfg t) r = true ∧ grantOk cfg t (run cfg t) r = true := by
  have h := permitted_holds cfg e w
  simp only [Mon.C03.ok, hg.1, hg.2, Bool.not_false, Bool.and_self, if_true, Bool.and_eq_true,
    Bool.not_eq_true'] at h
  exact ⟨h.1.1.1.1, h.1.1.1.2, h.1.1.2, h.1.2, h.2⟩

section conjuncts
variable (cfg : Cfg) (e : Entry) (w : World)
  (hg : Guarded cfg e (runEntry cfg e w).2.trace.reverse)
  (p rest : Trace) (x : Req × Ans) (ht : (runEntry cfg e w).2.trace.reverse = p ++ x :: rest)
include hg ht

/-- **A successful attempt ends the run at once**: once a success is confirmed (the operation returned and
    the result classifier, if any, accepted the value) the operation is not invoked again, no strategy is
    asked, no budget token spent, no `retry` reported, no sleep requested. -/
theorem success_ends_run
    (hx : isOp x.1 = true ∨ isSleeper x.1 = true ∨ (∃ g, x = (.budgetConsume, .granted g)) ∨
          (∃ k kd c, x.1 = .strategy k kd c) ∨ (∃ a s tg, x.1 = .metric .retry a s tg)) :
    (run cfg p).done = false := by
  have hb := (clauses cfg e w hg).1
  rw [ht] at hb
  have := unflagged cfg p rest x hb
  obtain ⟨r, a⟩ := x
  rcases hx with h | h | ⟨g, h⟩ | ⟨k, kd, c, h⟩ | ⟨a', s', tg, h⟩
  · cases r <;> simp_all [isOp, step]
    cases a <;> simp_all
  · cases r <;> simp_all [isSleeper, step]
  · cases h; simp_all [step]
  · subst h; simp_all [step]
  · subst h; simp_all [step]

/-- **No wasted backoff** (the F1 regression theorem): after the last permitted attempt — `max_attempts`
    invocations of the operation — no strategy is asked, no budget token is spent, no `retry` event is
    reported and no sleep is requested. -/
theorem no_backoff_after_last
    (hx : isSleeper x.1 = true ∨ (∃ g, x = (.budgetConsume, .granted g)) ∨
          (∃ k kd c, x.1 = .strategy k kd c) ∨ (∃ a s tg, x.1 = .metric .retry a s tg)) :
    (run cfg p).ops < cfg.maxAttempts := by
  have hb := (clauses cfg e w hg).1
  rw [ht] at hb
  have := unflagged cfg p rest x hb
  obtain ⟨r, a⟩ := x
  rcases hx with h | ⟨g, h⟩ | ⟨k, kd, c, h⟩ | ⟨a', s', tg, h⟩
  · cases r <;> simp_all [isSleeper, step]
  · cases h; simp_all [step]
  · subst h; simp_all [step]
  · subst h; simp_all [step]

/-- **Sleep only if permitted**: a backoff sleep is requested only after, within the same attempt, the
    strategy was asked, the budget (if configured) granted a token, the `retry` event was reported (if a
    metric hook is configured), the abort predicate (if configured) answered False after the grant, and the
    sleep handler (if configured) said SLEEP; and at most once per attempt. -/
theorem sleep_only_if_permitted (hx : isSleeper x.1 = true) :
    (run cfg p).strat = true ∧ (cfg.budget.isSome = true → (run cfg p).granted = true) ∧
    (cfg.metric = true → (run cfg p).retryEv = true) ∧ (cfg.abortIf = true → (run cfg p).pollFalse = true) ∧
    (cfg.handler.isSome = true → (run cfg p).decision = some .sleep) ∧ (run cfg p).slept = false := by
  have hb := (clauses cfg e w hg).1
  rw [ht] at hb
  have := unflagged cfg p rest x hb
  obtain ⟨r, a⟩ := x
  cases r <;> simp_all [isSleeper, step]

/-- **The next attempt only after a sleep**: every invocation of the operation but the first follows a
    backoff sleep requested in the attempt before. -/
theorem next_attempt_only_after_sleep (hx : isOp x.1 = true) (h1 : 1 ≤ (run cfg p).ops) :
    (run cfg p).slept = true := by
  have hb := (clauses cfg e w hg).1
  rw [ht] at hb
  have := unflagged cfg p rest x hb
  obtain ⟨r, a⟩ := x
  cases r <;> simp_all [isOp, step]
  cases a <;> simp_all

/-- **A delay is computed only if the failure permits a retry**: the strategy is asked only after the
    failure of the attempt was classified, its class is retryable and has a strategy, the per-class and
    UNKNOWN caps are not exceeded, and the deadline has not passed. -/
theorem strategy_only_if_class_permits (hx : ∃ k kd c, x.1 = .strategy k kd c) :
    (run cfg p).classified = true ∧ classStop cfg (run cfg p) = false ∧
    ¬ cfg.deadline ≤ elapsedOf (p ++ [x]) - x.2.dur := by
  have hb := (clauses cfg e w hg).1
  rw [ht] at hb
  have := unflagged cfg p rest x hb
  obtain ⟨r, a⟩ := x
  obtain ⟨k, kd, c, h⟩ := hx
  subst h
  simp only [step, Bool.or_eq_false_iff, decide_eq_false_iff_not, Bool.not_eq_false'] at this
  exact ⟨this.1.1.2, this.1.2, this.2⟩

/-- **The budget is consulted at most once per attempt, after the strategy** (C10, policy level). -/
theorem budget_once_after_strategy (hx : ∃ g, x = (.budgetConsume, .granted g)) :
    (run cfg p).strat = true ∧ (run cfg p).granted = false ∧ (run cfg p).refused = false := by
  have hb := (clauses cfg e w hg).1
  rw [ht] at hb
  have := unflagged cfg p rest x hb
  obtain ⟨g, rfl⟩ := hx
  simp_all [step]

/-- **`retry` is reported only for a granted retry; `budget_exhausted` only after a refusal.** -/
theorem retry_event_only_if_granted (hx : ∃ a s tg, x.1 = .metric .retry a s tg) :
    (run cfg p).strat = true ∧ (cfg.budget.isSome = true → (run cfg p).granted = true) := by
  have hb := (clauses cfg e w hg).1
  rw [ht] at hb
  have := unflagged cfg p rest x hb
  obtain ⟨r, a⟩ := x
  obtain ⟨a', s', tg, h⟩ := hx
  subst h
  simp_all [step]

end conjuncts

/-- **Each reported stop reason implies its condition** (`Mon.C03.stopCond`): MAX_ATTEMPTS_GLOBAL ⇒
    `max_attempts` invocations were made; BUDGET_EXHAUSTED ⇒ the budget refused in the last attempt;
    DEADLINE_EXCEEDED ⇒ the elapsed time reached the deadline; NON_RETRYABLE_CLASS / NO_STRATEGY /
    MAX_ATTEMPTS_PER_CLASS / MAX_UNKNOWN_ATTEMPTS ⇒ the condition holds of the class of the last failure and
    the number of failures of that class; ABORTED ⇒ an abort was requested; SCHEDULED ⇒ a handler said DEFER. -/
theorem stop_reason_sound (cfg : Cfg) (e : Entry) (w : World)
    (hg : Guarded cfg e (runEntry cfg e w).2.trace.reverse) (r : StopReason)
    (hr : stopOf (runEntry cfg e w).2.trace.reverse (runEntry cfg e w).1 = some r) :
    stopCond cfg (run cfg (runEntry cfg e w).2.trace.reverse)
      (elapsedOf (runEntry cfg e w).2.trace.reverse) r = true := by
  have := (clauses cfg e w hg).2.1
  simpa [stopSound, hr] using this

/-- **No premature give-up.**  (i) If the last backoff sleep returned with the deadline not passed and fewer
    than `max_attempts` invocations made, the operation is invoked again (unless the loop-top poll answers
    True).  (ii) A run that made an attempt and did not end in a confirmed success reports a stop reason, or
    ends with an exception that is not an attempt failure or that a callback raised; `call()` re-raises the
    operation's own exception only after the failure was classified and some stop condition holds. -/
theorem no_premature_give_up (cfg : Cfg) (e : Entry) (w : World)
    (hg : Guarded cfg e (runEntry cfg e w).2.trace.reverse) :
    (run cfg (runEntry cfg e w).2.trace.reverse).mustOp = false ∧
    giveUpOk cfg (runEntry cfg e w).2.trace.reverse (run cfg (runEntry cfg e w).2.trace.reverse)
      (runEntry cfg e w).1 = true :=
  ⟨(clauses cfg e w hg).2.2.1, (clauses cfg e w hg).2.2.2.1⟩

/-- **No wasted token**: a token granted in the last attempt was reported and the backoff at least begun,
    unless the run was aborted or ended with an exception. -/
theorem token_not_wasted (cfg : Cfg) (e : Entry) (w : World)
    (hg : Guarded cfg e (runEntry cfg e w).2.trace.reverse) :
    grantOk cfg (runEntry cfg e w).2.trace.reverse (run cfg (runEntry cfg e w).2.trace.reverse)
      (runEntry cfg e w).1 = true :=
  (clauses cfg e w hg).2.2.2.2


/-- the guards are satisfiable on a non-empty log (non-vacuity of the hypotheses above) -/
example : Guarded {} .call [(.op 1, .raise (.ordinary 1 .transient) 0), (.classify "o1", .klass ⟨.transient, none⟩ 0)] :=
  ⟨rfl, rfl⟩

end Redress.Props.C03
