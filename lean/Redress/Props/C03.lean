/-
  C03 — Retry exactly when permitted: no premature give-up, no wasted backoff.

  Theorems are about `Mon.C03.ok`, the monitor the driver also evaluates on implementation traces:
  for EVERY configuration, EVERY answer stream and every entry point, the monitor accepts the model's
  run.  Structure as in `Props/C01.lean`; the leaf procedures come from the exchange-level footprints
  `FootQ` / `FootE` of `Lemmas/Footprint.lean`.
-/
import Redress.Lemmas.Footprint
import Redress.Monitors

open Std.Do

namespace Redress.Props.C03
open Redress Redress.Retry Redress.Mon Redress.Mon.C03

/-! ### the monitor as a function of the world's (newest-first) log -/

/-- the loop's clock -/
def clk (tr : List (Req × Ans)) : Clock := tr.foldr (fun x c => c.tick x) {}

/-- the monitor state -/
def cur (cfg : Cfg) : List (Req × Ans) → St
  | [] => {}
  | x :: t => step cfg (cur cfg t) x (clk (x :: t)).el

@[simp] theorem clk_cons (x : Req × Ans) (t : List (Req × Ans)) : clk (x :: t) = (clk t).tick x := rfl

@[simp] theorem cur_cons (cfg : Cfg) (x : Req × Ans) (t : List (Req × Ans)) :
    cur cfg (x :: t) = step cfg (cur cfg t) x ((clk t).tick x).el := rfl

theorem pair_fold (cfg : Cfg) (t : List (Req × Ans)) :
    t.foldr (fun x (acc : St × Clock) => (step cfg acc.1 x (acc.2.tick x).el, acc.2.tick x)) ({}, {})
      = (cur cfg t, clk t) := by
  induction t with
  | nil => rfl
  | cons x t ih => simp [List.foldr, ih]

theorem run_reverse (cfg : Cfg) (t : List (Req × Ans)) : run cfg t.reverse = cur cfg t := by
  simp only [run, List.foldl_reverse]
  exact congrArg Prod.fst (pair_fold cfg t)

theorem elapsedOf_reverse (t : List (Req × Ans)) : elapsedOf t.reverse = (clk t).el := by
  simp [elapsedOf, clk, List.foldl_reverse]

/-- an attempt hook or the abort predicate raised (`Mon.attemptHookFault`) -/
def flt (tr : List (Req × Ans)) : Bool := attemptHookFault tr

theorem fault_reverse (t : List (Req × Ans)) : attemptHookFault t.reverse = flt t := by
  simp [attemptHookFault, flt, List.any_reverse]

theorem raisedBy_reverse (p : Req → Bool) (t : List (Req × Ans)) (e : Exn) :
    raisedBy p t.reverse e = raisedBy p t e := by
  simp [raisedBy, List.any_reverse]

/-- the monitor's clock is the total duration of `retryTrace` (what the deadline clause used before
    it was written as a fold) -/
theorem elapsedOf_eq (t : Trace) : elapsedOf t = (retryTrace t).foldl (fun n x => n + x.2.dur) 0 := by
  have hstarted : ∀ (l : Trace) (n : Nat),
      (l.foldl Clock.tick { started := true, el := n }).el = l.foldl (fun n x => n + x.2.dur) n := by
    intro l
    induction l with
    | nil => intro n; rfl
    | cons x l ih => intro n; simp [List.foldl, Clock.tick, ih]
  unfold elapsedOf retryTrace
  induction t with
  | nil => rfl
  | cons x t ih =>
    by_cases hp : isPrelude x.1 = true
    · simp only [List.foldl, List.dropWhile, hp]
      have : Clock.tick {} x = {} := by simp [Clock.tick, hp]
      rw [this]; exact ih
    · have hp' : isPrelude x.1 = false := by simpa using hp
      simp only [List.foldl, List.dropWhile, hp']
      have : Clock.tick {} x = { started := true, el := x.2.dur } := by simp [Clock.tick, hp']
      rw [this, hstarted]
      simp


/-! ### requests that never move the monitor; the view -/

/-- requests of the retry loop that are inert for the C03 monitor (and never part of the prelude) -/
def loopR : Req → Bool
  | .metric ev .. => ev != .retry && ev != .budgetExhausted && !isBreakerEv ev
  | .log ev .. => !isBreakerEv ev
  | .beforeSleep .. | .attemptStart _ | .attemptEnd _ | .stratRecordFailure .. | .stratRecordSuccess _ => true
  | _ => false

/-- `loopR`, plus (when `bx`) the `budget_exhausted` metric event, which is inert once the budget has
    refused -/
def loopRx (bx : Bool) (r : Req) : Bool :=
  loopR r || (bx && (match r with
    | .metric .budgetExhausted .. => true
    | _ => false))

theorem loopRx_false (r : Req) : loopRx false r = loopR r := by simp [loopRx]

/-- an inert request moves nothing but (when it raises an abort) `sawAbort` -/
theorem step_inert' (cfg : Cfg) (bx : Bool) (s : St) (x : Req × Ans) (el : Nat) (h : loopRx bx x.1 = true)
    (hx : bx = true → s.refused = true) :
    step cfg s x el = { s with sawAbort := s.sawAbort || abortRaise x } := by
  obtain ⟨r, a⟩ := x
  cases r with
  | metric ev _ _ _ =>
    cases ev
    case budgetExhausted =>
      have hr : s.refused = true := hx (by simpa [loopRx, loopR] using h)
      cases s
      cases a <;> simp_all [step, abortKind, abortRaise]
    all_goals (simp_all [loopRx, loopR, step, abortKind, abortRaise, isBreakerEv])
  | _ => simp_all [loopRx, loopR, step, abortKind, abortRaise]

theorem abortRaise_quiet (bx : Bool) (x : Req × Ans) (h : loopRx bx x.1 = true) (hq : quietX x = true) :
    abortRaise x = false := by
  obtain ⟨r, a⟩ := x
  cases a <;> simp_all [abortRaise, quietX]
  cases r <;> simp_all [loopRx, loopR, swallowedReq, abortKind]

theorem step_inert (cfg : Cfg) (bx : Bool) (s : St) (x : Req × Ans) (el : Nat) (h : loopRx bx x.1 = true)
    (hq : quietX x = true) (hx : bx = true → s.refused = true) : step cfg s x el = s := by
  rw [step_inert' cfg bx s x el h hx, abortRaise_quiet bx x h hq]
  simp

theorem loopR_not_prelude (bx : Bool) (r : Req) (h : loopRx bx r = true) : isPrelude r = false := by
  cases r with
  | metric ev _ _ _ => cases ev <;> simp_all [loopRx, loopR, isPrelude, isBreakerEv]
  | _ => simp_all [loopRx, loopR, isPrelude]

theorem loopR_not_op (bx : Bool) (r : Req) (h : loopRx bx r = true) : isOp r = false := by
  cases r <;> simp_all [loopRx, loopR, isOp]

theorem tick_el (c : Clock) (x : Req × Ans) (h : isPrelude x.1 = false) : (c.tick x).el = c.el + x.2.dur := by
  simp [Clock.tick, h]

/-- this exchange is an attempt hook (or the abort predicate) raising -/
def hookRaise (x : Req × Ans) : Bool :=
  match x.2 with
  | .raise .. => isAttemptHook x.1
  | _ => false

theorem flt_cons (x : Req × Ans) (t : List (Req × Ans)) : flt (x :: t) = (hookRaise x || flt t) := by
  obtain ⟨r, a⟩ := x
  simp only [flt, attemptHookFault, List.any_cons]
  cases a <;> simp [hookRaise]

theorem flt_quiet (bx : Bool) (x : Req × Ans) (t : List (Req × Ans)) (hr : loopRx bx x.1 = true)
    (hq : quietX x = true) : flt (x :: t) = flt t := by
  obtain ⟨r, a⟩ := x
  rw [flt_cons]
  cases a <;> simp_all [quietX, hookRaise]
  cases r <;> simp_all [loopRx, loopR, swallowedReq, isAttemptHook]

/-- what the last invocation of the operation raised -/
def lastOpExn : List (Req × Ans) → Option Exn
  | [] => none
  | (.op _, .raise e _) :: _ => some e
  | (.op _, _) :: _ => none
  | _ :: t => lastOpExn t

theorem lastOpExn_nonop (x : Req × Ans) (t : List (Req × Ans)) (h : isOp x.1 = false) :
    lastOpExn (x :: t) = lastOpExn t := by
  obtain ⟨r, a⟩ := x
  cases r <;> simp_all [lastOpExn, isOp]

theorem raisedBy_of_lastOpExn (t : List (Req × Ans)) (e : Exn) (h : lastOpExn t = some e) :
    raisedBy isOp t e = true := by
  induction t with
  | nil => simp [lastOpExn] at h
  | cons x t ih =>
    obtain ⟨r, a⟩ := x
    cases r with
    | op k =>
      cases a <;> simp_all [lastOpExn, raisedBy, isOp]
    | _ =>
      rw [lastOpExn_nonop _ _ (by simp [isOp])] at h
      have := ih h
      simp_all [raisedBy]

/-- what the C03 argument looks at -/
structure View where
  mon : St
  flt : Bool
  sync : Bool                     -- now = start + (elapsed according to the log): true inside the loop
  stop : Option StopReason        -- `last_stop_reason`
  stopOk : Bool                   -- … and its condition holds
  counts : EClass → Nat
  unknown : Nat
  noExc : Bool                    -- `last_exc is None`
  opExn : Option Exn              -- what the last invocation of the operation raised

def stopOkOf (cfg : Cfg) (m : St) (el : Nat) : Option StopReason → Bool
  | none => true
  | some r => stopCond cfg m el r

def view (cfg : Cfg) (w : World) : View :=
  ⟨cur cfg w.trace, flt w.trace, decide (w.now = w.rs.start + (clk w.trace).el), w.rs.lastStop,
   stopOkOf cfg (cur cfg w.trace) (clk w.trace).el w.rs.lastStop,
   w.rs.perClassCounts, w.rs.unknownAttempts, w.rs.lastExc.isNone, lastOpExn w.trace⟩

theorem stopCond_mono (cfg : Cfg) (m : St) {el el' : Nat} (h : el ≤ el') (r : StopReason)
    (hc : stopCond cfg m el r = true) : stopCond cfg m el' r = true := by
  cases r <;> simp_all [stopCond]
  omega

theorem stopOkOf_mono (cfg : Cfg) (m : St) {el el' : Nat} (h : el ≤ el') (r : Option StopReason)
    (hc : stopOkOf cfg m el r = true) : stopOkOf cfg m el' r = true := by
  cases r with
  | none => rfl
  | some r => exact stopCond_mono cfg m h r hc

/-- quiet inert exchanges: the monitor, the fault flag and the slack do not move -/
theorem cur_append_quiet (cfg : Cfg) (bx : Bool) (δ t : List (Req × Ans)) (h : QuietAll (loopRx bx) δ)
    (hx : bx = true → (cur cfg t).refused = true) :
    cur cfg (δ ++ t) = cur cfg t ∧ flt (δ ++ t) = flt t ∧ (clk (δ ++ t)).el = (clk t).el + dsum δ ∧
      lastOpExn (δ ++ t) = lastOpExn t := by
  induction δ with
  | nil => simp [dsum]
  | cons x δ ih =>
    have hx' := h x (by simp)
    have := ih (fun y hy => h y (by simp [hy]))
    refine ⟨?_, ?_, ?_, ?_⟩
    rotate_right
    · rw [List.cons_append, lastOpExn_nonop _ _ (loopR_not_op bx _ hx'.1), this.2.2.2]
    · simp only [List.cons_append, cur_cons, this.1]
      exact step_inert cfg bx _ x _ hx'.1 hx'.2 hx
    · rw [List.cons_append, flt_quiet bx _ _ hx'.1 hx'.2, this.2.1]
    · simp only [List.cons_append, clk_cons, tick_el _ _ (loopR_not_prelude bx _ hx'.1), this.2.2.1, dsum]
      omega

theorem view_fq (cfg : Cfg) (bx : Bool) (w w' : World) (h : FootQ (loopRx bx) w w')
    (hok : (view cfg w).stopOk = true) (hx : bx = true → (view cfg w).mon.refused = true) :
    view cfg w' = view cfg w := by
  obtain ⟨δ, e, q, t⟩ := h.trace
  have hc := cur_append_quiet cfg bx δ w.trace q hx
  have hrs := h.rs
  have hmono := stopOkOf_mono cfg (cur cfg w.trace) (Nat.le_add_right (clk w.trace).el (dsum δ)) w.rs.lastStop
    (by simpa [view] using hok)
  simp only [view, e, hc.1, hc.2.1, hc.2.2.1, hc.2.2.2, hrs, t, View.mk.injEq, true_and, and_true]
  refine ⟨by simp only [decide_eq_decide]; omega, ?_⟩
  simp_all [view]


/-! ### what the verdict needs when a run ends with an exception -/

structure ExcCore (cfg : Cfg) (e : Exn) (m : St) (el : Nat) (tr : List (Req × Ans)) : Prop where
  bad : m.bad = false
  must : m.mustOp = false
  stop : ∀ f, e = .libExhausted f →
    raisedBy (fun _ => true) tr e = true ∨ stopCond cfg m el f.stop = true
  give : 1 ≤ m.ops → m.done = false → e.isException = true → e.isAbort = false → e.isExhausted = false →
    raisedBy nonOp tr e = true ∨ (e = .libValueError ∧ m.sawOther = true) ∨
    (raisedBy isOp tr e = true ∧ m.classified = true ∧ anyStop cfg m el = true)
  grant : m.granted = true → (cfg.metric = true → m.retryEv = true) ∧
    (m.slept = true ∨ m.decision.isSome = true ∨
      ∀ f, e = .libExhausted f → raisedBy (fun _ => true) tr e = true ∨ f.stop = .aborted)

/-- a granted token has been reported -/
def GrantInv (cfg : Cfg) (m : St) : Prop := m.granted = true → cfg.metric = true → m.retryEv = true

/-- if the exception is an abort, the log shows the abort, and no other stop reason is recorded -/
def AbortOK (cfg : Cfg) (e : Exn) (w : World) : Prop :=
  e.isAbort = true →
    (cur cfg w.trace).sawAbort = true ∧ (w.rs.lastStop = none ∨ w.rs.lastStop = some .aborted)

/-- … unless an attempt hook raised -/
def Exc (cfg : Cfg) (e : Exn) (w : World) : Prop :=
  flt w.trace = false → ExcCore cfg e (cur cfg w.trace) (clk w.trace).el w.trace ∧ AbortOK cfg e w

theorem raisedBy_append (p : Req → Bool) (δ t : List (Req × Ans)) (e : Exn) :
    raisedBy p (δ ++ t) e = (raisedBy p δ e || raisedBy p t e) := by
  simp [raisedBy]

theorem raisedBy_head (p : Req → Bool) (r : Req) (e : Exn) (d : Nat) (t : List (Req × Ans)) (h : p r = true) :
    raisedBy p ((r, Ans.raise e d) :: t) e = true := by
  simp [raisedBy, h]

theorem raisedBy_any_of (p : Req → Bool) (t : List (Req × Ans)) (e : Exn) (h : raisedBy p t e = true) :
    raisedBy (fun _ => true) t e = true := by
  simp only [raisedBy, List.any_eq_true] at h ⊢
  obtain ⟨x, hx, h⟩ := h
  exact ⟨x, hx, by simp_all⟩

/-- a leaf that makes only inert requests failed: one of its callbacks raised -/
theorem exc_of_fe (cfg : Cfg) (bx : Bool) {e : Exn} {w w' : World} (h : FootE (loopRx bx) e w w')
    (hx : bx = true → (view cfg w).mon.refused = true)
    (hb : (view cfg w).mon.bad = false) (hg : GrantInv cfg (view cfg w).mon)
    (hm : (∀ r d rest, w'.trace = (r, Ans.raise e d) :: rest → isAttemptHook r = true) ∨
          ((view cfg w).mon.mustOp = false ∧
           (e.isAbort = false ∨
            (((view cfg w).stop = none ∨ (view cfg w).stop = some .aborted) ∧
             ∀ r d rest, w'.trace = (r, Ans.raise e d) :: rest → abortKind r = true)))) :
    Exc cfg e w' := by
  obtain ⟨δ, et, _, r, d, δ', hd, hr, q⟩ := h.trace
  subst hd
  intro hf
  have hc := cur_append_quiet cfg bx δ' w.trace q hx
  have hcur : cur cfg w'.trace =
      { cur cfg w.trace with sawAbort := (cur cfg w.trace).sawAbort || abortRaise (r, Ans.raise e d) } := by
    rw [et]
    simp only [List.cons_append, cur_cons, hc.1]
    exact step_inert' cfg bx _ (r, Ans.raise e d) _ hr hx
  have hrb : raisedBy nonOp w'.trace e = true := by
    rw [et]; exact raisedBy_head _ _ _ _ _ (by simp [nonOp, loopR_not_op bx r hr])
  have hm' : (cur cfg w.trace).mustOp = false ∧
      (e.isAbort = false ∨
        (((view cfg w).stop = none ∨ (view cfg w).stop = some .aborted) ∧ abortKind r = true)) := by
    rcases hm with hm | ⟨hm1, hm2⟩
    · have := hm r d (δ' ++ w.trace) (by simpa using et)
      rw [et] at hf
      simp [flt_cons, hookRaise, this] at hf
    · refine ⟨hm1, ?_⟩
      rcases hm2 with h | ⟨h1, h2⟩
      · exact Or.inl h
      · exact Or.inr ⟨h1, h2 r d (δ' ++ w.trace) (by simpa using et)⟩
  refine ⟨?_, ?_⟩
  · rw [hcur]
    exact ⟨hb, hm'.1, fun f _ => Or.inl (raisedBy_any_of _ _ _ hrb), fun _ _ _ _ _ => Or.inl hrb,
      fun h => ⟨hg h, Or.inr (Or.inr fun f _ => Or.inl (raisedBy_any_of _ _ _ hrb))⟩⟩
  · intro ha
    rcases hm'.2 with h | ⟨h1, h2⟩
    · simp [h] at ha
    · refine ⟨by rw [hcur]; simp [abortRaise, ha, h2], ?_⟩
      have hrs : w'.rs.lastStop = w.rs.lastStop := by rw [h.rs]
      rw [hrs]
      exact h1

/-- leaves whose requests all go to hooks whose `Exception`s are swallowed: the view does not move; a
    failure is a callback raising something that is not an `Exception` -/
theorem leaf_spec {α : Type} {x : M α} (cfg : Cfg) (bx : Bool)
    (hx : ∀ w0, ⦃fun w => ⌜FootQ (loopRx bx) w0 w⌝⦄ x ⦃fqPost (loopRx bx) w0⦄)
    (hnx : ⦃fun _ => ⌜True⌝⦄ x ⦃post⟨fun _ _ => ⌜True⌝, fun e _ => ⌜e.isException = false⌝⟩⦄) (v : View)
    (hr : bx = true → v.mon.refused = true)
    (hok : v.stopOk = true) (hb : v.mon.bad = false) (hg : GrantInv cfg v.mon) (hm : v.mon.mustOp = false) :
    ⦃fun w => ⌜view cfg w = v⌝⦄ x ⦃post⟨fun _ w => ⌜view cfg w = v⌝, fun e w => ⌜Exc cfg e w⌝⟩⦄ := by
  apply triple_of_run
  intro w hw
  have := adequacy (hx w) w (FootQ.refl (loopRx bx) w)
  have hn := adequacy hnx w trivial
  subst hw
  split <;> simp_all
  · exact view_fq cfg bx _ _ this hok hr
  · rename_i e w' _
    refine exc_of_fe cfg bx this hr hb hg (Or.inr ⟨hm, Or.inl ?_⟩)
    cases e <;> simp_all [Exn.isException, Exn.isAbort]

/-- leaves that ask one callback whose `AbortRetryError` aborts the run -/
theorem leaf_spec_ns {α : Type} {x : M α} (cfg : Cfg) (R : Req → Bool)
    (hR : ∀ r, R r = true → loopRx false r = true ∧ abortKind r = true)
    (hx : ∀ w0, ⦃fun w => ⌜FootQ R w0 w⌝⦄ x ⦃fqPost R w0⦄) (v : View)
    (hs : v.stop = none) (hok : v.stopOk = true) (hb : v.mon.bad = false) (hg : GrantInv cfg v.mon)
    (hm : v.mon.mustOp = false) :
    ⦃fun w => ⌜view cfg w = v⌝⦄ x ⦃post⟨fun _ w => ⌜view cfg w = v⌝, fun e w => ⌜Exc cfg e w⌝⟩⦄ := by
  apply triple_of_run
  intro w hw
  have := adequacy (hx w) w (FootQ.refl R w)
  subst hw
  split <;> simp_all
  · exact view_fq cfg false _ _ (this.mono (fun r h => (hR r h).1)) hok (by simp)
  · refine exc_of_fe cfg false (this.mono (fun r h => (hR r h).1)) (by simp) hb hg
      (Or.inr ⟨hm, Or.inr ⟨Or.inl hs, ?_⟩⟩)
    obtain ⟨δ, et, _, r, d, δ', hd, hr, _⟩ := this.trace
    intro r' d' rest h'
    rw [et, hd] at h'
    have h1 := (Prod.mk.inj (List.cons.inj h').1).1
    rw [← h1]
    exact (hR r hr).2

/-- requests of the attempt hooks -/
def hookR : Req → Bool
  | .attemptStart _ | .attemptEnd _ => true
  | _ => false

theorem hookR_loopR (r : Req) (h : hookR r = true) : loopRx false r = true := by
  cases r <;> simp_all [hookR, loopR, loopRx]

/-- leaves that only call attempt hooks: a failure is outside the property's environment -/
theorem hook_spec {α : Type} {x : M α} (cfg : Cfg)
    (hx : ∀ w0, ⦃fun w => ⌜FootQ hookR w0 w⌝⦄ x ⦃fqPost hookR w0⦄) (v : View)
    (hok : v.stopOk = true) (hb : v.mon.bad = false) (hg : GrantInv cfg v.mon) :
    ⦃fun w => ⌜view cfg w = v⌝⦄ x ⦃post⟨fun _ w => ⌜view cfg w = v⌝, fun e w => ⌜Exc cfg e w⌝⟩⦄ := by
  apply triple_of_run
  intro w hw
  have := adequacy (hx w) w (FootQ.refl hookR w)
  subst hw
  split <;> simp_all
  · exact view_fq cfg false _ _ (this.mono hookR_loopR) hok (by simp)
  · refine exc_of_fe cfg false (this.mono hookR_loopR) (by simp) hb hg (Or.inl ?_)
    obtain ⟨δ, et, _, r, d, δ', hd, hr, _⟩ := this.trace
    intro r' d' rest h'
    rw [et, hd] at h'
    have h1 := (Prod.mk.inj (List.cons.inj h').1).1
    rw [← h1]
    cases r <;> simp_all [hookR, isAttemptHook]


/-- a callback other than the operation raised and nothing caught it -/
theorem exc_of_raise (cfg : Cfg) {w' : World} {tr : List (Req × Ans)} {r : Req} {e : Exn} {d : Nat}
    (ht : w'.trace = (r, Ans.raise e d) :: tr) (hnop : isOp r = false)
    (hb : (cur cfg w'.trace).bad = false) (hg : GrantInv cfg (cur cfg w'.trace))
    (hm : isAttemptHook r = true ∨
          ((cur cfg w'.trace).mustOp = false ∧
           (e.isAbort = true → (cur cfg w'.trace).sawAbort = true ∧
              (w'.rs.lastStop = none ∨ w'.rs.lastStop = some .aborted)))) : Exc cfg e w' := by
  intro hf
  have hrb : raisedBy nonOp w'.trace e = true := by
    rw [ht]; exact raisedBy_head _ _ _ _ _ (by simp [nonOp, hnop])
  have hm' : (cur cfg w'.trace).mustOp = false ∧
      (e.isAbort = true → (cur cfg w'.trace).sawAbort = true ∧
        (w'.rs.lastStop = none ∨ w'.rs.lastStop = some .aborted)) := by
    rcases hm with hm | hm
    · rw [ht] at hf
      simp [flt_cons, hookRaise, hm] at hf
    · exact hm
  exact ⟨⟨hb, hm'.1, fun f _ => Or.inl (raisedBy_any_of _ _ _ hrb), fun _ _ _ _ _ => Or.inl hrb,
    fun h => ⟨hg h, Or.inr (Or.inr fun f _ => Or.inl (raisedBy_any_of _ _ _ hrb))⟩⟩, hm'.2⟩

/-- `emit` fails only with something that is not an `Exception` -/
theorem emit_nonexc (cfg : Cfg) (tl : Bool) (ev : Event) (a s : Nat) (k : Option EClass) (e : Option Exn)
    (st : Option StopReason) (c : Option Cause) (cl : Option Classification) :
    ⦃fun _ => ⌜True⌝⦄ emit cfg tl ev a s k e st c cl
    ⦃post⟨fun _ _ => ⌜True⌝, fun e' _ => ⌜e'.isException = false⌝⟩⦄ := by
  mvcgen [emit, metricHook, askMetric, askLog, ask, swallowException, recordTimeline]
  all_goals simp_all

theorem callBeforeSleep_nonexc (cfg : Cfg) (ctx : BackoffCtx) (s : Nat) :
    ⦃fun _ => ⌜True⌝⦄ callBeforeSleep cfg ctx s
    ⦃post⟨fun _ _ => ⌜True⌝, fun e' _ => ⌜e'.isException = false⌝⟩⦄ := by
  mvcgen [callBeforeSleep, ask, swallowException]
  all_goals simp_all

/-! ### leaf procedures -/

abbrev leafPost (cfg : Cfg) (v : View) : PostCond α (.except Exn (.arg World .pure)) :=
  post⟨fun _ w => ⌜view cfg w = v⌝, fun e w => ⌜Exc cfg e w⌝⟩

/-- events of the loop other than `retry` (and `budget_exhausted`, unless the budget has refused) -/
def plainEv (bx : Bool) (ev : Event) : Bool :=
  ev != .retry && !isBreakerEv ev && (bx || ev != .budgetExhausted)

@[simp] theorem isAbort_of_not_exception (e : Exn) (h : e.isException = false) : e.isAbort = false := by
  cases e <;> simp_all [Exn.isException, Exn.isAbort]

/-- requests to an adaptive strategy's `record_failure` / `record_success` -/
def recR : Req → Bool
  | .stratRecordFailure .. | .stratRecordSuccess _ => true
  | _ => false

theorem recR_ok (r : Req) (h : recR r = true) : loopRx false r = true ∧ abortKind r = true := by
  cases r <;> simp_all [recR, loopRx, loopR, abortKind]

section leaves
variable (cfg : Cfg) (tl : Bool) (v : View) (hok : v.stopOk = true) (hb : v.mon.bad = false)
  (hg : GrantInv cfg v.mon)
include hok hb hg

theorem emit_v (hm : v.mon.mustOp = false) (ev : Event) (hev : plainEv v.mon.refused ev = true) (a s : Nat)
    (k : Option EClass) (e : Option Exn) (st : Option StopReason) (c : Option Cause)
    (cl : Option Classification) :
    ⦃fun w => ⌜view cfg w = v⌝⦄ emit cfg tl ev a s k e st c cl ⦃leafPost cfg v⦄ :=
  leaf_spec cfg v.mon.refused (fun w0 => emit_fq (loopRx v.mon.refused) w0 cfg tl ev a s k e st c cl
    (fun _ => by cases ev <;> simp_all [loopRx, loopR, plainEv])
    (fun _ _ => by cases ev <;> simp_all [loopRx, loopR, plainEv]))
    (emit_nonexc cfg tl ev a s k e st c cl) v id hok hb hg hm

theorem callBeforeSleep_v (hm : v.mon.mustOp = false) (ctx : BackoffCtx) (s : Nat) :
    ⦃fun w => ⌜view cfg w = v⌝⦄ callBeforeSleep cfg ctx s ⦃leafPost cfg v⦄ :=
  leaf_spec cfg false (fun w0 => callBeforeSleep_fq (loopRx false) w0 cfg ctx s (fun _ => rfl))
    (callBeforeSleep_nonexc cfg ctx s) v (by simp) hok hb hg hm

theorem stratRecordFailure_v (hs : v.stop = none) (hm : v.mon.mustOp = false) (key : SKey) (k : EClass) :
    ⦃fun w => ⌜view cfg w = v⌝⦄ stratRecordFailure cfg key k ⦃leafPost cfg v⦄ :=
  leaf_spec_ns cfg recR recR_ok (fun w0 => stratRecordFailure_fq recR w0 cfg key k rfl) v hs hok hb hg hm

theorem recordStrategySuccess_v (hs : v.stop = none) (hm : v.mon.mustOp = false) :
    ⦃fun w => ⌜view cfg w = v⌝⦄ recordStrategySuccess cfg ⦃leafPost cfg v⦄ :=
  leaf_spec_ns cfg recR recR_ok (fun w0 => recordStrategySuccess_fq recR w0 cfg (fun _ => rfl)) v hs hok hb hg hm

theorem callAttemptStart_v (a : Nat) :
    ⦃fun w => ⌜view cfg w = v⌝⦄ callAttemptStart cfg a ⦃leafPost cfg v⦄ :=
  hook_spec cfg (fun w0 => callAttemptStart_fq hookR w0 cfg a (fun _ => rfl)) v hok hb hg

theorem callAttemptEnd_v (a : Nat) (cls : Option Classification) (exc : Option Exn) (result : Option Nat)
    (d : AttemptDecision) (stop : Option StopReason) (cause : Option Cause) (sleep : Option Nat) :
    ⦃fun w => ⌜view cfg w = v⌝⦄ callAttemptEnd cfg a cls exc result d stop cause sleep ⦃leafPost cfg v⦄ :=
  hook_spec cfg (fun w0 => callAttemptEnd_fq hookR w0 cfg a cls exc result d stop cause sleep (fun _ => rfl))
    v hok hb hg

theorem handleSuccessAttemptEnd_v (hs : v.stop = none) (hm : v.mon.mustOp = false) (a x : Nat) :
    ⦃fun w => ⌜view cfg w = v⌝⦄ handleSuccessAttemptEnd cfg tl a x ⦃leafPost cfg v⦄ := by
  have h1 := recordStrategySuccess_v cfg v hok hb hg hs hm
  have h2 := emit_v cfg tl v hok hb hg hm .success (by simp [plainEv, isBreakerEv]) a 0 none none none none none
  have h3 := callAttemptEnd_v cfg v hok hb hg a none none (some x) .success none none none
  mvcgen [handleSuccessAttemptEnd, h1, h2, h3]

theorem callAttemptEndFromOutcome_v (a : Nat) (o : AOutcome) :
    ⦃fun w => ⌜view cfg w = v⌝⦄ callAttemptEndFromOutcome cfg a o ⦃leafPost cfg v⦄ :=
  hook_spec cfg (fun w0 => callAttemptEndFromOutcome_fq hookR w0 cfg a o (fun _ => rfl)) v hok hb hg

theorem handleAbortAttemptEnd_v (a : Nat) (e : Exn) :
    ⦃fun w => ⌜view cfg w = v⌝⦄ handleAbortAttemptEnd cfg a e ⦃leafPost cfg v⦄ :=
  hook_spec cfg (fun w0 => handleAbortAttemptEnd_fq hookR w0 cfg a e (fun _ => rfl)) v hok hb hg

end leaves


/-! ### requests the monitor follows: one `ask` each -/

@[simp] theorem view_mon (cfg : Cfg) (w : World) : (view cfg w).mon = cur cfg w.trace := rfl
@[simp] theorem view_flt (cfg : Cfg) (w : World) : (view cfg w).flt = flt w.trace := rfl

/-- the library itself raises `e` (not a report of exhaustion) -/
theorem exc_made (cfg : Cfg) {w' : World} {e : Exn} (hne : ∀ f, e ≠ .libExhausted f)
    (hb : (cur cfg w'.trace).bad = false) (hm : flt w'.trace = false → (cur cfg w'.trace).mustOp = false)
    (hgr : GrantInv cfg (cur cfg w'.trace))
    (hg : e.isException = false ∨ e.isAbort = true ∨ e.isExhausted = true ∨
          (e = .libValueError ∧ (cur cfg w'.trace).sawOther = true))
    (hab : e.isAbort = true → (cur cfg w'.trace).sawAbort = true ∧
      (w'.rs.lastStop = none ∨ w'.rs.lastStop = some .aborted)) :
    Exc cfg e w' := by
  intro hf
  refine ⟨⟨hb, hm hf, fun f h => absurd h (hne f), fun _ _ h1 h2 h3 => ?_,
    fun h => ⟨hgr h, Or.inr (Or.inr fun f h => absurd h (hne f))⟩⟩, hab⟩
  rcases hg with h | h | h | h <;> simp_all

/-- the run ends with an exception that is neither an attempt failure nor a report of exhaustion -/
theorem exc_plain (cfg : Cfg) {w' : World} {e : Exn} (hne : ∀ f, e ≠ .libExhausted f)
    (hg : e.isException = false ∨ e.isAbort = true ∨ e.isExhausted = true)
    (hb : (cur cfg w'.trace).bad = false) (hm : flt w'.trace = false → (cur cfg w'.trace).mustOp = false)
    (hgr : GrantInv cfg (cur cfg w'.trace))
    (hab : e.isAbort = true → (cur cfg w'.trace).sawAbort = true ∧
      (w'.rs.lastStop = none ∨ w'.rs.lastStop = some .aborted)) :
    Exc cfg e w' :=
  exc_made cfg hne hb hm hgr (by rcases hg with h | h | h <;> simp [h]) hab

/-! #### phases of an attempt (predicates on the view) -/

/-- inside attempt `n`: the operation has been called, the run has not stopped, no backoff yet -/
def Core (cfg : Cfg) (n : Nat) (v : View) : Prop :=
  v.mon.ops = n ∧ 1 ≤ n ∧ n ≤ cfg.maxAttempts ∧ v.mon.bad = false ∧ v.flt = false ∧ v.sync = true ∧
  v.stop = none ∧ v.stopOk = true ∧ v.mon.mustOp = false ∧ v.mon.decision = none ∧ v.mon.slept = false

/-- no strategy has been asked in this attempt -/
def NoStrat (v : View) : Prop :=
  v.mon.strat = false ∧ v.mon.granted = false ∧ v.mon.retryEv = false ∧ v.mon.pollFalse = false ∧
  v.mon.refused = false

/-- the runner's failure counters agree with the log -/
def CntOK (v : View) : Prop :=
  (∀ k, v.counts k = v.mon.classCount k) ∧ v.unknown ≤ v.mon.classCount .unknown

/-- the top of the loop after `n` attempts -/
def Rel (cfg : Cfg) (n : Nat) (v : View) : Prop :=
  v.mon.ops = n ∧ v.mon.bad = false ∧ v.mon.done = false ∧ v.flt = false ∧ v.sync = true ∧ v.stop = none ∧
  v.stopOk = true ∧ CntOK v ∧ (1 ≤ n → v.mon.slept = true) ∧ (n = 0 → v.noExc = true ∧ v.mon.mustOp = false ∧ v.mon.granted = false) ∧
  (n = 0 ∨ n < cfg.maxAttempts) ∧ GrantInv cfg v.mon

/-- the failure of attempt `n` has been classified as `k`; the runner has not counted it yet -/
def ClsA (k : EClass) (v : View) : Prop :=
  v.mon.classified = true ∧ v.mon.lastClass = some k ∧
  (∀ k', v.mon.classCount k' = if k' = k then v.counts k' + 1 else v.counts k') ∧
  v.unknown + (if EClass.unknown = k then 1 else 0) ≤ v.mon.classCount .unknown

/-- … the runner has counted it in `per_class_counts` -/
def ClsB (k : EClass) (v : View) : Prop :=
  v.mon.classified = true ∧ v.mon.lastClass = some k ∧ (∀ k', v.counts k' = v.mon.classCount k') ∧
  v.unknown + (if EClass.unknown = k then 1 else 0) ≤ v.mon.classCount .unknown

/-- … and in `unknown_attempts` -/
def ClsC (k : EClass) (v : View) : Prop :=
  v.mon.classified = true ∧ v.mon.lastClass = some k ∧ CntOK v

/-- the strategy has computed a delay; the budget has not been consulted -/
def Strat (cfg : Cfg) (n : Nat) (v : View) : Prop :=
  Core cfg n v ∧ v.mon.strat = true ∧ v.mon.granted = false ∧ v.mon.retryEv = false ∧
  v.mon.pollFalse = false ∧ v.mon.refused = false ∧ n < cfg.maxAttempts ∧ v.mon.done = false

/-- the budget granted a token (or there is no budget) -/
def Gr (cfg : Cfg) (n : Nat) (v : View) : Prop :=
  Core cfg n v ∧ v.mon.strat = true ∧ v.mon.granted = cfg.budget.isSome ∧ v.mon.pollFalse = false ∧
  v.mon.refused = false ∧ n < cfg.maxAttempts ∧ v.mon.done = false

/-- the budget refused -/
def Refd (cfg : Cfg) (n : Nat) (v : View) : Prop :=
  Core cfg n v ∧ v.mon.strat = true ∧ v.mon.granted = false ∧ v.mon.refused = true ∧ v.mon.done = false

/-- reasons with which a failed attempt stops the run -/
def isFailure : StopReason → Bool
  | .aborted | .scheduled => false
  | _ => true

/-- the failure handler has decided to stop with reason `r` -/
def Stopped (cfg : Cfg) (n : Nat) (r : StopReason) (v : View) : Prop :=
  v.mon.ops = n ∧ 1 ≤ n ∧ v.mon.bad = false ∧ v.flt = false ∧ v.mon.mustOp = false ∧ v.mon.done = false ∧
  v.stop = some r ∧ v.stopOk = true ∧ v.mon.classified = true ∧ GrantInv cfg v.mon ∧
  (v.mon.granted = true → v.mon.slept = true ∨ v.mon.decision.isSome = true)

@[simp] theorem dur_unit (d : Nat) : (Ans.unit d).dur = d := rfl
@[simp] theorem dur_bool (b : Bool) (d : Nat) : (Ans.bool b d).dur = d := rfl
@[simp] theorem dur_value (v d : Nat) : (Ans.value v d).dur = d := rfl
@[simp] theorem dur_klass (c : Classification) (d : Nat) : (Ans.klass c d).dur = d := rfl
@[simp] theorem dur_noFailure (d : Nat) : (Ans.noFailure d).dur = d := rfl
@[simp] theorem dur_delay (s : SOut) (d : Nat) : (Ans.delay s d).dur = d := rfl
@[simp] theorem dur_decision (x : SleepDecision) (d : Nat) : (Ans.decision x d).dur = d := rfl
@[simp] theorem dur_raise (e : Exn) (d : Nat) : (Ans.raise e d).dur = d := rfl
@[simp] theorem dur_granted (b : Bool) : (Ans.granted b).dur = 0 := rfl
@[simp] theorem stuck_isException : Exn.stuck.isException = false := rfl
@[simp] theorem stuck_isAbort : Exn.stuck.isAbort = false := rfl
@[simp] theorem stuck_isExhausted : Exn.stuck.isExhausted = false := rfl
@[simp] theorem libAbort_isAbort : Exn.libAbort.isAbort = true := rfl
@[simp] theorem libAbort_isException : Exn.libAbort.isException = true := rfl
@[simp] theorem libValueError_isException : Exn.libValueError.isException = true := rfl
@[simp] theorem libValueError_isAbort : Exn.libValueError.isAbort = false := rfl
@[simp] theorem libValueError_isExhausted : Exn.libValueError.isExhausted = false := rfl
@[simp] theorem libExhausted_isExhausted (f : ExhaustedFields) : (Exn.libExhausted f).isExhausted = true := rfl
@[simp] theorem libExhausted_isAbort (f : ExhaustedFields) : (Exn.libExhausted f).isAbort = false := rfl

/-- a confirmed success in attempt `n` -/
def Succ (n : Nat) (v : View) : Prop :=
  v.mon.ops = n ∧ 1 ≤ n ∧ v.mon.bad = false ∧ v.flt = false ∧ v.mon.mustOp = false ∧ v.mon.done = true ∧
  v.stop = none ∧ v.stopOk = true ∧ v.mon.granted = false

/-- the retry has been granted and reported, the abort predicate polled: ready to back off -/
def Ready (cfg : Cfg) (n : Nat) (v : View) : Prop :=
  v.mon.ops = n ∧ 1 ≤ n ∧ n < cfg.maxAttempts ∧ v.mon.bad = false ∧ v.flt = false ∧ v.sync = true ∧
  v.stop = none ∧ v.stopOk = true ∧ v.mon.mustOp = false ∧ v.mon.slept = false ∧ v.mon.done = false ∧
  v.mon.strat = true ∧ v.mon.granted = cfg.budget.isSome ∧ v.mon.refused = false ∧
  v.mon.retryEv = cfg.metric ∧ v.mon.pollFalse = cfg.abortIf ∧ v.mon.classified = true ∧ CntOK v

/-- the backoff sleep has been requested -/
def Slept (cfg : Cfg) (n : Nat) (v : View) : Prop :=
  v.mon.ops = n ∧ 1 ≤ n ∧ n < cfg.maxAttempts ∧ v.mon.bad = false ∧ v.flt = false ∧ v.sync = true ∧
  v.stop = none ∧ v.stopOk = true ∧ v.mon.slept = true ∧ v.mon.done = false ∧
  v.mon.granted = cfg.budget.isSome ∧ v.mon.retryEv = cfg.metric ∧ v.mon.classified = true ∧ CntOK v

/-- the failure handler is about to stop the run -/
def PreStop (n : Nat) (v : View) : Prop :=
  v.mon.ops = n ∧ 1 ≤ n ∧ v.mon.bad = false ∧ v.flt = false ∧ v.mon.mustOp = false ∧ v.mon.done = false ∧
  v.stop = none ∧ v.sync = true ∧ v.mon.classified = true ∧ v.mon.granted = false

/-- simp set that turns statements about the view of an explicit world into statements about fields -/
syntax "c03_simp" : tactic
macro_rules | `(tactic| c03_simp) => `(tactic|
  simp_all +zetaDelta [GrantInv, Core, NoStrat, CntOK, Rel, ClsA, ClsB, ClsC, bumpCount, view, cur_cons, clk_cons, flt_cons, hookRaise, Clock.tick,
    isPrelude, step, classify, abortKind, abortRaise, isAttemptHook, stopOkOf, raisedBy, isOp, lastOpExn])

macro "c03_close" : tactic => `(tactic| all_goals (
  (try subst_vars) <;> (try c03_simp) <;> (try (and_intros <;> (try simp_all [Ans.dur]) <;> omega))))

/-! the view does not look at these parts of the world -/
@[simp] theorem view_prevSleep (cfg : Cfg) (s : World) (x : Option Nat) :
    view cfg { s with rs := { s.rs with prevSleep := x } } = view cfg s := rfl
@[simp] theorem view_lastStrategy (cfg : Cfg) (s : World) (x : Option SKey) :
    view cfg { s with rs := { s.rs with lastStrategy := x } } = view cfg s := rfl
@[simp] theorem view_as (cfg : Cfg) (s : World) (x : AState) : view cfg { s with as := x } = view cfg s := rfl
@[simp] theorem view_attempts (cfg : Cfg) (s : World) (x : Nat) :
    view cfg { s with attempts := x } = view cfg s := rfl
@[simp] theorem view_opCalls (cfg : Cfg) (s : World) (x : Nat) :
    view cfg { s with opCalls := x } = view cfg s := rfl

/-- what the failure handler leaves behind -/
def Decided (cfg : Cfg) (n : Nat) (d : Decision) (v : View) : Prop :=
  match d with
  | .raise => match v.stop with
    | some r => Stopped cfg n r v ∧ isFailure r = true
    | none => False
  | .retry _ _ => Gr cfg n v ∧ CntOK v ∧ v.mon.retryEv = cfg.metric ∧ v.mon.classified = true

/-- unfold the phase predicates, keep the view folded -/
syntax "c03_phase" : tactic
macro_rules | `(tactic| c03_phase) => `(tactic|
  simp_all +zetaDelta [Ready, Slept, Decided, GrantInv, PreStop, plainEv, isBreakerEv, Strat, Gr, Refd, Stopped, isFailure, Succ,
    Core, NoStrat, CntOK, Rel, ClsA, ClsB, ClsC, stopCond])

/-- chaining goals: first with the phases folded, then unfolded -/
macro "c03_chain" : tactic => `(tactic| all_goals (
  (try intros) <;> (try subst_vars) <;>
  first
    | (simp_all +zetaDelta; done)
    | (exact ⟨_, by assumption⟩)
    | (c03_phase; done)
    | skip))

/-- the operation is invoked -/
theorem invokeOp_spec (cfg : Cfg) (n : Nat) (u : View) (hr : Rel cfg n u) (hn : n < cfg.maxAttempts)
    (a : Nat) :
    ⦃fun w => ⌜view cfg w = u⌝⦄ invokeOp a
    ⦃post⟨fun _ w => ⌜Core cfg (n + 1) (view cfg w) ∧ NoStrat (view cfg w) ∧ CntOK (view cfg w) ∧
                      (view cfg w).mon.classified = false ∧
                      (view cfg w).mon.done = !cfg.resultClassifier⌝,
          fun e w => ⌜Core cfg (n + 1) (view cfg w) ∧ NoStrat (view cfg w) ∧ CntOK (view cfg w) ∧
                      (view cfg w).mon.classified = false ∧ (view cfg w).mon.done = false ∧
                      (e.isException = true → raisedBy isOp w.trace e = true) ∧
                      (e.isException = true → (view cfg w).opExn = some e) ∧
                      (e.isAbort = true → (view cfg w).mon.sawAbort = true)⌝⟩⦄ := by
  simp only [Rel] at hr
  mvcgen [invokeOp, ask]
  c03_close


/-- goals `Exc cfg e W` for an explicit world `W` whose newest exchange is the failing one -/
macro "c03_exc" : tactic => `(tactic| first
  | (refine exc_of_raise _ rfl rfl ?_ ?_ ?_ <;> c03_simp; done)
  | (refine exc_plain _ (by simp) (by simp) ?_ ?_ ?_ ?_ <;> c03_simp; done))

macro "c03_done" : tactic => `(tactic| all_goals (
  (try subst_vars) <;>
  first
    | c03_exc
    | ((try c03_simp) <;>
       (try (and_intros <;> (try intros) <;>
             first
               | omega
               | (simp_all; done)
               | (split <;> rename_i h <;>
                    first
                      | omega
                      | (rw [← h]; omega))
               | skip)))))

theorem bump_self (f : EClass → Nat) (k : EClass) : bumpCount f k k = f k + 1 := by simp [bumpCount]

theorem callClassifier_spec (cfg : Cfg) (n : Nat) (u : View) (hc : Core cfg n u) (hn : NoStrat u)
    (hk : CntOK u) (hcl : u.mon.classified = false) (hd : u.mon.done = false) (e : Exn) :
    ⦃fun w => ⌜view cfg w = u⌝⦄ callClassifier e
    ⦃post⟨fun c w => ⌜Core cfg n (view cfg w) ∧ NoStrat (view cfg w) ∧ ClsA c.klass (view cfg w) ∧
                      (view cfg w).mon.done = false⌝,
          fun e w => ⌜Exc cfg e w⌝⟩⦄ := by
  simp only [Core, NoStrat, CntOK] at hc hn hk
  mvcgen [callClassifier, ask]
  c03_done


macro_rules | `(tactic| c03_simp) => `(tactic|
  simp_all +zetaDelta [GrantInv, Succ, Core, NoStrat, CntOK, Rel, ClsA, ClsB, ClsC, bumpCount, view, cur_cons, clk_cons,
    flt_cons, hookRaise, Clock.tick, isPrelude, step, classify, abortKind, abortRaise, isAttemptHook, stopOkOf,
    raisedBy, isOp, lastOpExn])

theorem shouldClassifyResult_spec (cfg : Cfg) (n : Nat) (u : View) (hc : Core cfg n u) (hn : NoStrat u)
    (hk : CntOK u) (hcl : u.mon.classified = false) (hd : u.mon.done = !cfg.resultClassifier) (x : Nat) :
    ⦃fun w => ⌜view cfg w = u⌝⦄ shouldClassifyResult cfg x
    ⦃post⟨fun r w => ⌜match r with
                      | none => Succ n (view cfg w)
                      | some c => Core cfg n (view cfg w) ∧ NoStrat (view cfg w) ∧ ClsA c.klass (view cfg w) ∧
                                  (view cfg w).mon.done = false⌝,
          fun e w => ⌜Exc cfg e w⌝⟩⦄ := by
  simp only [Core, NoStrat, CntOK] at hc hn hk
  mvcgen [shouldClassifyResult, ask]
  c03_done

/-- the view after a poll that answered False -/
def pollV (cfg : Cfg) (u : View) : View :=
  if cfg.abortIf then { u with mon := { u.mon with pollFalse := u.mon.pollFalse || u.mon.strat } } else u

macro_rules | `(tactic| c03_simp) => `(tactic|
  simp_all +zetaDelta [Ready, Slept, Decided, PreStop, plainEv, isBreakerEv, GrantInv, Strat, Gr, Refd, Stopped, isFailure, pollV, stopCond, Succ, Core, NoStrat, CntOK, Rel, ClsA, ClsB, ClsC, bumpCount, view, cur_cons,
    clk_cons, flt_cons, hookRaise, Clock.tick, isPrelude, step, classify, abortKind, abortRaise, isAttemptHook,
    stopOkOf, raisedBy, isOp, lastOpExn])

/-- `check_abort`: a poll that answers False changes nothing but `pollFalse`; True ends the run -/
theorem checkAbort_spec (cfg : Cfg) (tl : Bool) (u : View) (hs : u.stop = none) (hb : u.mon.bad = false)
    (hg : GrantInv cfg u.mon) (a : Nat) :
    ⦃fun w => ⌜view cfg w = u⌝⦄ checkAbort cfg tl a
    ⦃post⟨fun _ w => ⌜view cfg w = pollV cfg u⌝, fun e w => ⌜Exc cfg e w⌝⟩⦄ := by
  have he := fun v hok hb hg hm => emit_v cfg tl v hok hb hg hm .aborted (by simp [plainEv, isBreakerEv]) a 0
    none none (some .aborted) none none
  mvcgen [checkAbort, ask, setStop, modifyRS, he]
  all_goals (clear he)
  c03_done


theorem callStrategy_spec (cfg : Cfg) (n : Nat) (u : View) (k : EClass) (hc : Core cfg n u) (hn : NoStrat u)
    (hk : ClsC k u) (hd : u.mon.done = false) (hlt : n < cfg.maxAttempts) (key : SKey) (kind : SKind)
    (ctx : BackoffCtx) :
    ⦃fun w => ⌜view cfg w = u⌝⦄ callStrategy key kind ctx
    ⦃post⟨fun _ w => ⌜Strat cfg n (view cfg w) ∧ ClsC k (view cfg w)⌝, fun e w => ⌜Exc cfg e w⌝⟩⦄ := by
  simp only [Core, NoStrat, ClsC, CntOK] at hc hn hk
  mvcgen [callStrategy, ask]
  c03_done

theorem budgetConsume_spec (cfg : Cfg) (n : Nat) (u : View) (k : EClass) (hc : Strat cfg n u) (hk : ClsC k u) :
    ⦃fun w => ⌜view cfg w = u⌝⦄ budgetConsume cfg
    ⦃post⟨fun g w => ⌜ClsC k (view cfg w) ∧ (view cfg w).mon.retryEv = false ∧
                      (g = true → Gr cfg n (view cfg w)) ∧ (g = false → Refd cfg n (view cfg w))⌝,
          fun e w => ⌜Exc cfg e w⌝⟩⦄ := by
  simp only [Strat, Core, ClsC, CntOK] at hc hk
  mvcgen [budgetConsume]
  c03_done


/-- the `retry` event: reported to the metric hook exactly when one is configured -/
theorem emit_retry_spec (cfg : Cfg) (tl : Bool) (n : Nat) (u : View) (kc : EClass) (hc : Gr cfg n u)
    (hk : ClsC kc u) (hr : u.mon.retryEv = false)
    (a s : Nat) (k : Option EClass) (e : Option Exn) (st : Option StopReason) (c : Option Cause)
    (cl : Option Classification) :
    ⦃fun w => ⌜view cfg w = u⌝⦄ emit cfg tl .retry a s k e st c cl
    ⦃post⟨fun _ w => ⌜Gr cfg n (view cfg w) ∧ ClsC kc (view cfg w) ∧
                      (view cfg w).mon.retryEv = cfg.metric⌝,
          fun e w => ⌜Exc cfg e w⌝⟩⦄ := by
  simp only [Gr, Core, ClsC, CntOK] at hc hk
  mvcgen [emit, metricHook, askMetric, askLog, ask, swallowException, recordTimeline]
  c03_done


/-- terminal branch of `_handle_failure` (reasons other than the deadline): the reason's condition holds -/
theorem stopWith_spec (cfg : Cfg) (tl : Bool) (n : Nat) (u : View) (r : StopReason) (ev : Event)
    (hp : PreStop n u) (hf : isFailure r = true) (hev : plainEv u.mon.refused ev = true)
    (hcond : ∀ el, stopCond cfg u.mon el r = true)
    (a : Nat) (k : EClass) (exc : Option Exn) (cause : Cause) :
    ⦃fun w => ⌜view cfg w = u⌝⦄ stopWith cfg tl r ev a k exc cause
    ⦃post⟨fun d w => ⌜d = .raise ∧ Stopped cfg n r (view cfg w)⌝, fun e w => ⌜Exc cfg e w⌝⟩⦄ := by
  have he := fun v hok hb hg hm hev =>
    emit_v cfg tl v hok hb hg hm ev hev a 0 (some k) exc (some r) (some cause) none
  simp only [PreStop] at hp
  mvcgen [stopWith, setStop, modifyRS, he]
  all_goals (clear he)
  c03_done


theorem grantRetry_spec (cfg : Cfg) (tl : Bool) (n : Nat) (u : View) (c : Classification) (hc : Core cfg n u)
    (hn : NoStrat u) (hk : ClsC c.klass u) (hd : u.mon.done = false) (hlt : n < cfg.maxAttempts)
    (a : Nat) (cause : Cause) (e : Option Exn) (key : SKey) (kind : SKind) (rem : Nat) :
    ⦃fun w => ⌜view cfg w = u⌝⦄ grantRetry cfg tl c a cause e key kind rem
    ⦃post⟨fun d w => ⌜Decided cfg n d (view cfg w)⌝, fun e w => ⌜Exc cfg e w⌝⟩⦄ := by
  have h1 := fun u hc hn hk hd ctx => callStrategy_spec cfg n u c.klass hc hn hk hd hlt key kind ctx
  have h2 := fun u hc hk => budgetConsume_spec cfg n u c.klass hc hk
  have h3 := fun u hc hk hr s => emit_retry_spec cfg tl n u c.klass hc hk hr a s (some c.klass) e none
    (some cause) (some c)
  have h4 := fun u hp hev hcond => stopWith_spec cfg tl n u .budgetExhausted .budgetExhausted hp rfl hev hcond
    a c.klass e cause
  mvcgen [grantRetry, getRS, modifyRS, h1, h2, h3, h4]
  all_goals (clear h1 h2 h3 h4)
  c03_chain

theorem handleFailure2_spec (cfg : Cfg) (tl : Bool) (n : Nat) (u : View) (c : Classification)
    (hc : Core cfg n u) (hn : NoStrat u) (hk : ClsC c.klass u) (hd : u.mon.done = false)
    (cause : Cause) (e : Option Exn) :
    ⦃fun w => ⌜view cfg w = u⌝⦄ handleFailure2 cfg tl c n cause e
    ⦃post⟨fun d w => ⌜Decided cfg n d (view cfg w)⌝, fun e w => ⌜Exc cfg e w⌝⟩⦄ := by
  have he := fun v hok hb hg hm ev hev r =>
    emit_v cfg tl v hok hb hg hm ev hev n 0 (some c.klass) e (some r) (some cause) none
  have h1 := fun v hok hb hg hs hm key => stratRecordFailure_v cfg v hok hb hg hs hm key c.klass
  have h2 := fun u hc hn hk hd hlt key kind rem =>
    grantRetry_spec cfg tl n u c hc hn hk hd hlt n cause e key kind rem
  mvcgen [handleFailure2, elapsed, modifyRS, stopWith, setStop, he, h1, h2]
  all_goals (clear he h1 h2)
  c03_chain
  c03_done

theorem overUnknown_mono (cfg : Cfg) (m : St) (x : Nat) (h : Retry.overUnknown cfg x = true)
    (hx : x ≤ m.classCount .unknown) : C03.overUnknown cfg m = true := by
  unfold Retry.overUnknown at h
  unfold C03.overUnknown
  cases hm : cfg.maxUnknown <;> simp [hm] at h ⊢
  omega

theorem overClass_of (cfg : Cfg) (m : St) (f : EClass → Nat) (k : EClass) (h : overPerClass cfg f k = true)
    (hx : f k = m.classCount k) : overClass cfg m k = true := by
  unfold overPerClass at h
  unfold overClass
  cases hm : cfg.perClass k <;> simp [hm] at h ⊢
  omega

theorem handleUnknown_spec (cfg : Cfg) (tl : Bool) (n : Nat) (u : View) (c : Classification)
    (hc : Core cfg n u) (hn : NoStrat u) (hk : ClsB c.klass u) (hu : c.klass = .unknown)
    (hd : u.mon.done = false) (cause : Cause) (e : Option Exn) :
    ⦃fun w => ⌜view cfg w = u⌝⦄ handleUnknown cfg tl c n cause e
    ⦃post⟨fun d w => ⌜Decided cfg n d (view cfg w)⌝, fun e w => ⌜Exc cfg e w⌝⟩⦄ := by
  have h1 := fun u hp hev hcond => stopWith_spec cfg tl n u .maxUnknownAttempts .maxUnknownAttemptsExceeded hp rfl
    hev hcond n c.klass e cause
  have h2 := fun u hc hn hk hd => handleFailure2_spec cfg tl n u c hc hn hk hd cause e
  mvcgen [handleUnknown, getRS, modifyRS, h1, h2]
  all_goals (clear h1 h2)
  c03_chain
  c03_done
  exact overUnknown_mono _ _ _ (by assumption) hk.2.2.2

theorem handleFailure1_spec (cfg : Cfg) (tl : Bool) (n : Nat) (u : View) (c : Classification)
    (hc : Core cfg n u) (hn : NoStrat u) (hk : ClsB c.klass u) (hd : u.mon.done = false)
    (cause : Cause) (e : Option Exn) :
    ⦃fun w => ⌜view cfg w = u⌝⦄ handleFailure1 cfg tl c n cause e
    ⦃post⟨fun d w => ⌜Decided cfg n d (view cfg w)⌝, fun e w => ⌜Exc cfg e w⌝⟩⦄ := by
  have h1 := fun u r ev hp hf hev hcond => stopWith_spec cfg tl n u r ev hp hf hev hcond n c.klass e cause
  have h2 := fun u hc hn hk hd => handleFailure2_spec cfg tl n u c hc hn hk hd cause e
  have h3 := fun u hc hn hk hu hd => handleUnknown_spec cfg tl n u c hc hn hk hu hd cause e
  mvcgen [handleFailure1, getRS, h1, h2, h3]
  all_goals (clear h1 h2 h3)
  c03_chain
  c03_done
  exact overClass_of _ _ _ _ (by assumption) (hk.2.2.1 _)


theorem handleFailure_spec (cfg : Cfg) (tl : Bool) (n : Nat) (u : View) (c : Classification)
    (hc : Core cfg n u) (hn : NoStrat u) (hk : ClsA c.klass u) (hd : u.mon.done = false)
    (cause : Cause) (e : Option Exn) (r : Option Nat) :
    ⦃fun w => ⌜view cfg w = u⌝⦄ handleFailure cfg tl c n cause e r
    ⦃post⟨fun d w => ⌜Decided cfg n d (view cfg w)⌝, fun e w => ⌜Exc cfg e w⌝⟩⦄ := by
  have h1 := fun u hc hn hk hd => handleFailure1_spec cfg tl n u c hc hn hk hd cause e
  mvcgen [handleFailure, Retry.recordFailure, modifyRS, h1]
  all_goals (clear h1)
  c03_chain
  c03_done
  have h := hk.2.2.2
  rw [hk.2.2.1 EClass.unknown] at h
  exact h

theorem handleException_spec (cfg : Cfg) (tl : Bool) (n : Nat) (u : View) (hc : Core cfg n u) (hn : NoStrat u)
    (hk : CntOK u) (hcl : u.mon.classified = false) (hd : u.mon.done = false) (e : Exn) :
    ⦃fun w => ⌜view cfg w = u⌝⦄ handleException cfg tl e n
    ⦃post⟨fun d w => ⌜Decided cfg n d (view cfg w)⌝, fun e w => ⌜Exc cfg e w⌝⟩⦄ := by
  have h1 := fun u hc hn hk hcl hd => callClassifier_spec cfg n u hc hn hk hcl hd e
  have h2 := fun u c hc hn hk hd => handleFailure_spec cfg tl n u c hc hn hk hd .exception (some e) none
  mvcgen [handleException, h1, h2]
  all_goals (clear h1 h2)
  c03_chain
  c03_done

/-- the sleep handler is asked -/
theorem callSleepHandler_spec (cfg : Cfg) (n : Nat) (u : View) (hr : Ready cfg n u) (hdn : u.mon.decision = none)
    (lvl : Lvl) (ctx : BackoffCtx) (s : Nat) :
    ⦃fun w => ⌜view cfg w = u⌝⦄ callSleepHandler lvl ctx s
    ⦃post⟨fun d w => ⌜Ready cfg n (view cfg w) ∧ (view cfg w).mon.decision = some d ∧
                      (d = .abort → (view cfg w).mon.sawAbort = true) ∧
                      (d = .defer → (view cfg w).mon.sawDefer = true) ∧
                      (d = .other → (view cfg w).mon.sawOther = true)⌝,
          fun e w => ⌜Exc cfg e w⌝⟩⦄ := by
  simp only [Ready, CntOK] at hr
  mvcgen [callSleepHandler, ask]
  c03_done

/-- the sleeper is asked: permitted; and if it returns, the monitor expects another attempt exactly when the
    loop will make one -/
theorem callSleeper_spec (cfg : Cfg) (n : Nat) (u : View) (hr : Ready cfg n u)
    (hdn : u.mon.decision = if cfg.handler.isSome then some .sleep else none) (s : Nat) :
    ⦃fun w => ⌜view cfg w = u⌝⦄ callSleeper cfg s
    ⦃post⟨fun _ w => ⌜Slept cfg n (view cfg w) ∧
                      (view cfg w).mon.mustOp = decide (w.now - w.rs.start ≤ cfg.deadline)⌝,
          fun e w => ⌜Exc cfg e w⌝⟩⦄ := by
  simp only [Ready, CntOK] at hr
  mvcgen [callSleeper, ask]
  c03_done

/-- `aborted` is recorded and reported once -/
theorem emitAbortedOnce_spec (cfg : Cfg) (tl : Bool) (u : View) (hsa : u.mon.sawAbort = true)
    (hok : u.stopOk = true) (hb : u.mon.bad = false) (hg : GrantInv cfg u.mon) (hm : u.mon.mustOp = false)
    (a : Nat) :
    ⦃fun w => ⌜view cfg w = u⌝⦄ emitAbortedOnce cfg tl a
    ⦃post⟨fun _ w => ⌜view cfg w = { u with stop := some .aborted, stopOk := true }⌝,
          fun e w => ⌜Exc cfg e w⌝⟩⦄ := by
  have he := fun v hok hb hg hm => emit_v cfg tl v hok hb hg hm .aborted (by simp [plainEv, isBreakerEv]) a 0
    none none (some .aborted) none none
  mvcgen [emitAbortedOnce, getRS, setStop, modifyRS, he]
  all_goals (clear he)
  c03_chain
  c03_done

theorem handleSleepDecision_spec (cfg : Cfg) (tl : Bool) (n : Nat) (u : View) (act : SleepDecision)
    (hr : Ready cfg n u) (hdn : u.mon.decision = some act)
    (h1 : act = .abort → u.mon.sawAbort = true) (h2 : act = .defer → u.mon.sawDefer = true)
    (h3 : act = .other → u.mon.sawOther = true) (s : Nat) :
    ⦃fun w => ⌜view cfg w = u⌝⦄ handleSleepDecision cfg tl act n s
    ⦃post⟨fun r w => ⌜r = act ∧ (act = .sleep → view cfg w = u) ∧
                      (act = .defer → Stopped cfg n .scheduled (view cfg w)) ∧
                      (act = .abort → Stopped cfg n .aborted (view cfg w)) ∧ act ≠ .other⌝,
          fun e w => ⌜Exc cfg e w⌝⟩⦄ := by
  have he := fun v hok hb hg hm cl ex cs => emit_v cfg tl v hok hb hg hm .scheduled
    (by simp [plainEv, isBreakerEv]) n s cl ex (some .scheduled) cs none
  have ha := fun u hsa hok hb hg hm => emitAbortedOnce_spec cfg tl u hsa hok hb hg hm n
  simp only [Ready, CntOK] at hr
  cases act <;> mvcgen [handleSleepDecision, getRS, setStop, modifyRS, he, ha]
  all_goals (clear he ha)
  case other =>
    subst_vars
    refine exc_made cfg (by simp) ?_ ?_ ?_ (Or.inr (Or.inr (Or.inr ⟨rfl, ?_⟩))) (by simp) <;> c03_simp
  c03_chain
  c03_done


/-- the failure handler's decision, after the poll that follows a grant -/
def Decided2 (cfg : Cfg) (n : Nat) (d : Decision) (v : View) : Prop :=
  match d with
  | .raise => Decided cfg n .raise v
  | .retry _ _ => Ready cfg n v ∧ v.mon.decision = none

/-- what `_sync_failure_outcome` leaves behind, by attempt decision -/
def Fin (cfg : Cfg) (n : Nat) (o : AOutcome) (v : View) : Prop :=
  match o.decision with
  | .retry => Slept cfg n v
  | .success => False
  | _ => match v.stop with
    | some r => Stopped cfg n r v ∧ o.stop = some r ∧ (o.decision = .raise → isFailure r = true) ∧
                (o.decision = .scheduled → r = .scheduled) ∧ (o.decision = .aborted → r = .aborted)
    | none => False

macro_rules | `(tactic| c03_simp) => `(tactic|
  simp_all +zetaDelta [Fin, Decided2, Ready, Slept, Decided, PreStop, plainEv, isBreakerEv, GrantInv, Strat, Gr, Refd,
    Stopped, isFailure, pollV, stopCond, Succ, Core, NoStrat, CntOK, Rel, ClsA, ClsB, ClsC, bumpCount, view,
    cur_cons, clk_cons, flt_cons, hookRaise, Clock.tick, isPrelude, step, classify, abortKind, abortRaise,
    isAttemptHook, stopOkOf, raisedBy, isOp, lastOpExn])

macro_rules | `(tactic| c03_phase) => `(tactic|
  simp_all +zetaDelta [Fin, Decided2, Ready, Slept, Decided, GrantInv, PreStop, plainEv, isBreakerEv, Strat, Gr, Refd,
    Stopped, isFailure, Succ, Core, NoStrat, CntOK, Rel, ClsA, ClsB, ClsC, stopCond, pollV])

/-- after the grant, a poll that answers False makes the attempt ready to back off -/
theorem decided2_of_poll (cfg : Cfg) (n : Nat) (s : Nat) (c : BackoffCtx) (v : View)
    (h : Decided cfg n (.retry s c) v) : Decided2 cfg n (.retry s c) (pollV cfg v) := by
  simp only [Decided, Decided2, Gr, Core, Ready, CntOK, pollV] at *
  split <;> simp_all

/-- what the backoff leaves behind, by the handler's decision -/
def AfterSleep (cfg : Cfg) (n : Nat) (r : SleepDecision) (w : World) : Prop :=
  (r = .sleep → Slept cfg n (view cfg w) ∧
                (view cfg w).mon.mustOp = decide (w.now - w.rs.start ≤ cfg.deadline)) ∧
  (r = .defer → Stopped cfg n .scheduled (view cfg w)) ∧
  (r = .abort → Stopped cfg n .aborted (view cfg w)) ∧ r ≠ .other

/-- `_sync_sleep_action` -/
theorem sleepAction_spec (cfg : Cfg) (tl : Bool) (n : Nat) (u : View) (hr : Ready cfg n u)
    (hdn : u.mon.decision = none) (s : Nat) (ctx : BackoffCtx) :
    ⦃fun w => ⌜view cfg w = u⌝⦄ sleepAction cfg tl n s ctx
    ⦃post⟨fun r w => ⌜AfterSleep cfg n r w⌝, fun e w => ⌜Exc cfg e w⌝⟩⦄ := by
  have h1 := fun u hr hdn lvl ctx s => callSleepHandler_spec cfg n u hr hdn lvl ctx s
  have h2 := fun u act hr hdn a1 a2 a3 s => handleSleepDecision_spec cfg tl n u act hr hdn a1 a2 a3 s
  have h3 := fun v hok hb hg hm ctx s => callBeforeSleep_v cfg v hok hb hg hm ctx s
  have h4 := fun u hr hdn s => callSleeper_spec cfg n u hr hdn s
  mvcgen [sleepAction, h1, h2, h3, h4]
  all_goals (clear h1 h2 h3 h4)
  all_goals (try simp only [AfterSleep])
  c03_chain
  exact ⟨fun _ => by assumption, by simp, by simp, by simp⟩

/-- `_sync_failure_outcome`: back off (if the decision is "retry") and finalise the attempt -/
theorem failureOutcome_spec (cfg : Cfg) (tl : Bool) (n : Nat) (u : View) (d : Decision)
    (hd : Decided2 cfg n d u) (cls : Option Classification) (e : Option Exn) (r : Option Nat)
    (c : Option Cause) :
    ⦃fun w => ⌜view cfg w = u⌝⦄ failureOutcome cfg tl n d cls e r c
    ⦃post⟨fun o w => ⌜Fin cfg n o (view cfg w)⌝, fun e w => ⌜Exc cfg e w⌝⟩⦄ := by
  cases d with
  | raise =>
    mvcgen [failureOutcome, finalizeAttempt, getRS]
    subst_vars
    simp only [Decided2, Decided] at hd
    have hst : ∀ w : World, w.rs.lastStop = (view cfg w).stop := fun _ => rfl
    simp +zetaDelta only [Fin, hst]
    split at hd <;> simp_all
  | retry s ctx =>
    have he := fun v hok hb hg hm ev hev k st =>
      emit_v cfg tl v hok hb hg hm ev hev n 0 k e st c none
    have h1 := fun u hr hdn => sleepAction_spec cfg tl n u hr hdn s ctx
    simp only [Decided2] at hd
    mvcgen [failureOutcome, finalizeAttempt, getRS, elapsed, setStop, modifyRS, he, h1]
    all_goals (clear he h1)
    all_goals (try simp only [AfterSleep] at *)
    c03_chain
    all_goals (cases ‹SleepDecision›)
    c03_chain
    c03_done

theorem anyStop_of (cfg : Cfg) (m : St) (el : Nat) (r : StopReason) (h : stopCond cfg m el r = true)
    (hf : isFailure r = true) : anyStop cfg m el = true := by
  cases r <;> simp_all [anyStop, isFailure]

theorem stopCond_of_view (cfg : Cfg) (w : World) (r : StopReason) (hs : (view cfg w).stop = some r)
    (hok : (view cfg w).stopOk = true) : stopCond cfg (cur cfg w.trace) (clk w.trace).el r = true := by
  have hs' : w.rs.lastStop = some r := hs
  simpa [view, stopOkOf, hs'] using hok

/-- the library reports exhaustion with the recorded stop reason -/
theorem exc_lib_exhausted (cfg : Cfg) {w : World} {n : Nat} {r : StopReason} (f : ExhaustedFields)
    (hS : Stopped cfg n r (view cfg w)) (hf : f.stop = r) : Exc cfg (.libExhausted f) w := by
  have hc := stopCond_of_view cfg w r hS.2.2.2.2.2.2.1 hS.2.2.2.2.2.2.2.1
  simp only [Stopped, GrantInv, view_mon] at hS
  intro _
  refine ⟨hS.2.2.1, hS.2.2.2.2.1, fun f' h => ?_, fun _ _ _ _ h => by simp at h, fun hg => ⟨hS.2.2.2.2.2.2.2.2.2.1 hg, ?_⟩⟩
  · cases h; exact Or.inr (hf ▸ hc)
  · rcases hS.2.2.2.2.2.2.2.2.2.2 hg with h | h
    · exact Or.inl h
    · exact Or.inr (Or.inl h)

/-- the run was aborted -/
theorem exc_lib_abort (cfg : Cfg) {w : World} {n : Nat} {r : StopReason}
    (hS : Stopped cfg n r (view cfg w)) : Exc cfg .libAbort w := by
  simp only [Stopped, view_mon] at hS
  exact exc_made cfg (by simp) hS.2.2.1 (fun _ => hS.2.2.2.2.1) hS.2.2.2.2.2.2.2.2.2.1 (Or.inr (Or.inl rfl))

/-- `call()` re-raises the operation's exception: the failure was classified and a stop condition holds -/
theorem exc_reraise (cfg : Cfg) {w : World} {n : Nat} {r : StopReason} {e : Exn}
    (hS : Stopped cfg n r (view cfg w)) (hfail : isFailure r = true) (hrb : raisedBy isOp w.trace e = true)
    (hex : e.isExhausted = false) : Exc cfg e w := by
  have hc := stopCond_of_view cfg w r hS.2.2.2.2.2.2.1 hS.2.2.2.2.2.2.2.1
  simp only [Stopped, GrantInv, view_mon] at hS
  intro _
  refine ⟨hS.2.2.1, hS.2.2.2.2.1, fun f h => ?_, fun _ _ _ _ _ => Or.inr (Or.inr ⟨hrb, hS.2.2.2.2.2.2.2.2.1, anyStop_of cfg _ _ r hc hfail⟩),
    fun hg => ⟨hS.2.2.2.2.2.2.2.2.2.1 hg, ?_⟩⟩
  · subst h; simp at hex
  · rcases hS.2.2.2.2.2.2.2.2.2.2 hg with h | h
    · exact Or.inl h
    · exact Or.inr (Or.inl h)

/-- what follows the attempt's outcome in call mode, exception path -/
theorem deliverCall_exn_spec (cfg : Cfg) (n : Nat) (u : View) (o : AOutcome) (rs : RState) (e : Exn)
    (fb : ExhaustedFields) (hF : Fin cfg n o u) (hex : e.isExhausted = false) :
    ⦃fun w => ⌜view cfg w = u⌝⦄ deliverCall (determineAction o rs n false) (some e) fb
    ⦃post⟨fun r w => ⌜r = none ∧ Slept cfg n (view cfg w)⌝,
          fun e' w => ⌜raisedBy isOp w.trace e = true → Exc cfg e' w⌝⟩⦄ := by
  unfold determineAction
  simp only [Fin] at hF
  cases hdec : o.decision <;> simp only [hdec] at hF ⊢ <;> mvcgen [deliverCall]
  all_goals (subst_vars)
  case retry => exact ⟨trivial, hF⟩
  case raise =>
    split at hF <;> first | contradiction | exact fun hrb => exc_reraise cfg hF.1 (by simp_all) hrb hex
  case scheduled =>
    split at hF <;> first | contradiction | exact fun _ => exc_lib_exhausted cfg _ hF.1 (by simp [hF.2.1])
  case aborted => split at hF <;> first | contradiction | exact fun _ => exc_lib_abort cfg hF.1


/-- what follows the attempt's outcome in call mode, result path -/
theorem deliverCall_res_spec (cfg : Cfg) (n : Nat) (u : View) (o : AOutcome) (rs : RState)
    (fb : ExhaustedFields) (hF : Fin cfg n o u) :
    ⦃fun w => ⌜view cfg w = u⌝⦄ deliverCall (determineAction o rs n true) none fb
    ⦃post⟨fun r w => ⌜r = none ∧ Slept cfg n (view cfg w)⌝, fun e' w => ⌜Exc cfg e' w⌝⟩⦄ := by
  unfold determineAction
  simp only [Fin] at hF
  cases hdec : o.decision <;> simp only [hdec] at hF ⊢ <;> mvcgen [deliverCall]
  all_goals (subst_vars)
  case retry => exact ⟨trivial, hF⟩
  case raise =>
    split at hF <;> first | contradiction | exact exc_lib_exhausted cfg _ hF.1 (by simp [hF.2.1])
  case scheduled =>
    split at hF <;> first | contradiction | exact exc_lib_exhausted cfg _ hF.1 (by simp [hF.2.1])
  case aborted => split at hF <;> first | contradiction | exact exc_lib_abort cfg hF.1


/-- a poll that answers False before any strategy was asked leaves the view alone -/
theorem pollV_noStrat (cfg : Cfg) (u : View) (h1 : u.mon.strat = false) (h2 : u.mon.pollFalse = false) :
    pollV cfg u = u := by
  unfold pollV
  split
  · obtain ⟨m, _, _, _, _, _, _, _, _⟩ := u
    cases m
    simp_all
  · rfl

theorem fin_basic (cfg : Cfg) (n : Nat) (o : AOutcome) (v : View) (h : Fin cfg n o v) :
    v.stopOk = true ∧ v.mon.bad = false ∧ GrantInv cfg v.mon ∧ v.flt = false := by
  simp only [Fin] at h
  cases hd : o.decision <;> simp only [hd] at h
  case retry => simp only [Slept, GrantInv] at *; simp_all
  all_goals (split at h <;> first | contradiction | (simp only [Stopped, GrantInv] at *; simp_all))

/-- the log only grows during the retry loop, so "the operation raised `e`" is never forgotten -/
theorem rbOp_ext (e : Exn) (w w' : World) (h : Ext loopK w w') (hr : raisedBy isOp w.trace e = true) :
    raisedBy isOp w'.trace e = true := by
  obtain ⟨δ, ht⟩ := h.grows
  rw [ht, raisedBy_append, hr]
  simp

/-- a triple with an extra invariant that the program keeps (both exits) -/
theorem triple_and_inv {α : Type} {x : M α} {P I : World → Prop} {Q : α → World → Prop}
    {E : Exn → World → Prop}
    (h1 : ⦃fun w => ⌜P w⌝⦄ x ⦃post⟨fun a w => ⌜Q a w⌝, fun e w => ⌜I w → E e w⌝⟩⦄)
    (h2 : ⦃fun w => ⌜I w⌝⦄ x ⦃post⟨fun _ w => ⌜I w⌝, fun _ w => ⌜I w⌝⟩⦄) :
    ⦃fun w => ⌜P w ∧ I w⌝⦄ x ⦃post⟨fun a w => ⌜Q a w⌝, fun e w => ⌜E e w⌝⟩⦄ := by
  apply triple_of_run
  intro w hw
  have a1 := adequacy h1 w hw.1
  have a2 := adequacy h2 w hw.2
  split <;> simp_all

/-- one attempt in call mode: the loop goes on with the invariant, or the run has succeeded -/
abbrev attemptPost (cfg : Cfg) (n : Nat) : PostCond (Option Nat) (.except Exn (.arg World .pure)) :=
  post⟨fun r w => ⌜(r = none → Rel cfg n (view cfg w)) ∧ (r ≠ none → Succ n (view cfg w))⌝,
       fun e w => ⌜Exc cfg e w⌝⟩

theorem rel_of_slept (cfg : Cfg) (n : Nat) (v : View) (h : Slept cfg n v) : Rel cfg n v := by
  simp only [Slept, Rel, CntOK, GrantInv] at *
  obtain ⟨h1, h2, h3, h4, h5, h6, h7, h8, h9, h10, _, h12, _, h14, h15⟩ := h
  exact ⟨h1, h4, h10, h5, h6, h7, h8, ⟨h14, h15⟩, fun _ => h9, fun h0 => by omega, Or.inr h3,
    fun _ hm => by rw [h12, hm]⟩

@[simp] theorem isRaise_iff (d : Decision) : d.isRaise = true ↔ d = .raise := by
  cases d <;> simp [Decision.isRaise]

/-- a poll before any strategy was asked -/
theorem checkAbort_keep (cfg : Cfg) (tl : Bool) (u : View) (hs : u.stop = none) (hb : u.mon.bad = false)
    (hg : GrantInv cfg u.mon) (h1 : u.mon.strat = false) (h2 : u.mon.pollFalse = false) (a : Nat) :
    ⦃fun w => ⌜view cfg w = u⌝⦄ checkAbort cfg tl a
    ⦃post⟨fun _ w => ⌜view cfg w = u⌝, fun e w => ⌜Exc cfg e w⌝⟩⦄ := by
  have h := checkAbort_spec cfg tl u hs hb hg a
  rw [pollV_noStrat cfg u h1 h2] at h
  exact h

theorem decided2_cases (cfg : Cfg) (n : Nat) (d : Decision) (v : View) (h : Decided cfg n d v)
    (hd : d = .raise) : Decided2 cfg n d v := by
  subst hd; exact h

macro_rules | `(tactic| c03_phase) => `(tactic|
  simp_all +zetaDelta [pollV_noStrat, Fin, Decided2, Ready, Slept, Decided, GrantInv, PreStop, plainEv, isBreakerEv,
    Strat, Gr, Refd, Stopped, isFailure, Succ, Core, NoStrat, CntOK, Rel, ClsA, ClsB, ClsC, stopCond])

/-- the decision after the poll that follows it (no poll after "raise") -/
theorem decided2_of (cfg : Cfg) (n : Nat) (d : Decision) (v v' : View) (h : Decided cfg n d v)
    (h1 : d = .raise → v' = v) (h2 : d ≠ .raise → v' = pollV cfg v) : Decided2 cfg n d v' := by
  cases d with
  | raise => rw [h1 rfl]; exact h
  | retry s c => rw [h2 (by simp)]; exact decided2_of_poll cfg n s c v h

theorem callExceptionPath_core (cfg : Cfg) (n : Nat) (u : View) (e : Exn) (hc : Core cfg n u) (hn : NoStrat u)
    (hk : CntOK u) (hcl : u.mon.classified = false) (hd : u.mon.done = false)
    (hex : e.isExhausted = false) :
    ⦃fun w => ⌜view cfg w = u⌝⦄ callExceptionPath cfg n e
    ⦃post⟨fun r w => ⌜(r = none → Rel cfg n (view cfg w)) ∧ (r ≠ none → Succ n (view cfg w))⌝,
          fun e' w => ⌜raisedBy isOp w.trace e = true → Exc cfg e' w⌝⟩⦄ := by
  have h1 := fun u hs hb hg => checkAbort_spec cfg false u hs hb hg n
  have h2 := fun u hc hn hk hcl hd => handleException_spec cfg false n u hc hn hk hcl hd e
  have h3 := fun u d hd cls => failureOutcome_spec cfg false n u d hd cls (some e) none (some .exception)
  have h4 := fun v hok hb hg o => callAttemptEndFromOutcome_v cfg v hok hb hg n o
  have h5 := fun u o rs hF => deliverCall_exn_spec cfg n u o rs e default hF hex
  mvcgen [callExceptionPath, getRS, modifyAS, h1, h2, h3, h4, h5]
  all_goals (clear h1 h2 h3 h4 h5)
  c03_chain
  all_goals first
    | exact (fin_basic _ _ _ _ (by assumption)).1
    | exact (fin_basic _ _ _ _ (by assumption)).2.1
    | exact (fin_basic _ _ _ _ (by assumption)).2.2.1
    | exact ⟨fun _ => rel_of_slept _ _ _ (by assumption), fun h => absurd rfl h⟩
    | (refine decided2_of cfg n _ _ _ (by assumption) ?_ ?_ <;> simp_all +zetaDelta; done)
    | (cases ‹Decision› <;> c03_phase; done)
    | skip

theorem not_exception_of_kise (e : Exn) (h : e.isKiSe = true) : e.isException = false := by
  cases e <;> simp_all [Exn.isKiSe, Exn.isException]

/-- the operation's exception propagates at once (abort, cancellation, nested exhaustion) -/
theorem exc_propagate (cfg : Cfg) {w : World} {e : Exn} (hb : (view cfg w).mon.bad = false)
    (hm : (view cfg w).mon.mustOp = false) (hgr : (view cfg w).mon.granted = false)
    (hgo : e.isException = false ∨ e.isAbort = true ∨ e.isExhausted = true)
    (hrb : e.isException = true → raisedBy isOp w.trace e = true) : Exc cfg e w := by
  simp only [view_mon] at hb hm hgr
  intro _
  refine ⟨hb, hm, fun f h => Or.inl ?_, fun _ _ h1 h2 h3 => ?_, fun h => by simp [hgr] at h⟩
  · subst h
    exact raisedBy_any_of _ _ _ (hrb rfl)
  · rcases hgo with h | h | h <;> simp_all

/-- the `except` ladder around `func()` in call mode -/
theorem callOpHandler_core (cfg : Cfg) (n : Nat) (u : View) (e : Exn) (hc : Core cfg n u) (hn : NoStrat u)
    (hk : CntOK u) (hcl : u.mon.classified = false) (hd : u.mon.done = false)
    (hsa : e.isAbort = true → u.mon.sawAbort = true) :
    ⦃fun w => ⌜view cfg w = u⌝⦄ callOpHandler cfg n e
    ⦃post⟨fun r w => ⌜(r = none → Rel cfg n (view cfg w)) ∧ (r ≠ none → Succ n (view cfg w))⌝,
          fun e' w => ⌜(e.isException = true → raisedBy isOp w.trace e = true) → Exc cfg e' w⌝⟩⦄ := by
  have h1 := fun v hok hb hg => handleAbortAttemptEnd_v cfg v hok hb hg n e
  have h2 := fun u hsa hok hb hg hm => emitAbortedOnce_spec cfg false u hsa hok hb hg hm n
  have h3 := fun u hc hn hk hcl hd hex => callExceptionPath_core cfg n u e hc hn hk hcl hd hex
  mvcgen [callOpHandler, h1, h2, h3]
  all_goals (clear h1 h2 h3)
  c03_chain
  all_goals (try subst_vars)
  all_goals first
    | (refine exc_propagate cfg ?_ ?_ ?_ ?_ (by assumption) <;>
        first
          | (simp_all [not_exception_of_kise]; done)
          | (c03_phase; done)
          | (left; rfl))
    | skip

/-- … with what the log says about where `e` came from -/
theorem callOpHandler_spec (cfg : Cfg) (n : Nat) (u : View) (e : Exn) (hc : Core cfg n u) (hn : NoStrat u)
    (hk : CntOK u) (hcl : u.mon.classified = false) (hd : u.mon.done = false)
    (hsa : e.isAbort = true → u.mon.sawAbort = true) :
    ⦃fun w => ⌜view cfg w = u ∧ (e.isException = true → raisedBy isOp w.trace e = true)⌝⦄
    callOpHandler cfg n e ⦃attemptPost cfg n⦄ :=
  triple_and_inv (callOpHandler_core cfg n u e hc hn hk hcl hd hsa)
    (inv_of_ext (fun w => e.isException = true → raisedBy isOp w.trace e = true)
      (fun w0 => callOpHandler_ext w0 cfg n e) (fun w w' h hi he => rbOp_ext e w w' h (hi he)))

/-- result-based failure in call mode -/
theorem callResultFailure_spec (cfg : Cfg) (n : Nat) (u : View) (x : Nat) (c : Classification)
    (hc : Core cfg n u) (hn : NoStrat u) (hk : ClsA c.klass u) (hd : u.mon.done = false) :
    ⦃fun w => ⌜view cfg w = u⌝⦄ callResultFailure cfg n x c ⦃attemptPost cfg n⦄ := by
  have h1 := fun u hs hb hg => checkAbort_spec cfg false u hs hb hg n
  have h2 := fun u hc hn hk hd => handleFailure_spec cfg false n u c hc hn hk hd .result none (some x)
  have h3 := fun u d hd => failureOutcome_spec cfg false n u d hd (some c) none (some x) (some .result)
  have h4 := fun v hok hb hg o => callAttemptEndFromOutcome_v cfg v hok hb hg n o
  have h5 := fun u o rs fb hF => deliverCall_res_spec cfg n u o rs fb hF
  mvcgen [callResultFailure, getRS, modifyAS, h1, h2, h3, h4, h5]
  all_goals (clear h1 h2 h3 h4 h5)
  c03_chain
  all_goals first
    | exact (fin_basic _ _ _ _ (by assumption)).1
    | exact (fin_basic _ _ _ _ (by assumption)).2.1
    | exact (fin_basic _ _ _ _ (by assumption)).2.2.1
    | exact ⟨fun _ => rel_of_slept _ _ _ (by assumption), fun h => absurd rfl h⟩
    | (refine decided2_of cfg n _ _ _ (by assumption) ?_ ?_ <;> simp_all +zetaDelta; done)
    | (cases ‹Decision› <;> c03_phase; done)
    | skip
  all_goals (simp only [NoStrat] at hn; simp +zetaDelta only [view_as]; rw [‹view cfg _ = pollV cfg _›, pollV_noStrat cfg _ hn.1 hn.2.2.2.1]; exact hk)

/-- after `func()` returned, call mode -/
theorem callResultPath_spec (cfg : Cfg) (n : Nat) (u : View) (x : Nat) (hc : Core cfg n u) (hn : NoStrat u)
    (hk : CntOK u) (hcl : u.mon.classified = false) (hd : u.mon.done = !cfg.resultClassifier) :
    ⦃fun w => ⌜view cfg w = u⌝⦄ callResultPath cfg n x ⦃attemptPost cfg n⦄ := by
  have h1 := fun u hc hn hk hcl hd => shouldClassifyResult_spec cfg n u hc hn hk hcl hd x
  have h2 := fun v hok hb hg hs hm => handleSuccessAttemptEnd_v cfg false v hok hb hg hs hm n x
  have h3 := fun u c hc hn hk hd => callResultFailure_spec cfg n u x c hc hn hk hd
  mvcgen [callResultPath, h1, h2, h3]
  all_goals (clear h1 h2 h3)
  c03_chain

theorem rel_pollV (cfg : Cfg) (n : Nat) (u : View) (h : Rel cfg n u) : Rel cfg n (pollV cfg u) := by
  simp only [Rel, CntOK, GrantInv, pollV] at *
  split <;> simp_all

/-- one iteration of the loop in call mode -/
theorem callAttempt_spec (cfg : Cfg) (n : Nat) (u : View) (hr : Rel cfg n u) (hlt : n < cfg.maxAttempts) :
    ⦃fun w => ⌜view cfg w = u⌝⦄ callAttempt cfg (n + 1) ⦃attemptPost cfg (n + 1)⦄ := by
  have h1 := fun u hs hb hg => checkAbort_spec cfg false u hs hb hg n
  have h2 := fun v hok hb hg => callAttemptStart_v cfg v hok hb hg (n + 1)
  have h3 := fun u hr => invokeOp_spec cfg n u hr hlt (n + 1)
  have h4 := fun u e hc hn hk hcl hd hsa => callOpHandler_spec cfg (n + 1) u e hc hn hk hcl hd hsa
  have h5 := fun u x hc hn hk hcl hd => callResultPath_spec cfg (n + 1) u x hc hn hk hcl hd
  mvcgen [callAttempt, modifyAS, h1, h2, h3, h4, h5]
  all_goals (clear h1 h2 h3 h4 h5)
  c03_chain
  all_goals (
    have hp := rel_pollV cfg n _ hr
    simp +zetaDelta only [view_as] at *
    first
      | (simp_all; done)
      | (simp only [Rel] at hp; simp_all; done))

/-- no attempt was made (`max_attempts = 0`) -/
theorem exc_zero (cfg : Cfg) {w : World} {e : Exn} (hops : (cur cfg w.trace).ops = 0)
    (hb : (cur cfg w.trace).bad = false) (hm : (cur cfg w.trace).mustOp = false)
    (hgr : (cur cfg w.trace).granted = false)
    (hstop : ∀ f, e = .libExhausted f → f.stop = .maxAttemptsGlobal ∧ cfg.maxAttempts = 0) : Exc cfg e w := by
  intro _
  refine ⟨hb, hm, fun f h => Or.inr ?_, fun h => by omega, fun h => by simp [hgr] at h⟩
  obtain ⟨h1, h2⟩ := hstop f h
  simp [h1, stopCond, h2]

theorem raiseExhaustedCall_spec (cfg : Cfg) (u : View) (hr : Rel cfg 0 u) (h0 : cfg.maxAttempts = 0) :
    ⦃fun w => ⌜view cfg w = u⌝⦄ raiseExhaustedCall cfg
    ⦃post⟨fun _ _ => ⌜False⌝, fun e w => ⌜Exc cfg e w⌝⟩⦄ := by
  have he := fun v hok hb hg hm k ex cs => emit_v cfg false v hok hb hg hm .maxAttemptsExceeded
    (by simp [plainEv, isBreakerEv]) cfg.maxAttempts 0 k ex (some .maxAttemptsGlobal) cs none
  simp only [Rel, CntOK, GrantInv] at hr
  mvcgen [raiseExhaustedCall, emitMaxAttemptsExceeded, getRS, setStop, modifyRS, he]
  all_goals (clear he)
  c03_chain
  all_goals first
    | (refine exc_zero cfg ?_ ?_ ?_ ?_ ?_ <;> c03_simp; done)
    | (exfalso; c03_simp; done)
    | skip

/-- what the verdict needs when a run returns a value -/
def RetOK (cfg : Cfg) (w : World) : Prop :=
  flt w.trace = false → ∃ n, Succ n (view cfg w)

/-- the loop of `_run_sync_call`: `fuel` iterations left after `n` attempts -/
theorem callLoop_spec (cfg : Cfg) : ∀ (fuel n : Nat) (u : View), Rel cfg n u → n + fuel = cfg.maxAttempts →
    ⦃fun w => ⌜view cfg w = u⌝⦄ callLoop cfg fuel (n + 1)
    ⦃post⟨fun _ w => ⌜RetOK cfg w⌝, fun e w => ⌜Exc cfg e w⌝⟩⦄ := by
  intro fuel
  induction fuel with
  | zero =>
    intro n u hr hn
    have h0 : n = 0 := by
      simp only [Rel] at hr
      omega
    subst h0
    have h1 := raiseExhaustedCall_spec cfg u hr (by omega)
    mvcgen [callLoop, h1]
    all_goals (intro h; exact absurd h id)
  | succ f ih =>
    intro n u hr hn
    have h1 := callAttempt_spec cfg n u hr (by omega)
    mvcgen [callLoop, h1]
    all_goals (clear h1)
    · rename_i hpost
      intro _
      exact ⟨n + 1, hpost.2 (by simp)⟩
    · intro s hrel _
      exact ih (n + 1) (view cfg s) hrel (by omega) s rfl


theorem initState_spec (cfg : Cfg) :
    ⦃fun w => ⌜cur cfg w.trace = {} ∧ clk w.trace = {} ∧ flt w.trace = false⌝⦄ initState
    ⦃post⟨fun _ w => ⌜Rel cfg 0 (view cfg w)⌝, fun _ _ => ⌜False⌝⟩⦄ := by
  mvcgen [initState]
  all_goals (simp_all +zetaDelta [Rel, CntOK, GrantInv, view, stopOkOf])

/-- `Retry.call` -/
theorem runCall_spec (cfg : Cfg) :
    ⦃fun w => ⌜cur cfg w.trace = {} ∧ clk w.trace = {} ∧ flt w.trace = false⌝⦄ runCall cfg
    ⦃post⟨fun _ w => ⌜RetOK cfg w⌝, fun e w => ⌜Exc cfg e w⌝⟩⦄ := by
  have h1 := initState_spec cfg
  have h2 := fun u hr => callLoop_spec cfg cfg.maxAttempts 0 u hr (by omega)
  mvcgen [runCall, h1, h2]
  all_goals (intros; assumption)

/-! ### execute mode -/

/-- what the verdict needs when `execute()` returns an outcome -/
structure OutCore (cfg : Cfg) (o : Outcome) (m : St) (el : Nat) : Prop where
  bad : m.bad = false
  must : m.mustOp = false
  stop : ∀ r, o.stop = some r → stopCond cfg m el r = true
  give : 1 ≤ m.ops → m.done = false → o.ok = false ∧ o.stop.isSome = true
  grant : m.granted = true → (cfg.metric = true → m.retryEv = true) ∧
    (m.slept = true ∨ m.decision.isSome = true ∨ o.stop = none ∨ o.stop = some .aborted)

def OutOK (cfg : Cfg) (o : Outcome) (w : World) : Prop :=
  flt w.trace = false → OutCore cfg o (cur cfg w.trace) (clk w.trace).el

/-- `_build_outcome` does not touch the world; the stop reason it reports is the recorded one -/
theorem buildOutcome_spec (cfg : Cfg) (u : View) (ok : Bool) (value : Option Nat) (n : Nat) (ns : Option Nat) :
    ⦃fun w => ⌜view cfg w = u⌝⦄ buildOutcome ok value n ns
    ⦃post⟨fun o w => ⌜view cfg w = u ∧ o.ok = ok ∧ o.stop = if ok then none else u.stop⌝,
          fun _ _ => ⌜False⌝⟩⦄ := by
  mvcgen [buildOutcome, getRS, elapsed]
  all_goals (subst_vars; simp [view])

theorem outOK_of_stopped (cfg : Cfg) {w : World} {n : Nat} {r : StopReason} {o : Outcome}
    (hS : Stopped cfg n r (view cfg w)) (ho : o.ok = false) (hs : o.stop = some r) : OutOK cfg o w := by
  have hc := stopCond_of_view cfg w r hS.2.2.2.2.2.2.1 hS.2.2.2.2.2.2.2.1
  simp only [Stopped, GrantInv, view_mon] at hS
  intro _
  refine ⟨hS.2.2.1, hS.2.2.2.2.1, fun r' h => ?_, fun _ _ => ⟨ho, by simp [hs]⟩, fun hg => ⟨hS.2.2.2.2.2.2.2.2.2.1 hg, ?_⟩⟩
  · rw [hs] at h; cases h; exact hc
  · rcases hS.2.2.2.2.2.2.2.2.2.2 hg with h | h
    · exact Or.inl h
    · exact Or.inr (Or.inl h)

theorem outOK_of_succ (cfg : Cfg) {w : World} {n : Nat} {o : Outcome} (hS : Succ n (view cfg w))
    (hs : o.stop = none) : OutOK cfg o w := by
  simp only [Succ, view_mon] at hS
  intro _
  exact ⟨hS.2.2.1, hS.2.2.2.2.1, fun r h => by simp [hs] at h, fun _ h => by simp [hS.2.2.2.2.2.1] at h,
    fun h => by simp [hS.2.2.2.2.2.2.2.2] at h⟩


/-- the run has been aborted (a poll answered True, or a callback raised `AbortRetryError`) -/
def Ab (cfg : Cfg) (v : View) : Prop :=
  v.mon.bad = false ∧ v.flt = false ∧ v.mon.mustOp = false ∧ v.stop = some .aborted ∧ v.stopOk = true ∧
  v.mon.sawAbort = true ∧ GrantInv cfg v.mon

theorem outOK_of_ab (cfg : Cfg) {w : World} {o : Outcome} (hA : Ab cfg (view cfg w)) (ho : o.ok = false)
    (hs : o.stop = some .aborted) : OutOK cfg o w := by
  simp only [Ab, GrantInv, view_mon] at hA
  intro _
  refine ⟨hA.1, hA.2.2.1, fun r h => ?_, fun _ _ => ⟨ho, by simp [hs]⟩,
    fun hg => ⟨hA.2.2.2.2.2.2 hg, Or.inr (Or.inr (Or.inr hs))⟩⟩
  rw [hs] at h; cases h
  simp [stopCond, hA.2.2.2.2.2.1]

/-- `emit` fails only with something that is not an `Exception` -/
theorem emit_nonexc (cfg : Cfg) (tl : Bool) (ev : Event) (a s : Nat) (k : Option EClass) (e : Option Exn)
    (st : Option StopReason) (c : Option Cause) (cl : Option Classification) :
    ⦃fun _ => ⌜True⌝⦄ emit cfg tl ev a s k e st c cl
    ⦃post⟨fun _ _ => ⌜True⌝, fun e' _ => ⌜e'.isException = false⌝⟩⦄ := by
  mvcgen [emit, metricHook, askMetric, askLog, ask, swallowException, recordTimeline]
  all_goals simp_all

/-- conjunction of the exceptional posts of two triples for the same program -/
theorem triple_and_exc {α : Type} {x : M α} {P : World → Prop} {Q : α → World → Prop}
    {E1 E2 : Exn → World → Prop}
    (h1 : ⦃fun w => ⌜P w⌝⦄ x ⦃post⟨fun a w => ⌜Q a w⌝, fun e w => ⌜E1 e w⌝⟩⦄)
    (h2 : ⦃fun _ => ⌜True⌝⦄ x ⦃post⟨fun _ _ => ⌜True⌝, fun e w => ⌜E2 e w⌝⟩⦄) :
    ⦃fun w => ⌜P w⌝⦄ x ⦃post⟨fun a w => ⌜Q a w⌝, fun e w => ⌜E1 e w ∧ E2 e w⌝⟩⦄ := by
  apply triple_of_run
  intro w hw
  have a1 := adequacy h1 w hw
  have a2 := adequacy h2 w trivial
  split <;> simp_all

theorem not_abort_of_not_exception (e : Exn) (h : e.isException = false) : e.isAbort = false := by
  cases e <;> simp_all [Exn.isException, Exn.isAbort]

macro_rules | `(tactic| c03_simp) => `(tactic|
  simp_all +zetaDelta [Ab, Fin, Decided2, Ready, Slept, Decided, PreStop, plainEv, isBreakerEv, GrantInv, Strat, Gr, Refd,
    Stopped, isFailure, pollV, stopCond, Succ, Core, NoStrat, CntOK, Rel, ClsA, ClsB, ClsC, bumpCount, view,
    cur_cons, clk_cons, flt_cons, hookRaise, Clock.tick, isPrelude, step, classify, abortKind, abortRaise,
    isAttemptHook, stopOkOf, raisedBy, isOp, lastOpExn])

/-- how `check_abort` can fail, seen from `execute()`'s handlers -/
def XAb (cfg : Cfg) (e : Exn) (w : World) : Prop :=
  flt w.trace = true ∨ (e.isAbort = false ∧ e.isException = false ∧ Exc cfg e w) ∨
  (e = .libAbort ∧ Ab cfg (view cfg w))

theorem checkAbort_x (cfg : Cfg) (tl : Bool) (u : View) (hs : u.stop = none) (hb : u.mon.bad = false)
    (hg : GrantInv cfg u.mon) (hf : u.flt = false) (a : Nat) :
    ⦃fun w => ⌜view cfg w = u⌝⦄ checkAbort cfg tl a
    ⦃post⟨fun _ w => ⌜view cfg w = pollV cfg u⌝, fun e w => ⌜XAb cfg e w⌝⟩⦄ := by
  have he := fun v hok hb hg hm => triple_and_exc
    (emit_v cfg tl v hok hb hg hm .aborted (by simp [plainEv, isBreakerEv]) a 0 none none (some .aborted) none none)
    (emit_nonexc cfg tl .aborted a 0 none none (some .aborted) none none)
  mvcgen [checkAbort, ask, setStop, modifyRS, he]
  all_goals (clear he)
  all_goals (try subst_vars)
  all_goals first
    | (refine Or.inl ?_; simp [flt_cons, hookRaise, isAttemptHook]; done)
    | (intro hE hne; exact Or.inr (Or.inl ⟨not_abort_of_not_exception _ hne, hne, hE⟩))
    | (refine Or.inr (Or.inl ⟨rfl, rfl, ?_⟩); c03_exc)
    | (refine Or.inr (Or.inr ⟨rfl, ?_⟩); c03_simp; done)
    | skip
  c03_done


/-- the run can be ended as ABORTED here -/
def PreAb (cfg : Cfg) (v : View) : Prop :=
  v.mon.sawAbort = true ∧ v.stopOk = true ∧ v.mon.bad = false ∧ GrantInv cfg v.mon ∧ v.mon.mustOp = false ∧
  v.flt = false

/-- an execute() attempt: the loop goes on, or an outcome is returned that satisfies the verdict -/
abbrev xPost (cfg : Cfg) (P : World → Prop) : PostCond (Option Outcome) (.except Exn (.arg World .pure)) :=
  post⟨fun r w => ⌜match r with
                  | none => P w
                  | some o => OutOK cfg o w⌝,
       fun e w => ⌜Exc cfg e w⌝⟩

/-- … where "the loop goes on" means: with the invariant, unless an attempt hook raised -/
abbrev xPostG (cfg : Cfg) (n : Nat) : PostCond (Option Outcome) (.except Exn (.arg World .pure)) :=
  xPost cfg (fun w => flt w.trace = false → Slept cfg n (view cfg w))

theorem abortOutcome_spec (cfg : Cfg) (tl : Bool) (u : View) (hp : PreAb cfg u) (a : Nat) :
    ⦃fun w => ⌜view cfg w = u⌝⦄ abortOutcome cfg tl a
    ⦃post⟨fun o w => ⌜OutOK cfg o w⌝, fun e w => ⌜Exc cfg e w⌝⟩⦄ := by
  have h1 := fun u hsa hok hb hg hm => emitAbortedOnce_spec cfg tl u hsa hok hb hg hm a
  have h2 := fun u ok v n ns => buildOutcome_spec cfg u ok v n ns
  simp only [PreAb] at hp
  mvcgen [abortOutcome, h1, h2]
  all_goals (clear h1 h2)
  c03_chain
  all_goals (refine outOK_of_ab cfg ?_ (by assumption) (by simp_all) ; simp_all [Ab])


theorem execAbortExit_spec (cfg : Cfg) (tl : Bool) (u : View) (hp : PreAb cfg u) (a : Nat) (e : Exn)
    (P : World → Prop) :
    ⦃fun w => ⌜view cfg w = u⌝⦄ execAbortExit cfg tl a e ⦃xPost cfg P⦄ := by
  have h1 := fun v hok hb hg => handleAbortAttemptEnd_v cfg v hok hb hg a e
  have h2 := fun u hp n => abortOutcome_spec cfg tl u hp n
  have hp' := hp
  simp only [PreAb] at hp'
  mvcgen [execAbortExit, h1, h2]
  all_goals (clear h1 h2)
  c03_chain


theorem sawAbort_of_stopped (cfg : Cfg) (w : World) (n : Nat) (h : Stopped cfg n .aborted (view cfg w)) :
    (view cfg w).mon.sawAbort = true := by
  have := stopCond_of_view cfg w .aborted h.2.2.2.2.2.2.1 h.2.2.2.2.2.2.2.1
  simpa [stopCond] using this

/-- what follows the attempt's outcome in execute mode -/
theorem deliverExecute_spec (cfg : Cfg) (tl : Bool) (n : Nat) (u : View) (o : AOutcome) (rs : RState)
    (fr : Bool) (hF : Fin cfg n o u) :
    ⦃fun w => ⌜view cfg w = u⌝⦄ deliverExecute cfg tl (determineAction o rs n fr) o ⦃xPostG cfg n⦄ := by
  have h1 := fun u hp a => abortOutcome_spec cfg tl u hp a
  have h2 := fun u ok v n ns => buildOutcome_spec cfg u ok v n ns
  unfold determineAction
  simp only [Fin] at hF
  cases hdec : o.decision <;> cases fr <;> simp only [hdec] at hF ⊢ <;> mvcgen [deliverExecute, h1, h2]
  all_goals (clear h1 h2)
  all_goals (try subst_vars)
  all_goals first
    | (intro _; assumption)
    | (split at hF <;> first
        | contradiction
        | (rename_i x r heq
           obtain ⟨hv, hok, hst⟩ := ‹view cfg _ = view cfg _ ∧ _ ∧ _›
           rw [← hv] at hF heq
           exact outOK_of_stopped cfg hF.1 hok (by rw [hst, ← hv]; simpa using heq))
        | (rename_i x r heq
           obtain ⟨hS, _, _, _, hr⟩ := hF
           have hr' := hr
           subst hr'
           have hsa := sawAbort_of_stopped cfg _ n hS
           simp only [Stopped] at hS
           simp only [PreAb]
           simp_all))

end Redress.Props.C03
