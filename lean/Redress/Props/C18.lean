/-
  C18 — "Built-in backoff strategies are total and stay inside their envelopes", and the last
  sentence of C20 ("a policy using retry_after_or waits at least the hinted time and at most the
  hint plus jitter_s, except where the remaining deadline is smaller").

  All theorems are about `Redress.Model.Strategies`, i.e. about `strategies.py` with floats read
  as exact rationals, and quantify over *every* attempt number (all of `Nat`, in particular
  every attempt ≥ 1), every previous delay ≥ 0 (or `None`), every parameterisation with
  `0 ≤ base ≤ max`, every draw `u ∈ [0,1]`, every event history and every clock reading.

  Totality ("none of them raises") is free in the model: every definition is a total Lean
  function into `Rat`, so every value is finite by construction.

  PARTIAL (by design, see the header of Model/Strategies.lean): the model has no IEEE-754
  overflow/rounding, so "does not raise `OverflowError` for very large attempts" and "the float
  result is finite" are *not* theorems here; they are checked on the real code by the
  correspondence family `strategies` (attempts up to 10^6, parameters at 0/denormal/huge).
-/
import Redress.Lemmas.StrategyLemmas
import Redress.Model.Retry

namespace Redress.Strategies

/-! ## the cap -/

/-- The executable early-exit `cap` is the specified `min(max_s, base_s * g ** attempt)`. -/
theorem cap_eq_capSpec (base mx g : Rat) (attempt : Nat) (hb : 0 ≤ base) (hg : 1 ≤ g) :
    cap base mx g attempt = min mx (base * g ^ attempt) :=
  min_growCapped mx g hg attempt base hb

-- non-vacuity: the hypotheses hold at a concrete instance
example := cap_eq_capSpec (1 / 4) 30 (3 / 2) 5 (by norm_num) (by norm_num)

theorem cap_le_max (base mx g : Rat) (attempt : Nat) : cap base mx g attempt ≤ mx :=
  min_le_left _ _

theorem cap_nonneg (base mx g : Rat) (attempt : Nat) (hb : 0 ≤ base) (hm : base ≤ mx)
    (hg : 1 ≤ g) : 0 ≤ cap base mx g attempt := by
  rw [cap_eq_capSpec base mx g attempt hb hg]
  have := one_le_pow_of_one_le g hg attempt
  exact le_min (le_trans hb hm) (by nlinarith)

-- non-vacuity: the hypotheses hold at a concrete instance
example := cap_nonneg (1 / 4) 30 2 1024 (by norm_num) (by norm_num) (by norm_num)

/-- The cap never drops below `base_s` (so the delay is at least `base_s / 2`). -/
theorem cap_ge_base (base mx g : Rat) (attempt : Nat) (hb : 0 ≤ base) (hm : base ≤ mx)
    (hg : 1 ≤ g) : base ≤ cap base mx g attempt := by
  rw [cap_eq_capSpec base mx g attempt hb hg]
  have := one_le_pow_of_one_le g hg attempt
  exact le_min hm (by nlinarith)

-- non-vacuity: the hypotheses hold at a concrete instance
example := cap_ge_base (1 / 4) 30 (3 / 2) 1751 (by norm_num) (by norm_num) (by norm_num)

/-- The cap is non-decreasing in the attempt number. -/
theorem cap_mono (base mx g : Rat) (a : Nat) (hb : 0 ≤ base) (hg : 1 ≤ g) :
    cap base mx g a ≤ cap base mx g (a + 1) := by
  rw [cap_eq_capSpec base mx g a hb hg, cap_eq_capSpec base mx g (a + 1) hb hg]
  have h1 := one_le_pow_of_one_le g hg a
  apply min_le_min_left
  rw [pow_succ]
  nlinarith [mul_nonneg hb (le_trans zero_le_one h1)]

-- non-vacuity: the hypotheses hold at a concrete instance
example := cap_mono (1 / 4) 30 2 6 (by norm_num) (by norm_num)

/-! ## decorrelated_jitter -/

/--
`decorrelated_jitter` returns a value in `[0, max_s]`; sharper: it lies between
`min(base, 3·prev')` and `min(max_s, max(base, 3·prev'))` where `prev' = prev_sleep or base_s`.
(The lower bound is *not* `base_s` in general: a previous delay below `base_s / 3` — possible
when the runner clipped the previous delay to a small remaining deadline — gives a draw from
`[3·prev, base_s]`.)
-/
theorem decorrelated_in_range (base mx : Rat) (prev : Option Rat) (u : Rat)
    (hb : 0 ≤ base) (hm : base ≤ mx) (hp : ∀ p, prev = some p → 0 ≤ p)
    (hu0 : 0 ≤ u) (hu1 : u ≤ 1) :
    let f := decorrelatedJitter base mx prev u
    let p := prevOr base prev
    0 ≤ f ∧ f ≤ mx ∧ min base (p * 3) ≤ f ∧ f ≤ min mx (max base (p * 3)) := by
  intro f p
  have hp0 : 0 ≤ p := prevOr_nonneg base prev hb hp
  obtain ⟨hlo, hhi⟩ := uniform_between base (p * 3) u hu0 hu1
  have hmin0 : 0 ≤ min base (p * 3) := le_min hb (by linarith)
  have hminm : min base (p * 3) ≤ mx := le_trans (min_le_left _ _) hm
  show 0 ≤ min mx (uniform base (p * 3) u) ∧ min mx (uniform base (p * 3) u) ≤ mx ∧
    min base (p * 3) ≤ min mx (uniform base (p * 3) u) ∧
    min mx (uniform base (p * 3) u) ≤ min mx (max base (p * 3))
  exact ⟨le_min (le_trans hb hm) (le_trans hmin0 hlo), min_le_left _ _, le_min hminm hlo,
    min_le_min_left _ hhi⟩

-- non-vacuity: the hypotheses hold at a concrete instance
example := decorrelated_in_range (1 / 4) 30 (some (7 / 2)) (1 / 3) (by norm_num) (by norm_num)
  (by intro p h; cases h; norm_num : ∀ p : Rat, some (7 / 2 : Rat) = some p → 0 ≤ p) (by norm_num) (by norm_num)

/-- First retry (`prev_sleep` is `None`) or a previous delay of `0.0`: the draw is from
`[base_s, 3·base_s]`, clamped to `max_s`. -/
theorem decorrelated_first (base mx : Rat) (prev : Option Rat) (u : Rat)
    (hb : 0 ≤ base) (hm : base ≤ mx) (hprev : prev = none ∨ prev = some 0)
    (hu0 : 0 ≤ u) (hu1 : u ≤ 1) :
    base ≤ decorrelatedJitter base mx prev u ∧
      decorrelatedJitter base mx prev u ≤ min mx (base * 3) := by
  have hp : ∀ p, prev = some p → 0 ≤ p := by
    intro p h; rcases hprev with h' | h' <;> simp_all
  have hpo : prevOr base prev = base := by
    rcases hprev with h | h <;> simp [h, prevOr]
  obtain ⟨_, _, h3, h4⟩ := decorrelated_in_range base mx prev u hb hm hp hu0 hu1
  simp only [hpo] at h3 h4
  rw [min_eq_left (by linarith)] at h3
  rw [max_eq_right (by linarith)] at h4
  exact ⟨h3, h4⟩

-- non-vacuity: the hypotheses hold at a concrete instance
example := decorrelated_first (1 / 4) 30 (some 0) 1 (by norm_num) (by norm_num) (Or.inr rfl) (by norm_num) (by norm_num)

/-- When the previous delay is at least `base_s / 3` the result is at least `base_s`. -/
theorem decorrelated_ge_base (base mx p u : Rat)
    (hb : 0 ≤ base) (hm : base ≤ mx) (hp : base ≤ p * 3) (hu0 : 0 ≤ u) (hu1 : u ≤ 1) :
    base ≤ decorrelatedJitter base mx (some p) u := by
  have hp' : ∀ q, some p = some q → 0 ≤ q := by intro q h; cases h; linarith
  obtain ⟨_, _, h3, _⟩ := decorrelated_in_range base mx (some p) u hb hm hp' hu0 hu1
  by_cases h0 : p = 0
  · subst h0
    have : base = 0 := by linarith
    subst this
    simpa [prevOr] using h3
  · simp only [prevOr, if_neg h0] at h3
    rwa [min_eq_left hp] at h3

-- non-vacuity: the hypotheses hold at a concrete instance
example := decorrelated_ge_base (1 / 4) 30 (1 / 12) 0 (by norm_num) (by norm_num) (by norm_num) (by norm_num) (by norm_num)

/-! ## equal_jitter and token_backoff -/

/-- `equal_jitter` returns a value in `[cap/2, cap]`, `cap = min(max_s, base_s · 2^attempt)`. -/
theorem equal_jitter_envelope (base mx : Rat) (attempt : Nat) (u : Rat)
    (hb : 0 ≤ base) (hm : base ≤ mx) (hu0 : 0 ≤ u) (hu1 : u ≤ 1) :
    let c := min mx (base * 2 ^ attempt)
    c / 2 ≤ equalJitter base mx attempt u ∧ equalJitter base mx attempt u ≤ c := by
  intro c
  have hc : cap base mx 2 attempt = c := cap_eq_capSpec base mx 2 attempt hb (by norm_num)
  have hc0 : 0 ≤ c := hc ▸ cap_nonneg base mx 2 attempt hb hm (by norm_num)
  obtain ⟨h1, h2⟩ := uniform_mem_of_le 0 (c / 2) u (by linarith) hu0 hu1
  show c / 2 ≤ cap base mx 2 attempt / 2 + uniform 0 (cap base mx 2 attempt / 2) u ∧
    cap base mx 2 attempt / 2 + uniform 0 (cap base mx 2 attempt / 2) u ≤ c
  rw [hc]
  constructor <;> linarith

-- non-vacuity: the hypotheses hold at a concrete instance
example := equal_jitter_envelope (1 / 4) 30 1024 1 (by norm_num) (by norm_num) (by norm_num) (by norm_num)

/-- `token_backoff` returns a value in `[cap/2, cap]`, `cap = min(max_s, base_s · 1.5^attempt)`. -/
theorem token_backoff_envelope (base mx : Rat) (attempt : Nat) (u : Rat)
    (hb : 0 ≤ base) (hm : base ≤ mx) (hu0 : 0 ≤ u) (hu1 : u ≤ 1) :
    let c := min mx (base * (3 / 2) ^ attempt)
    c / 2 ≤ tokenBackoff base mx attempt u ∧ tokenBackoff base mx attempt u ≤ c := by
  intro c
  have hc : cap base mx (3 / 2) attempt = c :=
    cap_eq_capSpec base mx (3 / 2) attempt hb (by norm_num)
  have hc0 : 0 ≤ c := hc ▸ cap_nonneg base mx (3 / 2) attempt hb hm (by norm_num)
  show c / 2 ≤ uniform (cap base mx (3 / 2) attempt / 2) (cap base mx (3 / 2) attempt) u ∧
    uniform (cap base mx (3 / 2) attempt / 2) (cap base mx (3 / 2) attempt) u ≤ c
  rw [hc]
  exact uniform_mem_of_le (c / 2) c u (by linarith) hu0 hu1

-- non-vacuity: the hypotheses hold at a concrete instance
example := token_backoff_envelope (1 / 4) 20 1751 0 (by norm_num) (by norm_num) (by norm_num) (by norm_num)

/-- Both are therefore finite, non-negative, at most `max_s` and at least `base_s / 2`. -/
theorem exponential_in_range (base mx : Rat) (attempt : Nat) (u : Rat)
    (hb : 0 ≤ base) (hm : base ≤ mx) (hu0 : 0 ≤ u) (hu1 : u ≤ 1) :
    (base / 2 ≤ equalJitter base mx attempt u ∧ equalJitter base mx attempt u ≤ mx) ∧
    (base / 2 ≤ tokenBackoff base mx attempt u ∧ tokenBackoff base mx attempt u ≤ mx) := by
  obtain ⟨e1, e2⟩ := equal_jitter_envelope base mx attempt u hb hm hu0 hu1
  obtain ⟨t1, t2⟩ := token_backoff_envelope base mx attempt u hb hm hu0 hu1
  have c2 := cap_ge_base base mx 2 attempt hb hm (by norm_num)
  have c3 := cap_ge_base base mx (3 / 2) attempt hb hm (by norm_num)
  rw [cap_eq_capSpec base mx 2 attempt hb (by norm_num)] at c2
  rw [cap_eq_capSpec base mx (3 / 2) attempt hb (by norm_num)] at c3
  have m2 : min mx (base * 2 ^ attempt) ≤ mx := min_le_left _ _
  have m3 : min mx (base * (3 / 2) ^ attempt) ≤ mx := min_le_left _ _
  refine ⟨⟨?_, ?_⟩, ⟨?_, ?_⟩⟩ <;> linarith

-- non-vacuity: the hypotheses hold at a concrete instance
example := exponential_in_range (1 / 4) 20 3 (1 / 2) (by norm_num) (by norm_num) (by norm_num) (by norm_num)

/-! ## adaptive -/

/-- `_multiplier()`'s arithmetic stays in `[min_multiplier, max_multiplier]` for every deque
content and **every** `target_failure` (so also for the float-rounded `1.0 - target_success`). -/
theorem multiplierTF_bounds (minM maxM tf : Rat) (ev : Events) (hmm : minM ≤ maxM) :
    minM ≤ multiplierTF minM maxM tf ev ∧ multiplierTF minM maxM tf ev ≤ maxM := by
  unfold multiplierTF
  simp only
  split
  · exact ⟨le_refl _, hmm⟩
  · split
    · exact ⟨le_refl _, hmm⟩
    · split
      · exact ⟨hmm, le_refl _⟩
      · exact clamp_mem _ _ _ hmm

-- non-vacuity: the hypotheses hold at a concrete instance
example := multiplierTF_bounds 1 5 (1 / 10) [(0, false), (1, false), (2, true)] (by norm_num)

/-- What `adaptive()`'s validation gives. -/
theorem valid_iff (p : AdaptiveParams) :
    p.valid = true ↔ 0 < p.window ∧ 0 < p.targetSuccess ∧ p.targetSuccess ≤ 1 ∧ 1 ≤ p.minM ∧
      p.minM ≤ p.maxM := by
  unfold AdaptiveParams.valid
  constructor
  · intro hv
    split at hv; · simp at hv
    next h1 =>
    split at hv; · simp at hv
    next h2 =>
    split at hv; · simp at hv
    next h3 =>
    split at hv; · simp at hv
    next h4 =>
    rw [not_not] at h2
    exact ⟨not_le.mp h1, h2.1, h2.2, not_lt.mp h3, not_lt.mp h4⟩
  · rintro ⟨h1, h2, h3, h4, h5⟩
    rw [if_neg (not_le.mpr h1), if_neg (not_not.mpr ⟨h2, h3⟩), if_neg (not_lt.mpr h4),
      if_neg (not_lt.mpr h5)]

/-- The multiplier reported by an `AdaptiveStrategy` lies in `[min_multiplier, max_multiplier]`
for every parameterisation accepted by `adaptive()`, every event history (monotone clock or
not) and every clock reading. -/
theorem adaptive_multiplier_bounds (p : AdaptiveParams) (events : Events) (now : Rat)
    (hv : p.valid = true) :
    p.minM ≤ adaptiveMultiplier p events now ∧ adaptiveMultiplier p events now ≤ p.maxM := by
  have hmm : p.minM ≤ p.maxM := by
    unfold AdaptiveParams.valid at hv
    split at hv; · simp at hv
    split at hv; · simp at hv
    split at hv; · simp at hv
    split at hv; · simp at hv
    next h => exact not_lt.mp h
  exact multiplierTF_bounds _ _ _ _ hmm

-- non-vacuity: the hypotheses hold at a concrete instance
example := adaptive_multiplier_bounds (⟨60, 9 / 10, 1, 5⟩ : AdaptiveParams) [(0, false), (1, false), (2, true)] 3
  ((valid_iff _).mpr (by norm_num) : (⟨60, 9 / 10, 1, 5⟩ : AdaptiveParams).valid = true)

/-- The same for a whole life of the object: every output of `_multiplier()` along any sequence
of `record_success` / `record_failure` / `_multiplier` / `__call__` operations is in range
(outputs of `__call__` are the fallback value times such a multiplier). -/
theorem runOps_outputs (p : AdaptiveParams) (tf? : Option Rat) (hmm : p.minM ≤ p.maxM) :
    ∀ (ops : List AOp) (ev : Events) (out : List Rat),
      (∀ x ∈ out, ∃ fb m, x = adaptive fb m ∧ p.minM ≤ m ∧ m ≤ p.maxM) →
      ∀ x ∈ (runOps p tf? ops ev out).1, ∃ fb m, x = adaptive fb m ∧ p.minM ≤ m ∧ m ≤ p.maxM := by
  intro ops
  induction ops with
  | nil => intro ev out h x hx; simp only [runOps, List.mem_reverse] at hx; exact h x hx
  | cons op ops ih =>
    intro ev out h
    cases op with
    | record now s => exact ih _ _ h
    | query now =>
      simp only [runOps]
      apply ih
      intro x hx
      rcases List.mem_cons.mp hx with rfl | hx
      · exact ⟨1, multiplierTF p.minM p.maxM (tf?.getD p.targetFailure) (prune (now - p.window) ev),
          by simp [adaptive], multiplierTF_bounds _ _ _ _ hmm⟩
      · exact h x hx
    | call now fb =>
      simp only [runOps]
      apply ih
      intro x hx
      rcases List.mem_cons.mp hx with rfl | hx
      · exact ⟨fb, _, rfl, multiplierTF_bounds _ _ _ _ hmm⟩
      · exact h x hx

-- non-vacuity: the hypotheses hold at a concrete instance
example := runOps_outputs (⟨60, 9 / 10, 1, 5⟩ : AdaptiveParams) none (by norm_num)
  [.record 0 false, .query 1, .call 2 (3 / 2)] [] [] (by simp)

/-- `adaptive()` returns its fallback's value scaled by a factor within
`[min_multiplier, max_multiplier]`. -/
theorem adaptive_scaled (p : AdaptiveParams) (fb now : Rat) (ev : Events) (hv : p.valid = true) :
    ∃ m, (adaptiveCall p fb now ev).1 = fb * m ∧ p.minM ≤ m ∧ m ≤ p.maxM :=
  ⟨adaptiveMultiplier p ev now, rfl, adaptive_multiplier_bounds p ev now hv⟩

-- non-vacuity: the hypotheses hold at a concrete instance
example := adaptive_scaled (⟨60, 9 / 10, 1, 5⟩ : AdaptiveParams) (3 / 2) 3 [(0, false), (1, false), (2, true)]
  ((valid_iff _).mpr (by norm_num) : (⟨60, 9 / 10, 1, 5⟩ : AdaptiveParams).valid = true)

/-- … hence never below a non-negative fallback (and between `fb·min` and `fb·max`). -/
theorem adaptive_ge_fallback (p : AdaptiveParams) (fb now : Rat) (ev : Events)
    (hv : p.valid = true) (hfb : 0 ≤ fb) :
    fb ≤ (adaptiveCall p fb now ev).1 ∧ fb * p.minM ≤ (adaptiveCall p fb now ev).1 ∧
      (adaptiveCall p fb now ev).1 ≤ fb * p.maxM := by
  obtain ⟨hlo, hhi⟩ := adaptive_multiplier_bounds p ev now hv
  have h1 : 1 ≤ p.minM := ((valid_iff p).mp hv).2.2.2.1
  show fb ≤ fb * adaptiveMultiplier p ev now ∧ fb * p.minM ≤ fb * adaptiveMultiplier p ev now ∧
    fb * adaptiveMultiplier p ev now ≤ fb * p.maxM
  refine ⟨?_, ?_, ?_⟩ <;> nlinarith

-- non-vacuity: the hypotheses hold at a concrete instance
example := adaptive_ge_fallback (⟨60, 9 / 10, 1, 5⟩ : AdaptiveParams) (3 / 2) 3 [(0, false), (1, false), (2, true)]
  ((valid_iff _).mpr (by norm_num) : (⟨60, 9 / 10, 1, 5⟩ : AdaptiveParams).valid = true) (by norm_num)

/-- Pruning only ever removes events (so the deque is always a sublist of what was recorded). -/
theorem record_sublist (p : AdaptiveParams) (now : Rat) (s : Bool) (ev : Events) :
    (record p now s ev).Sublist (ev ++ [(now, s)]) := prune_sublist _ _

/-! ## retry_after_or -/

/-- `retry_after_or` returns a (finite, by construction) non-negative delay that is no larger
than the remaining deadline when one is given — for **every** hint (absent, NaN, ±inf, negative,
…), **every** fallback return value (NaN, ±inf, negative, …), every `jitter_s` and every draw.
Non-negativity under a remaining deadline needs that deadline to be non-negative (the runner
only calls strategies with `remaining_s > 0`, `state.py::_handle_failure`). -/
theorem retry_after_or_bounds (jitterS : Rat) (hint : Option FVal) (fb : FVal)
    (remaining : Option Rat) (u : Rat) :
    (∀ r, remaining = some r → retryAfterOr jitterS hint fb remaining u ≤ r) ∧
    ((∀ r, remaining = some r → 0 ≤ r) → 0 ≤ retryAfterOr jitterS hint fb remaining u) := by
  unfold retryAfterOr
  constructor
  · intro r hr
    subst hr
    exact min_le_right _ _
  · intro hr
    cases remaining with
    | none => exact le_max_left _ _
    | some r => exact le_min (le_max_left _ _) (hr r rfl)

/-- Without the side condition the claim is false: a negative `remaining_s` is returned as is. -/
example : retryAfterOr (1 / 4) none (.fin 1) (some (-1)) 0 = -1 := by decide

/-- With a finite hint `h` the result is exactly `min(max(0,h) + jitter·u, remaining)`. -/
theorem hint_value (jitterS h : Rat) (fb : FVal) (u : Rat) (hu0 : 0 ≤ u) :
    (retryAfterOr jitterS (some (.fin h)) fb none u = max 0 h + jitterOf jitterS * u) ∧
    (∀ r, retryAfterOr jitterS (some (.fin h)) fb (some r) u =
      min (max 0 h + jitterOf jitterS * u) r) := by
  have hj : 0 ≤ jitterOf jitterS := le_max_left _ _
  have hs : 0 ≤ max 0 h := le_max_left _ _
  have key : max 0 (if jitterOf jitterS ≠ 0 then max 0 h + uniform 0 (jitterOf jitterS) u
      else max 0 h) = max 0 h + jitterOf jitterS * u := by
    split
    · have : 0 ≤ jitterOf jitterS * u := mul_nonneg hj hu0
      unfold uniform
      rw [max_eq_right (by linarith)]
      ring
    · next hz =>
      rw [not_not] at hz
      rw [hz, max_eq_right hs]
      ring
  constructor
  · simp only [retryAfterOr, finiteOrZero]
    exact key
  · intro r
    simp only [retryAfterOr, finiteOrZero]
    rw [key]

-- non-vacuity: the hypotheses hold at a concrete instance
example := hint_value (1 / 4) 2 .nan (1 / 2) (by norm_num)

/--
C20, last sentence.  For a finite hint `h` (a negative one counts as 0), a draw `u ∈ [0,1]` and
a remaining deadline `r`: the delay is `min(h⁺ + jitter·u, r)`; it never exceeds the hint plus
`jitter_s` nor `r`; it is at least the hinted time whenever the hinted time itself fits into the
remaining deadline (`h⁺ ≤ r`), and it is exactly the remaining deadline when it does not (`r ≤ h⁺`).
(In between, `h⁺ ≤ r < h⁺ + jitter`, the delay is `min(h⁺ + jitter·u, r) ∈ [h⁺, r]` — it need not
equal `r`.)
-/
theorem hint_honoured (jitterS h : Rat) (fb : FVal) (remaining : Option Rat) (u : Rat)
    (hu0 : 0 ≤ u) (hu1 : u ≤ 1) :
    let f := retryAfterOr jitterS (some (.fin h)) fb remaining u
    let hint := max 0 h
    let jitter := max 0 jitterS
    (remaining = none → hint ≤ f ∧ f ≤ hint + jitter) ∧
    (∀ r, remaining = some r →
      f = min (hint + jitter * u) r ∧
      (hint + jitter ≤ r → hint ≤ f ∧ f ≤ hint + jitter) ∧
      (min hint r ≤ f ∧ f ≤ min (hint + jitter) r) ∧
      (hint ≤ r → hint ≤ f) ∧ f ≤ hint + jitter ∧ f ≤ r ∧
      (r ≤ hint → f = r)) := by
  intro f hint jitter
  have hj : 0 ≤ jitter := le_max_left _ _
  have hju0 : 0 ≤ jitter * u := mul_nonneg hj hu0
  have hju1 : jitter * u ≤ jitter := by nlinarith
  have hv1 : retryAfterOr jitterS (some (.fin h)) fb none u = hint + jitter * u :=
    (hint_value jitterS h fb u hu0).1
  have hv2 : ∀ r, retryAfterOr jitterS (some (.fin h)) fb (some r) u = min (hint + jitter * u) r :=
    (hint_value jitterS h fb u hu0).2
  constructor
  · intro hr
    subst hr
    show hint ≤ retryAfterOr jitterS (some (.fin h)) fb none u ∧
      retryAfterOr jitterS (some (.fin h)) fb none u ≤ hint + jitter
    rw [hv1]
    exact ⟨by linarith, by linarith⟩
  · intro r hr
    subst hr
    have hf : f = min (hint + jitter * u) r := hv2 r
    refine ⟨hf, ?_, ?_, ?_, ?_, ?_, ?_⟩
    · intro hfit
      rw [hf, min_eq_left (by linarith)]
      constructor <;> linarith
    · rw [hf]
      exact ⟨min_le_min_right _ (by linarith), min_le_min_right _ (by linarith)⟩
    · intro hfit
      rw [hf]
      exact le_min (by linarith) hfit
    · rw [hf]
      exact le_trans (min_le_left _ _) (by linarith)
    · rw [hf]
      exact min_le_right _ _
    · intro hle
      rw [hf, min_eq_right (by linarith)]

-- non-vacuity: the hypotheses hold at a concrete instance
example := hint_honoured (1 / 4) 2 .nan (some 1) (1 / 2) (by norm_num) (by norm_num)

/-- An absent or non-finite hint defers to the fallback (sanitised). -/
theorem no_hint_defers (jitterS : Rat) (hint : Option FVal) (fb : FVal) (remaining : Option Rat)
    (u : Rat) (hh : ∀ h, hint ≠ some (.fin h)) :
    retryAfterOr jitterS hint fb remaining u =
      match remaining with
      | some r => min (max 0 (finiteOrZero fb)) r
      | none => max 0 (finiteOrZero fb) := by
  unfold retryAfterOr
  match hint, hh with
  | none, _ => rfl
  | some .nan, _ => rfl
  | some .posInf, _ => rfl
  | some .negInf, _ => rfl
  | some (.fin h), hh => exact absurd rfl (hh h)

-- non-vacuity: the hypotheses hold at a concrete instance
example := no_hint_defers (1 / 4) (some .posInf) (.fin 3) (some 2) 0 (by intro h; simp)

/-- The runner's own `sanitize` (non-finite ↦ 0, `max 0`, `min remaining`) changes nothing on a
value produced by `retry_after_or` for the same non-negative remaining deadline. -/
theorem sanitize_idempotent_on_retry_after_or (jitterS : Rat) (hint : Option FVal) (fb : FVal)
    (r u : Rat) (hr : 0 ≤ r) :
    sanitize (.fin (retryAfterOr jitterS hint fb (some r) u)) r =
      retryAfterOr jitterS hint fb (some r) u := by
  obtain ⟨h1, h2⟩ := retry_after_or_bounds jitterS hint fb (some r) u
  have hle := h1 r rfl
  have h0 := h2 (by intro r' h; cases h; exact hr)
  simp only [sanitize, finiteOrZero]
  rw [max_eq_right h0, min_eq_left hle]

-- non-vacuity: the hypotheses hold at a concrete instance
example := sanitize_idempotent_on_retry_after_or (1 / 4) (some (.fin 2)) .nan 1 (1 / 2) (by norm_num)

/-- … and when `retry_after_or` was not told the deadline, the runner's `sanitize` imposes it. -/
theorem sanitize_after_retry_after_or_none (jitterS : Rat) (hint : Option FVal) (fb : FVal)
    (r u : Rat) :
    sanitize (.fin (retryAfterOr jitterS hint fb none u)) r =
      retryAfterOr jitterS hint fb (some r) u := by
  have h0 : 0 ≤ retryAfterOr jitterS hint fb none u :=
    (retry_after_or_bounds jitterS hint fb none u).2 (by intro r h; cases h)
  simp only [sanitize, finiteOrZero]
  rw [max_eq_right h0]
  rfl

/-- So the delay the sleeper sees honours the hint (C20 ∘ C05): runner-side `sanitize` of the
strategy's value equals `min(h⁺ + jitter·u, r)`. -/
theorem hint_honoured_after_sanitize (jitterS h : Rat) (fb : FVal) (r u : Rat)
    (hr : 0 ≤ r) (hu0 : 0 ≤ u) :
    sanitize (.fin (retryAfterOr jitterS (some (.fin h)) fb (some r) u)) r =
      min (max 0 h + max 0 jitterS * u) r := by
  rw [sanitize_idempotent_on_retry_after_or _ _ _ _ _ hr]
  exact (hint_value jitterS h fb u hu0).2 r

-- non-vacuity: the hypotheses hold at a concrete instance
example := hint_honoured_after_sanitize (1 / 4) 2 .nan 1 (1 / 2) (by norm_num) (by norm_num)

/-! ## the executable envelope predicates (what the driver evaluates on the implementation's
return values) accept every value of the model, for every non-negative tolerance -/

theorem within_of_mem (lo hi rel eps v : Rat) (hrel : 0 ≤ rel) (heps : 0 ≤ eps)
    (h1 : lo ≤ v) (h2 : v ≤ hi) : within lo hi rel eps v = true := by
  have habs : ∀ q : Rat, 0 ≤ absQ q := by
    intro q; unfold absQ; split <;> linarith
  have a := mul_nonneg hrel (habs lo)
  have b := mul_nonneg hrel (habs hi)
  simp only [within, Bool.and_eq_true, decide_eq_true_eq]
  constructor <;> linarith

-- non-vacuity: the hypotheses hold at a concrete instance
example := within_of_mem 1 2 (1 / 1024) 0 (3 / 2) (by norm_num) (by norm_num) (by norm_num) (by norm_num)

/-- With zero tolerance `within` *is* membership in `[lo, hi]`. -/
theorem within_zero_iff (lo hi v : Rat) : within lo hi 0 0 v = true ↔ lo ≤ v ∧ v ≤ hi := by
  simp [within]

theorem decorrelatedEnv_model (base mx : Rat) (prev : Option Rat) (u rel eps : Rat)
    (hb : 0 ≤ base) (hm : base ≤ mx) (hp : ∀ p, prev = some p → 0 ≤ p)
    (hu0 : 0 ≤ u) (hu1 : u ≤ 1) (hrel : 0 ≤ rel) (heps : 0 ≤ eps) :
    decorrelatedEnv mx rel eps (.fin (decorrelatedJitter base mx prev u)) = true := by
  obtain ⟨h1, h2, _, _⟩ := decorrelated_in_range base mx prev u hb hm hp hu0 hu1
  exact within_of_mem _ _ _ _ _ hrel heps h1 h2

-- non-vacuity: the hypotheses hold at a concrete instance
example := decorrelatedEnv_model (1 / 4) 30 none (1 / 2) (1 / 1024) 0 (by norm_num) (by norm_num) (by simp) (by norm_num) (by norm_num)
  (by norm_num) (by norm_num)

theorem capEnv_model (base mx : Rat) (attempt : Nat) (u rel eps : Rat)
    (hb : 0 ≤ base) (hm : base ≤ mx) (hu0 : 0 ≤ u) (hu1 : u ≤ 1) (hrel : 0 ≤ rel) (heps : 0 ≤ eps) :
    capEnv (cap base mx 2 attempt) rel eps (.fin (equalJitter base mx attempt u)) = true ∧
    capEnv (cap base mx (3 / 2) attempt) rel eps (.fin (tokenBackoff base mx attempt u)) = true := by
  obtain ⟨e1, e2⟩ := equal_jitter_envelope base mx attempt u hb hm hu0 hu1
  obtain ⟨t1, t2⟩ := token_backoff_envelope base mx attempt u hb hm hu0 hu1
  rw [cap_eq_capSpec base mx 2 attempt hb (by norm_num),
    cap_eq_capSpec base mx (3 / 2) attempt hb (by norm_num)]
  exact ⟨within_of_mem _ _ _ _ _ hrel heps e1 e2, within_of_mem _ _ _ _ _ hrel heps t1 t2⟩

-- non-vacuity: the hypotheses hold at a concrete instance
example := capEnv_model (1 / 4) 30 7 (1 / 2) (1 / 1024) 0 (by norm_num) (by norm_num) (by norm_num) (by norm_num) (by norm_num) (by norm_num)

theorem adaptiveEnv_model (p : AdaptiveParams) (fb now : Rat) (ev : Events) (rel eps : Rat)
    (hv : p.valid = true) (hfb : 0 ≤ fb) (hrel : 0 ≤ rel) (heps : 0 ≤ eps) :
    multiplierEnv p.minM p.maxM rel (.fin (adaptiveMultiplier p ev now)) = true ∧
    adaptiveEnv fb p.minM p.maxM rel eps (.fin (adaptiveCall p fb now ev).1) = true := by
  obtain ⟨m1, m2⟩ := adaptive_multiplier_bounds p ev now hv
  obtain ⟨a1, a2, a3⟩ := adaptive_ge_fallback p fb now ev hv hfb
  exact ⟨within_of_mem _ _ _ _ _ hrel (le_refl _) m1 m2,
    within_of_mem _ _ _ _ _ hrel heps (max_le a1 a2) a3⟩

-- non-vacuity: the hypotheses hold at a concrete instance
example := adaptiveEnv_model (⟨60, 9 / 10, 1, 5⟩ : AdaptiveParams) (3 / 2) 3 [(0, false), (1, false), (2, true)] (1 / 1024) 0
  ((valid_iff _).mpr (by norm_num) : (⟨60, 9 / 10, 1, 5⟩ : AdaptiveParams).valid = true) (by norm_num) (by norm_num) (by norm_num)

theorem retryAfterOrEnv_model (jitterS : Rat) (hint : Option FVal) (fb : FVal)
    (remaining : Option Rat) (u : Rat) (hr : ∀ r, remaining = some r → 0 ≤ r) :
    retryAfterOrEnv remaining (.fin (retryAfterOr jitterS hint fb remaining u)) = true := by
  obtain ⟨h1, h2⟩ := retry_after_or_bounds jitterS hint fb remaining u
  cases remaining with
  | none => simpa [retryAfterOrEnv] using h2 hr
  | some r => simpa [retryAfterOrEnv] using And.intro (h2 hr) (h1 r rfl)

-- non-vacuity: the hypotheses hold at a concrete instance
example := retryAfterOrEnv_model (1 / 4) (some .nan) .negInf (some 2) 1
  (by intro r h; cases h; norm_num)

theorem hintEnv_model (jitterS h : Rat) (fb : FVal) (remaining : Option Rat) (u rel eps : Rat)
    (hu0 : 0 ≤ u) (hu1 : u ≤ 1) (hrel : 0 ≤ rel) (heps : 0 ≤ eps) :
    hintEnv jitterS h remaining rel eps
      (.fin (retryAfterOr jitterS (some (.fin h)) fb remaining u)) = true := by
  obtain ⟨hn, hs⟩ := hint_honoured jitterS h fb remaining u hu0 hu1
  cases remaining with
  | none =>
    obtain ⟨a, b⟩ := hn rfl
    exact within_of_mem _ _ _ _ _ hrel heps a b
  | some r =>
    obtain ⟨_, _, ⟨a, b⟩, _⟩ := hs r rfl
    exact within_of_mem _ _ _ _ _ hrel heps a b

-- non-vacuity: the hypotheses hold at a concrete instance
example := hintEnv_model (1 / 4) 2 .nan (some 1) (1 / 2) (1 / 1024) 0 (by norm_num) (by norm_num) (by norm_num) (by norm_num)

/-! ## tie to the loop model -/

/-- A µs-grid strategy output of the loop model (`Redress.SOut`), read as a float. -/
def ofSOut : Redress.SOut → FVal
  | .nan => .nan | .posInf => .posInf | .negInf => .negInf
  | .fin us => .fin (us : Rat)

/-- The `sanitize` used in the theorems above is the one of the retry-loop model
(`Redress.Retry.sanitize`, on the integer µs grid) read over the rationals. -/
theorem sanitize_agrees_with_runner_model (s : Redress.SOut) (remaining : Nat) :
    ((Redress.Retry.sanitize s remaining : Nat) : Rat) = sanitize (ofSOut s) (remaining : Rat) := by
  have hr : (0 : Rat) ≤ remaining := Nat.cast_nonneg _
  cases s with
  | nan => simp [Redress.Retry.sanitize, sanitize, ofSOut, finiteOrZero, hr]
  | posInf => simp [Redress.Retry.sanitize, sanitize, ofSOut, finiteOrZero, hr]
  | negInf => simp [Redress.Retry.sanitize, sanitize, ofSOut, finiteOrZero, hr]
  | fin us =>
    simp only [Redress.Retry.sanitize, sanitize, ofSOut, finiteOrZero]
    split
    · next h =>
      have : (us : Rat) ≤ 0 := by exact_mod_cast h
      rw [max_eq_left this, min_eq_left hr]; simp
    · next h =>
      have h' : 0 ≤ us := by omega
      have : (0 : Rat) ≤ us := by exact_mod_cast h'
      rw [max_eq_right this, Nat.cast_min]
      congr 1
      exact_mod_cast congrArg (fun z : Int => (z : Rat)) (Int.toNat_of_nonneg h')

end Redress.Strategies
