/-
  C09 (at-most-once half, for EVERY run) — no breaker record before / without admission, and an
  admitted call makes exactly one … with ONE exception, found while proving it.

  The monitor asked for, `Mon.C09.once` ("in every run, environment guard or not: no record before /
  without admission, an admitted call makes exactly one"), is FALSE in the model (`once_refuted`
  below, and C09ONCE_REPORT.md): in `Policy.call` / `AsyncPolicy.call` the `record_success(ctx)` sits
  INSIDE the `try` whose `except (KeyboardInterrupt, SystemExit)` arm (and, async, the
  `except asyncio.CancelledError` arm) calls `record_cancel(ctx)` unconditionally.  When the metric /
  log hook answers the `circuit_closed` event of that `record_success` by raising one of those kinds
  (`_emit_breaker_event` only swallows `Exception`), the call records success AND cancel.

  What is proven instead, for every configuration, entry point and world, with NO environment guard:

  * `once_exact_hold` — `Mon.C09.onceExact`: no record before / without admission; an admitted call
    makes exactly one record, EXCEPT that it makes exactly the two records
    `[record_success, record_cancel]` precisely when `Mon.C09.successEventFault` is true of its log
    (so the guard is tight: it excludes that situation and nothing else);
  * `once_hold` — `Mon.C09.onceGuarded`: `once` under the guard `!successEventFault` only.

  The argument parallels Props/C09.lean with the `OF` ("unless the run left the stated environment")
  wrapper removed: only the admission, the records, `preRecords` and the context flags are looked at,
  and these survive every exchange of the retry loop and of the hooks (`Ext loopK`), raising or not.
-/
import Redress.Props.C09
import Redress.MonitorsNR

open Std.Do

set_option mvcgen.warning false

-- (the monitors `Mon.C09.once`, `successEventFault`, `onceGuarded`, `onceExact` are defined in Redress/MonitorsNR.lean)


namespace Redress.Props.C09Once
open Redress Redress.Retry Redress.Policy Redress.Mon Redress.Mon.C09
open Redress.Props.C08 (cur cur_cons run_reverse decision startWorld)

/-! ### the refutation of `Mon.C09.once` -/

/-- retry-less policy with a breaker and a metric hook -/
def cexCfg : Cfg := { hasRetry := false, breaker := some Breaker.exCfg, metric := true }

/-- HALF_OPEN breaker with a free probe slot; the operation returns 7; the metric hook then raises
    KeyboardInterrupt (on the `circuit_closed` event of the `record_success`) -/
def cexWorld : World :=
  { answers := [.value 7 0, .raise .keyboardInterrupt 0], breaker := { state := .halfOpen, probe := false } }

/-- `Mon.C09.once` is NOT true of every run: this `Policy.call` records success and then cancel. -/
theorem once_refuted :
    (Mon.C09.run (runEntry cexCfg .pcall cexWorld).2.trace.reverse).records
      = [.breakerSuccess, .breakerCancel] ∧
    Mon.C09.once cexCfg .pcall (runEntry cexCfg .pcall cexWorld).2.trace.reverse
      (runEntry cexCfg .pcall cexWorld).1 = false := by
  decide


/-! ### the two folds, newest first -/

/-- `successEventFault`'s state as a function of the world's (newest-first) log -/
def dcur (cfg : Cfg) (tr : List (Req × Ans)) : DSt := tr.foldr (fun x s => dstep cfg s x) {}

@[simp] theorem dcur_cons (cfg : Cfg) (x : Req × Ans) (t : List (Req × Ans)) :
    dcur cfg (x :: t) = dstep cfg (dcur cfg t) x := rfl

theorem dfold_reverse (cfg : Cfg) (t : List (Req × Ans)) :
    t.reverse.foldl (dstep cfg) {} = dcur cfg t := by
  simp [dcur, List.foldl_reverse]

/-- an `Exception` is none of the kinds of `cancelArm` -/
theorem cancelArm_exception (cfg : Cfg) {e : Exn} (h : e.isException = true) : cancelArm cfg e = false := by
  cases e <;> simp_all [cancelArm, Exn.isException, Exn.isKiSe]

/-- requests of the retry loop and of the hooks do not make a `record_success`; and before one has
    been made they cannot set `bad` -/
theorem dstep_loop (cfg : Cfg) (s : DSt) (x : Req × Ans) (h : loopK x.1.kind = true) :
    (dstep cfg s x).seen = s.seen ∧ (s.seen = false → (dstep cfg s x).bad = s.bad) := by
  obtain ⟨r, a⟩ := x
  cases r <;> cases a <;> simp_all [loopK, Req.kind, dstep]

theorem dcur_append_loop (cfg : Cfg) (δ t : List (Req × Ans)) (h : ∀ x ∈ δ, loopK x.1.kind = true) :
    (dcur cfg (δ ++ t)).seen = (dcur cfg t).seen ∧
    ((dcur cfg t).seen = false → (dcur cfg (δ ++ t)).bad = (dcur cfg t).bad) := by
  induction δ with
  | nil => simp
  | cons x δ ih =>
    have hx := dstep_loop cfg (dcur cfg (δ ++ t)) x (h x (by simp))
    have := ih (fun y hy => h y (by simp [hy]))
    simp only [List.cons_append, dcur_cons]
    refine ⟨hx.1.trans this.1, fun hs => ?_⟩
    rw [hx.2 (this.1.trans hs)]
    exact this.2 hs

/-! ### states of an admitted call

`d` says whether the argument also tracks `successEventFault`'s fold (`call()`: `d = true`) or not
(`execute()`, where a hook raising after the `record_success` does no harm: `d = false`). -/

/-- no `record_success` so far (hence `bad` not set) -/
def Fresh (cfg : Cfg) (d : Bool) (w : World) : Prop :=
  d = true → (dcur cfg w.trace).seen = false ∧ (dcur cfg w.trace).bad = false

/-- admitted, nothing recorded yet -/
structure Open (cfg : Cfg) (d : Bool) (w : World) : Prop where
  adm : (cur w.trace).admitted = some true
  pre : (cur w.trace).preRecords = 0
  recs : (cur w.trace).records = []
  xadm : w.xc.admitted = true
  xset : w.xc.settled = false
  fresh : Fresh cfg d w

/-- admitted, exactly one record made (if `d`: not a `record_success`) -/
structure Closed (cfg : Cfg) (d : Bool) (w : World) : Prop where
  adm : (cur w.trace).admitted = some true
  pre : (cur w.trace).preRecords = 0
  recs : (cur w.trace).records.length = 1
  xadm : w.xc.admitted = true
  xset : w.xc.settled = true
  fresh : Fresh cfg d w

/-- admitted, exactly the `record_success` made; `b`: did a hook raise a `cancelArm` kind since -/
structure ClosedS (cfg : Cfg) (b : Bool) (w : World) : Prop where
  adm : (cur w.trace).admitted = some true
  pre : (cur w.trace).preRecords = 0
  recs : (cur w.trace).records = [.breakerSuccess]
  xadm : w.xc.admitted = true
  xset : w.xc.settled = true
  seen : (dcur cfg w.trace).seen = true
  bad : (dcur cfg w.trace).bad = b

/-- the double record: success, then cancel, `successEventFault`'s fold saying so -/
structure Two (cfg : Cfg) (w : World) : Prop where
  adm : (cur w.trace).admitted = some true
  pre : (cur w.trace).preRecords = 0
  recs : (cur w.trace).records = [.breakerSuccess, .breakerCancel]
  xadm : w.xc.admitted = true
  xset : w.xc.settled = true
  bad : (dcur cfg w.trace).bad = true

/-- a predicate on worlds that survives every exchange of the retry loop and of the hooks -/
def Stable (I : World → Prop) : Prop := ∀ w w', Ext loopK w w' → I w → I w'

theorem Fresh.ext {cfg : Cfg} {d : Bool} {w w' : World} (h : Ext loopK w w') (hf : Fresh cfg d w) :
    Fresh cfg d w' := by
  intro hd
  obtain ⟨δ, e, k⟩ := h.trace
  obtain ⟨h1, h2⟩ := hf hd
  have := dcur_append_loop cfg δ w.trace k
  rw [e, this.1, this.2 h1]
  exact ⟨h1, h2⟩

theorem Open.stable (cfg : Cfg) (d : Bool) : Stable (Open cfg d) := by
  intro w w' h ho
  obtain ⟨δ, e, k⟩ := h.trace
  have hc := C08.cur_append_loop δ w.trace k
  refine ⟨?_, ?_, ?_, ?_, ?_, Fresh.ext h ho.fresh⟩
  · rw [e, hc.1]; exact ho.adm
  · rw [e, hc.2.2.2]; exact ho.pre
  · rw [e, hc.2.2.1]; exact ho.recs
  · rw [h.xc]; exact ho.xadm
  · rw [h.xc]; exact ho.xset

theorem Closed.stable (cfg : Cfg) (d : Bool) : Stable (Closed cfg d) := by
  intro w w' h ho
  obtain ⟨δ, e, k⟩ := h.trace
  have hc := C08.cur_append_loop δ w.trace k
  refine ⟨?_, ?_, ?_, ?_, ?_, Fresh.ext h ho.fresh⟩
  · rw [e, hc.1]; exact ho.adm
  · rw [e, hc.2.2.2]; exact ho.pre
  · rw [e, hc.2.2.1]; exact ho.recs
  · rw [h.xc]; exact ho.xadm
  · rw [h.xc]; exact ho.xset

/-- a `record_*` other than the `record_success` of `call()` -/
theorem Open.record {cfg : Cfg} {d : Bool} {w : World} (h : Open cfg d w) (r : Req) (ans : Ans)
    (st : Breaker.St) (hr : isRecord r = true) (hns : d = true → r ≠ .breakerSuccess) :
    Closed cfg d { w with breaker := st, xc := { w.xc with settled := true }, trace := (r, ans) :: w.trace } := by
  refine ⟨?_, ?_, ?_, h.xadm, rfl, ?_⟩
  · simp only [cur_cons, C09.step_admitted_record _ h.adm r ans hr]; exact h.adm
  · simp only [cur_cons, C09.step_admitted_record _ h.adm r ans hr]; exact h.pre
  · simp only [cur_cons, C09.step_admitted_record _ h.adm r ans hr, h.recs]; rfl
  · intro hd
    have := h.fresh hd
    have hne := hns hd
    simp only [dcur_cons]
    cases r <;> simp_all [dstep, isRecord]

/-- the `record_success` of `call()` -/
theorem Open.recordS {cfg : Cfg} {w : World} (h : Open cfg true w) (ans : Ans) (st : Breaker.St) :
    ClosedS cfg false
      { w with breaker := st, xc := { w.xc with settled := true },
               trace := (.breakerSuccess, ans) :: w.trace } := by
  have hf := h.fresh rfl
  refine ⟨?_, ?_, ?_, h.xadm, rfl, ?_, ?_⟩
  · simp only [cur_cons, C09.step_admitted_record _ h.adm .breakerSuccess ans rfl]; exact h.adm
  · simp only [cur_cons, C09.step_admitted_record _ h.adm .breakerSuccess ans rfl]; exact h.pre
  · simp only [cur_cons, C09.step_admitted_record _ h.adm .breakerSuccess ans rfl, h.recs]; rfl
  · simp [dstep]
  · simp [dstep, hf.2]

/-- …and the `record_cancel` that `call()`'s `except` arm adds to it -/
theorem ClosedS.cancel {cfg : Cfg} {w : World} (h : ClosedS cfg true w) (ans : Ans) (st : Breaker.St) :
    Two cfg
      { w with breaker := st, xc := { w.xc with settled := true },
               trace := (.breakerCancel, ans) :: w.trace } := by
  refine ⟨?_, ?_, ?_, h.xadm, rfl, ?_⟩
  · simp only [cur_cons, C09.step_admitted_record _ h.adm .breakerCancel ans rfl]; exact h.adm
  · simp only [cur_cons, C09.step_admitted_record _ h.adm .breakerCancel ans rfl]; exact h.pre
  · simp only [cur_cons, C09.step_admitted_record _ h.adm .breakerCancel ans rfl, h.recs]; rfl
  · simp [dstep, h.bad]

/-- does this answer of a hook raise a `cancelArm` kind -/
def hookBad (cfg : Cfg) : Ans → Bool
  | .raise e _ => cancelArm cfg e
  | _ => false

theorem hookBad_not_raise (cfg : Cfg) {a : Ans} (h : ∀ e d, a = Ans.raise e d → False) :
    hookBad cfg a = false := by
  cases a <;> first | rfl | exact absurd rfl (fun hh => h _ _ hh)

/-- one exchange with the metric / log hook after the `record_success` -/
theorem ClosedS.hook {cfg : Cfg} {s : World} (r : Req) (hk : r.kind = .metric ∨ r.kind = .log) (a : Ans)
    (s' : World) (ht : s'.trace = (r, a) :: s.trace) (hx : s'.xc = s.xc) (h : ClosedS cfg false s) :
    ClosedS cfg (hookBad cfg a) s' := by
  have hq : C09.quietK (r, a).1.kind = true := by rcases hk with hk | hk <;> simp [hk, C09.quietK]
  have hs := C09.step_quiet (cur s.trace) (r, a) hq
  refine ⟨?_, ?_, ?_, ?_, ?_, ?_, ?_⟩
  · rw [ht, cur_cons, hs.1]; exact h.adm
  · rw [ht, cur_cons, hs.2.2.1]; exact h.pre
  · rw [ht, cur_cons, hs.2.1]; exact h.recs
  · rw [hx]; exact h.xadm
  · rw [hx]; exact h.xset
  · rw [ht, dcur_cons]
    have := h.seen
    cases r <;> cases a <;> simp_all [dstep, Req.kind]
  · rw [ht, dcur_cons]
    have h1 := h.seen
    have h2 := h.bad
    cases r <;> cases a <;> simp_all [dstep, Req.kind, hookBad]

/-- `ClosedS` looks at the log and the execution context only -/
theorem ClosedS.congr {cfg : Cfg} {b : Bool} {w w' : World} (ht : w'.trace = w.trace) (hx : w'.xc = w.xc)
    (h : ClosedS cfg b w) : ClosedS cfg b w' :=
  ⟨ht ▸ h.adm, ht ▸ h.pre, ht ▸ h.recs, hx ▸ h.xadm, hx ▸ h.xset, ht ▸ h.seen, ht ▸ h.bad⟩

theorem ClosedS.ask {cfg : Cfg} {s : World} (h : ClosedS cfg false s) (r : Req)
    (hk : r.kind = .metric ∨ r.kind = .log) (a : Ans) (rest : List Ans) (n : Nat) :
    ClosedS cfg (hookBad cfg a) { s with answers := rest, now := n, trace := (r, a) :: s.trace } :=
  ClosedS.hook r hk a _ rfl rfl h

/-- what `ensure_settled` may find at the end of an admitted call -/
def Good (cfg : Cfg) (d : Bool) (w : World) : Prop :=
  Open cfg d w ∨ Closed cfg d w ∨ (d = true ∧ (ClosedS cfg false w ∨ Two cfg w))

/-- the verdict for an admitted call -/
def Final (cfg : Cfg) (d : Bool) (w : World) : Prop :=
  (cur w.trace).admitted = some true ∧ (cur w.trace).preRecords = 0 ∧
  (if d && (dcur cfg w.trace).bad then (cur w.trace).records = [.breakerSuccess, .breakerCancel]
   else (cur w.trace).records.length = 1)

theorem Closed.final {cfg : Cfg} {d : Bool} {w : World} (h : Closed cfg d w) : Final cfg d w := by
  refine ⟨h.adm, h.pre, ?_⟩
  cases d with
  | false => simpa using h.recs
  | true => simpa [(h.fresh rfl).2] using h.recs

theorem Good.settle {cfg : Cfg} {d : Bool} {s : World} (ans : Ans) (st : Breaker.St)
    (h : Good cfg d s) (hc : (s.xc.admitted && !s.xc.settled) = true) :
    Final cfg d
      { s with breaker := st, xc := { s.xc with settled := true },
               trace := (.breakerCancel, ans) :: s.trace } := by
  rcases h with h | h | ⟨_, h | h⟩
  · exact (h.record .breakerCancel ans st rfl (fun _ => by simp)).final
  · have := h.xset; simp_all
  · have := h.xset; simp_all
  · have := h.xset; simp_all

theorem Good.settled {cfg : Cfg} {d : Bool} {s : World}
    (h : Good cfg d s) (hc : ¬ (s.xc.admitted && !s.xc.settled) = true) : Final cfg d s := by
  rcases h with h | h | ⟨rfl, h | h⟩
  · have h1 := h.xadm; have h2 := h.xset; simp_all
  · exact h.final
  · exact ⟨h.adm, h.pre, by simp [h.bad, h.recs]⟩
  · exact ⟨h.adm, h.pre, by simp [h.bad, h.recs]⟩


/-! ### leaves: everything that is neither the breaker nor the execution context -/

abbrev keepPost (I : World → Prop) : PostCond α (.except Exn (.arg World .pure)) :=
  post⟨fun _ w => ⌜I w⌝, fun _ w => ⌜I w⌝⟩

section leaves
variable {I : World → Prop} (hI : Stable I) (cfg : Cfg)
include hI

theorem emitBreakerEvent_s (ev : Option Event) (st : CState) (k : Option EClass) :
    ⦃fun w => ⌜I w⌝⦄ emitBreakerEvent cfg ev st k ⦃keepPost I⦄ :=
  inv_of_ext I (fun w0 => emitBreakerEvent_ext loopK w0 rfl rfl cfg ev st k) hI

theorem noRetryStartHook_s : ⦃fun w => ⌜I w⌝⦄ noRetryStartHook cfg ⦃keepPost I⦄ :=
  inv_of_ext I (fun w0 => noRetryStartHook_ext loopK w0 rfl cfg) hI

theorem noRetryEndHook_s (exc : Option Exn) (r : Option Nat) (d : AttemptDecision)
    (stop : Option StopReason) (cause : Option Cause) :
    ⦃fun w => ⌜I w⌝⦄ noRetryEndHook cfg exc r d stop cause ⦃keepPost I⦄ :=
  inv_of_ext I (fun w0 => noRetryEndHook_ext loopK w0 rfl cfg exc r d stop cause) hI

theorem policyOutcome_s (ok : Bool) (value : Option Nat) (stop : Option StopReason) (attempts : Nat)
    (lc : Option EClass) (le : Option String) (cause : Option Cause) :
    ⦃fun w => ⌜I w⌝⦄ policyOutcome ok value stop attempts lc le cause ⦃keepPost I⦄ :=
  inv_of_ext I (fun w0 => policyOutcome_ext loopK w0 ok value stop attempts lc le cause) hI

theorem classifyForBreaker_s (e : Exn) : ⦃fun w => ⌜I w⌝⦄ classifyForBreaker cfg e ⦃keepPost I⦄ :=
  inv_of_ext I (fun w0 => classifyForBreaker_ext loopK w0 rfl cfg e) hI

theorem abortIf_s : ⦃fun w => ⌜I w⌝⦄ ask .abortIf ⦃keepPost I⦄ :=
  inv_of_ext I (fun w0 => abortIf_ext loopK w0 rfl) hI

theorem invokeOp_s (n : Nat) : ⦃fun w => ⌜I w⌝⦄ invokeOp n ⦃keepPost I⦄ :=
  inv_of_ext I (fun w0 => invokeOp_ext w0 n) hI

theorem runCall_s : ⦃fun w => ⌜I w⌝⦄ runCall cfg ⦃keepPost I⦄ :=
  inv_of_ext I (fun w0 => runCall_ext w0 cfg) hI

theorem runExecute_s : ⦃fun w => ⌜I w⌝⦄ runExecute cfg ⦃keepPost I⦄ :=
  inv_of_ext I (fun w0 => runExecute_ext w0 cfg) hI

end leaves

/-! ### the event of `call()`'s `record_success` -/

/-- one exchange with the metric / log hook after the `record_success` -/
theorem ask_closedS (cfg : Cfg) (r : Req) (hk : r.kind = .metric ∨ r.kind = .log) :
    ⦃fun w => ⌜ClosedS cfg false w⌝⦄ ask r
    ⦃post⟨fun _ w => ⌜ClosedS cfg false w⌝, fun e w => ⌜ClosedS cfg (cancelArm cfg e) w⌝⟩⦄ := by
  mvcgen [ask]
  all_goals (try subst_vars) <;> (try intros)
  · rename_i s h _
    have := h.ask r hk (.raise .stuck 0) s.answers s.now
    simpa [hookBad] using this
  · rename_i s h rest e dur _
    have := h.ask r hk (.raise e dur) rest (s.now + (Ans.raise e dur).dur)
    simpa [hookBad] using this
  · rename_i s h rest a hna _
    have := h.ask r hk a rest (s.now + a.dur)
    rwa [hookBad_not_raise cfg hna] at this


theorem askHook_closedS (cfg : Cfg) (r : Req) (hk : r.kind = .metric ∨ r.kind = .log) :
    ⦃fun w => ⌜ClosedS cfg false w⌝⦄ askHook r
    ⦃post⟨fun _ w => ⌜ClosedS cfg false w⌝, fun e w => ⌜ClosedS cfg (cancelArm cfg e) w⌝⟩⦄ :=
  askHook_triple r (ask_closedS cfg r hk) (fun w h => presil_cases (ClosedS cfg false) w (fun _ => ClosedS.congr (w := w) rfl rfl h))

/-- `_emit_breaker_event` after `call()`'s `record_success`: only a BaseException-only kind raised by
    the hook gets out, and the fold has noted whether it is one `call()` answers with a cancel -/
theorem emitBreakerEvent_closedS (cfg : Cfg) (ev : Option Event) (st : CState) (k : Option EClass) :
    ⦃fun w => ⌜ClosedS cfg false w⌝⦄ emitBreakerEvent cfg ev st k
    ⦃post⟨fun _ w => ⌜ClosedS cfg false w⌝,
          fun e w => ⌜ClosedS cfg (cancelArm cfg e) w ∧ e.isException = false⌝⟩⦄ := by
  have h := fun r hk => askHook_closedS cfg r hk
  mvcgen [emitBreakerEvent, swallowException, askMetric, askLog, h]
  all_goals (try subst_vars) <;> (try intros)
  all_goals first
    | assumption
    | (simp [Req.kind]; done)
    | (simp_all [cancelArm_exception]; done)
    | skip


/-! ### `record_*`, `ensure_settled` -/

section records
variable (cfg : Cfg) (bc : Breaker.Cfg) (hb : cfg.breaker = some bc) (d : Bool)
include hb

theorem recordCancel_x :
    ⦃fun w => ⌜Open cfg d w⌝⦄ Policy.recordCancel cfg
    ⦃post⟨fun _ w => ⌜Closed cfg d w⌝, fun _ _ => ⌜False⌝⟩⦄ := by
  unfold Policy.recordCancel
  simp only [hb]
  mvcgen
  all_goals (try subst_vars) <;> (try intros)
  exact Open.record (by assumption) _ _ _ rfl (fun _ => by simp)

theorem recordFailure_x (k : EClass) :
    ⦃fun w => ⌜Open cfg d w⌝⦄ Policy.recordFailure cfg k ⦃keepPost (Closed cfg d)⦄ := by
  have he := emitBreakerEvent_s (Closed.stable cfg d) cfg
  unfold Policy.recordFailure
  simp only [hb]
  mvcgen [he]
  all_goals (try subst_vars) <;> (try intros)
  exact Open.record (by assumption) _ _ _ rfl (fun _ => by simp)

/-- `record_success` in `execute()`: whatever the hook then does, one record -/
theorem recordSuccess_x0 :
    ⦃fun w => ⌜Open cfg false w⌝⦄ Policy.recordSuccess cfg ⦃keepPost (Closed cfg false)⦄ := by
  have he := emitBreakerEvent_s (Closed.stable cfg false) cfg
  unfold Policy.recordSuccess
  simp only [hb]
  mvcgen [he]
  all_goals (try subst_vars) <;> (try intros)
  exact Open.record (by assumption) _ _ _ rfl (fun h => by simp at h)

/-- `record_success` in `call()` -/
theorem recordSuccess_x1 :
    ⦃fun w => ⌜Open cfg true w⌝⦄ Policy.recordSuccess cfg
    ⦃post⟨fun _ w => ⌜ClosedS cfg false w⌝,
          fun e w => ⌜ClosedS cfg (cancelArm cfg e) w ∧ e.isException = false⌝⟩⦄ := by
  have he := emitBreakerEvent_closedS cfg
  unfold Policy.recordSuccess
  simp only [hb]
  mvcgen [he]
  all_goals (try subst_vars) <;> (try intros)
  exact Open.recordS (by assumption) _ _

/-- the `record_cancel` of `call()`'s `except` arm, after the `record_success` -/
theorem recordCancel_two :
    ⦃fun w => ⌜ClosedS cfg true w⌝⦄ Policy.recordCancel cfg
    ⦃post⟨fun _ w => ⌜Two cfg w⌝, fun _ _ => ⌜False⌝⟩⦄ := by
  unfold Policy.recordCancel
  simp only [hb]
  mvcgen
  all_goals (try subst_vars) <;> (try intros)
  exact ClosedS.cancel (by assumption) _ _

/-- `ensure_settled`: an admitted call that made no record gets its cancel now -/
theorem ensureSettled_x :
    ⦃fun w => ⌜Good cfg d w⌝⦄ ensureSettled cfg
    ⦃post⟨fun _ w => ⌜Final cfg d w⌝, fun _ _ => ⌜False⌝⟩⦄ := by
  unfold ensureSettled Policy.recordCancel
  simp only [hb]
  mvcgen
  all_goals (try subst_vars) <;> (try intros)
  · exact Good.settle _ _ (by assumption) (by assumption)
  · exact Good.settled (by assumption) (by assumption)

end records


/-! ### the policy wrappers, from an admitted, unrecorded call -/

/-- at most one record so far (none of them `call()`'s `record_success`) -/
def Settling (cfg : Cfg) (d : Bool) (w : World) : Prop := Open cfg d w ∨ Closed cfg d w

theorem Settling.good {cfg : Cfg} {d : Bool} {w : World} (h : Settling cfg d w) : Good cfg d w := by
  rcases h with h | h
  · exact Or.inl h
  · exact Or.inr (Or.inl h)

macro "x_close" : tactic => `(tactic| all_goals (
  (try subst_vars) <;> (try intros) <;>
  first
    | assumption
    | (simp_all +zetaDelta [Settling]; done)
    | (apply Settling.good; simp_all +zetaDelta [Settling]; done)
    | skip))

section wrappers
variable (cfg : Cfg) (bc : Breaker.Cfg) (hb : cfg.breaker = some bc) (d : Bool)
include hb

/-- `check_abort_no_retry` (after admission) -/
theorem checkAbortNoRetry_x : ⦃fun w => ⌜Open cfg d w⌝⦄ checkAbortNoRetry cfg
    ⦃post⟨fun b w => ⌜if b then Closed cfg d w else Open cfg d w⌝, fun _ w => ⌜Open cfg d w⌝⟩⦄ := by
  have h1 := abortIf_s (Open.stable cfg d)
  have h2 := recordCancel_x cfg bc hb d
  mvcgen [checkAbortNoRetry, h1, h2]
  x_close

/-- `_handle_abort_call` -/
theorem handleAbortCall_x (e : Exn) : ⦃fun w => ⌜Open cfg d w⌝⦄ handleAbortCall cfg e
    ⦃post⟨fun _ w => ⌜Closed cfg d w⌝, fun _ w => ⌜Open cfg d w⌝⟩⦄ := by
  have h1 := noRetryEndHook_s (Open.stable cfg d) cfg
  have h2 := recordCancel_x cfg bc hb d
  mvcgen [handleAbortCall, h1, h2]
  x_close

/-- `_handle_exhausted_call` -/
theorem handleExhaustedCall_x (e : Exn) : ⦃fun w => ⌜Open cfg d w⌝⦄ handleExhaustedCall cfg e
    ⦃keepPost (Closed cfg d)⦄ := by
  have h2 := recordFailure_x cfg bc hb d
  mvcgen [handleExhaustedCall, h2]

/-- `_handle_exception_call` -/
theorem handleExceptionCall_x (e : Exn) (b : Bool) :
    ⦃fun w => ⌜Open cfg d w⌝⦄ handleExceptionCall cfg e b ⦃keepPost (Settling cfg d)⦄ := by
  have h1 := noRetryEndHook_s (Open.stable cfg d) cfg
  have h2 := recordFailure_x cfg bc hb d
  have h3 := classifyForBreaker_s (Open.stable cfg d) cfg
  mvcgen [handleExceptionCall, h1, h2, h3]
  x_close

abbrev raisePost (I : World → Prop) : PostCond α (.except Exn (.arg World .pure)) :=
  post⟨fun _ _ => ⌜False⌝, fun _ w => ⌜I w⌝⟩

/-- the `except` ladder of `Policy.call` / `AsyncPolicy.call`, entered from the attempt(s) -/
theorem callLadder_open (e : Exn) :
    ⦃fun w => ⌜Open cfg d w⌝⦄ callLadder cfg e ⦃raisePost (Good cfg d)⦄ := by
  have h1 := recordCancel_x cfg bc hb d
  have h2 := handleAbortCall_x cfg bc hb d
  have h3 := handleExhaustedCall_x cfg bc hb d
  have h4 := handleExceptionCall_x cfg bc hb d
  mvcgen [callLadder, h1, h2, h3, h4]
  x_close

/-- the `except` ladder around `retry.execute(...)` -/
theorem executeLadder_x (e : Exn) :
    ⦃fun w => ⌜Open cfg d w⌝⦄ executeLadder cfg e ⦃raisePost (Settling cfg d)⦄ := by
  have h1 := recordCancel_x cfg bc hb d
  have h3 := handleExhaustedCall_x cfg bc hb d
  have h4 := handleExceptionCall_x cfg bc hb d
  mvcgen [executeLadder, h1, h3, h4]
  x_close

end wrappers


/-! ### `call()`'s ladder entered from its own `record_success` — the double record -/

/-- on a `cancelArm` kind the ladder records a cancel and re-raises -/
theorem callLadder_cancelArm (cfg : Cfg) (e : Exn) (h : cancelArm cfg e = true) :
    callLadder cfg e = (do Policy.recordCancel cfg; throw e) := by
  unfold callLadder
  by_cases h1 : (cfg.isAsync && decide (e = .cancelled)) = true
  · rw [if_pos h1]
  · have h2 : e.isKiSe = true := by
      simp only [cancelArm, Bool.or_eq_true] at h
      rcases h with h | h
      · exact absurd (by simpa using h) h1
      · exact h
    rw [if_neg h1, if_pos h2]

/-- on any other BaseException-only kind it just re-raises -/
theorem callLadder_base (cfg : Cfg) (e : Exn) (h1 : cancelArm cfg e = false) (h2 : e.isException = false) :
    callLadder cfg e = throw e := by
  unfold callLadder
  cases e <;> simp_all [cancelArm, Exn.isException, Exn.isKiSe, Exn.isAbort, Exn.isExhausted]

theorem callLadder_closedS (cfg : Cfg) (bc : Breaker.Cfg) (hb : cfg.breaker = some bc) (e : Exn) :
    ⦃fun w => ⌜ClosedS cfg (cancelArm cfg e) w ∧ e.isException = false⌝⦄ callLadder cfg e
    ⦃raisePost (Good cfg true)⦄ := by
  cases hc : cancelArm cfg e with
  | true =>
    have h1 := recordCancel_two cfg bc hb
    rw [callLadder_cancelArm cfg e hc]
    mvcgen [h1]
    all_goals (try subst_vars) <;> (try intros)
    all_goals first
      | (simp_all; done)
      | exact Or.inr (Or.inr ⟨rfl, Or.inr (by assumption)⟩)
  | false =>
    apply triple_of_run
    intro w hw
    rw [callLadder_base cfg e hc hw.2]
    exact Or.inr (Or.inr ⟨rfl, Or.inl hw.1⟩)

theorem triple_or {x : M α} {P1 P2 : World → Prop} {Qok : α → World → Prop} {Qerr : Exn → World → Prop}
    (h1 : ⦃fun w => ⌜P1 w⌝⦄ x ⦃post⟨fun a w => ⌜Qok a w⌝, fun e w => ⌜Qerr e w⌝⟩⦄)
    (h2 : ⦃fun w => ⌜P2 w⌝⦄ x ⦃post⟨fun a w => ⌜Qok a w⌝, fun e w => ⌜Qerr e w⌝⟩⦄) :
    ⦃fun w => ⌜P1 w ∨ P2 w⌝⦄ x ⦃post⟨fun a w => ⌜Qok a w⌝, fun e w => ⌜Qerr e w⌝⟩⦄ := by
  apply triple_of_run
  intro w hw
  rcases hw with hw | hw
  · exact adequacy h1 w hw
  · exact adequacy h2 w hw

/-- what the body of `call()`'s `try` leaves when it raises `e`: nothing recorded yet — or the
    `record_success` made and its event's hook raising `e` -/
def Raised (cfg : Cfg) (e : Exn) (w : World) : Prop :=
  Open cfg true w ∨ (ClosedS cfg (cancelArm cfg e) w ∧ e.isException = false)

theorem callLadder_x (cfg : Cfg) (bc : Breaker.Cfg) (hb : cfg.breaker = some bc) (e : Exn) :
    ⦃fun w => ⌜Raised cfg e w⌝⦄ callLadder cfg e ⦃raisePost (Good cfg true)⦄ :=
  triple_or (callLadder_open cfg bc hb true e) (callLadder_closedS cfg bc hb e)


/-! ### `call` -/

section entry
variable (cfg : Cfg) (bc : Breaker.Cfg) (hb : cfg.breaker = some bc)

/-- `breaker.allow()` answering "allowed" -/
theorem breakerAllow_x (d : Bool) (b0 : Breaker.St) (now0 : Nat) (ha : decision bc b0 now0 = true) :
    ⦃fun w => ⌜w.trace = [] ∧ w.breaker = b0 ∧ w.now = now0 ∧ w.xc.settled = false⌝⦄
    breakerAllow bc
    ⦃post⟨fun r w => ⌜r.1 = true ∧ Open cfg d w⌝, fun _ _ => ⌜False⌝⟩⦄ := by
  mvcgen [breakerAllow]
  rename_i h
  obtain ⟨h1, h2, h3, h4⟩ := h
  subst h2 h3
  have ha' : (Breaker.allow bc _ _).1.1 = true := ha
  refine ⟨ha', ⟨?_, ?_, ?_, ?_, ?_, ?_⟩⟩
  · simp [h1, C08.cur, step, count, noteClassifier, ha']
  · simp [h1, C08.cur, step, count, noteClassifier]
  · simp [h1, C08.cur, step, count, noteClassifier]
  · exact ha'
  · exact h4
  · intro _; simp [h1, dcur, dstep]

include hb

theorem checkBreaker_x (d : Bool) (b0 : Breaker.St) (now0 : Nat) (ha : decision bc b0 now0 = true) :
    ⦃fun w => ⌜w.trace = [] ∧ w.breaker = b0 ∧ w.now = now0 ∧ w.xc.settled = false⌝⦄
    checkBreaker cfg ⦃keepPost (Open cfg d)⦄ := by
  have h1 := breakerAllow_x cfg bc d b0 now0 ha
  have h2 := emitBreakerEvent_s (Open.stable cfg d) cfg
  unfold checkBreaker
  simp only [hb]
  mvcgen [h1, h2]
  x_close

omit hb in
/-- `_call_without_retry` -/
theorem callWithoutRetry_x (d : Bool) :
    ⦃fun w => ⌜Open cfg d w⌝⦄ callWithoutRetry cfg ⦃keepPost (Open cfg d)⦄ := by
  have h1 := noRetryStartHook_s (Open.stable cfg d) cfg
  have h2 := invokeOp_s (Open.stable cfg d)
  have h3 := noRetryEndHook_s (Open.stable cfg d) cfg
  mvcgen [callWithoutRetry, h1, h2, h3]

theorem callAdmitted_x (b0 : Breaker.St) (now0 : Nat) (ha : decision bc b0 now0 = true) :
    ⦃fun w => ⌜w.trace = [] ∧ w.breaker = b0 ∧ w.now = now0 ∧ w.xc.settled = false⌝⦄
    callAdmitted cfg ⦃keepPost (Good cfg true)⦄ := by
  have h0 := checkBreaker_x cfg bc hb true b0 now0 ha
  have h1 := checkAbortNoRetry_x cfg bc hb true
  have h2 := runCall_s (Open.stable cfg true) cfg
  have h3 := callWithoutRetry_x cfg true
  have h4 := recordSuccess_x1 cfg bc hb
  have h5 := callLadder_x cfg bc hb
  mvcgen [callAdmitted, h0, h1, h2, h3, h4, h5]
  all_goals (try subst_vars) <;> (try intros)
  all_goals first
    | assumption
    | (simp_all +zetaDelta [Good, Raised]; done)
    | (simp only [↓reduceIte] at *; simp_all +zetaDelta [Good, Raised]; done)
    | skip

/-- `Policy.call` / `AsyncPolicy.call` when the breaker admits -/
theorem call_x (b0 : Breaker.St) (now0 : Nat) (ha : decision bc b0 now0 = true) :
    ⦃fun w => ⌜w.trace = [] ∧ w.breaker = b0 ∧ w.now = now0⌝⦄
    Policy.call cfg ⦃keepPost (Final cfg true)⦄ := by
  have h0 := callAdmitted_x cfg bc hb b0 now0 ha
  have h1 := ensureSettled_x cfg bc hb true
  mvcgen [Policy.call, initCtx, withFinally, h0, h1]
  x_close

/-! ### `execute` -/

/-- `_execute_with_retry` -/
theorem executeWithRetry_x : ⦃fun w => ⌜Open cfg false w⌝⦄ executeWithRetry cfg
    ⦃post⟨fun _ w => ⌜Closed cfg false w⌝, fun _ w => ⌜Settling cfg false w⌝⟩⦄ := by
  have h0 := runExecute_s (Open.stable cfg false) cfg
  have h1 := recordCancel_x cfg bc hb false
  have h2 := recordSuccess_x0 cfg bc hb
  have h3 := recordFailure_x cfg bc hb false
  have h4 := executeLadder_x cfg bc hb false
  unfold executeWithRetry
  simp only [hb]
  mvcgen [h0, h1, h2, h3, h4]
  x_close

/-- the `except` ladder of `_execute_without_retry`: it returns an outcome or re-raises -/
theorem noRetryLadder_x (b : Bool) (e : Exn) : ⦃fun w => ⌜Open cfg false w⌝⦄ noRetryLadder cfg b e
    ⦃post⟨fun _ w => ⌜Closed cfg false w⌝, fun _ w => ⌜Settling cfg false w⌝⟩⦄ := by
  have h1 := recordCancel_x cfg bc hb false
  have h3 := recordFailure_x cfg bc hb false
  have h4 := noRetryEndHook_s (Closed.stable cfg false) cfg
  have h5 := policyOutcome_s (Closed.stable cfg false)
  mvcgen [noRetryLadder, h1, h3, h4, h5]
  x_close

/-- `_execute_without_retry` -/
theorem executeWithoutRetry_x : ⦃fun w => ⌜Open cfg false w⌝⦄ executeWithoutRetry cfg
    ⦃post⟨fun _ w => ⌜Closed cfg false w⌝, fun _ w => ⌜Settling cfg false w⌝⟩⦄ := by
  have h0 := noRetryStartHook_s (Open.stable cfg false) cfg
  have h1 := invokeOp_s (Open.stable cfg false)
  have h2 := recordSuccess_x0 cfg bc hb
  have h3 := noRetryLadder_x cfg bc hb
  have h4 := noRetryEndHook_s (Closed.stable cfg false) cfg
  have h5 := policyOutcome_s (Closed.stable cfg false)
  mvcgen [executeWithoutRetry, h0, h1, h2, h3, h4, h5]
  x_close

theorem executeAdmitted2_x : ⦃fun w => ⌜Open cfg false w⌝⦄ executeAdmitted2 cfg
    ⦃post⟨fun _ w => ⌜Closed cfg false w⌝, fun _ w => ⌜Settling cfg false w⌝⟩⦄ := by
  have h0 := checkAbortNoRetry_x cfg bc hb false
  have h1 := executeWithRetry_x cfg bc hb
  have h2 := executeWithoutRetry_x cfg bc hb
  have h5 := policyOutcome_s (Closed.stable cfg false)
  mvcgen [executeAdmitted2, h0, h1, h2, h5]
  all_goals (try subst_vars) <;> (try intros)
  all_goals first
    | assumption
    | (simp_all +zetaDelta [Settling]; done)
    | (simp only [↓reduceIte] at *; simp_all +zetaDelta [Settling]; done)
    | skip

theorem executeAdmitted_x (b0 : Breaker.St) (now0 : Nat) (ha : decision bc b0 now0 = true) :
    ⦃fun w => ⌜w.trace = [] ∧ w.breaker = b0 ∧ w.now = now0 ∧ w.xc.settled = false⌝⦄
    executeAdmitted cfg ⦃keepPost (Good cfg false)⦄ := by
  have h1 := breakerAllow_x cfg bc false b0 now0 ha
  have h2 := emitBreakerEvent_s (Open.stable cfg false) cfg
  have h3 := executeAdmitted2_x cfg bc hb
  unfold executeAdmitted
  simp only [hb]
  mvcgen [h1, h2, h3]
  all_goals (try subst_vars) <;> (try intros)
  all_goals first
    | assumption
    | (simp_all +zetaDelta [Settling, Good]; done)
    | skip

/-- `Policy.execute` / `AsyncPolicy.execute` when the breaker admits -/
theorem execute_x (b0 : Breaker.St) (now0 : Nat) (ha : decision bc b0 now0 = true) :
    ⦃fun w => ⌜w.trace = [] ∧ w.breaker = b0 ∧ w.now = now0⌝⦄
    Policy.execute cfg ⦃keepPost (Final cfg false)⦄ := by
  have h0 := executeAdmitted_x cfg bc hb b0 now0 ha
  have h1 := ensureSettled_x cfg bc hb false
  mvcgen [Policy.execute, initCtx, withFinally, h0, h1]
  x_close

end entry


/-! ### the theorems -/

/-- What the policy entry points establish when the breaker admits the call — in EVERY run: exactly
    one record after the admission, none before it; or, in `call()` when `successEventFault`'s fold
    says so and only then, exactly `[record_success, record_cancel]`. -/
theorem entry_admitted (cfg : Cfg) (bc : Breaker.Cfg) (hb : cfg.breaker = some bc) (e : Entry)
    (he : e.isPolicy = true) (w : World) (ha : decision bc w.breaker w.now = true) :
    Final cfg (!e.isExecute) (runEntry cfg e w).2 := by
  cases e with
  | call => cases he
  | execute => cases he
  | pcall =>
    have := adequacy (call_x cfg bc hb w.breaker w.now ha) (startWorld w) ⟨rfl, rfl, rfl⟩
    simp only [runEntry, startWorld] at this ⊢
    split at this <;> rename_i heq <;> simp only [heq, toRes] <;> exact this
  | pexecute =>
    have := adequacy (execute_x cfg bc hb w.breaker w.now ha) (startWorld w) ⟨rfl, rfl, rfl⟩
    simp only [runEntry, startWorld] at this ⊢
    split at this <;> rename_i heq <;> simp only [heq, toResO] <;> exact this

theorem successEventFault_reverse (cfg : Cfg) (e : Entry) (tr : List (Req × Ans)) :
    successEventFault cfg e tr.reverse = (!e.isExecute && (dcur cfg tr).bad) := by
  simp only [successEventFault, dfold_reverse]

/--
**C09, at-most-once half, with no environment guard.**  For every configuration, every entry point and
every world — every answer stream (any exception kind raised by any callback at any invocation:
operation, classifier, attempt hooks, abort predicate, strategy, sleep handler, sleeper, metric and log
hooks), every clock value and every state of the embedded breaker:

* no `record_*` is made before the breaker is asked, and none by a call it did not admit;
* a call it admitted makes EXACTLY ONE `record_*` after the admission — however many attempts, and
  whichever hook raised whatever —
* except that `call()` makes exactly the two records `record_success, record_cancel` when (and only
  when) the metric / log hook answers the event of its `record_success` by raising KeyboardInterrupt /
  SystemExit (CancelledError, `AsyncPolicy`): `Mon.C09.successEventFault`.
-/
theorem once_exact_hold (cfg : Cfg) (e : Entry) (w : World) :
    Mon.C09.onceExact cfg e (runEntry cfg e w).2.trace.reverse (runEntry cfg e w).1 = true := by
  unfold Mon.C09.onceExact
  cases he : e.isPolicy with
  | false => simp
  | true =>
    cases hb : cfg.breaker with
    | none => simp
    | some bc =>
      simp only [Bool.true_and, Option.isSome_some, if_true, run_reverse, successEventFault_reverse]
      cases ha : decision bc w.breaker w.now with
      | false =>
        obtain ⟨hr, -⟩ := C07.entry_rejected cfg bc hb e he w ha
        have ha' : (Breaker.allow bc w.breaker w.now).1.1 = false := ha
        simp only [C07.allowX, ha'] at hr
        rw [hr.cur]
        rfl
      | true =>
        obtain ⟨h1, h2, h3⟩ := entry_admitted cfg bc hb e he w ha
        simp only [h1, h2, beq_self_eq_true, Bool.true_and]
        split at h3 <;> rename_i hc
        · simp [hc, h3]
        · simp [hc, h3]

/-- **The statement asked for, under the narrowest guard.**  In every run that is not in the one
    situation `Mon.C09.successEventFault` describes: no record before / without admission, and an
    admitted call makes exactly one. -/
theorem once_hold (cfg : Cfg) (e : Entry) (w : World) :
    Mon.C09.onceGuarded cfg e (runEntry cfg e w).2.trace.reverse (runEntry cfg e w).1 = true := by
  have h := once_exact_hold cfg e w
  unfold Mon.C09.onceGuarded
  cases hf : successEventFault cfg e (runEntry cfg e w).2.trace.reverse with
  | true => rfl
  | false =>
    simp only [Mon.C09.onceExact, hf] at h
    simpa [Mon.C09.once] using h

/-- a call the breaker rejected is never in the situation `successEventFault` describes -/
theorem Rej.not_bad (cfg : Cfg) {x0 : Req × Ans} {bR : Breaker.St} {w : World} (hr : C07.Rej x0 bR w)
    (hx : x0.1 = .breakerAllow) : (dcur cfg w.trace).bad = false := by
  obtain ⟨δ, e, k⟩ := hr.trace
  have hk : ∀ x ∈ δ, loopK x.1.kind = true := fun x hx => by
    have := k x hx
    revert this
    cases x.1.kind <;> simp [C07.mlK, loopK]
  have h0 : dcur cfg [x0] = {} := by
    obtain ⟨r, a⟩ := x0
    cases hx
    rfl
  have := dcur_append_loop cfg δ [x0] hk
  rw [e, this.2 (by rw [h0]), h0]

/-- …and the guard is tight: of every call on a policy with a breaker, the unguarded `once` is true
    EXACTLY when `successEventFault` is false. -/
theorem once_eq_not_fault (cfg : Cfg) (e : Entry) (w : World) (he : e.isPolicy = true)
    (hb : cfg.breaker.isSome = true) :
    Mon.C09.once cfg e (runEntry cfg e w).2.trace.reverse (runEntry cfg e w).1
      = !successEventFault cfg e (runEntry cfg e w).2.trace.reverse := by
  obtain ⟨bc, hb⟩ := Option.isSome_iff_exists.mp hb
  simp only [Mon.C09.once, he, hb, Bool.true_and, Option.isSome_some, if_true, run_reverse,
    successEventFault_reverse]
  cases ha : decision bc w.breaker w.now with
  | false =>
    obtain ⟨hr, -⟩ := C07.entry_rejected cfg bc hb e he w ha
    have ha' : (Breaker.allow bc w.breaker w.now).1.1 = false := ha
    rw [Rej.not_bad cfg hr rfl]
    simp only [C07.allowX, ha'] at hr
    rw [hr.cur]
    simp
  | true =>
    obtain ⟨h1, h2, h3⟩ := entry_admitted cfg bc hb e he w ha
    simp only [h1, h2, beq_self_eq_true, Bool.true_and]
    split at h3 <;> rename_i hc
    · simp [hc, h3]
    · simp only [Bool.not_eq_true] at hc
      simp [hc, h3]

/-! ### non-vacuity, and how narrow the guard is -/

/-- the counterexample is the guard's situation; `onceExact` is true of it -/
example : successEventFault cexCfg .pcall (runEntry cexCfg .pcall cexWorld).2.trace.reverse = true ∧
    Mon.hookBaseFault (runEntry cexCfg .pcall cexWorld).2.trace.reverse = true := by decide

/-- `AsyncPolicy.call`, the hook raising CancelledError: two records, guard true … -/
example : (Mon.C09.run (runEntry { cexCfg with isAsync := true } .pcall
      { cexWorld with answers := [.value 7 0, .raise .cancelled 0] }).2.trace.reverse).records
        = [.breakerSuccess, .breakerCancel] ∧
    successEventFault { cexCfg with isAsync := true } .pcall (runEntry { cexCfg with isAsync := true } .pcall
      { cexWorld with answers := [.value 7 0, .raise .cancelled 0] }).2.trace.reverse = true := by decide

/-- … but the sync `Policy.call` (no `except CancelledError` arm), or the hook raising GeneratorExit:
    one record, guard false — these runs are covered by `once_hold` although an observability hook
    raised a BaseException in them (`Mon.hookBaseFault`: outside `Mon.C09.ok`'s stated environment) -/
example : (Mon.C09.run (runEntry cexCfg .pcall
      { cexWorld with answers := [.value 7 0, .raise .cancelled 0] }).2.trace.reverse).records = [.breakerSuccess] ∧
    successEventFault cexCfg .pcall (runEntry cexCfg .pcall
      { cexWorld with answers := [.value 7 0, .raise .cancelled 0] }).2.trace.reverse = false ∧
    successEventFault cexCfg .pcall (runEntry cexCfg .pcall
      { cexWorld with answers := [.value 7 0, .raise .generatorExit 0] }).2.trace.reverse = false ∧
    Mon.hookBaseFault (runEntry cexCfg .pcall
      { cexWorld with answers := [.value 7 0, .raise .generatorExit 0] }).2.trace.reverse = true := by decide

/-- the same answers given to `Policy.execute` (its `record_success` is outside every `try`): one
    record, guard false -/
example : (Mon.C09.run (runEntry cexCfg .pexecute cexWorld).2.trace.reverse).records = [.breakerSuccess] ∧
    successEventFault cexCfg .pexecute (runEntry cexCfg .pexecute cexWorld).2.trace.reverse = false := by
  decide

/-- KeyboardInterrupt raised by the hook BEFORE the `record_success` (here on the `circuit_half_open`
    event of the admission), or by an attempt hook (`Mon.attemptHookFault`): one record, guard false -/
example : (Mon.C09.run (runEntry cexCfg .pcall
      { answers := [.raise .keyboardInterrupt 0], breaker := Breaker.St.openedAtTime 7, now := 100 }).2.trace.reverse).records
        = [.breakerCancel] ∧
    successEventFault cexCfg .pcall (runEntry cexCfg .pcall
      { answers := [.raise .keyboardInterrupt 0], breaker := Breaker.St.openedAtTime 7, now := 100 }).2.trace.reverse = false ∧
    (Mon.C09.run (runEntry { cexCfg with cAttemptEnd := true } .pcall cexWorld).2.trace.reverse).records
        = [.breakerCancel] ∧
    Mon.attemptHookFault (runEntry { cexCfg with cAttemptEnd := true } .pcall cexWorld).2.trace.reverse = true ∧
    successEventFault { cexCfg with cAttemptEnd := true } .pcall
      (runEntry { cexCfg with cAttemptEnd := true } .pcall cexWorld).2.trace.reverse = false := by decide

/-- …and therefore of every call in every script of calls and clock advances on ONE policy object
    sharing one breaker, whatever earlier calls did. -/
theorem once_exact_hold_script (cfg : Cfg) : ∀ (steps : List Step) (w : World),
    ∀ l ∈ (runScript cfg steps w).1, Mon.C09.onceExact cfg l.entry l.trace l.res = true := by
  intro steps
  induction steps with
  | nil => intro w l hl; simp [runScript] at hl
  | cons st rest ih =>
    intro w l hl
    cases st with
    | advance d => exact ih _ l (by simpa [runScript] using hl)
    | run e =>
      simp only [runScript, List.mem_cons] at hl
      rcases hl with rfl | hl
      · exact once_exact_hold cfg e w
      · exact ih _ l hl

theorem once_hold_script (cfg : Cfg) : ∀ (steps : List Step) (w : World),
    ∀ l ∈ (runScript cfg steps w).1, Mon.C09.onceGuarded cfg l.entry l.trace l.res = true := by
  intro steps
  induction steps with
  | nil => intro w l hl; simp [runScript] at hl
  | cons st rest ih =>
    intro w l hl
    cases st with
    | advance d => exact ih _ l (by simpa [runScript] using hl)
    | run e =>
      simp only [runScript, List.mem_cons] at hl
      rcases hl with rfl | hl
      · exact once_hold cfg e w
      · exact ih _ l hl

end Redress.Props.C09Once

#print axioms Redress.Props.C09Once.once_refuted
#print axioms Redress.Props.C09Once.once_exact_hold
#print axioms Redress.Props.C09Once.once_exact_hold_script
#print axioms Redress.Props.C09Once.once_eq_not_fault
#print axioms Redress.Props.C09Once.once_hold
#print axioms Redress.Props.C09Once.once_hold_script
