/-
  C04 — call() surfaces exactly the last attempt's value or exception.

  Theorems are about `Mon.C04.ok`, the monitor the driver also evaluates on implementation traces.
  The first half of this file (monitor fold, view, leaf specifications) is shared with C11.
-/
import Redress.Lemmas.Footprint
import Redress.Monitors

open Std.Do

namespace Redress.Props.C04
open Redress Redress.Retry Redress.Mon Redress.Mon.C04

/-- the monitor state as a function of the world's (newest-first) log -/
def cur (cfg : Cfg) (tr : List (Req × Ans)) : St := tr.foldr (fun x s => step cfg s x) {}

@[simp] theorem cur_cons (cfg : Cfg) (x : Req × Ans) (t : List (Req × Ans)) :
    cur cfg (x :: t) = step cfg (cur cfg t) x := rfl

theorem run_reverse (cfg : Cfg) (t : List (Req × Ans)) : run cfg t.reverse = cur cfg t := by
  simp [run, cur, List.foldl_reverse]

/-- what the C04 / C11 arguments look at -/
structure View where
  mon : St
  lastExc : Option Exn
  lastResult : Option Nat
  lastClass : Option EClass
  lastCause : Option Cause
  lastStop : Option StopReason
  attempts : Nat

def view (cfg : Cfg) (w : World) : View :=
  ⟨cur cfg w.trace, w.rs.lastExc, w.rs.lastResult, w.rs.lastClass, w.rs.lastCause, w.rs.lastStop, w.attempts⟩

/-- where a thrown exception came from: an exchange with a callback other than the operation that
    was answered by raising it (or the model-only `stuck`) -/
def Thrown (t : List (Req × Ans)) (e : Exn) : Prop :=
  e = .stuck ∨ raisedBy (fun r => !isOp r) t e = true

theorem Thrown.head (r : Req) (e : Exn) (d : Nat) (t : List (Req × Ans)) (h : isOp r = false) :
    Thrown ((r, .raise e d) :: t) e := by
  right
  simp [raisedBy, h]

theorem Thrown.stuck (t : List (Req × Ans)) : Thrown t .stuck := Or.inl rfl

theorem Thrown.cons (x : Req × Ans) {t : List (Req × Ans)} {e : Exn} (h : Thrown t e) :
    Thrown (x :: t) e := by
  rcases h with h | h
  · exact Or.inl h
  · right
    simp only [raisedBy, List.any_cons] at h ⊢
    simp [h]

theorem Thrown.append (δ : List (Req × Ans)) {t : List (Req × Ans)} {e : Exn} (h : Thrown t e) :
    Thrown (δ ++ t) e := by
  induction δ with
  | nil => exact h
  | cons x δ ih => exact Thrown.cons x ih

/-! ### requests by what they can do to the monitor -/

/-- requests that never move the monitor, whatever the answer -/
def inertK : Kind → Bool
  | .beforeSleep | .metric | .log | .budgetConsume | .breakerAllow | .breakerSuccess | .breakerFailure
  | .breakerCancel => true
  | _ => false

theorem step_inert (cfg : Cfg) (s : St) (x : Req × Ans) (h : inertK x.1.kind = true) : step cfg s x = s := by
  obtain ⟨r, a⟩ := x
  cases r <;> simp_all [inertK, Req.kind, step]

theorem inert_not_op (r : Req) (h : inertK r.kind = true) : isOp r = false := by
  cases r <;> simp_all [inertK, Req.kind, isOp]

/-- "the view is `v`" on both exits; on the exceptional one also where the exception came from -/
abbrev inertPost (cfg : Cfg) (v : View) : PostCond α (.except Exn (.arg World .pure)) :=
  post⟨fun _ w => ⌜view cfg w = v⌝, fun e w => ⌜Thrown w.trace e ∧ view cfg w = v⌝⟩

section leaves
variable (cfg : Cfg) (v : View) (tl : Bool)

theorem ask_inert (r : Req) (hk : inertK r.kind = true) :
    ⦃fun w => ⌜view cfg w = v⌝⦄ ask r ⦃inertPost cfg v⦄ := by
  have hop := inert_not_op r hk
  mvcgen [ask]
  all_goals (subst_vars; simp_all +zetaDelta [view, step_inert, Thrown.head, Thrown.stuck])

macro "close_i" : tactic => `(tactic| all_goals (
  (try subst_vars) <;> (try intros) <;>
  first
    | assumption
    | rfl
    | (simp_all +zetaDelta [view, inertK, Req.kind]; done)
    | skip))

theorem askMetric_i (ev : Event) (a s : Nat) (t : Tags) :
    ⦃fun w => ⌜view cfg w = v⌝⦄ askMetric ev a s t ⦃inertPost cfg v⦄ := by
  mvcgen [askMetric, ask_inert]
  close_i

theorem askLog_i (ev : Event) (a s : Nat) (t : Tags) (ra : Option Int) :
    ⦃fun w => ⌜view cfg w = v⌝⦄ askLog ev a s t ra ⦃inertPost cfg v⦄ := by
  mvcgen [askLog, ask_inert]
  close_i

theorem recordTimeline_i (ev : Event) (a s : Nat) (t : Tags) :
    ⦃fun w => ⌜view cfg w = v⌝⦄ recordTimeline ev a s t ⦃inertPost cfg v⦄ := by
  mvcgen [recordTimeline]
  close_i

attribute [local spec] askMetric_i askLog_i recordTimeline_i

theorem metricHook_i (ev : Event) (a s : Nat) (t : Tags) :
    ⦃fun w => ⌜view cfg w = v⌝⦄ metricHook cfg tl ev a s t ⦃inertPost cfg v⦄ := by
  mvcgen [metricHook]
  close_i

attribute [local spec] metricHook_i

theorem swallow_i (e : Exn) :
    ⦃fun w => ⌜Thrown w.trace e ∧ view cfg w = v⌝⦄ swallowException e ⦃inertPost cfg v⦄ := by
  mvcgen [swallowException]
  close_i

attribute [local spec] swallow_i

theorem emit_i (ev : Event) (a s : Nat) (k : Option EClass) (e : Option Exn) (st : Option StopReason)
    (cs : Option Cause) (cl : Option Classification) :
    ⦃fun w => ⌜view cfg w = v⌝⦄ emit cfg tl ev a s k e st cs cl ⦃inertPost cfg v⦄ := by
  mvcgen [emit]
  close_i

attribute [local spec] emit_i

theorem callBeforeSleep_i (ctx : BackoffCtx) (d : Nat) :
    ⦃fun w => ⌜view cfg w = v⌝⦄ callBeforeSleep cfg ctx d ⦃inertPost cfg v⦄ := by
  mvcgen [callBeforeSleep, ask_inert]
  close_i

theorem budgetConsume_i : ⦃fun w => ⌜view cfg w = v⌝⦄ budgetConsume cfg ⦃inertPost cfg v⦄ := by
  mvcgen [budgetConsume]
  all_goals (subst_vars; simp_all [view, step])

/-! #### attempt hooks: an exception from them is a `hookFault` -/

abbrev hookPost (cfg : Cfg) (v : View) : PostCond α (.except Exn (.arg World .pure)) :=
  post⟨fun _ w => ⌜view cfg w = v⌝, fun e w => ⌜Thrown w.trace e ∧ (view cfg w).mon.hookFault = true⌝⟩

theorem ask_attemptStart (c : AttemptCtx) :
    ⦃fun w => ⌜view cfg w = v⌝⦄ ask (.attemptStart c) ⦃hookPost cfg v⦄ := by
  mvcgen [ask]
  all_goals (subst_vars; simp_all +zetaDelta [view, step, Thrown.head, Thrown.stuck, isOp])
  all_goals (split <;> simp_all)

theorem ask_attemptEnd (c : AttemptCtx) :
    ⦃fun w => ⌜view cfg w = v⌝⦄ ask (.attemptEnd c) ⦃hookPost cfg v⦄ := by
  mvcgen [ask]
  all_goals (subst_vars; simp_all +zetaDelta [view, step, Thrown.head, Thrown.stuck, isOp])
  all_goals (split <;> simp_all)

end leaves

end Redress.Props.C04
