/-
  C04 — call() surfaces exactly the last attempt's value or exception.

  Theorems are about `Mon.C04.ok`, the monitor the driver also evaluates on implementation traces.
  The first half of this file (monitor fold, view, leaf specifications) is shared with C11.
-/
import Redress.Lemmas.Hoare
import Redress.Monitors

open Std.Do

namespace Redress.Props.C04
open Redress Redress.Retry Redress.Mon Redress.Mon.C04

/-- the monitor state as a function of the world's (newest-first) log -/
def cur (cfg : Cfg) (tr : List (Req × Ans)) : St := tr.foldr (fun x s => step cfg s x) {}

@[simp] theorem cur_cons (cfg : Cfg) (x : Req × Ans) (t : List (Req × Ans)) :
    cur cfg (x :: t) = step cfg (cur cfg t) x := rfl

theorem run_reverse (cfg : Cfg) (t : List (Req × Ans)) : run cfg t.reverse = cur cfg t := by
  simp [run, cur, List.foldl_reverse]

/-- what the C04 / C11 arguments look at -/
structure View where
  mon : St
  lastExc : Option Exn
  lastResult : Option Nat
  lastClass : Option EClass
  lastCause : Option Cause
  lastStop : Option StopReason
  attempts : Nat

def view (cfg : Cfg) (w : World) : View :=
  ⟨cur cfg w.trace, w.rs.lastExc, w.rs.lastResult, w.rs.lastClass, w.rs.lastCause, w.rs.lastStop, w.attempts⟩

theorem not_isAbort_of_not_isException (e : Exn) (h : e.isException = false) : e.isAbort = false := by
  cases e <;> simp_all [Exn.isAbort, Exn.isException]

/-- where a thrown exception came from: an exchange with a callback other than the operation that
    was answered by raising it (or the model-only `stuck`) -/
def Thrown (t : List (Req × Ans)) (e : Exn) : Prop :=
  e = .stuck ∨ raisedBy (fun r => !isOp r) t e = true

theorem Thrown.head (r : Req) (e : Exn) (d : Nat) (t : List (Req × Ans)) (h : isOp r = false) :
    Thrown ((r, .raise e d) :: t) e := by
  right
  simp [raisedBy, h]

theorem Thrown.stuck (t : List (Req × Ans)) : Thrown t .stuck := Or.inl rfl

theorem Thrown.cons (x : Req × Ans) {t : List (Req × Ans)} {e : Exn} (h : Thrown t e) :
    Thrown (x :: t) e := by
  rcases h with h | h
  · exact Or.inl h
  · right
    simp only [raisedBy, List.any_cons] at h ⊢
    simp [h]

theorem Thrown.append (δ : List (Req × Ans)) {t : List (Req × Ans)} {e : Exn} (h : Thrown t e) :
    Thrown (δ ++ t) e := by
  induction δ with
  | nil => exact h
  | cons x δ ih => exact Thrown.cons x ih

/-! ### requests by what they can do to the monitor -/

/-- requests that never move the monitor, whatever the answer -/
def inertK : Kind → Bool
  | .beforeSleep | .metric | .log | .budgetConsume | .breakerAllow | .breakerSuccess | .breakerFailure
  | .breakerCancel => true
  | _ => false

theorem step_inert (cfg : Cfg) (s : St) (x : Req × Ans) (h : inertK x.1.kind = true) : step cfg s x = s := by
  obtain ⟨r, a⟩ := x
  cases r <;> simp_all [inertK, Req.kind, step]

theorem inert_not_op (r : Req) (h : inertK r.kind = true) : isOp r = false := by
  cases r <;> simp_all [inertK, Req.kind, isOp]

/-- "the view is `v`" on both exits; on the exceptional one also where the exception came from -/
abbrev inertPost (cfg : Cfg) (v : View) : PostCond α (.except Exn (.arg World .pure)) :=
  post⟨fun _ w => ⌜view cfg w = v⌝, fun e w => ⌜Thrown w.trace e ∧ view cfg w = v⌝⟩

/-- equal but for the stop reason -/
def sameBut (u v : View) : Prop :=
  v.mon = u.mon ∧ v.lastExc = u.lastExc ∧ v.lastResult = u.lastResult ∧ v.lastClass = u.lastClass ∧
    v.lastCause = u.lastCause ∧ v.attempts = u.attempts

section leaves
variable (cfg : Cfg) (v : View) (tl : Bool)

theorem ask_inert (r : Req) (hk : inertK r.kind = true) :
    ⦃fun w => ⌜view cfg w = v⌝⦄ ask r ⦃inertPost cfg v⦄ := by
  have hop := inert_not_op r hk
  mvcgen [ask]
  all_goals (subst_vars; simp_all +zetaDelta [view, step_inert, Thrown.head, Thrown.stuck])

theorem askHook_inert (r : Req) (hk : inertK r.kind = true) :
    ⦃fun w => ⌜view cfg w = v⌝⦄ askHook r ⦃inertPost cfg v⦄ :=
  askHook_triple r (ask_inert cfg v r hk) (fun w h => presil_cases (fun w => view cfg w = v) w (fun _ => h))

macro "close_i" : tactic => `(tactic| all_goals (
  (try subst_vars) <;> (try intros) <;>
  first
    | assumption
    | rfl
    | (simp_all +zetaDelta [view, inertK, Req.kind]; done)
    | skip))

theorem askMetric_i (ev : Event) (a s : Nat) (t : Tags) :
    ⦃fun w => ⌜view cfg w = v⌝⦄ askMetric ev a s t ⦃inertPost cfg v⦄ := by
  mvcgen [askMetric, askHook_inert]
  close_i

theorem askLog_i (ev : Event) (a s : Nat) (t : Tags) (ra : Option Int) :
    ⦃fun w => ⌜view cfg w = v⌝⦄ askLog ev a s t ra ⦃inertPost cfg v⦄ := by
  mvcgen [askLog, askHook_inert]
  close_i

theorem recordTimeline_i (ev : Event) (a s : Nat) (t : Tags) :
    ⦃fun w => ⌜view cfg w = v⌝⦄ recordTimeline ev a s t ⦃inertPost cfg v⦄ := by
  mvcgen [recordTimeline]
  close_i

attribute [local spec] askMetric_i askLog_i recordTimeline_i

theorem metricHook_i (ev : Event) (a s : Nat) (t : Tags) :
    ⦃fun w => ⌜view cfg w = v⌝⦄ metricHook cfg tl ev a s t ⦃inertPost cfg v⦄ := by
  mvcgen [metricHook]
  close_i

attribute [local spec] metricHook_i

/-- what `emit` lets through is not an `Exception` (so never an abort) -/
abbrev emitPost (cfg : Cfg) (v : View) : PostCond α (.except Exn (.arg World .pure)) :=
  post⟨fun _ w => ⌜view cfg w = v⌝,
       fun e w => ⌜Thrown w.trace e ∧ view cfg w = v ∧ e.isException = false⌝⟩

theorem swallow_i (e : Exn) :
    ⦃fun w => ⌜Thrown w.trace e ∧ view cfg w = v⌝⦄ swallowException e ⦃emitPost cfg v⦄ := by
  mvcgen [swallowException]
  all_goals ((try subst_vars) <;> (try intros) <;> simp_all)

attribute [local spec] swallow_i

theorem emit_i (ev : Event) (a s : Nat) (k : Option EClass) (e : Option Exn) (st : Option StopReason)
    (cs : Option Cause) (cl : Option Classification) :
    ⦃fun w => ⌜view cfg w = v⌝⦄ emit cfg tl ev a s k e st cs cl ⦃emitPost cfg v⦄ := by
  mvcgen [emit]
  all_goals ((try subst_vars) <;> (try intros) <;> simp_all)

attribute [local spec] emit_i

theorem callBeforeSleep_i (ctx : BackoffCtx) (d : Nat) :
    ⦃fun w => ⌜view cfg w = v⌝⦄ callBeforeSleep cfg ctx d ⦃inertPost cfg v⦄ := by
  mvcgen [callBeforeSleep, askHook_inert]
  close_i

theorem budgetConsume_i : ⦃fun w => ⌜view cfg w = v⌝⦄ budgetConsume cfg ⦃inertPost cfg v⦄ := by
  mvcgen [budgetConsume]
  all_goals (subst_vars; simp_all [view, step])

/-! #### attempt hooks: an exception from them is a `hookFault` -/

abbrev hookPost (cfg : Cfg) (v : View) : PostCond α (.except Exn (.arg World .pure)) :=
  post⟨fun _ w => ⌜view cfg w = v⌝, fun e w => ⌜Thrown w.trace e ∧ (view cfg w).mon.hookFault = true⌝⟩

theorem ask_attemptStart (c : AttemptCtx) :
    ⦃fun w => ⌜view cfg w = v⌝⦄ ask (.attemptStart c) ⦃hookPost cfg v⦄ := by
  have hop : isOp (Req.attemptStart c) = false := rfl
  mvcgen [ask]
  all_goals (subst_vars; simp_all +zetaDelta [view, step, Thrown.head, Thrown.stuck])

theorem ask_attemptEnd (c : AttemptCtx) :
    ⦃fun w => ⌜view cfg w = v⌝⦄ ask (.attemptEnd c) ⦃hookPost cfg v⦄ := by
  have hop : isOp (Req.attemptEnd c) = false := rfl
  mvcgen [ask]
  all_goals (subst_vars; simp_all +zetaDelta [view, step, Thrown.head, Thrown.stuck])

attribute [local spec] ask_attemptStart ask_attemptEnd

theorem callAttemptStart_h (a : Nat) :
    ⦃fun w => ⌜view cfg w = v⌝⦄ callAttemptStart cfg a ⦃hookPost cfg v⦄ := by
  mvcgen [callAttemptStart, elapsed]
  close_i

theorem callAttemptEnd_h (a : Nat) (cls : Option Classification) (exc : Option Exn) (r : Option Nat)
    (d : AttemptDecision) (st : Option StopReason) (c : Option Cause) (sl : Option Nat) :
    ⦃fun w => ⌜view cfg w = v⌝⦄ callAttemptEnd cfg a cls exc r d st c sl ⦃hookPost cfg v⦄ := by
  mvcgen [callAttemptEnd, elapsed]
  close_i

attribute [local spec] callAttemptEnd_h

theorem callAttemptEndFromOutcome_h (a : Nat) (o : AOutcome) :
    ⦃fun w => ⌜view cfg w = v⌝⦄ callAttemptEndFromOutcome cfg a o ⦃hookPost cfg v⦄ := by
  mvcgen [callAttemptEndFromOutcome]
  close_i

theorem handleAbortAttemptEnd_h (a : Nat) (e : Exn) :
    ⦃fun w => ⌜view cfg w = v⌝⦄ handleAbortAttemptEnd cfg a e ⦃hookPost cfg v⦄ := by
  mvcgen [handleAbortAttemptEnd, getAS, modifyAS]
  close_i

/-! #### the caller's strategy / sleeper callbacks: an exception from them is a `fault` unless it
    is an abort -/

/-- how a raising callback of the caller moved the view -/
def FErr (v v' : View) (e : Exn) : Prop :=
  v'.mon.opAfterFault = v.mon.opAfterFault ∧ v'.mon.hookFault = v.mon.hookFault ∧
    (e.isAbort = true → v' = v)

abbrev faultPost (cfg : Cfg) (v : View) : PostCond α (.except Exn (.arg World .pure)) :=
  post⟨fun _ w => ⌜view cfg w = v⌝, fun e w => ⌜Thrown w.trace e ∧ FErr v (view cfg w) e⌝⟩

theorem faultBy_abort (m : St) (e : Exn) (h : e.isAbort = true) : faultBy m e = m := by
  simp [faultBy, h]

macro "close_f" : tactic => `(tactic| all_goals (
  (try subst_vars) <;> (try intros) <;>
  first
    | (simp_all +zetaDelta [view, step, FErr, faultBy, Thrown.head, Thrown.stuck]; done)
    | skip))

theorem callStrategy_f (key : SKey) (kind : SKind) (ctx : BackoffCtx) :
    ⦃fun w => ⌜view cfg w = v⌝⦄ callStrategy key kind ctx ⦃faultPost cfg v⦄ := by
  have hop : isOp (Req.strategy key kind ctx) = false := rfl
  mvcgen [callStrategy, ask]
  close_f

theorem stratRecordFailure_f (key : SKey) (k : EClass) :
    ⦃fun w => ⌜view cfg w = v⌝⦄ stratRecordFailure cfg key k ⦃faultPost cfg v⦄ := by
  have hop : isOp (Req.stratRecordFailure key k) = false := rfl
  mvcgen [stratRecordFailure, ask]
  close_f

theorem callSleeper_f (d : Nat) :
    ⦃fun w => ⌜view cfg w = v⌝⦄ callSleeper cfg d ⦃faultPost cfg v⦄ := by
  have hop : isOp (Req.sleeper cfg.sleeper d) = false := rfl
  mvcgen [callSleeper, ask]
  close_f

/-- `strategy.record_success()`: an AbortRetryError from it revokes the success -/
def SErr (v v' : View) (e : Exn) : Prop :=
  v'.mon.opAfterFault = v.mon.opAfterFault ∧ v'.mon.hookFault = v.mon.hookFault ∧
    (e.isAbort = true → v' = { v with mon := { v.mon with abortedSuccess := true } })

theorem recordStrategySuccess_s :
    ⦃fun w => ⌜view cfg w = v⌝⦄ recordStrategySuccess cfg
    ⦃post⟨fun _ w => ⌜view cfg w = v⌝, fun e w => ⌜Thrown w.trace e ∧ SErr v (view cfg w) e⌝⟩⦄ := by
  have hop : ∀ key, isOp (Req.stratRecordSuccess key) = false := fun _ => rfl
  mvcgen [recordStrategySuccess, getRS, ask]
  all_goals ((try subst_vars) <;> (try intros) <;>
    first
      | (simp_all +zetaDelta [view, step, SErr, faultBy, Thrown.head, Thrown.stuck]; done)
      | skip)

/-- the monitor after the sleep handler answered -/
def handlerStep (m : St) (d : Nat) (dec : SleepDecision) : St :=
  { m with delay := some d, deferred := dec == .defer, badDecision := dec == .other }

theorem callSleepHandler_f (lvl : Lvl) (ctx : BackoffCtx) (d : Nat) :
    ⦃fun w => ⌜view cfg w = v⌝⦄ callSleepHandler lvl ctx d
    ⦃post⟨fun dec w => ⌜view cfg w = { v with mon := handlerStep v.mon d dec }⌝,
          fun e w => ⌜Thrown w.trace e ∧ FErr v (view cfg w) e⌝⟩⦄ := by
  have hop : isOp (Req.sleepHandler lvl ctx d) = false := rfl
  mvcgen [callSleepHandler, ask]
  all_goals ((try subst_vars) <;> (try intros) <;>
    first
      | (simp_all +zetaDelta [view, step, FErr, faultBy, handlerStep, Thrown.head, Thrown.stuck]; done)
      | skip)

/-- the monitor after the classifier announced `c` for the exception the operation raised -/
def clsStep (cfg : Cfg) (m : St) (c : Classification) : St := step cfg m (.classify "", .klass c 0)

theorem callClassifier_f (e : Exn) :
    ⦃fun w => ⌜view cfg w = v⌝⦄ callClassifier e
    ⦃post⟨fun c w => ⌜view cfg w = { v with mon := clsStep cfg v.mon c }⌝,
          fun e w => ⌜Thrown w.trace e ∧ FErr v (view cfg w) e⌝⟩⦄ := by
  have hop : isOp (Req.classify e.ref) = false := rfl
  mvcgen [callClassifier, ask]
  all_goals ((try subst_vars) <;> (try intros) <;>
    first
      | (simp_all +zetaDelta [view, step, FErr, faultBy, clsStep, Thrown.head, Thrown.stuck]; done)
      | skip)

/-- the monitor after the result classifier answered -/
def resStep (cfg : Cfg) (m : St) : Option Classification → St
  | none => if cfg.resultClassifier then { m with succeeded := true } else m
  | some c => step cfg m (.resultClassify 0, .klass c 0)

theorem shouldClassifyResult_f (x : Nat) :
    ⦃fun w => ⌜view cfg w = v⌝⦄ shouldClassifyResult cfg x
    ⦃post⟨fun r w => ⌜view cfg w = { v with mon := resStep cfg v.mon r } ∧ (r.isSome → cfg.resultClassifier = true)⌝,
          fun e w => ⌜Thrown w.trace e ∧ FErr v (view cfg w) e⌝⟩⦄ := by
  have hop : isOp (Req.resultClassify x) = false := rfl
  mvcgen [shouldClassifyResult, ask]
  all_goals ((try subst_vars) <;> (try intros) <;>
    first
      | (simp_all +zetaDelta [view, step, FErr, faultBy, resStep, Thrown.head, Thrown.stuck]; done)
      | skip)

/-! #### stop reasons -/

theorem setStop_spec (st : StopReason) :
    ⦃fun w => ⌜view cfg w = v⌝⦄ setStop st
    ⦃post⟨fun _ w => ⌜view cfg w = { v with lastStop := some st }⌝, fun _ _ => ⌜False⌝⟩⦄ := by
  mvcgen [setStop, modifyRS]
  all_goals (subst_vars; simp_all +zetaDelta [view])

attribute [local spec] setStop_spec

theorem stopWith_spec (st : StopReason) (ev : Event) (a : Nat) (k : EClass) (e : Option Exn) (c : Cause) :
    ⦃fun w => ⌜view cfg w = v⌝⦄ stopWith cfg tl st ev a k e c
    ⦃post⟨fun d w => ⌜d = .raise ∧ view cfg w = { v with lastStop := some st }⌝,
          fun e w => ⌜Thrown w.trace e ∧ view cfg w = { v with lastStop := some st } ∧ e.isException = false⌝⟩⦄ := by
  mvcgen [stopWith]
  close_i

theorem emitAbortedOnce_spec (a : Nat) :
    ⦃fun w => ⌜view cfg w = v⌝⦄ emitAbortedOnce cfg tl a
    ⦃post⟨fun _ w => ⌜view cfg w = { v with lastStop := some .aborted }⌝,
          fun e w => ⌜Thrown w.trace e ∧ view cfg w = { v with lastStop := some .aborted } ∧
            e.isException = false⌝⟩⦄ := by
  mvcgen [emitAbortedOnce, getRS]
  close_i

/-- the monitor after `abort_if` answered "go on" -/
def pollStep (cfg : Cfg) (m : St) : St :=
  if cfg.abortIf then step cfg m (.abortIf, .bool false 0) else m

/-- `check_abort`: on the exceptional exit either the library's own abort (and the view is as before
    but for the stop reason) or an exception from the predicate (a hook fault) or from a hook -/
theorem checkAbort_spec (a : Nat) :
    ⦃fun w => ⌜view cfg w = v⌝⦄ checkAbort cfg tl a
    ⦃post⟨fun _ w => ⌜view cfg w = { v with mon := pollStep cfg v.mon }⌝,
          fun e w => ⌜(e ≠ .libAbort → Thrown w.trace e) ∧ (e.isAbort = false → Thrown w.trace e) ∧
            ((view cfg w).mon.hookFault = false → sameBut v (view cfg w)) ∧
            (e.isException = true → e ≠ .libAbort → (view cfg w).mon.hookFault = true) ∧
            cfg.abortIf = true⌝⟩⦄ := by
  have hop : isOp Req.abortIf = false := rfl
  mvcgen [checkAbort, ask]
  all_goals ((try subst_vars) <;> (try intros) <;>
    first
      | (simp_all +zetaDelta [view, step, pollStep, sameBut, Thrown.head, Thrown.stuck, Exn.isAbort, Exn.isException]; done)
      | (simp +zetaDelta [view, pollStep, *]; rfl)
      | skip)

/-! #### the operation -/

def opStep (cfg : Cfg) (m : St) (a : Ans) : St := step cfg m (.op 0, a)

theorem step_op (cfg : Cfg) (m : St) (n : Nat) (a : Ans) : step cfg m (.op n, a) = opStep cfg m a := rfl

theorem invokeOp_spec (a : Nat) :
    ⦃fun w => ⌜view cfg w = v⌝⦄ invokeOp a
    ⦃post⟨fun x w => ⌜view cfg w = { v with mon := opStep cfg v.mon (.value x 0) }⌝,
          fun e w => ⌜(e ≠ .stuck → view cfg w = { v with mon := opStep cfg v.mon (.raise e 0) }) ∧
            (view cfg w).mon.opAfterFault = (v.mon.opAfterFault || v.mon.fault) ∧
            (view cfg w).mon.hookFault = v.mon.hookFault⌝⟩⦄ := by
  mvcgen [invokeOp, ask]
  all_goals ((try subst_vars) <;> (try intros) <;>
    first
      | (simp_all +zetaDelta [view, step_op]; done)
      | (simp_all +zetaDelta [view, opStep, step]; done)
      | skip)

@[simp] theorem view_as (cfg : Cfg) (w : World) (x : AState) : view cfg { w with as := x } = view cfg w := rfl

/-! #### outcomes -/

/-- `_build_outcome` as a function of the view -/
def outcomeOf (v : View) (ok : Bool) (value : Option Nat) (attempts : Nat) (ns : Option Nat) (el : Nat) :
    Outcome :=
  { ok, value := if ok then value else none,
    stop := if ok then none else v.lastStop,
    attempts,
    lastClass := if ok then none else v.lastClass,
    lastExc := if !ok && v.lastCause = some .exception then v.lastExc.map Exn.ref else none,
    lastResult := if !ok && v.lastCause = some .result then v.lastResult else none,
    cause := if ok then none else v.lastCause,
    elapsed := el, nextSleep := ns }

/-- `o` is what `_build_outcome` makes of the view (whatever the elapsed time) -/
def IsOutcome (v : View) (ok : Bool) (value : Option Nat) (attempts : Nat) (ns : Option Nat) (o : Outcome) :
    Prop := ∃ el, o = outcomeOf v ok value attempts ns el

theorem buildOutcome_spec (ok : Bool) (value : Option Nat) (n : Nat) (ns : Option Nat) :
    ⦃fun w => ⌜view cfg w = v⌝⦄ buildOutcome ok value n ns
    ⦃post⟨fun o w => ⌜IsOutcome v ok value n ns o ∧ view cfg w = v⌝, fun _ _ => ⌜False⌝⟩⦄ := by
  mvcgen [buildOutcome, getRS, elapsed]
  all_goals (subst_vars; rename_i s; exact ⟨⟨s.now - s.rs.start, rfl⟩, rfl⟩)

attribute [local spec] buildOutcome_spec emitAbortedOnce_spec

theorem abortOutcome_spec (n : Nat) :
    ⦃fun w => ⌜view cfg w = v⌝⦄ abortOutcome cfg tl n
    ⦃post⟨fun o w => ⌜IsOutcome { v with lastStop := some .aborted } false none n none o ∧
            view cfg w = { v with lastStop := some .aborted }⌝,
          fun e w => ⌜Thrown w.trace e ∧ view cfg w = { v with lastStop := some .aborted } ∧
            e.isException = false⌝⟩⦄ := by
  mvcgen [abortOutcome]
  close_i
  all_goals (subst_vars; simp_all +zetaDelta)

/-- the stop reason a sleep-handler decision sets -/
def decisionStop (ls : Option StopReason) : SleepDecision → Option StopReason
  | .defer => some .scheduled
  | .abort => some .aborted
  | _ => ls

theorem handleSleepDecision_spec (act : SleepDecision) (a d : Nat) :
    ⦃fun w => ⌜view cfg w = v⌝⦄ handleSleepDecision cfg tl act a d
    ⦃post⟨fun r w => ⌜r = act ∧ act ≠ .other ∧ view cfg w = { v with lastStop := decisionStop v.lastStop act }⌝,
          fun e w => ⌜(act = .other → e = .libValueError) ∧ (act ≠ .other → Thrown w.trace e ∧ e.isException = false) ∧
            view cfg w = { v with lastStop := decisionStop v.lastStop act }⌝⟩⦄ := by
  mvcgen [handleSleepDecision, getRS]
  all_goals ((try subst_vars) <;> (try intros) <;>
    first
      | (simp_all +zetaDelta [view, decisionStop]; done)
      | skip)

theorem modifyAS_v (f : AState → AState) :
    ⦃fun w => ⌜view cfg w = v⌝⦄ modifyAS f ⦃post⟨fun _ w => ⌜view cfg w = v⌝, fun _ _ => ⌜False⌝⟩⦄ := by
  mvcgen [modifyAS]
  all_goals (subst_vars; simp_all +zetaDelta [view])

theorem getRS_v :
    ⦃fun w => ⌜view cfg w = v⌝⦄ getRS
    ⦃post⟨fun r w => ⌜view cfg w = v ∧ r.lastStop = v.lastStop ∧ r.lastClass = v.lastClass ∧
            r.lastExc = v.lastExc ∧ r.lastResult = v.lastResult ∧ r.lastCause = v.lastCause⌝,
          fun _ _ => ⌜False⌝⟩⦄ := by
  mvcgen [getRS]
  all_goals (subst_vars; simp_all +zetaDelta [view])

end leaves

attribute [local spec] emit_i callBeforeSleep_i budgetConsume_i callAttemptStart_h callAttemptEnd_h
  callAttemptEndFromOutcome_h handleAbortAttemptEnd_h callStrategy_f stratRecordFailure_f callSleeper_f
  recordStrategySuccess_s callSleepHandler_f shouldClassifyResult_f setStop_spec
  stopWith_spec emitAbortedOnce_spec checkAbort_spec invokeOp_spec buildOutcome_spec abortOutcome_spec
  handleSleepDecision_spec modifyAS_v getRS_v

/-! ### procedures shared by call() and execute(): what happens after a failure was classified -/

/-- a stop reason other than SCHEDULED is set -/
def hard : Option StopReason → Prop
  | some .scheduled => False
  | some _ => True
  | none => False

/-- what an exception out of the failure handling leaves behind -/
def CErr (u v : View) (e : Exn) : Prop :=
  v.mon.opAfterFault = u.mon.opAfterFault ∧ v.mon.hookFault = u.mon.hookFault ∧
    (e.isAbort = true → sameBut u v)

/-- where an exception that leaves the failure handling comes from: a callback, or the library's
    ValueError for a sleep handler that did not return a SleepDecision -/
def Src (cfg : Cfg) (w : World) (e : Exn) : Prop :=
  Thrown w.trace e ∨ (e = .libValueError ∧ (cur cfg w.trace).badDecision = true)

@[simp] theorem Src_of_thrown {cfg : Cfg} {w : World} {e : Exn} (h : Thrown w.trace e) : Src cfg w e :=
  Or.inl h

abbrev cerrPost (cfg : Cfg) (u : View) (Q : α → World → Prop) : PostCond α (.except Exn (.arg World .pure)) :=
  post⟨fun r w => ⌜Q r w⌝, fun e w => ⌜Src cfg w e ∧ CErr u (view cfg w) e⌝⟩

/-- equal but for what the sleep handler's answer sets -/
def hsame (m m' : St) : Prop :=
  m'.ops = m.ops ∧ m'.opExc = m.opExc ∧ m'.opVal = m.opVal ∧ m'.cls = m.cls ∧ m'.pending = m.pending ∧
  m'.succeeded = m.succeeded ∧ m'.earlierSuccess = m.earlierSuccess ∧ m'.recAt = m.recAt ∧
  m'.recExc = m.recExc ∧ m'.recVal = m.recVal ∧ m'.recCls = m.recCls ∧ m'.recCause = m.recCause ∧
  m'.abortedSuccess = m.abortedSuccess ∧ m'.fault = m.fault ∧ m'.opAfterFault = m.opAfterFault ∧
  m'.hookFault = m.hookFault

/-- equal but for the stop reason and the sleep handler's answer -/
def sameButH (u v : View) : Prop :=
  hsame u.mon v.mon ∧ v.lastExc = u.lastExc ∧ v.lastResult = u.lastResult ∧ v.lastClass = u.lastClass ∧
    v.lastCause = u.lastCause ∧ v.attempts = u.attempts

/-- what an exception out of the sleep phase leaves behind -/
def HErr (u v : View) (e : Exn) : Prop :=
  v.mon.opAfterFault = u.mon.opAfterFault ∧ v.mon.hookFault = u.mon.hookFault ∧
    (e.isAbort = true → sameButH u v ∧ (u.mon.deferred = false → v.mon.deferred = false))

macro "close_c" : tactic => `(tactic| all_goals (
  (try subst_vars) <;> (try intros) <;>
  first
    | (simp_all +zetaDelta [view, sameBut, sameButH, hsame, CErr, HErr, FErr, hard, handlerStep, decisionStop]; done)
    | skip))

section shared
variable (cfg : Cfg) (tl : Bool)

theorem grantRetry_spec (u : View) (c : Classification) (a : Nat) (cause : Cause) (e : Option Exn) (key : SKey)
    (kind : SKind) (rem : Nat) :
    ⦃fun w => ⌜view cfg w = u⌝⦄ grantRetry cfg tl c a cause e key kind rem
    ⦃cerrPost cfg u fun d w => sameBut u (view cfg w) ∧ (d = .raise → hard (view cfg w).lastStop)⦄ := by
  mvcgen [grantRetry, getRS, modifyRS]
  close_c

attribute [local spec] grantRetry_spec

theorem handleFailure2_spec (u : View) (c : Classification) (a : Nat) (cause : Cause) (e : Option Exn) :
    ⦃fun w => ⌜view cfg w = u⌝⦄ handleFailure2 cfg tl c a cause e
    ⦃cerrPost cfg u fun d w => sameBut u (view cfg w) ∧ (d = .raise → hard (view cfg w).lastStop)⦄ := by
  mvcgen [handleFailure2, elapsed, modifyRS]
  close_c

attribute [local spec] handleFailure2_spec

theorem handleUnknown_spec (u : View) (c : Classification) (a : Nat) (cause : Cause) (e : Option Exn) :
    ⦃fun w => ⌜view cfg w = u⌝⦄ handleUnknown cfg tl c a cause e
    ⦃cerrPost cfg u fun d w => sameBut u (view cfg w) ∧ (d = .raise → hard (view cfg w).lastStop)⦄ := by
  mvcgen [handleUnknown, getRS, modifyRS]
  close_c

attribute [local spec] handleUnknown_spec

theorem handleFailure1_spec (u : View) (c : Classification) (a : Nat) (cause : Cause) (e : Option Exn) :
    ⦃fun w => ⌜view cfg w = u⌝⦄ handleFailure1 cfg tl c a cause e
    ⦃cerrPost cfg u fun d w => sameBut u (view cfg w) ∧ (d = .raise → hard (view cfg w).lastStop)⦄ := by
  mvcgen [handleFailure1, getRS]
  close_c

attribute [local spec] handleFailure1_spec

/-- the view after `record_failure` -/
def recView (u : View) (c : Classification) (cause : Cause) (exc : Option Exn) (result : Option Nat) : View :=
  { u with lastClass := some c.klass, lastCause := some cause,
           lastExc := if cause = .exception then exc else none,
           lastResult := if cause = .exception then none else result }

theorem handleFailure_spec (u : View) (c : Classification) (a : Nat) (cause : Cause) (e : Option Exn)
    (r : Option Nat) :
    ⦃fun w => ⌜view cfg w = u⌝⦄ handleFailure cfg tl c a cause e r
    ⦃cerrPost cfg (recView u c cause e r) fun d w =>
      sameBut (recView u c cause e r) (view cfg w) ∧ (d = .raise → hard (view cfg w).lastStop)⦄ := by
  mvcgen [handleFailure, Retry.recordFailure, modifyRS]
  all_goals ((try subst_vars) <;> (try intros) <;>
    first
      | (simp_all +zetaDelta [view, sameBut, CErr, hard, recView]; done)
      | skip)

attribute [local spec] handleFailure_spec

/-- what `_finalize_attempt` returns, by case -/
def FinOK (u : View) (d : Decision) (act : Option SleepDecision) (o : AOutcome) (ls : Option StopReason) : Prop :=
  o.decision ≠ .success ∧
  (d = .raise → o.decision = .raise ∧ o.stop = u.lastStop ∧ o.sleep = none ∧ ls = u.lastStop) ∧
  (∀ sl ctx, d = .retry sl ctx →
    (act = some .defer → o.decision = .scheduled ∧ o.stop = some .scheduled ∧ o.sleep = some sl ∧ ls = u.lastStop) ∧
    (act = some .abort → o.decision = .aborted ∧ ls = u.lastStop) ∧
    (act ≠ some .defer → act ≠ some .abort →
      (o.decision = .raise ∧ hard o.stop ∧ o.sleep = none ∧ ls = o.stop) ∨
      (o.decision = .retry ∧ ls = u.lastStop)))

theorem finalizeAttempt_spec (u : View) (a : Nat) (d : Decision) (act : Option SleepDecision)
    (cls : Option Classification) (e : Option Exn) (r : Option Nat) (c : Option Cause) :
    ⦃fun w => ⌜view cfg w = u⌝⦄ finalizeAttempt cfg tl a d act cls e r c
    ⦃post⟨fun o w => ⌜sameBut u (view cfg w) ∧ FinOK u d act o (view cfg w).lastStop⌝,
          fun e w => ⌜Src cfg w e ∧ CErr u (view cfg w) e ∧ e.isException = false⌝⟩⦄ := by
  mvcgen [finalizeAttempt, getRS, elapsed]
  all_goals ((try subst_vars) <;> (try intros) <;>
    first
      | (simp_all +zetaDelta [view, sameBut, CErr, hard, FinOK]; done)
      | skip)

attribute [local spec] finalizeAttempt_spec

/-- what the sleep phase leaves in the monitor -/
def SleepOK (u : View) (sl : Nat) (r : SleepDecision) (v : View) : Prop :=
  r ≠ .other ∧ sameButH u v ∧ v.lastStop = decisionStop u.lastStop r ∧
    (r = .defer → v.mon.deferred = true ∧ v.mon.delay = some sl) ∧
    (r ≠ .defer → u.mon.deferred = false → v.mon.deferred = false)

theorem sleepAction_spec (u : View) (a sl : Nat) (ctx : BackoffCtx) :
    ⦃fun w => ⌜view cfg w = u⌝⦄ sleepAction cfg tl a sl ctx
    ⦃post⟨fun r w => ⌜SleepOK u sl r (view cfg w)⌝,
          fun e w => ⌜Src cfg w e ∧ HErr u (view cfg w) e⌝⟩⦄ := by
  mvcgen [sleepAction]
  all_goals ((try subst_vars) <;> (try intros) <;>
    first
      | (simp_all +zetaDelta [view, sameBut, sameButH, hsame, CErr, HErr, FErr, hard, handlerStep, decisionStop,
          SleepOK, Src]; done)
      | (cases ‹SleepDecision› <;> simp_all +zetaDelta [view, sameBut, sameButH, hsame, CErr, HErr, FErr, hard,
          handlerStep, decisionStop, SleepOK, Src, Exn.isAbort, not_isAbort_of_not_isException]; done)
      | skip)
  · rename_i s2 r s1 h1 e' s a2 a1 a0
    have hm : (view cfg s).mon = handlerStep (view cfg s2).mon sl r := by rw [a0, h1]
    have hna : e'.isAbort = false := by
      cases r
      · exact not_isAbort_of_not_isException _ (a1 (by simp)).2
      · exact not_isAbort_of_not_isException _ (a1 (by simp)).2
      · exact not_isAbort_of_not_isException _ (a1 (by simp)).2
      · rw [a2 rfl]; rfl
    refine ⟨?_, by rw [hm]; rfl, by rw [hm]; rfl, fun h => by rw [hna] at h; cases h⟩
    by_cases hr : r = .other
    · right
      refine ⟨a2 hr, ?_⟩
      have : (cur cfg s.trace) = (view cfg s).mon := rfl
      rw [this, hm, hr]; rfl
    · exact Or.inl (a1 hr).1


attribute [local spec] sleepAction_spec

/-- what `_sync_failure_outcome` returns and leaves behind -/
def FailOK (u : View) (d : Decision) (o : AOutcome) (v : View) : Prop :=
  o.decision ≠ .success ∧
  (o.decision = .scheduled → v.mon.deferred = true ∧ o.sleep = v.mon.delay ∧
      o.stop = some .scheduled ∧ v.lastStop = some .scheduled) ∧
  (o.decision ≠ .scheduled → u.mon.deferred = false → v.mon.deferred = false) ∧
  (o.decision = .raise → (d = .raise → hard u.lastStop) → hard o.stop ∧ o.sleep = none ∧ v.lastStop = o.stop) ∧
  (d = .raise → o.decision = .raise)

theorem failOK_of {u v1 v : View} {sl : Nat} {ctx : BackoffCtx} {r : SleepDecision} {o : AOutcome}
    (h1 : SleepOK u sl r v1) (h2 : sameBut v1 v) (h3 : FinOK v1 (.retry sl ctx) (some r) o v.lastStop) :
    sameButH u v ∧ FailOK u (.retry sl ctx) o v := by
  obtain ⟨hno, hsb, hst, hdef, hnd⟩ := h1
  obtain ⟨hns, _, h3⟩ := h3
  obtain ⟨hd, ha, hr⟩ := h3 sl ctx rfl
  unfold sameBut at h2
  unfold sameButH hsame at hsb
  refine ⟨by unfold sameButH hsame; simp_all, ?_⟩
  unfold FailOK
  cases r with
  | other => exact absurd rfl hno
  | defer => simp_all [decisionStop]
  | abort => simp_all [decisionStop]
  | sleep =>
    rcases hr (by simp) (by simp) with h | h
    · simp_all [decisionStop]
    · simp_all [decisionStop]

theorem failureOutcome_spec (u : View) (a : Nat) (d : Decision) (cls : Option Classification)
    (e : Option Exn) (r : Option Nat) (c : Option Cause) :
    ⦃fun w => ⌜view cfg w = u⌝⦄ failureOutcome cfg tl a d cls e r c
    ⦃post⟨fun o w => ⌜sameButH u (view cfg w) ∧ FailOK u d o (view cfg w)⌝,
          fun e w => ⌜Src cfg w e ∧ HErr u (view cfg w) e⌝⟩⦄ := by
  mvcgen [failureOutcome]
  all_goals ((try subst_vars) <;> (try intros) <;>
    first
      | (simp_all +zetaDelta [view, sameBut, sameButH, hsame, CErr, HErr, hard, decisionStop, SleepOK, FinOK,
          FailOK, not_isAbort_of_not_isException]; done)
      | exact failOK_of ‹_› ‹_› ‹_›
      | skip)

end shared

attribute [local spec] grantRetry_spec handleFailure2_spec handleUnknown_spec handleFailure1_spec
  finalizeAttempt_spec sleepAction_spec failureOutcome_spec

/-! ### the invariants -/

/-- the retry state describes the last recorded failure -/
def Sync (v : View) : Prop :=
  v.lastExc = v.mon.recExc ∧ v.lastResult = v.mon.recVal ∧ v.lastClass = v.mon.recCls.map (·.klass) ∧
    v.lastCause = v.mon.recCause

/-- the recorded failure is the last invocation's -/
def RecCur (m : St) : Prop :=
  m.recAt = m.ops ∧ m.recCls.isSome = true ∧ m.recCause.isSome = true ∧
  (m.recCause = some .exception → m.recExc = m.opExc ∧ m.opExc.isSome = true ∧ m.recVal = none) ∧
  (m.recCause = some .result → m.recVal = m.opVal ∧ m.opVal.isSome = true ∧ m.recExc = none)

/-- nothing has been recorded -/
def Fresh (m : St) : Prop :=
  m.recCause = none ∧ m.recExc = none ∧ m.recVal = none ∧ m.recCls = none ∧ m.recAt = 0

/-- at the head of the loop after `n` invocations, all failed, recorded and to be retried -/
def Hd (n : Nat) (v : View) : Prop :=
  v.mon.ops = n ∧ Sync v ∧ (n = 0 → Fresh v.mon) ∧ (0 < n → RecCur v.mon) ∧
    v.mon.succeeded = false ∧ v.mon.earlierSuccess = false ∧ v.mon.deferred = false ∧ v.mon.pending = false

/-- invocation `n + 1` raised `e` -/
def ExcP (n : Nat) (e : Exn) (v : View) : Prop :=
  v.mon.ops = n + 1 ∧ Sync v ∧ v.mon.opExc = some e ∧ v.mon.opVal = none ∧ v.mon.cls = none ∧
    v.mon.succeeded = false ∧ v.mon.earlierSuccess = false ∧ v.mon.deferred = false ∧ v.mon.pending = false

/-- invocation `n + 1` returned `x` -/
def ValP (cfg : Cfg) (n : Nat) (x : Nat) (v : View) : Prop :=
  v.mon.ops = n + 1 ∧ Sync v ∧ v.mon.opExc = none ∧ v.mon.opVal = some x ∧ v.mon.cls = none ∧
    v.mon.succeeded = (!cfg.resultClassifier) ∧ v.mon.earlierSuccess = false ∧ v.mon.deferred = false ∧
    v.mon.pending = false

/-- the failure of invocation `n + 1` is recorded, in the monitor and in the retry state -/
def RecP (n : Nat) (v : View) : Prop :=
  v.mon.ops = n + 1 ∧ Sync v ∧ RecCur v.mon ∧ v.mon.succeeded = false ∧ v.mon.earlierSuccess = false ∧
    v.mon.pending = false

/-- how call() may end with exception `e` (the monitor's verdict as a proposition) -/
def ErrC (cfg : Cfg) (m : St) (t : List (Req × Ans)) (e : Exn) : Prop :=
  (opRaised m e = true ∧ m.deferred = false) ∨ Thrown t e ∨ e = .libAbort ∨
  (e = .libValueError ∧ m.badDecision = true) ∨
  (∃ f, e = .libExhausted f ∧ fieldsOk m f = true) ∨
  (e = .libRuntimeError ∧ cfg.maxAttempts = 0 ∧ m.ops = 0)

abbrev errC (cfg : Cfg) : Exn → World → Prop := fun e w => ErrC cfg (view cfg w).mon w.trace e

@[simp] theorem ErrC_of_thrown {cfg : Cfg} {m : St} {t : List (Req × Ans)} {e : Exn} (h : Thrown t e) :
    ErrC cfg m t e := Or.inr (Or.inl h)

theorem ErrC_of_src {cfg : Cfg} {w : World} {e : Exn} (h : Src cfg w e) :
    ErrC cfg (view cfg w).mon w.trace e := by
  rcases h with h | ⟨h1, h2⟩
  · exact ErrC_of_thrown h
  · exact Or.inr (Or.inr (Or.inr (Or.inl ⟨h1, h2⟩)))

@[simp] theorem ErrC_libAbort {cfg : Cfg} {m : St} {t : List (Req × Ans)} : ErrC cfg m t .libAbort :=
  Or.inr (Or.inr (Or.inl rfl))

theorem ErrC_stuck {cfg : Cfg} {m : St} {t : List (Req × Ans)} : ErrC cfg m t .stuck :=
  ErrC_of_thrown (Thrown.stuck t)

theorem ErrC_op {cfg : Cfg} {m : St} {t : List (Req × Ans)} {e : Exn} (h : m.opExc = some e)
    (hd : m.deferred = false) : ErrC cfg m t e := by
  left
  simp [opRaised, h, hd]

/-! ### how an attempt of call() ends -/

/-- the exception `deliverCall` raises for an attempt outcome (`stuck`: none, the loop goes on) -/
def callThrow (o : AOutcome) (r : RState) (a : Nat) (fr : Bool) (orig : Option Exn) (fb : ExhaustedFields) :
    Exn :=
  match determineAction o r a fr with
  | .continue_ => .stuck
  | .abort => .libAbort
  | .scheduled f => .libExhausted f
  | .raise => match orig with
    | some e => e
    | none => .libExhausted fb

theorem determineAction_continue_iff (o : AOutcome) (r : RState) (a : Nat) (fr : Bool) :
    determineAction o r a fr = .continue_ ↔ o.decision = .retry := by
  unfold determineAction
  cases o.decision <;> cases fr <;> simp

theorem deliverCall_spec (cfg : Cfg) (v : View) (o : AOutcome) (r : RState) (a : Nat) (fr : Bool)
    (orig : Option Exn) (fb : ExhaustedFields) :
    ⦃fun w => ⌜view cfg w = v⌝⦄ deliverCall (determineAction o r a fr) orig fb
    ⦃post⟨fun x w => ⌜x = none ∧ o.decision = .retry ∧ view cfg w = v⌝,
          fun e w => ⌜e = callThrow o r a fr orig fb ∧ o.decision ≠ .retry ∧ view cfg w = v⌝⟩⦄ := by
  have hc := determineAction_continue_iff o r a fr
  unfold callThrow
  cases h : determineAction o r a fr with
  | continue_ => mvcgen [deliverCall]; simp_all
  | abort => mvcgen [deliverCall]; simp_all
  | scheduled f => mvcgen [deliverCall]; simp_all
  | raise =>
    cases orig with
    | none => mvcgen [deliverCall]; simp_all
    | some e => mvcgen [deliverCall]; simp_all

theorem errC_exc {cfg : Cfg} {n a : Nat} {e : Exn} {u v : View} {d : Decision} {o : AOutcome} {r : RState}
    {t : List (Req × Ans)} (ha : a = n + 1) (hrec : RecP n v) (hexc : v.mon.opExc = some e)
    (hcause : v.mon.recCause = some .exception) (hf : FailOK u d o v) (hud : u.mon.deferred = false)
    (hr : r.lastStop = v.lastStop ∧ r.lastClass = v.lastClass ∧ r.lastExc = v.lastExc ∧
      r.lastResult = v.lastResult) (hnr : o.decision ≠ .retry) :
    ErrC cfg v.mon t (callThrow o r a false (some e) default) := by
  obtain ⟨hops, ⟨hs1, hs2, hs3, hs4⟩, ⟨hat, hcls, _, hcur, _⟩, _, _, _⟩ := hrec
  obtain ⟨hns, hsch, hnsch, hraise, _⟩ := hf
  obtain ⟨hr1, hr2, hr3, hr4⟩ := hr
  obtain ⟨hre, hoe, hrv⟩ := hcur hcause
  unfold callThrow determineAction
  cases hdec : o.decision with
  | success => exact absurd hdec hns
  | retry => exact absurd hdec hnr
  | aborted => simp
  | raise =>
    simp only []
    exact ErrC_op hexc (hnsch (by simp [hdec]) hud)
  | scheduled =>
    obtain ⟨hdef, hsl, hst, _⟩ := hsch hdec
    right; right; right; right; left
    refine ⟨_, rfl, ?_⟩
    simp [fieldsOk, hops, ha, hat, hr2, hs3, hcause, hr3, hs1, hdef, hst, hsl, hre, hoe]
    rfl

theorem errC_res {cfg : Cfg} {n a : Nat} {u v : View} {d : Decision} {o : AOutcome} {r : RState}
    {t : List (Req × Ans)} {fb : ExhaustedFields} (ha : a = n + 1) (hrec : RecP n v)
    (hcause : v.mon.recCause = some .result) (hf : FailOK u d o v) (hud : u.mon.deferred = false)
    (hh : d = .raise → hard u.lastStop)
    (hr : r.lastStop = v.lastStop ∧ r.lastClass = v.lastClass ∧ r.lastExc = v.lastExc ∧
      r.lastResult = v.lastResult) (hnr : o.decision ≠ .retry) :
    ErrC cfg v.mon t (callThrow o r a true none fb) := by
  obtain ⟨hops, ⟨hs1, hs2, hs3, hs4⟩, ⟨hat, hcls, _, _, hcur⟩, _, _, _⟩ := hrec
  obtain ⟨hns, hsch, hnsch, hraise, _⟩ := hf
  obtain ⟨hr1, hr2, hr3, hr4⟩ := hr
  obtain ⟨hrv, hov, hre⟩ := hcur hcause
  unfold callThrow determineAction
  cases hdec : o.decision with
  | success => exact absurd hdec hns
  | retry => exact absurd hdec hnr
  | aborted => simp
  | raise =>
    obtain ⟨hhard, hsl, _⟩ := hraise hdec hh
    have hnd := hnsch (by simp [hdec]) hud
    right; right; right; right; left
    refine ⟨_, rfl, ?_⟩
    cases hos : o.stop with
    | none => simp [hos, hard] at hhard
    | some st =>
      cases st <;> simp_all [fieldsOk, hard]
  | scheduled =>
    obtain ⟨hdef, hsl, hst, _⟩ := hsch hdec
    right; right; right; right; left
    refine ⟨_, rfl, ?_⟩
    simp [fieldsOk, hops, ha, hat, hr2, hs3, hcause, hr4, hs2, hdef, hst, hsl, hrv, hov]

/-! ### transitions of the invariant (pure) -/

theorem pollStep_idle (cfg : Cfg) (m : St) (h : m.pending = false) : pollStep cfg m = m := by
  unfold pollStep step
  simp [h]

@[simp] theorem ErrC_of_src' {cfg : Cfg} {w : World} {e : Exn} (h : Src cfg w e) :
    ErrC cfg (view cfg w).mon w.trace e := ErrC_of_src h

@[simp] theorem ErrC_of_abortish {cfg : Cfg} {m : St} {t : List (Req × Ans)} {e : Exn}
    (h : e ≠ .libAbort → Thrown t e) : ErrC cfg m t e := by
  by_cases he : e = .libAbort
  · subst he; exact ErrC_libAbort
  · exact ErrC_of_thrown (h he)

theorem Hd.opExc {cfg : Cfg} {n : Nat} {u : View} (h : Hd n u) (e : Exn) (d : Nat) :
    ExcP n e { u with mon := opStep cfg u.mon (.raise e d) } := by
  obtain ⟨h1, h2, _, _, h5, h6, h7, h8⟩ := h
  simp_all [ExcP, Sync, opStep, step]

theorem Hd.opVal {cfg : Cfg} {n : Nat} {u : View} (h : Hd n u) (x : Nat) (d : Nat) :
    ValP cfg n x { u with mon := opStep cfg u.mon (.value x d) } := by
  obtain ⟨h1, h2, _, _, h5, h6, h7, h8⟩ := h
  simp_all [ValP, Sync, opStep, step]

theorem ExcP.rec {cfg : Cfg} {n : Nat} {e : Exn} {u : View} (h : ExcP n e u) (c : Classification) (ls : Option StopReason) :
    let v := recView { u with mon := clsStep cfg u.mon c, lastStop := ls } c .exception (some e) none
    RecP n v ∧ v.mon.opExc = some e ∧ v.mon.recCause = some .exception ∧ v.mon.deferred = false := by
  obtain ⟨h1, h2, h3, h4, h5, h6, h7, h8, h9⟩ := h
  simp_all [RecP, RecCur, Sync, recView, clsStep, step, record]

theorem ValP.rec {cfg : Cfg} {n x : Nat} {u : View} (h : ValP cfg n x u) (hrc : cfg.resultClassifier = true)
    (c : Classification) (ls : Option StopReason) :
    let v := recView { u with mon := pollStep cfg (resStep cfg u.mon (some c)), lastStop := ls } c .result none (some x)
    RecP n v ∧ v.mon.recCause = some .result ∧ v.mon.deferred = false := by
  obtain ⟨h1, h2, h3, h4, h5, h6, h7, h8, h9⟩ := h
  cases hab : cfg.abortIf <;>
    simp_all [RecP, RecCur, Sync, recView, pollStep, resStep, step, record]

/-! ### call mode -/

@[simp] theorem isRaise_iff (d : Decision) : d.isRaise = true ↔ d = .raise := by
  cases d <;> simp [Decision.isRaise]

/-- one attempt: either the loop goes on with the invariant, or a value is returned as the monitor
    wants it; every exception is one the monitor accepts -/
abbrev attemptPostC (cfg : Cfg) (n : Nat) : PostCond (Option Nat) (.except Exn (.arg World .pure)) :=
  post⟨fun r w => ⌜match r with
                   | none => Hd (n + 1) (view cfg w)
                   | some x => (view cfg w).mon.succeeded = true ∧ (view cfg w).mon.earlierSuccess = false ∧
                       (view cfg w).mon.opVal = some x⌝,
       fun e w => ⌜ErrC cfg (view cfg w).mon w.trace e⌝⟩

/-- `FailOK` without reference to the view before -/
def FailOK' (o : AOutcome) (v : View) : Prop :=
  o.decision ≠ .success ∧
  (o.decision = .scheduled → v.mon.deferred = true ∧ o.sleep = v.mon.delay ∧
      o.stop = some .scheduled ∧ v.lastStop = some .scheduled) ∧
  (o.decision ≠ .scheduled → v.mon.deferred = false) ∧
  (o.decision = .raise → hard o.stop ∧ o.sleep = none ∧ v.lastStop = o.stop)

theorem FailOK.strip {u v : View} {d : Decision} {o : AOutcome} (h : FailOK u d o v)
    (hd : u.mon.deferred = false) (hh : d = .raise → hard u.lastStop) : FailOK' o v := by
  obtain ⟨h1, h2, h3, h4, h5⟩ := h
  exact ⟨h1, h2, fun hn => h3 hn hd, fun hr => h4 hr hh⟩

theorem errC_exc' {cfg : Cfg} {n a : Nat} {e : Exn} {v : View} {o : AOutcome} {r : RState}
    {t : List (Req × Ans)} (ha : a = n + 1) (hrec : RecP n v) (hexc : v.mon.opExc = some e)
    (hcause : v.mon.recCause = some .exception) (hf : FailOK' o v)
    (hr : r.lastStop = v.lastStop ∧ r.lastClass = v.lastClass ∧ r.lastExc = v.lastExc ∧
      r.lastResult = v.lastResult) (hnr : o.decision ≠ .retry) :
    ErrC cfg v.mon t (callThrow o r a false (some e) default) := by
  obtain ⟨h1, h2, h3, h4⟩ := hf
  exact errC_exc (u := { v with mon := { v.mon with deferred := false } }) (d := .retry 0 default) ha hrec hexc
    hcause ⟨h1, h2, fun hn _ => h3 hn, fun hr _ => h4 hr, fun h => by cases h⟩ rfl hr hnr

theorem errC_res' {cfg : Cfg} {n a : Nat} {v : View} {o : AOutcome} {r : RState}
    {t : List (Req × Ans)} {fb : ExhaustedFields} (ha : a = n + 1) (hrec : RecP n v)
    (hcause : v.mon.recCause = some .result) (hf : FailOK' o v)
    (hr : r.lastStop = v.lastStop ∧ r.lastClass = v.lastClass ∧ r.lastExc = v.lastExc ∧
      r.lastResult = v.lastResult) (hnr : o.decision ≠ .retry) :
    ErrC cfg v.mon t (callThrow o r a true none fb) := by
  obtain ⟨h1, h2, h3, h4⟩ := hf
  exact errC_res (u := { v with mon := { v.mon with deferred := false }, lastStop := some .aborted })
    (d := .retry 0 default) ha hrec hcause
    ⟨h1, h2, fun hn _ => h3 hn, fun hr _ => h4 hr, fun h => by cases h⟩ rfl (fun h => by cases h) hr hnr

/-- the loop goes on: the invariant at the head of the next iteration -/
theorem RecP.next {n : Nat} {v : View} {o : AOutcome} (h : RecP n v) (hf : FailOK' o v)
    (hr : o.decision = .retry) : Hd (n + 1) v := by
  obtain ⟨h1, h2, h3, h4, h5, h6⟩ := h
  obtain ⟨_, _, hd, _⟩ := hf
  exact ⟨h1, h2, fun h => by omega, fun _ => h3, h4, h5, hd (by simp [hr]), h6⟩

/-- the end of an attempt of call() that failed with exception `e` -/
theorem deliverCall_exc (cfg : Cfg) (n a : Nat) (e : Exn) (ha : a = n + 1) (u : View)
    (o : AOutcome) (r : RState) (hrec : RecP n u) (hexc : u.mon.opExc = some e)
    (hcause : u.mon.recCause = some .exception) (hf : FailOK' o u)
    (hr : r.lastStop = u.lastStop ∧ r.lastClass = u.lastClass ∧ r.lastExc = u.lastExc ∧
      r.lastResult = u.lastResult) :
    ⦃fun w => ⌜view cfg w = u⌝⦄ deliverCall (determineAction o r a false) (some e) default
    ⦃post⟨fun x w => ⌜x = none ∧ Hd (n + 1) (view cfg w)⌝,
          fun e' w => ⌜ErrC cfg (view cfg w).mon w.trace e'⌝⟩⦄ := by
  have hdc := deliverCall_spec cfg u o r a false (some e) default
  mvcgen [hdc]
  · intro h1 h2 h3
    exact ⟨h1, by rw [h3]; exact hrec.next hf h2⟩
  · intro h1 h2 h3
    subst h1
    rw [h3]
    exact errC_exc' ha hrec hexc hcause hf hr h2

/-- the end of an attempt of call() that failed with a result -/
theorem deliverCall_res (cfg : Cfg) (n a : Nat) (ha : a = n + 1) (u : View)
    (o : AOutcome) (r : RState) (fb : ExhaustedFields) (hrec : RecP n u)
    (hcause : u.mon.recCause = some .result) (hf : FailOK' o u)
    (hr : r.lastStop = u.lastStop ∧ r.lastClass = u.lastClass ∧ r.lastExc = u.lastExc ∧
      r.lastResult = u.lastResult) :
    ⦃fun w => ⌜view cfg w = u⌝⦄ deliverCall (determineAction o r a true) none fb
    ⦃post⟨fun x w => ⌜x = none ∧ Hd (n + 1) (view cfg w)⌝,
          fun e' w => ⌜ErrC cfg (view cfg w).mon w.trace e'⌝⟩⦄ := by
  have hdc := deliverCall_spec cfg u o r a true none fb
  mvcgen [hdc]
  · intro h1 h2 h3
    exact ⟨h1, by rw [h3]; exact hrec.next hf h2⟩
  · intro h1 h2 h3
    subst h1
    rw [h3]
    exact errC_res' ha hrec hcause hf hr h2

/-- `check_abort` when no result failure awaits recording: the monitor does not move -/
theorem checkAbort_idle (cfg : Cfg) (tl : Bool) (a : Nat) (u : View) (hp : u.mon.pending = false) :
    ⦃fun w => ⌜view cfg w = u⌝⦄ checkAbort cfg tl a
    ⦃post⟨fun _ w => ⌜view cfg w = u⌝,
          fun e w => ⌜(e ≠ .libAbort → Thrown w.trace e) ∧ (e.isAbort = false → Thrown w.trace e) ∧
            ((view cfg w).mon.hookFault = false → sameBut u (view cfg w))⌝⟩⦄ := by
  have hc := checkAbort_spec cfg u tl a
  have hi := pollStep_idle cfg u.mon hp
  mvcgen [hc]
  all_goals ((try subst_vars) <;> (try intros))
  all_goals (try (simp_all +zetaDelta; done))
  all_goals (try exact ⟨by assumption, by assumption, by assumption⟩)

/-- the sleep phase and the attempt's verdict, once the failure is recorded -/
theorem failureOutcome_rec (cfg : Cfg) (tl : Bool) (n a : Nat) (d : Decision) (cls : Option Classification)
    (e : Option Exn) (r : Option Nat) (c : Option Cause) (u : View) (h : RecP n u)
    (hd : u.mon.deferred = false) (hh : d = .raise → hard u.lastStop) :
    ⦃fun w => ⌜view cfg w = u⌝⦄ failureOutcome cfg tl a d cls e r c
    ⦃post⟨fun o w => ⌜RecP n (view cfg w) ∧ FailOK' o (view cfg w) ∧ sameButH u (view cfg w)⌝,
          fun e w => ⌜Src cfg w e ∧ HErr u (view cfg w) e⌝⟩⦄ := by
  have hf := failureOutcome_spec cfg tl u a d cls e r c
  mvcgen [hf]
  all_goals ((try subst_vars) <;> (try intros))
  all_goals (try (simp_all +zetaDelta; done))
  rename_i h1 h2
  refine ⟨?_, h2.strip hd hh, h1⟩
  obtain ⟨hs, h3, h4, h5, h6, h7⟩ := h1
  unfold hsame at hs
  obtain ⟨r1, r2, r3, r4, r5, r6⟩ := h
  simp_all [RecP, RecCur, Sync]

theorem ExcP.rec' {cfg : Cfg} {n : Nat} {e : Exn} {u v : View} {c : Classification} (h : ExcP n e u)
    (hs : sameBut (recView { u with mon := clsStep cfg u.mon c } c .exception (some e) none) v) :
    RecP n v ∧ v.mon.opExc = some e ∧ v.mon.recCause = some .exception ∧ v.mon.deferred = false := by
  obtain ⟨h1, h2, h3, h4, h5, h6, h7, h8, h9⟩ := h
  obtain ⟨s1, s2, s3, s4, s5, s6⟩ := hs
  simp_all [RecP, RecCur, Sync, recView, clsStep, step, record]

theorem ValP.rec' {cfg : Cfg} {n x : Nat} {u v : View} {c : Classification} (h : ValP cfg n x u)
    (hrc : cfg.resultClassifier = true)
    (hs : sameBut (recView { u with mon := pollStep cfg (resStep cfg u.mon (some c)) } c .result none (some x)) v) :
    RecP n v ∧ v.mon.recCause = some .result ∧ v.mon.deferred = false := by
  obtain ⟨h1, h2, h3, h4, h5, h6, h7, h8, h9⟩ := h
  obtain ⟨s1, s2, s3, s4, s5, s6⟩ := hs
  cases hab : cfg.abortIf <;>
    simp_all [RecP, RecCur, Sync, recView, pollStep, resStep, step, record]

/-- classification and recording of an exception-caused failure -/
theorem handleException_exc (cfg : Cfg) (tl : Bool) (n : Nat) (e : Exn) (a : Nat) (u : View) (h : ExcP n e u) :
    ⦃fun w => ⌜view cfg w = u⌝⦄ handleException cfg tl e a
    ⦃post⟨fun d w => ⌜RecP n (view cfg w) ∧ (view cfg w).mon.opExc = some e ∧
            (view cfg w).mon.recCause = some .exception ∧ (view cfg w).mon.deferred = false ∧
            (d = .raise → hard (view cfg w).lastStop)⌝,
          fun e' w => ⌜Src cfg w e'⌝⟩⦄ := by
  mvcgen [handleException, handleFailure_spec, callClassifier_f]
  all_goals ((try subst_vars) <;> (try intros))
  all_goals (try (simp_all +zetaDelta [FErr, CErr]; done))
  rename_i h1 _ _ h3 h4
  rw [h1] at h3
  have := h.rec' h3
  exact ⟨this.1, this.2.1, this.2.2.1, this.2.2.2, h4⟩

macro "close_call" : tactic => `(tactic| (
  (all_goals ((try subst_vars) <;> (try intros)));
  (all_goals (try (simp_all +zetaDelta [sameBut, sameButH, hsame, CErr, HErr, FErr]; done)));
  (all_goals (try (simp_all +zetaDelta [sameBut, sameButH, hsame, CErr, HErr, FErr, ExcP, RecP, RecCur, Sync, FailOK,
    FailOK', pollStep_idle]; done)))))

theorem callExceptionPath_spec (cfg : Cfg) (a : Nat) (e : Exn) (n : Nat) (u : View) (h : ExcP n e u)
    (ha : a = n + 1) :
    ⦃fun w => ⌜view cfg w = u⌝⦄ callExceptionPath cfg a e ⦃attemptPostC cfg n⦄ := by
  have hdc := deliverCall_exc cfg n a e ha
  have hex := handleException_exc cfg false n e a
  mvcgen [callExceptionPath, hdc, hex]
  all_goals ((try subst_vars) <;> (try intros))
  all_goals (try clear hdc hex)
  close_call

/-- the `except` ladder around the operation; `e = stuck` when the answer was ill-shaped -/
theorem callOpHandler_spec (cfg : Cfg) (a : Nat) (e : Exn) (n : Nat) (u : View)
    (h : e ≠ .stuck → ExcP n e u) (ha : a = n + 1) :
    ⦃fun w => ⌜view cfg w = u⌝⦄ callOpHandler cfg a e ⦃attemptPostC cfg n⦄ := by
  have hx := callExceptionPath_spec cfg a e n
  by_cases hs : e = .stuck
  · subst hs
    mvcgen [callOpHandler]
    all_goals simp_all [ErrC_stuck, Exn.isAbort, Exn.isKiSe, Exn.isExhausted, Exn.isException]
  · have h' := h hs
    mvcgen [callOpHandler, hx]
    close_call
    all_goals (apply ErrC_op <;> (simp_all +zetaDelta [view, ExcP]; done))

attribute [local spec] callOpHandler_spec

/-- recording of a result-caused failure, after the abort poll -/
theorem handleFailure_res (cfg : Cfg) (tl : Bool) (n x : Nat) (c : Classification) (a : Nat) (u : View)
    (h : ValP cfg n x u) (hrc : cfg.resultClassifier = true) :
    ⦃fun w => ⌜view cfg w = { u with mon := pollStep cfg (resStep cfg u.mon (some c)) }⌝⦄
    handleFailure cfg tl c a .result none (some x)
    ⦃post⟨fun d w => ⌜RecP n (view cfg w) ∧ (view cfg w).mon.recCause = some .result ∧
            (view cfg w).mon.deferred = false ∧ (d = .raise → hard (view cfg w).lastStop)⌝,
          fun e' w => ⌜Src cfg w e'⌝⟩⦄ := by
  have hf := handleFailure_spec cfg tl { u with mon := pollStep cfg (resStep cfg u.mon (some c)) } c a
    .result none (some x)
  mvcgen [hf]
  all_goals ((try subst_vars) <;> (try intros))
  all_goals (try (simp_all +zetaDelta [FErr, CErr]; done))
  rename_i h1 _ _ h3 h4
  have := h.rec' hrc h3
  exact ⟨this.1, this.2.1, this.2.2, h4⟩

theorem callResultPath_spec (cfg : Cfg) (a x : Nat) (n : Nat) (u : View) (h : ValP cfg n x u)
    (ha : a = n + 1) :
    ⦃fun w => ⌜view cfg w = u⌝⦄ callResultPath cfg a x ⦃attemptPostC cfg n⦄ := by
  have hdc := deliverCall_res cfg n a ha
  have hf := fun c => handleFailure_res cfg false n x c a u h
  mvcgen [callResultPath, callResultFailure, handleSuccessAttemptEnd, hdc, hf]
  all_goals ((try subst_vars) <;> (try intros))
  all_goals (try clear hdc hf)
  close_call
  all_goals (try (cases hrc : cfg.resultClassifier <;> simp_all +zetaDelta [ValP, resStep, SErr]; done))
  all_goals (try (simp_all +zetaDelta [sameBut, sameButH, hsame, RecP, RecCur, Sync, FailOK, FailOK', pollStep_idle]))

attribute [local spec] callResultPath_spec

theorem callAttempt_spec (cfg : Cfg) (a n : Nat) (u : View) (h : Hd n u) (ha : a = n + 1) :
    ⦃fun w => ⌜view cfg w = u⌝⦄ callAttempt cfg a ⦃attemptPostC cfg n⦄ := by
  have hoh := fun e v hv => callOpHandler_spec cfg a e n v hv ha
  have hrp := fun x v hv => callResultPath_spec cfg a x n v hv ha
  mvcgen [callAttempt, hoh, hrp]
  all_goals ((try subst_vars) <;> (try intros))
  all_goals (try clear hoh hrp)
  close_call
  all_goals (try (simp_all +zetaDelta [restore_dummy, Hd, ValP, ExcP, Sync, pollStep_idle, opStep, step]; done))

/-- the fields of the RetryExhaustedError `raise_exhausted_call` makes -/
def exhFields (cfg : Cfg) (lc : Option EClass) (lr : Option Nat) : ExhaustedFields :=
  { stop := .maxAttemptsGlobal, attempts := cfg.maxAttempts, lastClass := lc, lastExc := none, lastResult := lr,
    nextSleep := none }

/-- the loop ran out of attempts -/
theorem exhausted_errC {cfg : Cfg} {n : Nat} {v : View} {t : List (Req × Ans)} (h : Hd n v)
    (hn : n = cfg.maxAttempts) :
    (v.lastCause = some .result → ErrC cfg v.mon t (.libExhausted (exhFields cfg v.lastClass v.lastResult))) ∧
    (¬ v.lastCause = some .result → ∀ e, v.lastExc = some e → ErrC cfg v.mon t e) ∧
    (¬ v.lastCause = some .result → v.lastExc = none → ErrC cfg v.mon t .libRuntimeError) := by
  obtain ⟨hops, ⟨hs1, hs2, hs3, hs4⟩, hfresh, hrec, _, _, hdef, _⟩ := h
  rcases Nat.eq_zero_or_pos n with h0 | hpos
  · obtain ⟨f1, f2, f3, f4, f5⟩ := hfresh h0
    refine ⟨fun hc => ?_, fun _ e he => ?_, fun _ _ => ?_⟩
    · rw [hs4, f1] at hc; cases hc
    · rw [hs1, f2] at he; cases he
    · right; right; right; right; right
      exact ⟨rfl, by omega, by omega⟩
  · obtain ⟨hat, hcls, hcs, hce, hcr⟩ := hrec hpos
    refine ⟨fun hc => ?_, fun hc e he => ?_, fun hc he => ?_⟩
    · rw [hs4] at hc
      obtain ⟨r1, r2, r3⟩ := hcr hc
      right; right; right; right; left
      refine ⟨_, rfl, ?_⟩
      simp [fieldsOk, exhFields, hops, ← hn, hat, hs3, hc, hs2, r1, r2, hdef]
    · rw [hs4] at hc
      have hexc : v.mon.recCause = some .exception := by
        cases hcc : v.mon.recCause with
        | none => simp [hcc] at hcs
        | some c => cases c <;> simp_all
      obtain ⟨r1, r2, r3⟩ := hce hexc
      rw [hs1, r1] at he
      exact ErrC_op he hdef
    · rw [hs4] at hc
      have hexc : v.mon.recCause = some .exception := by
        cases hcc : v.mon.recCause with
        | none => simp [hcc] at hcs
        | some c => cases c <;> simp_all
      obtain ⟨r1, r2, r3⟩ := hce hexc
      rw [hs1, r1] at he
      rw [he] at r2
      cases r2

theorem raiseExhaustedCall_spec (cfg : Cfg) (n : Nat) (u : View) (h : Hd n u) (hn : n = cfg.maxAttempts) :
    ⦃fun w => ⌜view cfg w = u⌝⦄ raiseExhaustedCall cfg
    ⦃post⟨fun _ _ => ⌜False⌝, fun e w => ⌜ErrC cfg (view cfg w).mon w.trace e⌝⟩⦄ := by
  have hx := fun t => exhausted_errC (t := t) h hn
  mvcgen [raiseExhaustedCall, emitMaxAttemptsExceeded]
  all_goals (try (intros; exact cfg))
  all_goals ((try subst_vars) <;> (try intros))
  all_goals (try (simp_all +zetaDelta [exhFields]; done))

/-- how call() ends: the returned value is the last invocation's, accepted as success, and no
    earlier invocation was; every exception is one the monitor accepts -/
abbrev callPost (cfg : Cfg) : PostCond Nat (.except Exn (.arg World .pure)) :=
  post⟨fun x w => ⌜(view cfg w).mon.succeeded = true ∧ (view cfg w).mon.earlierSuccess = false ∧
          (view cfg w).mon.opVal = some x⌝,
       fun e w => ⌜ErrC cfg (view cfg w).mon w.trace e⌝⟩

theorem callLoop_spec (cfg : Cfg) : ∀ (fuel a n : Nat) (u : View), Hd n u → a = n + 1 →
    n + fuel = cfg.maxAttempts →
    ⦃fun w => ⌜view cfg w = u⌝⦄ callLoop cfg fuel a ⦃callPost cfg⦄ := by
  intro fuel
  induction fuel with
  | zero =>
    intro a n u h ha hn
    have hx := raiseExhaustedCall_spec cfg n u h (by omega)
    mvcgen [callLoop, hx]
    all_goals (intros; simp_all)
  | succ f ih =>
    intro a n u h ha hn
    have hat := callAttempt_spec cfg a n u h ha
    mvcgen [callLoop, hat]
    all_goals ((try subst_vars) <;> (try intros))
    all_goals (try (simp_all +zetaDelta; done))
    rename_i s hs
    exact ih (n + 1 + 1) (n + 1) (view cfg s) (by simpa using hs) rfl (by omega) s rfl

/-- the view of a freshly initialised run -/
def view0 : View := ⟨{}, none, none, none, none, none, 0⟩

theorem Hd.init : Hd 0 view0 := by
  simp [Hd, view0, Sync, Fresh]

theorem initState_spec (cfg : Cfg) :
    ⦃fun w => ⌜cur cfg w.trace = {}⌝⦄ initState
    ⦃post⟨fun _ w => ⌜view cfg w = view0⌝, fun _ _ => ⌜False⌝⟩⦄ := by
  mvcgen [initState]
  all_goals (simp_all +zetaDelta [view, view0])

/-- `Retry.call` (and its async twin) -/
theorem runCall_spec (cfg : Cfg) :
    ⦃fun w => ⌜cur cfg w.trace = {}⌝⦄ runCall cfg ⦃callPost cfg⦄ := by
  have hloop := callLoop_spec cfg cfg.maxAttempts 1 0 view0 Hd.init rfl (by omega)
  have hi := initState_spec cfg
  mvcgen [runCall, hloop, hi]

/-! ### policy level -/
open Policy

/-- `w'` arises from `w` by exchanges whose request kinds satisfy `K`; the retry state is untouched -/
def PExt (K : Kind → Bool) (w w' : World) : Prop :=
  (∃ δ, w'.trace = δ ++ w.trace ∧ ∀ x ∈ δ, K x.1.kind = true) ∧ w'.rs = w.rs ∧ w'.attempts = w.attempts

theorem PExt.refl (K : Kind → Bool) (w : World) : PExt K w w := ⟨⟨[], rfl, by simp⟩, rfl, rfl⟩

theorem PExt.trans {K : Kind → Bool} {w₁ w₂ w₃ : World} (h₁ : PExt K w₁ w₂) (h₂ : PExt K w₂ w₃) : PExt K w₁ w₃ := by
  obtain ⟨⟨δ₁, e₁, k₁⟩, r₁, a₁⟩ := h₁
  obtain ⟨⟨δ₂, e₂, k₂⟩, r₂, a₂⟩ := h₂
  refine ⟨⟨δ₂ ++ δ₁, by simp [e₂, e₁], ?_⟩, by rw [r₂, r₁], by rw [a₂, a₁]⟩
  intro x hx
  rcases List.mem_append.mp hx with h | h
  · exact k₂ x h
  · exact k₁ x h

theorem PExt.step {K : Kind → Bool} (w : World) (r : Req) (a : Ans) (answers : List Ans) (now : Nat)
    (bud : Budget.St) (br : Breaker.St) (xc : XCtx) (hk : K r.kind = true) :
    PExt K w { w with answers := answers, now := now, trace := (r, a) :: w.trace, budget := bud, breaker := br,
                      xc := xc } :=
  ⟨⟨[(r, a)], rfl, by simp [hk]⟩, rfl, rfl⟩

theorem PExt.frame {K : Kind → Bool} (w : World) (br : Breaker.St) (xc : XCtx) :
    PExt K w { w with breaker := br, xc := xc } := ⟨⟨[], rfl, by simp⟩, rfl, rfl⟩

abbrev pextPost (K : Kind → Bool) (w0 : World) : PostCond α (.except Exn (.arg World .pure)) :=
  post⟨fun _ w => ⌜PExt K w0 w⌝, fun e w => ⌜PExt K w0 w ∧ Thrown w.trace e⌝⟩

syntax "pext_chain" : tactic
macro_rules
  | `(tactic| pext_chain) => `(tactic| first
      | assumption
      | exact PExt.refl _ _
      | exact PExt.frame _ _ _
      | exact PExt.step _ _ _ _ _ _ _ _ (by assumption)
      | (refine PExt.trans (by assumption) ?_; pext_chain))

macro "pext_close" : tactic => `(tactic| all_goals (
  (try subst_vars) <;> (try intros) <;>
  first
    | assumption
    | pext_chain
    | (simp_all; done)
    | exact ⟨by pext_chain, by simp_all⟩
    | skip))

theorem PExt.thrown {K : Kind → Bool} {w w' : World} {e : Exn} (h : PExt K w w') (ht : Thrown w.trace e) :
    Thrown w'.trace e := by
  obtain ⟨⟨δ, e1, _⟩, _, _⟩ := h
  rw [e1]
  exact Thrown.append δ ht

/-- from "this procedure only adds exchanges of kinds `K`" to "this invariant, closed under such
    additions, is preserved" — with the provenance of a thrown exception -/
theorem inv_of_pext {α : Type} {x : M α} (K : Kind → Bool) (I : World → Prop)
    (hx : ∀ w0, ⦃fun w => ⌜PExt K w0 w⌝⦄ x ⦃post⟨fun _ w => ⌜PExt K w0 w⌝, fun e w => ⌜PExt K w0 w ∧ Thrown w.trace e⌝⟩⦄)
    (hI : ∀ w w', PExt K w w' → I w → I w') :
    ⦃fun w => ⌜I w⌝⦄ x ⦃post⟨fun _ w => ⌜I w⌝, fun e w => ⌜I w ∧ Thrown w.trace e⌝⟩⦄ := by
  apply triple_of_run
  intro w hw
  have := adequacy (hx w) w (PExt.refl K w)
  split <;> simp_all
  · exact hI _ _ this hw
  · exact hI _ _ this.1 hw

section policyLeaves
variable (K : Kind → Bool) (w0 : World) (cfg : Cfg)

theorem ask_pext (r : Req) (hk : K r.kind = true) (hop : isOp r = false) :
    ⦃fun w => ⌜PExt K w0 w⌝⦄ ask r ⦃pextPost K w0⦄ := by
  mvcgen [ask]
  all_goals ((try subst_vars) <;> (try intros))
  all_goals first
    | exact PExt.trans (by assumption) (PExt.step _ _ _ _ _ _ _ _ hk)
    | exact ⟨PExt.trans (by assumption) (PExt.step _ _ _ _ _ _ _ _ hk), Thrown.head _ _ _ _ hop⟩
    | exact ⟨PExt.trans (by assumption) (PExt.step _ _ _ _ _ _ _ _ hk), Thrown.stuck _⟩

theorem askHook_pext (r : Req) (hk : K r.kind = true) (hop : isOp r = false) :
    ⦃fun w => ⌜PExt K w0 w⌝⦄ askHook r ⦃pextPost K w0⦄ :=
  askHook_triple r (ask_pext K w0 r hk hop) (fun w h => presil_cases (PExt K w0) w (fun _ => h))

theorem askMetric_pext (hm : K .metric = true) (ev : Event) (a s : Nat) (t : Tags) :
    ⦃fun w => ⌜PExt K w0 w⌝⦄ askMetric ev a s t ⦃pextPost K w0⦄ := by
  have h := askHook_pext K w0 (.metric ev a s t) hm rfl
  mvcgen [askMetric, h]
  pext_close

theorem askLog_pext (hl : K .log = true) (ev : Event) (a s : Nat) (t : Tags) (ra : Option Int) :
    ⦃fun w => ⌜PExt K w0 w⌝⦄ askLog ev a s t ra ⦃pextPost K w0⦄ := by
  have h := askHook_pext K w0 (.log ev a s t ra) hl rfl
  mvcgen [askLog, h]
  pext_close

theorem swallow_pext (e : Exn) :
    ⦃fun w => ⌜PExt K w0 w ∧ Thrown w.trace e⌝⦄ swallowException e ⦃pextPost K w0⦄ := by
  mvcgen [swallowException]
  pext_close

theorem emitBreakerEvent_pext (hm : K .metric = true) (hl : K .log = true) (ev : Option Event) (st : CState)
    (k : Option EClass) :
    ⦃fun w => ⌜PExt K w0 w⌝⦄ emitBreakerEvent cfg ev st k ⦃pextPost K w0⦄ := by
  have h1 := askMetric_pext K w0 hm
  have h2 := askLog_pext K w0 hl
  have h3 := swallow_pext K w0
  mvcgen [emitBreakerEvent, h1, h2, h3]
  pext_close

/-- the breaker rejected the call (newest-first log) -/
def Rej (t : List (Req × Ans)) : Prop := rejected t = true

theorem Rej.cons (x : Req × Ans) {t : List (Req × Ans)} (h : Rej t) : Rej (x :: t) := by
  unfold Rej rejected at *
  simp only [List.any_cons, h, Bool.or_true]

theorem Rej.append (δ : List (Req × Ans)) {t : List (Req × Ans)} (h : Rej t) : Rej (δ ++ t) := by
  induction δ with
  | nil => exact h
  | cons x δ ih => exact Rej.cons x ih

theorem breakerAllow_pext (ha : K .breakerAllow = true) (bc : Breaker.Cfg) :
    ⦃fun w => ⌜PExt K w0 w⌝⦄ breakerAllow bc
    ⦃post⟨fun d w => ⌜PExt K w0 w ∧ (d.1 = false → Rej w.trace)⌝, fun _ _ => ⌜False⌝⟩⦄ := by
  mvcgen [breakerAllow]
  all_goals ((try subst_vars) <;> (try intros))
  all_goals (refine ⟨PExt.trans (by assumption) (PExt.step _ _ _ _ _ _ _ _ ha), ?_⟩)
  all_goals (intro h; simp [Rej, rejected, h])

theorem checkBreaker_pext (hm : K .metric = true) (hl : K .log = true) (ha : K .breakerAllow = true) :
    ⦃fun w => ⌜PExt K w0 w⌝⦄ checkBreaker cfg
    ⦃post⟨fun _ w => ⌜PExt K w0 w⌝, fun e w => ⌜PExt K w0 w ∧ (Rej w.trace ∨ Thrown w.trace e)⌝⟩⦄ := by
  have h1 := breakerAllow_pext K w0 ha
  have h2 := fun (d : Bool) (ev : Option Event) (st : CState) (k : Option EClass) =>
    inv_of_pext K (fun w => PExt K w0 w ∧ (d = false → Rej w.trace))
      (fun w1 => emitBreakerEvent_pext K w1 cfg hm hl ev st k)
      (fun w w' h hw => ⟨PExt.trans hw.1 h, fun hd => by
        obtain ⟨⟨δ, e1, _⟩, _, _⟩ := h
        rw [e1]; exact Rej.append δ (hw.2 hd)⟩)
  mvcgen [checkBreaker, h1, h2]
  all_goals ((try subst_vars) <;> (try intros))
  all_goals (try (simp_all; done))

macro "pext_close'" : tactic => `(tactic| all_goals (
  (try subst_vars) <;> (try intros) <;>
  first
    | assumption
    | pext_chain
    | (simp_all; done)
    | exact ⟨by pext_chain, Thrown.stuck _⟩
    | exact ⟨by pext_chain, by assumption⟩
    | (refine PExt.trans (by assumption) ?_; exact PExt.step _ _ _ _ _ _ _ _ (by assumption))
    | skip))

theorem recordSuccess_pext (hm : K .metric = true) (hl : K .log = true) (hs : K .breakerSuccess = true) :
    ⦃fun w => ⌜PExt K w0 w⌝⦄ Policy.recordSuccess cfg ⦃pextPost K w0⦄ := by
  have h2 := emitBreakerEvent_pext K w0 cfg hm hl
  mvcgen [Policy.recordSuccess, h2]
  pext_close'

theorem recordCancel_pext (hc : K .breakerCancel = true) :
    ⦃fun w => ⌜PExt K w0 w⌝⦄ Policy.recordCancel cfg ⦃pextPost K w0⦄ := by
  mvcgen [Policy.recordCancel]
  pext_close'

theorem recordFailure_pext (hm : K .metric = true) (hl : K .log = true) (hf : K .breakerFailure = true)
    (k : EClass) :
    ⦃fun w => ⌜PExt K w0 w⌝⦄ Policy.recordFailure cfg k ⦃pextPost K w0⦄ := by
  have h2 := emitBreakerEvent_pext K w0 cfg hm hl
  mvcgen [Policy.recordFailure, h2]
  pext_close'

theorem ensureSettled_pext (hc : K .breakerCancel = true) :
    ⦃fun w => ⌜PExt K w0 w⌝⦄ ensureSettled cfg ⦃pextPost K w0⦄ := by
  have h := recordCancel_pext K w0 cfg hc
  mvcgen [ensureSettled, h]
  pext_close'

theorem initCtx_pext : ⦃fun w => ⌜PExt K w0 w⌝⦄ initCtx ⦃pextPost K w0⦄ := by
  mvcgen [initCtx]
  pext_close'

theorem handleExhaustedCall_pext (hm : K .metric = true) (hl : K .log = true) (hf : K .breakerFailure = true)
    (e : Exn) :
    ⦃fun w => ⌜PExt K w0 w⌝⦄ handleExhaustedCall cfg e ⦃pextPost K w0⦄ := by
  have h := recordFailure_pext K w0 cfg hm hl hf
  mvcgen [handleExhaustedCall, h]
  pext_close'

theorem callClassifier_pext (hc : K .classify = true) (e : Exn) :
    ⦃fun w => ⌜PExt K w0 w⌝⦄ callClassifier e ⦃pextPost K w0⦄ := by
  have h := ask_pext K w0 (.classify e.ref) hc rfl
  mvcgen [callClassifier, h]
  pext_close'

theorem classifyForBreaker_pext (hc : K .classify = true) (e : Exn) :
    ⦃fun w => ⌜PExt K w0 w⌝⦄ classifyForBreaker cfg e ⦃pextPost K w0⦄ := by
  have h := callClassifier_pext K w0 hc
  mvcgen [classifyForBreaker, h]
  pext_close'

/-- with a retry component (`on_attempt_end` hooks are the retry loop's business) -/
theorem handleExceptionCall_pext (hret : cfg.hasRetry = true) (hm : K .metric = true) (hl : K .log = true)
    (hf : K .breakerFailure = true) (hc : K .classify = true) (e : Exn) (b : Bool) :
    ⦃fun w => ⌜PExt K w0 w⌝⦄ handleExceptionCall cfg e b ⦃pextPost K w0⦄ := by
  have h1 := classifyForBreaker_pext K w0 cfg hc
  have h2 := recordFailure_pext K w0 cfg hm hl hf
  unfold handleExceptionCall
  simp only [hret, Bool.not_true, Bool.false_and, Bool.false_eq_true, if_false]
  mvcgen [h1, h2]
  pext_close'

theorem handleAbortCall_pext (hret : cfg.hasRetry = true) (hc : K .breakerCancel = true) (e : Exn) :
    ⦃fun w => ⌜PExt K w0 w⌝⦄ handleAbortCall cfg e ⦃pextPost K w0⦄ := by
  have h := recordCancel_pext K w0 cfg hc
  unfold handleAbortCall
  simp only [hret, Bool.not_true, Bool.false_eq_true, if_false]
  mvcgen [h]
  pext_close'

end policyLeaves

/-! ### what survives the policy wrapper's own exchanges -/

/-- kinds of the exchanges the policy wrapper makes besides re-classifying the final exception -/
def polK : Kind → Bool
  | .metric | .log | .breakerAllow | .breakerSuccess | .breakerFailure | .breakerCancel => true
  | _ => false

/-- … and with that classification -/
def polCK : Kind → Bool
  | .classify => true
  | k => polK k

theorem polK_inert (k : Kind) (h : polK k = true) : inertK k = true := by
  cases k <;> simp_all [polK, inertK]

theorem cur_append_inert (cfg : Cfg) (δ t : List (Req × Ans)) (h : ∀ x ∈ δ, inertK x.1.kind = true) :
    cur cfg (δ ++ t) = cur cfg t := by
  induction δ with
  | nil => rfl
  | cons x δ ih =>
    have hx := h x (by simp)
    have := ih (fun y hy => h y (by simp [hy]))
    simp [step_inert _ _ _ hx, this]

theorem view_pext (cfg : Cfg) {w w' : World} (h : PExt polK w w') : view cfg w' = view cfg w := by
  obtain ⟨⟨δ, e, k⟩, hr, ha⟩ := h
  simp only [view, e, cur_append_inert cfg δ _ (fun x hx => polK_inert _ (k x hx)), hr, ha]

/-- the part of the monitor the policy wrapper's re-classification cannot move -/
def keep (m : St) : Nat × Option Exn × Option Nat × Bool × Bool × Bool × Bool :=
  (m.ops, m.opExc, m.opVal, m.succeeded, m.earlierSuccess, m.deferred, m.badDecision)

theorem step_polCK (cfg : Cfg) (s : St) (x : Req × Ans) (h : polCK x.1.kind = true) :
    keep (step cfg s x) = keep s := by
  obtain ⟨r, a⟩ := x
  cases r <;> simp_all [polCK, polK, Req.kind, step, keep]
  cases a <;> simp [faultBy]
  split <;> simp [record]

theorem keep_pext (cfg : Cfg) {w w' : World} (h : PExt polCK w w') :
    keep (cur cfg w'.trace) = keep (cur cfg w.trace) := by
  obtain ⟨⟨δ, e, k⟩, _, _⟩ := h
  rw [e]
  clear e
  induction δ with
  | nil => rfl
  | cons x δ ih =>
    have := ih (fun y hy => k y (by simp [hy]))
    simp only [List.cons_append, cur_cons]
    rw [step_polCK cfg _ x (k x (by simp)), this]

/-- how `Policy.call` may end -/
def Fin (cfg : Cfg) : Except Exn Nat → World → Prop
  | .ok x, w => (view cfg w).mon.succeeded = true ∧ (view cfg w).mon.earlierSuccess = false ∧
      (view cfg w).mon.opVal = some x
  | .error e, w => Rej w.trace ∨ ErrC cfg (view cfg w).mon w.trace e

theorem Fin.pext {cfg : Cfg} {r : Except Exn Nat} {w w' : World} (h : PExt polK w w') (hf : Fin cfg r w) :
    Fin cfg r w' := by
  have hv := view_pext cfg h
  obtain ⟨⟨δ, e, k⟩, _, _⟩ := h
  cases r with
  | ok x => simpa [Fin, hv] using hf
  | error ex =>
    simp only [Fin, hv] at hf ⊢
    rcases hf with hf | hf
    · left; rw [e]; exact Rej.append δ hf
    · right
      rcases hf with h1 | h1 | h1
      · exact Or.inl h1
      · exact Or.inr (Or.inl (by rw [e]; exact Thrown.append δ h1))
      · exact Or.inr (Or.inr h1)

theorem Fin.pextC {cfg : Cfg} {ex : Exn} {w w' : World} (h : PExt polCK w w') (hx : ex.isExhausted = false)
    (hf : Fin cfg (.error ex) w) : Fin cfg (.error ex) w' := by
  have hk := keep_pext cfg h
  obtain ⟨⟨δ, e, k⟩, _, _⟩ := h
  simp only [keep, Prod.mk.injEq] at hk
  obtain ⟨k1, k2, k3, k4, k5, k6, k7⟩ := hk
  simp only [Fin, view] at hf ⊢
  rcases hf with hf | hf
  · left; rw [e]; exact Rej.append δ hf
  · right
    rcases hf with h1 | h1 | h1 | h1 | h1 | h1
    · left; simpa [opRaised, k2, k6] using h1
    · exact Or.inr (Or.inl (by rw [e]; exact Thrown.append δ h1))
    · exact Or.inr (Or.inr (Or.inl h1))
    · exact Or.inr (Or.inr (Or.inr (Or.inl ⟨h1.1, by rw [k7]; exact h1.2⟩)))
    · obtain ⟨f, hf1, _⟩ := h1
      subst hf1
      simp [Exn.isExhausted] at hx
    · exact Or.inr (Or.inr (Or.inr (Or.inr (Or.inr ⟨h1.1, h1.2.1, by rw [k1]; exact h1.2.2⟩))))

theorem Fin.thrown {cfg : Cfg} {e : Exn} {w : World} (h : Thrown w.trace e) : Fin cfg (.error e) w :=
  Or.inr (ErrC_of_thrown h)

/-- generalisation of `inv_of_pext` to any statement about the thrown exception -/
theorem inv_of_pext' {α : Type} {x : M α} (K : Kind → Bool) (I : World → Prop) (E : Exn → World → Prop)
    (hx : ∀ w0, ⦃fun w => ⌜PExt K w0 w⌝⦄ x ⦃post⟨fun _ w => ⌜PExt K w0 w⌝, fun e w => ⌜PExt K w0 w ∧ E e w⌝⟩⦄)
    (hI : ∀ w w', PExt K w w' → I w → I w') :
    ⦃fun w => ⌜I w⌝⦄ x ⦃post⟨fun _ w => ⌜I w⌝, fun e w => ⌜I w ∧ E e w⌝⟩⦄ := by
  apply triple_of_run
  intro w hw
  have := adequacy (hx w) w (PExt.refl K w)
  split <;> simp_all
  · exact hI _ _ this hw
  · exact hI _ _ this.1 hw

theorem cur_pext (cfg : Cfg) {w w' : World} (h : PExt polK w w') (h0 : cur cfg w.trace = {}) :
    cur cfg w'.trace = {} := by
  have := congrArg View.mon (view_pext cfg h)
  simpa [view, h0] using this

/-- the admitted part of `Policy.call` with a retry component -/
theorem callAdmitted_spec (cfg : Cfg) (hret : cfg.hasRetry = true) :
    ⦃fun w => ⌜cur cfg w.trace = {}⌝⦄ callAdmitted cfg
    ⦃post⟨fun x w => ⌜Fin cfg (.ok x) w⌝, fun e w => ⌜Fin cfg (.error e) w⌝⟩⦄ := by
  have hcb := inv_of_pext' polK (fun w => cur cfg w.trace = {}) (fun e w => Rej w.trace ∨ Thrown w.trace e)
    (fun w0 => checkBreaker_pext polK w0 cfg rfl rfl rfl) (fun w w' h h0 => cur_pext cfg h h0)
  have hrun := runCall_spec cfg
  have hrs := fun r => inv_of_pext polK (Fin cfg r) (fun w0 => recordSuccess_pext polK w0 cfg rfl rfl rfl)
    (fun w w' h hf => hf.pext h)
  have hrc := fun r => inv_of_pext polK (Fin cfg r) (fun w0 => recordCancel_pext polK w0 cfg rfl)
    (fun w w' h hf => hf.pext h)
  have hab := fun r e => inv_of_pext polK (Fin cfg r) (fun w0 => handleAbortCall_pext polK w0 cfg hret rfl e)
    (fun w w' h hf => hf.pext h)
  have hex := fun r e => inv_of_pext polK (Fin cfg r)
    (fun w0 => handleExhaustedCall_pext polK w0 cfg rfl rfl rfl e) (fun w w' h hf => hf.pext h)
  have hec := fun (e : Exn) (hx : e.isExhausted = false) (b : Bool) =>
    inv_of_pext polCK (Fin cfg (.error e))
      (fun w0 => handleExceptionCall_pext polCK w0 cfg hret rfl rfl rfl rfl e b)
      (fun w w' h hf => hf.pextC h hx)
  unfold callAdmitted
  simp only [hret, if_true]
  mvcgen [callLadder, hcb, hrun, hrs, hrc, hab, hex, hec]
  all_goals ((try subst_vars) <;> (try intros))
  all_goals (try clear hcb hrun hrs hrc hab hex hec)
  all_goals (try (simp_all +zetaDelta [Fin, Fin.thrown]; done))
  rename_i h
  rcases h with h | h
  · exact Or.inl h
  · exact Fin.thrown h

/-- `Policy.call` with a retry component (also `RetryPolicy.call`, `@retry`, contexts, async twins) -/
theorem call_retry_spec (cfg : Cfg) (hret : cfg.hasRetry = true) :
    ⦃fun w => ⌜cur cfg w.trace = {}⌝⦄ Policy.call cfg
    ⦃post⟨fun x w => ⌜Fin cfg (.ok x) w⌝, fun e w => ⌜Fin cfg (.error e) w⌝⟩⦄ := by
  have hic := inv_of_pext polK (fun w => cur cfg w.trace = {}) (fun w0 => initCtx_pext polK w0)
    (fun w w' h h0 => cur_pext cfg h h0)
  have hadm := callAdmitted_spec cfg hret
  have hes := fun r => inv_of_pext polK (Fin cfg r) (fun w0 => ensureSettled_pext polK w0 cfg rfl)
    (fun w w' h hf => hf.pext h)
  mvcgen [Policy.call, withFinally, hic, hadm, hes]
  all_goals ((try subst_vars) <;> (try intros))
  all_goals (try clear hic hadm hes)
  all_goals (try (simp_all +zetaDelta [Fin.thrown]; done))

/-! ### the theorems -/

theorem rejected_reverse (t : List (Req × Ans)) : rejected t.reverse = rejected t := by
  simp [rejected]

theorem raisedBy_reverse (p : Req → Bool) (t : List (Req × Ans)) (e : Exn) :
    raisedBy p t.reverse e = raisedBy p t e := by
  simp [raisedBy]

/-- the monitor's verdict for a raised exception, as a Bool -/
def raisedOk (cfg : Cfg) (s : St) (t : Trace) (ex : Exn) : Bool :=
  (opRaised s ex && !s.deferred) || raisedByCallback t ex
  || (match ex with
      | .libExhausted f => fieldsOk s f
      | .libRuntimeError => cfg.maxAttempts == 0 && s.ops == 0
      | .libValueError => s.badDecision
      | .libAbort => true
      | .stuck => true
      | _ => false)

theorem raisedOk_of_errC {cfg : Cfg} {t : List (Req × Ans)} {e : Exn} (h : ErrC cfg (cur cfg t) t e) :
    raisedOk cfg (run cfg t.reverse) t.reverse e = true := by
  rw [run_reverse]
  unfold raisedOk raisedByCallback
  rw [raisedBy_reverse]
  rcases h with h | h | h | h | h | h
  · simp [h.1, h.2]
  · rcases h with h | h
    · subst h; simp
    · simp [h]
  · subst h; simp
  · obtain ⟨h1, h2⟩ := h; subst h1; simp [h2]
  · obtain ⟨f, h1, h2⟩ := h; subst h1; simp [h2]
  · obtain ⟨h1, h2, h3⟩ := h; subst h1; simp [h2, h3]

theorem ok_unfold (cfg : Cfg) (e : Entry) (t : Trace) (r : Res) :
    Mon.C04.ok cfg e t r =
      (if hasLoop cfg e && !e.isExecute && !Mon.rejected t then
        (match r with
         | .ret v => (run cfg t).succeeded && !(run cfg t).earlierSuccess && (run cfg t).opVal == some v
         | .outcome .. => false
         | .raised ex => raisedOk cfg (run cfg t) t ex)
      else true) := by
  unfold Mon.C04.ok raisedOk
  rfl

/-- the world `runEntry` starts a call from -/
def startWorld (w : World) : World := { w with trace := [], timeline := [], opCalls := 0 }

theorem cur_start (cfg : Cfg) (w : World) : cur cfg (startWorld w).trace = {} := rfl

/--
**C04.**  For every configuration, every entry point and every world (every answer stream: outcomes
of every class, exception- or result-caused, in any order; any callback raising anything at any
point; any durations), the run satisfies the monitor `Mon.C04.ok`:

* if `call()` returns `v`, the last invocation of the operation returned `v`, that value was
  classified as success, and no earlier invocation's was;
* if `call()` raises `ex`, then `ex` is the exception the LAST invocation raised (and no deferral
  was decided), or one raised by a callback of the caller's, or one the library makes — and a
  RetryExhaustedError the library makes has `attempts`, `last_class`, `last_result` or
  `last_exception`, `stop_reason` and `next_sleep_s` describing the final attempt (`fieldsOk`);
  the library's RuntimeError appears only for `max_attempts = 0`.
-/
theorem call_surfaces_last (cfg : Cfg) (e : Entry) (w : World) :
    Mon.C04.ok cfg e (runEntry cfg e w).2.trace.reverse (runEntry cfg e w).1 = true := by
  rw [ok_unfold]
  cases e with
  | execute => simp [Entry.isExecute]
  | pexecute => simp [Entry.isExecute]
  | call =>
    have := adequacy (runCall_spec cfg) (startWorld w) (cur_start cfg w)
    simp only [runEntry, startWorld] at this ⊢
    split at this <;> rename_i heq <;> simp only [heq, toRes]
    · split
      · simp only [run_reverse]
        simp only [view] at this
        simp [this.1, this.2.1, this.2.2]
      · rfl
    · split
      · exact raisedOk_of_errC this
      · rfl
  | pcall =>
    cases hret : cfg.hasRetry with
    | false => simp [hasLoop, hret, Entry.isPolicy]
    | true =>
      have := adequacy (call_retry_spec cfg hret) (startWorld w) (cur_start cfg w)
      simp only [runEntry, startWorld] at this ⊢
      split at this <;> rename_i heq <;> simp only [heq, toRes]
      · split
        · simp only [run_reverse]
          simp only [Fin, view] at this
          simp [this.1, this.2.1, this.2.2]
        · rfl
      · split
        · rename_i hg
          simp only [Fin] at this
          rcases this with h | h
          · simp [rejected_reverse, Rej] at hg h
            simp [h] at hg
          · exact raisedOk_of_errC h
        · rfl

/-- …and of every call in every script of calls and clock advances on one policy object. -/
theorem call_surfaces_last_script (cfg : Cfg) : ∀ (steps : List Step) (w : World),
    ∀ l ∈ (runScript cfg steps w).1, Mon.C04.ok cfg l.entry l.trace l.res = true := by
  intro steps
  induction steps with
  | nil => intro w l hl; simp [runScript] at hl
  | cons st rest ih =>
    intro w l hl
    cases st with
    | advance d => exact ih _ l (by simpa [runScript] using hl)
    | run e =>
      simp only [runScript, List.mem_cons] at hl
      rcases hl with rfl | hl
      · exact call_surfaces_last cfg e w
      · exact ih _ l hl

/-! ### the conjuncts of the property, one by one (corollaries of `call_surfaces_last`) -/

/-- the monitor speaks about this run: a call() entry with a retry loop, not rejected by the breaker -/
def applies (cfg : Cfg) (e : Entry) (t : Trace) : Bool :=
  hasLoop cfg e && !e.isExecute && !Mon.rejected t

/-- the exception is one the library makes itself (or the model-only `stuck`) -/
def libMade : Exn → Bool
  | .libExhausted _ | .libRuntimeError | .libValueError | .libAbort | .stuck => true
  | _ => false

section conjuncts
variable (cfg : Cfg) (e : Entry) (w : World)

/-- **returns_first_success.**  What call() returns is the object the LAST invocation of the
    operation returned; that invocation's result was classified as success and no earlier
    invocation's was (so it is the first successful attempt, and the run stopped there). -/
theorem returns_first_success (v : Nat)
    (happ : applies cfg e (runEntry cfg e w).2.trace.reverse = true)
    (hr : (runEntry cfg e w).1 = .ret v) :
    let s := run cfg (runEntry cfg e w).2.trace.reverse
    s.opVal = some v ∧ s.succeeded = true ∧ s.earlierSuccess = false := by
  have h := call_surfaces_last cfg e w
  rw [ok_unfold, hr] at h
  unfold applies at happ
  simp only [happ, if_true, Bool.and_eq_true, beq_iff_eq, Bool.not_eq_true'] at h
  exact ⟨h.2, h.1.1, h.1.2⟩

/-- **raises_last_exception.**  An exception that comes out of call() and is neither made by the
    library nor raised by one of the caller's callbacks is the very exception the LAST invocation
    of the operation raised (identity: the same `Exn` value, with its id) — never an earlier
    attempt's, never a substitute — and no deferral had been decided. -/
theorem raises_last_exception (ex : Exn)
    (happ : applies cfg e (runEntry cfg e w).2.trace.reverse = true)
    (hr : (runEntry cfg e w).1 = .raised ex)
    (hcb : raisedByCallback (runEntry cfg e w).2.trace.reverse ex = false)
    (hlib : libMade ex = false) :
    let s := run cfg (runEntry cfg e w).2.trace.reverse
    s.opExc = some ex ∧ s.deferred = false := by
  have h := call_surfaces_last cfg e w
  rw [ok_unfold, hr] at h
  unfold applies at happ
  simp only [happ, if_true, raisedOk, hcb, Bool.or_false] at h
  have key : ∀ s : St, libMade ex = false → raisedOk cfg s [] ex = true →
      s.opExc = some ex ∧ s.deferred = false := by
    intro s hl hk
    cases ex <;> simp_all [libMade, opRaised, raisedOk, raisedByCallback, raisedBy]
  apply key _ hlib
  simpa [raisedOk, raisedByCallback, raisedBy] using h

/-- … and conversely: if the last invocation raised `ex`, no deferral or invalid sleep decision was
    made, and what comes out of call() is neither an abort, nor something a callback raised, nor
    the model-only `stuck`, then what comes out IS `ex` (not a RetryExhaustedError, not a
    RuntimeError, not a return value). -/
theorem raises_last_exception_fwd (ex : Exn)
    (happ : applies cfg e (runEntry cfg e w).2.trace.reverse = true)
    (hop : (run cfg (runEntry cfg e w).2.trace.reverse).opExc = some ex)
    (hops : (run cfg (runEntry cfg e w).2.trace.reverse).ops ≠ 0)
    (hval : (run cfg (runEntry cfg e w).2.trace.reverse).opVal = none)
    (hd : (run cfg (runEntry cfg e w).2.trace.reverse).deferred = false)
    (hb : (run cfg (runEntry cfg e w).2.trace.reverse).badDecision = false)
    (hres : ∀ r, (runEntry cfg e w).1 = .raised r →
      r ≠ .libAbort ∧ r ≠ .stuck ∧ raisedByCallback (runEntry cfg e w).2.trace.reverse r = false ∧
        (∀ f, r = .libExhausted f → (run cfg (runEntry cfg e w).2.trace.reverse).recCause = some .exception)) :
    (runEntry cfg e w).1 = .raised ex := by
  have h := call_surfaces_last cfg e w
  rw [ok_unfold] at h
  unfold applies at happ
  simp only [happ, if_true] at h
  cases hr : (runEntry cfg e w).1 with
  | ret v => rw [hr] at h; simp [hval] at h
  | outcome o tl => rw [hr] at h; simp at h
  | raised r =>
    rw [hr] at h
    obtain ⟨h1, h2, h3, h4⟩ := hres r hr
    simp only [raisedOk, h3, Bool.or_false] at h
    cases r <;> simp_all [opRaised, fieldsOk]

/-- **exhausted_fields.**  A RetryExhaustedError that comes out of call() and was made by the
    library (neither the operation nor a callback raised it) describes the final attempt:
    `attempts` = number of invocations; the failure it reports was recorded for the LAST
    invocation; `last_class` is that failure's first classification; for a result-caused failure
    `last_result` is the last returned object and `last_exception` is None; for an exception-caused
    failure `last_exception` is the last raised exception, `last_result` is None, and the sleep
    handler deferred; `stop_reason` is SCHEDULED exactly when the handler deferred and then
    `next_sleep_s` is the delay the handler was offered, otherwise None. -/
theorem exhausted_fields (f : ExhaustedFields)
    (happ : applies cfg e (runEntry cfg e w).2.trace.reverse = true)
    (hr : (runEntry cfg e w).1 = .raised (.libExhausted f))
    (hcb : raisedByCallback (runEntry cfg e w).2.trace.reverse (.libExhausted f) = false)
    (hop : opRaised (run cfg (runEntry cfg e w).2.trace.reverse) (.libExhausted f) = false) :
    fieldsOk (run cfg (runEntry cfg e w).2.trace.reverse) f = true := by
  have h := call_surfaces_last cfg e w
  rw [ok_unfold, hr] at h
  unfold applies at happ
  simpa only [happ, if_true, raisedOk, hcb, hop, Bool.false_and, Bool.false_or] using h

/-- the library's "exhausted with no captured exception" RuntimeError only for `max_attempts = 0` -/
theorem runtime_error_only_without_attempts
    (happ : applies cfg e (runEntry cfg e w).2.trace.reverse = true)
    (hr : (runEntry cfg e w).1 = .raised .libRuntimeError)
    (hcb : raisedByCallback (runEntry cfg e w).2.trace.reverse .libRuntimeError = false)
    (hop : opRaised (run cfg (runEntry cfg e w).2.trace.reverse) .libRuntimeError = false) :
    cfg.maxAttempts = 0 ∧ (run cfg (runEntry cfg e w).2.trace.reverse).ops = 0 := by
  have h := call_surfaces_last cfg e w
  rw [ok_unfold, hr] at h
  unfold applies at happ
  simpa [happ, raisedOk, hcb, hop] using h

end conjuncts

/-! Non-vacuity.  The hypotheses above are about results of `runEntry`; kernel-evaluating the monadic
    model inside a Props file is ruled out (LOOP_PROOF_GUIDE), so the instances are exhibited through
    the compiled driver: `harness/families/loop.py` (stop-reason × entry-point histogram in its
    `distribution`) drives thousands of runs in which each hypothesis set is met — `ret` results,
    `raise ordinary:…` results that are the last op's, `libExhausted` with SCHEDULED and with
    result-caused hard stops, and `libRuntimeError` for `max_attempts=0` — and evaluates this very
    monitor on them.  At the level of the monitor alone: -/

example : Mon.C04.ok {} .call
    [(.op 1, .raise (.ordinary 1 .transient) 0), (.classify "o1", .klass ⟨.transient, none⟩ 0),
     (.op 2, .value 7 0)] (.ret 7) = true := by decide

example : Mon.C04.ok {} .call
    [(.op 1, .raise (.ordinary 1 .transient) 0), (.classify "o1", .klass ⟨.transient, none⟩ 0),
     (.op 2, .raise (.ordinary 2 .permanent) 0), (.classify "o2", .klass ⟨.permanent, none⟩ 0)]
    (.raised (.ordinary 1 .transient)) = false := by decide

end Redress.Props.C04
