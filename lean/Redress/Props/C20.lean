/-
  Redress.Props.C20 — Retry-After hints are parsed safely (first two sentences of C20; the
  `retry_after_or` sentence is proved with the strategies, C18/C05).

  "For any Retry-After value a server or SDK can supply (any string, number or header container),
   http_retry_after_classifier never raises and yields either no hint or a non-negative number of
   seconds: a decimal integer n within float range gives n, an HTTP-date gives the time until that
   date clamped at 0, garbage gives no hint."

  Everything is stated over ALL strings / integers / container contents / date-oracle functions /
  clock readings / digit limits.  The model (`Redress/Model/RetryAfter.lean`) has an explicit
  Python-exception outcome, so "never raises" is `… = .ok _`, a statement about the modelled
  `try/except` flow.

  HYPOTHESES that appear (each with a non-vacuity `example`):
    * `OracleWithinExcept oracle` — `email.utils.parsedate_to_datetime` raises only
      TypeError / ValueError / IndexError / OverflowError, i.e. the kinds listed in the `except`
      clause of the code (http.py:100).  ValueError and OverflowError were *observed* from the real
      stdlib by the harness (it counts the kinds on every run); TypeError and IndexError are the ones
      older CPythons raised and the code lists.  An oracle raising any other kind is outside the
      model's claim, and `parse_error_origin` shows this is the ONLY way the parser can raise.
      (Finding F10: before /repo commit 95684a2 the clause lacked OverflowError and
      `"01 Jan 2147483648 00:00:00 GMT"` raised.)
    * `exc.Catchable` — the `get` / `items` / `__str__` callbacks of a user-supplied header
      container raise only subclasses of `Exception` (a `KeyboardInterrupt` raised from inside a
      user's `.get` does propagate, as it should).
-/
import Redress.Lemmas.RetryAfterLemmas

namespace Redress.C20

open Redress Redress.RetryAfter

/-! ## `max(0.0, x)` -/

/-- `max(0.0, x)` is a non-negative number for EVERY float x — NaN and −∞ included. -/
theorem pyMax0_nonneg (x : PyFloat) : (pyMax0 x).NonNeg := by
  cases x with
  | nan => simp [pyMax0, PyFloat.gtZero, PyFloat.NonNeg]
  | inf => simp [pyMax0, PyFloat.gtZero, PyFloat.NonNeg]
  | negInf => simp [pyMax0, PyFloat.gtZero, PyFloat.NonNeg]
  | fin q =>
    by_cases h : 0 < q
    · simp [pyMax0, PyFloat.gtZero, PyFloat.NonNeg, h, Rat.le_of_lt h]
    · simp [pyMax0, PyFloat.gtZero, PyFloat.NonNeg, h]

/-- `max(0.0, x)` of a finite x: x when positive, else 0. -/
theorem pyMax0_fin (q : Rat) : pyMax0 (.fin q) = .fin (if 0 < q then q else 0) := by
  by_cases h : 0 < q <;> simp [pyMax0, PyFloat.gtZero, h]

/-! ## the two arms of `_parse_retry_after` as equations -/

/-- The integer arm never raises: out of float range ⇒ `None` (the `except OverflowError`). -/
theorem int_arm_eq (n : Int) :
    tryExcept overflowCatches ((floatOfInt n).map (fun f => some (pyMax0 f))) none
      = .ok (if n.natAbs < floatOverflowBound then some (pyMax0 (.fin n)) else none) := by
  unfold floatOfInt
  split <;> simp [tryExcept, Except.map, overflowCatches]

/-- `if not value: return None` -/
theorem parse_empty (lim : Nat) (value : String) (oracle : String → DateAns) (now : Int)
    (h : value.toList.isEmpty = true) : parseRetryAfter lim value oracle now = .ok none := by
  simp [parseRetryAfter, h]

/-- `if not raw: return None` -/
theorem parse_blank (lim : Nat) (value : String) (oracle : String → DateAns) (now : Int)
    (h : (pyStrip value).toList.isEmpty = true) : parseRetryAfter lim value oracle now = .ok none := by
  unfold parseRetryAfter
  split
  · rfl
  · simp [h]

/-- the integer arm -/
theorem parse_int (lim : Nat) (value : String) (oracle : String → DateAns) (now : Int) (n : Int)
    (h1 : value.toList.isEmpty = false) (h2 : (pyStrip value).toList.isEmpty = false)
    (hi : pyInt lim (pyStrip value) = .value n) :
    parseRetryAfter lim value oracle now
      = .ok (if n.natAbs < floatOverflowBound then some (pyMax0 (.fin n)) else none) := by
  simp [parseRetryAfter, h1, h2, hi, int_arm_eq]

/-- the `except ValueError:` arm -/
theorem parse_date (lim : Nat) (value : String) (oracle : String → DateAns) (now : Int)
    (h1 : value.toList.isEmpty = false) (h2 : (pyStrip value).toList.isEmpty = false)
    (hi : ∀ n, pyInt lim (pyStrip value) ≠ .value n) :
    parseRetryAfter lim value oracle now = datePath (pyStrip value) oracle now := by
  unfold parseRetryAfter
  simp only [h1, h2, Bool.false_eq_true, ↓reduceIte]
  split
  · rename_i n hn
    exact absurd hn (hi n)
  · rfl
  · rfl

/-- Case analysis of `_parse_retry_after`: it is `None`, the integer arm, or the date arm. -/
theorem parse_cases (lim : Nat) (value : String) (oracle : String → DateAns) (now : Int) :
    parseRetryAfter lim value oracle now = .ok none ∨
    (∃ n : Int, parseRetryAfter lim value oracle now
        = .ok (if n.natAbs < floatOverflowBound then some (pyMax0 (.fin n)) else none)) ∨
    parseRetryAfter lim value oracle now = datePath (pyStrip value) oracle now := by
  cases h1 : value.toList.isEmpty with
  | true => exact .inl (parse_empty _ _ _ _ h1)
  | false =>
    cases h2 : (pyStrip value).toList.isEmpty with
    | true => exact .inl (parse_blank _ _ _ _ h2)
    | false =>
      cases hi : pyInt lim (pyStrip value) with
      | value n => exact .inr (.inl ⟨n, parse_int _ _ _ _ n h1 h2 hi⟩)
      | invalidLiteral => exact .inr (.inr (parse_date _ _ _ _ h1 h2 (by simp [hi])))
      | tooManyDigits => exact .inr (.inr (parse_date _ _ _ _ h1 h2 (by simp [hi])))

/-- The date oracle raises only what `except (TypeError, ValueError, IndexError, OverflowError)`
catches. -/
def OracleWithinExcept (oracle : String → DateAns) : Prop :=
  ∀ q k, oracle q = .raised k → dateExceptCatches k = true

theorem datePath_error {raw : String} {oracle : String → DateAns} {now : Int} {k : ExcKind}
    (h : datePath raw oracle now = .error k) :
    oracle raw = .raised k ∧ dateExceptCatches k = false := by
  unfold datePath at h
  split at h
  · rename_i k' hk
    split at h
    · cases h
    · cases h
      exact ⟨hk, by simp_all⟩
  · cases h
  · cases h

theorem datePath_some_nonneg {raw : String} {oracle : String → DateAns} {now : Int} {s : PyFloat}
    (h : datePath raw oracle now = .ok (some s)) : s.NonNeg := by
  unfold datePath at h
  split at h
  · split at h <;> cases h
  · cases h
  · cases h; exact pyMax0_nonneg _

/-! ## parse_safe -/

/-- If the parser raises, the exception came out of `parsedate_to_datetime` and is of a kind the
`except` clause does not list.  No hypothesis: this is the complete account of how it can raise. -/
theorem parse_error_origin (lim : Nat) (value : String) (oracle : String → DateAns) (now : Int)
    (k : ExcKind) (h : parseRetryAfter lim value oracle now = .error k) :
    oracle (pyStrip value) = .raised k ∧ dateExceptCatches k = false := by
  rcases parse_cases lim value oracle now with h' | ⟨n, h'⟩ | h'
  · rw [h'] at h; cases h
  · rw [h'] at h; cases h
  · rw [h'] at h; exact datePath_error h

/-- Every hint the parser returns is a non-negative number (never NaN, never negative) — for every
string, every date oracle, every clock reading, every digit limit. -/
theorem parse_hint_nonneg (lim : Nat) (value : String) (oracle : String → DateAns) (now : Int)
    (s : PyFloat) (h : parseRetryAfter lim value oracle now = .ok (some s)) : s.NonNeg := by
  rcases parse_cases lim value oracle now with h' | ⟨n, h'⟩ | h'
  · rw [h'] at h; cases h
  · rw [h'] at h
    split at h
    · cases h; exact pyMax0_nonneg _
    · cases h
  · rw [h'] at h; exact datePath_some_nonneg h

/-- `_parse_retry_after` never raises when the stdlib date parser raises only the listed kinds. -/
theorem parse_never_raises (lim : Nat) (value : String) (oracle : String → DateAns) (now : Int)
    (ho : OracleWithinExcept oracle) : ∃ r, parseRetryAfter lim value oracle now = .ok r := by
  cases h : parseRetryAfter lim value oracle now with
  | ok r => exact ⟨r, rfl⟩
  | error k =>
    have := parse_error_origin lim value oracle now k h
    have := ho _ _ this.1
    simp_all

/-- **parse_safe**: for every string, date oracle (within the except clause), clock and digit
limit the result satisfies the C20 monitor: no exception, and no hint or a hint `≥ 0`. -/
theorem parse_safe (lim : Nat) (value : String) (oracle : String → DateAns) (now : Int)
    (ho : OracleWithinExcept oracle) : specOk (parseRetryAfter lim value oracle now) = true := by
  obtain ⟨r, hr⟩ := parse_never_raises lim value oracle now ho
  rw [hr]
  cases r with
  | none => rfl
  | some s => simpa [specOk] using parse_hint_nonneg lim value oracle now s hr

/-- non-vacuity: an oracle that parses some strings, returns None on others and raises each of the
four listed kinds satisfies the hypothesis. -/
example : OracleWithinExcept (fun q =>
    if q = "a" then .parsed true 5 else if q = "b" then .pyNone
    else if q = "c" then .raised .typeError else if q = "d" then .raised .indexError
    else if q = "e" then .raised .overflowError else .raised .valueError) := by
  intro q k h
  dsimp only at h
  repeat' split at h
  all_goals first | (cases h; done) | (cases h; rfl)

/-- The hypothesis is needed, and the model really has an exception flow: an oracle raising a kind
outside the except clause makes the modelled parser raise it. -/
example : parseRetryAfter pyMaxStrDigits "x" (fun _ => .raised .otherException) 0
    = .error .otherException := by decide


/-! ## digits_give_n -/

/-- The renderings of an integer that the theorem covers: whitespace (any `str.isspace` character,
ASCII or not), an optional sign, a non-empty run of ASCII digits (leading zeros allowed),
whitespace. -/
def rendering (ws1 sg ds ws2 : List Char) : String := String.ofList (ws1 ++ (sg ++ ds) ++ ws2)

theorem strip_rendering {ws1 sg ds ws2 : List Char}
    (h1 : ∀ c ∈ ws1, isPySpace c = true) (h2 : ∀ c ∈ ws2, isPySpace c = true)
    (hsg : sg = [] ∨ sg = ['+'] ∨ sg = ['-'])
    (hne : ds ≠ []) (hd : ∀ c ∈ ds, c.isDigit = true) :
    pyStrip (rendering ws1 sg ds ws2) = String.ofList (sg ++ ds) := by
  have hb : isPySpace (ds.getLast hne) = false := isPySpace_of_isDigit (hd _ (List.getLast_mem hne))
  obtain ⟨d, t, rfl⟩ := List.exists_cons_of_ne_nil hne
  have hd0 : isPySpace d = false := isPySpace_of_isDigit (hd d (by simp))
  unfold pyStrip rendering
  rw [String.toList_ofList]
  congr 1
  rcases hsg with rfl | rfl | rfl
  · exact pyStripL_around (init := (d :: t).dropLast) (b := (d :: t).getLast hne) h1 h2
      (List.dropLast_concat_getLast hne).symm hd0 hb
  · exact pyStripL_around (a := '+') (t := d :: t) (init := '+' :: (d :: t).dropLast)
      (b := (d :: t).getLast hne) h1 h2
      (by rw [List.cons_append, List.dropLast_concat_getLast hne]) (by decide) hb
  · exact pyStripL_around (a := '-') (t := d :: t) (init := '-' :: (d :: t).dropLast)
      (b := (d :: t).getLast hne) h1 h2
      (by rw [List.cons_append, List.dropLast_concat_getLast hne]) (by decide) hb

/-- `int()` of sign + digits (within the digit limit): the signed value. -/
theorem pyInt_signed_digits {lim : Nat} {sg ds : List Char}
    (hsg : sg = [] ∨ sg = ['+'] ∨ sg = ['-'])
    (hne : ds ≠ []) (hd : ∀ c ∈ ds, c.isDigit = true) (hlim : lim = 0 ∨ ds.length ≤ lim) :
    pyInt lim (String.ofList (sg ++ ds))
      = .value (if sg = ['-'] then -(decVal ds : Int) else (decVal ds : Int)) := by
  unfold pyInt
  rw [String.toList_ofList]
  rcases hsg with rfl | rfl | rfl
  · obtain ⟨d, t, rfl⟩ := List.exists_cons_of_ne_nil hne
    rw [List.nil_append, pyIntL_of_digit_head (hd d (by simp)), pyIntBody_digits hne hd hlim]
    simp
  · rw [List.singleton_append, pyIntL_plus, pyIntBody_digits hne hd hlim]
    simp
  · rw [List.singleton_append, pyIntL_minus, pyIntBody_digits hne hd hlim]
    simp

theorem rendering_nonempty {ws1 sg ds ws2 : List Char} (hne : ds ≠ []) :
    (rendering ws1 sg ds ws2).toList.isEmpty = false := by
  unfold rendering
  rw [String.toList_ofList]
  cases ds with
  | nil => exact absurd rfl hne
  | cons d t => cases ws1 <;> cases sg <;> simp

theorem signed_nonempty {sg ds : List Char} (hne : ds ≠ []) :
    (String.ofList (sg ++ ds)).toList.isEmpty = false := by
  rw [String.toList_ofList]
  cases ds with
  | nil => exact absurd rfl hne
  | cons d t => cases sg <;> simp

/-- **digits_give_n** — "a decimal integer n within float range gives n": for EVERY run of ASCII
digits `ds` (any length up to the interpreter's digit limit, leading zeros allowed) whose value
`n = decVal ds` is below the float-overflow bound, with an optional `+` and any surrounding
whitespace, the parser returns exactly `n` — whatever the date oracle and the clock are. -/
theorem digits_give_n (lim : Nat) (ws1 sg ds ws2 : List Char) (oracle : String → DateAns) (now : Int)
    (h1 : ∀ c ∈ ws1, isPySpace c = true) (h2 : ∀ c ∈ ws2, isPySpace c = true)
    (hsg : sg = [] ∨ sg = ['+'])
    (hne : ds ≠ []) (hd : ∀ c ∈ ds, c.isDigit = true) (hlim : lim = 0 ∨ ds.length ≤ lim)
    (hrange : decVal ds < floatOverflowBound) :
    parseRetryAfter lim (rendering ws1 sg ds ws2) oracle now
      = .ok (some (.fin ((decVal ds : Int) : Rat))) := by
  have hsg' : sg = [] ∨ sg = ['+'] ∨ sg = ['-'] := by rcases hsg with h | h <;> simp [h]
  have hnm : sg ≠ ['-'] := by rcases hsg with h | h <;> simp [h]
  have hs := strip_rendering h1 h2 hsg' hne hd
  rw [parse_int lim _ oracle now (decVal ds : Int) (rendering_nonempty hne)
    (by rw [hs]; exact signed_nonempty hne)
    (by rw [hs, pyInt_signed_digits hsg' hne hd hlim]; simp [hnm])]
  have : ((decVal ds : Int)).natAbs < floatOverflowBound := by simpa using hrange
  rw [if_pos this, pyMax0_fin]
  by_cases h0 : decVal ds = 0
  · simp [h0]
  · have : (0 : Rat) < ((decVal ds : Int) : Rat) := by
      have : (0 : Int) < (decVal ds : Int) := by omega
      exact_mod_cast this
    simp [this]

/-- … and a negative integer gives the hint 0 (the `max(0.0, ·)` clamp). -/
theorem negative_digits_give_zero (lim : Nat) (ws1 ds ws2 : List Char) (oracle : String → DateAns)
    (now : Int)
    (h1 : ∀ c ∈ ws1, isPySpace c = true) (h2 : ∀ c ∈ ws2, isPySpace c = true)
    (hne : ds ≠ []) (hd : ∀ c ∈ ds, c.isDigit = true) (hlim : lim = 0 ∨ ds.length ≤ lim)
    (hrange : decVal ds < floatOverflowBound) :
    parseRetryAfter lim (rendering ws1 ['-'] ds ws2) oracle now = .ok (some (.fin 0)) := by
  have hsg' : ['-'] = [] ∨ ['-'] = ['+'] ∨ ['-'] = ['-'] := by simp
  have hs := strip_rendering h1 h2 hsg' hne hd
  rw [parse_int lim _ oracle now (-(decVal ds : Int)) (rendering_nonempty hne)
    (by rw [hs]; exact signed_nonempty hne)
    (by rw [hs, pyInt_signed_digits hsg' hne hd hlim]; simp)]
  have : (-(decVal ds : Int)).natAbs < floatOverflowBound := by simpa using hrange
  rw [if_pos this, pyMax0_fin]
  have : ¬ (0 : Rat) < ((-(decVal ds : Int) : Int) : Rat) := by
    intro h
    have : (0 : Int) < -(decVal ds : Int) := by exact_mod_cast h
    omega
  rw [if_neg this]

/-- The canonical rendering: `str(n)` (= `Nat.toDigits 10 n`) behind any number of leading zeros. -/
theorem decVal_zeros_toDigits (z n : Nat) : decVal (List.replicate z '0' ++ Nat.toDigits 10 n) = n := by
  unfold decVal
  rw [Nat.ofDigitChars_append, Nat.ofDigitChars_replicate_zero, Nat.mul_zero,
    Nat.ofDigitChars_ten_toDigits]

theorem digits_zeros_toDigits (z n : Nat) :
    ∀ c ∈ List.replicate z '0' ++ Nat.toDigits 10 n, c.isDigit = true := by
  intro c hc
  rcases List.mem_append.mp hc with h | h
  · rw [(List.mem_replicate.mp h).2]; decide
  · exact Nat.isDigit_of_mem_toDigits (by decide) (by decide) h

/-- **digits_give_n**, canonical form: for every natural number `n` below the float bound, `str(n)`
with `z` leading zeros, optional `+`, surrounding whitespace, gives the hint `n`. -/
theorem nat_repr_gives_n (lim z n : Nat) (ws1 sg ws2 : List Char) (oracle : String → DateAns)
    (now : Int)
    (h1 : ∀ c ∈ ws1, isPySpace c = true) (h2 : ∀ c ∈ ws2, isPySpace c = true)
    (hsg : sg = [] ∨ sg = ['+'])
    (hlim : lim = 0 ∨ z + (Nat.toDigits 10 n).length ≤ lim)
    (hrange : n < floatOverflowBound) :
    parseRetryAfter lim (rendering ws1 sg (List.replicate z '0' ++ Nat.toDigits 10 n) ws2) oracle now
      = .ok (some (.fin ((n : Int) : Rat))) := by
  have := digits_give_n lim ws1 sg (List.replicate z '0' ++ Nat.toDigits 10 n) ws2 oracle now h1 h2 hsg
    (by simp [Nat.toDigits_ne_nil]) (digits_zeros_toDigits z n) (by simpa using hlim)
    (by rw [decVal_zeros_toDigits]; exact hrange)
  rw [decVal_zeros_toDigits] at this
  exact this

/-- non-vacuity of `digits_give_n` / `nat_repr_gives_n`: " +00120\t" is such a rendering and the
model returns 120 on it. -/
example : rendering [' '] ['+'] ['0', '0', '1', '2', '0'] ['\t'] = " +00120\t" := by decide
set_option exponentiation.threshold 2000 in
example : parseRetryAfter pyMaxStrDigits " +00120\t" (fun _ => .raised .valueError) 0
    = .ok (some (.fin 120)) := by decide
example : (∀ c ∈ [' '], isPySpace c = true) ∧ (∀ c ∈ ['0', '0', '1', '2', '0'], c.isDigit = true)
    ∧ decVal ['0', '0', '1', '2', '0'] = 120 := by decide
-- the float bound is not vacuous either way: 10^308 is inside, 10^309 outside
set_option exponentiation.threshold 2000 in
example : 10 ^ 308 < floatOverflowBound ∧ floatOverflowBound < 10 ^ 309 := by decide


/-! ## huge_gives_none -/

/-- `parsedate_to_datetime` does not produce a date for `q`: it returns `None` or raises one of the
listed kinds (what the real stdlib does for every all-digit string: `ValueError`). -/
def DateRejects (oracle : String → DateAns) (q : String) : Prop :=
  oracle q = .pyNone ∨ ∃ k, oracle q = .raised k ∧ dateExceptCatches k = true

theorem datePath_rejects {oracle : String → DateAns} {q : String} {now : Int}
    (h : DateRejects oracle q) : datePath q oracle now = .ok none := by
  unfold datePath
  rcases h with h | ⟨k, h, hk⟩
  · simp [h]
  · simp [h, hk]

/-- **huge_gives_none (float range)**: a digit string (any sign, leading zeros, surrounding
whitespace) whose value is at or beyond `2^1024 − 2^970` gives NO hint — it is an `.ok`, the
`OverflowError` of `float()` is caught — whatever the oracle and the clock. -/
theorem overflow_gives_none (lim : Nat) (ws1 sg ds ws2 : List Char) (oracle : String → DateAns)
    (now : Int)
    (h1 : ∀ c ∈ ws1, isPySpace c = true) (h2 : ∀ c ∈ ws2, isPySpace c = true)
    (hsg : sg = [] ∨ sg = ['+'] ∨ sg = ['-'])
    (hne : ds ≠ []) (hd : ∀ c ∈ ds, c.isDigit = true) (hlim : lim = 0 ∨ ds.length ≤ lim)
    (hhuge : floatOverflowBound ≤ decVal ds) :
    parseRetryAfter lim (rendering ws1 sg ds ws2) oracle now = .ok none := by
  have hs := strip_rendering h1 h2 hsg hne hd
  rw [parse_int lim _ oracle now _ (rendering_nonempty hne)
    (by rw [hs]; exact signed_nonempty hne)
    (by rw [hs, pyInt_signed_digits hsg hne hd hlim])]
  have : ¬ (if sg = ['-'] then -(decVal ds : Int) else (decVal ds : Int)).natAbs < floatOverflowBound := by
    split <;> simp <;> omega
  rw [if_neg this]

set_option exponentiation.threshold 2000 in
theorem floatOverflowBound_le : floatOverflowBound ≤ 10 ^ 309 := by decide

set_option exponentiation.threshold 2000 in
/-- Every digit string of 310 or more digits that does not start with `0` is beyond float range
(309-digit strings can be on either side: `10^308 < 2^1024 − 2^970 < 10^309`). -/
theorem long_digit_string_overflows {d : Char} {t : List Char} (hd : d.isDigit = true)
    (h0 : d ≠ '0') (hlen : 309 ≤ t.length) : floatOverflowBound ≤ decVal (d :: t) := by
  have hb : floatOverflowBound ≤ 10 ^ 309 := floatOverflowBound_le
  calc floatOverflowBound ≤ 10 ^ 309 := hb
    _ ≤ 10 ^ t.length := Nat.pow_le_pow_right (by decide) hlen
    _ ≤ decVal (d :: t) := decVal_lower_bound hd h0

/-- `int()` of sign + more than `lim` digits is the digit-limit ValueError. -/
theorem pyInt_too_many {lim : Nat} {sg ds : List Char}
    (hsg : sg = [] ∨ sg = ['+'] ∨ sg = ['-'])
    (hd : ∀ c ∈ ds, c.isDigit = true) (hpos : 0 < lim) (hlim : lim < ds.length) :
    pyInt lim (String.ofList (sg ++ ds)) = .tooManyDigits := by
  have hne : ds ≠ [] := by intro h; subst h; simp at hlim
  unfold pyInt
  rw [String.toList_ofList]
  rcases hsg with rfl | rfl | rfl
  · obtain ⟨d, t, rfl⟩ := List.exists_cons_of_ne_nil hne
    rw [List.nil_append, pyIntL_of_digit_head (hd d (by simp)), pyIntBody_too_many hd hpos hlim]
  · rw [List.singleton_append, pyIntL_plus, pyIntBody_too_many hd hpos hlim]
  · rw [List.singleton_append, pyIntL_minus, pyIntBody_too_many hd hpos hlim]

/-- **huge_gives_none (digit limit)**: more digits than `sys.get_int_max_str_digits()` makes
`int()` raise ValueError, which sends the string to the date parser; the result is exactly what the
date arm gives — in particular it is NOT an exception of the integer arm — and it is `None`
whenever the date parser rejects the string (which the real one does for digit strings). -/
theorem too_many_digits_goes_to_date_path (lim : Nat) (ws1 sg ds ws2 : List Char)
    (oracle : String → DateAns) (now : Int)
    (h1 : ∀ c ∈ ws1, isPySpace c = true) (h2 : ∀ c ∈ ws2, isPySpace c = true)
    (hsg : sg = [] ∨ sg = ['+'] ∨ sg = ['-'])
    (hd : ∀ c ∈ ds, c.isDigit = true) (hpos : 0 < lim) (hlim : lim < ds.length) :
    parseRetryAfter lim (rendering ws1 sg ds ws2) oracle now
      = datePath (String.ofList (sg ++ ds)) oracle now := by
  have hne : ds ≠ [] := by intro h; subst h; simp at hlim
  have hs := strip_rendering h1 h2 hsg hne hd
  rw [parse_date lim _ oracle now (rendering_nonempty hne) (by rw [hs]; exact signed_nonempty hne)
    (by rw [hs, pyInt_too_many hsg hd hpos hlim]; simp), hs]

theorem too_many_digits_gives_none (lim : Nat) (ws1 sg ds ws2 : List Char)
    (oracle : String → DateAns) (now : Int)
    (h1 : ∀ c ∈ ws1, isPySpace c = true) (h2 : ∀ c ∈ ws2, isPySpace c = true)
    (hsg : sg = [] ∨ sg = ['+'] ∨ sg = ['-'])
    (hd : ∀ c ∈ ds, c.isDigit = true) (hpos : 0 < lim) (hlim : lim < ds.length)
    (hrej : DateRejects oracle (String.ofList (sg ++ ds))) :
    parseRetryAfter lim (rendering ws1 sg ds ws2) oracle now = .ok none := by
  rw [too_many_digits_goes_to_date_path lim ws1 sg ds ws2 oracle now h1 h2 hsg hd hpos hlim,
    datePath_rejects hrej]

/-- **huge_gives_none**: beyond float range or beyond the digit limit ⇒ no hint, never an
exception. -/
theorem huge_gives_none (lim : Nat) (ws1 sg ds ws2 : List Char) (oracle : String → DateAns)
    (now : Int)
    (h1 : ∀ c ∈ ws1, isPySpace c = true) (h2 : ∀ c ∈ ws2, isPySpace c = true)
    (hsg : sg = [] ∨ sg = ['+'] ∨ sg = ['-'])
    (hne : ds ≠ []) (hd : ∀ c ∈ ds, c.isDigit = true)
    (hrej : DateRejects oracle (String.ofList (sg ++ ds)))
    (hhuge : floatOverflowBound ≤ decVal ds ∨ (0 < lim ∧ lim < ds.length)) :
    parseRetryAfter lim (rendering ws1 sg ds ws2) oracle now = .ok none := by
  by_cases hl : 0 < lim ∧ lim < ds.length
  · exact too_many_digits_gives_none lim ws1 sg ds ws2 oracle now h1 h2 hsg hd hl.1 hl.2 hrej
  · rcases hhuge with hh | hh
    · exact overflow_gives_none lim ws1 sg ds ws2 oracle now h1 h2 hsg hne hd (by omega) hh
    · exact absurd hh hl

-- non-vacuity: 310 nines (cf. the F4 witness "9"*309) are beyond float range and within the
-- digit limit; a string of 4301 digits is beyond the limit; the oracle below rejects.
example : floatOverflowBound ≤ decVal ('9' :: List.replicate 309 '9') :=
  long_digit_string_overflows (by decide) (by decide) (by rw [List.length_replicate]; exact Nat.le_refl _)
example : ('9' :: List.replicate 309 '9').length ≤ pyMaxStrDigits := by
  rw [List.length_cons, List.length_replicate]; decide
example : DateRejects (fun _ => .raised .valueError) "x" := .inr ⟨_, rfl, rfl⟩
example : 0 < pyMaxStrDigits ∧ pyMaxStrDigits < (List.replicate 4301 '9').length := by
  rw [List.length_replicate]; decide

/-! ## date_gives_delta -/

theorem div_million_pos_iff (a : Int) : (0 : Rat) < (a : Rat) / 1000000 ↔ 0 < a := by
  constructor
  · intro h
    have : (0 : Rat) < (a : Rat) := by grind
    exact_mod_cast this
  · intro h
    have : (0 : Rat) < (a : Rat) := by exact_mod_cast h
    grind

/-- The date arm on a parsed date: the time until that date in seconds (exact rational of the
microsecond difference), clamped at 0.  `aware` is irrelevant: a naive date is read as UTC, which
is how the oracle's epoch is defined. -/
theorem datePath_parsed {raw : String} {oracle : String → DateAns} {now : Int} {aware : Bool}
    {t : Int} (h : oracle raw = .parsed aware t) :
    datePath raw oracle now
      = .ok (some (.fin (if now < t then ((t - now : Int) : Rat) / 1000000 else 0))) := by
  unfold datePath deltaSeconds
  rw [h]
  simp only [pyMax0_fin, div_million_pos_iff]
  have : (0 < t - now) ↔ now < t := by omega
  simp only [this]

/-- **date_gives_delta** — "an HTTP-date gives the time until that date clamped at 0": for every
non-blank value on which `int()` raises ValueError and which the date parser parses to the instant
`t` (epoch µs), the hint is `(t − now)/10^6` seconds if the date is in the future and `0` otherwise. -/
theorem date_gives_delta (lim : Nat) (value : String) (oracle : String → DateAns) (now : Int)
    (aware : Bool) (t : Int)
    (hnonblank : (pyStrip value).toList.isEmpty = false)
    (hint : ∀ n, pyInt lim (pyStrip value) ≠ .value n)
    (hdate : oracle (pyStrip value) = .parsed aware t) :
    parseRetryAfter lim value oracle now
      = .ok (some (.fin (if now < t then ((t - now : Int) : Rat) / 1000000 else 0))) := by
  have hne : value.toList.isEmpty = false := by
    cases h : value.toList with
    | nil =>
      have : (pyStrip value).toList = [] := by
        unfold pyStrip; rw [String.toList_ofList, h]; rfl
      simp [this] at hnonblank
    | cons a l => rfl
  rw [parse_date lim value oracle now hne hnonblank hint, datePath_parsed hdate]

/-- A sufficient, checkable reason for `int()` to fail: some character of the string is not a
digit, underscore, sign or whitespace — true of every HTTP-date (letters, `:`). -/
theorem not_int_of_bad_char (lim : Nat) (raw : String) (c : Char) (hc : c ∈ raw.toList)
    (hbad : isIntChar c = false) : ∀ n, pyInt lim raw ≠ .value n := by
  intro n h
  have := pyIntL_value_chars h c hc
  simp [hbad] at this

-- non-vacuity of `date_gives_delta`: an RFC 1123 date (with surrounding whitespace) satisfies the
-- three hypotheses; the instance says: 1.5 s ahead gives 3/2, 1.5 s behind gives 0.
example :
    let v := " Sun, 06 Nov 1994 08:49:37 GMT\r\n"
    let oracle : String → DateAns := fun q =>
      if q = "Sun, 06 Nov 1994 08:49:37 GMT" then .parsed true 784111777000000 else .raised .valueError
    (pyStrip v).toList.isEmpty = false ∧ 'S' ∈ (pyStrip v).toList ∧ isIntChar 'S' = false
      ∧ oracle (pyStrip v) = .parsed true 784111777000000 := by decide
example (lim : Nat) (oracle : String → DateAns)
    (h : oracle "Sun, 06 Nov 1994 08:49:37 GMT" = .parsed true 784111777000000) :
    parseRetryAfter lim " Sun, 06 Nov 1994 08:49:37 GMT\r\n" oracle 784111775500000
      = .ok (some (.fin (1500000 / 1000000)))
    ∧ parseRetryAfter lim " Sun, 06 Nov 1994 08:49:37 GMT\r\n" oracle 784111778500000
      = .ok (some (.fin 0)) := by
  have hs : pyStrip " Sun, 06 Nov 1994 08:49:37 GMT\r\n" = "Sun, 06 Nov 1994 08:49:37 GMT" := by decide
  have hi := not_int_of_bad_char lim (pyStrip " Sun, 06 Nov 1994 08:49:37 GMT\r\n") 'S'
    (by decide) (by decide)
  constructor
  · rw [date_gives_delta lim _ oracle _ true 784111777000000 (by decide) hi (by rw [hs]; exact h)]
    simp
  · rw [date_gives_delta lim _ oracle _ true 784111777000000 (by decide) hi (by rw [hs]; exact h)]
    simp
example : isIntChar 'S' = false ∧ 'S' ∈ "Sun, 06 Nov 1994 08:49:37 GMT".toList := by decide

/-! ## garbage_gives_none -/

/-- **garbage_gives_none**: a value that is empty, or blank, or on which `int()` raises ValueError
and which the date parser rejects, gives no hint (and no exception). -/
theorem garbage_gives_none (lim : Nat) (value : String) (oracle : String → DateAns) (now : Int)
    (hint : ∀ n, pyInt lim (pyStrip value) ≠ .value n)
    (hrej : DateRejects oracle (pyStrip value)) :
    parseRetryAfter lim value oracle now = .ok none := by
  cases h1 : value.toList.isEmpty with
  | true => exact parse_empty _ _ _ _ h1
  | false =>
    cases h2 : (pyStrip value).toList.isEmpty with
    | true => exact parse_blank _ _ _ _ h2
    | false => rw [parse_date lim value oracle now h1 h2 hint, datePath_rejects hrej]

/-- the empty string and all-whitespace strings (any `str.isspace` characters) give no hint -/
theorem blank_gives_none (lim : Nat) (ws : List Char) (oracle : String → DateAns) (now : Int)
    (h : ∀ c ∈ ws, isPySpace c = true) :
    parseRetryAfter lim (String.ofList ws) oracle now = .ok none := by
  apply parse_blank
  unfold pyStrip
  rw [String.toList_ofList, String.toList_ofList, pyStripL_all_space h]
  rfl

-- non-vacuity: ASCII and non-ASCII whitespace (space, tab, U+001C, NBSP, U+3000)
example : ∀ c ∈ [' ', '\t', '\x1c', '\u00a0', '\u3000'], isPySpace c = true := by decide

/-- garbage with a character `int()` cannot accept (e.g. "1.5", "1e3", "nan", "abc", "5s") that
the date parser rejects gives no hint. -/
theorem bad_char_garbage_gives_none (lim : Nat) (value : String) (oracle : String → DateAns)
    (now : Int) (c : Char) (hc : c ∈ (pyStrip value).toList) (hbad : isIntChar c = false)
    (hrej : DateRejects oracle (pyStrip value)) :
    parseRetryAfter lim value oracle now = .ok none :=
  garbage_gives_none lim value oracle now (not_int_of_bad_char lim _ c hc hbad) hrej

-- non-vacuity: "1.5" and "nan"
example : '.' ∈ (pyStrip "1.5").toList ∧ isIntChar '.' = false
    ∧ parseRetryAfter pyMaxStrDigits "1.5" (fun _ => .raised .valueError) 0 = .ok none := by decide
example : parseRetryAfter pyMaxStrDigits "nan" (fun _ => .raised .valueError) 0 = .ok none := by decide


/-! ## header containers: exceptions -/

/-- `str(v)` raises at most a subclass of `Exception` -/
def strCatchable : PyVal → Bool
  | .other (.error k) => k.isException
  | _ => true

def entryCatchable : Entry → Bool
  | .pair k v => strCatchable k && strCatchable v
  | .bad => true

def optCatchable : Option ExcKind → Bool
  | none => true
  | some k => k.isException

/-- every callback of the container (`get`, `items`, `__str__` of keys and values) raises only
subclasses of `Exception` -/
def headersCatchable : Headers → Bool
  | .absent => true
  | .mapping es _ gr ir => es.all entryCatchable && optCatchable gr && optCatchable ir
  | .getter es _ gr items _ _ =>
      es.all entryCatchable && optCatchable gr &&
        (match items with | some r => optCatchable r | none => true)
  | .pairs es _ => es.all entryCatchable
  | .inert _ => true

/-- the hypothesis on user-supplied containers -/
def Catchable (exc : ExcRec) : Prop :=
  headersCatchable exc.headers = true ∧ ∀ h, exc.response = some h → headersCatchable h = true

theorem pyStr_error {lim : Nat} {v : PyVal} {k : ExcKind} (h : pyStr lim v = .error k)
    (hc : strCatchable v = true) : k.isException = true := by
  cases v with
  | none => cases h
  | bool b => cases b <;> cases h
  | int z =>
    by_cases hz : (decide (0 < lim) && decide (lim < numDigits z)) = true
    · simp only [pyStr, hz] at h
      cases h
      rfl
    · simp only [pyStr, hz] at h
      cases h
  | float f r => cases h
  | str s => cases h
  | other r =>
    cases r with
    | ok s => cases h
    | error k' =>
      cases h
      exact hc

theorem scan_error {lim : Nat} {name : String} {es : List Entry} {k : ExcKind}
    (h : scanEntries lim name es = .error k) (hc : es.all entryCatchable = true) :
    k.isException = true := by
  induction es with
  | nil => cases h
  | cons e t ih =>
    simp only [List.all_cons, Bool.and_eq_true] at hc
    cases e with
    | bad => cases h; rfl
    | pair kk v =>
      have hkv : strCatchable kk = true ∧ strCatchable v = true := by
        simpa [entryCatchable] using hc.1
      unfold scanEntries at h
      split at h
      · rename_i e he
        cases h
        exact pyStr_error he hkv.1
      · split at h
        · cases hv : pyStr lim v with
          | ok sv => rw [hv] at h; cases h
          | error k' =>
            rw [hv] at h
            cases h
            exact pyStr_error hv hkv.2
        · exact ih h hc.2

theorem getEntry_catchable {ci : Bool} {es : List Entry} {n : String}
    (hc : es.all entryCatchable = true) : strCatchable (getEntry ci es n) = true := by
  unfold getEntry
  split
  · rename_i kk v hf
    have hm := List.mem_of_find?_eq_some hf
    have := List.all_eq_true.mp hc _ hm
    simp only [entryCatchable, Bool.and_eq_true] at this
    exact this.2
  · rfl

theorem getCall_error {gr : Option ExcKind} {ci : Bool} {es : List Entry} {n : String} {k : ExcKind}
    (h : getCall gr ci es n = .error k) (hc : optCatchable gr = true) : k.isException = true := by
  unfold getCall at h
  split at h
  · cases h; exact hc
  · cases h

theorem getCall_ok {gr : Option ExcKind} {ci : Bool} {es : List Entry} {n : String} {v : PyVal}
    (h : getCall gr ci es n = .ok v) : v = getEntry ci es n := by
  unfold getCall at h
  split at h
  · cases h
  · cases h; rfl

theorem getPhase_error {lim : Nat} {gr : Option ExcKind} {ci : Bool} {es : List Entry}
    {name : String} {k : ExcKind}
    (h : getPhase lim gr ci es name = .error k) (hgr : optCatchable gr = true)
    (hes : es.all entryCatchable = true) : k.isException = true := by
  unfold getPhase at h
  split at h
  · rename_i e he
    cases h
    exact getCall_error he hgr
  · rename_i v1 hv1
    have h1 := getCall_ok hv1
    simp only at h
    split at h
    · rename_i e he
      cases h
      split at he
      · exact getCall_error he hgr
      · cases he
    · rename_i v2 hv2
      have hv2c : strCatchable v2 = true := by
        split at hv2
        · rw [getCall_ok hv2]; exact getEntry_catchable hes
        · cases hv2; rw [h1]; exact getEntry_catchable hes
      split at h
      · cases h
      · cases hp : pyStr lim v2 with
        | ok sv => rw [hp] at h; cases h
        | error e =>
          rw [hp] at h
          cases h
          exact pyStr_error hp hv2c

theorem itemsScan_error {lim : Nat} {ir : Option ExcKind} {es : List Entry} {name : String}
    {k : ExcKind} (h : itemsScan lim ir es name = .error k) (hir : optCatchable ir = true)
    (hes : es.all entryCatchable = true) : k.isException = true := by
  unfold itemsScan at h
  split at h
  · cases h; exact hir
  · exact scan_error h hes

/-- `_lookup_header` can only let a non-`Exception` (KeyboardInterrupt, …) through: every
`Exception` is swallowed by its `except Exception: return None`. -/
theorem lookup_error_is_base (lim : Nat) (headers : Headers) (name : String) (k : ExcKind)
    (h : lookupHeader lim headers name = .error k) : k.isException = false := by
  cases headers with
  | absent => cases h
  | inert t => cases h
  | pairs es it => exact (tryExcept_error_iff.mp h).2
  | mapping es ci gr ir => exact (tryExcept_error_iff.mp h).2
  | getter es ci gr items iterable truthy =>
    simp only [lookupHeader] at h
    split at h
    · rename_i k' hk'
      cases h
      exact (tryExcept_error_iff.mp hk').2
    · cases h
    · split at h
      · exact (tryExcept_error_iff.mp h).2
      · cases h

/-- **`_lookup_header` never raises** for a container whose callbacks raise only `Exception`s —
whatever they return, whatever the keys and values are (None, ints beyond the `str()` digit limit,
objects whose `__str__` raises, items that do not unpack). -/
theorem lookup_never_raises (lim : Nat) (headers : Headers) (name : String)
    (hc : headersCatchable headers = true) : ∃ r, lookupHeader lim headers name = .ok r := by
  cases h : lookupHeader lim headers name with
  | ok r => exact ⟨r, rfl⟩
  | error k =>
    exfalso
    have hbase := lookup_error_is_base lim headers name k h
    cases headers with
    | absent => cases h
    | inert t => cases h
    | pairs es it =>
      have := scan_error (tryExcept_error_iff.mp h).1 hc
      simp [hbase] at this
    | mapping es ci gr ir =>
      simp only [headersCatchable, Bool.and_eq_true] at hc
      have hb := (tryExcept_error_iff.mp h).1
      split at hb
      · rename_i e he
        cases hb
        have := getPhase_error he hc.1.2 hc.1.1
        simp [hbase] at this
      · cases hb
      · have := itemsScan_error hb hc.2 hc.1.1
        simp [hbase] at this
    | getter es ci gr items iterable truthy =>
      simp only [headersCatchable, Bool.and_eq_true] at hc
      simp only [lookupHeader] at h
      split at h
      · rename_i k' hk'
        cases h
        have hb := (tryExcept_error_iff.mp hk').1
        split at hb
        · rename_i e he
          cases hb
          have := getPhase_error he hc.1.2 hc.1.1
          simp [hbase] at this
        · cases hb
        · split at hb
          · rename_i ir
            cases hi : itemsScan lim ir es name with
            | ok r => rw [hi] at hb; cases hb
            | error e =>
              rw [hi] at hb
              cases hb
              have := itemsScan_error hi (by simpa using hc.2) hc.1.1
              simp [hbase] at this
          · cases hb
      · cases h
      · split at h
        · have := scan_error (tryExcept_error_iff.mp h).1 hc.1.1
          simp [hbase] at this
        · cases h

-- non-vacuity: a dict with a None value, a huge int, an object whose __str__ raises ValueError
example : headersCatchable (.mapping
    [.pair (.str "Retry-After") .none, .pair (.str "x") (.int (10 ^ 5000)),
     .pair (.other (.error .valueError)) (.str "5"), .bad] false (some .typeError) none) = true := by
  decide
-- … and the hypothesis matters: a `get` raising KeyboardInterrupt propagates in the model
example : lookupHeader pyMaxStrDigits (.mapping [] false (some .baseException) none) "Retry-After"
    = .error .baseException := by decide


/-! ## lookup_any_casing: which value is found -/

/-- An entry that cannot be taken for `name`: it unpacks, `str(key)` succeeds and differs from
`name` even up to ASCII case. -/
def NonMatching (lim : Nat) (name : String) (e : Entry) : Prop :=
  ∃ k v ks, e = .pair k v ∧ pyStr lim k = .ok ks ∧ lowerL ks ≠ lowerL name

/-- The scan returns `str(val)` of the FIRST entry whose key matches up to case (an earlier item
that does not unpack, or whose key's `__str__` raises, would abort the scan — excluded by `hpre`). -/
theorem scan_finds {lim : Nat} {name : String} {pre post : List Entry} {k v : PyVal} {ks : String}
    (hpre : ∀ e ∈ pre, NonMatching lim name e) (hk : pyStr lim k = .ok ks)
    (hm : lowerL ks = lowerL name) :
    scanEntries lim name (pre ++ .pair k v :: post) = (pyStr lim v).map some := by
  induction pre with
  | nil => simp [scanEntries, hk, hm]
  | cons e t ih =>
    obtain ⟨k', v', ks', rfl, hk', hne⟩ := hpre e (by simp)
    simp only [List.cons_append, scanEntries, hk']
    rw [if_neg (by simpa using hne)]
    exact ih (fun e he => hpre e (by simp [he]))

theorem keyIs_imp {ci : Bool} {n : String} {e : Entry} (h : Entry.keyIs ci n e = true) :
    ∃ k v, e = .pair (.str k) v ∧ lowerL k = lowerL n := by
  cases e with
  | bad => simp [Entry.keyIs] at h
  | pair kk v =>
    cases kk with
    | str k =>
      refine ⟨k, v, rfl, ?_⟩
      cases ci <;> simp [Entry.keyIs] at h
      · rw [h]
      · exact h
    | none => simp [Entry.keyIs] at h
    | bool b => simp [Entry.keyIs] at h
    | int z => simp [Entry.keyIs] at h
    | float f r => simp [Entry.keyIs] at h
    | other r => simp [Entry.keyIs] at h

/-- With a unique case-insensitively matching key, `get(n)` (for `n` = the name or its lower-case
form, exact or case-insensitive `get`) returns that key's value or `None`. -/
theorem getEntry_unique {lim : Nat} {ci : Bool} {name n : String} {pre post : List Entry}
    {k v : PyVal}
    (hpre : ∀ e ∈ pre, NonMatching lim name e)
    (hpost : ∀ e ∈ post, ∀ k' v', e = .pair (.str k') v' → lowerL k' ≠ lowerL name)
    (hn : lowerL n = lowerL name) :
    getEntry ci (pre ++ .pair k v :: post) n = v ∨ getEntry ci (pre ++ .pair k v :: post) n = .none := by
  have hpre' : List.find? (Entry.keyIs ci n) pre = none := by
    rw [List.find?_eq_none]
    intro e he hkey
    obtain ⟨k', v', rfl, hl⟩ := keyIs_imp hkey
    obtain ⟨k'', v'', ks, heq, hs, hne⟩ := hpre _ he
    cases heq
    simp only [pyStr] at hs
    cases hs
    exact hne (hl.trans hn)
  have hpost' : List.find? (Entry.keyIs ci n) post = none := by
    rw [List.find?_eq_none]
    intro e he hkey
    obtain ⟨k', v', rfl, hl⟩ := keyIs_imp hkey
    exact hpost _ he k' v' rfl (hl.trans hn)
  unfold getEntry
  rw [List.find?_append, hpre', Option.none_or]
  by_cases hx : Entry.keyIs ci n (.pair k v) = true
  · rw [List.find?_cons_of_pos hx]
    exact .inl rfl
  · rw [List.find?_cons_of_neg hx, hpost']
    exact .inr rfl

/-- the `get` phase under uniqueness: it falls through, or returns `str(v)` -/
theorem getPhase_unique {lim : Nat} {ci : Bool} {name : String} {pre post : List Entry}
    {k v : PyVal}
    (hpre : ∀ e ∈ pre, NonMatching lim name e)
    (hpost : ∀ e ∈ post, ∀ k' v', e = .pair (.str k') v' → lowerL k' ≠ lowerL name) :
    getPhase lim none ci (pre ++ .pair k v :: post) name = .ok none ∨
    getPhase lim none ci (pre ++ .pair k v :: post) name = (pyStr lim v).map some := by
  have key : ∀ w : PyVal, (w = v ∨ w = .none) → w.isNone = false →
      (pyStr lim w).map some = (pyStr lim v).map some := by
    intro w hw hnn
    rcases hw with rfl | rfl
    · rfl
    · simp [PyVal.isNone] at hnn
  have g1 := getEntry_unique (ci := ci) (k := k) (v := v) hpre hpost (rfl : lowerL name = lowerL name)
  have g2 := getEntry_unique (ci := ci) (k := k) (v := v) hpre hpost (lowerL_pyLower name)
  unfold getPhase
  simp only [getCall]
  cases h1 : (getEntry ci (pre ++ .pair k v :: post) name).isNone with
  | true =>
    simp only [↓reduceIte]
    cases h2 : (getEntry ci (pre ++ .pair k v :: post) (pyLower name)).isNone with
    | true => left; simp
    | false => right; simpa using key _ g2 h2
  | false =>
    right
    simpa [h1] using key _ g1 h1

/-- **lookup_any_casing.**  Let the container's items be `pre ++ [(k, v)] ++ post` where `str(k)`
equals `name` up to ASCII case and no other key does (`hpre`, `hpost`).  Then in EVERY container
shape — a Mapping with exact or case-insensitive `get`, an object with `.get` and `.items`, an
object with `.get` that is merely iterable, a plain iterable or iterator of pairs — the lookup
returns `str(v)`; if `str(v)` raises an `Exception` it returns `None`.  In particular a value
`None` under the only matching key is returned as the string `"None"` (the `get` phase skips it,
the scan does not) — which `_parse_retry_after` then rejects. -/
theorem lookup_any_casing (lim : Nat) (name : String) (pre post : List Entry) (k v : PyVal)
    (ks : String) (ci it iterable truthy : Bool)
    (hpre : ∀ e ∈ pre, NonMatching lim name e)
    (hpost : ∀ e ∈ post, ∀ k' v', e = .pair (.str k') v' → lowerL k' ≠ lowerL name)
    (hk : pyStr lim k = .ok ks) (hm : lowerL ks = lowerL name) :
    let es := pre ++ .pair k v :: post
    let found : Py (Option String) := tryExcept ExcKind.isException ((pyStr lim v).map some) none
    lookupHeader lim (.mapping es ci none none) name = found ∧
    lookupHeader lim (.getter es ci none (some none) iterable truthy) name = found ∧
    lookupHeader lim (.getter es ci none none true truthy) name = found ∧
    lookupHeader lim (.pairs es it) name = found := by
  intro es found
  have hscan : scanEntries lim name es = (pyStr lim v).map some := scan_finds hpre hk hm
  have hget := getPhase_unique (lim := lim) (ci := ci) (name := name) (k := k) (v := v) hpre hpost
  refine ⟨?_, ?_, ?_, ?_⟩
  · simp only [lookupHeader]
    rcases hget with hg | hg
    · simp only [es, hg, itemsScan] at *
      rw [hscan]
    · simp only [es, hg] at *
      cases hp : pyStr lim v <;> simp [found, hp, Except.map]
  · simp only [lookupHeader]
    rcases hget with hg | hg
    · simp only [es, hg, itemsScan] at *
      rw [hscan]
      cases hp : pyStr lim v with
      | ok sv => simp [found, hp, Except.map, tryExcept]
      | error e => by_cases he : e.isException = true <;> simp [found, hp, Except.map, tryExcept, he]
    · simp only [es, hg] at *
      cases hp : pyStr lim v with
      | ok sv => simp [found, hp, Except.map, tryExcept]
      | error e => by_cases he : e.isException = true <;> simp [found, hp, Except.map, tryExcept, he]
  · simp only [lookupHeader]
    rcases hget with hg | hg
    · simp only [es, hg] at *
      simp [tryExcept, hscan, found]
    · simp only [es, hg] at *
      cases hp : pyStr lim v with
      | ok sv => simp [found, hp, Except.map, tryExcept]
      | error e => by_cases he : e.isException = true <;> simp [found, hp, Except.map, tryExcept, he]
  · simp only [lookupHeader, es]
    rw [hscan]

/-- Corollary: the header is found under ANY casing of its name, whatever else is in the container:
a `str` key equal to "Retry-After" up to ASCII case, unique as such, with a `str` value `sv`. -/
theorem lookup_any_casing_str (lim : Nat) (name key sv : String) (pre post : List Entry)
    (ci it iterable truthy : Bool)
    (hpre : ∀ e ∈ pre, NonMatching lim name e)
    (hpost : ∀ e ∈ post, ∀ k' v', e = .pair (.str k') v' → lowerL k' ≠ lowerL name)
    (hm : lowerL key = lowerL name) :
    let es := pre ++ .pair (.str key) (.str sv) :: post
    lookupHeader lim (.mapping es ci none none) name = .ok (some sv) ∧
    lookupHeader lim (.getter es ci none (some none) iterable truthy) name = .ok (some sv) ∧
    lookupHeader lim (.getter es ci none none true truthy) name = .ok (some sv) ∧
    lookupHeader lim (.pairs es it) name = .ok (some sv) := by
  have := lookup_any_casing lim name pre post (.str key) (.str sv) key ci it iterable truthy hpre hpost
    rfl hm
  simpa [pyStr, Except.map, tryExcept] using this

-- non-vacuity: {"Content-Type": "x", "rEtRy-AfTeR": "7", 5: None} looked up as "Retry-After"
example : (∀ e ∈ [Entry.pair (.str "Content-Type") (.str "x")],
      NonMatching pyMaxStrDigits "Retry-After" e)
    ∧ (∀ e ∈ [Entry.pair (.int 5) .none], ∀ k' v', e = .pair (.str k') v' →
        lowerL k' ≠ lowerL "Retry-After")
    ∧ lowerL "rEtRy-AfTeR" = lowerL "Retry-After" := by
  refine ⟨?_, ?_, by decide⟩
  · intro e he
    simp only [List.mem_singleton] at he
    subst he
    exact ⟨_, _, "Content-Type", rfl, rfl, by decide⟩
  · intro e he k' v' h
    simp only [List.mem_singleton] at he
    subst he
    cases h

/-- What the code does when SEVERAL keys match up to case (exact statements, Mapping with exact
`get`, i.e. a dict): the value under the exact key `name` wins if it is not `None` — even if another
casing comes first in iteration order … -/
theorem lookup_exact_key_wins (lim : Nat) (name : String) (es : List Entry) (v : PyVal) (sv : String)
    (ir : Option ExcKind)
    (hget : getEntry false es name = v) (hnn : v.isNone = false) (hs : pyStr lim v = .ok sv) :
    lookupHeader lim (.mapping es false none ir) name = .ok (some sv) := by
  simp [lookupHeader, getPhase, getCall, hget, hnn, hs, tryExcept, Except.map]

/-- … a `None` under the exact key is skipped in favour of the lower-case key … -/
theorem lookup_none_exact_falls_to_lower (lim : Nat) (name : String) (es : List Entry) (v : PyVal)
    (sv : String) (ir : Option ExcKind)
    (hget : (getEntry false es name).isNone = true)
    (hget2 : getEntry false es (pyLower name) = v) (hnn : v.isNone = false)
    (hs : pyStr lim v = .ok sv) :
    lookupHeader lim (.mapping es false none ir) name = .ok (some sv) := by
  simp [lookupHeader, getPhase, getCall, hget, hget2, hnn, hs, tryExcept, Except.map]

/-- … and when both are `None`/absent the scan returns `str(val)` of the first match in iteration
order — `"None"` for a `None` value. -/
theorem lookup_both_none_scans (lim : Nat) (name : String) (es : List Entry)
    (hget : (getEntry false es name).isNone = true)
    (hget2 : (getEntry false es (pyLower name)).isNone = true) :
    lookupHeader lim (.mapping es false none none) name
      = tryExcept ExcKind.isException (scanEntries lim name es) none := by
  simp [lookupHeader, getPhase, getCall, hget, hget2, itemsScan]

-- non-vacuity of the hypotheses of the three theorems above, and the instances themselves
example : getEntry false [.pair (.str "retry-after") (.str "1"), .pair (.str "Retry-After") (.str "2")]
      "Retry-After" = .str "2"
    ∧ (getEntry false [.pair (.str "Retry-After") .none, .pair (.str "retry-after") (.str "3")]
      "Retry-After").isNone = true
    ∧ getEntry false [.pair (.str "Retry-After") .none, .pair (.str "retry-after") (.str "3")]
      (pyLower "Retry-After") = .str "3"
    ∧ (getEntry false [.pair (.str "RETRY-AFTER") .none] (pyLower "Retry-After")).isNone = true :=
  ⟨by rfl, by rfl, by rfl, by rfl⟩
example : lookupHeader pyMaxStrDigits
    (.mapping [.pair (.str "retry-after") (.str "1"), .pair (.str "Retry-After") (.str "2")] false none none)
    "Retry-After" = .ok (some "2") := by decide
example : lookupHeader pyMaxStrDigits
    (.mapping [.pair (.str "Retry-After") .none, .pair (.str "retry-after") (.str "3")] false none none)
    "Retry-After" = .ok (some "3") := by decide
example : lookupHeader pyMaxStrDigits
    (.mapping [.pair (.str "RETRY-AFTER") .none] false none none) "Retry-After" = .ok (some "None") := by
  decide


/-! ## `_coerce_retry_after`: direct_attr_wins -/

theorem directNumber_ok (f : PyFloat) : directNumber (.ok f) = .ok (some (pyMax0 f)) := rfl

/-- **direct_attr_wins (numbers)**: an `int`/`bool`/`float` `retry_after` attribute decides alone —
headers and response are never consulted: in float range it gives `max(0.0, float(direct))`
(so −5 ↦ 0, NaN ↦ 0, −∞ ↦ 0, +∞ ↦ +∞, True ↦ 1), beyond float range it gives `None` and does NOT
fall through to the headers. -/
theorem direct_int_wins (lim : Nat) (z : Int) (hd : Headers) (rs : Option Headers)
    (oracle : String → DateAns) (now : Int) :
    coerceRetryAfter lim { retryAfter := .int z, headers := hd, response := rs } oracle now
      = .ok (if z.natAbs < floatOverflowBound then some (pyMax0 (.fin z)) else none) := by
  simp only [coerceRetryAfter, directNumber, int_arm_eq]

theorem direct_bool_wins (lim : Nat) (b : Bool) (hd : Headers) (rs : Option Headers)
    (oracle : String → DateAns) (now : Int) :
    coerceRetryAfter lim { retryAfter := .bool b, headers := hd, response := rs } oracle now
      = .ok (some (.fin (if b then 1 else 0))) := by
  cases b <;> simp [coerceRetryAfter, directNumber_ok, pyMax0_fin] <;> decide

theorem direct_float_wins (lim : Nat) (f : PyFloat) (r : String) (hd : Headers) (rs : Option Headers)
    (oracle : String → DateAns) (now : Int) :
    coerceRetryAfter lim { retryAfter := .float f r, headers := hd, response := rs } oracle now
      = .ok (some (pyMax0 f)) := by
  simp only [coerceRetryAfter, directNumber_ok]

/-- NaN, −∞ and negative numbers become 0; +∞ stays +∞. -/
theorem pyMax0_special : pyMax0 .nan = .fin 0 ∧ pyMax0 .negInf = .fin 0 ∧ pyMax0 .inf = .inf := by
  simp [pyMax0, PyFloat.gtZero]

/-- **direct_attr_wins (strings)**: a `str` attribute that parses decides alone; one that does not
parse (or any other kind of attribute) leaves the decision to the headers. -/
theorem direct_str_wins (lim : Nat) (s : String) (p : PyFloat) (hd : Headers) (rs : Option Headers)
    (oracle : String → DateAns) (now : Int)
    (hp : parseRetryAfter lim s oracle now = .ok (some p)) :
    coerceRetryAfter lim { retryAfter := .str s, headers := hd, response := rs } oracle now
      = .ok (some p) := by
  simp only [coerceRetryAfter, hp]

theorem direct_str_falls_through (lim : Nat) (s : String) (hd : Headers) (rs : Option Headers)
    (oracle : String → DateAns) (now : Int)
    (hp : parseRetryAfter lim s oracle now = .ok none) :
    coerceRetryAfter lim { retryAfter := .str s, headers := hd, response := rs } oracle now
      = coerceFromHeaders lim { retryAfter := .str s, headers := hd, response := rs } oracle now := by
  simp only [coerceRetryAfter, hp]

-- non-vacuity of the two hypotheses: "7" parses, "abc" does not (the oracle rejecting it)
set_option exponentiation.threshold 2000 in
example : parseRetryAfter pyMaxStrDigits "7" (fun _ => .raised .valueError) 0 = .ok (some (.fin 7))
    ∧ parseRetryAfter pyMaxStrDigits "abc" (fun _ => .raised .valueError) 0 = .ok none := by decide

/-- `headers = exc.headers or exc.response.headers`: a FALSY `exc.headers` (None, `{}`, `[]`, an
object whose `__bool__` is false) hands over to the response's headers; a truthy one shadows them
even if it does not contain the header. -/
theorem pickHeaders_truthy (exc : ExcRec) (h : exc.headers.truthy = true) :
    exc.pickHeaders = exc.headers := by
  simp [ExcRec.pickHeaders, h]

theorem pickHeaders_falsy (exc : ExcRec) (hr : Headers) (h : exc.headers.truthy = false)
    (hresp : exc.response = some hr) : exc.pickHeaders = hr := by
  simp [ExcRec.pickHeaders, h, hresp]

example : (Headers.mapping [] false none none).truthy = false
    ∧ (Headers.pairs [] true).truthy = true := by decide

/-! ## safety of `_coerce_retry_after` and of the classifier -/

theorem pickHeaders_catchable {exc : ExcRec} (hc : Catchable exc) :
    headersCatchable exc.pickHeaders = true := by
  unfold ExcRec.pickHeaders
  split
  · exact hc.1
  · split
    · rfl
    · rename_i h hr
      exact hc.2 h hr

/-- complete account of how `_coerce_retry_after` can raise: a non-`Exception` out of a container
callback, or an unlisted kind out of the date parser -/
theorem coerce_error_origin (lim : Nat) (exc : ExcRec) (oracle : String → DateAns) (now : Int)
    (k : ExcKind) (h : coerceRetryAfter lim exc oracle now = .error k) :
    k.isException = false ∨ (∃ q, oracle q = .raised k ∧ dateExceptCatches k = false) := by
  have hfrom : ∀ k, coerceFromHeaders lim exc oracle now = .error k →
      k.isException = false ∨ (∃ q, oracle q = .raised k ∧ dateExceptCatches k = false) := by
    intro k hk
    unfold coerceFromHeaders at hk
    split at hk
    · rename_i k' hl
      cases hk
      exact .inl (lookup_error_is_base _ _ _ _ hl)
    · cases hk
    · exact .inr ⟨_, parse_error_origin _ _ _ _ _ hk⟩
  unfold coerceRetryAfter at h
  split at h
  · cases h
  · rw [directNumber, int_arm_eq] at h; cases h
  · cases h
  · split at h
    · rename_i k' hp
      cases h
      exact .inr ⟨_, parse_error_origin _ _ _ _ _ hp⟩
    · cases h
    · exact hfrom k h
  · exact hfrom k h
  · exact hfrom k h

/-- every hint `_coerce_retry_after` returns is a non-negative number — no hypothesis at all -/
theorem coerce_hint_nonneg (lim : Nat) (exc : ExcRec) (oracle : String → DateAns) (now : Int)
    (s : PyFloat) (h : coerceRetryAfter lim exc oracle now = .ok (some s)) : s.NonNeg := by
  have hfrom : coerceFromHeaders lim exc oracle now = .ok (some s) → s.NonNeg := by
    intro hk
    unfold coerceFromHeaders at hk
    split at hk
    · cases hk
    · cases hk
    · exact parse_hint_nonneg _ _ _ _ _ hk
  unfold coerceRetryAfter at h
  split at h
  · cases h; exact pyMax0_nonneg _
  · rw [directNumber, int_arm_eq] at h
    split at h
    · cases h; exact pyMax0_nonneg _
    · cases h
  · cases h; exact pyMax0_nonneg _
  · split at h
    · cases h
    · rename_i p hp
      cases h
      exact parse_hint_nonneg _ _ _ _ _ hp
    · exact hfrom h
  · exact hfrom h
  · exact hfrom h

/-- **`_coerce_retry_after` is safe**: for every attribute value, every container shape and
content, every date oracle within the except clause, every clock. -/
theorem coerce_safe (lim : Nat) (exc : ExcRec) (oracle : String → DateAns) (now : Int)
    (ho : OracleWithinExcept oracle) (hc : Catchable exc) :
    specOk (coerceRetryAfter lim exc oracle now) = true := by
  cases h : coerceRetryAfter lim exc oracle now with
  | ok r =>
    cases r with
    | none => rfl
    | some s => simpa [specOk] using coerce_hint_nonneg lim exc oracle now s h
  | error k =>
    exfalso
    rcases coerce_error_origin lim exc oracle now k h with hb | ⟨q, hq, hcatch⟩
    · -- a non-Exception can only come out of the lookup, which `Catchable` excludes
      have hl := lookup_never_raises lim exc.pickHeaders "Retry-After" (pickHeaders_catchable hc)
      obtain ⟨r, hr⟩ := hl
      have hfrom : ∀ k, coerceFromHeaders lim exc oracle now = .error k → k.isException = true := by
        intro k hk
        unfold coerceFromHeaders at hk
        rw [hr] at hk
        cases r with
        | none => cases hk
        | some hv =>
          have := (parse_error_origin _ _ _ _ _ hk).1
          have := ho _ _ this
          revert this
          cases k <;> simp [dateExceptCatches, ExcKind.isException]
      have hk : k.isException = true := by
        unfold coerceRetryAfter at h
        split at h
        · cases h
        · rw [directNumber, int_arm_eq] at h; cases h
        · cases h
        · split at h
          · rename_i k' hp
            cases h
            have := ho _ _ (parse_error_origin _ _ _ _ _ hp).1
            revert this
            cases k <;> simp [dateExceptCatches, ExcKind.isException]
          · cases h
          · exact hfrom k h
        · exact hfrom k h
        · exact hfrom k h
      simp [hb] at hk
    · have := ho q k hq
      simp [hcatch] at this

/-- **non_rate_limit_no_hint**: only RATE_LIMIT looks for a hint; every other class is returned
bare, whatever the exception carries (the containers are not even touched). -/
theorem non_rate_limit_no_hint (lim : Nat) (klass : EClass) (exc : ExcRec)
    (oracle : String → DateAns) (now : Int) (h : klass ≠ .rateLimit) :
    httpRetryAfterClassifier lim klass exc oracle now = .ok (.bare klass) := by
  simp [httpRetryAfterClassifier, h]

example : EClass.serverError ≠ EClass.rateLimit := by decide

/-- for RATE_LIMIT the classifier is `_coerce_retry_after` wrapped in a `Classification` -/
theorem rate_limit_classifier (lim : Nat) (exc : ExcRec) (oracle : String → DateAns) (now : Int) :
    (∀ k, coerceRetryAfter lim exc oracle now = .error k →
      httpRetryAfterClassifier lim .rateLimit exc oracle now = .error k) ∧
    (coerceRetryAfter lim exc oracle now = .ok none →
      httpRetryAfterClassifier lim .rateLimit exc oracle now = .ok (.bare .rateLimit)) ∧
    (∀ s, coerceRetryAfter lim exc oracle now = .ok (some s) →
      httpRetryAfterClassifier lim .rateLimit exc oracle now = .ok (.classification .rateLimit s)) := by
  refine ⟨?_, ?_, ?_⟩ <;> intros <;> simp_all [httpRetryAfterClassifier]

/-- **classifier_hint_nonneg**: whenever the classifier returns a `Classification`, its class is
RATE_LIMIT and its `retry_after_s` is a non-negative number (not NaN) — no hypothesis. -/
theorem classifier_hint_nonneg (lim : Nat) (klass : EClass) (exc : ExcRec)
    (oracle : String → DateAns) (now : Int) (k : EClass) (s : PyFloat)
    (h : httpRetryAfterClassifier lim klass exc oracle now = .ok (.classification k s)) :
    k = .rateLimit ∧ klass = .rateLimit ∧ s.NonNeg := by
  unfold httpRetryAfterClassifier at h
  split at h
  · cases h
  · rename_i hk
    have hk' : klass = .rateLimit := by simpa using hk
    split at h
    · cases h
    · cases h
    · rename_i s' hs
      cases h
      exact ⟨hk', hk', coerce_hint_nonneg _ _ _ _ _ hs⟩

/-- **C20, first two sentences**: `http_retry_after_classifier` never raises and yields either no
hint or a non-negative number of seconds — for every class `http_classifier` can return, every
`retry_after` attribute, every header container shape / content / key casing, every clock. -/
theorem classifier_safe (lim : Nat) (klass : EClass) (exc : ExcRec) (oracle : String → DateAns)
    (now : Int) (ho : OracleWithinExcept oracle) (hc : Catchable exc) :
    classifierSpecOk (httpRetryAfterClassifier lim klass exc oracle now) = true := by
  by_cases hk : klass = .rateLimit
  · subst hk
    have hsafe := coerce_safe lim exc oracle now ho hc
    obtain ⟨_, hnone, hsome⟩ := rate_limit_classifier lim exc oracle now
    cases h : coerceRetryAfter lim exc oracle now with
    | error k => rw [h] at hsafe; simp [specOk] at hsafe
    | ok r =>
      rw [h] at hsafe
      cases r with
      | none => rw [hnone h]; rfl
      | some s => rw [hsome s h]; simpa [specOk, classifierSpecOk] using hsafe
  · rw [non_rate_limit_no_hint lim klass exc oracle now hk]
    rfl

-- non-vacuity of `Catchable`: the exception of the F4/F10 reproductions
example : Catchable { retryAfter := .int (10 ^ 400),
                      headers := .mapping [.pair (.str "Retry-After") (.str "01 Jan 2147483648 00:00:00 GMT")] false none none,
                      response := some (.pairs [.bad] false) } := by
  refine ⟨by decide, ?_⟩
  intro h hh
  cases hh
  decide

end Redress.C20
