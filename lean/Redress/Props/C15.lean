/-
  C15 — Observability hooks can never alter control flow.

  The twin semantics: `World.silent := true` makes `askHook` (the `ask` used at the three
  observability call sites — `on_metric`, `on_log`, `before_sleep`, incl. the breaker events) treat an
  `Exception` raised by the hook as a normal return of the same duration.  That *is* "the same run
  with silent hooks": same operation, clock and callbacks, except that no observability hook ever
  raises an ordinary exception.  `σ w` puts the world `w` into that semantics and rewrites its log
  accordingly.

  Theorem: every entry point is **equivariant** under σ — for every configuration, entry point and
  world (every answer stream: any hook may raise any `Exception` at any invocation, always or once),
  the silent-hook run returns/raises the same thing and ends in the σ-image of the faulty-hook run's
  final world: the same answers consumed, the same clock, the same `_RetryState`, the same budget
  and breaker state, and a log that differs only in the answers of the faulty hooks.  In particular the
  two runs make the same requests in the same order — the same operation invocations, strategy calls,
  sleeps, breaker and budget interactions, AND the same metric/log/timeline emissions (a failing hook
  does not prevent the other sinks from receiving the event).

  Proof: `Lemmas/Eqv.lean` (equivariance is closed under bind / tryCatch / if / match; `ask` for
  non-hook requests and every state access are equivariant; a hook call *inside* its
  `try … except Exception: pass` is equivariant — `EqvS.askHook`) and `Lemmas/EqvProcs.lean` (one lemma per
  procedure of the model, ≈100, each `unfold; eqv […]`).

  BaseException-only kinds (KeyboardInterrupt, …) raised by a hook are NOT silenced by σ: they
  propagate in both runs (the property speaks of "ordinary exceptions").
-/
import Redress.Lemmas.EqvProcs

namespace Redress.Props.C15

open Redress Twin

theorem mapRes_toRes (r : EStateM.Result Exn World Nat) :
    toRes (mapRes σ r) = ((toRes r).1, σ (toRes r).2) := by
  cases r <;> rfl

theorem mapRes_toResO (tl : Bool) (r : EStateM.Result Exn World Outcome) :
    toResO tl (mapRes σ r) = ((toResO tl r).1, σ (toResO tl r).2) := by
  cases r <;> rfl

/-- **C15.**  Running any entry point in the silent-hook twin semantics gives the same result and the
    σ-image of the final world. -/
theorem hooks_cannot_alter_control_flow (cfg : Cfg) (e : Entry) (w : World) :
    runEntry cfg e (σ w) = ((runEntry cfg e w).1, σ (runEntry cfg e w).2) := by
  have hs : ({ σ w with trace := [], timeline := [], opCalls := 0 } : World)
      = σ { w with trace := [], timeline := [], opCalls := 0 } := rfl
  cases e <;> simp only [runEntry, hs, EStateM.run]
  · rw [(runCall_eqv cfg).eq]; exact mapRes_toRes _
  · rw [(runExecute_eqv cfg).eq]; exact mapRes_toResO _ _
  · rw [(call_eqv cfg).eq]; exact mapRes_toRes _
  · rw [(execute_eqv cfg).eq]; exact mapRes_toResO _ _

/-- the result is the same -/
theorem same_result (cfg : Cfg) (e : Entry) (w : World) :
    (runEntry cfg e (σ w)).1 = (runEntry cfg e w).1 := by
  rw [hooks_cannot_alter_control_flow]

/-- the two logs make the same requests in the same order (operation invocations, strategy calls,
    sleeps, events to every sink, breaker and budget interactions); only answers of faulty hooks differ -/
theorem same_requests (cfg : Cfg) (e : Entry) (w : World) :
    (runEntry cfg e (σ w)).2.trace.map (·.1) = (runEntry cfg e w).2.trace.map (·.1) := by
  rw [hooks_cannot_alter_control_flow]
  simp only [σ, List.map_map]
  congr 1
  funext x
  simp only [Function.comp, silenceX]
  split <;> rfl

/-- every non-hook exchange is identical, answer included -/
theorem same_exchanges (cfg : Cfg) (e : Entry) (w : World) :
    (runEntry cfg e (σ w)).2.trace = (runEntry cfg e w).2.trace.map silenceX := by
  rw [hooks_cannot_alter_control_flow]
  rfl

/-- same clock, same retry state, same shared components, same unconsumed answers -/
theorem same_state (cfg : Cfg) (e : Entry) (w : World) :
    let a := (runEntry cfg e (σ w)).2
    let b := (runEntry cfg e w).2
    a.now = b.now ∧ a.answers = b.answers ∧ a.budget = b.budget ∧ a.breaker = b.breaker ∧ a.xc = b.xc
      ∧ a.rs = b.rs ∧ a.timeline = b.timeline := by
  simp only [hooks_cannot_alter_control_flow]
  exact ⟨rfl, rfl, rfl, rfl, rfl, rfl, rfl⟩

/-- …and for whole scripts of calls and clock advances on one policy object. -/
theorem script_equivariant (cfg : Cfg) : ∀ (steps : List Step) (w : World),
    (runScript cfg steps (σ w)).2 = σ (runScript cfg steps w).2 ∧
    (runScript cfg steps (σ w)).1.map (·.res) = (runScript cfg steps w).1.map (·.res) := by
  intro steps
  induction steps with
  | nil => intro w; exact ⟨rfl, rfl⟩
  | cons st rest ih =>
    intro w
    cases st with
    | advance d =>
      have : ({ σ w with now := (σ w).now + d } : World) = σ { w with now := w.now + d } := rfl
      simp only [runScript, this]
      exact ih _
    | run e =>
      simp only [runScript, hooks_cannot_alter_control_flow]
      have := ih (runEntry cfg e w).2
      exact ⟨this.1, by simp [this.2]⟩

end Redress.Props.C15
