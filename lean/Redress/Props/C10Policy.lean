/-
  C10 (policy level) — every granted retry spends exactly one budget token, and no token is wasted.

  `Mon.C10.ok` is a consequence of `Mon.C03.ok` on EVERY log (a simulation between the two folds), so the
  theorem about the model follows from `Props.C03.permitted_holds`.  The Budget component itself (the
  sliding-window bound) is `Props/C10.lean`.
-/
import Redress.Props.C03

namespace Redress.Props.C10Policy
open Redress Redress.Mon

/-- as long as the C03 monitor has not flagged, the C10 fold state is determined by the C03 fold state
    (and C10 has not flagged either) -/
def Sim (s3 : C03.St) (s10 : C10.St) : Prop :=
  s3.bad = false →
    s10.consumed = (if s3.granted then 1 else 0) ∧ s10.refused = (if s3.refused then 1 else 0) ∧
    s10.strat = s3.strat ∧ s10.retryEv = s3.retryEv ∧ s10.used = (s3.slept || s3.decision.isSome) ∧
    s10.bad = false

theorem sim_init : Sim {} {} := fun _ => ⟨rfl, rfl, rfl, rfl, rfl, rfl⟩

theorem sim_step (cfg : Cfg) (s3 : C03.St) (s10 : C10.St) (x : Req × Ans) (el : Nat) (h : Sim s3 s10) :
    Sim (C03.step cfg s3 x el) (C10.step cfg s10 x) := by
  intro hb'
  obtain ⟨h1, h2, h3, h4, h5, h6⟩ := h (Props.C03.step_bad_mono cfg s3 x el hb')
  obtain ⟨r, a⟩ := x
  cases r with
  | op k => cases a <;> simp_all [C03.step, C10.step]
  | strategy k kd c => simp_all [C03.step, C10.step]
  | budgetConsume =>
    cases a with
    | granted g => cases g <;> simp_all [C03.step, C10.step]
    | _ => simp_all [C03.step, C10.step]
  | metric ev _ _ _ => cases ev <;> simp_all [C03.step, C10.step] <;> (try (split <;> simp_all))
  | sleeper _ _ => simp_all [C03.step, C10.step] <;> (try (split <;> simp_all))
  | sleepHandler _ _ _ => cases a <;> simp_all [C03.step, C10.step]
  | resultClassify _ =>
    by_cases hc : s3.classified = true <;> cases a <;> simp_all [C03.step, C10.step, C03.classify]
  | classify _ =>
    by_cases hc : s3.classified = true <;> cases a <;> simp_all [C03.step, C10.step, C03.classify]
  | abortIf => cases a <;> simp_all [C03.step, C10.step]
  | _ => simp_all [C03.step, C10.step]

theorem sim_fold (cfg : Cfg) (t : Trace) (acc : C03.St × C03.Clock) (s10 : C10.St) (h : Sim acc.1 s10) :
    Sim (t.foldl (Props.C03.stepP cfg) acc).1 (t.foldl (C10.step cfg) s10) := by
  induction t generalizing acc s10 with
  | nil => exact h
  | cons x t ih => exact ih _ _ (sim_step cfg acc.1 s10 x _ h)

theorem sim_run (cfg : Cfg) (t : Trace) : Sim (C03.run cfg t) (C10.run cfg t) :=
  sim_fold cfg t ({}, {}) {} sim_init

/-- on every log and result, the C03 monitor's verdict implies the C10 (policy level) monitor's -/
theorem c10_of_c03 (cfg : Cfg) (e : Entry) (t : Trace) (r : Res) (h : C03.ok cfg e t r = true) :
    C10.ok cfg e t r = true := by
  unfold C10.ok
  unfold C03.ok at h
  split
  · rename_i hg
    simp only [hg, if_true, Bool.and_eq_true, Bool.not_eq_true'] at h
    obtain ⟨⟨⟨⟨hb, _⟩, _⟩, _⟩, hgr⟩ := h
    obtain ⟨hc, _, _, hre, hu, hb10⟩ := sim_run cfg t hb
    simp only [hb10, Bool.not_false, Bool.true_and, C10.tokenUsed]
    simp only [C03.grantOk] at hgr
    rw [hc, hre, hu]
    cases hgt : (C03.run cfg t).granted <;> simp_all
  · rfl

/--
**C10, policy level.**  For every configuration, entry point and world: in every attempt the budget is
consulted at most once and only after the strategy has computed a delay; every `retry` event and every backoff
sleep is preceded, within the same attempt, by exactly one granted `Budget.consume()`; a `budget_exhausted`
event by exactly one refused one; and a token granted in the last attempt is not wasted (the grant is
reported and the backoff at least begun, unless the run is aborted or ends with an exception).  Hence the
retries of all policies that share a budget are bounded by the budget's grants (`Props/C10.lean`).
-/
theorem token_per_retry_holds (cfg : Cfg) (e : Entry) (w : World) :
    Mon.C10.ok cfg e (runEntry cfg e w).2.trace.reverse (runEntry cfg e w).1 = true :=
  c10_of_c03 cfg e _ _ (Props.C03.permitted_holds cfg e w)

theorem token_per_retry_holds_script (cfg : Cfg) (steps : List Step) (w : World) :
    ∀ l ∈ (runScript cfg steps w).1, Mon.C10.ok cfg l.entry l.trace l.res = true :=
  fun l hl => c10_of_c03 cfg _ _ _ (Props.C03.permitted_holds_script cfg steps w l hl)

end Redress.Props.C10Policy
