/-
  C16Cut — what may cut a granted retry short.

  `Mon.C16.skipOk` (Props/C16) says: a run that ends while a granted retry's sleep is still due (and no
  DEFER / ABORT / bad decision was taken) "was cut short by an error or an abort" — and accepts ANY
  `.raised _`.  `Mon.C16.cutOk` below is stronger: the error must be one that can legitimately end the
  run at that point — one the log shows being raised by a callback whose errors PROPAGATE (i.e. not an
  `Exception` raised by a metric / log / before_sleep hook, which the library swallows), or the
  `AbortRetryError` the library itself makes when `abort_if` answers true (`libAbort`), or the model's
  `stuck`.  This is the TIGHT version: no other library-made error (`libExhausted`, `libValueError`,
  `libRuntimeError`, `libCircuitOpen`) can end a run in that situation.

  Proof: a second, self-contained Hoare chain over the same procedures as Props/C16, with a much coarser
  abstraction of the monitor — the one Boolean `wnd` ("a granted retry's sleep is due and nothing was
  decided").  Requests other than strategy / budget / sleep handler / sleeper never move it (`quietQ`);
  an exception that leaves a procedure made of such requests is `libAbort`, `stuck`, or was raised by a
  callback that does not swallow it (`FX.Prov`, from the footprint lemmas of Lemmas/Footprint.lean) — or
  the window is closed, and then there is nothing to show (`Cut`).  The value / outcome endings are
  `Props.C16.no_handler_always_sleeps`.
-/
import Redress.Props.C16
import Redress.MonitorsNR

open Std.Do

-- (the monitor `Mon.C16.cutOk` with `props`, `cutBy` is defined in Redress/MonitorsNR.lean)

namespace Redress.Props.C16Cut
open Redress Redress.Retry Redress.Mon Redress.Mon.C16 Redress.FX Redress.Props.C16

/-! ### the window, and what leaves it -/

/-- a granted retry's sleep is due and no stop decision has been taken (newest-first log) -/
def wnd (cfg : Cfg) (tr : List (Req × Ans)) : Bool :=
  (cur cfg tr).pending && (cur cfg tr).stopped.isNone

/-- `Mon.C16.props` of a newest-first log -/
def propsN (tr : List (Req × Ans)) : List Exn := tr.filterMap raisedOf

/-- an exception that leaves a procedure while the window is open is `stuck`, `libAbort`, or one a
    callback raised and the library does not swallow -/
def Cut (cfg : Cfg) (e : Exn) (w : World) : Prop :=
  wnd cfg w.trace = true → e = .stuck ∨ e = .libAbort ∨ e ∈ propsN w.trace

theorem Cut.of_nw {cfg : Cfg} {e : Exn} {w : World} (h : wnd cfg w.trace = false) : Cut cfg e w := by
  intro hw; rw [h] at hw; cases hw

/-- requests that never move `pending` / `stopped` -/
def quietQ : Req → Bool
  | .strategy .. | .budgetConsume | .sleepHandler .. | .sleeper .. => false
  | _ => true

theorem step_quiet (cfg : Cfg) (s : St) (x : Req × Ans) (h : quietQ x.1 = true) :
    (step cfg s x).pending = s.pending ∧ (step cfg s x).stopped = s.stopped := by
  obtain ⟨r, a⟩ := x
  cases r <;> simp_all [quietQ, step]

theorem wnd_cons_quiet (cfg : Cfg) (r : Req) (a : Ans) (tr : List (Req × Ans)) (h : quietQ r = true) :
    wnd cfg ((r, a) :: tr) = wnd cfg tr := by
  have := step_quiet cfg (cur cfg tr) (r, a) h
  simp only [wnd, cur_cons, this.1, this.2]

theorem wnd_append_quiet (cfg : Cfg) (δ t : List (Req × Ans)) (h : ∀ x ∈ δ, quietQ x.1 = true) :
    wnd cfg (δ ++ t) = wnd cfg t := by
  induction δ with
  | nil => rfl
  | cons x δ ih =>
    obtain ⟨r, a⟩ := x
    rw [List.cons_append, wnd_cons_quiet cfg r a _ (h (r, a) (by simp))]
    exact ih (fun y hy => h y (by simp [hy]))

theorem propsN_append (δ t : List (Req × Ans)) (e : Exn) (h : e ∈ propsN t) : e ∈ propsN (δ ++ t) := by
  simp only [propsN, List.filterMap_append, List.mem_append]
  exact Or.inr h

theorem propsN_of_raisedIn {e : Exn} {δ : List (Req × Ans)} (h : raisedIn e δ) : e ∈ propsN δ := by
  obtain ⟨r, d, hm, hs⟩ := h
  refine List.mem_filterMap.mpr ⟨(r, Ans.raise e d), hm, ?_⟩
  simp only [raisedOf, swallows_eq]
  cases hsr : FX.swallowed r
  · simp
  · simp [hs hsr]

theorem propsN_cons_raise (r : Req) (e : Exn) (d : Nat) (tr : List (Req × Ans))
    (h : FX.swallowed r = true → e.isException = false) : e ∈ propsN ((r, Ans.raise e d) :: tr) := by
  have : e ∈ propsN ([(r, Ans.raise e d)] ++ tr) := by
    simp only [propsN, List.filterMap_append, List.mem_append]
    exact Or.inl (propsN_of_raisedIn ⟨r, d, by simp, h⟩)
  simpa using this

theorem wnd_foot {cfg : Cfg} {w w' : World} (hf : FootXS quietQ w w') : wnd cfg w'.trace = wnd cfg w.trace := by
  obtain ⟨δ, e, k, _⟩ := hf.trace
  rw [e]
  exact wnd_append_quiet cfg δ w.trace k

theorem props_foot {Q : Req → Bool} {w w' : World} {e : Exn} (hf : FootXS Q w w') (h : e ∈ propsN w.trace) :
    e ∈ propsN w'.trace := by
  obtain ⟨δ, e₁, _, _⟩ := hf.trace
  rw [e₁]
  exact propsN_append δ w.trace e h

theorem props_of_prov {e : Exn} {w w' : World} (h : Prov e w w') : e = .stuck ∨ e ∈ propsN w'.trace := by
  rcases h with h | ⟨δ, e₁, hr⟩
  · exact Or.inl h
  · right
    rw [e₁]
    simp only [propsN, List.filterMap_append, List.mem_append]
    exact Or.inl (propsN_of_raisedIn hr)

/-- `Cut` survives whatever does not move the window -/
theorem Cut.foot {cfg : Cfg} {e : Exn} {w w' : World} (hf : FootXS quietQ w w') (h : Cut cfg e w) : Cut cfg e w' := by
  intro hw
  rw [wnd_foot hf] at hw
  rcases h hw with h | h | h
  · exact Or.inl h
  · exact Or.inr (Or.inl h)
  · exact Or.inr (Or.inr (props_foot hf h))

/-- the exceptional exit of a procedure that only makes quiet requests -/
theorem cut_excS {cfg : Cfg} {Own : Exn → Prop} {w w' : World} {e : Exn} (h : ExcS quietQ Own w w' e)
    (hown : Own e → e = .libAbort ∨ wnd cfg w.trace = false) :
    wnd cfg w'.trace = wnd cfg w.trace ∧ Cut cfg e w' := by
  refine ⟨wnd_foot h.foot, fun hw => ?_⟩
  rcases h.src with ho | hp
  · rcases hown ho with h1 | h1
    · exact Or.inr (Or.inl h1)
    · rw [wnd_foot h.foot, h1] at hw; cases hw
  · rcases props_of_prov hp with h1 | h1
    · exact Or.inl h1
    · exact Or.inr (Or.inr h1)

/-- "the window is as it was" on both exits; the exception is accounted for -/
abbrev keep (cfg : Cfg) (b : Bool) : PostCond α (.except Exn (.arg World .pure)) :=
  post⟨fun _ w => ⌜wnd cfg w.trace = b⌝, fun e w => ⌜wnd cfg w.trace = b ∧ Cut cfg e w⌝⟩

theorem keepX {x : M α} (cfg : Cfg) (b : Bool) {Own : Exn → Prop}
    (hx : ∀ w0, ⦃fun w => ⌜FootX quietQ w0 w⌝⦄ x ⦃fxPost quietQ w0 Own⦄)
    (hown : ∀ e, Own e → e = .libAbort ∨ b = false) :
    ⦃fun w => ⌜wnd cfg w.trace = b⌝⦄ x ⦃keep cfg b⦄ := by
  apply triple_of_run
  intro w hw
  subst hw
  have := adequacy (hx w) w (FootX.refl w)
  split <;> simp only [*] at this ⊢
  · exact wnd_foot this.toS
  · exact cut_excS this.toS (hown _)

theorem keepX' {x : M α} (cfg : Cfg) (b : Bool) {Own : Exn → Prop} {R : α → World → Prop}
    (hx : ∀ w0, ⦃fun w => ⌜FootX quietQ w0 w⌝⦄ x
      ⦃post⟨fun a w => ⌜R a w ∧ FootX quietQ w0 w⌝, fun e w => ⌜ExcX quietQ Own w0 w e⌝⟩⦄)
    (hown : ∀ e, Own e → e = .libAbort ∨ b = false) :
    ⦃fun w => ⌜wnd cfg w.trace = b⌝⦄ x
    ⦃post⟨fun a w => ⌜R a w ∧ wnd cfg w.trace = b⌝, fun e w => ⌜wnd cfg w.trace = b ∧ Cut cfg e w⌝⟩⦄ := by
  apply triple_of_run
  intro w hw
  subst hw
  have := adequacy (hx w) w (FootX.refl w)
  split <;> simp only [*] at this ⊢
  · exact ⟨this.1, wnd_foot this.2.toS⟩
  · exact cut_excS this.toS (hown _)

theorem keepS {x : M α} (cfg : Cfg) (b : Bool) {Own : Exn → Prop}
    (hx : ∀ w0, ⦃fun w => ⌜FootXS quietQ w0 w⌝⦄ x ⦃fxsPost quietQ w0 Own⦄)
    (hown : ∀ e, Own e → e = .libAbort ∨ b = false) :
    ⦃fun w => ⌜wnd cfg w.trace = b⌝⦄ x ⦃keep cfg b⦄ := by
  apply triple_of_run
  intro w hw
  subst hw
  have := adequacy (hx w) w (FootXS.refl w)
  split <;> simp only [*] at this ⊢
  · exact wnd_foot this
  · exact cut_excS this (hown _)

theorem keepS' {x : M α} (cfg : Cfg) (b : Bool) {Own : Exn → Prop} {R : α → World → Prop}
    (hx : ∀ w0, ⦃fun w => ⌜FootXS quietQ w0 w⌝⦄ x
      ⦃post⟨fun a w => ⌜R a w ∧ FootXS quietQ w0 w⌝, fun e w => ⌜ExcS quietQ Own w0 w e⌝⟩⦄)
    (hown : ∀ e, Own e → e = .libAbort ∨ b = false) :
    ⦃fun w => ⌜wnd cfg w.trace = b⌝⦄ x
    ⦃post⟨fun a w => ⌜R a w ∧ wnd cfg w.trace = b⌝, fun e w => ⌜wnd cfg w.trace = b ∧ Cut cfg e w⌝⟩⦄ := by
  apply triple_of_run
  intro w hw
  subst hw
  have := adequacy (hx w) w (FootXS.refl w)
  split <;> simp only [*] at this ⊢
  · exact ⟨this.1, wnd_foot this.2⟩
  · exact cut_excS this (hown _)

theorem no_own (b : Bool) : ∀ e, noOwn e → e = Exn.libAbort ∨ b = false := fun _ h => h.elim

/-! ### leaf procedures that only make quiet requests -/
section leaves
variable (cfg : Cfg) (b : Bool) (tl : Bool)

theorem emit_k (ev : Event) (a s : Nat) (k : Option EClass) (e : Option Exn) (st : Option StopReason)
    (c : Option Cause) (cl : Option Classification) :
    ⦃fun w => ⌜wnd cfg w.trace = b⌝⦄ emit cfg tl ev a s k e st c cl ⦃keep cfg b⦄ :=
  keepX cfg b (fun w0 => emit_fx _ w0 cfg tl ev a s k e st c cl (fun _ => rfl) (fun _ _ => rfl)) (no_own b)

theorem recordStrategySuccess_k : ⦃fun w => ⌜wnd cfg w.trace = b⌝⦄ recordStrategySuccess cfg ⦃keep cfg b⦄ :=
  keepX cfg b (fun w0 => recordStrategySuccess_fx _ w0 cfg (fun _ => rfl)) (no_own b)

theorem stratRecordFailure_k (key : SKey) (k : EClass) :
    ⦃fun w => ⌜wnd cfg w.trace = b⌝⦄ stratRecordFailure cfg key k ⦃keep cfg b⦄ :=
  keepX cfg b (fun w0 => stratRecordFailure_fx _ w0 cfg key k rfl) (no_own b)

theorem callClassifier_k (e : Exn) : ⦃fun w => ⌜wnd cfg w.trace = b⌝⦄ callClassifier e ⦃keep cfg b⦄ :=
  keepX cfg b (fun w0 => callClassifier_fx _ w0 e rfl) (no_own b)

theorem shouldClassifyResult_k (x : Nat) : ⦃fun w => ⌜wnd cfg w.trace = b⌝⦄ shouldClassifyResult cfg x ⦃keep cfg b⦄ :=
  keepX cfg b (fun w0 => shouldClassifyResult_fx _ w0 cfg x rfl) (no_own b)

theorem callAttemptStart_k (a : Nat) : ⦃fun w => ⌜wnd cfg w.trace = b⌝⦄ callAttemptStart cfg a ⦃keep cfg b⦄ :=
  keepX cfg b (fun w0 => callAttemptStart_fx _ w0 cfg a (fun _ => rfl)) (no_own b)

theorem callAttemptEndFromOutcome_k (a : Nat) (o : AOutcome) :
    ⦃fun w => ⌜wnd cfg w.trace = b⌝⦄ callAttemptEndFromOutcome cfg a o ⦃keep cfg b⦄ :=
  keepX cfg b (fun w0 => callAttemptEndFromOutcome_fx _ w0 cfg a o (fun _ => rfl)) (no_own b)

theorem handleSuccessAttemptEnd_k (a x : Nat) :
    ⦃fun w => ⌜wnd cfg w.trace = b⌝⦄ handleSuccessAttemptEnd cfg tl a x ⦃keep cfg b⦄ :=
  keepX cfg b (fun w0 => handleSuccessAttemptEnd_fx _ w0 cfg tl a x (fun _ => rfl) (fun _ _ => rfl)
    (fun _ => rfl) (fun _ => rfl)) (no_own b)

theorem handleAbortAttemptEnd_k (a : Nat) (e : Exn) :
    ⦃fun w => ⌜wnd cfg w.trace = b⌝⦄ handleAbortAttemptEnd cfg a e ⦃keep cfg b⦄ :=
  keepX cfg b (fun w0 => handleAbortAttemptEnd_fx _ w0 cfg a e (fun _ => rfl)) (no_own b)

/-- `_call_before_sleep`: the hook's `Exception`s are swallowed; what gets out propagates -/
theorem callBeforeSleep_k (ctx : BackoffCtx) (s : Nat) :
    ⦃fun w => ⌜wnd cfg w.trace = b⌝⦄ callBeforeSleep cfg ctx s ⦃keep cfg b⦄ :=
  keepX cfg b (fun w0 => callBeforeSleep_fx _ w0 cfg ctx s (fun _ => rfl)) (no_own b)

theorem buildOutcome_k (ok : Bool) (value : Option Nat) (n : Nat) (ns : Option Nat) :
    ⦃fun w => ⌜wnd cfg w.trace = b⌝⦄ buildOutcome ok value n ns ⦃keep cfg b⦄ := by
  have := keepX' cfg b (fun w0 => buildOutcome_fx quietQ w0 ok value n ns) (no_own b)
  exact Triple.entails_wp_of_post this (by simp_all)

/-- `check_abort`: its own error is `libAbort` -/
theorem checkAbort_k (a : Nat) : ⦃fun w => ⌜wnd cfg w.trace = b⌝⦄ checkAbort cfg tl a ⦃keep cfg b⦄ :=
  keepS cfg b (fun w0 => checkAbort_fx _ w0 cfg tl a rfl (fun _ => rfl) (fun _ _ => rfl)) (fun _ h => Or.inl h)

theorem stopWith_k (sr : StopReason) (ev : Event) (a : Nat) (k : EClass) (e : Option Exn) (c : Cause) :
    ⦃fun w => ⌜wnd cfg w.trace = b⌝⦄ stopWith cfg tl sr ev a k e c
    ⦃post⟨fun d w => ⌜d = .raise ∧ wnd cfg w.trace = b⌝, fun e w => ⌜wnd cfg w.trace = b ∧ Cut cfg e w⌝⟩⦄ :=
  keepS' cfg b (fun w0 => stopWith_fx _ w0 cfg tl sr ev a k e c (fun _ => rfl) (fun _ _ => rfl)) (no_own b)

theorem setStop_k (sr : StopReason) : ⦃fun w => ⌜wnd cfg w.trace = b⌝⦄ setStop sr ⦃keep cfg b⦄ := by
  have := keepS' cfg b (fun w0 => setStop_fx quietQ w0 sr) (no_own b)
  exact Triple.entails_wp_of_post this (by simp_all)

theorem emitAbortedOnce_k (a : Nat) : ⦃fun w => ⌜wnd cfg w.trace = b⌝⦄ emitAbortedOnce cfg tl a ⦃keep cfg b⦄ := by
  have := keepS' cfg b (fun w0 => emitAbortedOnce_fx quietQ w0 cfg tl a (fun _ => rfl) (fun _ _ => rfl)) (no_own b)
  exact Triple.entails_wp_of_post this (by simp_all)

theorem abortOutcome_k (a : Nat) : ⦃fun w => ⌜wnd cfg w.trace = b⌝⦄ abortOutcome cfg tl a ⦃keep cfg b⦄ := by
  have := keepS' cfg b (fun w0 => abortOutcome_fx quietQ w0 cfg tl a (fun _ => rfl) (fun _ _ => rfl)) (no_own b)
  exact Triple.entails_wp_of_post this (by simp_all)

theorem buildExhaustedOutcome_k : ⦃fun w => ⌜wnd cfg w.trace = b⌝⦄ buildExhaustedOutcome cfg tl ⦃keep cfg b⦄ := by
  have := keepS' cfg b (fun w0 => buildExhaustedOutcome_fx quietQ w0 cfg tl (fun _ => rfl) (fun _ _ => rfl)) (no_own b)
  exact Triple.entails_wp_of_post this (by simp_all)

/-- `_handle_sleep_decision`: its own `ValueError` only after a non-`SleepDecision` answer — a stop
    decision for the monitor, so the window is closed -/
theorem handleSleepDecision_k (act : SleepDecision) (a s : Nat) (hb : act ≠ .sleep → b = false) :
    ⦃fun w => ⌜wnd cfg w.trace = b⌝⦄ handleSleepDecision cfg tl act a s
    ⦃post⟨fun r w => ⌜r = act ∧ wnd cfg w.trace = b⌝, fun e w => ⌜wnd cfg w.trace = b ∧ Cut cfg e w⌝⟩⦄ := by
  have := keepS' cfg b (fun w0 => handleSleepDecision_fx quietQ w0 cfg tl act a s (fun _ => rfl) (fun _ _ => rfl)
    (fun _ => rfl) (fun _ _ => rfl)) (fun e h => Or.inr (hb (by rw [h.2]; decide)))
  exact Triple.entails_wp_of_post this (by simp_all)

/-- `raise_exhausted_call`: every error of its own — with the window closed -/
theorem raiseExhaustedCall_k :
    ⦃fun w => ⌜wnd cfg w.trace = false⌝⦄ raiseExhaustedCall cfg ⦃keep cfg false⦄ := by
  apply triple_of_run
  intro w hw
  have := adequacy (raiseExhaustedCall_fx quietQ w cfg (fun _ => rfl) (fun _ _ => rfl)) w (FootXS.refl w)
  split <;> simp only [*] at this ⊢
  · rw [wnd_foot this]; exact hw
  · have h := cut_excS (cfg := cfg) this (fun _ => Or.inr hw)
    exact ⟨by rw [h.1]; exact hw, h.2⟩

/-- the operation's invocation -/
theorem invokeOp_k (a : Nat) : ⦃fun w => ⌜wnd cfg w.trace = b⌝⦄ invokeOp a ⦃keep cfg b⦄ := by
  mvcgen [invokeOp, ask]
  all_goals (subst_vars; intros)
  all_goals first
    | exact ⟨wnd_cons_quiet cfg _ _ _ rfl, fun _ => Or.inl rfl⟩
    | exact ⟨wnd_cons_quiet cfg _ _ _ rfl,
        fun _ => Or.inr (Or.inr (propsN_cons_raise _ _ _ _ (by intro h; simp [FX.swallowed] at h)))⟩

end leaves

/-! ### the requests that move the window -/

theorem wnd_sleeper (cfg : Cfg) (lvl : Lvl) (d : Nat) (a : Ans) (tr : List (Req × Ans)) :
    wnd cfg ((.sleeper lvl d, a) :: tr) = false := by
  simp [wnd, step]

theorem wnd_strategy (cfg : Cfg) (k : SKey) (kd : SKind) (c : BackoffCtx) (a : Ans) (tr : List (Req × Ans))
    (h : (∀ out d, a ≠ .delay out d) ∨ cfg.budget ≠ none) :
    wnd cfg ((.strategy k kd c, a) :: tr) = wnd cfg tr := by
  rcases h with h | h
  · cases a <;> simp_all [wnd, step]
  · cases a <;> simp_all [wnd, step]

theorem wnd_budget_false (cfg : Cfg) (tr : List (Req × Ans)) :
    wnd cfg ((.budgetConsume, .granted false) :: tr) = wnd cfg tr := by
  simp [wnd, step]

theorem wnd_handler_stop (cfg : Cfg) (lvl : Lvl) (c : BackoffCtx) (d : Nat) (dec : SleepDecision) (dur : Nat)
    (tr : List (Req × Ans)) (h : dec ≠ .sleep) :
    wnd cfg ((.sleepHandler lvl c d, .decision dec dur) :: tr) = false := by
  cases dec <;> simp_all [wnd, step]

/-- the sleeper call closes the window, however it ends -/
theorem callSleeper_c (cfg : Cfg) (s : Nat) :
    ⦃fun _ => ⌜True⌝⦄ callSleeper cfg s
    ⦃post⟨fun _ w => ⌜wnd cfg w.trace = false⌝, fun _ w => ⌜wnd cfg w.trace = false⌝⟩⦄ := by
  mvcgen [callSleeper, ask]
  all_goals (subst_vars; intros)
  all_goals exact wnd_sleeper cfg _ _ _ _

/-- the handler's answer: anything but SLEEP closes the window; an error it raises propagates -/
theorem callSleepHandler_c (cfg : Cfg) (lvl : Lvl) (ctx : BackoffCtx) (s : Nat) :
    ⦃fun _ => ⌜True⌝⦄ callSleepHandler lvl ctx s
    ⦃post⟨fun dec w => ⌜dec ≠ .sleep → wnd cfg w.trace = false⌝, fun e w => ⌜Cut cfg e w⌝⟩⦄ := by
  mvcgen [callSleepHandler, ask]
  all_goals (subst_vars; intros)
  all_goals first
    | exact wnd_handler_stop cfg _ _ _ _ _ _ (by assumption)
    | exact fun _ => Or.inl rfl
    | exact fun _ => Or.inr (Or.inr (propsN_cons_raise _ _ _ _ (by intro h; simp [FX.swallowed] at h)))

/-- the strategy's answer grants the retry only when there is no budget -/
theorem callStrategy_c (cfg : Cfg) (k : SKey) (kd : SKind) (c : BackoffCtx) :
    ⦃fun w => ⌜wnd cfg w.trace = false⌝⦄ callStrategy k kd c
    ⦃post⟨fun _ w => ⌜cfg.budget ≠ none → wnd cfg w.trace = false⌝, fun _ w => ⌜wnd cfg w.trace = false⌝⟩⦄ := by
  mvcgen [callStrategy, ask]
  all_goals (subst_vars; intros)
  all_goals first
    | (rw [wnd_strategy cfg _ _ _ _ _ (Or.inr (by assumption))]; assumption)
    | (rw [wnd_strategy cfg _ _ _ _ _ (Or.inl (by intros; simp_all))]; assumption)

/-- the budget's verdict: a refusal leaves the window closed -/
theorem budgetConsume_c (cfg : Cfg) :
    ⦃fun w => ⌜cfg.budget ≠ none → wnd cfg w.trace = false⌝⦄ budgetConsume cfg
    ⦃post⟨fun g w => ⌜g = false → wnd cfg w.trace = false⌝, fun _ _ => ⌜False⌝⟩⦄ := by
  mvcgen [budgetConsume]
  all_goals (subst_vars; intros)
  · simp_all
  · rename_i bc hb s hw hg
    rw [hg, wnd_budget_false]
    exact hw (by simp [hb])

/-! ### the failure handler -/

/-- let `simp_all` do the propositional part -/
macro "cut_finish" : tactic => `(tactic| all_goals (
  (try split_ands) <;> (try subst_vars) <;> (try intros) <;>
  first
    | (simp_all +zetaDelta [Cut.of_nw, restore_dummy]; done)
    | skip))

/-- what a failed attempt leaves behind: unless a retry was granted, the window is closed -/
abbrev failPostC (cfg : Cfg) : PostCond Decision (.except Exn (.arg World .pure)) :=
  post⟨fun d w => ⌜d = .raise → wnd cfg w.trace = false⌝, fun e w => ⌜Cut cfg e w⌝⟩

theorem grantRetry_c (cfg : Cfg) (tl : Bool) (c : Classification) (a : Nat) (cause : Cause) (e : Option Exn)
    (key : SKey) (kind : SKind) (rem : Nat) :
    ⦃fun w => ⌜wnd cfg w.trace = false⌝⦄ grantRetry cfg tl c a cause e key kind rem ⦃failPostC cfg⦄ := by
  have hcs := fun ctx => callStrategy_c cfg key kind ctx
  have hbc := budgetConsume_c cfg
  have hemit := fun b sl k ex cs cl => emit_k cfg b tl .retry a sl k ex none cs cl
  have hstop := fun b => stopWith_k cfg b tl .budgetExhausted .budgetExhausted a c.klass e cause
  mvcgen [grantRetry, getRS, modifyRS, hcs, hbc, hemit, hstop]
  all_goals (try clear hcs hbc hemit hstop)
  cut_finish

theorem handleFailure2_c (cfg : Cfg) (tl : Bool) (c : Classification) (a : Nat) (cause : Cause) (e : Option Exn) :
    ⦃fun w => ⌜wnd cfg w.trace = false⌝⦄ handleFailure2 cfg tl c a cause e ⦃failPostC cfg⦄ := by
  have hgr := fun key kind rem => grantRetry_c cfg tl c a cause e key kind rem
  have hstop := fun b sr ev => stopWith_k cfg b tl sr ev a c.klass e cause
  have hsrf := fun b => stratRecordFailure_k cfg b
  mvcgen [handleFailure2, elapsed, modifyRS, hgr, hstop, hsrf]
  all_goals (try clear hgr hstop hsrf)
  cut_finish

theorem handleUnknown_c (cfg : Cfg) (tl : Bool) (c : Classification) (a : Nat) (cause : Cause) (e : Option Exn) :
    ⦃fun w => ⌜wnd cfg w.trace = false⌝⦄ handleUnknown cfg tl c a cause e ⦃failPostC cfg⦄ := by
  have h2 := handleFailure2_c cfg tl c a cause e
  have hstop := fun b sr ev => stopWith_k cfg b tl sr ev a c.klass e cause
  mvcgen [handleUnknown, getRS, modifyRS, h2, hstop]
  all_goals (try clear h2 hstop)
  cut_finish

theorem handleFailure1_c (cfg : Cfg) (tl : Bool) (c : Classification) (a : Nat) (cause : Cause) (e : Option Exn) :
    ⦃fun w => ⌜wnd cfg w.trace = false⌝⦄ handleFailure1 cfg tl c a cause e ⦃failPostC cfg⦄ := by
  have h2 := handleFailure2_c cfg tl c a cause e
  have hu := handleUnknown_c cfg tl c a cause e
  have hstop := fun b sr ev => stopWith_k cfg b tl sr ev a c.klass e cause
  mvcgen [handleFailure1, getRS, h2, hu, hstop]
  all_goals (try clear h2 hu hstop)
  cut_finish

theorem handleFailure_c (cfg : Cfg) (tl : Bool) (c : Classification) (a : Nat) (cause : Cause) (e : Option Exn)
    (r : Option Nat) :
    ⦃fun w => ⌜wnd cfg w.trace = false⌝⦄ handleFailure cfg tl c a cause e r ⦃failPostC cfg⦄ := by
  have h1 := handleFailure1_c cfg tl c a cause e
  mvcgen [handleFailure, Retry.recordFailure, modifyRS, h1]
  all_goals (try clear h1)
  cut_finish

theorem handleException_c (cfg : Cfg) (tl : Bool) (e : Exn) (a : Nat) :
    ⦃fun w => ⌜wnd cfg w.trace = false⌝⦄ handleException cfg tl e a ⦃failPostC cfg⦄ := by
  have hcl := fun b => callClassifier_k b e (cfg := cfg)
  have hf := fun c => handleFailure_c cfg tl c a .exception (some e) none
  mvcgen [handleException, hcl, hf]
  all_goals (try clear hcl hf)
  cut_finish

/-! ### the sleep protocol -/

/-- `_sync_sleep_action` / `_async_sleep_action`: it returns with the window closed (the sleeper was
    called, or a stop decision was taken); what leaves it with the window open is accounted for -/
theorem sleepAction_c (cfg : Cfg) (tl : Bool) (a s : Nat) (ctx : BackoffCtx) :
    ⦃fun _ => ⌜True⌝⦄ sleepAction cfg tl a s ctx
    ⦃post⟨fun _ w => ⌜wnd cfg w.trace = false⌝, fun e w => ⌜Cut cfg e w⌝⟩⦄ := by
  have h1 := fun b => callBeforeSleep_k cfg b ctx s
  have h2 := callSleeper_c cfg s
  have h3 := fun lvl => callSleepHandler_c cfg lvl ctx s
  have h4 := fun b act hb => handleSleepDecision_k cfg b tl act a s hb
  mvcgen [sleepAction, h1, h2, h3, h4]
  all_goals (try clear h1 h2 h3 h4)
  cut_finish

theorem finalizeAttempt_k (cfg : Cfg) (b : Bool) (tl : Bool) (a : Nat) (d : Decision) (act : Option SleepDecision)
    (cls : Option Classification) (e : Option Exn) (r : Option Nat) (c : Option Cause) :
    ⦃fun w => ⌜wnd cfg w.trace = b⌝⦄ finalizeAttempt cfg tl a d act cls e r c ⦃keep cfg b⦄ := by
  have h1 := fun b sr => setStop_k cfg b sr
  have h2 := fun b ev k ex st cs => emit_k cfg b tl ev a 0 k ex st cs none
  mvcgen [finalizeAttempt, getRS, elapsed, h1, h2]
  all_goals (try clear h1 h2)
  cut_finish

/-- `_sync_failure_outcome`: when it returns the window is closed -/
theorem failureOutcome_c (cfg : Cfg) (tl : Bool) (a : Nat) (d : Decision) (cls : Option Classification)
    (e : Option Exn) (r : Option Nat) (c : Option Cause) :
    ⦃fun w => ⌜d = .raise → wnd cfg w.trace = false⌝⦄ failureOutcome cfg tl a d cls e r c
    ⦃post⟨fun _ w => ⌜wnd cfg w.trace = false⌝, fun e' w => ⌜Cut cfg e' w⌝⟩⦄ := by
  have h1 := fun b d act => finalizeAttempt_k cfg b tl a d act cls e r c
  have h2 := fun s ctx => sleepAction_c cfg tl a s ctx
  mvcgen [failureOutcome, h1, h2]
  all_goals (try clear h1 h2)
  cut_finish

/-! ### call mode -/

/-- what follows `determine_action_from_outcome` in call mode: whatever it raises, the window is closed -/
theorem deliverCall_c (cfg : Cfg) (act : Action) (orig : Option Exn) (fb : ExhaustedFields) :
    ⦃fun w => ⌜wnd cfg w.trace = false⌝⦄ deliverCall act orig fb
    ⦃post⟨fun _ w => ⌜wnd cfg w.trace = false⌝, fun e' w => ⌜Cut cfg e' w⌝⟩⦄ := by
  mvcgen [deliverCall]
  cut_finish

/-- one attempt: the loop goes on with the window closed -/
abbrev attemptPostC (cfg : Cfg) : PostCond α (.except Exn (.arg World .pure)) :=
  post⟨fun _ w => ⌜wnd cfg w.trace = false⌝, fun e w => ⌜Cut cfg e w⌝⟩

theorem callExceptionPath_c (cfg : Cfg) (a : Nat) (e : Exn) :
    ⦃fun w => ⌜wnd cfg w.trace = false⌝⦄ callExceptionPath cfg a e ⦃attemptPostC cfg⦄ := by
  have h1 := fun b => checkAbort_k cfg b false a
  have h2 := handleException_c cfg false e a
  have h3 := fun d cls => failureOutcome_c cfg false a d cls (some e) none (some .exception)
  have h4 := fun b o => callAttemptEndFromOutcome_k cfg b a o
  have h5 := fun act => deliverCall_c cfg act (some e) default
  mvcgen [callExceptionPath, getRS, modifyAS, h1, h2, h3, h4, h5]
  all_goals (try clear h1 h2 h3 h4 h5)
  cut_finish

theorem callResultFailure_c (cfg : Cfg) (a x : Nat) (c : Classification) :
    ⦃fun w => ⌜wnd cfg w.trace = false⌝⦄ callResultFailure cfg a x c ⦃attemptPostC cfg⦄ := by
  have h1 := fun b => checkAbort_k cfg b false a
  have h2 := handleFailure_c cfg false c a .result none (some x)
  have h3 := fun d cls => failureOutcome_c cfg false a d cls none (some x) (some .result)
  have h4 := fun b o => callAttemptEndFromOutcome_k cfg b a o
  have h5 := fun act fb => deliverCall_c cfg act none fb
  mvcgen [callResultFailure, getRS, modifyAS, h1, h2, h3, h4, h5]
  all_goals (try clear h1 h2 h3 h4 h5)
  cut_finish

theorem callResultPath_c (cfg : Cfg) (a x : Nat) :
    ⦃fun w => ⌜wnd cfg w.trace = false⌝⦄ callResultPath cfg a x ⦃attemptPostC cfg⦄ := by
  have h1 := fun b => shouldClassifyResult_k cfg b x
  have h2 := fun b => handleSuccessAttemptEnd_k cfg b false a x
  have h3 := fun c => callResultFailure_c cfg a x c
  mvcgen [callResultPath, h1, h2, h3]
  all_goals (try clear h1 h2 h3)
  cut_finish

/-- One iteration of the loop of `_run_sync_call` (the `except` ladder around `func()` included). -/
theorem callAttempt_c (cfg : Cfg) (a : Nat) :
    ⦃fun w => ⌜wnd cfg w.trace = false⌝⦄ callAttempt cfg a ⦃attemptPostC cfg⦄ := by
  have h1 := fun b n => checkAbort_k cfg b false n
  have h2 := fun b => callAttemptStart_k cfg b a
  have h3 := fun b => invokeOp_k cfg b a
  have h4 := fun x => callResultPath_c cfg a x
  have h5 := fun b e => handleAbortAttemptEnd_k cfg b a e
  have h6 := fun b => emitAbortedOnce_k cfg b false a
  have h7 := fun e => callExceptionPath_c cfg a e
  mvcgen [callAttempt, callOpHandler, modifyAS, h1, h2, h3, h4, h5, h6, h7]
  all_goals (try clear h1 h2 h3 h4 h5 h6 h7)
  cut_finish

theorem callLoop_c (cfg : Cfg) : ∀ (fuel a : Nat),
    ⦃fun w => ⌜wnd cfg w.trace = false⌝⦄ callLoop cfg fuel a ⦃attemptPostC cfg⦄ := by
  intro fuel
  induction fuel with
  | zero =>
    intro a
    have h1 := raiseExhaustedCall_k cfg
    mvcgen [callLoop, h1]
    cut_finish
  | succ f ih =>
    intro a
    have h1 := callAttempt_c cfg a
    have h2 := ih (a + 1)
    mvcgen [callLoop, h1, h2]

theorem runCall_c (cfg : Cfg) :
    ⦃fun w => ⌜wnd cfg w.trace = false⌝⦄ runCall cfg ⦃attemptPostC cfg⦄ := by
  have h2 := callLoop_c cfg cfg.maxAttempts 1
  mvcgen [runCall, initState, h2]

/-! ### execute mode -/

/-- one attempt in execute mode: the loop goes on with the window closed; an outcome is judged by
    `Props.C16.no_handler_always_sleeps` -/
abbrev attemptPostCE (cfg : Cfg) : PostCond (Option Outcome) (.except Exn (.arg World .pure)) :=
  post⟨fun r w => ⌜r = none → wnd cfg w.trace = false⌝, fun e w => ⌜Cut cfg e w⌝⟩

theorem deliverExecute_c (cfg : Cfg) (tl : Bool) (act : Action) (o : AOutcome) :
    ⦃fun w => ⌜wnd cfg w.trace = false⌝⦄ deliverExecute cfg tl act o ⦃attemptPostCE cfg⦄ := by
  have h1 := fun b n => abortOutcome_k cfg b tl n
  have h2 := fun b ok val n ns => buildOutcome_k cfg b ok val n ns
  mvcgen [deliverExecute, h1, h2]
  all_goals (try clear h1 h2)
  cut_finish

/-- `AbortRetryError` ends the run as ABORTED: only quiet requests, whatever the window -/
theorem execAbortExit_k (cfg : Cfg) (b : Bool) (tl : Bool) (a : Nat) (e : Exn) :
    ⦃fun w => ⌜wnd cfg w.trace = b⌝⦄ execAbortExit cfg tl a e
    ⦃post⟨fun r w => ⌜r ≠ none ∧ wnd cfg w.trace = b⌝, fun e' w => ⌜wnd cfg w.trace = b ∧ Cut cfg e' w⌝⟩⦄ := by
  have h1 := fun b => handleAbortAttemptEnd_k cfg b a e
  have h2 := fun b n => abortOutcome_k cfg b tl n
  mvcgen [execAbortExit, h1, h2]
  all_goals (try clear h1 h2)
  cut_finish

theorem checkAbortCaught_k (cfg : Cfg) (b : Bool) (tl : Bool) (a : Nat) :
    ⦃fun w => ⌜wnd cfg w.trace = b⌝⦄ checkAbortCaught cfg tl a ⦃keep cfg b⦄ := by
  have h1 := fun b => checkAbort_k cfg b tl a
  mvcgen [checkAbortCaught, abortToTrue, h1]
  all_goals (try clear h1)
  cut_finish

theorem execExceptionPath3_c (cfg : Cfg) (tl : Bool) (a : Nat) (e : Exn) (d : Decision) :
    ⦃fun w => ⌜d = .raise → wnd cfg w.trace = false⌝⦄ execExceptionPath3 cfg tl a e d ⦃attemptPostCE cfg⦄ := by
  have h3 := fun cls => failureOutcome_c cfg tl a d cls (some e) none (some .exception)
  have h4 := fun b o => callAttemptEndFromOutcome_k cfg b a o
  have h5 := fun act o => deliverExecute_c cfg tl act o
  mvcgen [execExceptionPath3, getRS, modifyAS, h3, h4, h5]
  all_goals (try clear h3 h4 h5)
  cut_finish

theorem execExceptionPath2_c (cfg : Cfg) (tl : Bool) (a : Nat) (e : Exn) :
    ⦃fun w => ⌜wnd cfg w.trace = false⌝⦄ execExceptionPath2 cfg tl a e ⦃attemptPostCE cfg⦄ := by
  have h2 := handleException_c cfg tl e a
  have h3 := fun d => execExceptionPath3_c cfg tl a e d
  have h4 := fun b => checkAbortCaught_k cfg b tl a
  have h5 := fun b => execAbortExit_k cfg b tl a e
  mvcgen [execExceptionPath2, getRS, modifyAS, h2, h3, h4, h5]
  all_goals (try clear h2 h3 h4 h5)
  cut_finish

theorem execExceptionPath_c (cfg : Cfg) (tl : Bool) (a : Nat) (e : Exn) :
    ⦃fun w => ⌜wnd cfg w.trace = false⌝⦄ execExceptionPath cfg tl a e ⦃attemptPostCE cfg⦄ := by
  have h3 := execExceptionPath2_c cfg tl a e
  have h4 := fun b => checkAbortCaught_k cfg b tl a
  have h5 := fun b => execAbortExit_k cfg b tl a e
  mvcgen [execExceptionPath, modifyAS, h3, h4, h5]
  all_goals (try clear h3 h4 h5)
  cut_finish

theorem execResultFailure_c (cfg : Cfg) (tl : Bool) (a x : Nat) (c : Classification) :
    ⦃fun w => ⌜wnd cfg w.trace = false⌝⦄ execResultFailure cfg tl a x c ⦃attemptPostCE cfg⦄ := by
  have h1 := fun b => checkAbort_k cfg b tl a
  have h2 := handleFailure_c cfg tl c a .result none (some x)
  have h3 := fun d cls => failureOutcome_c cfg tl a d cls none (some x) (some .result)
  have h4 := fun b o => callAttemptEndFromOutcome_k cfg b a o
  have h5 := fun act o => deliverExecute_c cfg tl act o
  mvcgen [execResultFailure, getRS, modifyAS, h1, h2, h3, h4, h5]
  all_goals (try clear h1 h2 h3 h4 h5)
  cut_finish

theorem execResultPath_c (cfg : Cfg) (tl : Bool) (a x : Nat) :
    ⦃fun w => ⌜wnd cfg w.trace = false⌝⦄ execResultPath cfg tl a x ⦃attemptPostCE cfg⦄ := by
  have h1 := fun b => shouldClassifyResult_k cfg b x
  have h2 := fun b => handleSuccessAttemptEnd_k cfg b tl a x
  have h3 := fun c => execResultFailure_c cfg tl a x c
  have h4 := fun b ok val n ns => buildOutcome_k cfg b ok val n ns
  mvcgen [execResultPath, h1, h2, h3, h4]
  all_goals (try clear h1 h2 h3 h4)
  cut_finish

theorem execPre_k (cfg : Cfg) (b : Bool) (tl : Bool) (a : Nat) :
    ⦃fun w => ⌜wnd cfg w.trace = b⌝⦄ execPre cfg tl a ⦃keep cfg b⦄ := by
  have h1 := fun b n => checkAbort_k cfg b tl n
  have h2 := fun b => callAttemptStart_k cfg b a
  have h3 := fun b => invokeOp_k cfg b a
  mvcgen [execPre, modifyAS, h1, h2, h3]
  all_goals (try clear h1 h2 h3)
  cut_finish

theorem execHandler_c (cfg : Cfg) (tl : Bool) (a : Nat) (e : Exn) :
    ⦃fun w => ⌜wnd cfg w.trace = false⌝⦄ execHandler cfg tl a e ⦃attemptPostCE cfg⦄ := by
  have h3 := fun b => execAbortExit_k cfg b tl a e
  have h4 := execExceptionPath_c cfg tl a e
  mvcgen [execHandler, h3, h4]
  all_goals (try clear h3 h4)
  cut_finish

/-- an error of the result path is re-raised (unless it is an `AbortRetryError`) -/
theorem execReturnedHandler_c (cfg : Cfg) (tl : Bool) (a : Nat) (e : Exn) :
    ⦃fun w => ⌜Cut cfg e w⌝⦄ execReturnedHandler cfg tl a e
    ⦃post⟨fun r _ => ⌜r ≠ none⌝, fun e' w => ⌜Cut cfg e' w⌝⟩⦄ := by
  have h3 := fun b => execAbortExit_k cfg b tl a e
  mvcgen [execReturnedHandler, h3]
  all_goals (try clear h3)
  cut_finish

theorem execAttempt_c (cfg : Cfg) (tl : Bool) (a : Nat) :
    ⦃fun w => ⌜wnd cfg w.trace = false⌝⦄ execAttempt cfg tl a ⦃attemptPostCE cfg⦄ := by
  have h1 := fun b => execPre_k cfg b tl a
  have h2 := fun x => execResultPath_c cfg tl a x
  have h3 := fun e => execHandler_c cfg tl a e
  have h4 := fun e => execReturnedHandler_c cfg tl a e
  mvcgen [execAttempt, h1, h2, h3, h4]
  all_goals (try clear h1 h2 h3 h4)
  cut_finish

abbrev loopPostCE (cfg : Cfg) : PostCond Outcome (.except Exn (.arg World .pure)) :=
  post⟨fun _ _ => ⌜True⌝, fun e w => ⌜Cut cfg e w⌝⟩

theorem execLoop_c (cfg : Cfg) (tl : Bool) : ∀ (fuel a : Nat),
    ⦃fun w => ⌜wnd cfg w.trace = false⌝⦄ execLoop cfg tl fuel a ⦃loopPostCE cfg⦄ := by
  intro fuel
  induction fuel with
  | zero =>
    intro a
    have h1 := fun b => buildExhaustedOutcome_k cfg b tl
    mvcgen [execLoop, h1]
    all_goals (try clear h1)
    cut_finish
  | succ f ih =>
    intro a
    have h1 := execAttempt_c cfg tl a
    have h2 := ih (a + 1)
    mvcgen [execLoop, h1, h2]
    all_goals (try clear h1 h2)
    cut_finish

theorem runExecute_c (cfg : Cfg) :
    ⦃fun w => ⌜wnd cfg w.trace = false⌝⦄ runExecute cfg ⦃loopPostCE cfg⦄ := by
  have h2 := execLoop_c cfg cfg.timeline cfg.maxAttempts 1
  mvcgen [runExecute, initState, h2]

/-! ### policy level: everything around the loop is quiet -/
open Policy

/-- a quiet procedure run while an exception `e` is in flight: `e` stays accounted for, and so is
    whatever the procedure itself lets out -/
theorem cutinv {α : Type} {x : M α} (cfg : Cfg) (e : Exn)
    (hx : ∀ w0, ⦃fun w => ⌜FootX quietQ w0 w⌝⦄ x ⦃fxPost quietQ w0⦄) :
    ⦃fun w => ⌜Cut cfg e w⌝⦄ x ⦃post⟨fun _ w => ⌜Cut cfg e w⌝, fun e' w => ⌜Cut cfg e' w⌝⟩⦄ := by
  apply triple_of_run
  intro w hw
  have := adequacy (hx w) w (FootX.refl w)
  split <;> simp only [*] at this ⊢
  · exact hw.foot this.toS
  · exact (cut_excS this.toS (fun h => h.elim)).2

/-- a quiet procedure, from any state -/
theorem any_of_keep {α : Type} {x : M α} (cfg : Cfg)
    (h : ∀ b, ⦃fun w => ⌜wnd cfg w.trace = b⌝⦄ x ⦃keep cfg b⦄) :
    ⦃fun _ => ⌜True⌝⦄ x ⦃post⟨fun _ _ => ⌜True⌝, fun e w => ⌜Cut cfg e w⌝⟩⦄ := by
  apply triple_of_run
  intro w _
  have := adequacy (h (wnd cfg w.trace)) w rfl
  split <;> simp only [*] at this ⊢
  exact this.2

section policyLeaves
variable (cfg : Cfg)

theorem recordCancel_i (e : Exn) :
    ⦃fun w => ⌜Cut cfg e w⌝⦄ Policy.recordCancel cfg ⦃post⟨fun _ w => ⌜Cut cfg e w⌝, fun e' w => ⌜Cut cfg e' w⌝⟩⦄ :=
  cutinv cfg e (fun w0 => recordCancel_fx quietQ w0 cfg rfl)

theorem handleAbortCall_i (e : Exn) :
    ⦃fun w => ⌜Cut cfg e w⌝⦄ handleAbortCall cfg e ⦃post⟨fun _ w => ⌜Cut cfg e w⌝, fun e' w => ⌜Cut cfg e' w⌝⟩⦄ :=
  cutinv cfg e (fun w0 => handleAbortCall_fx quietQ w0 cfg e (fun _ => rfl) rfl)

theorem handleExhaustedCall_i (e : Exn) :
    ⦃fun w => ⌜Cut cfg e w⌝⦄ handleExhaustedCall cfg e
    ⦃post⟨fun _ w => ⌜Cut cfg e w⌝, fun e' w => ⌜Cut cfg e' w⌝⟩⦄ :=
  cutinv cfg e (fun w0 => handleExhaustedCall_fx quietQ w0 cfg e (fun _ => rfl) (fun _ _ _ => rfl)
    (fun _ _ _ _ => rfl))

theorem handleExceptionCall_i (e : Exn) (onEnd : Bool) :
    ⦃fun w => ⌜Cut cfg e w⌝⦄ handleExceptionCall cfg e onEnd
    ⦃post⟨fun _ w => ⌜Cut cfg e w⌝, fun e' w => ⌜Cut cfg e' w⌝⟩⦄ :=
  cutinv cfg e (fun w0 => handleExceptionCall_fx quietQ w0 cfg e onEnd (fun _ => rfl) (fun _ _ _ => rfl)
    (fun _ _ _ _ => rfl) (fun _ => rfl) rfl)

theorem ensureSettled_i (e : Exn) :
    ⦃fun w => ⌜Cut cfg e w⌝⦄ ensureSettled cfg ⦃post⟨fun _ w => ⌜Cut cfg e w⌝, fun e' w => ⌜Cut cfg e' w⌝⟩⦄ :=
  cutinv cfg e (fun w0 => ensureSettled_fx quietQ w0 cfg rfl)

theorem ensureSettled_a :
    ⦃fun _ => ⌜True⌝⦄ ensureSettled cfg ⦃post⟨fun _ _ => ⌜True⌝, fun e w => ⌜Cut cfg e w⌝⟩⦄ :=
  any_of_keep cfg (fun b => keepX cfg b (fun w0 => ensureSettled_fx quietQ w0 cfg rfl) (no_own b))

theorem recordSuccess_k (b : Bool) : ⦃fun w => ⌜wnd cfg w.trace = b⌝⦄ Policy.recordSuccess cfg ⦃keep cfg b⦄ :=
  keepX cfg b (fun w0 => recordSuccess_fx quietQ w0 cfg rfl (fun _ _ _ => rfl) (fun _ _ _ _ => rfl)) (no_own b)

theorem recordCancel_k (b : Bool) : ⦃fun w => ⌜wnd cfg w.trace = b⌝⦄ Policy.recordCancel cfg ⦃keep cfg b⦄ :=
  keepX cfg b (fun w0 => recordCancel_fx quietQ w0 cfg rfl) (no_own b)

theorem recordFailure_k (b : Bool) (k : EClass) :
    ⦃fun w => ⌜wnd cfg w.trace = b⌝⦄ Policy.recordFailure cfg k ⦃keep cfg b⦄ :=
  keepX cfg b (fun w0 => recordFailure_fx quietQ w0 cfg k rfl (fun _ _ _ => rfl) (fun _ _ _ _ => rfl)) (no_own b)

theorem initCtx_k (b : Bool) : ⦃fun w => ⌜wnd cfg w.trace = b⌝⦄ initCtx ⦃keep cfg b⦄ :=
  keepX cfg b (fun w0 => initCtx_fx quietQ w0) (no_own b)

/-- `check_breaker`: its own `CircuitOpenError` — before the loop, with the window closed -/
theorem checkBreaker_k :
    ⦃fun w => ⌜wnd cfg w.trace = false⌝⦄ checkBreaker cfg ⦃keep cfg false⦄ :=
  keepX cfg false (fun w0 => checkBreaker_fx quietQ w0 cfg rfl (fun _ _ _ => rfl) (fun _ _ _ _ => rfl))
    (fun _ _ => Or.inr rfl)

theorem breakerAllow_k (b : Bool) (bc : Breaker.Cfg) :
    ⦃fun w => ⌜wnd cfg w.trace = b⌝⦄ breakerAllow bc ⦃keep cfg b⦄ := by
  have := keepX' cfg b (fun w0 => breakerAllow_fx quietQ w0 bc rfl) (no_own b)
  exact Triple.entails_wp_of_post this (by simp_all)

theorem emitBreakerEvent_k (b : Bool) (ev : Option Event) (st : CState) (k : Option EClass) :
    ⦃fun w => ⌜wnd cfg w.trace = b⌝⦄ emitBreakerEvent cfg ev st k ⦃keep cfg b⦄ :=
  keepX cfg b (fun w0 => emitBreakerEvent_fx quietQ w0 cfg ev st k (fun _ _ _ => rfl) (fun _ _ _ _ => rfl)) (no_own b)

theorem policyOutcome_k (b : Bool) (ok : Bool) (value : Option Nat) (stop : Option StopReason) (attempts : Nat)
    (lc : Option EClass) (le : Option String) (cause : Option Cause) :
    ⦃fun w => ⌜wnd cfg w.trace = b⌝⦄ policyOutcome ok value stop attempts lc le cause ⦃keep cfg b⦄ := by
  have := keepX' cfg b (fun w0 => policyOutcome_fx quietQ w0 ok value stop attempts lc le cause) (no_own b)
  exact Triple.entails_wp_of_post this (by simp_all)

end policyLeaves

abbrev finPostC (cfg : Cfg) : PostCond α (.except Exn (.arg World .pure)) :=
  post⟨fun _ _ => ⌜True⌝, fun e w => ⌜Cut cfg e w⌝⟩

/-- the `except` ladder of `Policy.call`: always re-raises -/
theorem callLadder_c (cfg : Cfg) (e : Exn) :
    ⦃fun w => ⌜Cut cfg e w⌝⦄ callLadder cfg e
    ⦃post⟨fun _ _ => ⌜False⌝, fun e' w => ⌜Cut cfg e' w⌝⟩⦄ := by
  have h1 := recordCancel_i cfg e
  have h2 := handleAbortCall_i cfg e
  have h3 := handleExhaustedCall_i cfg e
  have h4 := handleExceptionCall_i cfg e true
  mvcgen [callLadder, h1, h2, h3, h4]

theorem executeLadder_c (cfg : Cfg) (e : Exn) :
    ⦃fun w => ⌜Cut cfg e w⌝⦄ executeLadder cfg e
    ⦃post⟨fun _ _ => ⌜False⌝, fun e' w => ⌜Cut cfg e' w⌝⟩⦄ := by
  have h1 := recordCancel_i cfg e
  have h3 := handleExhaustedCall_i cfg e
  have h4 := handleExceptionCall_i cfg e false
  mvcgen [executeLadder, h1, h3, h4]

theorem callAdmitted_c (cfg : Cfg) (hret : cfg.hasRetry = true) :
    ⦃fun w => ⌜wnd cfg w.trace = false⌝⦄ callAdmitted cfg ⦃finPostC cfg⦄ := by
  have h1 := checkBreaker_k cfg
  have h2 := runCall_c cfg
  have h3 := fun b => recordSuccess_k cfg b
  have h4 := fun e => callLadder_c cfg e
  mvcgen [callAdmitted, h1, h2, h3, h4]
  all_goals (try clear h1 h2 h3 h4)
  cut_finish

/-- `Policy.call` with a retry component (also `RetryPolicy.call`, `@retry`, contexts, async twins) -/
theorem call_retry_c (cfg : Cfg) (hret : cfg.hasRetry = true) :
    ⦃fun w => ⌜wnd cfg w.trace = false⌝⦄ Policy.call cfg ⦃finPostC cfg⦄ := by
  have h1 := fun b => initCtx_k cfg b
  have h2 := withFinally_spec (callAdmitted_c cfg hret) (fun _ => ensureSettled_a cfg)
    (fun e => ensureSettled_i cfg e)
  mvcgen [Policy.call, h1, h2]
  all_goals (try clear h1 h2)
  cut_finish

theorem executeWithRetry_c (cfg : Cfg) :
    ⦃fun w => ⌜wnd cfg w.trace = false⌝⦄ executeWithRetry cfg ⦃finPostC cfg⦄ := by
  have h1 := runExecute_c cfg
  have h2 := fun e => executeLadder_c cfg e
  have h3 := fun b => recordSuccess_k cfg b
  have h4 := fun b => recordCancel_k cfg b
  have h5 := fun b k => recordFailure_k cfg b k
  mvcgen [executeWithRetry, h1, h2, h3, h4, h5]
  all_goals (try clear h1 h2 h3 h4 h5)
  cut_finish

theorem executeAdmitted2_c (cfg : Cfg) (hret : cfg.hasRetry = true) :
    ⦃fun w => ⌜wnd cfg w.trace = false⌝⦄ executeAdmitted2 cfg ⦃finPostC cfg⦄ := by
  have h1 := executeWithRetry_c cfg
  unfold executeAdmitted2
  simp only [hret, if_true]
  mvcgen [h1]
  all_goals (try clear h1)
  cut_finish

theorem executeAdmitted_c (cfg : Cfg) (hret : cfg.hasRetry = true) :
    ⦃fun w => ⌜wnd cfg w.trace = false⌝⦄ executeAdmitted cfg ⦃finPostC cfg⦄ := by
  have h1 := executeAdmitted2_c cfg hret
  have h2 := fun b bc => breakerAllow_k cfg b bc
  have h3 := fun b ev st k => emitBreakerEvent_k cfg b ev st k
  have h4 := fun b a1 a2 a3 a4 a5 a6 a7 => policyOutcome_k cfg b a1 a2 a3 a4 a5 a6 a7
  mvcgen [executeAdmitted, h1, h2, h3, h4]
  all_goals (try clear h1 h2 h3 h4)
  cut_finish

/-- `Policy.execute` with a retry component -/
theorem execute_retry_c (cfg : Cfg) (hret : cfg.hasRetry = true) :
    ⦃fun w => ⌜wnd cfg w.trace = false⌝⦄ Policy.execute cfg ⦃finPostC cfg⦄ := by
  have h1 := fun b => initCtx_k cfg b
  have h2 := withFinally_spec (executeAdmitted_c cfg hret) (fun _ => ensureSettled_a cfg)
    (fun e => ensureSettled_i cfg e)
  mvcgen [Policy.execute, h1, h2]
  all_goals (try clear h1 h2)
  cut_finish

/-! ### the theorems -/

theorem wnd_start (cfg : Cfg) (w : World) : wnd cfg (startWorld w).trace = false := rfl

/-- a run (with a retry loop) that ends with the error `x` while a granted retry's sleep is due: `x` is
    `stuck`, `libAbort`, or an error a callback raised and the library does not swallow -/
theorem raised_cut (cfg : Cfg) (e : Entry) (w : World) (hl : hasLoop cfg e = true) (x : Exn)
    (hx : (runEntry cfg e w).1 = .raised x) : Cut cfg x (runEntry cfg e w).2 := by
  cases e with
  | call =>
    have := adequacy (runCall_c cfg) (startWorld w) (wnd_start cfg w)
    simp only [runEntry, startWorld] at this hx ⊢
    split at this <;> rename_i heq <;> simp only [heq, toRes] at hx ⊢
    · cases hx
    · cases hx; exact this
  | execute =>
    have := adequacy (runExecute_c cfg) (startWorld w) (wnd_start cfg w)
    simp only [runEntry, startWorld] at this hx ⊢
    split at this <;> rename_i heq <;> simp only [heq, toResO] at hx ⊢
    · cases hx
    · cases hx; exact this
  | pcall =>
    have hret : cfg.hasRetry = true := by simpa [hasLoop, Entry.isPolicy] using hl
    have := adequacy (call_retry_c cfg hret) (startWorld w) (wnd_start cfg w)
    simp only [runEntry, startWorld] at this hx ⊢
    split at this <;> rename_i heq <;> simp only [heq, toRes] at hx ⊢
    · cases hx
    · cases hx; exact this
  | pexecute =>
    have hret : cfg.hasRetry = true := by simpa [hasLoop, Entry.isPolicy] using hl
    have := adequacy (execute_retry_c cfg hret) (startWorld w) (wnd_start cfg w)
    simp only [runEntry, startWorld] at this hx ⊢
    split at this <;> rename_i heq <;> simp only [heq, toResO] at hx ⊢
    · cases hx
    · cases hx; exact this

theorem props_reverse (tr : List (Req × Ans)) (x : Exn) :
    (props tr.reverse).contains x = true ↔ x ∈ propsN tr := by
  simp [props, propsN, List.filterMap_reverse]

/--
**C16, cut short (tight).**  For every configuration, every entry point and every world: a run that
ends while a granted retry's sleep is still due (and no DEFER / ABORT / bad decision was taken) ended
(a) with an error the log shows being raised by a callback whose errors propagate — never with an
`Exception` that only a metric / log / before_sleep hook raised —, or (b) with the library's own
`AbortRetryError` (`abort_if` answered true), or (c) as an ABORTED outcome (or (d), model only, `stuck`).
-/
theorem cut_hold (cfg : Cfg) (e : Entry) (w : World) :
    Mon.C16.cutOk cfg e (runEntry cfg e w).2.trace.reverse (runEntry cfg e w).1 = true := by
  cases hl : hasLoop cfg e with
  | false => simp [cutOk, hl]
  | true =>
    have hskip := no_handler_always_sleeps cfg e w
    simp only [cutOk, skipOk, hl, run_reverse, Bool.not_true, Bool.false_or] at hskip ⊢
    cases hw : wnd cfg (runEntry cfg e w).2.trace with
    | false =>
      unfold wnd at hw
      simp [hw]
    | true =>
      have hw' := hw
      unfold wnd at hw'
      simp only [hw', Bool.not_true, Bool.false_or, Bool.and_eq_true] at hskip ⊢
      cases hr : (runEntry cfg e w).1 with
      | ret v => rw [hr] at hskip; simp [cutShort] at hskip
      | outcome o tl => rw [hr] at hskip; simpa [cutShort, cutBy] using hskip.2
      | raised x =>
        simp only [cutBy, Bool.or_eq_true, beq_iff_eq, props_reverse]
        rcases raised_cut cfg e w hl x hr hw with h | h | h
        · exact Or.inr h
        · exact Or.inl (Or.inr h)
        · exact Or.inl (Or.inl h)

/-- …and therefore of every call in every script of calls and clock advances on ONE policy object. -/
theorem cut_hold_script (cfg : Cfg) : ∀ (steps : List Step) (w : World),
    ∀ l ∈ (runScript cfg steps w).1, Mon.C16.cutOk cfg l.entry l.trace l.res = true := by
  intro steps
  induction steps with
  | nil => intro w l hl; simp [runScript] at hl
  | cons st rest ih =>
    intro w l hl
    cases st with
    | advance d => exact ih _ l (by simpa [runScript] using hl)
    | run e =>
      simp only [runScript, List.mem_cons] at hl
      rcases hl with rfl | hl
      · exact cut_hold cfg e w
      · exact ih _ l hl

/-! ### the monitor can say no (tests, not theorems) -/

/-- rejected: a retry is granted, the call-level `before_sleep` hook raises an ordinary `Exception` (which
    the library must swallow) and the run ends with that very exception — `skipOk` accepts this log -/
example : Mon.C16.cutOk { cBeforeSleep := true } .call
    [(.op 1, .raise (.ordinary 0 .transient) 0), (.classify "o0", .klass ⟨.transient, none⟩ 0),
     (.strategy .default .ctx ⟨1, .transient, none, none, 60, .exception⟩, .delay (.fin 5) 0),
     (.beforeSleep .call ⟨1, .transient, none, none, 60, .exception⟩ 5, .raise (.ordinary 7 .unknown) 0)]
    (.raised (.ordinary 7 .unknown)) = false := by decide

example : Mon.C16.skipOk { cBeforeSleep := true } .call
    [(.op 1, .raise (.ordinary 0 .transient) 0), (.classify "o0", .klass ⟨.transient, none⟩ 0),
     (.strategy .default .ctx ⟨1, .transient, none, none, 60, .exception⟩, .delay (.fin 5) 0),
     (.beforeSleep .call ⟨1, .transient, none, none, 60, .exception⟩ 5, .raise (.ordinary 7 .unknown) 0)]
    (.raised (.ordinary 7 .unknown)) = true := by decide

/-- rejected: the same with the `retry` event's metric hook -/
example : Mon.C16.cutOk { metric := true } .call
    [(.op 1, .raise (.ordinary 0 .transient) 0), (.classify "o0", .klass ⟨.transient, none⟩ 0),
     (.strategy .default .ctx ⟨1, .transient, none, none, 60, .exception⟩, .delay (.fin 5) 0),
     (.metric .retry 1 5 { klass := some .transient, err := some "XTRANSIENT", cause := some .exception },
        .raise (.ordinary 7 .unknown) 0)]
    (.raised (.ordinary 7 .unknown)) = false := by decide

/-- rejected: a library-made error other than `AbortRetryError` while the sleep is due -/
example : Mon.C16.cutOk {} .call
    [(.op 1, .raise (.ordinary 0 .transient) 0), (.classify "o0", .klass ⟨.transient, none⟩ 0),
     (.strategy .default .ctx ⟨1, .transient, none, none, 60, .exception⟩, .delay (.fin 5) 0)]
    (.raised (.libExhausted ⟨.maxAttemptsGlobal, 1, some .transient, some "o0", none, none⟩)) = false := by decide

/-- accepted: the hook raises something that is not an `Exception` — that propagates -/
example : Mon.C16.cutOk { cBeforeSleep := true } .call
    [(.op 1, .raise (.ordinary 0 .transient) 0), (.classify "o0", .klass ⟨.transient, none⟩ 0),
     (.strategy .default .ctx ⟨1, .transient, none, none, 60, .exception⟩, .delay (.fin 5) 0),
     (.beforeSleep .call ⟨1, .transient, none, none, 60, .exception⟩ 5, .raise .keyboardInterrupt 0)]
    (.raised .keyboardInterrupt) = true := by decide

/-- accepted: `abort_if` answers true before the sleep -/
example : Mon.C16.cutOk { abortIf := true } .call
    [(.abortIf, .bool false 0), (.op 1, .raise (.ordinary 0 .transient) 0), (.abortIf, .bool false 0),
     (.classify "o0", .klass ⟨.transient, none⟩ 0),
     (.strategy .default .ctx ⟨1, .transient, none, none, 60, .exception⟩, .delay (.fin 5) 0),
     (.abortIf, .bool true 0)]
    (.raised .libAbort) = true := by decide

/-- accepted: the swallowed hook error, then the sleeper itself raises — that error propagates (and the
    sleep is no longer due) -/
example : Mon.C16.cutOk { cBeforeSleep := true } .call
    [(.op 1, .raise (.ordinary 0 .transient) 0), (.classify "o0", .klass ⟨.transient, none⟩ 0),
     (.strategy .default .ctx ⟨1, .transient, none, none, 60, .exception⟩, .delay (.fin 5) 0),
     (.beforeSleep .call ⟨1, .transient, none, none, 60, .exception⟩ 5, .raise (.ordinary 7 .unknown) 0),
     (.sleeper .dflt 5, .raise (.ordinary 8 .unknown) 0)]
    (.raised (.ordinary 8 .unknown)) = true := by decide

/-- the situation occurs in the model: `abort_if` answers true after the grant — the run ends with the
    library's own `AbortRetryError` while the granted retry's sleep is still due -/
example :
    let r := runEntry { abortIf := true } .call
      { answers := [.bool false 0, .raise (.ordinary 0 .transient) 0, .bool false 0, .klass ⟨.transient, none⟩ 0,
                    .delay (.fin 5) 0, .bool true 0] }
    r.1 = .raised .libAbort ∧ (run { abortIf := true } r.2.trace.reverse).pending = true ∧
      (run { abortIf := true } r.2.trace.reverse).stopped = none := by decide

/-- …and the model swallows the `before_sleep` hook's `Exception`: the run goes on to the sleeper -/
example :
    (runEntry { cBeforeSleep := true } .call
      { answers := [.raise (.ordinary 0 .transient) 0, .klass ⟨.transient, none⟩ 0, .delay (.fin 5) 0,
                    .raise (.ordinary 7 .unknown) 0, .raise .keyboardInterrupt 0] }).1
      = .raised .keyboardInterrupt := by decide

end Redress.Props.C16Cut

#print axioms Redress.Props.C16Cut.cut_hold
#print axioms Redress.Props.C16Cut.cut_hold_script
