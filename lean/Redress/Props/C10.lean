/-
  Redress.Props.C10 — "Shared retry budget: at most max_retries retries per rolling window".

  Object of the theorems: the MODEL `Redress.Budget.{prune, consume, remaining}`
  (`Model/Budget.lean`, a transcription of `redress/budget.py`) iterated over an arbitrary history
  of operations on ONE shared budget (`run c {} h`).  Which policy or call issued an operation is
  irrelevant to the budget — the lock serialises them into one history — so "across all policies
  and calls sharing one Budget" is `∀ h : History`.

  Quantifiers: every `c : Cfg` (all budget sizes, all windows), every history `h` of any length
  with a non-decreasing clock (`Monotone h`, an explicit hypothesis; clock steps of 0 and steps
  landing exactly on `g + window` included), every `cost` (the code rejects `cost < 1`; the
  theorems hold for `cost = 0` too), every `t : Nat`.

  `0 < c.window` is the constructor's validation (`window_s <= 0` raises).

  Granted tokens are read off the run's OUTPUTS (`Log.grants`): `cost` copies of `now` for each
  consume that returned `True`.

  Theorems (all full strength; none `_partial`):
    refinement_invariant   (1)  events = live grants as of the last prune, sorted, ≤ last clock
    run_refines_spec       (6)  model outputs = history-based spec outputs
    window_bound           (2)  ∀ t, #{g | t − w < g ≤ t} ≤ max
    window_bound_fwd       (2)  ∀ t, #{g | t ≤ g < t + w} ≤ max
    window_bound_checker        the finite check `windowBoundOk` is equivalent to the ∀ t statement
    refuse_only_when_full  (3)  refused ↔ |live| + cost > max
    refusal_window_full         a refused unit-cost consume sees exactly `max` grants in (now − w, now]
    capacity_returns       (4)  remaining = max − |live|
    live_iff_age           (4)  a grant counts iff its age < window
    capacity_returns_exactly (4) remaining grows by exactly the number of grants reaching age = window
    consume_atomic         (5)  all-or-nothing, on ANY state
    grants_atomic          (5)  the grant history grows by exactly `cost` copies of `now` or not at all
    events_length_le            |events| ≤ max on every reachable state, WITHOUT the clock hypothesis
    model_passes_monitors       the model's log passes every monitor the driver evaluates
    monitors_sound              a log passing the monitors is the spec's log and satisfies the bound
-/
import Redress.Lemmas.BudgetLemmas

namespace Redress.Budget.C10

open Redress.Budget

/-! ## (1) + (6) refinement -/

/-- (1) Running the model from the empty budget over any monotone history keeps
    `events = the grants still inside the window as of the last prune`, oldest first, with the
    full grant history sorted and not later than the last clock value. -/
theorem refinement_invariant (c : Cfg) (hw : 0 < c.window) (h : History) (hm : Monotone h) :
    Inv c (run c {} h).2 (run c {} h).1.grants (lastNow 0 h) := by
  obtain ⟨hl, hi⟩ := run_inv hw (Inv.init c 0) h hm
  rw [hl]; simpa using hi

/-- (1), spelled out. -/
theorem events_eq_live (c : Cfg) (hw : 0 < c.window) (h : History) (hm : Monotone h) :
    (run c {} h).2.events = live c.window (lastNow 0 h) (run c {} h).1.grants ∧
      (run c {} h).2.events.Pairwise (· ≤ ·) :=
  ⟨(refinement_invariant c hw h hm).events_eq, (refinement_invariant c hw h hm).events_sorted⟩

/-- (6) The model's outputs equal the history-based spec's outputs for every monotone history. -/
theorem run_refines_spec (c : Cfg) (hw : 0 < c.window) (h : History) (hm : Monotone h) :
    (run c {} h).1 = specLog c [] h :=
  (run_inv hw (Inv.init c 0) h hm).1

-- non-vacuity: a monotone history with repeated instants, cost > 1, and an exact-boundary step
example : Monotone [.consume 0 2, .consume 0 1, .remaining 2, .consume 3 2, .remaining 3] := by decide
example : (0 : Nat) < ({ maxRetries := 2, window := 3 } : Cfg).window := by decide
example :
    (run { maxRetries := 2, window := 3 } {}
      [.consume 0 2, .consume 0 1, .remaining 2, .consume 3 2, .remaining 3]).1.map Prod.snd
      = [.granted true, .granted false, .remaining 0, .granted true, .remaining 0] := by decide

/-! ## (2) sliding-window bound -/

/-- (2) For every history and EVERY time `t` (not only operation times), the number of granted
    tokens `g` with `t − window < g ≤ t` is at most `max_retries`.  (No `0 < window` needed: the
    half-open window of length 0 is empty.) -/
theorem window_bound (c : Cfg) (h : History) (hm : Monotone h) (t : Nat) :
    countIn c.window t (run c {} h).1.grants ≤ c.maxRetries := by
  by_cases hw : 0 < c.window
  · rw [run_refines_spec c hw h hm]
    have := spec_window_bound c [] h (by simp [countIn]) t
    simpa using this
  · have : c.window = 0 := by omega
    rw [this, countIn_zero_window]; exact Nat.zero_le _

/-- (2) Likewise for `[t, t + window)`. -/
theorem window_bound_fwd (c : Cfg) (h : History) (hm : Monotone h) (t : Nat) :
    countInFwd c.window t (run c {} h).1.grants ≤ c.maxRetries := by
  by_cases hw : 0 < c.window
  · rw [countInFwd_eq _ _ _ hw]; exact window_bound c h hm _
  · have : c.window = 0 := by omega
    rw [this, countInFwd_zero]; exact Nat.zero_le _

/-- The driver's finite check (windows ending at a grant time) is equivalent to the statement for
    every `t`, for ANY list of grant times — this is what makes `windowBoundOk` a faithful monitor
    on the implementation's recorded grants. -/
theorem window_bound_checker (max w : Nat) (grants : List Nat) :
    windowBoundOk max w grants = true ↔ ∀ t, countIn w t grants ≤ max :=
  windowBoundOk_iff max w grants

/-- The CLOSED interval of length exactly `window` can hold `max_retries + 1` grants: a token
    granted at `0` ages out at exactly `0 + window`, so a new one is granted at that instant
    (the code's `<=` in `_prune`; the property calls this capacity *returning* at age `window_s`). -/
example :
    let c : Cfg := { maxRetries := 1, window := 3 }
    let l := (run c {} [.consume 0 1, .consume 3 1]).1
    l.map Prod.snd = [.granted true, .granted true] ∧
      countInClosed c.window 3 l.grants = 2 ∧ countIn c.window 3 l.grants = 1 := by decide

/-! ## (3) refusal only when full -/

/-- (3) After any monotone history, a `consume(cost)` at a clock value `now` not before the last
    operation is refused iff `#{g granted | g + window > now} + cost > max_retries`. -/
theorem refuse_only_when_full (c : Cfg) (hw : 0 < c.window) (h : History) (hm : Monotone h)
    (now cost : Nat) (hnow : lastNow 0 h ≤ now) :
    (consume c (run c {} h).2 now cost).1 = false ↔
      liveCount c.window now (run c {} h).1.grants + cost > c.maxRetries := by
  have hi := refinement_invariant c hw h hm
  have := (step_inv hw hi (.consume now cost) hnow).1
  simp only [step, specOut, Out.granted.injEq] at this
  rw [this]
  simp

/-- Granted iff it fits (the same statement, positive form). -/
theorem granted_iff_fits (c : Cfg) (hw : 0 < c.window) (h : History) (hm : Monotone h)
    (now cost : Nat) (hnow : lastNow 0 h ≤ now) :
    (consume c (run c {} h).2 now cost).1 = true ↔
      liveCount c.window now (run c {} h).1.grants + cost ≤ c.maxRetries := by
  have := refuse_only_when_full c hw h hm now cost hnow
  cases hb : (consume c (run c {} h).2 now cost).1
  · simp only [hb, true_iff] at this; simp; omega
  · simp only [hb, Bool.true_eq_false, false_iff] at this; simp; omega

/-- "The window really is full": when a unit-cost consume is refused at `now`, the window
    `(now − window, now]` holds exactly `max_retries` granted tokens. -/
theorem refusal_window_full (c : Cfg) (hw : 0 < c.window) (h : History) (hm : Monotone h)
    (now : Nat) (hnow : lastNow 0 h ≤ now)
    (href : (consume c (run c {} h).2 now 1).1 = false) :
    countIn c.window now (run c {} h).1.grants = c.maxRetries := by
  have h1 := (refuse_only_when_full c hw h hm now 1 hnow).mp href
  have h2 := window_bound c h hm now
  have hi := refinement_invariant c hw h hm
  -- every grant is ≤ last ≤ now, so "live at now" and "in (now − w, now]" coincide
  have : countIn c.window now (run c {} h).1.grants = liveCount c.window now (run c {} h).1.grants := by
    rw [liveCount_eq_countP]
    apply List.countP_congr
    intro g hg
    have := hi.le_last g hg
    simp only [inWindow, Bool.and_eq_true, decide_eq_true_eq]
    omega
  omega

example : Monotone [.consume 0 2, .remaining 1] ∧ lastNow 0 [.consume 0 2, .remaining 1] ≤ 2 := by
  decide
example :
    (consume { maxRetries := 2, window := 3 }
      (run { maxRetries := 2, window := 3 } {} [.consume 0 2, .remaining 1]).2 2 1).1 = false := by
  decide

/-! ## (4) capacity returns exactly at age = window -/

/-- (4) `remaining()` at `now` is `max_retries − #{g granted | g + window > now}`. -/
theorem capacity_returns (c : Cfg) (hw : 0 < c.window) (h : History) (hm : Monotone h)
    (now : Nat) (hnow : lastNow 0 h ≤ now) :
    (remaining c (run c {} h).2 now).1 =
      c.maxRetries - liveCount c.window now (run c {} h).1.grants := by
  have hi := refinement_invariant c hw h hm
  have := (step_inv hw hi (.remaining now) hnow).1
  simpa [step, specOut] using this

/-- (4) A grant made at `g ≤ now` counts at `now` iff its age is `< window`:
    age ≥ window ⇒ not counted, age < window ⇒ counted. -/
theorem live_iff_age (w now g : Nat) (grants : List Nat) (hg : g ∈ grants) (hle : g ≤ now) :
    (g ∈ live w now grants ↔ now - g < w) ∧ (w ≤ now - g → g ∉ live w now grants) := by
  rw [mem_live]
  constructor
  · constructor
    · rintro ⟨_, h⟩; omega
    · intro h; exact ⟨hg, by omega⟩
  · rintro h ⟨_, h'⟩; omega

/-- (4) Between two instants `now ≤ now'` with no operation in between, `remaining` grows by
    exactly the number of grants whose age reaches `window` in `(now, now']`
    (`now < g + window ≤ now'`) — no earlier, no later. -/
theorem capacity_returns_exactly (c : Cfg) (hw : 0 < c.window) (h : History) (hm : Monotone h)
    (now now' : Nat) (hnow : lastNow 0 h ≤ now) (hle : now ≤ now') :
    (remaining c (run c {} h).2 now').1 =
      (remaining c (run c {} h).2 now).1 +
        (run c {} h).1.grants.countP
          (fun g => decide (now < g + c.window) && decide (g + c.window ≤ now')) := by
  rw [capacity_returns c hw h hm now hnow, capacity_returns c hw h hm now' (Nat.le_trans hnow hle)]
  have hs := liveCount_split c.window hle (run c {} h).1.grants
  -- the live count at `now` never exceeds max (so the truncated subtraction is exact)
  have hi := refinement_invariant c hw h hm
  have hb : liveCount c.window now (run c {} h).1.grants ≤ c.maxRetries := by
    have h2 := window_bound c h hm now
    have : countIn c.window now (run c {} h).1.grants
        = liveCount c.window now (run c {} h).1.grants := by
      rw [liveCount_eq_countP]
      apply List.countP_congr
      intro g hg
      have := hi.le_last g hg
      simp only [inWindow, Bool.and_eq_true, decide_eq_true_eq]
      omega
    omega
  omega

-- the exact boundary: granted at 0 with window 3 → still counted at 2, returned at 3
example :
    let c : Cfg := { maxRetries := 1, window := 3 }
    let s := (run c {} [.consume 0 1]).2
    (remaining c s 2).1 = 0 ∧ (remaining c s 3).1 = 1 := by decide

/-! ## (5) atomicity of `cost` -/

/-- (5) On ANY state (no hypothesis): either the call is granted and the deque grows by exactly
    `cost` copies of `now` (after the prune), or it is refused and nothing is appended. -/
theorem consume_atomic (c : Cfg) (s : St) (now cost : Nat) :
    ((consume c s now cost).1 = true ∧
        (consume c s now cost).2.events = prune c.window now s.events ++ List.replicate cost now) ∨
    ((consume c s now cost).1 = false ∧
        (consume c s now cost).2.events = prune c.window now s.events) := by
  simp only [consume]
  split <;> simp

/-- (5) at the level of histories: one more consume extends the granted-token history by exactly
    `cost` copies of `now`, or not at all — never by `0 < k < cost` copies. -/
theorem grants_atomic (c : Cfg) (h : History) (now cost : Nat) :
    let g := (run c {} h).1.grants
    let g' := (run c {} (h ++ [.consume now cost])).1.grants
    g' = g ++ List.replicate cost now ∨ g' = g := by
  simp only [run_append, grants_append, run_cons, run_nil, grants_cons, grants_nil, List.append_nil,
    step]
  cases (consume c (run c {} h).2 now cost).1 <;> simp [entryGrants]

/-! ## without the clock hypothesis -/

theorem run_events_length_le (c : Cfg) (s : St) (h : History)
    (hs : s.events.length ≤ c.maxRetries) : (run c s h).2.events.length ≤ c.maxRetries := by
  induction h generalizing s with
  | nil => simpa using hs
  | cons op rest ih =>
    rw [run_cons]
    apply ih
    have hp := prune_length_le c.window op.now s.events
    cases op with
    | remaining now => simp only [step, remaining, Op.now] at hp ⊢; omega
    | consume now cost =>
      simp only [step, consume, Op.now] at hp ⊢
      split
      · simp only; omega
      · simp only [List.length_append, List.length_replicate]; omega

/-- The deque never holds more than `max_retries` tokens, for EVERY history (monotone or not). -/
theorem events_length_le (c : Cfg) (h : History) :
    (run c {} h).2.events.length ≤ c.maxRetries :=
  run_events_length_le c {} h (Nat.zero_le _)

/-- Remark (what fails without `Monotone`): `prune` is a pop-left loop, not a filter.  If the clock
    values are not non-decreasing the deque can be unsorted; then
    (a) an expired token hidden behind a fresh head is NOT popped, so a consume is refused although
        the window is not full (`refuse_only_when_full` fails, conservatively), and
    (b) a token popped at a late instant is forgotten when the clock steps back, so the
        sliding-window bound itself fails.
    `time.monotonic` rules this out for one thread; two threads that read the clock *outside* the
    lock can still enqueue out of order — that is C17's subject, not C10's. -/
example :
    let c : Cfg := { maxRetries := 2, window := 3 }
    let h : History := [.consume 5 1, .consume 1 1]          -- clock went backwards
    ¬ Monotone h ∧ (run c {} h).2.events = [5, 1] ∧
      prune c.window 5 [5, 1] = [5, 1] ∧ live c.window 5 [5, 1] = [5] ∧
      (consume c (run c {} h).2 5 1).1 = false ∧                     -- refused …
      liveCount c.window 5 (run c {} h).1.grants + 1 ≤ c.maxRetries   -- … although it fits
    := by decide

example :
    let c : Cfg := { maxRetries := 1, window := 3 }
    let h : History := [.consume 10 1, .remaining 13, .consume 11 1]   -- 13 then 11
    ¬ Monotone h ∧ (run c {} h).1.grants = [10, 11] ∧
      countIn c.window 11 (run c {} h).1.grants = 2 := by decide

/-! ## monitors -/

/-- The model's own log passes every monitor the driver evaluates on the implementation's log. -/
theorem model_passes_monitors (c : Cfg) (hw : 0 < c.window) (h : History) (hm : Monotone h) :
    c10Ok c (run c {} h).1 = true ∧
      eventsOk c (run c {} h).1 (run c {} h).2.events = true := by
  constructor
  · have hspec : (shapeOk (run c {} h).1 && refusalOk c (run c {} h).1 &&
        remainingOk c (run c {} h).1) = true := by
      rw [monitors_iff_spec, run_ops]; exact run_refines_spec c hw h hm
    have hwb : windowBoundOk c.maxRetries c.window (run c {} h).1.grants = true :=
      (windowBoundOk_iff _ _ _).mpr (window_bound c h hm)
    simp only [c10Ok, Bool.and_eq_true] at hspec ⊢
    exact ⟨hspec, hwb⟩
  · simp only [eventsOk, run_ops, beq_iff_eq]
    exact (refinement_invariant c hw h hm).events_eq

/-- Soundness of the monitors for ANY recorded log `l` (in particular the implementation's): if
    `c10Ok c l` then `l` is exactly the spec's log for its operations and its grants satisfy the
    sliding-window bound at every `t`.  So a recorded log on which the implementation departs from
    the spec, or exceeds the bound, is rejected by `c10Ok`. -/
theorem monitors_sound (c : Cfg) (l : Log) (hok : c10Ok c l = true) :
    l = specLog c [] l.ops ∧ ∀ t, countIn c.window t l.grants ≤ c.maxRetries := by
  simp only [c10Ok, Bool.and_eq_true] at hok
  refine ⟨(monitors_iff_spec c l).mp ?_, (windowBoundOk_iff _ _ _).mp hok.2⟩
  simp only [Bool.and_eq_true]; exact hok.1

/-- Conversely the spec's log passes the per-entry monitors, so they are exact (no false alarm). -/
theorem monitors_complete (c : Cfg) (h : History) :
    let l := specLog c [] h
    (shapeOk l && refusalOk c l && remainingOk c l) = true := by
  simp only [monitors_iff_spec, specLog_ops]

end Redress.Budget.C10
