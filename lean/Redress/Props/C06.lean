/-
  Redress.Props.C06 — "Breaker opens exactly when counted failures reach a threshold in the window".

  All theorems are about `Redress.Model.Breaker` (the model of `redress/circuit.py`) for ALL
  configurations with `window > 0` (the constructor rejects the others; no other well-formedness
  condition is needed) and ALL histories of allow / record_success / record_failure(class) /
  record_cancel whose clock values are non-decreasing (`Mono`, explicit hypothesis).

    opensLog_eq_py, noteFailure_verdict   class-bucket-first evaluation = the disjunction
    inv_holds                             the refinement invariant `Inv` in every reachable state
    model_refines_spec                    model outputs/state = history-based spec, every op
    historyOk_model                       the executable monitor accepts the model's records
    closed_state_matches_history          `Inv` unpacked (CLOSED)
    non_closed_state_matches_history      `Inv` unpacked (OPEN / HALF_OPEN)
    history_cleared_on_transition
    opens_iff (+ opens_iff_inv)
    only_failures_open, closed_left_only_by_counted_failure, success_while_closed_is_noop
    old_failures_do_not_count, inWindow_append_old, inWindow_boundary,
      age_eq_window_not_counted, age_lt_window_counted
    pre_transition_failures_do_not_count, state_after_close, state_after_open,
      counted_eq_rawCounted
-/
import Redress.Lemmas.BreakerLemmas

namespace Redress.Breaker
open List

/-! ## 0. The two forms of the opening rule agree -/

theorem opensLog_eq_py (c : Cfg) (log : List (EClass × Nat)) (k : EClass) (now : Nat) :
    opensLog c log k now = opensLogPy c log k now := by
  unfold opensLog opensLogPy
  cases c.tripOn k <;> cases c.classThreshold k with
  | none => simp
  | some th =>
    by_cases h : th ≤ inWindow c.window now (timesOf k log) + 1 <;> simp [h]

/-- the model's `_note_failure` (class bucket first, early `True`) computes the disjunction -/
theorem noteFailure_verdict (c : Cfg) (s : St) (k : EClass) (now : Nat) :
    (noteFailure c s k now).1 =
      (decide (c.failureThreshold ≤ (prune c.window now s.failures ++ [now]).length) ||
        match c.classThreshold k with
        | some th => decide (th ≤ (prune c.window now (s.classFailures k) ++ [now]).length)
        | none => false) := by
  unfold noteFailure
  cases c.classThreshold k with
  | none => simp
  | some th =>
    simp only [ge_iff_le]
    split <;> rename_i h <;> simp at h ⊢ <;> omega

/-! ## 1. The refinement invariant holds in every reachable state -/

theorem specOpens_of_abs {c : Cfg} {H : List Op} {log : List (EClass × Nat)}
    (h : absOf c H = .closed log) (k : EClass) (now : Nat) :
    specOpens c H k now = opensLog c log k now := by
  simp [specOpens, counted, countedOfClass, h, opensLog]

/-- **Inv** — after every history with a non-decreasing clock the model state refines the
history-determined state `absOf c H`. -/
theorem inv_holds (c : Cfg) (hw : 0 < c.window) (H : List Op) (hm : Mono H) :
    Inv c (lastTime 0 H) (mrun c .init H).2 (absOf c H) :=
  (run_refines c hw H St.init Abs.init 0 (inv_init c) hm).2

/-- **End-to-end refinement**: for every monotone history the model returns, at every operation,
exactly the decision / event the history-based specification prescribes, and is in the state the
history determines. -/
theorem model_refines_spec (c : Cfg) (hw : 0 < c.window) (H : List Op) (hm : Mono H) :
    (mrun c .init H).1 = specOutputs c H ∧ (mrun c .init H).2.state = stateOf c H :=
  ⟨(run_refines c hw H St.init Abs.init 0 (inv_init c) hm).1, (inv_holds c hw H hm).state⟩

/-- … and therefore the executable monitor accepts the model's own records on every monotone
history (`historyOk` is what the driver evaluates on the implementation's records). -/
theorem historyOk_model (c : Cfg) (hw : 0 < c.window) (H : List Op) (hm : Mono H) :
    historyOk c (mrecs c .init H) = .ok :=
  checkFrom_model c hw H St.init Abs.init 0 0 (inv_init c) hm

/-- `Inv` spelled out for a CLOSED breaker: the deque and every class bucket are sorted and are
exactly the history-defined counted lists restricted to what the last prune kept; nothing else
is remembered; flag and `opened_at` are clear. -/
theorem closed_state_matches_history (c : Cfg) (hw : 0 < c.window) (H : List Op) (hm : Mono H)
    (hclosed : (mrun c .init H).2.state = .closed) :
    let s := (mrun c .init H).2
    s.failures = kept c.window (counted c H) ∧
    (∀ k, s.classFailures k =
      if (c.classThreshold k).isSome then kept c.window (countedOfClass c H k) else []) ∧
    s.failures.Pairwise (· ≤ ·) ∧ (∀ k, (s.classFailures k).Pairwise (· ≤ ·)) ∧
    (counted c H).Pairwise (· ≤ ·) ∧ (∀ x ∈ counted c H, x ≤ lastTime 0 H) ∧
    s.openedAt = none ∧ s.probe = false := by
  have hinv := inv_holds c hw H hm
  have hmode : (absOf c H).mode = .closed := by rw [← hinv.state]; exact hclosed
  cases habs : absOf c H with
  | closed log =>
    rw [habs] at hinv
    obtain ⟨hst, hoa, hp, hsorted, hbound, hf, hcf⟩ := hinv
    simp only [counted, countedOfClass, habs]
    refine ⟨hf, hcf, ?_, ?_, hsorted, hbound, hoa, hp⟩
    · rw [hf]; exact kept_pairwise _ _ hsorted
    · intro k; rw [hcf k]
      split
      · exact kept_pairwise _ _ (timesOf_pairwise k log hsorted)
      · simp
  | opened t0 => simp [habs, Abs.mode] at hmode
  | halfOpen p => simp [habs, Abs.mode] at hmode

/-- `Inv` spelled out outside CLOSED: OPEN ⇒ `opened_at = some t` (the history's opening instant)
and no probe flag; the flag can only be set in HALF_OPEN; no failure history at all. -/
theorem non_closed_state_matches_history (c : Cfg) (hw : 0 < c.window) (H : List Op)
    (hm : Mono H) :
    let s := (mrun c .init H).2
    (s.state = .opened → ∃ t0, s.openedAt = some t0 ∧ openedAtOf c H = some t0 ∧
        t0 ≤ lastTime 0 H ∧ s = St.openedAtTime t0) ∧
    (s.probe = true → s.state = .halfOpen) ∧
    (s.state ≠ .closed → s.failures = [] ∧ ∀ k, s.classFailures k = []) := by
  have hinv := inv_holds c hw H hm
  cases habs : absOf c H with
  | closed log =>
    rw [habs] at hinv
    obtain ⟨hst, hoa, hp, -⟩ := hinv
    simp [hst, hp]
  | opened t0 =>
    rw [habs] at hinv
    obtain ⟨hst, hoa, hp, hf, hcf, ht0⟩ := hinv
    refine ⟨fun _ => ⟨t0, hoa, by simp [openedAtOf, habs], ht0, ?_⟩, by simp [hp],
      fun _ => ⟨hf, hcf⟩⟩
    have : (mrun c St.init H).2.classFailures = fun _ => [] := funext hcf
    cases hs : (mrun c St.init H).2
    simp_all [St.openedAtTime]
  | halfOpen p =>
    rw [habs] at hinv
    obtain ⟨hst, hp, hf, hcf, -⟩ := hinv
    simp [hst, hf, hcf]

/-- **History cleared on every transition**: whenever an operation changes the breaker state the
failure history is empty afterwards. -/
theorem history_cleared_on_transition (c : Cfg) (hw : 0 < c.window) (H : List Op) (op : Op)
    (hm : Mono (H ++ [op]))
    (hchg : (mrun c .init (H ++ [op])).2.state ≠ (mrun c .init H).2.state) :
    (mrun c .init (H ++ [op])).2.failures = [] ∧
    ∀ k, (mrun c .init (H ++ [op])).2.classFailures k = [] := by
  have hm1 : Mono H := ((monoFrom_append 0 H [op]).mp hm).1
  have h1 := inv_holds c hw H hm1
  have h2 := inv_holds c hw (H ++ [op]) hm
  rw [h1.state, h2.state] at hchg
  have habs : absOf c (H ++ [op]) = (step c (absOf c H) op).2 := by
    simp [absOf, srun_append, srun]
  rw [habs] at h2 hchg
  generalize (mrun c St.init (H ++ [op])).2 = s' at h2 ⊢
  generalize absOf c H = a at h2 hchg
  cases a with
  | closed log =>
    cases op with
    | failure k now =>
      simp only [step] at h2 hchg
      by_cases ho : opensLog c log k now = true
      · simp only [ho, if_true] at h2
        exact ⟨h2.2.2.2.1, h2.2.2.2.2.1⟩
      · by_cases htr : c.tripOn k = true <;> simp [ho, htr, Abs.mode] at hchg
    | _ => simp [step, Abs.mode] at hchg
  | opened t0 =>
    cases op with
    | allow now =>
      simp only [step] at h2 hchg
      split at h2
      · rename_i h; simp [h, Abs.mode] at hchg
      · exact ⟨h2.2.2.1, h2.2.2.2.1⟩
    | _ => simp [step, Abs.mode] at hchg
  | halfOpen p =>
    cases p <;> cases op <;> simp [step, Abs.mode] at hchg <;> simp only [step] at h2
    all_goals first
      | exact ⟨h2.2.2.2.1, h2.2.2.2.2.1⟩
      | (obtain ⟨-, -, -, -, -, hf, hcf⟩ := h2
         refine ⟨by simpa [kept] using hf, fun k => ?_⟩
         have := hcf k
         simpa [kept] using this)


/-! ## 2. `opens_iff` -/

theorem St.ext_of_fields (s : St) (st : CState) (oa : Option Nat) (p : Bool)
    (h1 : s.state = st) (h2 : s.openedAt = oa) (h3 : s.probe = p) (h4 : s.failures = [])
    (h5 : ∀ k, s.classFailures k = []) :
    s = { state := st, openedAt := oa, probe := p, failures := [], classFailures := fun _ => [] } := by
  have : s.classFailures = fun _ => [] := funext h5
  cases s; simp_all

/-- State-level form: on a state that refines `closed log`, at a clock value not in the past. -/
theorem opens_iff_inv (c : Cfg) (hw : 0 < c.window) (s : St) (log : List (EClass × Nat))
    (clk now : Nat) (k : EClass) (hinv : Inv c clk s (.closed log)) (hnow : clk ≤ now) :
    ((recordFailure c s k now).1 = some .circuitOpened ↔ opensLog c log k now = true) ∧
    (opensLog c log k now = true → (recordFailure c s k now).2 = St.openedAtTime now) ∧
    (opensLog c log k now = false →
      (recordFailure c s k now).1 = none ∧ (recordFailure c s k now).2.state = .closed) := by
  have hs := step_refines c hw s (.closed log) clk (.failure k now) hinv
    (by intro t ht; simp [Op.time] at ht; omega)
  simp only [mstep, step, Op.time, Option.getD_some] at hs
  by_cases ho : opensLog c log k now = true
  · simp only [ho, if_true] at hs
    obtain ⟨h1, h2, h3, h4, h5, h6, -⟩ := hs
    have h1' : (recordFailure c s k now).1 = some .circuitOpened := by simpa using h1
    refine ⟨by simp [h1', ho], fun _ => ?_, by simp [ho]⟩
    exact St.ext_of_fields _ _ _ _ h2 h3 h4 h5 h6
  · have ho' : opensLog c log k now = false := by simpa using ho
    simp only [ho', Bool.false_eq_true, if_false] at hs
    have hev : (recordFailure c s k now).1 = none ∧ (recordFailure c s k now).2.state = .closed := by
      by_cases htr : c.tripOn k = true
      · simp only [htr, if_true] at hs
        exact ⟨by simpa using hs.1, hs.2.1⟩
      · simp only [htr, if_false, Bool.false_eq_true] at hs
        exact ⟨by simpa using hs.1, hs.2.1⟩
    exact ⟨by simp [hev.1, ho'], by simp [ho'], fun _ => hev⟩

/-- **opens_iff** — after any history with a non-decreasing clock that leaves the breaker
CLOSED, `record_failure(k)` at `now` returns `circuit_opened` *iff* the rule `specOpens` holds of
the history; in that case the breaker is OPEN with `opened_at = now` and an empty history (and no
probe flag); otherwise it returns nothing and stays CLOSED. -/
theorem opens_iff (c : Cfg) (hw : 0 < c.window) (H : List Op) (k : EClass) (now : Nat)
    (hm : Mono (H ++ [.failure k now]))
    (hclosed : (mrun c .init H).2.state = .closed) :
    let s := (mrun c .init H).2
    ((recordFailure c s k now).1 = some .circuitOpened ↔ specOpens c H k now = true) ∧
    (specOpens c H k now = true → (recordFailure c s k now).2 = St.openedAtTime now) ∧
    (specOpens c H k now = false →
      (recordFailure c s k now).1 = none ∧ (recordFailure c s k now).2.state = .closed) := by
  obtain ⟨hm1, hm2⟩ := (monoFrom_append 0 H _).mp hm
  have hnow : lastTime 0 H ≤ now := by simpa [MonoFrom, Op.time] using hm2
  have hinv := inv_holds c hw H hm1
  have hmode : (absOf c H).mode = .closed := by rw [← hinv.state]; exact hclosed
  cases habs : absOf c H with
  | closed log =>
    rw [habs] at hinv
    simp only [specOpens_of_abs habs]
    exact opens_iff_inv c hw _ log _ now k hinv hnow
  | opened t0 => simp [habs, Abs.mode] at hmode
  | halfOpen p => simp [habs, Abs.mode] at hmode

/-- non-vacuity of `opens_iff`: a history satisfying its hypotheses on which the rule fires
through the class threshold while the global count is still below its threshold, and one on
which it does not fire. -/
def exCfg : Cfg :=
  { failureThreshold := 3, window := 10, recovery := 5,
    tripOn := fun k => k == .transient || k == .serverError || k == .rateLimit,
    classThreshold := fun k => if k == .rateLimit then some 2 else none }

example : Mono ([.allow 0, .failure .rateLimit 3, .success] ++ [.failure .rateLimit 12]) ∧
    (mrun exCfg .init [.allow 0, .failure .rateLimit 3, .success]).2.state = .closed ∧
    specOpens exCfg [.allow 0, .failure .rateLimit 3, .success] .rateLimit 12 = true ∧
    specOpens exCfg [.allow 0, .failure .rateLimit 3, .success] .rateLimit 13 = false ∧
    specOpens exCfg [.allow 0, .failure .rateLimit 3, .success] .transient 12 = false := by
  decide

/-! ## 3. `only_failures_open` -/

/-- **only_failures_open** — on a CLOSED breaker (any state whatsoever, reachable or not)
`allow`, `record_success`, `record_cancel` and `record_failure` of a class outside `trip_on`
return no event, admit (for `allow`), and leave the *whole* state unchanged. -/
theorem only_failures_open (c : Cfg) (s : St) (hclosed : s.state = .closed) :
    (∀ now, allow c s now = ((true, .closed, none), s)) ∧
    recordSuccess s = (none, s) ∧
    recordCancel s = s ∧
    (∀ k now, c.tripOn k = false → recordFailure c s k now = (none, s)) := by
  refine ⟨fun now => by simp [allow, hclosed], by simp [recordSuccess, hclosed],
    by simp [recordCancel, hclosed], fun k now h => by simp [recordFailure, hclosed, h]⟩

/-- … and conversely the only way out of CLOSED is a `record_failure` of a class in `trip_on`
that returns `circuit_opened` (any state, any clock); no other operation returns an opening
event on a CLOSED breaker. -/
theorem closed_left_only_by_counted_failure (c : Cfg) (s : St) (op : Op)
    (hclosed : s.state = .closed)
    (h : (mstep c s op).2.state ≠ .closed ∨ (mstep c s op).1 = .event (some .circuitOpened)) :
    ∃ k now, op = .failure k now ∧ c.tripOn k = true ∧
      (mstep c s op).1 = .event (some .circuitOpened) ∧ (mstep c s op).2.state = .opened ∧
      (mstep c s op).2.openedAt = some now := by
  cases op with
  | allow now => simp [mstep, allow, hclosed] at h
  | success => simp [mstep, recordSuccess, hclosed] at h
  | cancel => simp [mstep, recordCancel, hclosed] at h
  | failure k now =>
    refine ⟨k, now, rfl, ?_⟩
    by_cases htr : c.tripOn k = true
    · refine ⟨htr, ?_⟩
      simp only [mstep, recordFailure, hclosed, htr, if_true] at h ⊢
      by_cases hn : (noteFailure c s k now).1 = true
      · simp [hn, clear]
      · have hn' : (noteFailure c s k now).1 = false := by simpa using hn
        have hst : (noteFailure c s k now).2.state = .closed := by
          unfold noteFailure; cases c.classThreshold k with
          | none => simpa using hclosed
          | some th => simp only []; split <;> simpa using hclosed
        simp [hn', hst] at h
    · simp [mstep, recordFailure, hclosed, htr] at h

/-- successes while CLOSED change nothing — along a whole history: inserting `record_success`
(or `allow`, or `record_cancel`) operations into a stretch where the breaker is CLOSED does not
change the state reached. -/
theorem success_while_closed_is_noop (c : Cfg) (s : St) (hclosed : s.state = .closed)
    (H : List Op) :
    mrun c s (.success :: H) = (.event none :: (mrun c s H).1, (mrun c s H).2) := by
  simp [mrun, mstep, recordSuccess, hclosed]

/-! ## 4. `old_failures_do_not_count` -/

theorem inWindow_cons_old (w now x : Nat) (l : List Nat) (h : x + w ≤ now) :
    inWindow w now (x :: l) = inWindow w now l := by
  have : ¬ now < x + w := by omega
  simp [inWindow, this]

theorem inWindow_cons_recent (w now x : Nat) (l : List Nat) (h : now < x + w) :
    inWindow w now (x :: l) = inWindow w now l + 1 := by
  simp [inWindow, h]

/-- entries of age `≥ window` contribute nothing to the count -/
theorem inWindow_append_old (w now : Nat) (old recent : List Nat) (h : ∀ x ∈ old, x + w ≤ now) :
    inWindow w now (old ++ recent) = inWindow w now recent := by
  induction old with
  | nil => rfl
  | cons x xs ih =>
    rw [List.cons_append, inWindow_cons_old w now x _ (h x (by simp))]
    exact ih (fun y hy => h y (by simp [hy]))

/-- exact boundary: age == window is NOT counted, age == window − 1 is. -/
theorem inWindow_boundary (w x : Nat) (hw : 0 < w) :
    inWindow w (x + w) [x] = 0 ∧ inWindow w (x + w - 1) [x] = 1 := by
  constructor
  · simp [inWindow]
  · have : x + w - 1 < x + w := by omega
    simp [inWindow, this]

/-- **old_failures_do_not_count** — whether `record_failure(k)` at `now` opens a CLOSED breaker
depends only on the counted failures `x` with `now − x < window`: counted failures of age
`≥ window` can be deleted from (or added to) the history-defined lists without changing the
verdict.  (`opens_iff` with the count written as the length of the in-window sub-list.) -/
theorem old_failures_do_not_count (c : Cfg) (hw : 0 < c.window) (H : List Op) (k : EClass)
    (now : Nat) (hm : Mono (H ++ [.failure k now]))
    (hclosed : (mrun c .init H).2.state = .closed) :
    ((recordFailure c (mrun c .init H).2 k now).1 = some .circuitOpened ↔
      c.tripOn k = true ∧
      (c.failureThreshold ≤ ((counted c H).filter (fun x => decide (now < x + c.window))).length + 1 ∨
        ∃ th, c.classThreshold k = some th ∧
          th ≤ ((countedOfClass c H k).filter (fun x => decide (now < x + c.window))).length + 1)) := by
  rw [(opens_iff c hw H k now hm hclosed).1]
  simp only [specOpens, inWindow, List.countP_eq_length_filter, Bool.and_eq_true, Bool.or_eq_true,
    decide_eq_true_eq]
  cases c.classThreshold k <;> simp

/-- boundary, as executed by the model for *every* configuration and *every* instant `t`:
with `failure_threshold = 2` (no class threshold for `k`), a second counted failure exactly
`window` after the first does NOT open … -/
theorem age_eq_window_not_counted (c : Cfg) (hw : 0 < c.window) (k : EClass)
    (htr : c.tripOn k = true) (hth : c.classThreshold k = none) (hft : c.failureThreshold = 2)
    (t : Nat) :
    (mrun c .init [.failure k t, .failure k (t + c.window)]).1 = [.event none, .event none] ∧
    (mrun c .init [.failure k t, .failure k (t + c.window)]).2.state = .closed := by
  have hm : Mono [.failure k t, .failure k (t + c.window)] := by simp [Mono, MonoFrom, Op.time]
  have h := model_refines_spec c hw _ hm
  rw [h.1, h.2]
  simp [specOutputs, stateOf, absOf, srun, step, opensLog, Abs.init, htr, hth, hft, inWindow,
    times, Abs.mode]

/-- … and one tick earlier (age `window − 1`) it DOES open. -/
theorem age_lt_window_counted (c : Cfg) (hw : 0 < c.window) (k : EClass)
    (htr : c.tripOn k = true) (hth : c.classThreshold k = none) (hft : c.failureThreshold = 2)
    (t : Nat) :
    (mrun c .init [.failure k t, .failure k (t + c.window - 1)]).1 =
      [.event none, .event (some .circuitOpened)] ∧
    (mrun c .init [.failure k t, .failure k (t + c.window - 1)]).2 =
      St.openedAtTime (t + c.window - 1) := by
  have hm : Mono [.failure k t, .failure k (t + c.window - 1)] := by
    simp [Mono, MonoFrom, Op.time]; omega
  have h := model_refines_spec c hw _ hm
  have hlt : t + c.window - 1 < t + c.window := by omega
  have hout : specOutputs c [.failure k t, .failure k (t + c.window - 1)] =
      [.event none, .event (some .circuitOpened)] := by
    simp [specOutputs, srun, step, opensLog, Abs.init, htr, hth, hft, inWindow, times, hlt]
  refine ⟨by rw [h.1, hout], ?_⟩
  have hop := opens_iff c hw [.failure k t] k (t + c.window - 1) hm
    (by simp [mrun, mstep, recordFailure, St.init, htr, noteFailure, hth, hft, prune])
  have hso : specOpens c [.failure k t] k (t + c.window - 1) = true := by
    simp [specOpens, counted, absOf, srun, step, opensLog, Abs.init, htr, hth, hft,
      inWindow, times, hlt]
  have := hop.2.1 hso
  simpa [mrun, mstep] using this

example : (0 : Nat) < ({ exCfg with failureThreshold := 2 } : Cfg).window ∧
    ({ exCfg with failureThreshold := 2 } : Cfg).tripOn .transient = true ∧
    ({ exCfg with failureThreshold := 2 } : Cfg).classThreshold .transient = none ∧
    ({ exCfg with failureThreshold := 2 } : Cfg).failureThreshold = 2 := by decide


/-! ## 5. `pre_transition_failures_do_not_count` -/

/-- whatever the state, the operation that returns `circuit_closed` leaves a breaker that is
indistinguishable from a freshly constructed one -/
theorem state_after_close (c : Cfg) (s : St) (op : Op)
    (h : (mstep c s op).1 = .event (some .circuitClosed)) : (mstep c s op).2 = St.init := by
  cases op with
  | allow now => simp [mstep] at h
  | cancel => simp [mstep] at h
  | success =>
    cases hs : s.state <;> simp [mstep, recordSuccess, hs] at h ⊢
    simp [clear, St.init]
  | failure k now =>
    cases hs : s.state
    · simp only [mstep, recordFailure, hs] at h
      split at h
      · split at h <;> simp at h
      · simp at h
    · simp [mstep, recordFailure, hs] at h
    · simp [mstep, recordFailure, hs] at h

/-- in a reachable state, the operation that returns `circuit_opened` at `now` leaves the one
state `St.openedAtTime now` — nothing of the earlier history survives -/
theorem state_after_open (c : Cfg) (hw : 0 < c.window) (H : List Op) (op : Op)
    (hm : Mono (H ++ [op]))
    (h : (mstep c (mrun c .init H).2 op).1 = .event (some .circuitOpened)) :
    ∃ k now, op = .failure k now ∧ (mstep c (mrun c .init H).2 op).2 = St.openedAtTime now := by
  obtain ⟨hm1, hm2⟩ := (monoFrom_append 0 H _).mp hm
  have hinv := inv_holds c hw H hm1
  have hs := step_refines c hw _ _ _ op hinv (by
    intro t ht; simp only [MonoFrom, ht] at hm2; exact hm2.1)
  rw [hs.1] at h
  generalize (mstep c (mrun c St.init H).2 op).2 = s' at hs ⊢
  obtain ⟨-, hs⟩ := hs
  generalize absOf c H = a at hs h
  have fin : ∀ now, Inv c (op.time.getD (lastTime 0 H)) s' (.opened now) →
      s' = St.openedAtTime now := fun now hi =>
    St.ext_of_fields _ _ _ _ hi.1 hi.2.1 hi.2.2.1 hi.2.2.2.1 hi.2.2.2.2.1
  cases a with
  | closed log =>
    cases op with
    | failure k now =>
      refine ⟨k, now, rfl, ?_⟩
      simp only [step] at hs h
      by_cases ho : opensLog c log k now = true
      · simp only [ho, if_true] at hs; exact fin now hs
      · by_cases htr : c.tripOn k = true <;> simp [ho, htr] at h
    | _ => simp [step] at h
  | opened t0 =>
    cases op with
    | allow now => simp only [step] at h; split at h <;> simp at h
    | _ => simp [step] at h
  | halfOpen p =>
    cases op with
    | failure k now =>
      refine ⟨k, now, rfl, ?_⟩
      cases p <;> exact fin now (by simpa [step] using hs)
    | _ => cases p <;> simp [step] at h

/-- **pre_transition_failures_do_not_count** — failures recorded before the last transition never
contribute: after an operation that closed the circuit the breaker behaves, on *every*
continuation `H2`, exactly like a fresh breaker; after an operation that opened it at `now`,
exactly like `St.openedAtTime now`.  `H1` (with all its failures) has no influence. -/
theorem pre_transition_failures_do_not_count (c : Cfg) (hw : 0 < c.window)
    (H1 : List Op) (op : Op) (H2 : List Op) (hm : Mono (H1 ++ [op])) :
    ((mstep c (mrun c .init H1).2 op).1 = .event (some .circuitClosed) →
      mrun c .init (H1 ++ op :: H2) =
        ((mrun c .init (H1 ++ [op])).1 ++ (mrun c St.init H2).1, (mrun c St.init H2).2)) ∧
    ((mstep c (mrun c .init H1).2 op).1 = .event (some .circuitOpened) →
      ∃ k now, op = .failure k now ∧
      mrun c .init (H1 ++ op :: H2) =
        ((mrun c .init (H1 ++ [op])).1 ++ (mrun c (St.openedAtTime now) H2).1,
         (mrun c (St.openedAtTime now) H2).2)) := by
  have hsplit : H1 ++ op :: H2 = (H1 ++ [op]) ++ H2 := by simp
  have hlast : (mrun c St.init (H1 ++ [op])).2 = (mstep c (mrun c St.init H1).2 op).2 := by
    simp [mrun_append, mrun]
  constructor
  · intro h
    rw [hsplit, mrun_append, hlast, state_after_close c _ op h]
  · intro h
    obtain ⟨k, now, hop, hst⟩ := state_after_open c hw H1 op hm h
    exact ⟨k, now, hop, by rw [hsplit, mrun_append, hlast, hst]⟩

/-- The declarative reading of `counted`: over a stretch `H2` of history that starts right after
a transition to CLOSED (or at construction) and during which the breaker stays CLOSED, the
counted failures are exactly the `record_failure`s of `H2` whose class is in `trip_on` —
nothing recorded before that stretch. -/
theorem srun_closed_stretch (c : Cfg) (H2 : List Op) :
    ∀ log, (∀ P, P <+: H2 → ((srun c (.closed log) P).2).mode = .closed) →
      (srun c (.closed log) H2).2 = .closed (log ++ rawCounted c H2) := by
  induction H2 with
  | nil => intro log _; simp [srun, rawCounted]
  | cons op r ih =>
    intro log hP
    have h1 := hP [op] (by simp [List.prefix_cons_iff])
    have hstep : (step c (.closed log) op).2 = .closed (log ++ rawCounted c [op]) := by
      cases op with
      | failure k now =>
        simp only [srun, step] at h1 ⊢
        by_cases ho : opensLog c log k now = true
        · simp [ho, Abs.mode] at h1
        · by_cases htr : c.tripOn k = true <;> simp [ho, htr, rawCounted]
      | _ => simp [step, rawCounted]
    have := ih (log ++ rawCounted c [op]) (by
      intro P hPr
      have := hP (op :: P) (by simpa [List.prefix_cons_iff] using hPr)
      simpa [srun, hstep] using this)
    simp only [srun, hstep, this]
    have hr : rawCounted c (op :: r) = rawCounted c [op] ++ rawCounted c r := by
      show rawCounted c ([op] ++ r) = _
      unfold rawCounted; rw [List.filterMap_append]
    rw [hr, List.append_assoc]

theorem counted_eq_rawCounted (c : Cfg) (H1 H2 : List Op) (h1 : absOf c H1 = .closed [])
    (hstay : ∀ P, P <+: H2 → stateOf c (H1 ++ P) = .closed) :
    counted c (H1 ++ H2) = times (rawCounted c H2) ∧
    ∀ k, countedOfClass c (H1 ++ H2) k = timesOf k (rawCounted c H2) := by
  have h := srun_closed_stretch c H2 [] (by
    intro P hP
    have := hstay P hP
    simpa [stateOf, absOf, srun_append, ← h1] using this)
  have habs : absOf c (H1 ++ H2) = .closed (rawCounted c H2) := by
    have e : (srun c Abs.init H1).2 = .closed [] := h1
    simp [absOf, srun_append, e, h]
  simp [counted, countedOfClass, habs]

example : absOf exCfg [.failure .transient 1, .failure .transient 2, .failure .transient 3,
      .allow 8, .success] = .closed [] ∧
    counted exCfg ([.failure .transient 1, .failure .transient 2, .failure .transient 3,
      .allow 8, .success] ++ [.failure .auth 9, .failure .transient 9, .allow 9]) = [9] := by
  decide


/-! ## Non-vacuity of the hypotheses `0 < c.window`, `Mono H` and a look at the monitor -/

def exHist : List Op :=
  [.allow 0, .failure .transient 1, .failure .auth 2, .success,
   .failure .transient 11, .failure .rateLimit 11, .failure .transient 12, .allow 13, .allow 17,
   .allow 17, .cancel, .allow 18, .failure .unknown 20, .allow 25, .success, .failure .rateLimit 26,
   .failure .rateLimit 36, .failure .rateLimit 45]

example : 0 < exCfg.window ∧ Mono exHist := by decide

/-- the example history visits all three states, opens through the global and through the class
threshold, and exercises the boundary age == window (t = 1 → 11 and 26 → 36) -/
example : specOutputs exCfg exHist =
    [.decision true .closed none, .event none, .event none, .event none,
     .event none, .event none, .event (some .circuitOpened),
     .decision false .opened (some .circuitRejected),
     .decision true .halfOpen (some .circuitHalfOpen),
     .decision false .halfOpen (some .circuitRejected), .event none,
     .decision true .halfOpen none, .event (some .circuitOpened),
     .decision true .halfOpen (some .circuitHalfOpen), .event (some .circuitClosed),
     .event none, .event none, .event (some .circuitOpened)] := by decide

example : historyOk exCfg (mrecs exCfg .init exHist) = .ok := by decide

/-- the monitor has teeth: flipping one returned event is reported with predicate and index -/
example : historyOk exCfg
    [⟨.failure .transient 1, .event (some .circuitOpened), (St.openedAtTime 1).obs⟩] =
    .bad "C06.opens_iff" 0 "output expected[event=-] got[event=circuit_opened]" := by decide

end Redress.Breaker
