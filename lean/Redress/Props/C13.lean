/-
  C13 — Abort and cancellation stop work immediately and are never retried.

  Theorems are about `Mon.C13.ok`, the monitor the driver also evaluates on implementation traces:
  for EVERY configuration, EVERY answer stream and every entry point the monitor accepts the model's
  run.
-/
import Redress.Lemmas.Footprint
import Redress.Monitors

open Std.Do

set_option linter.unusedSimpArgs false

namespace Redress.Props.C13
open Redress Redress.Retry Redress.Mon Redress.Mon.C13

/-- the monitor state as a function of the world's (newest-first) log -/
def cur (cfg : Cfg) (tr : List (Req × Ans)) : St := tr.foldr (fun x s => step cfg s x) {}

@[simp] theorem cur_cons (cfg : Cfg) (x : Req × Ans) (t : List (Req × Ans)) :
    cur cfg (x :: t) = step cfg (cur cfg t) x := rfl

theorem run_reverse (cfg : Cfg) (t : List (Req × Ans)) : run cfg t.reverse = cur cfg t := by
  simp [run, cur, List.foldl_reverse]

/-- requests that never move the C13 monitor while no cancellation has been seen -/
def inertK : Kind → Bool
  | .abortIf | .op | .sleeper => false
  | _ => true

/-- breaker bookkeeping: never moves the monitor, not even after a cancellation -/
def brkK : Kind → Bool
  | .breakerSuccess | .breakerFailure | .breakerCancel => true
  | _ => false

theorem step_inert (cfg : Cfg) (s : St) (x : Req × Ans) (h : inertK x.1.kind = true)
    (hc : s.cancelled = none) : step cfg s x = s := by
  obtain ⟨r, a⟩ := x
  cases r <;> simp_all [inertK, Req.kind, step]

theorem step_inert_cancelled (cfg : Cfg) (s : St) (x : Req × Ans) (h : inertK x.1.kind = true) :
    (step cfg s x).cancelled = s.cancelled := by
  obtain ⟨r, a⟩ := x
  cases r <;> simp_all [inertK, Req.kind, step] <;> (split <;> simp_all)

theorem step_brk (cfg : Cfg) (s : St) (x : Req × Ans) (h : brkK x.1.kind = true) :
    step cfg s x = s := by
  obtain ⟨r, a⟩ := x
  cases r <;> simp_all [brkK, Req.kind, step] <;> (split <;> simp_all)

theorem cur_append_brk (cfg : Cfg) (δ t : List (Req × Ans)) (h : ∀ x ∈ δ, brkK x.1.kind = true) :
    cur cfg (δ ++ t) = cur cfg t := by
  induction δ with
  | nil => rfl
  | cons x δ ih =>
    have hx := h x (by simp)
    have := ih (fun y hy => h y (by simp [hy]))
    simp [step_brk _ _ _ hx, this]

theorem cur_append_inert (cfg : Cfg) (δ t : List (Req × Ans)) (h : ∀ x ∈ δ, inertK x.1.kind = true)
    (hc : (cur cfg t).cancelled = none) : cur cfg (δ ++ t) = cur cfg t := by
  induction δ with
  | nil => rfl
  | cons x δ ih =>
    have hx := h x (by simp)
    have := ih (fun y hy => h y (by simp [hy]))
    simp only [List.cons_append, cur_cons, this]
    exact step_inert _ _ _ hx hc

theorem cur_append_inert_cancelled (cfg : Cfg) (δ t : List (Req × Ans))
    (h : ∀ x ∈ δ, inertK x.1.kind = true) :
    (cur cfg (δ ++ t)).cancelled = (cur cfg t).cancelled := by
  induction δ with
  | nil => rfl
  | cons x δ ih =>
    have hx := h x (by simp)
    have := ih (fun y hy => h y (by simp [hy]))
    simp only [List.cons_append, cur_cons]
    rw [step_inert_cancelled _ _ _ hx, this]

/-- What the C13 argument looks at: the monitor state while no cancellation has been seen
    (after one, the retry level does nothing any more, so nothing needs to be known). -/
def viewOf (m : St) : Option St :=
  match m.cancelled with
  | none => some m
  | some _ => none

def view (cfg : Cfg) (w : World) : Option St := viewOf (cur cfg w.trace)

theorem viewOf_eq_some {m m' : St} : viewOf m = some m' ↔ m = m' ∧ m.cancelled = none := by
  unfold viewOf
  split <;> simp_all

theorem view_foot (cfg : Cfg) (w w' : World) (h : Foot inertK w w') : view cfg w' = view cfg w := by
  obtain ⟨δ, e, k⟩ := h.trace
  unfold view
  rw [e]
  cases hc : (cur cfg w.trace).cancelled with
  | none => rw [cur_append_inert cfg δ _ k hc]
  | some c =>
    have := cur_append_inert_cancelled cfg δ w.trace k
    simp [viewOf, hc, this]

/-- `emit` leaves the retry state alone -/
theorem emit_rs (P : RState → Prop) (cfg : Cfg) (tl : Bool) (ev : Event) (a s : Nat) (k : Option EClass)
    (e : Option Exn) (st : Option StopReason) (c : Option Cause) (cl : Option Classification) :
    ⦃fun w => ⌜P w.rs⌝⦄ emit cfg tl ev a s k e st c cl
    ⦃post⟨fun _ w => ⌜P w.rs⌝, fun _ w => ⌜P w.rs⌝⟩⦄ := by
  mvcgen [emit, metricHook, recordTimeline, swallowException, askMetric, askLog, ask]
  all_goals (subst_vars; simp_all)

/-- `_abort_outcome` reports ABORTED -/
theorem abortOutcome_stop (cfg : Cfg) (tl : Bool) (a : Nat) :
    ⦃fun _ => ⌜True⌝⦄ abortOutcome cfg tl a
    ⦃post⟨fun o _ => ⌜o.stop = some .aborted⌝, fun _ _ => ⌜True⌝⟩⦄ := by
  have h := emit_rs (fun r => r.lastStop = some .aborted) cfg tl
  mvcgen [abortOutcome, emitAbortedOnce, buildOutcome, getRS, elapsed, setStop, modifyRS, h]
  all_goals (subst_vars; simp_all)

/-! ### where an escaping exception comes from -/

/-- `e` was raised by a logged exchange other than an invocation of the operation -/
def Raised (tr : List (Req × Ans)) (e : Exn) : Prop :=
  ∃ x ∈ tr, isOp x.1 = false ∧ ∃ d, x.2 = Ans.raise e d

theorem Raised.mono {t : List (Req × Ans)} {e : Exn} (δ : List (Req × Ans)) (h : Raised t e) :
    Raised (δ ++ t) e := by
  obtain ⟨x, hx, h1, h2⟩ := h
  exact ⟨x, by simp [hx], h1, h2⟩

theorem raisedBy_iff (t : List (Req × Ans)) (e : Exn) :
    Mon.raisedBy (fun r => !isOp r) t e = true ↔ Raised t e := by
  unfold Mon.raisedBy Raised
  simp only [List.any_eq_true, Bool.and_eq_true, Bool.not_eq_true']
  constructor
  · rintro ⟨x, hx, h1, h2⟩
    refine ⟨x, hx, h1, ?_⟩
    split at h2
    · rename_i e' d heq
      exact ⟨d, by simp_all⟩
    · cases h2
  · rintro ⟨x, hx, h1, d, h2⟩
    exact ⟨x, hx, h1, by simp [h2]⟩

/-- postcondition "whatever escapes was raised by a callback other than the operation" -/
abbrev orgPost : PostCond α (.except Exn (.arg World .pure)) :=
  post⟨fun _ _ => ⌜True⌝, fun e w => ⌜Raised w.trace e⌝⟩

theorem ask_org (r : Req) (hr : isOp r = false) : ⦃fun _ => ⌜True⌝⦄ ask r ⦃orgPost⦄ := by
  mvcgen [ask]
  all_goals (intros; exact ⟨_, List.mem_cons_self, hr, _, rfl⟩)

section origin
attribute [local spec] ask_org

macro "org_close" : tactic => `(tactic| all_goals (
  (try subst_vars) <;> (try intros) <;>
  first
    | rfl
    | assumption
    | trivial
    | (simp_all; done)
    | skip))

theorem askMetric_org (ev : Event) (a s : Nat) (t : Tags) :
    ⦃fun _ => ⌜True⌝⦄ askMetric ev a s t ⦃orgPost⦄ := by
  mvcgen [askMetric]
  org_close

theorem askLog_org (ev : Event) (a s : Nat) (t : Tags) (ra : Option Int) :
    ⦃fun _ => ⌜True⌝⦄ askLog ev a s t ra ⦃orgPost⦄ := by
  mvcgen [askLog]
  org_close

attribute [local spec] askMetric_org askLog_org

/-- what escapes `emit` is not an `Exception` and was raised by a hook -/
abbrev emitPost : PostCond α (.except Exn (.arg World .pure)) :=
  post⟨fun _ _ => ⌜True⌝, fun e w => ⌜e.isException = false ∧ Raised w.trace e⌝⟩

theorem emit_org (cfg : Cfg) (tl : Bool) (ev : Event) (a s : Nat) (k : Option EClass) (e : Option Exn)
    (st : Option StopReason) (c : Option Cause) (cl : Option Classification) :
    ⦃fun _ => ⌜True⌝⦄ emit cfg tl ev a s k e st c cl ⦃emitPost⦄ := by
  mvcgen [emit, metricHook, recordTimeline, swallowException]
  org_close

theorem setStop_org (s : StopReason) : ⦃fun _ => ⌜True⌝⦄ setStop s ⦃emitPost⦄ := by
  mvcgen [setStop, modifyRS]

attribute [local spec] emit_org setStop_org

theorem emitAbortedOnce_org (cfg : Cfg) (tl : Bool) (a : Nat) :
    ⦃fun _ => ⌜True⌝⦄ emitAbortedOnce cfg tl a ⦃emitPost⦄ := by
  mvcgen [emitAbortedOnce, getRS]
  org_close

theorem callAttemptEnd_org (cfg : Cfg) (attempt : Nat) (cls : Option Classification) (exc : Option Exn)
    (result : Option Nat) (d : AttemptDecision) (stop : Option StopReason) (cause : Option Cause)
    (sleep : Option Nat) :
    ⦃fun _ => ⌜True⌝⦄ callAttemptEnd cfg attempt cls exc result d stop cause sleep ⦃orgPost⦄ := by
  mvcgen [callAttemptEnd, elapsed]
  org_close

attribute [local spec] emitAbortedOnce_org callAttemptEnd_org

theorem handleAbortAttemptEnd_org (cfg : Cfg) (a : Nat) (e : Exn) :
    ⦃fun _ => ⌜True⌝⦄ handleAbortAttemptEnd cfg a e ⦃orgPost⦄ := by
  mvcgen [handleAbortAttemptEnd, getAS, modifyAS]
  org_close

theorem abortOutcome_org (cfg : Cfg) (tl : Bool) (a : Nat) :
    ⦃fun _ => ⌜True⌝⦄ abortOutcome cfg tl a ⦃emitPost⦄ := by
  mvcgen [abortOutcome, buildOutcome, getRS, elapsed]
  org_close

/-! #### policy level -/
open Policy

/-- whatever escapes is `.stuck` (model-only) or was raised by a callback other than the operation -/
abbrev orgPostS : PostCond α (.except Exn (.arg World .pure)) :=
  post⟨fun _ _ => ⌜True⌝, fun e w => ⌜e = .stuck ∨ Raised w.trace e⌝⟩

abbrev neverPost : PostCond α (.except Exn (.arg World .pure)) :=
  post⟨fun _ _ => ⌜True⌝, fun _ _ => ⌜False⌝⟩

theorem emitBreakerEvent_org (cfg : Cfg) (ev : Option Event) (st : CState) (k : Option EClass) :
    ⦃fun _ => ⌜True⌝⦄ emitBreakerEvent cfg ev st k ⦃orgPostS⦄ := by
  mvcgen [emitBreakerEvent, swallowException]
  org_close

attribute [local spec] emitBreakerEvent_org

theorem recordSuccess_org (cfg : Cfg) : ⦃fun _ => ⌜True⌝⦄ Policy.recordSuccess cfg ⦃orgPostS⦄ := by
  mvcgen [Policy.recordSuccess]
  org_close

theorem recordFailure_org (cfg : Cfg) (k : EClass) :
    ⦃fun _ => ⌜True⌝⦄ Policy.recordFailure cfg k ⦃orgPostS⦄ := by
  mvcgen [Policy.recordFailure]
  org_close

theorem recordCancel_never (cfg : Cfg) : ⦃fun _ => ⌜True⌝⦄ Policy.recordCancel cfg ⦃neverPost⦄ := by
  mvcgen [Policy.recordCancel]

attribute [local spec] recordSuccess_org recordFailure_org recordCancel_never

theorem ensureSettled_never (cfg : Cfg) : ⦃fun _ => ⌜True⌝⦄ ensureSettled cfg ⦃neverPost⦄ := by
  mvcgen [ensureSettled]

theorem handleExhaustedCall_org (cfg : Cfg) (e : Exn) :
    ⦃fun _ => ⌜True⌝⦄ handleExhaustedCall cfg e ⦃orgPostS⦄ := by
  mvcgen [handleExhaustedCall]
  org_close

theorem callClassifier_org (e : Exn) : ⦃fun _ => ⌜True⌝⦄ callClassifier e ⦃orgPostS⦄ := by
  mvcgen [callClassifier]
  org_close

attribute [local spec] callClassifier_org

theorem noRetryEndHook_org (cfg : Cfg) (exc : Option Exn) (r : Option Nat) (d : AttemptDecision)
    (stop : Option StopReason) (cause : Option Cause) :
    ⦃fun _ => ⌜True⌝⦄ noRetryEndHook cfg exc r d stop cause ⦃orgPostS⦄ := by
  mvcgen [noRetryEndHook, xElapsed]
  org_close

attribute [local spec] noRetryEndHook_org

theorem handleExceptionCall_org (cfg : Cfg) (e : Exn) (b : Bool) :
    ⦃fun _ => ⌜True⌝⦄ handleExceptionCall cfg e b ⦃orgPostS⦄ := by
  mvcgen [handleExceptionCall, classifyForBreaker]
  org_close

theorem handleAbortCall_org (cfg : Cfg) (e : Exn) :
    ⦃fun _ => ⌜True⌝⦄ handleAbortCall cfg e ⦃orgPostS⦄ := by
  mvcgen [handleAbortCall]
  org_close


end origin

/-- combine a footprint lemma with an origin lemma -/
theorem leaf_of {α : Type} {x : M α} {O : Exn → World → Prop} (cfg : Cfg)
    (hx : ∀ w0, ⦃fun w => ⌜Foot inertK w0 w⌝⦄ x ⦃footPost inertK w0⦄)
    (ho : ⦃fun _ => ⌜True⌝⦄ x ⦃post⟨fun _ _ => ⌜True⌝, fun e w => ⌜O e w⌝⟩⦄) (v : Option St) :
    ⦃fun w => ⌜view cfg w = v⌝⦄ x
    ⦃post⟨fun _ w => ⌜view cfg w = v⌝, fun e w => ⌜view cfg w = v ∧ O e w⌝⟩⦄ := by
  apply triple_of_run
  intro w hw
  have h1 := adequacy (hx w) w (Foot.refl _ w)
  have h2 := adequacy ho w trivial
  split <;> simp_all <;> (rw [← hw]; exact view_foot cfg _ _ h1)

/-- "the view is `v`" on both exits -/
abbrev same (cfg : Cfg) (v : Option St) : PostCond α (.except Exn (.arg World .pure)) :=
  post⟨fun _ w => ⌜view cfg w = v⌝, fun _ w => ⌜view cfg w = v⌝⟩

/-- "the view is `v`" on both exits, and what escapes is no `Exception` and comes from a hook -/
abbrev sameE (cfg : Cfg) (v : Option St) : PostCond α (.except Exn (.arg World .pure)) :=
  post⟨fun _ w => ⌜view cfg w = v⌝,
       fun e w => ⌜view cfg w = v ∧ e.isException = false ∧ Raised w.trace e⌝⟩

/-- "the view is `v`" on both exits, and what escapes comes from a hook -/
abbrev sameR (cfg : Cfg) (v : Option St) : PostCond α (.except Exn (.arg World .pure)) :=
  post⟨fun _ w => ⌜view cfg w = v⌝, fun e w => ⌜view cfg w = v ∧ Raised w.trace e⌝⟩

/-! ### leaf procedures never move the view -/
section leaves
variable (v : Option St) (cfg : Cfg) (tl : Bool)

theorem emit_v (ev : Event) (a s : Nat) (k : Option EClass) (e : Option Exn) (st : Option StopReason)
    (c : Option Cause) (cl : Option Classification) :
    ⦃fun w => ⌜view cfg w = v⌝⦄ emit cfg tl ev a s k e st c cl ⦃sameE cfg v⦄ :=
  leaf_of cfg (fun w0 => emit_foot inertK w0 rfl rfl cfg tl ev a s k e st c cl)
    (emit_org cfg tl ev a s k e st c cl) v

theorem setStop_v (s : StopReason) :
    ⦃fun w => ⌜view cfg w = v⌝⦄ setStop s
    ⦃post⟨fun _ w => ⌜view cfg w = v⌝, fun _ _ => ⌜False⌝⟩⦄ := by
  mvcgen [setStop, modifyRS]
  all_goals (subst_vars; simp_all [view])

theorem recordStrategySuccess_v : ⦃fun w => ⌜view cfg w = v⌝⦄ recordStrategySuccess cfg ⦃same cfg v⦄ :=
  view_of_foot (view cfg) (fun w0 => recordStrategySuccess_foot inertK w0 rfl cfg) (view_foot cfg) v

theorem stratRecordFailure_v (key : SKey) (k : EClass) :
    ⦃fun w => ⌜view cfg w = v⌝⦄ stratRecordFailure cfg key k ⦃same cfg v⦄ :=
  view_of_foot (view cfg) (fun w0 => stratRecordFailure_foot inertK w0 rfl cfg key k) (view_foot cfg) v

theorem callStrategy_v (key : SKey) (kind : SKind) (ctx : BackoffCtx) :
    ⦃fun w => ⌜view cfg w = v⌝⦄ callStrategy key kind ctx ⦃same cfg v⦄ :=
  view_of_foot (view cfg) (fun w0 => callStrategy_foot inertK w0 rfl key kind ctx) (view_foot cfg) v

theorem callClassifier_v (e : Exn) : ⦃fun w => ⌜view cfg w = v⌝⦄ callClassifier e ⦃same cfg v⦄ :=
  view_of_foot (view cfg) (fun w0 => callClassifier_foot inertK w0 rfl e) (view_foot cfg) v

theorem shouldClassifyResult_v (x : Nat) :
    ⦃fun w => ⌜view cfg w = v⌝⦄ shouldClassifyResult cfg x ⦃same cfg v⦄ :=
  view_of_foot (view cfg) (fun w0 => shouldClassifyResult_foot inertK w0 rfl cfg x) (view_foot cfg) v

theorem callAttemptStart_v (a : Nat) : ⦃fun w => ⌜view cfg w = v⌝⦄ callAttemptStart cfg a ⦃same cfg v⦄ :=
  view_of_foot (view cfg) (fun w0 => callAttemptStart_foot inertK w0 rfl cfg a) (view_foot cfg) v

theorem callAttemptEndFromOutcome_v (a : Nat) (o : AOutcome) :
    ⦃fun w => ⌜view cfg w = v⌝⦄ callAttemptEndFromOutcome cfg a o ⦃same cfg v⦄ :=
  view_of_foot (view cfg) (fun w0 => callAttemptEndFromOutcome_foot inertK w0 rfl cfg a o) (view_foot cfg) v

theorem callBeforeSleep_v (ctx : BackoffCtx) (s : Nat) :
    ⦃fun w => ⌜view cfg w = v⌝⦄ callBeforeSleep cfg ctx s ⦃same cfg v⦄ :=
  view_of_foot (view cfg) (fun w0 => callBeforeSleep_foot inertK w0 rfl cfg ctx s) (view_foot cfg) v

theorem callSleepHandler_v (lvl : Lvl) (ctx : BackoffCtx) (s : Nat) :
    ⦃fun w => ⌜view cfg w = v⌝⦄ callSleepHandler lvl ctx s ⦃same cfg v⦄ :=
  view_of_foot (view cfg) (fun w0 => callSleepHandler_foot inertK w0 rfl lvl ctx s) (view_foot cfg) v

theorem buildOutcome_v (ok : Bool) (value : Option Nat) (n : Nat) (ns : Option Nat) :
    ⦃fun w => ⌜view cfg w = v⌝⦄ buildOutcome ok value n ns ⦃same cfg v⦄ :=
  view_of_foot (view cfg) (fun w0 => buildOutcome_foot inertK w0 ok value n ns) (view_foot cfg) v

theorem emitAbortedOnce_v (a : Nat) :
    ⦃fun w => ⌜view cfg w = v⌝⦄ emitAbortedOnce cfg tl a ⦃sameE cfg v⦄ :=
  leaf_of cfg (fun w0 => emitAbortedOnce_foot inertK w0 rfl rfl cfg tl a) (emitAbortedOnce_org cfg tl a) v

theorem handleSleepDecision_v (act : SleepDecision) (a s : Nat) :
    ⦃fun w => ⌜view cfg w = v⌝⦄ handleSleepDecision cfg tl act a s
    ⦃post⟨fun r w => ⌜(r = act ∧ act ≠ .other) ∧ view cfg w = v⌝, fun _ w => ⌜view cfg w = v⌝⟩⦄ :=
  view_of_foot' (view cfg) (fun w0 => handleSleepDecision_foot inertK w0 rfl rfl cfg tl act a s)
    (view_foot cfg) v

theorem handleSuccessAttemptEnd_v (a x : Nat) :
    ⦃fun w => ⌜view cfg w = v⌝⦄ handleSuccessAttemptEnd cfg tl a x ⦃same cfg v⦄ :=
  view_of_foot (view cfg) (fun w0 => handleSuccessAttemptEnd_foot inertK w0 rfl rfl rfl rfl cfg tl a x)
    (view_foot cfg) v

theorem handleAbortAttemptEnd_v (a : Nat) (e : Exn) :
    ⦃fun w => ⌜view cfg w = v⌝⦄ handleAbortAttemptEnd cfg a e ⦃sameR cfg v⦄ :=
  leaf_of cfg (fun w0 => handleAbortAttemptEnd_foot inertK w0 rfl cfg a e)
    (handleAbortAttemptEnd_org cfg a e) v

theorem raiseExhaustedCall_v : ⦃fun w => ⌜view cfg w = v⌝⦄ raiseExhaustedCall cfg ⦃same cfg v⦄ :=
  view_of_foot (view cfg) (fun w0 => raiseExhaustedCall_foot inertK w0 rfl rfl cfg) (view_foot cfg) v

theorem buildExhaustedOutcome_v : ⦃fun w => ⌜view cfg w = v⌝⦄ buildExhaustedOutcome cfg tl ⦃same cfg v⦄ :=
  view_of_foot (view cfg) (fun w0 => buildExhaustedOutcome_foot inertK w0 rfl rfl cfg tl) (view_foot cfg) v

theorem deliverCall_v (act : Action) (orig : Option Exn) (fb : ExhaustedFields) :
    ⦃fun w => ⌜view cfg w = v⌝⦄ deliverCall act orig fb
    ⦃post⟨fun r w => ⌜(r = none ∧ act = .continue_) ∧ view cfg w = v⌝, fun _ w => ⌜view cfg w = v⌝⟩⦄ :=
  view_of_foot' (view cfg) (fun w0 => deliverCall_foot inertK w0 act orig fb) (view_foot cfg) v

end leaves

theorem triple_and {α : Type} {x : M α} {Q1 Q2 : α → World → Prop} {E1 E2 : Exn → World → Prop}
    (h1 : ⦃fun _ => ⌜True⌝⦄ x ⦃post⟨fun a w => ⌜Q1 a w⌝, fun e w => ⌜E1 e w⌝⟩⦄)
    (h2 : ⦃fun _ => ⌜True⌝⦄ x ⦃post⟨fun a w => ⌜Q2 a w⌝, fun e w => ⌜E2 e w⌝⟩⦄) :
    ⦃fun _ => ⌜True⌝⦄ x ⦃post⟨fun a w => ⌜Q1 a w ∧ Q2 a w⌝, fun e w => ⌜E1 e w ∧ E2 e w⌝⟩⦄ := by
  apply triple_of_run
  intro w _
  have a1 := adequacy h1 w trivial
  have a2 := adequacy h2 w trivial
  split <;> simp_all

/-- like `leaf_of`, keeping a fact about the returned value -/
theorem leaf_of' {α : Type} {x : M α} {R : α → Prop} {O : Exn → World → Prop} (cfg : Cfg)
    (hx : ∀ w0, ⦃fun w => ⌜Foot inertK w0 w⌝⦄ x ⦃footPost inertK w0⦄)
    (ho : ⦃fun _ => ⌜True⌝⦄ x ⦃post⟨fun a _ => ⌜R a⌝, fun e w => ⌜O e w⌝⟩⦄) (v : Option St) :
    ⦃fun w => ⌜view cfg w = v⌝⦄ x
    ⦃post⟨fun a w => ⌜R a ∧ view cfg w = v⌝, fun e w => ⌜view cfg w = v ∧ O e w⌝⟩⦄ := by
  apply triple_of_run
  intro w hw
  have h1 := adequacy (hx w) w (Foot.refl _ w)
  have h2 := adequacy ho w trivial
  split <;> simp_all <;> (rw [← hw]; exact view_foot cfg _ _ h1)

theorem abortOutcome_v (v : Option St) (cfg : Cfg) (tl : Bool) (a : Nat) :
    ⦃fun w => ⌜view cfg w = v⌝⦄ abortOutcome cfg tl a
    ⦃post⟨fun o w => ⌜o.stop = some .aborted ∧ view cfg w = v⌝,
          fun e w => ⌜view cfg w = v ∧ e.isException = false ∧ Raised w.trace e⌝⟩⦄ := by
  have h := leaf_of' (R := fun o => o.stop = some .aborted ∧ True) cfg
    (fun w0 => abortOutcome_foot inertK w0 rfl rfl cfg tl a)
    (triple_and (abortOutcome_stop cfg tl a) (abortOutcome_org cfg tl a)) v
  simpa using h

theorem deliverExecute_v (v : Option St) (cfg : Cfg) (tl : Bool) (act : Action) (o : AOutcome) :
    ⦃fun w => ⌜view cfg w = v⌝⦄ deliverExecute cfg tl act o
    ⦃post⟨fun r w => ⌜(r = none → act = .continue_) ∧ view cfg w = v⌝, fun _ w => ⌜view cfg w = v⌝⟩⦄ :=
  view_of_foot' (view cfg) (fun w0 => deliverExecute_foot inertK w0 rfl rfl cfg tl act o) (view_foot cfg) v

attribute [local spec] emit_v setStop_v recordStrategySuccess_v stratRecordFailure_v callStrategy_v
  callClassifier_v shouldClassifyResult_v callAttemptStart_v callAttemptEndFromOutcome_v callBeforeSleep_v
  callSleepHandler_v buildOutcome_v emitAbortedOnce_v handleSleepDecision_v handleSuccessAttemptEnd_v
  handleAbortAttemptEnd_v raiseExhaustedCall_v buildExhaustedOutcome_v deliverCall_v abortOutcome_v
  deliverExecute_v

/-! ### the phases of a run, as the monitor sees them -/

/-- nothing has been aborted or cancelled, nothing is wrong -/
structure Live (m : St) : Prop where
  aborted : m.aborted = false
  cancelled : m.cancelled = none
  bad : m.bad = false

/-- …and the abort predicate has been polled since the last attempt / sleep -/
structure Ready (cfg : Cfg) (m : St) : Prop extends Live m where
  polled : cfg.abortIf = true → m.polled = true

/-- an escaping exception is an abort, or comes from a callback other than the operation
    (`.stuck`: model-only, ill-shaped answer stream) -/
def Org (e : Exn) (w : World) : Prop := e.isAbort = true ∨ e = .stuck ∨ Raised w.trace e

/-- what the verdict asks of a run that ends by raising `e` -/
structure Fin (cfg : Cfg) (e : Exn) (w : World) : Prop where
  bad : (cur cfg w.trace).bad = false
  canc : ∀ c, (cur cfg w.trace).cancelled = some c → e = c ∧ c.isCancelKind = true
  abt : (cur cfg w.trace).aborted = true → (cur cfg w.trace).cancelled = none → Org e w

/-- …and, inside an attempt: after an abort only an abort or a non-`Exception` is in flight -/
structure FinS (cfg : Cfg) (e : Exn) (w : World) : Prop extends Fin cfg e w where
  strong : (cur cfg w.trace).aborted = true → (cur cfg w.trace).cancelled = none →
    e.isAbort = true ∨ e.isException = false

theorem view_eq_some {cfg : Cfg} {w : World} {m : St} :
    view cfg w = some m ↔ cur cfg w.trace = m ∧ m.cancelled = none := by
  unfold view
  rw [viewOf_eq_some]
  constructor
  · rintro ⟨h1, h2⟩; exact ⟨h1, h1 ▸ h2⟩
  · rintro ⟨h1, h2⟩; exact ⟨h1, h1 ▸ h2⟩

theorem finS_of_live {cfg : Cfg} {w : World} {m : St} (e : Exn) (hv : view cfg w = some m)
    (hm : Live m) : FinS cfg e w := by
  obtain ⟨h1, h2⟩ := view_eq_some.mp hv
  refine ⟨⟨by rw [h1]; exact hm.bad, ?_, ?_⟩, ?_⟩ <;> (rw [h1]; simp [hm.aborted, hm.cancelled])

/-- the monitor after a poll that answered "go on" -/
def pollOk (cfg : Cfg) (m : St) : St := if cfg.abortIf then { m with polled := true } else m

theorem finS_of_view {cfg : Cfg} {w : World} {m : St} {e : Exn} (hv : view cfg w = some m)
    (hb : m.bad = false)
    (ha : m.aborted = true → e.isAbort = true ∨ (e.isException = false ∧ Raised w.trace e)) :
    FinS cfg e w := by
  obtain ⟨h1, h2⟩ := view_eq_some.mp hv
  refine ⟨⟨by rw [h1]; exact hb, by rw [h1, h2]; simp, ?_⟩, ?_⟩
  · rw [h1]; intro h _
    rcases ha h with h | h
    · exact Or.inl h
    · exact Or.inr (Or.inr h.2)
  · rw [h1]; intro h _
    rcases ha h with h | h
    · exact Or.inl h
    · exact Or.inr h.1

theorem step_dur (cfg : Cfg) (m : St) (r : Req) (e : Exn) (d : Nat) :
    step cfg m (r, .raise e d) = step cfg m (r, .raise e 0) := by
  cases r <;> simp [step]

/-- one exchange, as the monitor sees it -/
theorem ask_cur (cfg : Cfg) (r : Req) (m : St) :
    ⦃fun w => ⌜cur cfg w.trace = m⌝⦄ ask r
    ⦃post⟨fun a w => ⌜cur cfg w.trace = step cfg m (r, a) ∧ ∀ e d, ¬ a = Ans.raise e d⌝,
          fun e w => ⌜cur cfg w.trace = step cfg m (r, .raise e 0) ∧ (isOp r = false → Raised w.trace e)⌝⟩⦄ := by
  mvcgen [ask]
  all_goals (subst_vars; simp_all [step_dur cfg _ r _ _])
  all_goals (intro hr; exact ⟨_, List.mem_cons_self, hr, _, rfl⟩)

theorem finS_iff {cfg : Cfg} {e : Exn} {w : World} : FinS cfg e w ↔
    (cur cfg w.trace).bad = false ∧
    (∀ c, (cur cfg w.trace).cancelled = some c → e = c ∧ c.isCancelKind = true) ∧
    ((cur cfg w.trace).aborted = true → (cur cfg w.trace).cancelled = none → Org e w) ∧
    ((cur cfg w.trace).aborted = true → (cur cfg w.trace).cancelled = none →
      e.isAbort = true ∨ e.isException = false) :=
  ⟨fun h => ⟨h.bad, h.canc, h.abt, h.strong⟩, fun h => ⟨⟨h.1, h.2.1, h.2.2.1⟩, h.2.2.2⟩⟩

theorem fin_iff {cfg : Cfg} {e : Exn} {w : World} : Fin cfg e w ↔
    (cur cfg w.trace).bad = false ∧
    (∀ c, (cur cfg w.trace).cancelled = some c → e = c ∧ c.isCancelKind = true) ∧
    ((cur cfg w.trace).aborted = true → (cur cfg w.trace).cancelled = none → Org e w) :=
  ⟨fun h => ⟨h.bad, h.canc, h.abt⟩, fun h => ⟨h.1, h.2.1, h.2.2⟩⟩

theorem viewOf_of_none {m : St} (h : m.cancelled = none) : viewOf m = some m := by
  simp [viewOf, h]

/-- the poll answered True -/
def saysAbort : Ans → Bool
  | .bool true _ => true
  | _ => false

theorem step_abortIf (cfg : Cfg) (m : St) (a : Ans) (hc : m.cancelled = none) :
    step cfg m (.abortIf, a) = { m with polled := true, aborted := m.aborted || saysAbort a } := by
  cases a <;> simp [step, hc, saysAbort]
  rename_i b _
  cases b <;> simp

theorem saysAbort_false (a : Ans) (h : ∀ d, a = Ans.bool true d → False) : saysAbort a = false := by
  cases a <;> simp_all [saysAbort]

/-- the monitor after an attempt or a sleep that was preceded by a poll -/
def afterOp (m : St) : St := { m with polled := false }

def abortedOp (m : St) : St := { m with polled := false, aborted := true }

def cancelledOp (m : St) (e : Exn) : St := { m with polled := false, cancelled := some e }

theorem step_op_ok (cfg : Cfg) (m : St) (a : Ans) (hm : Ready cfg m)
    (ha : ∀ e d, ¬ a = Ans.raise e d) (n : Nat) : step cfg m (.op n, a) = afterOp m := by
  obtain ⟨⟨h1, h2, h3⟩, h4⟩ := hm
  cases a <;> simp_all [step, afterOp] <;> (cases hab : cfg.abortIf <;> simp_all)

theorem step_op_raise (cfg : Cfg) (m : St) (n : Nat) (e : Exn) (d : Nat) (hm : Ready cfg m) :
    step cfg m (.op n, .raise e d) =
      if e.isAbort then abortedOp m else if e.isCancelKind then cancelledOp m e else afterOp m := by
  obtain ⟨⟨h1, h2, h3⟩, h4⟩ := hm
  cases hab : cfg.abortIf <;> simp_all [step, afterOp, abortedOp, cancelledOp] <;>
    (split <;> simp_all) <;> (split <;> simp_all)

theorem step_sleeper_ok (cfg : Cfg) (m : St) (a : Ans) (hm : Ready cfg m)
    (ha : ∀ e d, ¬ a = Ans.raise e d) (l : Lvl) (n : Nat) : step cfg m (.sleeper l n, a) = afterOp m := by
  obtain ⟨⟨h1, h2, h3⟩, h4⟩ := hm
  cases a <;> simp_all [step, afterOp] <;> (cases hab : cfg.abortIf <;> simp_all)

theorem step_sleeper_raise (cfg : Cfg) (m : St) (l : Lvl) (n : Nat) (e : Exn) (d : Nat)
    (hm : Ready cfg m) :
    step cfg m (.sleeper l n, .raise e d) = if e.isCancelKind then cancelledOp m e else afterOp m := by
  obtain ⟨⟨h1, h2, h3⟩, h4⟩ := hm
  cases hab : cfg.abortIf <;> simp_all [step, afterOp, cancelledOp] <;> (split <;> simp_all)

theorem checkAbort_spec (cfg : Cfg) (tl : Bool) (a : Nat) (m : St) (hm : Live m) :
    ⦃fun w => ⌜view cfg w = some m⌝⦄ checkAbort cfg tl a
    ⦃post⟨fun _ w => ⌜view cfg w = some (pollOk cfg m)⌝, fun e w => ⌜FinS cfg e w⌝⟩⦄ := by
  obtain ⟨h1, h2, h3⟩ := hm
  mvcgen [checkAbort, ask_cur]
  all_goals ((try subst_vars) <;> (try intros) <;> (try simp only [view, finS_iff] at *) <;>
    simp_all [viewOf_eq_some, viewOf_of_none, step_abortIf, saysAbort, pollOk, Org, Exn.isAbort,
      Exn.isException])

theorem Live.pollOk {cfg : Cfg} {m : St} (hm : Live m) : Ready cfg (pollOk cfg m) := by
  obtain ⟨h1, h2, h3⟩ := hm
  unfold C13.pollOk
  split <;> refine ⟨⟨?_, ?_, ?_⟩, ?_⟩ <;> simp_all

theorem Ready.afterOp {cfg : Cfg} {m : St} (hm : Ready cfg m) : Live (afterOp m) :=
  ⟨hm.aborted, hm.cancelled, hm.bad⟩

/-- what an attempt's `except` ladder finds -/
structure OpErr (cfg : Cfg) (m : St) (e : Exn) (w : World) : Prop extends FinS cfg e w where
  onAbort : e.isAbort = true → view cfg w = some (abortedOp m)
  onOther : e.isAbort = false → e.isCancelKind = false → view cfg w = some (C13.afterOp m)

theorem opErr_iff {cfg : Cfg} {m : St} {e : Exn} {w : World} : OpErr cfg m e w ↔
    FinS cfg e w ∧ (e.isAbort = true → view cfg w = some (abortedOp m)) ∧
    (e.isAbort = false → e.isCancelKind = false → view cfg w = some (C13.afterOp m)) :=
  ⟨fun h => ⟨h.toFinS, h.onAbort, h.onOther⟩, fun h => ⟨h.1, h.2.1, h.2.2⟩⟩

theorem isCancelKind_not_abort {e : Exn} (h : e.isCancelKind = true) : e.isAbort = false := by
  cases e <;> simp_all [Exn.isCancelKind, Exn.isAbort]

theorem isCancelKind_not_exception {e : Exn} (h : e.isCancelKind = true) : e.isException = false := by
  cases e <;> simp_all [Exn.isCancelKind, Exn.isException]

theorem opErr_of_cur {cfg : Cfg} {m : St} {e : Exn} {w : World} (hm : Ready cfg m)
    (hc : cur cfg w.trace =
      if e.isAbort then abortedOp m else if e.isCancelKind then cancelledOp m e else C13.afterOp m) :
    OpErr cfg m e w := by
  have h1 := hm.aborted
  have h2 := hm.cancelled
  have h3 := hm.bad
  rw [opErr_iff, finS_iff]
  by_cases ha : e.isAbort = true
  · simp_all [view, viewOf_of_none, abortedOp, Org]
  · by_cases hk : e.isCancelKind = true
    · have := isCancelKind_not_abort hk
      simp_all [view, cancelledOp]
    · simp_all [view, viewOf_of_none, C13.afterOp]

theorem finS_of_sleeper {cfg : Cfg} {m : St} {e : Exn} {w : World} (hm : Ready cfg m)
    (hc : cur cfg w.trace = if e.isCancelKind then cancelledOp m e else C13.afterOp m) :
    FinS cfg e w := by
  have h1 := hm.aborted
  have h2 := hm.cancelled
  have h3 := hm.bad
  rw [finS_iff]
  by_cases hk : e.isCancelKind = true <;> simp_all [cancelledOp, C13.afterOp]

/-- normalise views to monitor states and let `simp_all` do the rest -/
macro "c13" : tactic => `(tactic| all_goals (
  first
    | ((try subst_vars) <;> (try intros) <;> (try simp only [view, finS_iff, fin_iff] at *) <;>
       (simp_all +zetaDelta [viewOf_eq_some, viewOf_of_none, step_abortIf, saysAbort, pollOk, Org, Exn.isAbort,
         Exn.isException, step_op_ok, step_op_raise, step_sleeper_ok, step_sleeper_raise, afterOp, abortedOp,
         cancelledOp]; done))
    | skip))

theorem invokeOp_spec (cfg : Cfg) (a : Nat) (m : St) (hm : Ready cfg m) :
    ⦃fun w => ⌜view cfg w = some m⌝⦄ invokeOp a
    ⦃post⟨fun _ w => ⌜view cfg w = some (C13.afterOp m)⌝, fun e w => ⌜OpErr cfg m e w⌝⟩⦄ := by
  have h1 := hm.aborted
  have h2 := hm.cancelled
  have h3 := hm.bad
  mvcgen [invokeOp, ask_cur]
  c13
  all_goals (intros; first
    | (refine opErr_of_cur hm ?_; simp_all +zetaDelta [view, viewOf_eq_some, step_op_raise]; done)
    | (rename_i h
       have := step_op_ok cfg m _ hm h.2
       refine opErr_of_cur hm ?_
       simp_all +zetaDelta [view, viewOf_eq_some, Exn.isAbort, Exn.isCancelKind]))

theorem callSleeper_spec (cfg : Cfg) (s : Nat) (m : St) (hm : Ready cfg m) :
    ⦃fun w => ⌜view cfg w = some m⌝⦄ callSleeper cfg s
    ⦃post⟨fun _ w => ⌜view cfg w = some (C13.afterOp m)⌝, fun e w => ⌜FinS cfg e w⌝⟩⦄ := by
  have h1 := hm.aborted
  have h2 := hm.cancelled
  have h3 := hm.bad
  mvcgen [callSleeper, ask_cur]
  c13
  all_goals (intros; refine finS_of_sleeper hm ?_; simp_all +zetaDelta [view, viewOf_eq_some, step_sleeper_raise])

/-! ### procedures that do not move the view but are not footprint-leaves -/

macro "close_v" : tactic => `(tactic| all_goals (
  (try subst_vars) <;> (try intros) <;>
  first
    | assumption
    | rfl
    | (simp_all +zetaDelta [view]; done)
    | skip))

section inertProcs
variable (v : Option St) (cfg : Cfg) (tl : Bool)

theorem budgetConsume_v : ⦃fun w => ⌜view cfg w = v⌝⦄ budgetConsume cfg ⦃same cfg v⦄ := by
  have hf : ∀ w0, ⦃fun w => ⌜Foot inertK w0 w⌝⦄ budgetConsume cfg ⦃footPost inertK w0⦄ := by
    intro w0
    mvcgen [budgetConsume]
    all_goals (try assumption)
    all_goals (rename_i h; exact Foot.trans h (Foot.internal _ _ _ _ _ _ rfl))
  exact view_of_foot (view cfg) hf (view_foot cfg) v

attribute [local spec] budgetConsume_v

theorem stopWith_v (s : StopReason) (ev : Event) (a : Nat) (k : EClass) (e : Option Exn) (c : Cause) :
    ⦃fun w => ⌜view cfg w = v⌝⦄ stopWith cfg tl s ev a k e c ⦃same cfg v⦄ := by
  mvcgen [stopWith]
  close_v

attribute [local spec] stopWith_v

theorem grantRetry_v (c : Classification) (a : Nat) (cause : Cause) (e : Option Exn) (key : SKey)
    (kind : SKind) (rem : Nat) :
    ⦃fun w => ⌜view cfg w = v⌝⦄ grantRetry cfg tl c a cause e key kind rem ⦃same cfg v⦄ := by
  mvcgen [grantRetry, getRS, modifyRS]
  close_v

attribute [local spec] grantRetry_v

theorem handleFailure2_v (c : Classification) (a : Nat) (cause : Cause) (e : Option Exn) :
    ⦃fun w => ⌜view cfg w = v⌝⦄ handleFailure2 cfg tl c a cause e ⦃same cfg v⦄ := by
  mvcgen [handleFailure2, elapsed, modifyRS]
  close_v

attribute [local spec] handleFailure2_v

theorem handleUnknown_v (c : Classification) (a : Nat) (cause : Cause) (e : Option Exn) :
    ⦃fun w => ⌜view cfg w = v⌝⦄ handleUnknown cfg tl c a cause e ⦃same cfg v⦄ := by
  mvcgen [handleUnknown, getRS, modifyRS]
  close_v

attribute [local spec] handleUnknown_v

theorem handleFailure1_v (c : Classification) (a : Nat) (cause : Cause) (e : Option Exn) :
    ⦃fun w => ⌜view cfg w = v⌝⦄ handleFailure1 cfg tl c a cause e ⦃same cfg v⦄ := by
  mvcgen [handleFailure1, getRS]
  close_v

attribute [local spec] handleFailure1_v

theorem handleFailure_v (c : Classification) (a : Nat) (cause : Cause) (e : Option Exn) (r : Option Nat) :
    ⦃fun w => ⌜view cfg w = v⌝⦄ handleFailure cfg tl c a cause e r ⦃same cfg v⦄ := by
  mvcgen [handleFailure, Retry.recordFailure, modifyRS]
  close_v

attribute [local spec] handleFailure_v

theorem handleException_v (e : Exn) (a : Nat) :
    ⦃fun w => ⌜view cfg w = v⌝⦄ handleException cfg tl e a ⦃same cfg v⦄ := by
  mvcgen [handleException]
  close_v

theorem finalizeAttempt_v (a : Nat) (d : Decision) (act : Option SleepDecision)
    (cls : Option Classification) (e : Option Exn) (r : Option Nat) (c : Option Cause) :
    ⦃fun w => ⌜view cfg w = v⌝⦄ finalizeAttempt cfg tl a d act cls e r c ⦃same cfg v⦄ := by
  mvcgen [finalizeAttempt, getRS, elapsed]
  close_v

end inertProcs

attribute [local spec] budgetConsume_v stopWith_v grantRetry_v handleFailure2_v handleUnknown_v
  handleFailure1_v handleFailure_v handleException_v finalizeAttempt_v

/-! ### the phases as predicates on worlds -/

def LiveW (cfg : Cfg) (w : World) : Prop := Live (cur cfg w.trace)
def ReadyW (cfg : Cfg) (w : World) : Prop := Ready cfg (cur cfg w.trace)
/-- no cancellation, nothing wrong (aborted or not) -/
def QuietW (cfg : Cfg) (w : World) : Prop :=
  (cur cfg w.trace).cancelled = none ∧ (cur cfg w.trace).bad = false

theorem live_iff {m : St} : Live m ↔ m.aborted = false ∧ m.cancelled = none ∧ m.bad = false :=
  ⟨fun h => ⟨h.aborted, h.cancelled, h.bad⟩, fun h => ⟨h.1, h.2.1, h.2.2⟩⟩

theorem ready_iff {cfg : Cfg} {m : St} : Ready cfg m ↔
    m.aborted = false ∧ m.cancelled = none ∧ m.bad = false ∧ (cfg.abortIf = true → m.polled = true) :=
  ⟨fun h => ⟨h.aborted, h.cancelled, h.bad, h.polled⟩, fun h => ⟨⟨h.1, h.2.1, h.2.2.1⟩, h.2.2.2⟩⟩

theorem checkAbort_w (cfg : Cfg) (tl : Bool) (a : Nat) :
    ⦃fun w => ⌜LiveW cfg w⌝⦄ checkAbort cfg tl a
    ⦃post⟨fun _ w => ⌜ReadyW cfg w⌝, fun e w => ⌜FinS cfg e w⌝⟩⦄ := by
  apply triple_of_run
  intro w hw
  have := adequacy (checkAbort_spec cfg tl a _ hw) w (view_eq_some.mpr ⟨rfl, hw.cancelled⟩)
  split <;> simp_all
  have h := (view_eq_some.mp this).1
  unfold ReadyW
  rw [h]
  exact hw.pollOk

theorem invokeOp_w (cfg : Cfg) (a : Nat) :
    ⦃fun w => ⌜ReadyW cfg w⌝⦄ invokeOp a
    ⦃post⟨fun _ w => ⌜LiveW cfg w⌝, fun e w => ⌜FinS cfg e w⌝⟩⦄ := by
  apply triple_of_run
  intro w hw
  have := adequacy (invokeOp_spec cfg a _ hw) w (view_eq_some.mpr ⟨rfl, hw.cancelled⟩)
  split <;> simp_all
  · have h := (view_eq_some.mp this).1
    unfold LiveW
    rw [h]
    exact hw.afterOp
  · exact this.toFinS

theorem callSleeper_w (cfg : Cfg) (s : Nat) :
    ⦃fun w => ⌜ReadyW cfg w⌝⦄ callSleeper cfg s
    ⦃post⟨fun _ w => ⌜LiveW cfg w⌝, fun e w => ⌜FinS cfg e w⌝⟩⦄ := by
  apply triple_of_run
  intro w hw
  have := adequacy (callSleeper_spec cfg s _ hw) w (view_eq_some.mpr ⟨rfl, hw.cancelled⟩)
  split <;> simp_all
  have h := (view_eq_some.mp this).1
  unfold LiveW
  rw [h]
  exact hw.afterOp

/-! ### the retry loop, `call` flavour -/

theorem cancelled_none_of {cfg : Cfg} {e : Exn} {w : World}
    (h : ∀ c, (cur cfg w.trace).cancelled = some c → e = c ∧ c.isCancelKind = true)
    (he : e.isCancelKind = false) : (cur cfg w.trace).cancelled = none := by
  cases hc : (cur cfg w.trace).cancelled with
  | none => rfl
  | some c =>
    obtain ⟨rfl, h2⟩ := h c hc
    simp_all

theorem isAbort_not_cancelKind {e : Exn} (h : e.isAbort = true) : e.isCancelKind = false := by
  cases e <;> simp_all [Exn.isCancelKind, Exn.isAbort]

theorem isException_not_cancelKind {e : Exn} (h : e.isException = true) : e.isCancelKind = false := by
  cases e <;> simp_all [Exn.isCancelKind, Exn.isException]

theorem isExhausted_not_cancelKind {e : Exn} (h : e.isExhausted = true) : e.isCancelKind = false := by
  cases e <;> simp_all [Exn.isCancelKind, Exn.isExhausted]

/-- `Fin` as a hypothesis: with the consequences `simp_all` cannot find by itself -/
theorem fin_iff_h {cfg : Cfg} {e : Exn} {w : World} : Fin cfg e w ↔
    ((cur cfg w.trace).bad = false ∧
    (∀ c, (cur cfg w.trace).cancelled = some c → e = c ∧ c.isCancelKind = true) ∧
    ((cur cfg w.trace).aborted = true → (cur cfg w.trace).cancelled = none → Org e w)) ∧
    (e.isAbort = true → (cur cfg w.trace).cancelled = none) ∧
    (e.isException = true → (cur cfg w.trace).cancelled = none) ∧
    (e.isExhausted = true → (cur cfg w.trace).cancelled = none) := by
  rw [fin_iff]
  constructor
  · intro h
    exact ⟨h, fun ha => cancelled_none_of h.2.1 (isAbort_not_cancelKind ha),
      fun ha => cancelled_none_of h.2.1 (isException_not_cancelKind ha),
      fun ha => cancelled_none_of h.2.1 (isExhausted_not_cancelKind ha)⟩
  · exact fun h => h.1

theorem finS_iff_h {cfg : Cfg} {e : Exn} {w : World} : FinS cfg e w ↔
    ((cur cfg w.trace).bad = false ∧
    (∀ c, (cur cfg w.trace).cancelled = some c → e = c ∧ c.isCancelKind = true) ∧
    ((cur cfg w.trace).aborted = true → (cur cfg w.trace).cancelled = none → Org e w) ∧
    ((cur cfg w.trace).aborted = true → (cur cfg w.trace).cancelled = none →
      e.isAbort = true ∨ e.isException = false)) ∧
    (e.isAbort = true → (cur cfg w.trace).cancelled = none) ∧
    (e.isException = true → (cur cfg w.trace).cancelled = none) ∧
    (e.isExhausted = true → (cur cfg w.trace).cancelled = none) := by
  rw [finS_iff]
  constructor
  · intro h
    exact ⟨h, fun ha => cancelled_none_of h.2.1 (isAbort_not_cancelKind ha),
      fun ha => cancelled_none_of h.2.1 (isException_not_cancelKind ha),
      fun ha => cancelled_none_of h.2.1 (isExhausted_not_cancelKind ha)⟩
  · exact fun h => h.1

/-- normalise everything to statements about monitor states and let `simp_all` (then `grind`) do
    the rest -/
macro "c13w" : tactic => `(tactic| all_goals (
  first
    | ((try subst_vars) <;> (try intros) <;> (try simp only [finS_iff, fin_iff]) <;>
       (try simp only [view, LiveW, ReadyW, QuietW, live_iff, ready_iff, finS_iff_h, fin_iff_h] at *) <;>
       (simp_all +zetaDelta [viewOf_eq_some, viewOf_of_none, Org, Exn.isAbort, Exn.isException]; done))
    | ((try subst_vars) <;> (try intros) <;> (try simp only [finS_iff, fin_iff]) <;>
       (try simp only [view, LiveW, ReadyW, QuietW, live_iff, ready_iff, finS_iff_h, fin_iff_h] at *) <;>
       (try simp_all +zetaDelta [viewOf_eq_some, viewOf_of_none, Org, Exn.isAbort, Exn.isException]) <;>
       grind)
    | skip))

attribute [local spec] checkAbort_w invokeOp_w callSleeper_w

theorem sleepAction_spec (cfg : Cfg) (tl : Bool) (a s : Nat) (ctx : BackoffCtx) :
    ⦃fun w => ⌜ReadyW cfg w⌝⦄ sleepAction cfg tl a s ctx
    ⦃post⟨fun _ w => ⌜LiveW cfg w⌝, fun e w => ⌜FinS cfg e w⌝⟩⦄ := by
  mvcgen [sleepAction]
  c13w

attribute [local spec] sleepAction_spec

theorem failureOutcome_spec (cfg : Cfg) (tl : Bool) (a : Nat) (d : Decision)
    (cls : Option Classification) (e : Option Exn) (r : Option Nat) (c : Option Cause) :
    ⦃fun w => ⌜ReadyW cfg w⌝⦄ failureOutcome cfg tl a d cls e r c
    ⦃post⟨fun _ w => ⌜LiveW cfg w⌝, fun e w => ⌜FinS cfg e w⌝⟩⦄ := by
  mvcgen [failureOutcome]
  c13w

attribute [local spec] failureOutcome_spec

/-- one attempt of `call`: the loop goes on (or returns) alive, or the run ends as the verdict wants -/
abbrev livePost (cfg : Cfg) : PostCond α (.except Exn (.arg World .pure)) :=
  post⟨fun _ w => ⌜LiveW cfg w⌝, fun e w => ⌜Fin cfg e w⌝⟩

theorem callExceptionPath_spec (cfg : Cfg) (a : Nat) (e : Exn) :
    ⦃fun w => ⌜LiveW cfg w⌝⦄ callExceptionPath cfg a e ⦃livePost cfg⦄ := by
  mvcgen [callExceptionPath, getRS, modifyAS]
  c13w

attribute [local spec] callExceptionPath_spec

theorem callOpHandler_spec (cfg : Cfg) (a : Nat) (e : Exn) :
    ⦃fun w => ⌜FinS cfg e w⌝⦄ callOpHandler cfg a e ⦃livePost cfg⦄ := by
  mvcgen [callOpHandler]
  c13w

attribute [local spec] callOpHandler_spec

theorem callResultFailure_spec (cfg : Cfg) (a x : Nat) (c : Classification) :
    ⦃fun w => ⌜LiveW cfg w⌝⦄ callResultFailure cfg a x c ⦃livePost cfg⦄ := by
  mvcgen [callResultFailure, getRS, modifyAS]
  c13w

attribute [local spec] callResultFailure_spec

theorem callResultPath_spec (cfg : Cfg) (a x : Nat) :
    ⦃fun w => ⌜LiveW cfg w⌝⦄ callResultPath cfg a x ⦃livePost cfg⦄ := by
  mvcgen [callResultPath]
  c13w

attribute [local spec] callResultPath_spec

/-- one iteration of the loop of `call` -/
theorem callAttempt_spec (cfg : Cfg) (a : Nat) :
    ⦃fun w => ⌜LiveW cfg w⌝⦄ callAttempt cfg a ⦃livePost cfg⦄ := by
  mvcgen [callAttempt, modifyAS]
  c13w

theorem callLoop_spec (cfg : Cfg) : ∀ (fuel a : Nat),
    ⦃fun w => ⌜LiveW cfg w⌝⦄ callLoop cfg fuel a ⦃livePost cfg⦄ := by
  intro fuel
  induction fuel with
  | zero =>
    intro a
    mvcgen [callLoop]
    c13w
  | succ f ih =>
    intro a
    mvcgen [callLoop, callAttempt_spec, ih]
    c13w

theorem runCall_spec (cfg : Cfg) :
    ⦃fun w => ⌜LiveW cfg w⌝⦄ runCall cfg ⦃livePost cfg⦄ := by
  have hl := callLoop_spec cfg cfg.maxAttempts 1
  mvcgen [runCall, initState, hl]
  c13w


attribute [local spec] checkAbort_w invokeOp_w callSleeper_w sleepAction_spec failureOutcome_spec

/-! ### the retry loop, `execute` flavour -/

/-- what the verdict asks of a run that ends by returning outcome `o` -/
def FinO (cfg : Cfg) (o : Outcome) (w : World) : Prop :=
  (cur cfg w.trace).bad = false ∧ (cur cfg w.trace).cancelled = none ∧
    ((cur cfg w.trace).aborted = true → o.stop = some .aborted)

/-- after an attempt of `execute`: go on alive, or return an acceptable outcome -/
def OkX (cfg : Cfg) (r : Option Outcome) (w : World) : Prop :=
  (r = none → LiveW cfg w) ∧ (∀ o, r = some o → FinO cfg o w)

abbrev xPost (cfg : Cfg) : PostCond (Option Outcome) (.except Exn (.arg World .pure)) :=
  post⟨fun r w => ⌜OkX cfg r w⌝, fun e w => ⌜Fin cfg e w⌝⟩

macro "c13x" : tactic => `(tactic| all_goals (
  first
    | ((try subst_vars) <;> (try intros) <;> (try simp only [finS_iff, fin_iff]) <;>
       (try simp only [view, LiveW, ReadyW, QuietW, OkX, FinO, live_iff, ready_iff, finS_iff_h, fin_iff_h] at *) <;>
       (simp_all +zetaDelta [viewOf_eq_some, viewOf_of_none, Org, Exn.isAbort, Exn.isException]; done))
    | ((try subst_vars) <;> (try intros) <;> (try simp only [finS_iff, fin_iff]) <;>
       (try simp only [view, LiveW, ReadyW, QuietW, OkX, FinO, live_iff, ready_iff, finS_iff_h, fin_iff_h] at *) <;>
       (try simp_all +zetaDelta [viewOf_eq_some, viewOf_of_none, Org, Exn.isAbort, Exn.isException]) <;>
       grind)
    | skip))

theorem execAbortExit_spec (cfg : Cfg) (tl : Bool) (a : Nat) (e : Exn) :
    ⦃fun w => ⌜QuietW cfg w⌝⦄ execAbortExit cfg tl a e
    ⦃post⟨fun r w => ⌜r ≠ none ∧ OkX cfg r w⌝, fun e w => ⌜Fin cfg e w⌝⟩⦄ := by
  mvcgen [execAbortExit]
  c13x

theorem checkAbortCaught_spec (cfg : Cfg) (tl : Bool) (a : Nat) :
    ⦃fun w => ⌜LiveW cfg w⌝⦄ checkAbortCaught cfg tl a
    ⦃post⟨fun b w => ⌜(b = false → ReadyW cfg w) ∧ (b = true → QuietW cfg w)⌝, fun e w => ⌜Fin cfg e w⌝⟩⦄ := by
  mvcgen [checkAbortCaught, abortToTrue]
  c13x

attribute [local spec] execAbortExit_spec checkAbortCaught_spec

theorem execExceptionPath3_spec (cfg : Cfg) (tl : Bool) (a : Nat) (e : Exn) (d : Decision) :
    ⦃fun w => ⌜ReadyW cfg w⌝⦄ execExceptionPath3 cfg tl a e d ⦃xPost cfg⦄ := by
  mvcgen [execExceptionPath3, getRS, modifyAS]
  c13x

attribute [local spec] execExceptionPath3_spec

theorem execExceptionPath2_spec (cfg : Cfg) (tl : Bool) (a : Nat) (e : Exn) :
    ⦃fun w => ⌜ReadyW cfg w⌝⦄ execExceptionPath2 cfg tl a e ⦃xPost cfg⦄ := by
  mvcgen [execExceptionPath2, getRS, modifyAS]
  c13x

attribute [local spec] execExceptionPath2_spec

theorem execExceptionPath_spec (cfg : Cfg) (tl : Bool) (a : Nat) (e : Exn) :
    ⦃fun w => ⌜LiveW cfg w⌝⦄ execExceptionPath cfg tl a e ⦃xPost cfg⦄ := by
  mvcgen [execExceptionPath, modifyAS]
  c13x

attribute [local spec] execExceptionPath_spec

theorem execHandler_spec (cfg : Cfg) (tl : Bool) (a : Nat) (e : Exn) :
    ⦃fun w => ⌜FinS cfg e w⌝⦄ execHandler cfg tl a e ⦃xPost cfg⦄ := by
  mvcgen [execHandler]
  c13x

theorem execReturnedHandler_spec (cfg : Cfg) (tl : Bool) (a : Nat) (e : Exn) :
    ⦃fun w => ⌜Fin cfg e w⌝⦄ execReturnedHandler cfg tl a e ⦃xPost cfg⦄ := by
  mvcgen [execReturnedHandler]
  c13x

theorem execResultFailure_spec (cfg : Cfg) (tl : Bool) (a x : Nat) (c : Classification) :
    ⦃fun w => ⌜LiveW cfg w⌝⦄ execResultFailure cfg tl a x c ⦃xPost cfg⦄ := by
  mvcgen [execResultFailure, getRS, modifyAS]
  c13x

attribute [local spec] execResultFailure_spec

theorem execResultPath_spec (cfg : Cfg) (tl : Bool) (a x : Nat) :
    ⦃fun w => ⌜LiveW cfg w⌝⦄ execResultPath cfg tl a x ⦃xPost cfg⦄ := by
  mvcgen [execResultPath]
  c13x

theorem execPre_spec (cfg : Cfg) (tl : Bool) (a : Nat) :
    ⦃fun w => ⌜LiveW cfg w⌝⦄ execPre cfg tl a
    ⦃post⟨fun _ w => ⌜LiveW cfg w⌝, fun e w => ⌜FinS cfg e w⌝⟩⦄ := by
  mvcgen [execPre, modifyAS]
  c13x

theorem execAttempt_spec (cfg : Cfg) (tl : Bool) (a : Nat) :
    ⦃fun w => ⌜LiveW cfg w⌝⦄ execAttempt cfg tl a ⦃xPost cfg⦄ := by
  mvcgen [execAttempt, execPre_spec, execHandler_spec, execResultPath_spec, execReturnedHandler_spec]
  c13x

theorem execLoop_spec (cfg : Cfg) (tl : Bool) : ∀ (fuel a : Nat),
    ⦃fun w => ⌜LiveW cfg w⌝⦄ execLoop cfg tl fuel a
    ⦃post⟨fun o w => ⌜FinO cfg o w⌝, fun e w => ⌜Fin cfg e w⌝⟩⦄ := by
  intro fuel
  induction fuel with
  | zero =>
    intro a
    mvcgen [execLoop]
    c13x
  | succ f ih =>
    intro a
    mvcgen [execLoop, execAttempt_spec, ih]
    c13x

theorem runExecute_spec (cfg : Cfg) :
    ⦃fun w => ⌜LiveW cfg w⌝⦄ runExecute cfg
    ⦃post⟨fun o w => ⌜FinO cfg o w⌝, fun e w => ⌜Fin cfg e w⌝⟩⦄ := by
  have hl := execLoop_spec cfg cfg.timeline cfg.maxAttempts 1
  mvcgen [runExecute, initState, hl]
  c13x

/-! ### policy level -/
open Policy


/-- footprint + origin ⇒ invariance, and knowledge of where an escaping exception comes from -/
theorem inv_org_of_foot {α : Type} {x : M α} {K : Kind → Bool} {O : Exn → World → Prop}
    (I : World → Prop)
    (hx : ∀ w0, ⦃fun w => ⌜Foot K w0 w⌝⦄ x ⦃footPost K w0⦄)
    (ho : ⦃fun _ => ⌜True⌝⦄ x ⦃post⟨fun _ _ => ⌜True⌝, fun e w => ⌜O e w⌝⟩⦄)
    (hI : ∀ w w', Foot K w w' → I w → I w') :
    ⦃fun w => ⌜I w⌝⦄ x ⦃post⟨fun _ w => ⌜I w⌝, fun e w => ⌜I w ∧ O e w⌝⟩⦄ := by
  apply triple_of_run
  intro w hw
  have h1 := adequacy (hx w) w (Foot.refl _ w)
  have h2 := adequacy ho w trivial
  split <;> simp_all <;> exact hI _ _ h1 hw

theorem cur_foot_inert (cfg : Cfg) (w w' : World) (h : Foot inertK w w')
    (hc : (cur cfg w.trace).cancelled = none) : cur cfg w'.trace = cur cfg w.trace := by
  obtain ⟨δ, e, k⟩ := h.trace
  rw [e, cur_append_inert cfg δ _ k hc]

theorem cur_foot_brk (cfg : Cfg) (w w' : World) (h : Foot brkK w w') :
    cur cfg w'.trace = cur cfg w.trace := by
  obtain ⟨δ, e, k⟩ := h.trace
  rw [e, cur_append_brk cfg δ _ k]

theorem org_foot {K : Kind → Bool} {w w' : World} (e : Exn) (h : Foot K w w') (ho : Org e w) : Org e w' := by
  obtain ⟨δ, ht, _⟩ := h.trace
  rcases ho with h | h | h
  · exact Or.inl h
  · exact Or.inr (Or.inl h)
  · exact Or.inr (Or.inr (ht ▸ h.mono δ))

theorem brk_sub_inert : ∀ k, brkK k = true → inertK k = true := by
  intro k; cases k <;> simp [brkK, inertK]

theorem liveW_foot (cfg : Cfg) (w w' : World) (h : Foot inertK w w') (hl : LiveW cfg w) : LiveW cfg w' := by
  unfold LiveW at *
  rw [cur_foot_inert cfg w w' h hl.cancelled]
  exact hl

theorem fin_foot_brk (cfg : Cfg) (e : Exn) (w w' : World) (h : Foot brkK w w') (hf : Fin cfg e w) :
    Fin cfg e w' := by
  have hc := cur_foot_brk cfg w w' h
  refine ⟨hc ▸ hf.bad, hc ▸ hf.canc, ?_⟩
  rw [hc]
  exact fun a b => org_foot e h (hf.abt a b)

/-- an exception is in flight that the verdict accepts, and no cancellation has been seen -/
def PolA (cfg : Cfg) (e : Exn) (w : World) : Prop := Fin cfg e w ∧ (cur cfg w.trace).cancelled = none

theorem polA_foot (cfg : Cfg) (e : Exn) (w w' : World) (h : Foot inertK w w') (hf : PolA cfg e w) :
    PolA cfg e w' := by
  have hc := cur_foot_inert cfg w w' h hf.2
  refine ⟨⟨hc ▸ hf.1.bad, hc ▸ hf.1.canc, ?_⟩, hc ▸ hf.2⟩
  rw [hc]
  exact fun a b => org_foot e h (hf.1.abt a b)

/-- from "an acceptable exception `e0` was in flight, no cancellation" to: the one that escapes now
    is acceptable too -/
theorem fin_of_polA {cfg : Cfg} {e0 e : Exn} {w : World} (h : PolA cfg e0 w)
    (ho : e = .stuck ∨ Raised w.trace e) : Fin cfg e w :=
  ⟨h.1.bad, by simp [h.2], fun _ _ => Or.inr ho⟩

theorem finO_foot (cfg : Cfg) (o : Outcome) (w w' : World) (h : Foot inertK w w') (hf : FinO cfg o w) :
    FinO cfg o w' := by
  unfold FinO at *
  rw [cur_foot_inert cfg w w' h hf.2.1]
  exact hf

theorem fin_of_finO {cfg : Cfg} {o : Outcome} {e : Exn} {w : World} (h : FinO cfg o w)
    (ho : e = .stuck ∨ Raised w.trace e) : Fin cfg e w :=
  ⟨h.1, by simp [h.2.1], fun _ _ => Or.inr ho⟩

theorem fin_of_liveW {cfg : Cfg} {e : Exn} {w : World} (h : LiveW cfg w) : Fin cfg e w :=
  ⟨h.bad, by simp [h.cancelled], by simp [h.aborted]⟩

/-- rule of consequence -/
theorem weaken {α : Type} {x : M α} {P P' : World → Prop} {Q Q' : α → World → Prop}
    {E E' : Exn → World → Prop}
    (h : ⦃fun w => ⌜P w⌝⦄ x ⦃post⟨fun a w => ⌜Q a w⌝, fun e w => ⌜E e w⌝⟩⦄)
    (hp : ∀ w, P' w → P w) (hq : ∀ a w, Q a w → Q' a w) (he : ∀ e w, E e w → E' e w) :
    ⦃fun w => ⌜P' w⌝⦄ x ⦃post⟨fun a w => ⌜Q' a w⌝, fun e w => ⌜E' e w⌝⟩⦄ := by
  apply triple_of_run
  intro w hw
  have := adequacy h w (hp w hw)
  split <;> simp_all

/-- `try: x finally: fin`, as a proof rule -/
theorem finally_rule {α : Type} {x : M α} {fin1 fin2 : M Unit} {P : World → Prop}
    {Q Q' : α → World → Prop} {E E' : Exn → World → Prop}
    (hx : ⦃fun w => ⌜P w⌝⦄ x ⦃post⟨fun a w => ⌜Q a w⌝, fun e w => ⌜E e w⌝⟩⦄)
    (herr : ∀ e, ⦃fun w => ⌜E e w⌝⦄ fin1 ⦃post⟨fun _ w => ⌜E' e w⌝, fun e' w => ⌜E' e' w⌝⟩⦄)
    (hok : ∀ a, ⦃fun w => ⌜Q a w⌝⦄ fin2 ⦃post⟨fun _ w => ⌜Q' a w⌝, fun e' w => ⌜E' e' w⌝⟩⦄) :
    ⦃fun w => ⌜P w⌝⦄ (do let a ← tryCatch x (fun e => do fin1; throw e); fin2; pure a)
    ⦃post⟨fun a w => ⌜Q' a w⌝, fun e w => ⌜E' e w⌝⟩⦄ := by
  mvcgen [hx, herr, hok]

theorem withFinally_rule {α : Type} {x : M α} {fin : M Unit} {P : World → Prop}
    {Q Q' : α → World → Prop} {E E' : Exn → World → Prop}
    (hx : ⦃fun w => ⌜P w⌝⦄ x ⦃post⟨fun a w => ⌜Q a w⌝, fun e w => ⌜E e w⌝⟩⦄)
    (herr : ∀ e, ⦃fun w => ⌜E e w⌝⦄ fin ⦃post⟨fun _ w => ⌜E' e w⌝, fun e' w => ⌜E' e' w⌝⟩⦄)
    (hok : ∀ a, ⦃fun w => ⌜Q a w⌝⦄ fin ⦃post⟨fun _ w => ⌜Q' a w⌝, fun e' w => ⌜E' e' w⌝⟩⦄) :
    ⦃fun w => ⌜P w⌝⦄ withFinally x fin ⦃post⟨fun a w => ⌜Q' a w⌝, fun e w => ⌜E' e w⌝⟩⦄ :=
  finally_rule hx herr hok

macro "c13p" : tactic => `(tactic| all_goals (
  first
    | ((try subst_vars) <;> (try intros) <;> (try simp only [finS_iff, fin_iff]) <;>
       (try simp only [view, LiveW, ReadyW, QuietW, OkX, FinO, PolA, live_iff, ready_iff, finS_iff_h, fin_iff_h] at *) <;>
       (simp_all +zetaDelta [viewOf_eq_some, viewOf_of_none, Org, Exn.isAbort, Exn.isException]; done))
    | ((try subst_vars) <;> (try intros) <;> (try simp only [finS_iff, fin_iff]) <;>
       (try simp only [view, LiveW, ReadyW, QuietW, OkX, FinO, PolA, live_iff, ready_iff, finS_iff_h, fin_iff_h] at *) <;>
       (try simp_all +zetaDelta [viewOf_eq_some, viewOf_of_none, Org, Exn.isAbort, Exn.isException]) <;>
       grind)
    | skip))

section policySpecs
variable (cfg : Cfg)

/-- breaker bookkeeping keeps an in-flight verdict, and does not raise -/
theorem recordCancel_fin (e0 : Exn) :
    ⦃fun w => ⌜Fin cfg e0 w⌝⦄ Policy.recordCancel cfg
    ⦃post⟨fun _ w => ⌜Fin cfg e0 w⌝, fun _ w => ⌜Fin cfg e0 w ∧ False⌝⟩⦄ :=
  inv_org_of_foot (Fin cfg e0) (fun w0 => recordCancel_foot brkK w0 rfl cfg) (recordCancel_never cfg)
    (fin_foot_brk cfg e0)

theorem ensureSettled_fin (e0 : Exn) :
    ⦃fun w => ⌜Fin cfg e0 w⌝⦄ ensureSettled cfg
    ⦃post⟨fun _ w => ⌜Fin cfg e0 w⌝, fun _ w => ⌜Fin cfg e0 w ∧ False⌝⟩⦄ :=
  inv_org_of_foot (Fin cfg e0) (fun w0 => ensureSettled_foot brkK w0 rfl cfg) (ensureSettled_never cfg)
    (fin_foot_brk cfg e0)

theorem ensureSettled_live :
    ⦃fun w => ⌜LiveW cfg w⌝⦄ ensureSettled cfg
    ⦃post⟨fun _ w => ⌜LiveW cfg w⌝, fun _ w => ⌜LiveW cfg w ∧ False⌝⟩⦄ :=
  inv_org_of_foot (LiveW cfg) (fun w0 => ensureSettled_foot inertK w0 rfl cfg) (ensureSettled_never cfg)
    (liveW_foot cfg)

theorem ensureSettled_finO (o : Outcome) :
    ⦃fun w => ⌜FinO cfg o w⌝⦄ ensureSettled cfg
    ⦃post⟨fun _ w => ⌜FinO cfg o w⌝, fun _ w => ⌜FinO cfg o w ∧ False⌝⟩⦄ :=
  inv_org_of_foot (FinO cfg o) (fun w0 => ensureSettled_foot inertK w0 rfl cfg) (ensureSettled_never cfg)
    (finO_foot cfg o)

theorem handleExhaustedCall_polA (e0 e : Exn) :
    ⦃fun w => ⌜PolA cfg e0 w⌝⦄ handleExhaustedCall cfg e
    ⦃post⟨fun _ w => ⌜PolA cfg e0 w⌝, fun e' w => ⌜PolA cfg e0 w ∧ (e' = .stuck ∨ Raised w.trace e')⌝⟩⦄ :=
  inv_org_of_foot (PolA cfg e0) (fun w0 => handleExhaustedCall_foot inertK w0 rfl rfl rfl cfg e)
    (handleExhaustedCall_org cfg e) (polA_foot cfg e0)

theorem handleExceptionCall_polA (e0 e : Exn) (b : Bool) :
    ⦃fun w => ⌜PolA cfg e0 w⌝⦄ handleExceptionCall cfg e b
    ⦃post⟨fun _ w => ⌜PolA cfg e0 w⌝, fun e' w => ⌜PolA cfg e0 w ∧ (e' = .stuck ∨ Raised w.trace e')⌝⟩⦄ :=
  inv_org_of_foot (PolA cfg e0) (fun w0 => handleExceptionCall_foot inertK w0 rfl rfl rfl rfl rfl cfg e b)
    (handleExceptionCall_org cfg e b) (polA_foot cfg e0)

theorem handleAbortCall_polA (e0 e : Exn) :
    ⦃fun w => ⌜PolA cfg e0 w⌝⦄ handleAbortCall cfg e
    ⦃post⟨fun _ w => ⌜PolA cfg e0 w⌝, fun e' w => ⌜PolA cfg e0 w ∧ (e' = .stuck ∨ Raised w.trace e')⌝⟩⦄ :=
  inv_org_of_foot (PolA cfg e0) (fun w0 => handleAbortCall_foot inertK w0 rfl rfl cfg e)
    (handleAbortCall_org cfg e) (polA_foot cfg e0)

theorem recordSuccess_live :
    ⦃fun w => ⌜LiveW cfg w⌝⦄ Policy.recordSuccess cfg
    ⦃post⟨fun _ w => ⌜LiveW cfg w⌝, fun e' w => ⌜LiveW cfg w ∧ (e' = .stuck ∨ Raised w.trace e')⌝⟩⦄ :=
  inv_org_of_foot (LiveW cfg) (fun w0 => recordSuccess_foot inertK w0 rfl rfl rfl cfg)
    (recordSuccess_org cfg) (liveW_foot cfg)

theorem checkBreaker_live :
    ⦃fun w => ⌜LiveW cfg w⌝⦄ checkBreaker cfg
    ⦃post⟨fun _ w => ⌜LiveW cfg w⌝, fun _ w => ⌜LiveW cfg w⌝⟩⦄ :=
  inv_of_foot (LiveW cfg) (fun w0 => checkBreaker_foot inertK w0 rfl rfl rfl cfg) (liveW_foot cfg)

theorem initCtx_live :
    ⦃fun w => ⌜LiveW cfg w⌝⦄ initCtx
    ⦃post⟨fun _ w => ⌜LiveW cfg w⌝, fun _ w => ⌜LiveW cfg w⌝⟩⦄ :=
  inv_of_foot (LiveW cfg) (fun w0 => initCtx_foot inertK w0) (liveW_foot cfg)

/-- the `except` ladder of `Policy.call`: whatever was in flight stays acceptable; after a
    cancellation only `record_cancel` happens -/
theorem callLadder_spec (e : Exn) :
    ⦃fun w => ⌜Fin cfg e w⌝⦄ callLadder cfg e
    ⦃post⟨fun _ _ => ⌜False⌝, fun e' w => ⌜Fin cfg e' w⌝⟩⦄ := by
  have h1 := recordCancel_fin cfg e
  have h2 := handleAbortCall_polA cfg e e
  have h3 := handleExhaustedCall_polA cfg e e
  have h4 := handleExceptionCall_polA cfg e e true
  mvcgen [callLadder, h1, h2, h3, h4]
  c13p

theorem callAdmitted_retry (hret : cfg.hasRetry = true) :
    ⦃fun w => ⌜LiveW cfg w⌝⦄ callAdmitted cfg ⦃livePost cfg⦄ := by
  have h1 := checkBreaker_live cfg
  have h2 := runCall_spec cfg
  have h3 := recordSuccess_live cfg
  have h4 := callLadder_spec cfg
  unfold callAdmitted
  simp only [hret, if_true]
  mvcgen [h1, h2, h3, h4]
  c13p

/-- `Policy.call` with a retry component -/
theorem call_retry_spec (hret : cfg.hasRetry = true) :
    ⦃fun w => ⌜LiveW cfg w⌝⦄ Policy.call cfg ⦃livePost cfg⦄ := by
  have h0 := initCtx_live cfg
  have hw : ⦃fun w => ⌜LiveW cfg w⌝⦄ withFinally (callAdmitted cfg) (ensureSettled cfg) ⦃livePost cfg⦄ :=
    withFinally_rule (callAdmitted_retry cfg hret)
      (fun e => weaken (ensureSettled_fin cfg e) (fun _ h => h) (fun _ _ h => h) (fun _ _ h => h.2.elim))
      (fun _ => weaken (ensureSettled_live cfg) (fun _ h => h) (fun _ _ h => h) (fun _ _ h => h.2.elim))
  mvcgen [Policy.call, h0, hw]
  c13p

theorem executeLadder_spec (e : Exn) :
    ⦃fun w => ⌜Fin cfg e w⌝⦄ executeLadder cfg e
    ⦃post⟨fun _ _ => ⌜False⌝, fun e' w => ⌜Fin cfg e' w⌝⟩⦄ := by
  have h1 := recordCancel_fin cfg e
  have h3 := handleExhaustedCall_polA cfg e e
  have h4 := handleExceptionCall_polA cfg e e false
  mvcgen [executeLadder, h1, h3, h4]
  c13p

theorem recordSuccess_finO (o : Outcome) :
    ⦃fun w => ⌜FinO cfg o w⌝⦄ Policy.recordSuccess cfg
    ⦃post⟨fun _ w => ⌜FinO cfg o w⌝, fun e' w => ⌜FinO cfg o w ∧ (e' = .stuck ∨ Raised w.trace e')⌝⟩⦄ :=
  inv_org_of_foot (FinO cfg o) (fun w0 => recordSuccess_foot inertK w0 rfl rfl rfl cfg)
    (recordSuccess_org cfg) (finO_foot cfg o)

theorem recordFailure_finO (o : Outcome) (k : EClass) :
    ⦃fun w => ⌜FinO cfg o w⌝⦄ Policy.recordFailure cfg k
    ⦃post⟨fun _ w => ⌜FinO cfg o w⌝, fun e' w => ⌜FinO cfg o w ∧ (e' = .stuck ∨ Raised w.trace e')⌝⟩⦄ :=
  inv_org_of_foot (FinO cfg o) (fun w0 => recordFailure_foot inertK w0 rfl rfl rfl cfg k)
    (recordFailure_org cfg k) (finO_foot cfg o)

theorem recordCancel_finO (o : Outcome) :
    ⦃fun w => ⌜FinO cfg o w⌝⦄ Policy.recordCancel cfg
    ⦃post⟨fun _ w => ⌜FinO cfg o w⌝, fun _ w => ⌜FinO cfg o w ∧ False⌝⟩⦄ :=
  inv_org_of_foot (FinO cfg o) (fun w0 => recordCancel_foot inertK w0 rfl cfg)
    (recordCancel_never cfg) (finO_foot cfg o)

abbrev outPost (cfg : Cfg) : PostCond Outcome (.except Exn (.arg World .pure)) :=
  post⟨fun o w => ⌜FinO cfg o w⌝, fun e w => ⌜Fin cfg e w⌝⟩

theorem executeWithRetry_spec :
    ⦃fun w => ⌜LiveW cfg w⌝⦄ executeWithRetry cfg ⦃outPost cfg⦄ := by
  have h1 := runExecute_spec cfg
  have h2 := executeLadder_spec cfg
  have h3 := recordSuccess_finO cfg
  have h4 := recordFailure_finO cfg
  have h5 := recordCancel_finO cfg
  mvcgen [executeWithRetry, h1, h2, h3, h4, h5]
  c13p

theorem policyOutcome_live (ok : Bool) (value : Option Nat) (stop : Option StopReason) (attempts : Nat)
    (lc : Option EClass) (le : Option String) (cause : Option Cause) :
    ⦃fun w => ⌜LiveW cfg w⌝⦄ policyOutcome ok value stop attempts lc le cause
    ⦃post⟨fun _ w => ⌜LiveW cfg w⌝, fun _ w => ⌜LiveW cfg w⌝⟩⦄ :=
  inv_of_foot (LiveW cfg) (fun w0 => policyOutcome_foot inertK w0 ok value stop attempts lc le cause)
    (liveW_foot cfg)

theorem breakerAllow_live (bc : Breaker.Cfg) :
    ⦃fun w => ⌜LiveW cfg w⌝⦄ breakerAllow bc
    ⦃post⟨fun _ w => ⌜LiveW cfg w⌝, fun _ w => ⌜LiveW cfg w⌝⟩⦄ :=
  inv_of_foot (LiveW cfg) (fun w0 => breakerAllow_foot inertK w0 rfl bc) (liveW_foot cfg)

theorem emitBreakerEvent_live (ev : Option Event) (st : CState) (k : Option EClass) :
    ⦃fun w => ⌜LiveW cfg w⌝⦄ emitBreakerEvent cfg ev st k
    ⦃post⟨fun _ w => ⌜LiveW cfg w⌝, fun _ w => ⌜LiveW cfg w⌝⟩⦄ :=
  inv_of_foot (LiveW cfg) (fun w0 => emitBreakerEvent_foot inertK w0 rfl rfl cfg ev st k) (liveW_foot cfg)

theorem executeAdmitted2_retry (hret : cfg.hasRetry = true) :
    ⦃fun w => ⌜LiveW cfg w⌝⦄ executeAdmitted2 cfg ⦃outPost cfg⦄ := by
  have h1 := executeWithRetry_spec cfg
  unfold executeAdmitted2
  simp only [hret, if_true]
  mvcgen [h1]
  c13p

theorem executeAdmitted_retry (hret : cfg.hasRetry = true) :
    ⦃fun w => ⌜LiveW cfg w⌝⦄ executeAdmitted cfg ⦃outPost cfg⦄ := by
  have h1 := executeAdmitted2_retry cfg hret
  have h2 := breakerAllow_live cfg
  have h3 := emitBreakerEvent_live cfg
  have h4 := policyOutcome_live cfg
  mvcgen [executeAdmitted, h1, h2, h3, h4]
  c13p

/-- `Policy.execute` with a retry component -/
theorem execute_retry_spec (hret : cfg.hasRetry = true) :
    ⦃fun w => ⌜LiveW cfg w⌝⦄ Policy.execute cfg ⦃outPost cfg⦄ := by
  have h0 := initCtx_live cfg
  have hw : ⦃fun w => ⌜LiveW cfg w⌝⦄ withFinally (executeAdmitted cfg) (ensureSettled cfg) ⦃outPost cfg⦄ :=
    withFinally_rule (executeAdmitted_retry cfg hret)
      (fun e => weaken (ensureSettled_fin cfg e) (fun _ h => h) (fun _ _ h => h) (fun _ _ h => h.2.elim))
      (fun o => weaken (ensureSettled_finO cfg o) (fun _ h => h) (fun _ _ h => h) (fun _ _ h => h.2.elim))
  mvcgen [Policy.execute, h0, hw]
  c13p

end policySpecs

/-! ### policies without a retry component -/

theorem recordCancel_v (v : Option St) (cfg : Cfg) :
    ⦃fun w => ⌜view cfg w = v⌝⦄ Policy.recordCancel cfg
    ⦃post⟨fun _ w => ⌜view cfg w = v⌝, fun _ w => ⌜view cfg w = v ∧ False⌝⟩⦄ :=
  leaf_of cfg (fun w0 => recordCancel_foot inertK w0 rfl cfg) (recordCancel_never cfg) v

theorem checkAbortNoRetry_spec (cfg : Cfg) (m : St) (hm : Live m) :
    ⦃fun w => ⌜view cfg w = some m⌝⦄ checkAbortNoRetry cfg
    ⦃post⟨fun b w => ⌜(b = false → view cfg w = some (pollOk cfg m)) ∧
              (b = true → view cfg w = some { m with polled := true, aborted := true })⌝,
          fun e w => ⌜FinS cfg e w⌝⟩⦄ := by
  obtain ⟨h1, h2, h3⟩ := hm
  have hrc := recordCancel_v
  mvcgen [checkAbortNoRetry, ask_cur, hrc]
  all_goals ((try subst_vars) <;> (try intros) <;> (try simp only [view, finS_iff] at *) <;>
    simp_all [viewOf_eq_some, viewOf_of_none, step_abortIf, saysAbort, pollOk, Org, Exn.isAbort,
      Exn.isException])

theorem checkAbortNoRetry_w (cfg : Cfg) :
    ⦃fun w => ⌜LiveW cfg w⌝⦄ checkAbortNoRetry cfg
    ⦃post⟨fun b w => ⌜(b = false → ReadyW cfg w) ∧ (b = true → QuietW cfg w)⌝,
          fun e w => ⌜FinS cfg e w⌝⟩⦄ := by
  apply triple_of_run
  intro w hw
  have := adequacy (checkAbortNoRetry_spec cfg _ hw) w (view_eq_some.mpr ⟨rfl, hw.cancelled⟩)
  split <;> simp_all
  obtain ⟨h1, h2, h3⟩ := hw
  refine ⟨fun hb => ?_, fun hb => ?_⟩
  · have h := (view_eq_some.mp (this.1 hb)).1
    unfold ReadyW
    rw [h]
    exact (Live.mk h1 h2 h3).pollOk
  · have h := (view_eq_some.mp (this.2 hb)).1
    unfold QuietW
    rw [h]
    exact ⟨h2, h3⟩

section noRetry
variable (cfg : Cfg)

theorem noRetryStartHook_ready :
    ⦃fun w => ⌜ReadyW cfg w⌝⦄ noRetryStartHook cfg
    ⦃post⟨fun _ w => ⌜ReadyW cfg w⌝, fun _ w => ⌜ReadyW cfg w⌝⟩⦄ :=
  inv_of_foot (ReadyW cfg) (fun w0 => noRetryStartHook_foot inertK w0 rfl cfg) (fun w w' h hr => by
    unfold ReadyW at *
    rw [cur_foot_inert cfg w w' h hr.cancelled]
    exact hr)

theorem noRetryEndHook_live (exc : Option Exn) (r : Option Nat) (d : AttemptDecision)
    (stop : Option StopReason) (cause : Option Cause) :
    ⦃fun w => ⌜LiveW cfg w⌝⦄ noRetryEndHook cfg exc r d stop cause
    ⦃post⟨fun _ w => ⌜LiveW cfg w⌝, fun _ w => ⌜LiveW cfg w⌝⟩⦄ :=
  inv_of_foot (LiveW cfg) (fun w0 => noRetryEndHook_foot inertK w0 rfl cfg exc r d stop cause)
    (liveW_foot cfg)

theorem callWithoutRetry_spec :
    ⦃fun w => ⌜ReadyW cfg w⌝⦄ callWithoutRetry cfg
    ⦃post⟨fun _ w => ⌜LiveW cfg w⌝, fun e w => ⌜Fin cfg e w⌝⟩⦄ := by
  have h1 := noRetryStartHook_ready cfg
  have h2 := invokeOp_w cfg
  have h3 := noRetryEndHook_live cfg
  mvcgen [callWithoutRetry, h1, h2, h3]
  c13p

theorem callAdmitted_nr (hret : cfg.hasRetry = false) :
    ⦃fun w => ⌜LiveW cfg w⌝⦄ callAdmitted cfg ⦃livePost cfg⦄ := by
  have h1 := checkBreaker_live cfg
  have h2 := callWithoutRetry_spec cfg
  have h3 := recordSuccess_live cfg
  have h4 := callLadder_spec cfg
  have h5 := checkAbortNoRetry_w cfg
  unfold callAdmitted
  simp only [hret, Bool.false_eq_true, if_false]
  mvcgen [h1, h2, h3, h4, h5]
  c13p

/-- `Policy.call` without a retry component -/
theorem call_nr_spec (hret : cfg.hasRetry = false) :
    ⦃fun w => ⌜LiveW cfg w⌝⦄ Policy.call cfg ⦃livePost cfg⦄ := by
  have h0 := initCtx_live cfg
  have hw : ⦃fun w => ⌜LiveW cfg w⌝⦄ withFinally (callAdmitted cfg) (ensureSettled cfg) ⦃livePost cfg⦄ :=
    withFinally_rule (callAdmitted_nr cfg hret)
      (fun e => weaken (ensureSettled_fin cfg e) (fun _ h => h) (fun _ _ h => h) (fun _ _ h => h.2.elim))
      (fun _ => weaken (ensureSettled_live cfg) (fun _ h => h) (fun _ _ h => h) (fun _ _ h => h.2.elim))
  mvcgen [Policy.call, h0, hw]
  c13p

theorem quietW_foot (w w' : World) (h : Foot inertK w w') (hq : QuietW cfg w) : QuietW cfg w' := by
  unfold QuietW at *
  rw [cur_foot_inert cfg w w' h hq.1]
  exact hq

theorem noRetryEndHook_quiet (exc : Option Exn) (r : Option Nat) (d : AttemptDecision)
    (stop : Option StopReason) (cause : Option Cause) :
    ⦃fun w => ⌜QuietW cfg w⌝⦄ noRetryEndHook cfg exc r d stop cause
    ⦃post⟨fun _ w => ⌜QuietW cfg w⌝, fun e' w => ⌜QuietW cfg w ∧ (e' = .stuck ∨ Raised w.trace e')⌝⟩⦄ :=
  inv_org_of_foot (QuietW cfg) (fun w0 => noRetryEndHook_foot inertK w0 rfl cfg exc r d stop cause)
    (noRetryEndHook_org cfg exc r d stop cause) (quietW_foot cfg)

theorem policyOutcome_quiet (ok : Bool) (value : Option Nat) (stop : Option StopReason) (attempts : Nat)
    (lc : Option EClass) (le : Option String) (cause : Option Cause) :
    ⦃fun w => ⌜QuietW cfg w⌝⦄ policyOutcome ok value stop attempts lc le cause
    ⦃post⟨fun o w => ⌜o.stop = stop ∧ QuietW cfg w⌝, fun _ _ => ⌜False⌝⟩⦄ := by
  mvcgen [policyOutcome, xElapsed]

theorem recordCancel_quiet :
    ⦃fun w => ⌜QuietW cfg w⌝⦄ Policy.recordCancel cfg
    ⦃post⟨fun _ w => ⌜QuietW cfg w⌝, fun _ w => ⌜QuietW cfg w ∧ False⌝⟩⦄ :=
  inv_org_of_foot (QuietW cfg) (fun w0 => recordCancel_foot inertK w0 rfl cfg) (recordCancel_never cfg)
    (quietW_foot cfg)

theorem recordFailure_live (k : EClass) :
    ⦃fun w => ⌜LiveW cfg w⌝⦄ Policy.recordFailure cfg k
    ⦃post⟨fun _ w => ⌜LiveW cfg w⌝, fun _ w => ⌜LiveW cfg w⌝⟩⦄ :=
  inv_of_foot (LiveW cfg) (fun w0 => recordFailure_foot inertK w0 rfl rfl rfl cfg k) (liveW_foot cfg)

/-- the `except` ladder of `_execute_without_retry` -/
theorem noRetryLadder_spec (e : Exn) :
    ⦃fun w => ⌜FinS cfg e w⌝⦄ noRetryLadder cfg e ⦃outPost cfg⦄ := by
  by_cases ha : e.isAbort = true
  · have h1 := recordCancel_quiet cfg
    have h2 := noRetryEndHook_quiet cfg
    have h3 := policyOutcome_quiet cfg
    unfold noRetryLadder
    simp only [ha, if_true]
    mvcgen [h1, h2, h3]
    c13p
  · by_cases hx : e.isException = true
    · have hc : ¬ e = .cancelled := by rintro rfl; simp [Exn.isException] at hx
      have hk : e.isKiSe = false := by cases e <;> simp_all [Exn.isKiSe, Exn.isException]
      have h1 := recordFailure_live cfg
      have h2 := noRetryEndHook_live cfg
      have h3 := policyOutcome_live cfg
      unfold noRetryLadder
      simp only [ha, hc, hk, hx, Bool.false_eq_true, if_false, if_true, Bool.and_false, decide_false]
      mvcgen [h1, h2, h3]
      c13p
    · have h1 := recordCancel_fin cfg e
      unfold noRetryLadder
      simp only [ha, hx, Bool.false_eq_true, if_false]
      mvcgen [h1]
      c13p

theorem executeWithoutRetry_spec :
    ⦃fun w => ⌜ReadyW cfg w⌝⦄ executeWithoutRetry cfg ⦃outPost cfg⦄ := by
  have h1 := noRetryStartHook_ready cfg
  have h2 := invokeOp_w cfg
  have h3 := noRetryLadder_spec cfg
  have h4 := recordSuccess_live cfg
  have h5 := noRetryEndHook_live cfg
  have h6 := policyOutcome_live cfg
  mvcgen [executeWithoutRetry, h1, h2, h3, h4, h5, h6]
  c13p

theorem executeAdmitted2_nr (hret : cfg.hasRetry = false) :
    ⦃fun w => ⌜LiveW cfg w⌝⦄ executeAdmitted2 cfg ⦃outPost cfg⦄ := by
  have h1 := executeWithoutRetry_spec cfg
  have h2 := checkAbortNoRetry_w cfg
  have h3 := policyOutcome_quiet cfg
  unfold executeAdmitted2
  simp only [hret, Bool.false_eq_true, if_false]
  mvcgen [h1, h2, h3]
  c13p

theorem executeAdmitted_nr (hret : cfg.hasRetry = false) :
    ⦃fun w => ⌜LiveW cfg w⌝⦄ executeAdmitted cfg ⦃outPost cfg⦄ := by
  have h1 := executeAdmitted2_nr cfg hret
  have h2 := breakerAllow_live cfg
  have h3 := emitBreakerEvent_live cfg
  have h4 := policyOutcome_live cfg
  mvcgen [executeAdmitted, h1, h2, h3, h4]
  c13p

/-- `Policy.execute` without a retry component -/
theorem execute_nr_spec (hret : cfg.hasRetry = false) :
    ⦃fun w => ⌜LiveW cfg w⌝⦄ Policy.execute cfg ⦃outPost cfg⦄ := by
  have h0 := initCtx_live cfg
  have hw : ⦃fun w => ⌜LiveW cfg w⌝⦄ withFinally (executeAdmitted cfg) (ensureSettled cfg) ⦃outPost cfg⦄ :=
    withFinally_rule (executeAdmitted_nr cfg hret)
      (fun e => weaken (ensureSettled_fin cfg e) (fun _ h => h) (fun _ _ h => h) (fun _ _ h => h.2.elim))
      (fun o => weaken (ensureSettled_finO cfg o) (fun _ h => h) (fun _ _ h => h) (fun _ _ h => h.2.elim))
  mvcgen [Policy.execute, h0, hw]
  c13p

end noRetry

/-! ### the theorems -/

theorem raised_reverse (t : List (Req × Ans)) (e : Exn) : Raised t.reverse e ↔ Raised t e := by
  unfold Raised
  simp

theorem verdict_of_live {t : Trace} {m : St} (v : Nat) (h : Live m) : verdict t m (.ret v) = true := by
  simp [verdict, h.aborted, h.cancelled, h.bad]

theorem verdict_of_fin {cfg : Cfg} {e : Exn} {w : World} (h : Fin cfg e w) :
    verdict w.trace.reverse (cur cfg w.trace) (.raised e) = true := by
  obtain ⟨h1, h2, h3⟩ := h
  unfold verdict
  cases hc : (cur cfg w.trace).cancelled with
  | some c =>
    obtain ⟨rfl, _⟩ := h2 c hc
    simp [h1]
  | none =>
    cases ha : (cur cfg w.trace).aborted with
    | false => simp [h1]
    | true =>
      have := h3 ha hc
      simp only [h1, Bool.not_false, Bool.true_and, Option.isNone_none, Bool.and_self, if_true,
        Bool.or_eq_true, beq_iff_eq, raisedBy_iff, raised_reverse]
      rcases this with h | h | h
      · exact Or.inl (Or.inl h)
      · exact Or.inl (Or.inr h)
      · exact Or.inr h

theorem verdict_of_finO {cfg : Cfg} {o : Outcome} {w : World} (tl : List TimelineEv) (h : FinO cfg o w) :
    verdict w.trace.reverse (cur cfg w.trace) (.outcome o tl) = true := by
  obtain ⟨h1, h2, h3⟩ := h
  unfold verdict
  cases ha : (cur cfg w.trace).aborted with
  | false => simp [h1, h2]
  | true => simp [h1, h2, h3 ha]

/-- the world `runEntry` starts a call from -/
def startWorld (w : World) : World := { w with trace := [], timeline := [], opCalls := 0 }

theorem live_start (cfg : Cfg) (w : World) : LiveW cfg (startWorld w) := ⟨rfl, rfl, rfl⟩

/--
**C13.**  For every configuration, every entry point (`Retry`/`Policy` × `call`/`execute`, with or
without a retry component; the async twins, `RetryPolicy`, contexts and `@retry` are these by argument
forwarding) and every world — every answer stream (any outcome sequence, any callback raising anything
at any invocation, `abort_if` answering True at any poll index, a cancellation-type exception at any
attempt or sleep), every clock value, every state of a shared budget or breaker — the run satisfies
the abort/cancellation monitor:

* when `abort_if` is given it is polled before every invocation of the operation and before every
  backoff sleep (since the previous invocation / sleep);
* once a poll answered True or the operation raised `AbortRetryError`, the operation is not invoked
  again and no sleep is started, and the call ends with `AbortRetryError` / an ABORTED outcome (or
  with the error some *other* callback raised afterwards);
* once the operation or a sleep raised CancelledError / KeyboardInterrupt / SystemExit /
  GeneratorExit, nothing but breaker bookkeeping follows (no classification, retry, sleep, hook or
  event) and the call raises exactly that exception.
-/
theorem abort_cancel_hold (cfg : Cfg) (e : Entry) (w : World) :
    Mon.C13.ok cfg e (runEntry cfg e w).2.trace.reverse (runEntry cfg e w).1 = true := by
  unfold Mon.C13.ok
  rw [run_reverse]
  cases e with
  | call =>
    have := adequacy (runCall_spec cfg) (startWorld w) (live_start cfg w)
    simp only [runEntry, startWorld] at this ⊢
    split at this <;> rename_i heq <;> simp only [heq, toRes]
    · exact verdict_of_live _ this
    · exact verdict_of_fin this
  | execute =>
    have := adequacy (runExecute_spec cfg) (startWorld w) (live_start cfg w)
    simp only [runEntry, startWorld] at this ⊢
    split at this <;> rename_i heq <;> simp only [heq, toResO]
    · exact verdict_of_finO _ this
    · exact verdict_of_fin this
  | pcall =>
    cases hret : cfg.hasRetry with
    | false =>
      have := adequacy (call_nr_spec cfg hret) (startWorld w) (live_start cfg w)
      simp only [runEntry, startWorld] at this ⊢
      split at this <;> rename_i heq <;> simp only [heq, toRes]
      · exact verdict_of_live _ this
      · exact verdict_of_fin this
    | true =>
      have := adequacy (call_retry_spec cfg hret) (startWorld w) (live_start cfg w)
      simp only [runEntry, startWorld] at this ⊢
      split at this <;> rename_i heq <;> simp only [heq, toRes]
      · exact verdict_of_live _ this
      · exact verdict_of_fin this
  | pexecute =>
    cases hret : cfg.hasRetry with
    | false =>
      have := adequacy (execute_nr_spec cfg hret) (startWorld w) (live_start cfg w)
      simp only [runEntry, startWorld] at this ⊢
      split at this <;> rename_i heq <;> simp only [heq, toResO]
      · exact verdict_of_finO _ this
      · exact verdict_of_fin this
    | true =>
      have := adequacy (execute_retry_spec cfg hret) (startWorld w) (live_start cfg w)
      simp only [runEntry, startWorld] at this ⊢
      split at this <;> rename_i heq <;> simp only [heq, toResO]
      · exact verdict_of_finO _ this
      · exact verdict_of_fin this


/-- …and therefore of every call in every script of calls and clock advances on ONE policy object. -/
theorem abort_cancel_hold_script (cfg : Cfg) : ∀ (steps : List Step) (w : World),
    ∀ l ∈ (runScript cfg steps w).1, Mon.C13.ok cfg l.entry l.trace l.res = true := by
  intro steps
  induction steps with
  | nil => intro w l hl; simp [runScript] at hl
  | cons st rest ih =>
    intro w l hl
    cases st with
    | advance d => exact ih _ l (by simpa [runScript] using hl)
    | run e =>
      simp only [runScript, List.mem_cons] at hl
      rcases hl with rfl | hl
      · exact abort_cancel_hold cfg e w
      · exact ih _ l hl

/-! ### the conjuncts, read off the accepted log -/

theorem run_append (cfg : Cfg) (p q : Trace) : run cfg (p ++ q) = q.foldl (step cfg) (run cfg p) := by
  simp [run, List.foldl_append]

theorem bad_step (cfg : Cfg) (s : St) (x : Req × Ans) (h : (step cfg s x).bad = false) : s.bad = false := by
  obtain ⟨r, a⟩ := x
  cases hb : s.bad with
  | false => rfl
  | true =>
    exfalso
    revert h
    cases r <;> simp [step, hb] <;> (repeat' split) <;> simp_all

theorem bad_fold (cfg : Cfg) (q : Trace) : ∀ s, (q.foldl (step cfg) s).bad = false → s.bad = false := by
  induction q with
  | nil => exact fun _ h => h
  | cons x q ih => exact fun s h => bad_step cfg s x (ih _ h)

/-- the monitor state before the exchange `x` of an accepted log `p ++ x :: q` is not `bad`, and
    neither is the state after it -/
theorem bad_at (cfg : Cfg) (p q : Trace) (x : Req × Ans) (h : (run cfg (p ++ x :: q)).bad = false) :
    (step cfg (run cfg p) x).bad = false := by
  rw [run_append] at h
  exact bad_fold cfg q _ h

/-- a poll since the last attempt / sleep (newest-first log) -/
def PolledSince (tr : List (Req × Ans)) : Prop :=
  ∃ p2 a p1, tr = p2 ++ (Req.abortIf, a) :: p1 ∧ ∀ y ∈ p2, isOp y.1 = false ∧ isSleeper y.1 = false

theorem polled_iff (cfg : Cfg) (tr : List (Req × Ans)) :
    (cur cfg tr).polled = true ↔ PolledSince tr := by
  induction tr with
  | nil => simp [cur, PolledSince]
  | cons x tr ih =>
    obtain ⟨r, a⟩ := x
    rw [cur_cons]
    by_cases hr : r = .abortIf
    · subst hr
      have : (step cfg (cur cfg tr) (Req.abortIf, a)).polled = true := by
        simp only [step]; (repeat' split) <;> simp_all
      simp only [this, true_iff]
      exact ⟨[], a, tr, rfl, by simp⟩
    · by_cases ho : isOp r = true ∨ isSleeper r = true
      · have : (step cfg (cur cfg tr) (r, a)).polled = false := by
          cases r <;> simp_all [step, isOp, isSleeper] <;> (repeat' split) <;> simp_all
        simp only [this, Bool.false_eq_true, false_iff]
        rintro ⟨p2, a', p1, he, hall⟩
        cases p2 with
        | nil => simp at he; exact hr he.1.1
        | cons y p2 =>
          simp at he
          have := hall y (by simp)
          rw [← he.1] at this
          simp at this
          rcases ho with ho | ho <;> simp_all
      · have hk : (step cfg (cur cfg tr) (r, a)).polled = (cur cfg tr).polled := by
          cases r <;> simp_all [step, isOp, isSleeper] <;> (repeat' split) <;> simp_all
        rw [hk, ih]
        constructor
        · rintro ⟨p2, a', p1, he, hall⟩
          refine ⟨(r, a) :: p2, a', p1, by simp [he], ?_⟩
          intro y hy
          rcases List.mem_cons.mp hy with rfl | hy
          · simpa using ho
          · exact hall y hy
        · rintro ⟨p2, a', p1, he, hall⟩
          cases p2 with
          | nil => simp at he; exact absurd he.1.1 hr
          | cons y p2 =>
            simp at he
            exact ⟨p2, a', p1, he.2, fun z hz => hall z (by simp [hz])⟩

/-- an abort signal: the predicate answered True, or the operation raised `AbortRetryError` -/
def AbortSignal (y : Req × Ans) : Prop :=
  (y.1 = .abortIf ∧ ∃ d, y.2 = .bool true d) ∨
  (isOp y.1 = true ∧ ∃ e d, y.2 = .raise e d ∧ e.isAbort = true)

theorem aborted_step (cfg : Cfg) (s : St) (x : Req × Ans) :
    (step cfg s x).aborted = true ↔ s.aborted = true ∨ AbortSignal x := by
  obtain ⟨r, a⟩ := x
  unfold AbortSignal
  cases r <;> simp [step, isOp] <;> (repeat' split) <;> simp_all

theorem aborted_iff (cfg : Cfg) (tr : List (Req × Ans)) :
    (cur cfg tr).aborted = true ↔ ∃ y ∈ tr, AbortSignal y := by
  induction tr with
  | nil => simp [cur]
  | cons x tr ih =>
    rw [cur_cons, aborted_step, ih]
    simp only [List.mem_cons, exists_eq_or_imp]
    exact Or.comm

theorem isRecord_step (cfg : Cfg) (s : St) (x : Req × Ans) (h : isRecord x.1 = true) : step cfg s x = s := by
  obtain ⟨r, a⟩ := x
  cases r <;> simp_all [isRecord, step] <;> (split <;> simp_all)

theorem bad_of_cancelled (cfg : Cfg) (s : St) (x : Req × Ans) (c : Exn) (hc : s.cancelled = some c)
    (hr : isRecord x.1 = false) : (step cfg s x).bad = true := by
  obtain ⟨r, a⟩ := x
  cases r <;> simp_all [isRecord, step] <;> (repeat' split) <;> simp_all

/-- once a cancellation has been seen, an accepted log continues with breaker bookkeeping only -/
theorem after_cancel (cfg : Cfg) (c : Exn) (q : Trace) : ∀ s, s.cancelled = some c →
    (q.foldl (step cfg) s).bad = false →
    (∀ y ∈ q, isRecord y.1 = true) ∧ (q.foldl (step cfg) s).cancelled = some c := by
  induction q with
  | nil => exact fun s hc _ => ⟨by simp, hc⟩
  | cons x q ih =>
    intro s hc hb
    cases hr : isRecord x.1 with
    | false =>
      have := bad_fold cfg q _ hb
      rw [bad_of_cancelled cfg s x c hc hr] at this
      cases this
    | true =>
      simp only [List.foldl_cons, isRecord_step cfg s x hr] at hb ⊢
      obtain ⟨h1, h2⟩ := ih s hc hb
      exact ⟨by simpa [hr] using h1, h2⟩

theorem cancel_step (cfg : Cfg) (s : St) (x : Req × Ans) (e : Exn) (d : Nat)
    (hx : isOp x.1 = true ∨ isSleeper x.1 = true) (ha : x.2 = .raise e d) (hk : e.isCancelKind = true) :
    (step cfg s x).cancelled = some e := by
  obtain ⟨r, a⟩ := x
  have hab := isCancelKind_not_abort hk
  simp only at ha
  subst ha
  cases r <;> simp_all [step, isOp, isSleeper]

/-- what acceptance by the monitor means -/
def Accepted (cfg : Cfg) (t : Trace) (r : Res) : Prop := verdict t (run cfg t) r = true

theorem Accepted.bad {cfg : Cfg} {t : Trace} {r : Res} (h : Accepted cfg t r) : (run cfg t).bad = false := by
  unfold Accepted verdict at h
  simp only [Bool.and_eq_true, Bool.not_eq_true'] at h
  exact h.1.1

/-- **`abort_if` is consulted before every attempt**: in an accepted log, between an invocation of the
    operation and the previous invocation or sleep (or the start of the call) there is a poll. -/
theorem poll_before_every_attempt {cfg : Cfg} {t : Trace} {r : Res} (h : Accepted cfg t r)
    (hab : cfg.abortIf = true) (p q : Trace) (x : Req × Ans) (ht : t = p ++ x :: q)
    (hx : isOp x.1 = true) : PolledSince p.reverse := by
  have hb := bad_at cfg p q x (ht ▸ h.bad)
  rw [← polled_iff cfg, ← run_reverse, List.reverse_reverse]
  obtain ⟨rq, a⟩ := x
  cases rq <;> simp_all [isOp, step]
  revert hb
  (repeat' split) <;> simp_all

/-- **…and before every backoff sleep** -/
theorem poll_before_every_sleep {cfg : Cfg} {t : Trace} {r : Res} (h : Accepted cfg t r)
    (hab : cfg.abortIf = true) (p q : Trace) (x : Req × Ans) (ht : t = p ++ x :: q)
    (hx : isSleeper x.1 = true) : PolledSince p.reverse := by
  have hb := bad_at cfg p q x (ht ▸ h.bad)
  rw [← polled_iff cfg, ← run_reverse, List.reverse_reverse]
  obtain ⟨rq, a⟩ := x
  cases rq <;> simp_all [isSleeper, step]
  revert hb
  (repeat' split) <;> simp_all

/-- **once aborted, the operation is not invoked again and no sleep is started** -/
theorem nothing_after_abort {cfg : Cfg} {t : Trace} {r : Res} (h : Accepted cfg t r)
    (p q : Trace) (x : Req × Ans) (ht : t = p ++ x :: q)
    (hx : isOp x.1 = true ∨ isSleeper x.1 = true) : ¬ ∃ y ∈ p, AbortSignal y := by
  have hb := bad_at cfg p q x (ht ▸ h.bad)
  intro hy
  have : (run cfg p).aborted = true := by
    rw [← List.reverse_reverse p, run_reverse, aborted_iff]
    simpa using hy
  obtain ⟨rq, a⟩ := x
  cases rq <;> simp_all [isOp, isSleeper, step] <;> (revert hb; (repeat' split) <;> simp_all)

/-- a cancellation signal: the operation or a sleep raised CancelledError / KeyboardInterrupt /
    SystemExit / GeneratorExit -/
def CancelSignal (y : Req × Ans) : Prop :=
  (isOp y.1 = true ∨ isSleeper y.1 = true) ∧ ∃ e d, y.2 = .raise e d ∧ e.isCancelKind = true

theorem cancelled_step (cfg : Cfg) (s : St) (x : Req × Ans) :
    (step cfg s x).cancelled ≠ none ↔ s.cancelled ≠ none ∨ CancelSignal x := by
  obtain ⟨r, a⟩ := x
  unfold CancelSignal
  cases r <;> simp [step, isOp, isSleeper] <;> (repeat' split) <;> simp_all
  all_goals (rename_i h _ _ _; exact isAbort_not_cancelKind h)

theorem cancelled_iff (cfg : Cfg) (tr : List (Req × Ans)) :
    (cur cfg tr).cancelled ≠ none ↔ ∃ y ∈ tr, CancelSignal y := by
  induction tr with
  | nil => simp [cur]
  | cons x tr ih =>
    rw [cur_cons, cancelled_step, ih]
    simp only [List.mem_cons, exists_eq_or_imp]
    exact Or.comm

/-- **…and the run ends with `AbortRetryError` or an ABORTED outcome** (unless a cancellation
    intervened, or an error raised by some other callback — a hook, the classifier — after the abort;
    `.stuck` is the model's "ill-shaped answer stream") -/
theorem abort_ends_aborted {cfg : Cfg} {t : Trace} {r : Res} (h : Accepted cfg t r)
    (ha : ∃ y ∈ t, AbortSignal y) (hc : ¬ ∃ y ∈ t, CancelSignal y) :
    match r with
    | .raised e => e.isAbort = true ∨ e = .stuck ∨ Raised t e
    | .outcome o _ => o.stop = some .aborted
    | .ret _ => False := by
  have h1 : (run cfg t).aborted = true := by
    rw [← List.reverse_reverse t, run_reverse, aborted_iff]
    simpa using ha
  have h2 : (run cfg t).cancelled = none := by
    have := mt (cancelled_iff cfg t.reverse).mp (by simpa using hc)
    rw [← List.reverse_reverse t, run_reverse]
    simpa using this
  unfold Accepted verdict at h
  simp only [h1, h2, Option.isNone_none, Bool.and_self, if_true, Bool.and_eq_true] at h
  have h3 := h.2
  cases r with
  | ret v => simp at h3
  | outcome o tl => simpa using h3
  | raised e =>
    simp only [Bool.or_eq_true, beq_iff_eq, raisedBy_iff] at h3
    rcases h3 with (h3 | h3) | h3
    · exact Or.inl h3
    · exact Or.inr (Or.inl h3)
    · exact Or.inr (Or.inr h3)

/-- **CancelledError, KeyboardInterrupt, SystemExit (and GeneratorExit) raised by the operation or
    during a sleep propagate unchanged at once**: the call raises exactly that exception, and nothing
    follows in the log but breaker bookkeeping (no classification, no retry, no sleep, no hook, no event). -/
theorem cancellation_propagates_unchanged {cfg : Cfg} {t : Trace} {r : Res} (h : Accepted cfg t r)
    (p q : Trace) (x : Req × Ans) (ht : t = p ++ x :: q) (e : Exn) (d : Nat)
    (hx : isOp x.1 = true ∨ isSleeper x.1 = true) (ha : x.2 = .raise e d)
    (hk : e.isCancelKind = true) :
    r = .raised e ∧ ∀ y ∈ q, isRecord y.1 = true := by
  have hb := h.bad
  subst ht
  rw [run_append] at hb
  simp only [List.foldl_cons] at hb
  have hc := cancel_step cfg (run cfg p) x e d hx ha hk
  obtain ⟨h1, h2⟩ := after_cancel cfg e q _ hc hb
  refine ⟨?_, h1⟩
  unfold Accepted verdict at h
  rw [run_append] at h
  simp only [List.foldl_cons, h2, Bool.and_eq_true] at h
  simpa using h.1.2


/-- every run of the model is accepted: the conjuncts above apply to it -/
theorem run_accepted (cfg : Cfg) (e : Entry) (w : World) :
    Accepted cfg (runEntry cfg e w).2.trace.reverse (runEntry cfg e w).1 :=
  abort_cancel_hold cfg e w

instance (cfg : Cfg) (t : Trace) (r : Res) : Decidable (Accepted cfg t r) := by
  unfold Accepted; infer_instance

/-- a sample log: two attempts, a sleep, a poll before each of them -/
def sampleLog : Trace :=
  [(.abortIf, .bool false 0), (.op 1, .raise (.ordinary 1 .transient) 3),
   (.abortIf, .bool false 0), (.classify "o1", .klass ⟨.transient, none⟩ 0), (.abortIf, .bool false 0),
   (.sleeper .dflt 7, .unit 7), (.abortIf, .bool false 0), (.op 2, .value 42 1)]

/-- non-vacuity of the hypotheses of `poll_before_every_attempt` / `poll_before_every_sleep` -/
example : Accepted { abortIf := true } sampleLog (.ret 42) ∧
    sampleLog = sampleLog.take 7 ++ (.op 2, .value 42 1) :: [] ∧
    sampleLog = sampleLog.take 5 ++ (.sleeper .dflt 7, .unit 7) :: sampleLog.drop 6 := by
  refine ⟨by decide, rfl, rfl⟩

/-- non-vacuity: abort signals and cancellation signals exist and occur in accepted logs -/
example :
    Accepted { abortIf := true } [(.abortIf, .bool true 0)] (.raised .libAbort) ∧
    AbortSignal (.abortIf, .bool true 0) ∧
    Accepted { abortIf := true }
      [(.abortIf, .bool false 0), (.op 1, .raise .keyboardInterrupt 0), (.breakerCancel, .recorded none .closed)]
      (.raised .keyboardInterrupt) ∧
    CancelSignal (.op 1, .raise .keyboardInterrupt 0) := by
  refine ⟨by decide, Or.inl ⟨rfl, 0, rfl⟩, by decide, ⟨Or.inl rfl, _, _, rfl, rfl⟩⟩

/-- the monitor has teeth: an attempt without a poll, an attempt after an abort, a swallowed
    cancellation and a retried one are all rejected -/
example :
    ¬ Accepted { abortIf := true } [(.op 1, .value 1 0)] (.ret 1) ∧
    ¬ Accepted { abortIf := true } [(.abortIf, .bool true 0), (.op 1, .value 1 0)] (.ret 1) ∧
    ¬ Accepted {} [(.op 1, .raise .cancelled 0)] (.ret 1) ∧
    ¬ Accepted {} [(.op 1, .raise .cancelled 0), (.classify "cancelled", .klass ⟨.unknown, none⟩ 0)]
        (.raised .cancelled) := by
  refine ⟨by decide, by decide, by decide, by decide⟩

end Redress.Props.C13
