/-
  C13 — Abort and cancellation stop work immediately and are never retried.

  Theorems are about `Mon.C13.ok`, the monitor the driver also evaluates on implementation traces:
  for EVERY configuration, EVERY answer stream and every entry point the monitor accepts the model's
  run.
-/
import Redress.Lemmas.Footprint
import Redress.Monitors

open Std.Do

namespace Redress.Props.C13
open Redress Redress.Retry Redress.Mon Redress.Mon.C13

/-- the monitor state as a function of the world's (newest-first) log -/
def cur (cfg : Cfg) (tr : List (Req × Ans)) : St := tr.foldr (fun x s => step cfg s x) {}

@[simp] theorem cur_cons (cfg : Cfg) (x : Req × Ans) (t : List (Req × Ans)) :
    cur cfg (x :: t) = step cfg (cur cfg t) x := rfl

theorem run_reverse (cfg : Cfg) (t : List (Req × Ans)) : run cfg t.reverse = cur cfg t := by
  simp [run, cur, List.foldl_reverse]

/-- requests that never move the C13 monitor while no cancellation has been seen -/
def inertK : Kind → Bool
  | .abortIf | .op | .sleeper => false
  | _ => true

/-- breaker bookkeeping: never moves the monitor, not even after a cancellation -/
def brkK : Kind → Bool
  | .breakerSuccess | .breakerFailure | .breakerCancel => true
  | _ => false

theorem step_inert (cfg : Cfg) (s : St) (x : Req × Ans) (h : inertK x.1.kind = true)
    (hc : s.cancelled = none) : step cfg s x = s := by
  obtain ⟨r, a⟩ := x
  cases r <;> simp_all [inertK, Req.kind, step]

theorem step_inert_cancelled (cfg : Cfg) (s : St) (x : Req × Ans) (h : inertK x.1.kind = true) :
    (step cfg s x).cancelled = s.cancelled := by
  obtain ⟨r, a⟩ := x
  cases r <;> simp_all [inertK, Req.kind, step] <;> (split <;> simp_all)

theorem step_brk (cfg : Cfg) (s : St) (x : Req × Ans) (h : brkK x.1.kind = true) :
    step cfg s x = s := by
  obtain ⟨r, a⟩ := x
  cases r <;> simp_all [brkK, Req.kind, step] <;> (split <;> simp_all)

theorem cur_append_brk (cfg : Cfg) (δ t : List (Req × Ans)) (h : ∀ x ∈ δ, brkK x.1.kind = true) :
    cur cfg (δ ++ t) = cur cfg t := by
  induction δ with
  | nil => rfl
  | cons x δ ih =>
    have hx := h x (by simp)
    have := ih (fun y hy => h y (by simp [hy]))
    simp [step_brk _ _ _ hx, this]

theorem cur_append_inert (cfg : Cfg) (δ t : List (Req × Ans)) (h : ∀ x ∈ δ, inertK x.1.kind = true)
    (hc : (cur cfg t).cancelled = none) : cur cfg (δ ++ t) = cur cfg t := by
  induction δ with
  | nil => rfl
  | cons x δ ih =>
    have hx := h x (by simp)
    have := ih (fun y hy => h y (by simp [hy]))
    simp only [List.cons_append, cur_cons, this]
    exact step_inert _ _ _ hx hc

theorem cur_append_inert_cancelled (cfg : Cfg) (δ t : List (Req × Ans))
    (h : ∀ x ∈ δ, inertK x.1.kind = true) :
    (cur cfg (δ ++ t)).cancelled = (cur cfg t).cancelled := by
  induction δ with
  | nil => rfl
  | cons x δ ih =>
    have hx := h x (by simp)
    have := ih (fun y hy => h y (by simp [hy]))
    simp only [List.cons_append, cur_cons]
    rw [step_inert_cancelled _ _ _ hx, this]

/-- What the C13 argument looks at: the monitor state while no cancellation has been seen
    (after one, the retry level does nothing any more, so nothing needs to be known). -/
def viewOf (m : St) : Option St :=
  match m.cancelled with
  | none => some m
  | some _ => none

def view (cfg : Cfg) (w : World) : Option St := viewOf (cur cfg w.trace)

theorem viewOf_eq_some {m m' : St} : viewOf m = some m' ↔ m = m' ∧ m.cancelled = none := by
  unfold viewOf
  split <;> simp_all

theorem view_foot (cfg : Cfg) (w w' : World) (h : Foot inertK w w') : view cfg w' = view cfg w := by
  obtain ⟨δ, e, k⟩ := h.trace
  unfold view
  rw [e]
  cases hc : (cur cfg w.trace).cancelled with
  | none => rw [cur_append_inert cfg δ _ k hc]
  | some c =>
    have := cur_append_inert_cancelled cfg δ w.trace k
    simp [viewOf, hc, this]

/-- `emit` leaves the retry state alone -/
theorem emit_rs (P : RState → Prop) (cfg : Cfg) (tl : Bool) (ev : Event) (a s : Nat) (k : Option EClass)
    (e : Option Exn) (st : Option StopReason) (c : Option Cause) (cl : Option Classification) :
    ⦃fun w => ⌜P w.rs⌝⦄ emit cfg tl ev a s k e st c cl
    ⦃post⟨fun _ w => ⌜P w.rs⌝, fun _ w => ⌜P w.rs⌝⟩⦄ := by
  mvcgen [emit, metricHook, recordTimeline, swallowException, askMetric, askLog, ask]
  all_goals (subst_vars; simp_all)

/-- `_abort_outcome` reports ABORTED -/
theorem abortOutcome_stop (cfg : Cfg) (tl : Bool) (a : Nat) :
    ⦃fun _ => ⌜True⌝⦄ abortOutcome cfg tl a
    ⦃post⟨fun o _ => ⌜o.stop = some .aborted⌝, fun _ _ => ⌜True⌝⟩⦄ := by
  have h := emit_rs (fun r => r.lastStop = some .aborted) cfg tl
  mvcgen [abortOutcome, emitAbortedOnce, buildOutcome, getRS, elapsed, setStop, modifyRS, h]
  all_goals (subst_vars; simp_all)

/-! ### where an escaping exception comes from -/

/-- `e` was raised by a logged exchange other than an invocation of the operation -/
def Raised (tr : List (Req × Ans)) (e : Exn) : Prop :=
  ∃ x ∈ tr, isOp x.1 = false ∧ ∃ d, x.2 = Ans.raise e d

theorem Raised.mono {t : List (Req × Ans)} {e : Exn} (δ : List (Req × Ans)) (h : Raised t e) :
    Raised (δ ++ t) e := by
  obtain ⟨x, hx, h1, h2⟩ := h
  exact ⟨x, by simp [hx], h1, h2⟩

theorem raisedBy_iff (t : List (Req × Ans)) (e : Exn) :
    Mon.raisedBy (fun r => !isOp r) t e = true ↔ Raised t e := by
  unfold Mon.raisedBy Raised
  simp only [List.any_eq_true, Bool.and_eq_true, Bool.not_eq_true']
  constructor
  · rintro ⟨x, hx, h1, h2⟩
    refine ⟨x, hx, h1, ?_⟩
    split at h2
    · rename_i e' d heq
      exact ⟨d, by simp_all⟩
    · cases h2
  · rintro ⟨x, hx, h1, d, h2⟩
    exact ⟨x, hx, h1, by simp [h2]⟩

/-- postcondition "whatever escapes was raised by a callback other than the operation" -/
abbrev orgPost : PostCond α (.except Exn (.arg World .pure)) :=
  post⟨fun _ _ => ⌜True⌝, fun e w => ⌜Raised w.trace e⌝⟩

theorem ask_org (r : Req) (hr : isOp r = false) : ⦃fun _ => ⌜True⌝⦄ ask r ⦃orgPost⦄ := by
  mvcgen [ask]
  all_goals (intros; exact ⟨_, List.mem_cons_self, hr, _, rfl⟩)

section origin
attribute [local spec] ask_org

macro "org_close" : tactic => `(tactic| all_goals (
  (try subst_vars) <;> (try intros) <;>
  first
    | rfl
    | assumption
    | trivial
    | (simp_all; done)
    | skip))

theorem askMetric_org (ev : Event) (a s : Nat) (t : Tags) :
    ⦃fun _ => ⌜True⌝⦄ askMetric ev a s t ⦃orgPost⦄ := by
  mvcgen [askMetric]
  org_close

theorem askLog_org (ev : Event) (a s : Nat) (t : Tags) (ra : Option Int) :
    ⦃fun _ => ⌜True⌝⦄ askLog ev a s t ra ⦃orgPost⦄ := by
  mvcgen [askLog]
  org_close

attribute [local spec] askMetric_org askLog_org

/-- what escapes `emit` is not an `Exception` and was raised by a hook -/
abbrev emitPost : PostCond α (.except Exn (.arg World .pure)) :=
  post⟨fun _ _ => ⌜True⌝, fun e w => ⌜e.isException = false ∧ Raised w.trace e⌝⟩

theorem emit_org (cfg : Cfg) (tl : Bool) (ev : Event) (a s : Nat) (k : Option EClass) (e : Option Exn)
    (st : Option StopReason) (c : Option Cause) (cl : Option Classification) :
    ⦃fun _ => ⌜True⌝⦄ emit cfg tl ev a s k e st c cl ⦃emitPost⦄ := by
  mvcgen [emit, metricHook, recordTimeline, swallowException]
  org_close

theorem setStop_org (s : StopReason) : ⦃fun _ => ⌜True⌝⦄ setStop s ⦃emitPost⦄ := by
  mvcgen [setStop, modifyRS]

attribute [local spec] emit_org setStop_org

theorem emitAbortedOnce_org (cfg : Cfg) (tl : Bool) (a : Nat) :
    ⦃fun _ => ⌜True⌝⦄ emitAbortedOnce cfg tl a ⦃emitPost⦄ := by
  mvcgen [emitAbortedOnce, getRS]
  org_close

theorem callAttemptEnd_org (cfg : Cfg) (attempt : Nat) (cls : Option Classification) (exc : Option Exn)
    (result : Option Nat) (d : AttemptDecision) (stop : Option StopReason) (cause : Option Cause)
    (sleep : Option Nat) :
    ⦃fun _ => ⌜True⌝⦄ callAttemptEnd cfg attempt cls exc result d stop cause sleep ⦃orgPost⦄ := by
  mvcgen [callAttemptEnd, elapsed]
  org_close

attribute [local spec] emitAbortedOnce_org callAttemptEnd_org

theorem handleAbortAttemptEnd_org (cfg : Cfg) (a : Nat) (e : Exn) :
    ⦃fun _ => ⌜True⌝⦄ handleAbortAttemptEnd cfg a e ⦃orgPost⦄ := by
  mvcgen [handleAbortAttemptEnd, getAS, modifyAS]
  org_close

theorem abortOutcome_org (cfg : Cfg) (tl : Bool) (a : Nat) :
    ⦃fun _ => ⌜True⌝⦄ abortOutcome cfg tl a ⦃emitPost⦄ := by
  mvcgen [abortOutcome, buildOutcome, getRS, elapsed]
  org_close

end origin

/-- combine a footprint lemma with an origin lemma -/
theorem leaf_of {α : Type} {x : M α} {O : Exn → World → Prop} (cfg : Cfg)
    (hx : ∀ w0, ⦃fun w => ⌜Foot inertK w0 w⌝⦄ x ⦃footPost inertK w0⦄)
    (ho : ⦃fun _ => ⌜True⌝⦄ x ⦃post⟨fun _ _ => ⌜True⌝, fun e w => ⌜O e w⌝⟩⦄) (v : Option St) :
    ⦃fun w => ⌜view cfg w = v⌝⦄ x
    ⦃post⟨fun _ w => ⌜view cfg w = v⌝, fun e w => ⌜view cfg w = v ∧ O e w⌝⟩⦄ := by
  apply triple_of_run
  intro w hw
  have h1 := adequacy (hx w) w (Foot.refl _ w)
  have h2 := adequacy ho w trivial
  split <;> simp_all <;> (rw [← hw]; exact view_foot cfg _ _ h1)

/-- "the view is `v`" on both exits -/
abbrev same (cfg : Cfg) (v : Option St) : PostCond α (.except Exn (.arg World .pure)) :=
  post⟨fun _ w => ⌜view cfg w = v⌝, fun _ w => ⌜view cfg w = v⌝⟩

/-- "the view is `v`" on both exits, and what escapes is no `Exception` and comes from a hook -/
abbrev sameE (cfg : Cfg) (v : Option St) : PostCond α (.except Exn (.arg World .pure)) :=
  post⟨fun _ w => ⌜view cfg w = v⌝,
       fun e w => ⌜view cfg w = v ∧ e.isException = false ∧ Raised w.trace e⌝⟩

/-- "the view is `v`" on both exits, and what escapes comes from a hook -/
abbrev sameR (cfg : Cfg) (v : Option St) : PostCond α (.except Exn (.arg World .pure)) :=
  post⟨fun _ w => ⌜view cfg w = v⌝, fun e w => ⌜view cfg w = v ∧ Raised w.trace e⌝⟩

/-! ### leaf procedures never move the view -/
section leaves
variable (v : Option St) (cfg : Cfg) (tl : Bool)

theorem emit_v (ev : Event) (a s : Nat) (k : Option EClass) (e : Option Exn) (st : Option StopReason)
    (c : Option Cause) (cl : Option Classification) :
    ⦃fun w => ⌜view cfg w = v⌝⦄ emit cfg tl ev a s k e st c cl ⦃sameE cfg v⦄ :=
  leaf_of cfg (fun w0 => emit_foot inertK w0 rfl rfl cfg tl ev a s k e st c cl)
    (emit_org cfg tl ev a s k e st c cl) v

theorem setStop_v (s : StopReason) :
    ⦃fun w => ⌜view cfg w = v⌝⦄ setStop s
    ⦃post⟨fun _ w => ⌜view cfg w = v⌝, fun _ _ => ⌜False⌝⟩⦄ := by
  mvcgen [setStop, modifyRS]
  all_goals (subst_vars; simp_all [view])

theorem recordStrategySuccess_v : ⦃fun w => ⌜view cfg w = v⌝⦄ recordStrategySuccess cfg ⦃same cfg v⦄ :=
  view_of_foot (view cfg) (fun w0 => recordStrategySuccess_foot inertK w0 rfl cfg) (view_foot cfg) v

theorem stratRecordFailure_v (key : SKey) (k : EClass) :
    ⦃fun w => ⌜view cfg w = v⌝⦄ stratRecordFailure cfg key k ⦃same cfg v⦄ :=
  view_of_foot (view cfg) (fun w0 => stratRecordFailure_foot inertK w0 rfl cfg key k) (view_foot cfg) v

theorem callStrategy_v (key : SKey) (kind : SKind) (ctx : BackoffCtx) :
    ⦃fun w => ⌜view cfg w = v⌝⦄ callStrategy key kind ctx ⦃same cfg v⦄ :=
  view_of_foot (view cfg) (fun w0 => callStrategy_foot inertK w0 rfl key kind ctx) (view_foot cfg) v

theorem callClassifier_v (e : Exn) : ⦃fun w => ⌜view cfg w = v⌝⦄ callClassifier e ⦃same cfg v⦄ :=
  view_of_foot (view cfg) (fun w0 => callClassifier_foot inertK w0 rfl e) (view_foot cfg) v

theorem shouldClassifyResult_v (x : Nat) :
    ⦃fun w => ⌜view cfg w = v⌝⦄ shouldClassifyResult cfg x ⦃same cfg v⦄ :=
  view_of_foot (view cfg) (fun w0 => shouldClassifyResult_foot inertK w0 rfl cfg x) (view_foot cfg) v

theorem callAttemptStart_v (a : Nat) : ⦃fun w => ⌜view cfg w = v⌝⦄ callAttemptStart cfg a ⦃same cfg v⦄ :=
  view_of_foot (view cfg) (fun w0 => callAttemptStart_foot inertK w0 rfl cfg a) (view_foot cfg) v

theorem callAttemptEndFromOutcome_v (a : Nat) (o : AOutcome) :
    ⦃fun w => ⌜view cfg w = v⌝⦄ callAttemptEndFromOutcome cfg a o ⦃same cfg v⦄ :=
  view_of_foot (view cfg) (fun w0 => callAttemptEndFromOutcome_foot inertK w0 rfl cfg a o) (view_foot cfg) v

theorem callBeforeSleep_v (ctx : BackoffCtx) (s : Nat) :
    ⦃fun w => ⌜view cfg w = v⌝⦄ callBeforeSleep cfg ctx s ⦃same cfg v⦄ :=
  view_of_foot (view cfg) (fun w0 => callBeforeSleep_foot inertK w0 rfl cfg ctx s) (view_foot cfg) v

theorem callSleepHandler_v (lvl : Lvl) (ctx : BackoffCtx) (s : Nat) :
    ⦃fun w => ⌜view cfg w = v⌝⦄ callSleepHandler lvl ctx s ⦃same cfg v⦄ :=
  view_of_foot (view cfg) (fun w0 => callSleepHandler_foot inertK w0 rfl lvl ctx s) (view_foot cfg) v

theorem buildOutcome_v (ok : Bool) (value : Option Nat) (n : Nat) (ns : Option Nat) :
    ⦃fun w => ⌜view cfg w = v⌝⦄ buildOutcome ok value n ns ⦃same cfg v⦄ :=
  view_of_foot (view cfg) (fun w0 => buildOutcome_foot inertK w0 ok value n ns) (view_foot cfg) v

theorem emitAbortedOnce_v (a : Nat) :
    ⦃fun w => ⌜view cfg w = v⌝⦄ emitAbortedOnce cfg tl a ⦃sameE cfg v⦄ :=
  leaf_of cfg (fun w0 => emitAbortedOnce_foot inertK w0 rfl rfl cfg tl a) (emitAbortedOnce_org cfg tl a) v

theorem handleSleepDecision_v (act : SleepDecision) (a s : Nat) :
    ⦃fun w => ⌜view cfg w = v⌝⦄ handleSleepDecision cfg tl act a s
    ⦃post⟨fun r w => ⌜(r = act ∧ act ≠ .other) ∧ view cfg w = v⌝, fun _ w => ⌜view cfg w = v⌝⟩⦄ :=
  view_of_foot' (view cfg) (fun w0 => handleSleepDecision_foot inertK w0 rfl rfl cfg tl act a s)
    (view_foot cfg) v

theorem handleSuccessAttemptEnd_v (a x : Nat) :
    ⦃fun w => ⌜view cfg w = v⌝⦄ handleSuccessAttemptEnd cfg tl a x ⦃same cfg v⦄ :=
  view_of_foot (view cfg) (fun w0 => handleSuccessAttemptEnd_foot inertK w0 rfl rfl rfl rfl cfg tl a x)
    (view_foot cfg) v

theorem handleAbortAttemptEnd_v (a : Nat) (e : Exn) :
    ⦃fun w => ⌜view cfg w = v⌝⦄ handleAbortAttemptEnd cfg a e ⦃sameR cfg v⦄ :=
  leaf_of cfg (fun w0 => handleAbortAttemptEnd_foot inertK w0 rfl cfg a e)
    (handleAbortAttemptEnd_org cfg a e) v

theorem raiseExhaustedCall_v : ⦃fun w => ⌜view cfg w = v⌝⦄ raiseExhaustedCall cfg ⦃same cfg v⦄ :=
  view_of_foot (view cfg) (fun w0 => raiseExhaustedCall_foot inertK w0 rfl rfl cfg) (view_foot cfg) v

theorem buildExhaustedOutcome_v : ⦃fun w => ⌜view cfg w = v⌝⦄ buildExhaustedOutcome cfg tl ⦃same cfg v⦄ :=
  view_of_foot (view cfg) (fun w0 => buildExhaustedOutcome_foot inertK w0 rfl rfl cfg tl) (view_foot cfg) v

theorem deliverCall_v (act : Action) (orig : Option Exn) (fb : ExhaustedFields) :
    ⦃fun w => ⌜view cfg w = v⌝⦄ deliverCall act orig fb
    ⦃post⟨fun r w => ⌜(r = none ∧ act = .continue_) ∧ view cfg w = v⌝, fun _ w => ⌜view cfg w = v⌝⟩⦄ :=
  view_of_foot' (view cfg) (fun w0 => deliverCall_foot inertK w0 act orig fb) (view_foot cfg) v

end leaves

theorem triple_and {α : Type} {x : M α} {Q1 Q2 : α → World → Prop} {E1 E2 : Exn → World → Prop}
    (h1 : ⦃fun _ => ⌜True⌝⦄ x ⦃post⟨fun a w => ⌜Q1 a w⌝, fun e w => ⌜E1 e w⌝⟩⦄)
    (h2 : ⦃fun _ => ⌜True⌝⦄ x ⦃post⟨fun a w => ⌜Q2 a w⌝, fun e w => ⌜E2 e w⌝⟩⦄) :
    ⦃fun _ => ⌜True⌝⦄ x ⦃post⟨fun a w => ⌜Q1 a w ∧ Q2 a w⌝, fun e w => ⌜E1 e w ∧ E2 e w⌝⟩⦄ := by
  apply triple_of_run
  intro w _
  have a1 := adequacy h1 w trivial
  have a2 := adequacy h2 w trivial
  split <;> simp_all

/-- like `leaf_of`, keeping a fact about the returned value -/
theorem leaf_of' {α : Type} {x : M α} {R : α → Prop} {O : Exn → World → Prop} (cfg : Cfg)
    (hx : ∀ w0, ⦃fun w => ⌜Foot inertK w0 w⌝⦄ x ⦃footPost inertK w0⦄)
    (ho : ⦃fun _ => ⌜True⌝⦄ x ⦃post⟨fun a _ => ⌜R a⌝, fun e w => ⌜O e w⌝⟩⦄) (v : Option St) :
    ⦃fun w => ⌜view cfg w = v⌝⦄ x
    ⦃post⟨fun a w => ⌜R a ∧ view cfg w = v⌝, fun e w => ⌜view cfg w = v ∧ O e w⌝⟩⦄ := by
  apply triple_of_run
  intro w hw
  have h1 := adequacy (hx w) w (Foot.refl _ w)
  have h2 := adequacy ho w trivial
  split <;> simp_all <;> (rw [← hw]; exact view_foot cfg _ _ h1)

theorem abortOutcome_v (v : Option St) (cfg : Cfg) (tl : Bool) (a : Nat) :
    ⦃fun w => ⌜view cfg w = v⌝⦄ abortOutcome cfg tl a
    ⦃post⟨fun o w => ⌜o.stop = some .aborted ∧ view cfg w = v⌝,
          fun e w => ⌜view cfg w = v ∧ e.isException = false ∧ Raised w.trace e⌝⟩⦄ := by
  have h := leaf_of' (R := fun o => o.stop = some .aborted ∧ True) cfg
    (fun w0 => abortOutcome_foot inertK w0 rfl rfl cfg tl a)
    (triple_and (abortOutcome_stop cfg tl a) (abortOutcome_org cfg tl a)) v
  simpa using h

theorem deliverExecute_v (v : Option St) (cfg : Cfg) (tl : Bool) (act : Action) (o : AOutcome) :
    ⦃fun w => ⌜view cfg w = v⌝⦄ deliverExecute cfg tl act o
    ⦃post⟨fun r w => ⌜(r = none → act = .continue_) ∧ view cfg w = v⌝, fun _ w => ⌜view cfg w = v⌝⟩⦄ :=
  view_of_foot' (view cfg) (fun w0 => deliverExecute_foot inertK w0 rfl rfl cfg tl act o) (view_foot cfg) v

attribute [local spec] emit_v setStop_v recordStrategySuccess_v stratRecordFailure_v callStrategy_v
  callClassifier_v shouldClassifyResult_v callAttemptStart_v callAttemptEndFromOutcome_v callBeforeSleep_v
  callSleepHandler_v buildOutcome_v emitAbortedOnce_v handleSleepDecision_v handleSuccessAttemptEnd_v
  handleAbortAttemptEnd_v raiseExhaustedCall_v buildExhaustedOutcome_v deliverCall_v abortOutcome_v
  deliverExecute_v

/-! ### the phases of a run, as the monitor sees them -/

/-- nothing has been aborted or cancelled, nothing is wrong -/
structure Live (m : St) : Prop where
  aborted : m.aborted = false
  cancelled : m.cancelled = none
  bad : m.bad = false

/-- …and the abort predicate has been polled since the last attempt / sleep -/
structure Ready (cfg : Cfg) (m : St) : Prop extends Live m where
  polled : cfg.abortIf = true → m.polled = true

/-- an escaping exception is an abort, or comes from a callback other than the operation
    (`.stuck`: model-only, ill-shaped answer stream) -/
def Org (e : Exn) (w : World) : Prop := e.isAbort = true ∨ e = .stuck ∨ Raised w.trace e

/-- what the verdict asks of a run that ends by raising `e` -/
structure Fin (cfg : Cfg) (e : Exn) (w : World) : Prop where
  bad : (cur cfg w.trace).bad = false
  canc : ∀ c, (cur cfg w.trace).cancelled = some c → e = c ∧ c.isCancelKind = true
  abt : (cur cfg w.trace).aborted = true → (cur cfg w.trace).cancelled = none → Org e w

/-- …and, inside an attempt: after an abort only an abort or a non-`Exception` is in flight -/
structure FinS (cfg : Cfg) (e : Exn) (w : World) : Prop extends Fin cfg e w where
  strong : (cur cfg w.trace).aborted = true → (cur cfg w.trace).cancelled = none →
    e.isAbort = true ∨ e.isException = false

theorem view_eq_some {cfg : Cfg} {w : World} {m : St} :
    view cfg w = some m ↔ cur cfg w.trace = m ∧ m.cancelled = none := by
  unfold view
  rw [viewOf_eq_some]
  constructor
  · rintro ⟨h1, h2⟩; exact ⟨h1, h1 ▸ h2⟩
  · rintro ⟨h1, h2⟩; exact ⟨h1, h1 ▸ h2⟩

theorem finS_of_live {cfg : Cfg} {w : World} {m : St} (e : Exn) (hv : view cfg w = some m)
    (hm : Live m) : FinS cfg e w := by
  obtain ⟨h1, h2⟩ := view_eq_some.mp hv
  refine ⟨⟨by rw [h1]; exact hm.bad, ?_, ?_⟩, ?_⟩ <;> (rw [h1]; simp [hm.aborted, hm.cancelled])

/-- the monitor after a poll that answered "go on" -/
def pollOk (cfg : Cfg) (m : St) : St := if cfg.abortIf then { m with polled := true } else m

theorem finS_of_view {cfg : Cfg} {w : World} {m : St} {e : Exn} (hv : view cfg w = some m)
    (hb : m.bad = false)
    (ha : m.aborted = true → e.isAbort = true ∨ (e.isException = false ∧ Raised w.trace e)) :
    FinS cfg e w := by
  obtain ⟨h1, h2⟩ := view_eq_some.mp hv
  refine ⟨⟨by rw [h1]; exact hb, by rw [h1, h2]; simp, ?_⟩, ?_⟩
  · rw [h1]; intro h _
    rcases ha h with h | h
    · exact Or.inl h
    · exact Or.inr (Or.inr h.2)
  · rw [h1]; intro h _
    rcases ha h with h | h
    · exact Or.inl h
    · exact Or.inr h.1

theorem step_dur (cfg : Cfg) (m : St) (r : Req) (e : Exn) (d : Nat) :
    step cfg m (r, .raise e d) = step cfg m (r, .raise e 0) := by
  cases r <;> simp [step]

/-- one exchange, as the monitor sees it -/
theorem ask_cur (cfg : Cfg) (r : Req) (m : St) :
    ⦃fun w => ⌜cur cfg w.trace = m⌝⦄ ask r
    ⦃post⟨fun a w => ⌜cur cfg w.trace = step cfg m (r, a) ∧ ∀ e d, ¬ a = Ans.raise e d⌝,
          fun e w => ⌜cur cfg w.trace = step cfg m (r, .raise e 0) ∧ (isOp r = false → Raised w.trace e)⌝⟩⦄ := by
  mvcgen [ask]
  all_goals (subst_vars; simp_all [step_dur cfg _ r _ _])
  all_goals (intro hr; exact ⟨_, List.mem_cons_self, hr, _, rfl⟩)

theorem finS_iff {cfg : Cfg} {e : Exn} {w : World} : FinS cfg e w ↔
    (cur cfg w.trace).bad = false ∧
    (∀ c, (cur cfg w.trace).cancelled = some c → e = c ∧ c.isCancelKind = true) ∧
    ((cur cfg w.trace).aborted = true → (cur cfg w.trace).cancelled = none → Org e w) ∧
    ((cur cfg w.trace).aborted = true → (cur cfg w.trace).cancelled = none →
      e.isAbort = true ∨ e.isException = false) :=
  ⟨fun h => ⟨h.bad, h.canc, h.abt, h.strong⟩, fun h => ⟨⟨h.1, h.2.1, h.2.2.1⟩, h.2.2.2⟩⟩

theorem fin_iff {cfg : Cfg} {e : Exn} {w : World} : Fin cfg e w ↔
    (cur cfg w.trace).bad = false ∧
    (∀ c, (cur cfg w.trace).cancelled = some c → e = c ∧ c.isCancelKind = true) ∧
    ((cur cfg w.trace).aborted = true → (cur cfg w.trace).cancelled = none → Org e w) :=
  ⟨fun h => ⟨h.bad, h.canc, h.abt⟩, fun h => ⟨h.1, h.2.1, h.2.2⟩⟩

theorem viewOf_of_none {m : St} (h : m.cancelled = none) : viewOf m = some m := by
  simp [viewOf, h]

/-- the poll answered True -/
def saysAbort : Ans → Bool
  | .bool true _ => true
  | _ => false

theorem step_abortIf (cfg : Cfg) (m : St) (a : Ans) (hc : m.cancelled = none) :
    step cfg m (.abortIf, a) = { m with polled := true, aborted := m.aborted || saysAbort a } := by
  cases a <;> simp [step, hc, saysAbort]
  rename_i b _
  cases b <;> simp

theorem saysAbort_false (a : Ans) (h : ∀ d, a = Ans.bool true d → False) : saysAbort a = false := by
  cases a <;> simp_all [saysAbort]

/-- the monitor after an attempt or a sleep that was preceded by a poll -/
def afterOp (m : St) : St := { m with polled := false }

def abortedOp (m : St) : St := { m with polled := false, aborted := true }

def cancelledOp (m : St) (e : Exn) : St := { m with polled := false, cancelled := some e }

theorem step_op_ok (cfg : Cfg) (m : St) (a : Ans) (hm : Ready cfg m)
    (ha : ∀ e d, ¬ a = Ans.raise e d) (n : Nat) : step cfg m (.op n, a) = afterOp m := by
  obtain ⟨⟨h1, h2, h3⟩, h4⟩ := hm
  cases a <;> simp_all [step, afterOp] <;> (cases hab : cfg.abortIf <;> simp_all)

theorem step_op_raise (cfg : Cfg) (m : St) (n : Nat) (e : Exn) (d : Nat) (hm : Ready cfg m) :
    step cfg m (.op n, .raise e d) =
      if e.isAbort then abortedOp m else if e.isCancelKind then cancelledOp m e else afterOp m := by
  obtain ⟨⟨h1, h2, h3⟩, h4⟩ := hm
  cases hab : cfg.abortIf <;> simp_all [step, afterOp, abortedOp, cancelledOp] <;>
    (split <;> simp_all) <;> (split <;> simp_all)

theorem step_sleeper_ok (cfg : Cfg) (m : St) (a : Ans) (hm : Ready cfg m)
    (ha : ∀ e d, ¬ a = Ans.raise e d) (l : Lvl) (n : Nat) : step cfg m (.sleeper l n, a) = afterOp m := by
  obtain ⟨⟨h1, h2, h3⟩, h4⟩ := hm
  cases a <;> simp_all [step, afterOp] <;> (cases hab : cfg.abortIf <;> simp_all)

theorem step_sleeper_raise (cfg : Cfg) (m : St) (l : Lvl) (n : Nat) (e : Exn) (d : Nat)
    (hm : Ready cfg m) :
    step cfg m (.sleeper l n, .raise e d) = if e.isCancelKind then cancelledOp m e else afterOp m := by
  obtain ⟨⟨h1, h2, h3⟩, h4⟩ := hm
  cases hab : cfg.abortIf <;> simp_all [step, afterOp, cancelledOp] <;> (split <;> simp_all)

theorem checkAbort_spec (cfg : Cfg) (tl : Bool) (a : Nat) (m : St) (hm : Live m) :
    ⦃fun w => ⌜view cfg w = some m⌝⦄ checkAbort cfg tl a
    ⦃post⟨fun _ w => ⌜view cfg w = some (pollOk cfg m)⌝, fun e w => ⌜FinS cfg e w⌝⟩⦄ := by
  obtain ⟨h1, h2, h3⟩ := hm
  mvcgen [checkAbort, ask_cur]
  all_goals ((try subst_vars) <;> (try intros) <;> (try simp only [view, finS_iff] at *) <;>
    simp_all [viewOf_eq_some, viewOf_of_none, step_abortIf, saysAbort, pollOk, Org, Exn.isAbort,
      Exn.isException])

theorem Live.pollOk {cfg : Cfg} {m : St} (hm : Live m) : Ready cfg (pollOk cfg m) := by
  obtain ⟨h1, h2, h3⟩ := hm
  unfold C13.pollOk
  split <;> refine ⟨⟨?_, ?_, ?_⟩, ?_⟩ <;> simp_all

theorem Ready.afterOp {cfg : Cfg} {m : St} (hm : Ready cfg m) : Live (afterOp m) :=
  ⟨hm.aborted, hm.cancelled, hm.bad⟩

/-- what an attempt's `except` ladder finds -/
structure OpErr (cfg : Cfg) (m : St) (e : Exn) (w : World) : Prop extends FinS cfg e w where
  onAbort : e.isAbort = true → view cfg w = some (abortedOp m)
  onOther : e.isAbort = false → e.isCancelKind = false → view cfg w = some (C13.afterOp m)

theorem opErr_iff {cfg : Cfg} {m : St} {e : Exn} {w : World} : OpErr cfg m e w ↔
    FinS cfg e w ∧ (e.isAbort = true → view cfg w = some (abortedOp m)) ∧
    (e.isAbort = false → e.isCancelKind = false → view cfg w = some (C13.afterOp m)) :=
  ⟨fun h => ⟨h.toFinS, h.onAbort, h.onOther⟩, fun h => ⟨h.1, h.2.1, h.2.2⟩⟩

theorem isCancelKind_not_abort {e : Exn} (h : e.isCancelKind = true) : e.isAbort = false := by
  cases e <;> simp_all [Exn.isCancelKind, Exn.isAbort]

theorem isCancelKind_not_exception {e : Exn} (h : e.isCancelKind = true) : e.isException = false := by
  cases e <;> simp_all [Exn.isCancelKind, Exn.isException]

theorem opErr_of_cur {cfg : Cfg} {m : St} {e : Exn} {w : World} (hm : Ready cfg m)
    (hc : cur cfg w.trace =
      if e.isAbort then abortedOp m else if e.isCancelKind then cancelledOp m e else C13.afterOp m) :
    OpErr cfg m e w := by
  have h1 := hm.aborted
  have h2 := hm.cancelled
  have h3 := hm.bad
  rw [opErr_iff, finS_iff]
  by_cases ha : e.isAbort = true
  · simp_all [view, viewOf_of_none, abortedOp, Org]
  · by_cases hk : e.isCancelKind = true
    · have := isCancelKind_not_abort hk
      simp_all [view, cancelledOp]
    · simp_all [view, viewOf_of_none, C13.afterOp]

theorem finS_of_sleeper {cfg : Cfg} {m : St} {e : Exn} {w : World} (hm : Ready cfg m)
    (hc : cur cfg w.trace = if e.isCancelKind then cancelledOp m e else C13.afterOp m) :
    FinS cfg e w := by
  have h1 := hm.aborted
  have h2 := hm.cancelled
  have h3 := hm.bad
  rw [finS_iff]
  by_cases hk : e.isCancelKind = true <;> simp_all [cancelledOp, C13.afterOp]

/-- normalise views to monitor states and let `simp_all` do the rest -/
macro "c13" : tactic => `(tactic| all_goals (
  first
    | ((try subst_vars) <;> (try intros) <;> (try simp only [view, finS_iff, fin_iff] at *) <;>
       (simp_all +zetaDelta [viewOf_eq_some, viewOf_of_none, step_abortIf, saysAbort, pollOk, Org, Exn.isAbort,
         Exn.isException, step_op_ok, step_op_raise, step_sleeper_ok, step_sleeper_raise, afterOp, abortedOp,
         cancelledOp]; done))
    | skip))

theorem invokeOp_spec (cfg : Cfg) (a : Nat) (m : St) (hm : Ready cfg m) :
    ⦃fun w => ⌜view cfg w = some m⌝⦄ invokeOp a
    ⦃post⟨fun _ w => ⌜view cfg w = some (C13.afterOp m)⌝, fun e w => ⌜OpErr cfg m e w⌝⟩⦄ := by
  have h1 := hm.aborted
  have h2 := hm.cancelled
  have h3 := hm.bad
  mvcgen [invokeOp, ask_cur]
  c13
  all_goals (intros; first
    | (refine opErr_of_cur hm ?_; simp_all +zetaDelta [view, viewOf_eq_some, step_op_raise]; done)
    | (rename_i h
       have := step_op_ok cfg m _ hm h.2
       refine opErr_of_cur hm ?_
       simp_all +zetaDelta [view, viewOf_eq_some, Exn.isAbort, Exn.isCancelKind]))

theorem callSleeper_spec (cfg : Cfg) (s : Nat) (m : St) (hm : Ready cfg m) :
    ⦃fun w => ⌜view cfg w = some m⌝⦄ callSleeper cfg s
    ⦃post⟨fun _ w => ⌜view cfg w = some (C13.afterOp m)⌝, fun e w => ⌜FinS cfg e w⌝⟩⦄ := by
  have h1 := hm.aborted
  have h2 := hm.cancelled
  have h3 := hm.bad
  mvcgen [callSleeper, ask_cur]
  c13
  all_goals (intros; refine finS_of_sleeper hm ?_; simp_all +zetaDelta [view, viewOf_eq_some, step_sleeper_raise])

end Redress.Props.C13
