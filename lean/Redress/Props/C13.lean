/-
  C13 — Abort and cancellation stop work immediately and are never retried.

  Theorems are about `Mon.C13.ok`, the monitor the driver also evaluates on implementation traces:
  for EVERY configuration, EVERY answer stream and every entry point the monitor accepts the model's
  run.
-/
import Redress.Lemmas.Footprint
import Redress.Monitors

open Std.Do

namespace Redress.Props.C13
open Redress Redress.Retry Redress.Mon Redress.Mon.C13

/-- the monitor state as a function of the world's (newest-first) log -/
def cur (cfg : Cfg) (tr : List (Req × Ans)) : St := tr.foldr (fun x s => step cfg s x) {}

@[simp] theorem cur_cons (cfg : Cfg) (x : Req × Ans) (t : List (Req × Ans)) :
    cur cfg (x :: t) = step cfg (cur cfg t) x := rfl

theorem run_reverse (cfg : Cfg) (t : List (Req × Ans)) : run cfg t.reverse = cur cfg t := by
  simp [run, cur, List.foldl_reverse]

/-- requests that never move the C13 monitor while no cancellation has been seen -/
def inertK : Kind → Bool
  | .abortIf | .op | .sleeper => false
  | _ => true

/-- breaker bookkeeping: never moves the monitor, not even after a cancellation -/
def brkK : Kind → Bool
  | .breakerSuccess | .breakerFailure | .breakerCancel => true
  | _ => false

theorem step_inert (cfg : Cfg) (s : St) (x : Req × Ans) (h : inertK x.1.kind = true)
    (hc : s.cancelled = none) : step cfg s x = s := by
  obtain ⟨r, a⟩ := x
  cases r <;> simp_all [inertK, Req.kind, step]

theorem step_inert_cancelled (cfg : Cfg) (s : St) (x : Req × Ans) (h : inertK x.1.kind = true) :
    (step cfg s x).cancelled = s.cancelled := by
  obtain ⟨r, a⟩ := x
  cases r <;> simp_all [inertK, Req.kind, step] <;> (split <;> simp_all)

theorem step_brk (cfg : Cfg) (s : St) (x : Req × Ans) (h : brkK x.1.kind = true) :
    step cfg s x = s := by
  obtain ⟨r, a⟩ := x
  cases r <;> simp_all [brkK, Req.kind, step] <;> (split <;> simp_all)

theorem cur_append_brk (cfg : Cfg) (δ t : List (Req × Ans)) (h : ∀ x ∈ δ, brkK x.1.kind = true) :
    cur cfg (δ ++ t) = cur cfg t := by
  induction δ with
  | nil => rfl
  | cons x δ ih =>
    have hx := h x (by simp)
    have := ih (fun y hy => h y (by simp [hy]))
    simp [step_brk _ _ _ hx, this]

theorem cur_append_inert (cfg : Cfg) (δ t : List (Req × Ans)) (h : ∀ x ∈ δ, inertK x.1.kind = true)
    (hc : (cur cfg t).cancelled = none) : cur cfg (δ ++ t) = cur cfg t := by
  induction δ with
  | nil => rfl
  | cons x δ ih =>
    have hx := h x (by simp)
    have := ih (fun y hy => h y (by simp [hy]))
    simp only [List.cons_append, cur_cons, this]
    exact step_inert _ _ _ hx hc

theorem cur_append_inert_cancelled (cfg : Cfg) (δ t : List (Req × Ans))
    (h : ∀ x ∈ δ, inertK x.1.kind = true) :
    (cur cfg (δ ++ t)).cancelled = (cur cfg t).cancelled := by
  induction δ with
  | nil => rfl
  | cons x δ ih =>
    have hx := h x (by simp)
    have := ih (fun y hy => h y (by simp [hy]))
    simp only [List.cons_append, cur_cons]
    rw [step_inert_cancelled _ _ _ hx, this]

/-- What the C13 argument looks at: the monitor state while no cancellation has been seen
    (after one, the retry level does nothing any more, so nothing needs to be known). -/
def viewOf (m : St) : Option St :=
  match m.cancelled with
  | none => some m
  | some _ => none

def view (cfg : Cfg) (w : World) : Option St := viewOf (cur cfg w.trace)

theorem viewOf_eq_some {m m' : St} : viewOf m = some m' ↔ m = m' ∧ m.cancelled = none := by
  unfold viewOf
  split <;> simp_all

theorem view_foot (cfg : Cfg) (w w' : World) (h : Foot inertK w w') : view cfg w' = view cfg w := by
  obtain ⟨δ, e, k⟩ := h.trace
  unfold view
  rw [e]
  cases hc : (cur cfg w.trace).cancelled with
  | none => rw [cur_append_inert cfg δ _ k hc]
  | some c =>
    have := cur_append_inert_cancelled cfg δ w.trace k
    simp [viewOf, hc, this]

end Redress.Props.C13
