/-
  C13 — Abort and cancellation stop work immediately and are never retried.

  Theorems are about `Mon.C13.ok`, the monitor the driver also evaluates on implementation traces:
  for EVERY configuration, EVERY answer stream and every entry point the monitor accepts the model's
  run.
-/
import Redress.Lemmas.Footprint
import Redress.Monitors

open Std.Do

set_option linter.unusedSimpArgs false

namespace Redress.Props.C13
open Redress Redress.Retry Redress.Mon Redress.Mon.C13

/-- the monitor state as a function of the world's (newest-first) log -/
def cur (cfg : Cfg) (tr : List (Req × Ans)) : St := tr.foldr (fun x s => step cfg s x) {}

@[simp] theorem cur_cons (cfg : Cfg) (x : Req × Ans) (t : List (Req × Ans)) :
    cur cfg (x :: t) = step cfg (cur cfg t) x := rfl

theorem run_reverse (cfg : Cfg) (t : List (Req × Ans)) : run cfg t.reverse = cur cfg t := by
  simp [run, cur, List.foldl_reverse]

/-- requests whose *answer* (unless it raises a cancellation-type exception) never moves the monitor -/
def inertK : Kind → Bool
  | .abortIf | .op | .sleeper => false
  | _ => true

/-- breaker bookkeeping: never moves the monitor -/
def brkK : Kind → Bool
  | .breakerSuccess | .breakerFailure | .breakerCancel => true
  | _ => false

theorem isRecord_of_brk (r : Req) (h : brkK r.kind = true) : isRecord r = true := by
  cases r <;> simp_all [brkK, Req.kind, isRecord]

theorem isRecord_inert (r : Req) (h : isRecord r = true) : inertK r.kind = true := by
  cases r <;> simp_all [inertK, Req.kind, isRecord]

theorem step_record (cfg : Cfg) (s : St) (x : Req × Ans) (h : isRecord x.1 = true) : step cfg s x = s := by
  simp [step, h]

theorem step_brk (cfg : Cfg) (s : St) (x : Req × Ans) (h : brkK x.1.kind = true) :
    step cfg s x = s := step_record cfg s x (isRecord_of_brk _ h)

theorem cur_append_brk (cfg : Cfg) (δ t : List (Req × Ans)) (h : ∀ x ∈ δ, brkK x.1.kind = true) :
    cur cfg (δ ++ t) = cur cfg t := by
  induction δ with
  | nil => rfl
  | cons x δ ih =>
    have hx := h x (by simp)
    have := ih (fun y hy => h y (by simp [hy]))
    simp [step_brk _ _ _ hx, this]

/-- a cancellation-type exception in the answer marks the monitor -/
def cancelMark (s : St) (a : Ans) : St :=
  match a with
  | .raise e _ => if e.isCancelKind then { s with cancelled := some e } else s
  | _ => s

theorem step_none (cfg : Cfg) (s : St) (x : Req × Ans) (hc : s.cancelled = none) :
    step cfg s x = if isRecord x.1 then s else cancelMark (stepLive cfg s x) x.2 := by
  obtain ⟨r, a⟩ := x
  unfold step cancelMark
  simp only [hc]
  split
  · rfl
  · cases a <;> rfl

theorem step_some (cfg : Cfg) (s : St) (x : Req × Ans) (c : Exn) (hc : s.cancelled = some c) :
    (step cfg s x).cancelled = some c := by
  simp only [step, hc]
  split <;> simp [hc]

theorem stepLive_inert (cfg : Cfg) (s : St) (x : Req × Ans) (h : inertK x.1.kind = true) :
    stepLive cfg s x = s := by
  obtain ⟨r, a⟩ := x
  cases r <;> simp_all [inertK, Req.kind, stepLive]

/-- What the C13 argument looks at: the monitor state while no cancellation has been seen
    (after one, the model does nothing any more but breaker bookkeeping). -/
def viewOf (m : St) : Option St :=
  match m.cancelled with
  | none => some m
  | some _ => none

def view (cfg : Cfg) (w : World) : Option St := viewOf (cur cfg w.trace)

theorem viewOf_eq_some {m m' : St} : viewOf m = some m' ↔ m = m' ∧ m.cancelled = none := by
  unfold viewOf
  split <;> simp_all

theorem viewOf_eq_none {m : St} : viewOf m = none ↔ m.cancelled ≠ none := by
  unfold viewOf
  split <;> simp_all

theorem viewOf_of_none {m : St} (h : m.cancelled = none) : viewOf m = some m := by
  simp [viewOf, h]

theorem view_eq_some {cfg : Cfg} {w : World} {m : St} :
    view cfg w = some m ↔ cur cfg w.trace = m ∧ m.cancelled = none := by
  unfold view
  rw [viewOf_eq_some]
  constructor
  · rintro ⟨h1, h2⟩; exact ⟨h1, h1 ▸ h2⟩
  · rintro ⟨h1, h2⟩; exact ⟨h1, h1 ▸ h2⟩

/-- a cancellation-type exception `e` has just been raised by a callback: it is the exception in
    flight, and the monitor has recorded it (and nothing else has changed) -/
def CancV (cfg : Cfg) (v : Option St) (e : Exn) (w : World) : Prop :=
  e.isCancelKind = true ∧ ∃ m, v = some m ∧ cur cfg w.trace = { m with cancelled := some e }

/-- how a leaf procedure that started with view `v` can end by raising `e`: the view is still `v`,
    or one of its callbacks raised the cancellation-type exception `e` -/
def ErrL (cfg : Cfg) (v : Option St) (e : Exn) (w : World) : Prop :=
  viewOf (cur cfg w.trace) = v ∨ CancV cfg v e w

/-- postcondition of a leaf: the view is kept, except by a cancellation that is then in flight -/
abbrev leafPost (cfg : Cfg) (v : Option St) : PostCond α (.except Exn (.arg World .pure)) :=
  post⟨fun _ w => ⌜view cfg w = v⌝, fun e w => ⌜ErrL cfg v e w⌝⟩

theorem view_brk (cfg : Cfg) (w w' : World) (h : Foot brkK w w') : view cfg w' = view cfg w := by
  obtain ⟨δ, e, k⟩ := h.trace
  unfold view
  rw [e, cur_append_brk cfg δ _ k]

theorem step_inert_ok (cfg : Cfg) (m : St) (r : Req) (a : Ans) (hk : inertK r.kind = true)
    (ha : ∀ e d, ¬ a = Ans.raise e d) : viewOf (step cfg m (r, a)) = viewOf m := by
  cases hc : m.cancelled with
  | some c => simp [viewOf, hc, step_some cfg m (r, a) c hc]
  | none =>
    rw [step_none cfg m _ hc]
    split
    · rfl
    · rw [stepLive_inert cfg m (r, a) hk]
      cases a <;> simp_all [cancelMark]

theorem step_inert_raise (cfg : Cfg) (m : St) (r : Req) (e : Exn) (d : Nat) (hk : inertK r.kind = true) :
    viewOf (step cfg m (r, .raise e d)) = viewOf m ∨
      (e.isCancelKind = true ∧ m.cancelled = none ∧
        step cfg m (r, .raise e d) = { m with cancelled := some e }) := by
  cases hc : m.cancelled with
  | some c => left; simp [viewOf, hc, step_some cfg m _ c hc]
  | none =>
    rw [step_none cfg m _ hc]
    split
    · left; rfl
    · rw [stepLive_inert cfg m _ hk]
      by_cases hk' : e.isCancelKind = true
      · right; simp [cancelMark, hk']
      · left; simp [cancelMark, hk']

/-- one callback invocation whose normal answers do not concern the monitor -/
theorem ask_l (cfg : Cfg) (v : Option St) (r : Req) (hk : inertK r.kind = true) :
    ⦃fun w => ⌜view cfg w = v⌝⦄ ask r ⦃leafPost cfg v⦄ := by
  mvcgen [ask]
  all_goals (subst_vars; simp only [view, cur_cons, ErrL, CancV])
  · rcases step_inert_raise cfg (cur cfg ‹World›.trace) r .stuck 0 hk with h | ⟨h1, h2, h3⟩
    · exact Or.inl h
    · exact Or.inr ⟨h1, _, viewOf_of_none h2, h3⟩
  · rename_i e d _
    rcases step_inert_raise cfg (cur cfg ‹World›.trace) r e d hk with h | ⟨h1, h2, h3⟩
    · exact Or.inl h
    · exact Or.inr ⟨h1, _, viewOf_of_none h2, h3⟩
  · rename_i hr _
    exact step_inert_ok cfg _ r _ hk (fun e d h => hr e d h)

theorem askHook_l (cfg : Cfg) (v : Option St) (r : Req) (hk : inertK r.kind = true) :
    ⦃fun w => ⌜view cfg w = v⌝⦄ askHook r ⦃leafPost cfg v⦄ :=
  askHook_triple r (ask_l cfg v r hk) (fun w h => presil_cases (fun w => view cfg w = v) w (fun _ => h))

/-- `emit` leaves the retry state alone -/
theorem emit_rs (P : RState → Prop) (cfg : Cfg) (tl : Bool) (ev : Event) (a s : Nat) (k : Option EClass)
    (e : Option Exn) (st : Option StopReason) (c : Option Cause) (cl : Option Classification) :
    ⦃fun w => ⌜P w.rs⌝⦄ emit cfg tl ev a s k e st c cl
    ⦃post⟨fun _ w => ⌜P w.rs⌝, fun _ w => ⌜P w.rs⌝⟩⦄ := by
  mvcgen [emit, metricHook, recordTimeline, swallowException, askMetric, askLog, askHook]
  all_goals (subst_vars; simp_all)

/-- `_abort_outcome` reports ABORTED -/
theorem abortOutcome_stop (cfg : Cfg) (tl : Bool) (a : Nat) :
    ⦃fun _ => ⌜True⌝⦄ abortOutcome cfg tl a
    ⦃post⟨fun o _ => ⌜o.stop = some .aborted⌝, fun _ _ => ⌜True⌝⟩⦄ := by
  have h := emit_rs (fun r => r.lastStop = some .aborted) cfg tl
  mvcgen [abortOutcome, emitAbortedOnce, buildOutcome, getRS, elapsed, setStop, modifyRS, h]
  all_goals (subst_vars; simp_all)

/-! ### where an escaping exception comes from -/

/-- `e` was raised by a logged exchange other than an invocation of the operation -/
def Raised (tr : List (Req × Ans)) (e : Exn) : Prop :=
  ∃ x ∈ tr, isOp x.1 = false ∧ ∃ d, x.2 = Ans.raise e d

theorem Raised.mono {t : List (Req × Ans)} {e : Exn} (δ : List (Req × Ans)) (h : Raised t e) :
    Raised (δ ++ t) e := by
  obtain ⟨x, hx, h1, h2⟩ := h
  exact ⟨x, by simp [hx], h1, h2⟩

theorem raisedBy_iff (t : List (Req × Ans)) (e : Exn) :
    Mon.raisedBy (fun r => !isOp r) t e = true ↔ Raised t e := by
  unfold Mon.raisedBy Raised
  simp only [List.any_eq_true, Bool.and_eq_true, Bool.not_eq_true']
  constructor
  · rintro ⟨x, hx, h1, h2⟩
    refine ⟨x, hx, h1, ?_⟩
    split at h2
    · rename_i e' d heq
      exact ⟨d, by simp_all⟩
    · cases h2
  · rintro ⟨x, hx, h1, d, h2⟩
    exact ⟨x, hx, h1, by simp [h2]⟩

/-- postcondition "whatever escapes was raised by a callback other than the operation" -/
abbrev orgPost : PostCond α (.except Exn (.arg World .pure)) :=
  post⟨fun _ _ => ⌜True⌝, fun e w => ⌜Raised w.trace e⌝⟩

theorem ask_org (r : Req) (hr : isOp r = false) : ⦃fun _ => ⌜True⌝⦄ ask r ⦃orgPost⦄ := by
  mvcgen [ask]
  all_goals (intros; exact ⟨_, List.mem_cons_self, hr, _, rfl⟩)

theorem askHook_org (r : Req) (hr : isOp r = false) : ⦃fun _ => ⌜True⌝⦄ askHook r ⦃orgPost⦄ :=
  askHook_triple r (ask_org r hr) (fun _ h => h)

section origin
attribute [local spec] ask_org askHook_org

macro "org_close" : tactic => `(tactic| all_goals (
  (try subst_vars) <;> (try intros) <;>
  first
    | rfl
    | assumption
    | trivial
    | (simp_all; done)
    | skip))

theorem askMetric_org (ev : Event) (a s : Nat) (t : Tags) :
    ⦃fun _ => ⌜True⌝⦄ askMetric ev a s t ⦃orgPost⦄ := by
  mvcgen [askMetric]
  org_close

theorem askLog_org (ev : Event) (a s : Nat) (t : Tags) (ra : Option Int) :
    ⦃fun _ => ⌜True⌝⦄ askLog ev a s t ra ⦃orgPost⦄ := by
  mvcgen [askLog]
  org_close

attribute [local spec] askMetric_org askLog_org

/-- what escapes `emit` is not an `Exception` and was raised by a hook -/
abbrev emitPost : PostCond α (.except Exn (.arg World .pure)) :=
  post⟨fun _ _ => ⌜True⌝, fun e w => ⌜e.isException = false ∧ Raised w.trace e⌝⟩

theorem emit_org (cfg : Cfg) (tl : Bool) (ev : Event) (a s : Nat) (k : Option EClass) (e : Option Exn)
    (st : Option StopReason) (c : Option Cause) (cl : Option Classification) :
    ⦃fun _ => ⌜True⌝⦄ emit cfg tl ev a s k e st c cl ⦃emitPost⦄ := by
  mvcgen [emit, metricHook, recordTimeline, swallowException]
  org_close

theorem setStop_org (s : StopReason) : ⦃fun _ => ⌜True⌝⦄ setStop s ⦃emitPost⦄ := by
  mvcgen [setStop, modifyRS]

attribute [local spec] emit_org setStop_org

theorem emitAbortedOnce_org (cfg : Cfg) (tl : Bool) (a : Nat) :
    ⦃fun _ => ⌜True⌝⦄ emitAbortedOnce cfg tl a ⦃emitPost⦄ := by
  mvcgen [emitAbortedOnce, getRS]
  org_close

theorem callAttemptEnd_org (cfg : Cfg) (attempt : Nat) (cls : Option Classification) (exc : Option Exn)
    (result : Option Nat) (d : AttemptDecision) (stop : Option StopReason) (cause : Option Cause)
    (sleep : Option Nat) :
    ⦃fun _ => ⌜True⌝⦄ callAttemptEnd cfg attempt cls exc result d stop cause sleep ⦃orgPost⦄ := by
  mvcgen [callAttemptEnd, elapsed]
  org_close

attribute [local spec] emitAbortedOnce_org callAttemptEnd_org

theorem handleAbortAttemptEnd_org (cfg : Cfg) (a : Nat) (e : Exn) :
    ⦃fun _ => ⌜True⌝⦄ handleAbortAttemptEnd cfg a e ⦃orgPost⦄ := by
  mvcgen [handleAbortAttemptEnd, getAS, modifyAS]
  org_close

theorem abortOutcome_org (cfg : Cfg) (tl : Bool) (a : Nat) :
    ⦃fun _ => ⌜True⌝⦄ abortOutcome cfg tl a ⦃emitPost⦄ := by
  mvcgen [abortOutcome, buildOutcome, getRS, elapsed]
  org_close

/-! #### policy level -/
open Policy

/-- whatever escapes is `.stuck` (model-only) or was raised by a callback other than the operation -/
abbrev orgPostS : PostCond α (.except Exn (.arg World .pure)) :=
  post⟨fun _ _ => ⌜True⌝, fun e w => ⌜e = .stuck ∨ Raised w.trace e⌝⟩

abbrev neverPost : PostCond α (.except Exn (.arg World .pure)) :=
  post⟨fun _ _ => ⌜True⌝, fun _ _ => ⌜False⌝⟩

theorem emitBreakerEvent_org (cfg : Cfg) (ev : Option Event) (st : CState) (k : Option EClass) :
    ⦃fun _ => ⌜True⌝⦄ emitBreakerEvent cfg ev st k ⦃orgPostS⦄ := by
  mvcgen [emitBreakerEvent, swallowException]
  org_close

attribute [local spec] emitBreakerEvent_org

theorem recordSuccess_org (cfg : Cfg) : ⦃fun _ => ⌜True⌝⦄ Policy.recordSuccess cfg ⦃orgPostS⦄ := by
  mvcgen [Policy.recordSuccess]
  org_close

theorem recordFailure_org (cfg : Cfg) (k : EClass) :
    ⦃fun _ => ⌜True⌝⦄ Policy.recordFailure cfg k ⦃orgPostS⦄ := by
  mvcgen [Policy.recordFailure]
  org_close

theorem recordCancel_never (cfg : Cfg) : ⦃fun _ => ⌜True⌝⦄ Policy.recordCancel cfg ⦃neverPost⦄ := by
  mvcgen [Policy.recordCancel]

attribute [local spec] recordSuccess_org recordFailure_org recordCancel_never

theorem ensureSettled_never (cfg : Cfg) : ⦃fun _ => ⌜True⌝⦄ ensureSettled cfg ⦃neverPost⦄ := by
  mvcgen [ensureSettled]

theorem handleExhaustedCall_org (cfg : Cfg) (e : Exn) :
    ⦃fun _ => ⌜True⌝⦄ handleExhaustedCall cfg e ⦃orgPostS⦄ := by
  mvcgen [handleExhaustedCall]
  org_close

theorem callClassifier_org (e : Exn) : ⦃fun _ => ⌜True⌝⦄ callClassifier e ⦃orgPostS⦄ := by
  mvcgen [callClassifier]
  org_close

attribute [local spec] callClassifier_org

theorem noRetryEndHook_org (cfg : Cfg) (exc : Option Exn) (r : Option Nat) (d : AttemptDecision)
    (stop : Option StopReason) (cause : Option Cause) :
    ⦃fun _ => ⌜True⌝⦄ noRetryEndHook cfg exc r d stop cause ⦃orgPostS⦄ := by
  mvcgen [noRetryEndHook, xElapsed]
  org_close

attribute [local spec] noRetryEndHook_org

theorem handleExceptionCall_org (cfg : Cfg) (e : Exn) (b : Bool) :
    ⦃fun _ => ⌜True⌝⦄ handleExceptionCall cfg e b ⦃orgPostS⦄ := by
  mvcgen [handleExceptionCall, classifyForBreaker]
  org_close

theorem handleAbortCall_org (cfg : Cfg) (e : Exn) :
    ⦃fun _ => ⌜True⌝⦄ handleAbortCall cfg e ⦃orgPostS⦄ := by
  mvcgen [handleAbortCall]
  org_close


end origin


/-! ### leaf procedures keep the view — unless a callback raises a cancellation-type exception -/

theorem isCancelKind_not_abort {e : Exn} (h : e.isCancelKind = true) : e.isAbort = false := by
  cases e <;> simp_all [Exn.isCancelKind, Exn.isAbort]

theorem isCancelKind_not_exception {e : Exn} (h : e.isCancelKind = true) : e.isException = false := by
  cases e <;> simp_all [Exn.isCancelKind, Exn.isException]

/-- an `Exception` in flight was not a cancellation: the view is unchanged -/
theorem errL_exception {cfg : Cfg} {v : Option St} {e : Exn} {w : World} (h : ErrL cfg v e w)
    (he : e.isException = true) : viewOf (cur cfg w.trace) = v := by
  rcases h with h | ⟨hk, _⟩
  · exact h
  · simp [isCancelKind_not_exception hk] at he

theorem errL_abort {cfg : Cfg} {v : Option St} {e : Exn} {w : World} (h : ErrL cfg v e w)
    (he : e.isAbort = true) : viewOf (cur cfg w.trace) = v := by
  rcases h with h | ⟨hk, _⟩
  · exact h
  · simp [isCancelKind_not_abort hk] at he

section leafL
attribute [local spec] ask_l askHook_l

macro "l_close" : tactic => `(tactic| all_goals (
  (try subst_vars) <;> (try intros) <;> (try simp +zetaDelta only [restore_dummy, view] at *) <;>
  first
    | rfl
    | assumption
    | (simp_all +zetaDelta; done)
    | grind [errL_exception, errL_abort, ErrL, view]
    | skip))

variable (cfg : Cfg) (v : Option St) (tl : Bool)

theorem askMetric_l (ev : Event) (a s : Nat) (t : Tags) :
    ⦃fun w => ⌜view cfg w = v⌝⦄ askMetric ev a s t ⦃leafPost cfg v⦄ := by
  mvcgen [askMetric]
  l_close

theorem askLog_l (ev : Event) (a s : Nat) (t : Tags) (ra : Option Int) :
    ⦃fun w => ⌜view cfg w = v⌝⦄ askLog ev a s t ra ⦃leafPost cfg v⦄ := by
  mvcgen [askLog]
  l_close

attribute [local spec] askMetric_l askLog_l

theorem emit_l (ev : Event) (a s : Nat) (k : Option EClass) (e : Option Exn) (st : Option StopReason)
    (c : Option Cause) (cl : Option Classification) :
    ⦃fun w => ⌜view cfg w = v⌝⦄ emit cfg tl ev a s k e st c cl ⦃leafPost cfg v⦄ := by
  mvcgen [emit, metricHook, recordTimeline, swallowException]
  l_close

/-- (stated about the log itself: the procedure does not mention the configuration) -/
theorem setStop_l (t : List (Req × Ans)) (s : StopReason) :
    ⦃fun w => ⌜w.trace = t⌝⦄ setStop s
    ⦃post⟨fun _ w => ⌜w.trace = t⌝, fun _ _ => ⌜False⌝⟩⦄ := by
  mvcgen [setStop, modifyRS]
  l_close

theorem buildOutcome_l (t : List (Req × Ans)) (ok : Bool) (value : Option Nat) (n : Nat) (ns : Option Nat) :
    ⦃fun w => ⌜w.trace = t⌝⦄ buildOutcome ok value n ns
    ⦃post⟨fun _ w => ⌜w.trace = t⌝, fun _ _ => ⌜False⌝⟩⦄ := by
  mvcgen [buildOutcome, getRS, elapsed]
  l_close

attribute [local spec] emit_l setStop_l buildOutcome_l

theorem recordStrategySuccess_l :
    ⦃fun w => ⌜view cfg w = v⌝⦄ recordStrategySuccess cfg ⦃leafPost cfg v⦄ := by
  mvcgen [recordStrategySuccess, getRS]
  l_close

theorem stratRecordFailure_l (key : SKey) (k : EClass) :
    ⦃fun w => ⌜view cfg w = v⌝⦄ stratRecordFailure cfg key k ⦃leafPost cfg v⦄ := by
  mvcgen [stratRecordFailure]
  l_close

theorem callStrategy_l (key : SKey) (kind : SKind) (ctx : BackoffCtx) :
    ⦃fun w => ⌜view cfg w = v⌝⦄ callStrategy key kind ctx ⦃leafPost cfg v⦄ := by
  mvcgen [callStrategy]
  l_close

theorem callClassifier_l (e : Exn) :
    ⦃fun w => ⌜view cfg w = v⌝⦄ callClassifier e ⦃leafPost cfg v⦄ := by
  mvcgen [callClassifier]
  l_close

theorem shouldClassifyResult_l (x : Nat) :
    ⦃fun w => ⌜view cfg w = v⌝⦄ shouldClassifyResult cfg x ⦃leafPost cfg v⦄ := by
  mvcgen [shouldClassifyResult]
  l_close

theorem callAttemptStart_l (a : Nat) :
    ⦃fun w => ⌜view cfg w = v⌝⦄ callAttemptStart cfg a ⦃leafPost cfg v⦄ := by
  mvcgen [callAttemptStart, elapsed]
  l_close

theorem callAttemptEnd_l (attempt : Nat) (cls : Option Classification) (exc : Option Exn)
    (result : Option Nat) (d : AttemptDecision) (stop : Option StopReason) (cause : Option Cause)
    (sleep : Option Nat) :
    ⦃fun w => ⌜view cfg w = v⌝⦄ callAttemptEnd cfg attempt cls exc result d stop cause sleep
    ⦃leafPost cfg v⦄ := by
  mvcgen [callAttemptEnd, elapsed]
  l_close

attribute [local spec] callAttemptEnd_l recordStrategySuccess_l

theorem callAttemptEndFromOutcome_l (a : Nat) (o : AOutcome) :
    ⦃fun w => ⌜view cfg w = v⌝⦄ callAttemptEndFromOutcome cfg a o ⦃leafPost cfg v⦄ := by
  mvcgen [callAttemptEndFromOutcome]
  l_close

theorem callBeforeSleep_l (ctx : BackoffCtx) (s : Nat) :
    ⦃fun w => ⌜view cfg w = v⌝⦄ callBeforeSleep cfg ctx s ⦃leafPost cfg v⦄ := by
  mvcgen [callBeforeSleep, swallowException]
  l_close

theorem callSleepHandler_l (lvl : Lvl) (ctx : BackoffCtx) (s : Nat) :
    ⦃fun w => ⌜view cfg w = v⌝⦄ callSleepHandler lvl ctx s ⦃leafPost cfg v⦄ := by
  mvcgen [callSleepHandler]
  l_close

theorem emitAbortedOnce_l (a : Nat) :
    ⦃fun w => ⌜view cfg w = v⌝⦄ emitAbortedOnce cfg tl a ⦃leafPost cfg v⦄ := by
  mvcgen [emitAbortedOnce, getRS]
  l_close

attribute [local spec] emitAbortedOnce_l

theorem abortOutcome_l (a : Nat) :
    ⦃fun w => ⌜view cfg w = v⌝⦄ abortOutcome cfg tl a ⦃leafPost cfg v⦄ := by
  mvcgen [abortOutcome]
  l_close

theorem handleSleepDecision_l (act : SleepDecision) (a s : Nat) :
    ⦃fun w => ⌜view cfg w = v⌝⦄ handleSleepDecision cfg tl act a s
    ⦃post⟨fun r w => ⌜(r = act ∧ act ≠ .other) ∧ view cfg w = v⌝, fun e w => ⌜ErrL cfg v e w⌝⟩⦄ := by
  mvcgen [handleSleepDecision, getRS]
  l_close

theorem handleSuccessAttemptEnd_l (a x : Nat) :
    ⦃fun w => ⌜view cfg w = v⌝⦄ handleSuccessAttemptEnd cfg tl a x ⦃leafPost cfg v⦄ := by
  mvcgen [handleSuccessAttemptEnd]
  l_close

theorem handleAbortAttemptEnd_l (a : Nat) (e : Exn) :
    ⦃fun w => ⌜view cfg w = v⌝⦄ handleAbortAttemptEnd cfg a e ⦃leafPost cfg v⦄ := by
  mvcgen [handleAbortAttemptEnd, getAS, modifyAS]
  l_close

theorem emitMaxAttemptsExceeded_l :
    ⦃fun w => ⌜view cfg w = v⌝⦄ emitMaxAttemptsExceeded cfg tl ⦃leafPost cfg v⦄ := by
  mvcgen [emitMaxAttemptsExceeded, getRS]
  l_close

attribute [local spec] emitMaxAttemptsExceeded_l abortOutcome_l

theorem raiseExhaustedCall_l :
    ⦃fun w => ⌜view cfg w = v⌝⦄ raiseExhaustedCall cfg ⦃leafPost cfg v⦄ := by
  mvcgen [raiseExhaustedCall, getRS]
  l_close

theorem buildExhaustedOutcome_l :
    ⦃fun w => ⌜view cfg w = v⌝⦄ buildExhaustedOutcome cfg tl ⦃leafPost cfg v⦄ := by
  mvcgen [buildExhaustedOutcome]
  l_close

theorem deliverCall_l (t : List (Req × Ans)) (act : Action) (orig : Option Exn) (fb : ExhaustedFields) :
    ⦃fun w => ⌜w.trace = t⌝⦄ deliverCall act orig fb
    ⦃post⟨fun r w => ⌜(r = none ∧ act = .continue_) ∧ w.trace = t⌝, fun _ w => ⌜w.trace = t⌝⟩⦄ := by
  mvcgen [deliverCall]
  l_close

theorem deliverExecute_l (act : Action) (o : AOutcome) :
    ⦃fun w => ⌜view cfg w = v⌝⦄ deliverExecute cfg tl act o
    ⦃post⟨fun r w => ⌜(r = none → act = .continue_) ∧ view cfg w = v⌝, fun e w => ⌜ErrL cfg v e w⌝⟩⦄ := by
  mvcgen [deliverExecute]
  l_close

theorem stopWith_l (s : StopReason) (ev : Event) (a : Nat) (k : EClass) (e : Option Exn) (c : Cause) :
    ⦃fun w => ⌜view cfg w = v⌝⦄ stopWith cfg tl s ev a k e c
    ⦃post⟨fun d w => ⌜d = .raise ∧ view cfg w = v⌝, fun e w => ⌜ErrL cfg v e w⌝⟩⦄ := by
  mvcgen [stopWith]
  l_close

theorem budgetConsume_l :
    ⦃fun w => ⌜view cfg w = v⌝⦄ budgetConsume cfg
    ⦃post⟨fun _ w => ⌜view cfg w = v⌝, fun _ _ => ⌜False⌝⟩⦄ := by
  mvcgen [budgetConsume]
  all_goals (subst_vars; simp only [view, cur_cons])
  all_goals (first | rfl | exact step_inert_ok cfg _ _ _ rfl (by simp))

/-! #### policy level -/
open Policy

theorem emitBreakerEvent_l (ev : Option Event) (st : CState) (k : Option EClass) :
    ⦃fun w => ⌜view cfg w = v⌝⦄ emitBreakerEvent cfg ev st k ⦃leafPost cfg v⦄ := by
  mvcgen [emitBreakerEvent, swallowException]
  l_close

attribute [local spec] emitBreakerEvent_l

theorem breakerAllow_l (bc : Breaker.Cfg) :
    ⦃fun w => ⌜view cfg w = v⌝⦄ breakerAllow bc
    ⦃post⟨fun _ w => ⌜view cfg w = v⌝, fun _ _ => ⌜False⌝⟩⦄ := by
  mvcgen [breakerAllow]
  all_goals (subst_vars; simp only [view, cur_cons])
  all_goals (first | rfl | exact step_inert_ok cfg _ _ _ rfl (by simp))

theorem checkBreaker_l : ⦃fun w => ⌜view cfg w = v⌝⦄ checkBreaker cfg ⦃leafPost cfg v⦄ := by
  have h := breakerAllow_l cfg
  mvcgen [checkBreaker, h]
  l_close

theorem recordSuccess_l : ⦃fun w => ⌜view cfg w = v⌝⦄ Policy.recordSuccess cfg ⦃leafPost cfg v⦄ := by
  mvcgen [Policy.recordSuccess]
  l_close
  all_goals (simp_all [step_record, isRecord]; done)

theorem recordFailure_l (k : EClass) :
    ⦃fun w => ⌜view cfg w = v⌝⦄ Policy.recordFailure cfg k ⦃leafPost cfg v⦄ := by
  mvcgen [Policy.recordFailure]
  l_close
  all_goals (simp_all [step_record, isRecord]; done)

theorem noRetryStartHook_l : ⦃fun w => ⌜view cfg w = v⌝⦄ noRetryStartHook cfg ⦃leafPost cfg v⦄ := by
  mvcgen [noRetryStartHook, xElapsed]
  l_close

theorem noRetryEndHook_l (exc : Option Exn) (r : Option Nat) (d : AttemptDecision)
    (stop : Option StopReason) (cause : Option Cause) :
    ⦃fun w => ⌜view cfg w = v⌝⦄ noRetryEndHook cfg exc r d stop cause ⦃leafPost cfg v⦄ := by
  mvcgen [noRetryEndHook, xElapsed]
  l_close

theorem policyOutcome_l (t : List (Req × Ans)) (ok : Bool) (value : Option Nat) (stop : Option StopReason)
    (attempts : Nat) (lc : Option EClass) (le : Option String) (cause : Option Cause) :
    ⦃fun w => ⌜w.trace = t⌝⦄ policyOutcome ok value stop attempts lc le cause
    ⦃post⟨fun o w => ⌜o.stop = stop ∧ w.trace = t⌝, fun _ _ => ⌜False⌝⟩⦄ := by
  mvcgen [policyOutcome, xElapsed]

theorem initCtx_l (t : List (Req × Ans)) :
    ⦃fun w => ⌜w.trace = t⌝⦄ initCtx ⦃post⟨fun _ w => ⌜w.trace = t⌝, fun _ _ => ⌜False⌝⟩⦄ := by
  mvcgen [initCtx]

attribute [local spec] noRetryEndHook_l recordFailure_l

theorem classifyForBreaker_l (e : Exn) :
    ⦃fun w => ⌜view cfg w = v⌝⦄ classifyForBreaker cfg e ⦃leafPost cfg v⦄ := by
  have h := callClassifier_l cfg
  mvcgen [classifyForBreaker, h]
  l_close

attribute [local spec] classifyForBreaker_l

theorem handleExhaustedCall_l (e : Exn) :
    ⦃fun w => ⌜view cfg w = v⌝⦄ handleExhaustedCall cfg e ⦃leafPost cfg v⦄ := by
  mvcgen [handleExhaustedCall]
  l_close

theorem handleExceptionCall_l (e : Exn) (b : Bool) :
    ⦃fun w => ⌜view cfg w = v⌝⦄ handleExceptionCall cfg e b ⦃leafPost cfg v⦄ := by
  mvcgen [handleExceptionCall]
  l_close

theorem recordCancel_l :
    ⦃fun w => ⌜view cfg w = v⌝⦄ Policy.recordCancel cfg
    ⦃post⟨fun _ w => ⌜view cfg w = v⌝, fun _ _ => ⌜False⌝⟩⦄ := by
  mvcgen [Policy.recordCancel]
  l_close
  all_goals (simp_all [step_record, isRecord]; done)

attribute [local spec] recordCancel_l

theorem handleAbortCall_l (e : Exn) :
    ⦃fun w => ⌜view cfg w = v⌝⦄ handleAbortCall cfg e ⦃leafPost cfg v⦄ := by
  mvcgen [handleAbortCall]
  l_close

end leafL

/-! ### leaf specifications used below: view + (where needed) origin of the escaping exception -/

/-- conjunction of a view lemma and an origin lemma -/
theorem leaf_and {α : Type} {x : M α} {P : World → Prop} {Q : α → World → Prop} {R : α → Prop}
    {E O : Exn → World → Prop}
    (hl : ⦃fun w => ⌜P w⌝⦄ x ⦃post⟨fun a w => ⌜Q a w⌝, fun e w => ⌜E e w⌝⟩⦄)
    (ho : ⦃fun _ => ⌜True⌝⦄ x ⦃post⟨fun a _ => ⌜R a⌝, fun e w => ⌜O e w⌝⟩⦄) :
    ⦃fun w => ⌜P w⌝⦄ x ⦃post⟨fun a w => ⌜R a ∧ Q a w⌝, fun e w => ⌜E e w ∧ O e w⌝⟩⦄ := by
  apply triple_of_run
  intro w hw
  have h1 := adequacy hl w hw
  have h2 := adequacy ho w trivial
  split <;> simp_all

theorem triple_and {α : Type} {x : M α} {Q1 Q2 : α → World → Prop} {E1 E2 : Exn → World → Prop}
    (h1 : ⦃fun _ => ⌜True⌝⦄ x ⦃post⟨fun a w => ⌜Q1 a w⌝, fun e w => ⌜E1 e w⌝⟩⦄)
    (h2 : ⦃fun _ => ⌜True⌝⦄ x ⦃post⟨fun a w => ⌜Q2 a w⌝, fun e w => ⌜E2 e w⌝⟩⦄) :
    ⦃fun _ => ⌜True⌝⦄ x ⦃post⟨fun a w => ⌜Q1 a w ∧ Q2 a w⌝, fun e w => ⌜E1 e w ∧ E2 e w⌝⟩⦄ := by
  apply triple_of_run
  intro w _
  have a1 := adequacy h1 w trivial
  have a2 := adequacy h2 w trivial
  split <;> simp_all

/-- the view is kept on the normal exit; what escapes is no `Exception` and comes from a hook -/
abbrev sameE (cfg : Cfg) (v : Option St) : PostCond α (.except Exn (.arg World .pure)) :=
  post⟨fun _ w => ⌜view cfg w = v⌝,
       fun e w => ⌜ErrL cfg v e w ∧ e.isException = false ∧ Raised w.trace e⌝⟩

/-- the view is kept on the normal exit; what escapes comes from a hook -/
abbrev sameR (cfg : Cfg) (v : Option St) : PostCond α (.except Exn (.arg World .pure)) :=
  post⟨fun _ w => ⌜view cfg w = v⌝, fun e w => ⌜ErrL cfg v e w ∧ Raised w.trace e⌝⟩

section leaves
variable (cfg : Cfg) (v : Option St) (tl : Bool)

theorem emit_v (ev : Event) (a s : Nat) (k : Option EClass) (e : Option Exn) (st : Option StopReason)
    (c : Option Cause) (cl : Option Classification) :
    ⦃fun w => ⌜view cfg w = v⌝⦄ emit cfg tl ev a s k e st c cl ⦃sameE cfg v⦄ := by
  have h := leaf_and (emit_l cfg v tl ev a s k e st c cl) (emit_org cfg tl ev a s k e st c cl)
  simpa using h

theorem emitAbortedOnce_v (a : Nat) :
    ⦃fun w => ⌜view cfg w = v⌝⦄ emitAbortedOnce cfg tl a ⦃sameE cfg v⦄ := by
  have h := leaf_and (emitAbortedOnce_l cfg v tl a) (emitAbortedOnce_org cfg tl a)
  simpa using h

theorem handleAbortAttemptEnd_v (a : Nat) (e : Exn) :
    ⦃fun w => ⌜view cfg w = v⌝⦄ handleAbortAttemptEnd cfg a e ⦃sameR cfg v⦄ := by
  have h := leaf_and (handleAbortAttemptEnd_l cfg v a e) (handleAbortAttemptEnd_org cfg a e)
  simpa using h

theorem abortOutcome_v (a : Nat) :
    ⦃fun w => ⌜view cfg w = v⌝⦄ abortOutcome cfg tl a
    ⦃post⟨fun o w => ⌜o.stop = some .aborted ∧ view cfg w = v⌝,
          fun e w => ⌜ErrL cfg v e w ∧ e.isException = false ∧ Raised w.trace e⌝⟩⦄ := by
  have h := leaf_and (R := fun o => o.stop = some .aborted ∧ True) (abortOutcome_l cfg v tl a)
    (triple_and (abortOutcome_stop cfg tl a) (abortOutcome_org cfg tl a))
  simpa using h

end leaves

attribute [local spec] emit_v setStop_l recordStrategySuccess_l stratRecordFailure_l callStrategy_l
  callClassifier_l shouldClassifyResult_l callAttemptStart_l callAttemptEndFromOutcome_l callBeforeSleep_l
  callSleepHandler_l buildOutcome_l emitAbortedOnce_v handleSleepDecision_l handleSuccessAttemptEnd_l
  handleAbortAttemptEnd_v raiseExhaustedCall_l buildExhaustedOutcome_l deliverCall_l abortOutcome_v
  deliverExecute_l budgetConsume_l stopWith_l

/-! ### the phases of a run, as the monitor sees them -/

/-- nothing has been aborted or cancelled, nothing is wrong -/
structure Live (m : St) : Prop where
  aborted : m.aborted = false
  cancelled : m.cancelled = none
  bad : m.bad = false

/-- …and the abort predicate has been polled since the last attempt / sleep -/
structure Ready (cfg : Cfg) (m : St) : Prop extends Live m where
  polled : cfg.abortIf = true → m.polled = true

/-- an escaping exception is an abort, or comes from a callback other than the operation
    (`.stuck`: model-only, ill-shaped answer stream) -/
def Org (e : Exn) (w : World) : Prop := e.isAbort = true ∨ e = .stuck ∨ Raised w.trace e

/-- what the verdict asks of a run that ends by raising `e` -/
structure Fin (cfg : Cfg) (e : Exn) (w : World) : Prop where
  bad : (cur cfg w.trace).bad = false
  canc : ∀ c, (cur cfg w.trace).cancelled = some c → e = c ∧ c.isCancelKind = true
  abt : (cur cfg w.trace).aborted = true → (cur cfg w.trace).cancelled = none → Org e w

/-- …and, inside an attempt: after an abort only an abort or a non-`Exception` is in flight -/
structure FinS (cfg : Cfg) (e : Exn) (w : World) : Prop extends Fin cfg e w where
  strong : (cur cfg w.trace).aborted = true → (cur cfg w.trace).cancelled = none →
    e.isAbort = true ∨ e.isException = false

theorem finS_iff {cfg : Cfg} {e : Exn} {w : World} : FinS cfg e w ↔
    (cur cfg w.trace).bad = false ∧
    (∀ c, (cur cfg w.trace).cancelled = some c → e = c ∧ c.isCancelKind = true) ∧
    ((cur cfg w.trace).aborted = true → (cur cfg w.trace).cancelled = none → Org e w) ∧
    ((cur cfg w.trace).aborted = true → (cur cfg w.trace).cancelled = none →
      e.isAbort = true ∨ e.isException = false) :=
  ⟨fun h => ⟨h.bad, h.canc, h.abt, h.strong⟩, fun h => ⟨⟨h.1, h.2.1, h.2.2.1⟩, h.2.2.2⟩⟩

theorem fin_iff {cfg : Cfg} {e : Exn} {w : World} : Fin cfg e w ↔
    (cur cfg w.trace).bad = false ∧
    (∀ c, (cur cfg w.trace).cancelled = some c → e = c ∧ c.isCancelKind = true) ∧
    ((cur cfg w.trace).aborted = true → (cur cfg w.trace).cancelled = none → Org e w) :=
  ⟨fun h => ⟨h.bad, h.canc, h.abt⟩, fun h => ⟨h.1, h.2.1, h.2.2⟩⟩

/-- a cancellation just raised and in flight is what the verdict wants, whatever the phase was -/
theorem finS_of_canc {cfg : Cfg} {m : St} {e : Exn} {w : World} (hk : e.isCancelKind = true)
    (hc : cur cfg w.trace = { m with cancelled := some e }) (hb : m.bad = false) : FinS cfg e w := by
  rw [finS_iff, hc]
  simp [hb, hk]

/-- how a leaf that started in a good state `m` may end by raising -/
theorem finS_of_errL {cfg : Cfg} {m : St} {e : Exn} {w : World} (h : ErrL cfg (some m) e w)
    (hb : m.bad = false)
    (ha : m.aborted = true → e.isAbort = true ∨ (e.isException = false ∧ (e = .stuck ∨ Raised w.trace e))) :
    FinS cfg e w := by
  rcases h with h | ⟨hk, m', hm', hc⟩
  · obtain ⟨h1, h2⟩ := viewOf_eq_some.mp h
    rw [finS_iff, h1]
    refine ⟨hb, by simp [h1 ▸ h2], fun a _ => ?_, fun a _ => ?_⟩
    · rcases ha a with h | h
      · exact Or.inl h
      · exact Or.inr h.2
    · rcases ha a with h | h
      · exact Or.inl h
      · exact Or.inr h.1
  · cases hm'
    exact finS_of_canc hk hc hb

theorem step_dur (cfg : Cfg) (m : St) (r : Req) (e : Exn) (d : Nat) :
    step cfg m (r, .raise e d) = step cfg m (r, .raise e 0) := by
  cases r <;> simp [step, stepLive] <;> (repeat' split) <;> simp_all

/-- one exchange, as the monitor sees it -/
theorem ask_cur (cfg : Cfg) (r : Req) (m : St) :
    ⦃fun w => ⌜cur cfg w.trace = m⌝⦄ ask r
    ⦃post⟨fun a w => ⌜cur cfg w.trace = step cfg m (r, a) ∧ ∀ e d, ¬ a = Ans.raise e d⌝,
          fun e w => ⌜cur cfg w.trace = step cfg m (r, .raise e 0) ∧ (isOp r = false → Raised w.trace e)⌝⟩⦄ := by
  mvcgen [ask]
  all_goals (subst_vars; simp_all [step_dur cfg _ r _ _])
  all_goals (intro hr; exact ⟨_, List.mem_cons_self, hr, _, rfl⟩)

/-- the poll answered True -/
def saysAbort : Ans → Bool
  | .bool true _ => true
  | _ => false

theorem step_abortIf (cfg : Cfg) (m : St) (a : Ans) (hc : m.cancelled = none) :
    step cfg m (.abortIf, a) =
      cancelMark { m with polled := true, aborted := m.aborted || saysAbort a } a := by
  rw [step_none cfg m _ hc]
  cases a <;> simp [isRecord, stepLive, saysAbort]
  rename_i b _
  cases b <;> simp

/-- the monitor after a poll that answered "go on" -/
def pollOk (cfg : Cfg) (m : St) : St := if cfg.abortIf then { m with polled := true } else m

/-- the monitor after an attempt or a sleep that was preceded by a poll -/
def afterOp (m : St) : St := { m with polled := false }

def abortedOp (m : St) : St := { m with polled := false, aborted := true }

def cancelledOp (m : St) (e : Exn) : St := { m with polled := false, cancelled := some e }

theorem step_op_ok (cfg : Cfg) (m : St) (a : Ans) (hm : Ready cfg m)
    (ha : ∀ e d, ¬ a = Ans.raise e d) (n : Nat) : step cfg m (.op n, a) = afterOp m := by
  obtain ⟨⟨h1, h2, h3⟩, h4⟩ := hm
  rw [step_none cfg m _ h2]
  cases a <;> simp_all [isRecord, stepLive, cancelMark, afterOp] <;> (cases hab : cfg.abortIf <;> simp_all)

theorem step_op_raise (cfg : Cfg) (m : St) (n : Nat) (e : Exn) (d : Nat) (hm : Ready cfg m) :
    step cfg m (.op n, .raise e d) =
      if e.isAbort then abortedOp m else if e.isCancelKind then cancelledOp m e else afterOp m := by
  obtain ⟨⟨h1, h2, h3⟩, h4⟩ := hm
  rw [step_none cfg m _ h2]
  by_cases ha : e.isAbort = true
  · have hk : e.isCancelKind = false := by cases e <;> simp_all [Exn.isCancelKind, Exn.isAbort]
    cases hab : cfg.abortIf <;> simp_all [isRecord, stepLive, cancelMark, abortedOp]
  · by_cases hk : e.isCancelKind = true <;>
      (cases hab : cfg.abortIf <;> simp_all [isRecord, stepLive, cancelMark, afterOp, cancelledOp])

theorem step_sleeper_ok (cfg : Cfg) (m : St) (a : Ans) (hm : Ready cfg m)
    (ha : ∀ e d, ¬ a = Ans.raise e d) (l : Lvl) (n : Nat) : step cfg m (.sleeper l n, a) = afterOp m := by
  obtain ⟨⟨h1, h2, h3⟩, h4⟩ := hm
  rw [step_none cfg m _ h2]
  cases a <;> simp_all [isRecord, stepLive, cancelMark, afterOp] <;> (cases hab : cfg.abortIf <;> simp_all)

theorem step_sleeper_raise (cfg : Cfg) (m : St) (l : Lvl) (n : Nat) (e : Exn) (d : Nat)
    (hm : Ready cfg m) :
    step cfg m (.sleeper l n, .raise e d) = if e.isCancelKind then cancelledOp m e else afterOp m := by
  obtain ⟨⟨h1, h2, h3⟩, h4⟩ := hm
  rw [step_none cfg m _ h2]
  by_cases hk : e.isCancelKind = true <;>
    (cases hab : cfg.abortIf <;> simp_all [isRecord, stepLive, cancelMark, afterOp, cancelledOp])

/-- normalise views to monitor states and let `simp_all` (then `grind`) do the rest -/
macro "c13" : tactic => `(tactic| all_goals (
  first
    | ((try subst_vars) <;> (try intros) <;> (try simp only [view, finS_iff, fin_iff, ErrL, CancV] at *) <;>
       (simp_all +zetaDelta [viewOf_eq_some, viewOf_of_none, step_abortIf, cancelMark, saysAbort, pollOk, Org,
         Exn.isAbort, Exn.isException, Exn.isCancelKind, step_op_ok, step_op_raise, step_sleeper_ok,
         step_sleeper_raise, afterOp, abortedOp, cancelledOp]; done))
    | ((try subst_vars) <;> (try intros) <;> (try simp only [view, finS_iff, fin_iff, ErrL, CancV] at *) <;>
       (try simp_all +zetaDelta [viewOf_eq_some, viewOf_of_none, step_abortIf, cancelMark, saysAbort, pollOk, Org,
         Exn.isAbort, Exn.isException, Exn.isCancelKind, step_op_ok, step_op_raise, step_sleeper_ok,
         step_sleeper_raise, afterOp, abortedOp, cancelledOp]) <;>
       grind [isCancelKind_not_abort, isCancelKind_not_exception])
    | skip))

theorem checkAbort_spec (cfg : Cfg) (tl : Bool) (a : Nat) (m : St) (hm : Live m) :
    ⦃fun w => ⌜view cfg w = some m⌝⦄ checkAbort cfg tl a
    ⦃post⟨fun _ w => ⌜view cfg w = some (pollOk cfg m)⌝, fun e w => ⌜FinS cfg e w⌝⟩⦄ := by
  obtain ⟨h1, h2, h3⟩ := hm
  mvcgen [checkAbort, ask_cur]
  c13

theorem Live.pollOk {cfg : Cfg} {m : St} (hm : Live m) : Ready cfg (pollOk cfg m) := by
  obtain ⟨h1, h2, h3⟩ := hm
  unfold C13.pollOk
  split <;> refine ⟨⟨?_, ?_, ?_⟩, ?_⟩ <;> simp_all

theorem Ready.afterOp {cfg : Cfg} {m : St} (hm : Ready cfg m) : Live (afterOp m) :=
  ⟨hm.aborted, hm.cancelled, hm.bad⟩

theorem finS_of_op {cfg : Cfg} {m : St} {e : Exn} {w : World} (hm : Ready cfg m)
    (hc : cur cfg w.trace =
      if e.isAbort then abortedOp m else if e.isCancelKind then cancelledOp m e else C13.afterOp m) :
    FinS cfg e w := by
  have h1 := hm.aborted
  have h2 := hm.cancelled
  have h3 := hm.bad
  rw [finS_iff]
  by_cases ha : e.isAbort = true
  · simp_all [abortedOp, Org]
  · by_cases hk : e.isCancelKind = true
    · simp_all [cancelledOp]
    · simp_all [C13.afterOp]

theorem finS_of_sleeper {cfg : Cfg} {m : St} {e : Exn} {w : World} (hm : Ready cfg m)
    (hc : cur cfg w.trace = if e.isCancelKind then cancelledOp m e else C13.afterOp m) :
    FinS cfg e w := by
  have h1 := hm.aborted
  have h2 := hm.cancelled
  have h3 := hm.bad
  rw [finS_iff]
  by_cases hk : e.isCancelKind = true <;> simp_all [cancelledOp, C13.afterOp]

theorem invokeOp_spec (cfg : Cfg) (a : Nat) (m : St) (hm : Ready cfg m) :
    ⦃fun w => ⌜view cfg w = some m⌝⦄ invokeOp a
    ⦃post⟨fun _ w => ⌜view cfg w = some (C13.afterOp m)⌝, fun e w => ⌜FinS cfg e w⌝⟩⦄ := by
  have h1 := hm.aborted
  have h2 := hm.cancelled
  have h3 := hm.bad
  mvcgen [invokeOp, ask_cur]
  c13
  all_goals (intros; first
    | (refine finS_of_op hm ?_; simp_all +zetaDelta [view, viewOf_eq_some, step_op_raise]; done)
    | (rename_i h
       have := step_op_ok cfg m _ hm h.2
       refine finS_of_op hm ?_
       simp_all +zetaDelta [view, viewOf_eq_some, Exn.isAbort, Exn.isCancelKind]))

theorem callSleeper_spec (cfg : Cfg) (s : Nat) (m : St) (hm : Ready cfg m) :
    ⦃fun w => ⌜view cfg w = some m⌝⦄ callSleeper cfg s
    ⦃post⟨fun _ w => ⌜view cfg w = some (C13.afterOp m)⌝, fun e w => ⌜FinS cfg e w⌝⟩⦄ := by
  have h1 := hm.aborted
  have h2 := hm.cancelled
  have h3 := hm.bad
  mvcgen [callSleeper, ask_cur]
  c13
  all_goals (intros; refine finS_of_sleeper hm ?_; simp_all +zetaDelta [view, viewOf_eq_some, step_sleeper_raise])

/-! ### procedures that keep the view (like leaves) but touch the retry state -/

macro "close_l" : tactic => `(tactic| all_goals (
  (try subst_vars) <;> (try intros) <;> (try simp +zetaDelta only [restore_dummy, view] at *) <;>
  first
    | rfl
    | assumption
    | (simp_all +zetaDelta; done)
    | grind [errL_exception, errL_abort, ErrL, view]
    | skip))

section inertProcs
variable (v : Option St) (cfg : Cfg) (tl : Bool)

theorem grantRetry_l (c : Classification) (a : Nat) (cause : Cause) (e : Option Exn) (key : SKey)
    (kind : SKind) (rem : Nat) :
    ⦃fun w => ⌜view cfg w = v⌝⦄ grantRetry cfg tl c a cause e key kind rem ⦃leafPost cfg v⦄ := by
  mvcgen [grantRetry, getRS, modifyRS]
  close_l

attribute [local spec] grantRetry_l

theorem handleFailure2_l (c : Classification) (a : Nat) (cause : Cause) (e : Option Exn) :
    ⦃fun w => ⌜view cfg w = v⌝⦄ handleFailure2 cfg tl c a cause e ⦃leafPost cfg v⦄ := by
  mvcgen [handleFailure2, elapsed, modifyRS]
  close_l

attribute [local spec] handleFailure2_l

theorem handleUnknown_l (c : Classification) (a : Nat) (cause : Cause) (e : Option Exn) :
    ⦃fun w => ⌜view cfg w = v⌝⦄ handleUnknown cfg tl c a cause e ⦃leafPost cfg v⦄ := by
  mvcgen [handleUnknown, getRS, modifyRS]
  close_l

attribute [local spec] handleUnknown_l

theorem handleFailure1_l (c : Classification) (a : Nat) (cause : Cause) (e : Option Exn) :
    ⦃fun w => ⌜view cfg w = v⌝⦄ handleFailure1 cfg tl c a cause e ⦃leafPost cfg v⦄ := by
  mvcgen [handleFailure1, getRS]
  close_l

attribute [local spec] handleFailure1_l

theorem handleFailure_l (c : Classification) (a : Nat) (cause : Cause) (e : Option Exn) (r : Option Nat) :
    ⦃fun w => ⌜view cfg w = v⌝⦄ handleFailure cfg tl c a cause e r ⦃leafPost cfg v⦄ := by
  mvcgen [handleFailure, Retry.recordFailure, modifyRS]
  close_l

attribute [local spec] handleFailure_l

theorem handleException_l (e : Exn) (a : Nat) :
    ⦃fun w => ⌜view cfg w = v⌝⦄ handleException cfg tl e a ⦃leafPost cfg v⦄ := by
  mvcgen [handleException]
  close_l

theorem finalizeAttempt_l (a : Nat) (d : Decision) (act : Option SleepDecision)
    (cls : Option Classification) (e : Option Exn) (r : Option Nat) (c : Option Cause) :
    ⦃fun w => ⌜view cfg w = v⌝⦄ finalizeAttempt cfg tl a d act cls e r c ⦃leafPost cfg v⦄ := by
  mvcgen [finalizeAttempt, getRS, elapsed]
  close_l

end inertProcs

attribute [local spec] grantRetry_l handleFailure2_l handleUnknown_l handleFailure1_l handleFailure_l
  handleException_l finalizeAttempt_l

/-! ### the phases as predicates on worlds -/

def LiveW (cfg : Cfg) (w : World) : Prop := Live (cur cfg w.trace)
def ReadyW (cfg : Cfg) (w : World) : Prop := Ready cfg (cur cfg w.trace)
/-- no cancellation, nothing wrong (aborted or not) -/
def QuietW (cfg : Cfg) (w : World) : Prop :=
  (cur cfg w.trace).cancelled = none ∧ (cur cfg w.trace).bad = false

theorem live_iff {m : St} : Live m ↔ m.aborted = false ∧ m.cancelled = none ∧ m.bad = false :=
  ⟨fun h => ⟨h.aborted, h.cancelled, h.bad⟩, fun h => ⟨h.1, h.2.1, h.2.2⟩⟩

theorem ready_iff {cfg : Cfg} {m : St} : Ready cfg m ↔
    m.aborted = false ∧ m.cancelled = none ∧ m.bad = false ∧ (cfg.abortIf = true → m.polled = true) :=
  ⟨fun h => ⟨h.aborted, h.cancelled, h.bad, h.polled⟩, fun h => ⟨⟨h.1, h.2.1, h.2.2.1⟩, h.2.2.2⟩⟩

theorem checkAbort_w (cfg : Cfg) (tl : Bool) (a : Nat) :
    ⦃fun w => ⌜LiveW cfg w⌝⦄ checkAbort cfg tl a
    ⦃post⟨fun _ w => ⌜ReadyW cfg w⌝, fun e w => ⌜FinS cfg e w⌝⟩⦄ := by
  apply triple_of_run
  intro w hw
  have := adequacy (checkAbort_spec cfg tl a _ hw) w (view_eq_some.mpr ⟨rfl, hw.cancelled⟩)
  split <;> simp_all
  have h := (view_eq_some.mp this).1
  unfold ReadyW
  rw [h]
  exact hw.pollOk

theorem invokeOp_w (cfg : Cfg) (a : Nat) :
    ⦃fun w => ⌜ReadyW cfg w⌝⦄ invokeOp a
    ⦃post⟨fun _ w => ⌜LiveW cfg w⌝, fun e w => ⌜FinS cfg e w⌝⟩⦄ := by
  apply triple_of_run
  intro w hw
  have := adequacy (invokeOp_spec cfg a _ hw) w (view_eq_some.mpr ⟨rfl, hw.cancelled⟩)
  split <;> simp_all
  have h := (view_eq_some.mp this).1
  unfold LiveW
  rw [h]
  exact hw.afterOp

theorem callSleeper_w (cfg : Cfg) (s : Nat) :
    ⦃fun w => ⌜ReadyW cfg w⌝⦄ callSleeper cfg s
    ⦃post⟨fun _ w => ⌜LiveW cfg w⌝, fun e w => ⌜FinS cfg e w⌝⟩⦄ := by
  apply triple_of_run
  intro w hw
  have := adequacy (callSleeper_spec cfg s _ hw) w (view_eq_some.mpr ⟨rfl, hw.cancelled⟩)
  split <;> simp_all
  have h := (view_eq_some.mp this).1
  unfold LiveW
  rw [h]
  exact hw.afterOp

/-! ### the retry loop, `call` flavour -/

theorem cancelled_none_of {cfg : Cfg} {e : Exn} {w : World}
    (h : ∀ c, (cur cfg w.trace).cancelled = some c → e = c ∧ c.isCancelKind = true)
    (he : e.isCancelKind = false) : (cur cfg w.trace).cancelled = none := by
  cases hc : (cur cfg w.trace).cancelled with
  | none => rfl
  | some c =>
    obtain ⟨rfl, h2⟩ := h c hc
    simp_all

theorem isAbort_not_cancelKind {e : Exn} (h : e.isAbort = true) : e.isCancelKind = false := by
  cases e <;> simp_all [Exn.isCancelKind, Exn.isAbort]

theorem isException_not_cancelKind {e : Exn} (h : e.isException = true) : e.isCancelKind = false := by
  cases e <;> simp_all [Exn.isCancelKind, Exn.isException]

theorem isExhausted_not_cancelKind {e : Exn} (h : e.isExhausted = true) : e.isCancelKind = false := by
  cases e <;> simp_all [Exn.isCancelKind, Exn.isExhausted]

/-- `Fin` as a hypothesis: with the consequences `simp_all` cannot find by itself -/
theorem fin_iff_h {cfg : Cfg} {e : Exn} {w : World} : Fin cfg e w ↔
    ((cur cfg w.trace).bad = false ∧
    (∀ c, (cur cfg w.trace).cancelled = some c → e = c ∧ c.isCancelKind = true) ∧
    ((cur cfg w.trace).aborted = true → (cur cfg w.trace).cancelled = none → Org e w)) ∧
    (e.isAbort = true → (cur cfg w.trace).cancelled = none) ∧
    (e.isException = true → (cur cfg w.trace).cancelled = none) ∧
    (e.isExhausted = true → (cur cfg w.trace).cancelled = none) := by
  rw [fin_iff]
  constructor
  · intro h
    exact ⟨h, fun ha => cancelled_none_of h.2.1 (isAbort_not_cancelKind ha),
      fun ha => cancelled_none_of h.2.1 (isException_not_cancelKind ha),
      fun ha => cancelled_none_of h.2.1 (isExhausted_not_cancelKind ha)⟩
  · exact fun h => h.1

theorem finS_iff_h {cfg : Cfg} {e : Exn} {w : World} : FinS cfg e w ↔
    ((cur cfg w.trace).bad = false ∧
    (∀ c, (cur cfg w.trace).cancelled = some c → e = c ∧ c.isCancelKind = true) ∧
    ((cur cfg w.trace).aborted = true → (cur cfg w.trace).cancelled = none → Org e w) ∧
    ((cur cfg w.trace).aborted = true → (cur cfg w.trace).cancelled = none →
      e.isAbort = true ∨ e.isException = false)) ∧
    (e.isAbort = true → (cur cfg w.trace).cancelled = none) ∧
    (e.isException = true → (cur cfg w.trace).cancelled = none) ∧
    (e.isExhausted = true → (cur cfg w.trace).cancelled = none) := by
  rw [finS_iff]
  constructor
  · intro h
    exact ⟨h, fun ha => cancelled_none_of h.2.1 (isAbort_not_cancelKind ha),
      fun ha => cancelled_none_of h.2.1 (isException_not_cancelKind ha),
      fun ha => cancelled_none_of h.2.1 (isExhausted_not_cancelKind ha)⟩
  · exact fun h => h.1

/-- normalise everything to statements about monitor states and let `simp_all` (then `grind`) do
    the rest -/
macro "c13w" : tactic => `(tactic| all_goals (
  first
    | ((try subst_vars) <;> (try intros) <;> (try simp only [finS_iff, fin_iff]) <;>
       (try simp +zetaDelta only [restore_dummy, view, LiveW, ReadyW, QuietW, live_iff, ready_iff, finS_iff_h, fin_iff_h, ErrL, CancV] at *) <;>
       (simp_all +zetaDelta [viewOf_eq_some, viewOf_of_none, Org, Exn.isAbort, Exn.isException]; done))
    | ((try subst_vars) <;> (try intros) <;> (try simp only [finS_iff, fin_iff]) <;>
       (try simp +zetaDelta only [restore_dummy, view, LiveW, ReadyW, QuietW, live_iff, ready_iff, finS_iff_h, fin_iff_h, ErrL, CancV] at *) <;>
       (try simp_all +zetaDelta [viewOf_eq_some, viewOf_of_none, Org, Exn.isAbort, Exn.isException]) <;>
       grind [isCancelKind_not_abort, isCancelKind_not_exception])
    | skip))

attribute [local spec] checkAbort_w invokeOp_w callSleeper_w

theorem sleepAction_spec (cfg : Cfg) (tl : Bool) (a s : Nat) (ctx : BackoffCtx) :
    ⦃fun w => ⌜ReadyW cfg w⌝⦄ sleepAction cfg tl a s ctx
    ⦃post⟨fun _ w => ⌜LiveW cfg w⌝, fun e w => ⌜FinS cfg e w⌝⟩⦄ := by
  mvcgen [sleepAction]
  c13w

attribute [local spec] sleepAction_spec

theorem failureOutcome_spec (cfg : Cfg) (tl : Bool) (a : Nat) (d : Decision)
    (cls : Option Classification) (e : Option Exn) (r : Option Nat) (c : Option Cause) :
    ⦃fun w => ⌜ReadyW cfg w⌝⦄ failureOutcome cfg tl a d cls e r c
    ⦃post⟨fun _ w => ⌜LiveW cfg w⌝, fun e w => ⌜FinS cfg e w⌝⟩⦄ := by
  mvcgen [failureOutcome]
  c13w

attribute [local spec] failureOutcome_spec

/-- one attempt of `call`: the loop goes on (or returns) alive, or the run ends as the verdict wants -/
abbrev livePost (cfg : Cfg) : PostCond α (.except Exn (.arg World .pure)) :=
  post⟨fun _ w => ⌜LiveW cfg w⌝, fun e w => ⌜Fin cfg e w⌝⟩

theorem callExceptionPath_spec (cfg : Cfg) (a : Nat) (e : Exn) :
    ⦃fun w => ⌜LiveW cfg w⌝⦄ callExceptionPath cfg a e ⦃livePost cfg⦄ := by
  mvcgen [callExceptionPath, getRS, modifyAS]
  c13w

attribute [local spec] callExceptionPath_spec

theorem callOpHandler_spec (cfg : Cfg) (a : Nat) (e : Exn) :
    ⦃fun w => ⌜FinS cfg e w⌝⦄ callOpHandler cfg a e ⦃livePost cfg⦄ := by
  mvcgen [callOpHandler]
  c13w

attribute [local spec] callOpHandler_spec

theorem callResultFailure_spec (cfg : Cfg) (a x : Nat) (c : Classification) :
    ⦃fun w => ⌜LiveW cfg w⌝⦄ callResultFailure cfg a x c ⦃livePost cfg⦄ := by
  mvcgen [callResultFailure, getRS, modifyAS]
  c13w

attribute [local spec] callResultFailure_spec

theorem callResultPath_spec (cfg : Cfg) (a x : Nat) :
    ⦃fun w => ⌜LiveW cfg w⌝⦄ callResultPath cfg a x ⦃livePost cfg⦄ := by
  mvcgen [callResultPath]
  c13w

attribute [local spec] callResultPath_spec

/-- one iteration of the loop of `call` -/
theorem callAttempt_spec (cfg : Cfg) (a : Nat) :
    ⦃fun w => ⌜LiveW cfg w⌝⦄ callAttempt cfg a ⦃livePost cfg⦄ := by
  mvcgen [callAttempt, modifyAS]
  c13w

theorem callLoop_spec (cfg : Cfg) : ∀ (fuel a : Nat),
    ⦃fun w => ⌜LiveW cfg w⌝⦄ callLoop cfg fuel a ⦃livePost cfg⦄ := by
  intro fuel
  induction fuel with
  | zero =>
    intro a
    mvcgen [callLoop]
    c13w
  | succ f ih =>
    intro a
    mvcgen [callLoop, callAttempt_spec, ih]
    c13w

theorem runCall_spec (cfg : Cfg) :
    ⦃fun w => ⌜LiveW cfg w⌝⦄ runCall cfg ⦃livePost cfg⦄ := by
  have hl := callLoop_spec cfg cfg.maxAttempts 1
  mvcgen [runCall, initState, hl]
  c13w


attribute [local spec] checkAbort_w invokeOp_w callSleeper_w sleepAction_spec failureOutcome_spec

/-! ### the retry loop, `execute` flavour -/

/-- what the verdict asks of a run that ends by returning outcome `o` -/
def FinO (cfg : Cfg) (o : Outcome) (w : World) : Prop :=
  (cur cfg w.trace).bad = false ∧ (cur cfg w.trace).cancelled = none ∧
    ((cur cfg w.trace).aborted = true → o.stop = some .aborted)

/-- after an attempt of `execute`: go on alive, or return an acceptable outcome -/
def OkX (cfg : Cfg) (r : Option Outcome) (w : World) : Prop :=
  (r = none → LiveW cfg w) ∧ (∀ o, r = some o → FinO cfg o w)

abbrev xPost (cfg : Cfg) : PostCond (Option Outcome) (.except Exn (.arg World .pure)) :=
  post⟨fun r w => ⌜OkX cfg r w⌝, fun e w => ⌜Fin cfg e w⌝⟩

macro "c13x" : tactic => `(tactic| all_goals (
  first
    | ((try subst_vars) <;> (try intros) <;> (try simp only [finS_iff, fin_iff]) <;>
       (try simp +zetaDelta only [restore_dummy, view, LiveW, ReadyW, QuietW, OkX, FinO, live_iff, ready_iff, finS_iff_h, fin_iff_h, ErrL, CancV] at *) <;>
       (simp_all +zetaDelta [viewOf_eq_some, viewOf_of_none, Org, Exn.isAbort, Exn.isException]; done))
    | ((try subst_vars) <;> (try intros) <;> (try simp only [finS_iff, fin_iff]) <;>
       (try simp +zetaDelta only [restore_dummy, view, LiveW, ReadyW, QuietW, OkX, FinO, live_iff, ready_iff, finS_iff_h, fin_iff_h, ErrL, CancV] at *) <;>
       (try simp_all +zetaDelta [viewOf_eq_some, viewOf_of_none, Org, Exn.isAbort, Exn.isException]) <;>
       grind [isCancelKind_not_abort, isCancelKind_not_exception])
    | skip))

theorem execAbortExit_spec (cfg : Cfg) (tl : Bool) (a : Nat) (e : Exn) :
    ⦃fun w => ⌜QuietW cfg w⌝⦄ execAbortExit cfg tl a e
    ⦃post⟨fun r w => ⌜r ≠ none ∧ OkX cfg r w⌝, fun e w => ⌜Fin cfg e w⌝⟩⦄ := by
  mvcgen [execAbortExit]
  c13x

theorem checkAbortCaught_spec (cfg : Cfg) (tl : Bool) (a : Nat) :
    ⦃fun w => ⌜LiveW cfg w⌝⦄ checkAbortCaught cfg tl a
    ⦃post⟨fun b w => ⌜(b = false → ReadyW cfg w) ∧ (b = true → QuietW cfg w)⌝, fun e w => ⌜Fin cfg e w⌝⟩⦄ := by
  mvcgen [checkAbortCaught, abortToTrue]
  c13x

attribute [local spec] execAbortExit_spec checkAbortCaught_spec

theorem execExceptionPath3_spec (cfg : Cfg) (tl : Bool) (a : Nat) (e : Exn) (d : Decision) :
    ⦃fun w => ⌜ReadyW cfg w⌝⦄ execExceptionPath3 cfg tl a e d ⦃xPost cfg⦄ := by
  mvcgen [execExceptionPath3, getRS, modifyAS]
  c13x

attribute [local spec] execExceptionPath3_spec

theorem execExceptionPath2_spec (cfg : Cfg) (tl : Bool) (a : Nat) (e : Exn) :
    ⦃fun w => ⌜ReadyW cfg w⌝⦄ execExceptionPath2 cfg tl a e ⦃xPost cfg⦄ := by
  mvcgen [execExceptionPath2, getRS, modifyAS]
  c13x

attribute [local spec] execExceptionPath2_spec

theorem execExceptionPath_spec (cfg : Cfg) (tl : Bool) (a : Nat) (e : Exn) :
    ⦃fun w => ⌜LiveW cfg w⌝⦄ execExceptionPath cfg tl a e ⦃xPost cfg⦄ := by
  mvcgen [execExceptionPath, modifyAS]
  c13x

attribute [local spec] execExceptionPath_spec

theorem execHandler_spec (cfg : Cfg) (tl : Bool) (a : Nat) (e : Exn) :
    ⦃fun w => ⌜FinS cfg e w⌝⦄ execHandler cfg tl a e ⦃xPost cfg⦄ := by
  mvcgen [execHandler]
  c13x

theorem execReturnedHandler_spec (cfg : Cfg) (tl : Bool) (a : Nat) (e : Exn) :
    ⦃fun w => ⌜Fin cfg e w⌝⦄ execReturnedHandler cfg tl a e ⦃xPost cfg⦄ := by
  mvcgen [execReturnedHandler]
  c13x

theorem execResultFailure_spec (cfg : Cfg) (tl : Bool) (a x : Nat) (c : Classification) :
    ⦃fun w => ⌜LiveW cfg w⌝⦄ execResultFailure cfg tl a x c ⦃xPost cfg⦄ := by
  mvcgen [execResultFailure, getRS, modifyAS]
  c13x

attribute [local spec] execResultFailure_spec

theorem execResultPath_spec (cfg : Cfg) (tl : Bool) (a x : Nat) :
    ⦃fun w => ⌜LiveW cfg w⌝⦄ execResultPath cfg tl a x ⦃xPost cfg⦄ := by
  mvcgen [execResultPath]
  c13x

theorem execPre_spec (cfg : Cfg) (tl : Bool) (a : Nat) :
    ⦃fun w => ⌜LiveW cfg w⌝⦄ execPre cfg tl a
    ⦃post⟨fun _ w => ⌜LiveW cfg w⌝, fun e w => ⌜FinS cfg e w⌝⟩⦄ := by
  mvcgen [execPre, modifyAS]
  c13x

theorem execAttempt_spec (cfg : Cfg) (tl : Bool) (a : Nat) :
    ⦃fun w => ⌜LiveW cfg w⌝⦄ execAttempt cfg tl a ⦃xPost cfg⦄ := by
  mvcgen [execAttempt, execPre_spec, execHandler_spec, execResultPath_spec, execReturnedHandler_spec]
  c13x

theorem execLoop_spec (cfg : Cfg) (tl : Bool) : ∀ (fuel a : Nat),
    ⦃fun w => ⌜LiveW cfg w⌝⦄ execLoop cfg tl fuel a
    ⦃post⟨fun o w => ⌜FinO cfg o w⌝, fun e w => ⌜Fin cfg e w⌝⟩⦄ := by
  intro fuel
  induction fuel with
  | zero =>
    intro a
    mvcgen [execLoop]
    c13x
  | succ f ih =>
    intro a
    mvcgen [execLoop, execAttempt_spec, ih]
    c13x

theorem runExecute_spec (cfg : Cfg) :
    ⦃fun w => ⌜LiveW cfg w⌝⦄ runExecute cfg
    ⦃post⟨fun o w => ⌜FinO cfg o w⌝, fun e w => ⌜Fin cfg e w⌝⟩⦄ := by
  have hl := execLoop_spec cfg cfg.timeline cfg.maxAttempts 1
  mvcgen [runExecute, initState, hl]
  c13x


/-! ### policy level -/
open Policy

/-- footprint + origin ⇒ invariance, and knowledge of where an escaping exception comes from -/
theorem inv_org_of_foot {α : Type} {x : M α} {K : Kind → Bool} {O : Exn → World → Prop}
    (I : World → Prop)
    (hx : ∀ w0, ⦃fun w => ⌜Foot K w0 w⌝⦄ x ⦃footPost K w0⦄)
    (ho : ⦃fun _ => ⌜True⌝⦄ x ⦃post⟨fun _ _ => ⌜True⌝, fun e w => ⌜O e w⌝⟩⦄)
    (hI : ∀ w w', Foot K w w' → I w → I w') :
    ⦃fun w => ⌜I w⌝⦄ x ⦃post⟨fun _ w => ⌜I w⌝, fun e w => ⌜I w ∧ O e w⌝⟩⦄ := by
  apply triple_of_run
  intro w hw
  have h1 := adequacy (hx w) w (Foot.refl _ w)
  have h2 := adequacy ho w trivial
  split <;> simp_all <;> exact hI _ _ h1 hw

theorem cur_foot_brk (cfg : Cfg) (w w' : World) (h : Foot brkK w w') :
    cur cfg w'.trace = cur cfg w.trace := by
  obtain ⟨δ, e, k⟩ := h.trace
  rw [e, cur_append_brk cfg δ _ k]

theorem org_foot {K : Kind → Bool} {w w' : World} (e : Exn) (h : Foot K w w') (ho : Org e w) : Org e w' := by
  obtain ⟨δ, ht, _⟩ := h.trace
  rcases ho with h | h | h
  · exact Or.inl h
  · exact Or.inr (Or.inl h)
  · exact Or.inr (Or.inr (ht ▸ h.mono δ))

theorem fin_foot_brk (cfg : Cfg) (e : Exn) (w w' : World) (h : Foot brkK w w') (hf : Fin cfg e w) :
    Fin cfg e w' := by
  have hc := cur_foot_brk cfg w w' h
  refine ⟨hc ▸ hf.bad, hc ▸ hf.canc, ?_⟩
  rw [hc]
  exact fun a b => org_foot e h (hf.abt a b)

/-- any predicate of the monitor state survives breaker bookkeeping -/
theorem pred_foot_brk (cfg : Cfg) (P : St → Prop) (w w' : World) (h : Foot brkK w w')
    (hp : P (cur cfg w.trace)) : P (cur cfg w'.trace) := by
  rw [cur_foot_brk cfg w w' h]; exact hp

/-- an exception is in flight that the verdict accepts, and no cancellation has been seen -/
def PolA (cfg : Cfg) (e : Exn) (w : World) : Prop := Fin cfg e w ∧ (cur cfg w.trace).cancelled = none

theorem fin_of_liveW {cfg : Cfg} {e : Exn} {w : World} (h : LiveW cfg w) : Fin cfg e w :=
  ⟨h.bad, by simp [h.cancelled], by simp [h.aborted]⟩

/-- the whole request vocabulary -/
def allK : Kind → Bool := fun _ => true

/-- from a view lemma: a procedure started alive ends alive, or raises what the verdict accepts -/
theorem keep_live_of {α : Type} {x : M α} (cfg : Cfg) (P : St → Prop) (hP : ∀ m, P m → Live m)
    (hl : ∀ v, ⦃fun w => ⌜view cfg w = v⌝⦄ x ⦃leafPost cfg v⦄) :
    ⦃fun w => ⌜P (cur cfg w.trace)⌝⦄ x
    ⦃post⟨fun _ w => ⌜P (cur cfg w.trace)⌝, fun e w => ⌜FinS cfg e w⌝⟩⦄ := by
  apply triple_of_run
  intro w hw
  have hlive := hP _ hw
  have h1 := adequacy (hl (some (cur cfg w.trace))) w (view_eq_some.mpr ⟨rfl, hlive.cancelled⟩)
  cases hr : EStateM.run x w with
  | ok a w' =>
    simp only [hr] at h1 ⊢
    rw [(view_eq_some.mp h1).1]; exact hw
  | error e w' =>
    simp only [hr] at h1 ⊢
    exact finS_of_errL h1 hlive.bad (by simp [hlive.aborted])

/-- …a procedure started with no cancellation and nothing wrong (aborted or not) -/
theorem keep_quiet_of {α : Type} {x : M α} (cfg : Cfg) (P : St → Prop)
    (hP : ∀ m, P m → m.cancelled = none ∧ m.bad = false)
    (hl : ∀ v, ⦃fun w => ⌜view cfg w = v⌝⦄ x ⦃leafPost cfg v⦄)
    (ho : ⦃fun _ => ⌜True⌝⦄ x ⦃orgPostS⦄) :
    ⦃fun w => ⌜P (cur cfg w.trace)⌝⦄ x
    ⦃post⟨fun _ w => ⌜P (cur cfg w.trace)⌝, fun e w => ⌜Fin cfg e w⌝⟩⦄ := by
  apply triple_of_run
  intro w hw
  obtain ⟨hc, hb⟩ := hP _ hw
  have h1 := adequacy (hl (some (cur cfg w.trace))) w (view_eq_some.mpr ⟨rfl, hc⟩)
  have h2 := adequacy ho w trivial
  cases hr : EStateM.run x w with
  | ok a w' =>
    simp only [hr] at h1 ⊢
    rw [(view_eq_some.mp h1).1]; exact hw
  | error e w' =>
    simp only [hr] at h1 h2 ⊢
    rcases h1 with h | ⟨hk, m', hm', hcur⟩
    · obtain ⟨e1, e2⟩ := viewOf_eq_some.mp h
      exact ⟨e1 ▸ hb, by simp [e2], fun _ _ => Or.inr h2⟩
    · cases hm'
      exact (finS_of_canc hk hcur hb).toFin

/-- …a procedure run while an acceptable exception `e0` is in flight (no cancellation so far) -/
theorem keep_polA_of {α : Type} {x : M α} (cfg : Cfg) (e0 : Exn)
    (hl : ∀ v, ⦃fun w => ⌜view cfg w = v⌝⦄ x ⦃leafPost cfg v⦄)
    (ho : ⦃fun _ => ⌜True⌝⦄ x ⦃orgPostS⦄)
    (hf : ∀ w0, ⦃fun w => ⌜Foot allK w0 w⌝⦄ x ⦃footPost allK w0⦄) :
    ⦃fun w => ⌜PolA cfg e0 w⌝⦄ x
    ⦃post⟨fun _ w => ⌜PolA cfg e0 w⌝, fun e w => ⌜Fin cfg e w⌝⟩⦄ := by
  apply triple_of_run
  intro w hw
  obtain ⟨hfin, hc⟩ := hw
  have h1 := adequacy (hl (some (cur cfg w.trace))) w (view_eq_some.mpr ⟨rfl, hc⟩)
  have h2 := adequacy ho w trivial
  have h3 := adequacy (hf w) w (Foot.refl _ w)
  cases hr : EStateM.run x w with
  | ok a w' =>
    simp only [hr] at h1 h3 ⊢
    have e1 := (view_eq_some.mp h1).1
    refine ⟨⟨e1 ▸ hfin.bad, e1 ▸ hfin.canc, ?_⟩, e1 ▸ hc⟩
    rw [e1]
    exact fun a b => org_foot e0 h3 (hfin.abt a b)
  | error e w' =>
    simp only [hr] at h1 h2 ⊢
    rcases h1 with h | ⟨hk, m', hm', hcur⟩
    · obtain ⟨e1, e2⟩ := viewOf_eq_some.mp h
      exact ⟨e1 ▸ hfin.bad, by simp [e2], fun _ _ => Or.inr h2⟩
    · cases hm'
      exact (finS_of_canc hk hcur hfin.bad).toFin

/-- rule of consequence -/
theorem weaken {α : Type} {x : M α} {P P' : World → Prop} {Q Q' : α → World → Prop}
    {E E' : Exn → World → Prop}
    (h : ⦃fun w => ⌜P w⌝⦄ x ⦃post⟨fun a w => ⌜Q a w⌝, fun e w => ⌜E e w⌝⟩⦄)
    (hp : ∀ w, P' w → P w) (hq : ∀ a w, Q a w → Q' a w) (he : ∀ e w, E e w → E' e w) :
    ⦃fun w => ⌜P' w⌝⦄ x ⦃post⟨fun a w => ⌜Q' a w⌝, fun e w => ⌜E' e w⌝⟩⦄ := by
  apply triple_of_run
  intro w hw
  have := adequacy h w (hp w hw)
  split <;> simp_all

/-- `try: x finally: fin`, as a proof rule -/
theorem finally_rule {α : Type} {x : M α} {fin1 fin2 : M Unit} {P : World → Prop}
    {Q Q' : α → World → Prop} {E E' : Exn → World → Prop}
    (hx : ⦃fun w => ⌜P w⌝⦄ x ⦃post⟨fun a w => ⌜Q a w⌝, fun e w => ⌜E e w⌝⟩⦄)
    (herr : ∀ e, ⦃fun w => ⌜E e w⌝⦄ fin1 ⦃post⟨fun _ w => ⌜E' e w⌝, fun e' w => ⌜E' e' w⌝⟩⦄)
    (hok : ∀ a, ⦃fun w => ⌜Q a w⌝⦄ fin2 ⦃post⟨fun _ w => ⌜Q' a w⌝, fun e' w => ⌜E' e' w⌝⟩⦄) :
    ⦃fun w => ⌜P w⌝⦄ (do let a ← tryCatch x (fun e => do fin1; throw e); fin2; pure a)
    ⦃post⟨fun a w => ⌜Q' a w⌝, fun e w => ⌜E' e w⌝⟩⦄ := by
  mvcgen [hx, herr, hok]

theorem withFinally_rule {α : Type} {x : M α} {fin : M Unit} {P : World → Prop}
    {Q Q' : α → World → Prop} {E E' : Exn → World → Prop}
    (hx : ⦃fun w => ⌜P w⌝⦄ x ⦃post⟨fun a w => ⌜Q a w⌝, fun e w => ⌜E e w⌝⟩⦄)
    (herr : ∀ e, ⦃fun w => ⌜E e w⌝⦄ fin ⦃post⟨fun _ w => ⌜E' e w⌝, fun e' w => ⌜E' e' w⌝⟩⦄)
    (hok : ∀ a, ⦃fun w => ⌜Q a w⌝⦄ fin ⦃post⟨fun _ w => ⌜Q' a w⌝, fun e' w => ⌜E' e' w⌝⟩⦄) :
    ⦃fun w => ⌜P w⌝⦄ withFinally x fin ⦃post⟨fun a w => ⌜Q' a w⌝, fun e w => ⌜E' e w⌝⟩⦄ :=
  finally_rule hx herr hok


macro "c13p" : tactic => `(tactic| all_goals (
  first
    | ((try subst_vars) <;> (try intros) <;> (try simp only [finS_iff, fin_iff]) <;>
       (try simp +zetaDelta only [restore_dummy, view, LiveW, ReadyW, QuietW, OkX, FinO, PolA, live_iff, ready_iff,
         finS_iff_h, fin_iff_h, ErrL, CancV] at *) <;>
       (simp_all +zetaDelta [viewOf_eq_some, viewOf_of_none, Org, Exn.isAbort, Exn.isException]; done))
    | ((try subst_vars) <;> (try intros) <;> (try simp only [finS_iff, fin_iff]) <;>
       (try simp +zetaDelta only [restore_dummy, view, LiveW, ReadyW, QuietW, OkX, FinO, PolA, live_iff, ready_iff,
         finS_iff_h, fin_iff_h, ErrL, CancV] at *) <;>
       (try simp_all +zetaDelta [viewOf_eq_some, viewOf_of_none, Org, Exn.isAbort, Exn.isException]) <;>
       grind [isCancelKind_not_abort, isCancelKind_not_exception])
    | skip))

section policySpecs
variable (cfg : Cfg)

/-- breaker bookkeeping keeps an in-flight verdict, and does not raise -/
theorem recordCancel_fin (e0 : Exn) :
    ⦃fun w => ⌜Fin cfg e0 w⌝⦄ Policy.recordCancel cfg
    ⦃post⟨fun _ w => ⌜Fin cfg e0 w⌝, fun _ w => ⌜Fin cfg e0 w ∧ False⌝⟩⦄ :=
  inv_org_of_foot (Fin cfg e0) (fun w0 => recordCancel_foot brkK w0 rfl cfg) (recordCancel_never cfg)
    (fin_foot_brk cfg e0)

theorem ensureSettled_fin (e0 : Exn) :
    ⦃fun w => ⌜Fin cfg e0 w⌝⦄ ensureSettled cfg
    ⦃post⟨fun _ w => ⌜Fin cfg e0 w⌝, fun _ w => ⌜Fin cfg e0 w ∧ False⌝⟩⦄ :=
  inv_org_of_foot (Fin cfg e0) (fun w0 => ensureSettled_foot brkK w0 rfl cfg) (ensureSettled_never cfg)
    (fin_foot_brk cfg e0)

/-- …and any predicate of the monitor state -/
theorem ensureSettled_pred (P : St → Prop) :
    ⦃fun w => ⌜P (cur cfg w.trace)⌝⦄ ensureSettled cfg
    ⦃post⟨fun _ w => ⌜P (cur cfg w.trace)⌝, fun _ w => ⌜P (cur cfg w.trace) ∧ False⌝⟩⦄ :=
  inv_org_of_foot (fun w => P (cur cfg w.trace)) (fun w0 => ensureSettled_foot brkK w0 rfl cfg)
    (ensureSettled_never cfg) (pred_foot_brk cfg P)

theorem recordCancel_pred (P : St → Prop) :
    ⦃fun w => ⌜P (cur cfg w.trace)⌝⦄ Policy.recordCancel cfg
    ⦃post⟨fun _ w => ⌜P (cur cfg w.trace)⌝, fun _ w => ⌜P (cur cfg w.trace) ∧ False⌝⟩⦄ :=
  inv_org_of_foot (fun w => P (cur cfg w.trace)) (fun w0 => recordCancel_foot brkK w0 rfl cfg)
    (recordCancel_never cfg) (pred_foot_brk cfg P)

theorem ensureSettled_live :
    ⦃fun w => ⌜LiveW cfg w⌝⦄ ensureSettled cfg
    ⦃post⟨fun _ w => ⌜LiveW cfg w⌝, fun _ w => ⌜LiveW cfg w ∧ False⌝⟩⦄ := ensureSettled_pred cfg Live

theorem ensureSettled_finO (o : Outcome) :
    ⦃fun w => ⌜FinO cfg o w⌝⦄ ensureSettled cfg
    ⦃post⟨fun _ w => ⌜FinO cfg o w⌝, fun _ w => ⌜FinO cfg o w ∧ False⌝⟩⦄ :=
  ensureSettled_pred cfg (fun m => m.bad = false ∧ m.cancelled = none ∧ (m.aborted = true → o.stop = some .aborted))

theorem handleExhaustedCall_polA (e0 e : Exn) :
    ⦃fun w => ⌜PolA cfg e0 w⌝⦄ handleExhaustedCall cfg e
    ⦃post⟨fun _ w => ⌜PolA cfg e0 w⌝, fun e' w => ⌜Fin cfg e' w⌝⟩⦄ :=
  keep_polA_of cfg e0 (fun v => handleExhaustedCall_l cfg v e) (handleExhaustedCall_org cfg e)
    (fun w0 => handleExhaustedCall_foot allK w0 rfl rfl rfl cfg e)

theorem handleExceptionCall_polA (e0 e : Exn) (b : Bool) :
    ⦃fun w => ⌜PolA cfg e0 w⌝⦄ handleExceptionCall cfg e b
    ⦃post⟨fun _ w => ⌜PolA cfg e0 w⌝, fun e' w => ⌜Fin cfg e' w⌝⟩⦄ :=
  keep_polA_of cfg e0 (fun v => handleExceptionCall_l cfg v e b) (handleExceptionCall_org cfg e b)
    (fun w0 => handleExceptionCall_foot allK w0 rfl rfl rfl rfl rfl cfg e b)

theorem handleAbortCall_polA (e0 e : Exn) :
    ⦃fun w => ⌜PolA cfg e0 w⌝⦄ handleAbortCall cfg e
    ⦃post⟨fun _ w => ⌜PolA cfg e0 w⌝, fun e' w => ⌜Fin cfg e' w⌝⟩⦄ :=
  keep_polA_of cfg e0 (fun v => handleAbortCall_l cfg v e) (handleAbortCall_org cfg e)
    (fun w0 => handleAbortCall_foot allK w0 rfl rfl cfg e)

theorem recordSuccess_live :
    ⦃fun w => ⌜LiveW cfg w⌝⦄ Policy.recordSuccess cfg
    ⦃post⟨fun _ w => ⌜LiveW cfg w⌝, fun e' w => ⌜FinS cfg e' w⌝⟩⦄ :=
  keep_live_of cfg Live (fun _ h => h) (fun v => recordSuccess_l cfg v)

theorem checkBreaker_live :
    ⦃fun w => ⌜LiveW cfg w⌝⦄ checkBreaker cfg
    ⦃post⟨fun _ w => ⌜LiveW cfg w⌝, fun e' w => ⌜FinS cfg e' w⌝⟩⦄ :=
  keep_live_of cfg Live (fun _ h => h) (fun v => checkBreaker_l cfg v)

/-- the `except` ladder of `Policy.call`: whatever was in flight stays acceptable; after a
    cancellation only `record_cancel` happens -/
theorem callLadder_spec (e : Exn) :
    ⦃fun w => ⌜Fin cfg e w⌝⦄ callLadder cfg e
    ⦃post⟨fun _ _ => ⌜False⌝, fun e' w => ⌜Fin cfg e' w⌝⟩⦄ := by
  have h1 := recordCancel_fin cfg e
  have h2 := handleAbortCall_polA cfg e e
  have h3 := handleExhaustedCall_polA cfg e e
  have h4 := handleExceptionCall_polA cfg e e true
  mvcgen [callLadder, h1, h2, h3, h4]
  c13p

theorem callAdmitted_retry (hret : cfg.hasRetry = true) :
    ⦃fun w => ⌜LiveW cfg w⌝⦄ callAdmitted cfg ⦃livePost cfg⦄ := by
  have h1 := checkBreaker_live cfg
  have h2 := runCall_spec cfg
  have h3 := recordSuccess_live cfg
  have h4 := callLadder_spec cfg
  unfold callAdmitted
  simp only [hret, if_true]
  mvcgen [h1, h2, h3, h4]
  c13p

/-- `Policy.call` with a retry component -/
theorem call_retry_spec (hret : cfg.hasRetry = true) :
    ⦃fun w => ⌜LiveW cfg w⌝⦄ Policy.call cfg ⦃livePost cfg⦄ := by
  have h0 := initCtx_l
  have hw : ⦃fun w => ⌜LiveW cfg w⌝⦄ withFinally (callAdmitted cfg) (ensureSettled cfg) ⦃livePost cfg⦄ :=
    withFinally_rule (callAdmitted_retry cfg hret)
      (fun e => weaken (ensureSettled_fin cfg e) (fun _ h => h) (fun _ _ h => h) (fun _ _ h => h.2.elim))
      (fun _ => weaken (ensureSettled_live cfg) (fun _ h => h) (fun _ _ h => h) (fun _ _ h => h.2.elim))
  mvcgen [Policy.call, h0, hw]
  c13p

theorem executeLadder_spec (e : Exn) :
    ⦃fun w => ⌜Fin cfg e w⌝⦄ executeLadder cfg e
    ⦃post⟨fun _ _ => ⌜False⌝, fun e' w => ⌜Fin cfg e' w⌝⟩⦄ := by
  have h1 := recordCancel_fin cfg e
  have h3 := handleExhaustedCall_polA cfg e e
  have h4 := handleExceptionCall_polA cfg e e false
  mvcgen [executeLadder, h1, h3, h4]
  c13p


theorem recordSuccess_finO (o : Outcome) :
    ⦃fun w => ⌜FinO cfg o w⌝⦄ Policy.recordSuccess cfg
    ⦃post⟨fun _ w => ⌜FinO cfg o w⌝, fun e' w => ⌜Fin cfg e' w⌝⟩⦄ :=
  keep_quiet_of cfg (fun m => m.bad = false ∧ m.cancelled = none ∧ (m.aborted = true → o.stop = some .aborted))
    (fun _ h => ⟨h.2.1, h.1⟩) (fun v => recordSuccess_l cfg v) (recordSuccess_org cfg)

theorem recordFailure_finO (o : Outcome) (k : EClass) :
    ⦃fun w => ⌜FinO cfg o w⌝⦄ Policy.recordFailure cfg k
    ⦃post⟨fun _ w => ⌜FinO cfg o w⌝, fun e' w => ⌜Fin cfg e' w⌝⟩⦄ :=
  keep_quiet_of cfg (fun m => m.bad = false ∧ m.cancelled = none ∧ (m.aborted = true → o.stop = some .aborted))
    (fun _ h => ⟨h.2.1, h.1⟩) (fun v => recordFailure_l cfg v k) (recordFailure_org cfg k)

theorem recordCancel_finO (o : Outcome) :
    ⦃fun w => ⌜FinO cfg o w⌝⦄ Policy.recordCancel cfg
    ⦃post⟨fun _ w => ⌜FinO cfg o w⌝, fun _ w => ⌜FinO cfg o w ∧ False⌝⟩⦄ :=
  recordCancel_pred cfg (fun m => m.bad = false ∧ m.cancelled = none ∧ (m.aborted = true → o.stop = some .aborted))

abbrev outPost (cfg : Cfg) : PostCond Outcome (.except Exn (.arg World .pure)) :=
  post⟨fun o w => ⌜FinO cfg o w⌝, fun e w => ⌜Fin cfg e w⌝⟩

theorem executeWithRetry_spec :
    ⦃fun w => ⌜LiveW cfg w⌝⦄ executeWithRetry cfg ⦃outPost cfg⦄ := by
  have h1 := runExecute_spec cfg
  have h2 := executeLadder_spec cfg
  have h3 := recordSuccess_finO cfg
  have h4 := recordFailure_finO cfg
  have h5 := recordCancel_finO cfg
  mvcgen [executeWithRetry, h1, h2, h3, h4, h5]
  c13p


theorem emitBreakerEvent_live (ev : Option Event) (st : CState) (k : Option EClass) :
    ⦃fun w => ⌜LiveW cfg w⌝⦄ emitBreakerEvent cfg ev st k
    ⦃post⟨fun _ w => ⌜LiveW cfg w⌝, fun e' w => ⌜FinS cfg e' w⌝⟩⦄ :=
  keep_live_of cfg Live (fun _ h => h) (fun v => emitBreakerEvent_l cfg v ev st k)

theorem executeAdmitted2_retry (hret : cfg.hasRetry = true) :
    ⦃fun w => ⌜LiveW cfg w⌝⦄ executeAdmitted2 cfg ⦃outPost cfg⦄ := by
  have h1 := executeWithRetry_spec cfg
  unfold executeAdmitted2
  simp only [hret, if_true]
  mvcgen [h1]
  c13p

theorem executeAdmitted_retry (hret : cfg.hasRetry = true) :
    ⦃fun w => ⌜LiveW cfg w⌝⦄ executeAdmitted cfg ⦃outPost cfg⦄ := by
  have h1 := executeAdmitted2_retry cfg hret
  have h2 := breakerAllow_l cfg
  have h3 := emitBreakerEvent_live cfg
  have h4 := policyOutcome_l
  mvcgen [executeAdmitted, h1, h2, h3, h4]
  c13p

/-- `Policy.execute` with a retry component -/
theorem execute_retry_spec (hret : cfg.hasRetry = true) :
    ⦃fun w => ⌜LiveW cfg w⌝⦄ Policy.execute cfg ⦃outPost cfg⦄ := by
  have h0 := initCtx_l
  have hw : ⦃fun w => ⌜LiveW cfg w⌝⦄ withFinally (executeAdmitted cfg) (ensureSettled cfg) ⦃outPost cfg⦄ :=
    withFinally_rule (executeAdmitted_retry cfg hret)
      (fun e => weaken (ensureSettled_fin cfg e) (fun _ h => h) (fun _ _ h => h) (fun _ _ h => h.2.elim))
      (fun o => weaken (ensureSettled_finO cfg o) (fun _ h => h) (fun _ _ h => h) (fun _ _ h => h.2.elim))
  mvcgen [Policy.execute, h0, hw]
  c13p


end policySpecs

/-! ### policies without a retry component -/

theorem checkAbortNoRetry_spec (cfg : Cfg) (m : St) (hm : Live m) :
    ⦃fun w => ⌜view cfg w = some m⌝⦄ checkAbortNoRetry cfg
    ⦃post⟨fun b w => ⌜(b = false → view cfg w = some (pollOk cfg m)) ∧
              (b = true → view cfg w = some { m with polled := true, aborted := true })⌝,
          fun e w => ⌜FinS cfg e w⌝⟩⦄ := by
  obtain ⟨h1, h2, h3⟩ := hm
  have hrc := recordCancel_l cfg
  mvcgen [checkAbortNoRetry, ask_cur, hrc]
  c13

theorem checkAbortNoRetry_w (cfg : Cfg) :
    ⦃fun w => ⌜LiveW cfg w⌝⦄ checkAbortNoRetry cfg
    ⦃post⟨fun b w => ⌜(b = false → ReadyW cfg w) ∧ (b = true → QuietW cfg w)⌝,
          fun e w => ⌜FinS cfg e w⌝⟩⦄ := by
  apply triple_of_run
  intro w hw
  have := adequacy (checkAbortNoRetry_spec cfg _ hw) w (view_eq_some.mpr ⟨rfl, hw.cancelled⟩)
  split <;> simp_all
  obtain ⟨h1, h2, h3⟩ := hw
  refine ⟨fun hb => ?_, fun hb => ?_⟩
  · have h := (view_eq_some.mp (this.1 hb)).1
    unfold ReadyW
    rw [h]
    exact (Live.mk h1 h2 h3).pollOk
  · have h := (view_eq_some.mp (this.2 hb)).1
    unfold QuietW
    rw [h]
    exact ⟨h2, h3⟩

section noRetry
variable (cfg : Cfg)

theorem noRetryStartHook_ready :
    ⦃fun w => ⌜ReadyW cfg w⌝⦄ noRetryStartHook cfg
    ⦃post⟨fun _ w => ⌜ReadyW cfg w⌝, fun e w => ⌜FinS cfg e w⌝⟩⦄ :=
  keep_live_of cfg (Ready cfg) (fun _ h => h.toLive) (fun v => noRetryStartHook_l cfg v)

theorem noRetryEndHook_live (exc : Option Exn) (r : Option Nat) (d : AttemptDecision)
    (stop : Option StopReason) (cause : Option Cause) :
    ⦃fun w => ⌜LiveW cfg w⌝⦄ noRetryEndHook cfg exc r d stop cause
    ⦃post⟨fun _ w => ⌜LiveW cfg w⌝, fun e w => ⌜FinS cfg e w⌝⟩⦄ :=
  keep_live_of cfg Live (fun _ h => h) (fun v => noRetryEndHook_l cfg v exc r d stop cause)

theorem callWithoutRetry_spec :
    ⦃fun w => ⌜ReadyW cfg w⌝⦄ callWithoutRetry cfg
    ⦃post⟨fun _ w => ⌜LiveW cfg w⌝, fun e w => ⌜Fin cfg e w⌝⟩⦄ := by
  have h1 := noRetryStartHook_ready cfg
  have h2 := invokeOp_w cfg
  have h3 := noRetryEndHook_live cfg
  mvcgen [callWithoutRetry, h1, h2, h3]
  c13p

theorem callAdmitted_nr (hret : cfg.hasRetry = false) :
    ⦃fun w => ⌜LiveW cfg w⌝⦄ callAdmitted cfg ⦃livePost cfg⦄ := by
  have h1 := checkBreaker_live cfg
  have h2 := callWithoutRetry_spec cfg
  have h3 := recordSuccess_live cfg
  have h4 := callLadder_spec cfg
  have h5 := checkAbortNoRetry_w cfg
  unfold callAdmitted
  simp only [hret, Bool.false_eq_true, if_false]
  mvcgen [h1, h2, h3, h4, h5]
  c13p

/-- `Policy.call` without a retry component -/
theorem call_nr_spec (hret : cfg.hasRetry = false) :
    ⦃fun w => ⌜LiveW cfg w⌝⦄ Policy.call cfg ⦃livePost cfg⦄ := by
  have h0 := initCtx_l
  have hw : ⦃fun w => ⌜LiveW cfg w⌝⦄ withFinally (callAdmitted cfg) (ensureSettled cfg) ⦃livePost cfg⦄ :=
    withFinally_rule (callAdmitted_nr cfg hret)
      (fun e => weaken (ensureSettled_fin cfg e) (fun _ h => h) (fun _ _ h => h) (fun _ _ h => h.2.elim))
      (fun _ => weaken (ensureSettled_live cfg) (fun _ h => h) (fun _ _ h => h) (fun _ _ h => h.2.elim))
  mvcgen [Policy.call, h0, hw]
  c13p

theorem noRetryEndHook_quiet (exc : Option Exn) (r : Option Nat) (d : AttemptDecision)
    (stop : Option StopReason) (cause : Option Cause) :
    ⦃fun w => ⌜QuietW cfg w⌝⦄ noRetryEndHook cfg exc r d stop cause
    ⦃post⟨fun _ w => ⌜QuietW cfg w⌝, fun e' w => ⌜Fin cfg e' w⌝⟩⦄ :=
  keep_quiet_of cfg (fun m => m.cancelled = none ∧ m.bad = false) (fun _ h => h)
    (fun v => noRetryEndHook_l cfg v exc r d stop cause) (noRetryEndHook_org cfg exc r d stop cause)

theorem recordCancel_quiet :
    ⦃fun w => ⌜QuietW cfg w⌝⦄ Policy.recordCancel cfg
    ⦃post⟨fun _ w => ⌜QuietW cfg w⌝, fun _ w => ⌜QuietW cfg w ∧ False⌝⟩⦄ :=
  recordCancel_pred cfg (fun m => m.cancelled = none ∧ m.bad = false)

theorem recordFailure_live (k : EClass) :
    ⦃fun w => ⌜LiveW cfg w⌝⦄ Policy.recordFailure cfg k
    ⦃post⟨fun _ w => ⌜LiveW cfg w⌝, fun e w => ⌜FinS cfg e w⌝⟩⦄ :=
  keep_live_of cfg Live (fun _ h => h) (fun v => recordFailure_l cfg v k)

/-- the `except` ladder of `_execute_without_retry` -/
theorem noRetryLadder_spec (b : Bool) (e : Exn) :
    ⦃fun w => ⌜FinS cfg e w⌝⦄ noRetryLadder cfg b e ⦃outPost cfg⦄ := by
  by_cases ha : e.isAbort = true
  · have h1 := recordCancel_quiet cfg
    have h2 := noRetryEndHook_quiet cfg
    have h3 := policyOutcome_l
    unfold noRetryLadder
    simp only [ha, if_true]
    mvcgen [h1, h2, h3]
    c13p
  · by_cases hx : e.isException = true
    · have hc : ¬ e = .cancelled := by rintro rfl; simp [Exn.isException] at hx
      have hk : e.isKiSe = false := by cases e <;> simp_all [Exn.isKiSe, Exn.isException]
      have h1 := recordFailure_live cfg
      have h2 := noRetryEndHook_live cfg
      have h3 := policyOutcome_l
      unfold noRetryLadder
      simp only [ha, hc, hk, hx, Bool.false_eq_true, if_false, if_true, Bool.and_false, decide_false]
      mvcgen [h1, h2, h3]
      c13p
    · have h1 := recordCancel_fin cfg e
      unfold noRetryLadder
      simp only [ha, hx, Bool.false_eq_true, if_false]
      mvcgen [h1]
      c13p

theorem executeWithoutRetry_spec :
    ⦃fun w => ⌜ReadyW cfg w⌝⦄ executeWithoutRetry cfg ⦃outPost cfg⦄ := by
  have h1 := noRetryStartHook_ready cfg
  have h2 := invokeOp_w cfg
  have h3 := noRetryLadder_spec cfg
  have h4 := recordSuccess_live cfg
  have h5 := noRetryEndHook_live cfg
  have h6 := policyOutcome_l
  mvcgen [executeWithoutRetry, h1, h2, h3, h4, h5, h6]
  c13p

theorem executeAdmitted2_nr (hret : cfg.hasRetry = false) :
    ⦃fun w => ⌜LiveW cfg w⌝⦄ executeAdmitted2 cfg ⦃outPost cfg⦄ := by
  have h1 := executeWithoutRetry_spec cfg
  have h2 := checkAbortNoRetry_w cfg
  have h3 := policyOutcome_l
  unfold executeAdmitted2
  simp only [hret, Bool.false_eq_true, if_false]
  mvcgen [h1, h2, h3]
  c13p

theorem executeAdmitted_nr (hret : cfg.hasRetry = false) :
    ⦃fun w => ⌜LiveW cfg w⌝⦄ executeAdmitted cfg ⦃outPost cfg⦄ := by
  have h1 := executeAdmitted2_nr cfg hret
  have h2 := breakerAllow_l cfg
  have h3 := emitBreakerEvent_live cfg
  have h4 := policyOutcome_l
  mvcgen [executeAdmitted, h1, h2, h3, h4]
  c13p

/-- `Policy.execute` without a retry component -/
theorem execute_nr_spec (hret : cfg.hasRetry = false) :
    ⦃fun w => ⌜LiveW cfg w⌝⦄ Policy.execute cfg ⦃outPost cfg⦄ := by
  have h0 := initCtx_l
  have hw : ⦃fun w => ⌜LiveW cfg w⌝⦄ withFinally (executeAdmitted cfg) (ensureSettled cfg) ⦃outPost cfg⦄ :=
    withFinally_rule (executeAdmitted_nr cfg hret)
      (fun e => weaken (ensureSettled_fin cfg e) (fun _ h => h) (fun _ _ h => h) (fun _ _ h => h.2.elim))
      (fun o => weaken (ensureSettled_finO cfg o) (fun _ h => h) (fun _ _ h => h) (fun _ _ h => h.2.elim))
  mvcgen [Policy.execute, h0, hw]
  c13p

end noRetry

/-! ### the theorems -/

theorem raised_reverse (t : List (Req × Ans)) (e : Exn) : Raised t.reverse e ↔ Raised t e := by
  unfold Raised
  simp

theorem verdict_of_live {t : Trace} {m : St} (v : Nat) (h : Live m) : verdict t m (.ret v) = true := by
  simp [verdict, h.aborted, h.cancelled, h.bad]

theorem verdict_of_fin {cfg : Cfg} {e : Exn} {w : World} (h : Fin cfg e w) :
    verdict w.trace.reverse (cur cfg w.trace) (.raised e) = true := by
  obtain ⟨h1, h2, h3⟩ := h
  unfold verdict
  cases hc : (cur cfg w.trace).cancelled with
  | some c =>
    obtain ⟨rfl, _⟩ := h2 c hc
    simp [h1]
  | none =>
    cases ha : (cur cfg w.trace).aborted with
    | false => simp [h1]
    | true =>
      have := h3 ha hc
      simp only [h1, Bool.not_false, Bool.true_and, Option.isNone_none, Bool.and_self, if_true,
        Bool.or_eq_true, beq_iff_eq, raisedBy_iff, raised_reverse]
      rcases this with h | h | h
      · exact Or.inl (Or.inl h)
      · exact Or.inl (Or.inr h)
      · exact Or.inr h

theorem verdict_of_finO {cfg : Cfg} {o : Outcome} {w : World} (tl : List TimelineEv) (h : FinO cfg o w) :
    verdict w.trace.reverse (cur cfg w.trace) (.outcome o tl) = true := by
  obtain ⟨h1, h2, h3⟩ := h
  unfold verdict
  cases ha : (cur cfg w.trace).aborted with
  | false => simp [h1, h2]
  | true => simp [h1, h2, h3 ha]

/-- the world `runEntry` starts a call from -/
def startWorld (w : World) : World := { w with trace := [], timeline := [], opCalls := 0 }

theorem live_start (cfg : Cfg) (w : World) : LiveW cfg (startWorld w) := ⟨rfl, rfl, rfl⟩

/--
**C13.**  For every configuration, every entry point (`Retry`/`Policy` × `call`/`execute`, with or
without a retry component; the async twins, `RetryPolicy`, contexts and `@retry` are these by argument
forwarding) and every world — every answer stream (any outcome sequence, any callback raising anything
at any invocation, `abort_if` answering True at any poll index, a cancellation-type exception at any
attempt or sleep), every clock value, every state of a shared budget or breaker — the run satisfies
the abort/cancellation monitor:

* when `abort_if` is given it is polled before every invocation of the operation and before every
  backoff sleep (since the previous invocation / sleep);
* once a poll answered True or the operation raised `AbortRetryError`, the operation is not invoked
  again and no sleep is started, and the call ends with `AbortRetryError` / an ABORTED outcome (or
  with the error some *other* callback raised afterwards);
* once ANY callback — the operation, a sleep, the abort predicate, an attempt hook, a classifier, a
  strategy, a sleep handler, a before-sleep hook, a metric or log hook (every await point of an async
  run) — raised CancelledError / KeyboardInterrupt / SystemExit / GeneratorExit, nothing but breaker
  bookkeeping follows (`record_cancel` in the `except` arms of `Policy.call/execute`, `ensure_settled`
  in their `finally`: no classification, retry, sleep, hook or event) and the call raises exactly
  that exception.
-/
theorem abort_cancel_hold (cfg : Cfg) (e : Entry) (w : World) :
    Mon.C13.ok cfg e (runEntry cfg e w).2.trace.reverse (runEntry cfg e w).1 = true := by
  unfold Mon.C13.ok
  rw [run_reverse]
  cases e with
  | call =>
    have := adequacy (runCall_spec cfg) (startWorld w) (live_start cfg w)
    simp only [runEntry, startWorld] at this ⊢
    split at this <;> rename_i heq <;> simp only [heq, toRes]
    · exact verdict_of_live _ this
    · exact verdict_of_fin this
  | execute =>
    have := adequacy (runExecute_spec cfg) (startWorld w) (live_start cfg w)
    simp only [runEntry, startWorld] at this ⊢
    split at this <;> rename_i heq <;> simp only [heq, toResO]
    · exact verdict_of_finO _ this
    · exact verdict_of_fin this
  | pcall =>
    cases hret : cfg.hasRetry with
    | false =>
      have := adequacy (call_nr_spec cfg hret) (startWorld w) (live_start cfg w)
      simp only [runEntry, startWorld] at this ⊢
      split at this <;> rename_i heq <;> simp only [heq, toRes]
      · exact verdict_of_live _ this
      · exact verdict_of_fin this
    | true =>
      have := adequacy (call_retry_spec cfg hret) (startWorld w) (live_start cfg w)
      simp only [runEntry, startWorld] at this ⊢
      split at this <;> rename_i heq <;> simp only [heq, toRes]
      · exact verdict_of_live _ this
      · exact verdict_of_fin this
  | pexecute =>
    cases hret : cfg.hasRetry with
    | false =>
      have := adequacy (execute_nr_spec cfg hret) (startWorld w) (live_start cfg w)
      simp only [runEntry, startWorld] at this ⊢
      split at this <;> rename_i heq <;> simp only [heq, toResO]
      · exact verdict_of_finO _ this
      · exact verdict_of_fin this
    | true =>
      have := adequacy (execute_retry_spec cfg hret) (startWorld w) (live_start cfg w)
      simp only [runEntry, startWorld] at this ⊢
      split at this <;> rename_i heq <;> simp only [heq, toResO]
      · exact verdict_of_finO _ this
      · exact verdict_of_fin this


/-- …and therefore of every call in every script of calls and clock advances on ONE policy object. -/
theorem abort_cancel_hold_script (cfg : Cfg) : ∀ (steps : List Step) (w : World),
    ∀ l ∈ (runScript cfg steps w).1, Mon.C13.ok cfg l.entry l.trace l.res = true := by
  intro steps
  induction steps with
  | nil => intro w l hl; simp [runScript] at hl
  | cons st rest ih =>
    intro w l hl
    cases st with
    | advance d => exact ih _ l (by simpa [runScript] using hl)
    | run e =>
      simp only [runScript, List.mem_cons] at hl
      rcases hl with rfl | hl
      · exact abort_cancel_hold cfg e w
      · exact ih _ l hl


/-! ### the conjuncts, read off the accepted log -/

theorem run_append (cfg : Cfg) (p q : Trace) : run cfg (p ++ q) = q.foldl (step cfg) (run cfg p) := by
  simp [run, List.foldl_append]

theorem stepLive_bad (cfg : Cfg) (s : St) (x : Req × Ans) (h : (stepLive cfg s x).bad = false) :
    s.bad = false := by
  obtain ⟨r, a⟩ := x
  cases hb : s.bad with
  | false => rfl
  | true =>
    exfalso
    revert h
    cases r <;> simp [stepLive, hb] <;> (repeat' split) <;> simp_all

theorem cancelMark_bad (s : St) (a : Ans) : (cancelMark s a).bad = s.bad := by
  unfold cancelMark
  (repeat' split) <;> rfl

theorem cancelMark_polled (s : St) (a : Ans) : (cancelMark s a).polled = s.polled := by
  unfold cancelMark
  (repeat' split) <;> rfl

theorem cancelMark_aborted (s : St) (a : Ans) : (cancelMark s a).aborted = s.aborted := by
  unfold cancelMark
  (repeat' split) <;> rfl

theorem stepLive_record (cfg : Cfg) (s : St) (x : Req × Ans) (h : isRecord x.1 = true) :
    stepLive cfg s x = s := stepLive_inert cfg s x (isRecord_inert _ h)

theorem stepLive_cancelled (cfg : Cfg) (s : St) (x : Req × Ans) :
    (stepLive cfg s x).cancelled = s.cancelled := by
  obtain ⟨r, a⟩ := x
  cases r <;> simp [stepLive] <;> (repeat' split) <;> rfl

/-- while no cancellation has been seen, a step is its poll/attempt/sleep/abort part plus the mark -/
theorem step_live (cfg : Cfg) (s : St) (x : Req × Ans) (hc : s.cancelled = none) :
    (step cfg s x).bad = (stepLive cfg s x).bad ∧ (step cfg s x).polled = (stepLive cfg s x).polled ∧
    (step cfg s x).aborted = (stepLive cfg s x).aborted := by
  rw [step_none cfg s x hc]
  split
  · rename_i h; rw [stepLive_record cfg s x h]; exact ⟨rfl, rfl, rfl⟩
  · exact ⟨cancelMark_bad _ _, cancelMark_polled _ _, cancelMark_aborted _ _⟩

theorem bad_step (cfg : Cfg) (s : St) (x : Req × Ans) (h : (step cfg s x).bad = false) : s.bad = false := by
  cases hc : s.cancelled with
  | none => exact stepLive_bad cfg s x ((step_live cfg s x hc).1 ▸ h)
  | some c =>
    unfold step at h
    simp only [hc] at h
    split at h
    · exact h
    · simp at h

theorem bad_fold (cfg : Cfg) (q : Trace) : ∀ s, (q.foldl (step cfg) s).bad = false → s.bad = false := by
  induction q with
  | nil => exact fun _ h => h
  | cons x q ih => exact fun s h => bad_step cfg s x (ih _ h)

/-- the monitor state after the exchange `x` of an accepted log `p ++ x :: q` is not `bad` -/
theorem bad_at (cfg : Cfg) (p q : Trace) (x : Req × Ans) (h : (run cfg (p ++ x :: q)).bad = false) :
    (step cfg (run cfg p) x).bad = false := by
  rw [run_append] at h
  exact bad_fold cfg q _ h

/-- …so if `x` is not breaker bookkeeping, no cancellation had been seen before it -/
theorem live_at (cfg : Cfg) (s : St) (x : Req × Ans) (hx : isRecord x.1 = false)
    (h : (step cfg s x).bad = false) : s.cancelled = none := by
  cases hc : s.cancelled with
  | none => rfl
  | some c =>
    unfold step at h
    simp [hc, hx] at h

theorem cancelled_none_step (cfg : Cfg) (s : St) (x : Req × Ans) (h : (step cfg s x).cancelled = none) :
    s.cancelled = none := by
  cases hc : s.cancelled with
  | none => rfl
  | some c => rw [step_some cfg s x c hc] at h; cases h

theorem op_not_record (r : Req) (h : isOp r = true ∨ isSleeper r = true) : isRecord r = false := by
  cases r <;> simp_all [isOp, isSleeper, isRecord]

/-- a poll since the last attempt / sleep (newest-first log) -/
def PolledSince (tr : List (Req × Ans)) : Prop :=
  ∃ p2 a p1, tr = p2 ++ (Req.abortIf, a) :: p1 ∧ ∀ y ∈ p2, isOp y.1 = false ∧ isSleeper y.1 = false

/-- `polled` of the monitor (while no cancellation has been seen) = a poll since the last attempt / sleep -/
theorem polled_iff (cfg : Cfg) (tr : List (Req × Ans)) (hc : (cur cfg tr).cancelled = none) :
    (cur cfg tr).polled = true ↔ PolledSince tr := by
  induction tr with
  | nil => simp [cur, PolledSince]
  | cons x tr ih =>
    obtain ⟨r, a⟩ := x
    rw [cur_cons] at hc ⊢
    have hc' := cancelled_none_step cfg _ _ hc
    have ih := ih hc'
    rw [(step_live cfg _ _ hc').2.1]
    by_cases hr : r = .abortIf
    · subst hr
      have : (stepLive cfg (cur cfg tr) (Req.abortIf, a)).polled = true := by
        simp only [stepLive]; (repeat' split) <;> simp_all
      simp only [this, true_iff]
      exact ⟨[], a, tr, rfl, by simp⟩
    · by_cases ho : isOp r = true ∨ isSleeper r = true
      · have : (stepLive cfg (cur cfg tr) (r, a)).polled = false := by
          cases r <;> simp_all [stepLive, isOp, isSleeper] <;> (repeat' split) <;> simp_all
        simp only [this, Bool.false_eq_true, false_iff]
        rintro ⟨p2, a', p1, he, hall⟩
        cases p2 with
        | nil => simp at he; exact hr he.1.1
        | cons y p2 =>
          simp at he
          have := hall y (by simp)
          rw [← he.1] at this
          simp at this
          rcases ho with ho | ho <;> simp_all
      · have hk : (stepLive cfg (cur cfg tr) (r, a)).polled = (cur cfg tr).polled := by
          cases r <;> simp_all [stepLive, isOp, isSleeper]
        rw [hk, ih]
        constructor
        · rintro ⟨p2, a', p1, he, hall⟩
          refine ⟨(r, a) :: p2, a', p1, by simp [he], ?_⟩
          intro y hy
          rcases List.mem_cons.mp hy with rfl | hy
          · simpa using ho
          · exact hall y hy
        · rintro ⟨p2, a', p1, he, hall⟩
          cases p2 with
          | nil => simp at he; exact absurd he.1.1 hr
          | cons y p2 =>
            simp at he
            exact ⟨p2, a', p1, he.2, fun z hz => hall z (by simp [hz])⟩

/-- an abort signal: the predicate answered True, or the operation raised `AbortRetryError` -/
def AbortSignal (y : Req × Ans) : Prop :=
  (y.1 = .abortIf ∧ ∃ d, y.2 = .bool true d) ∨
  (isOp y.1 = true ∧ ∃ e d, y.2 = .raise e d ∧ e.isAbort = true)

theorem aborted_stepLive (cfg : Cfg) (s : St) (x : Req × Ans) :
    (stepLive cfg s x).aborted = true ↔ s.aborted = true ∨ AbortSignal x := by
  obtain ⟨r, a⟩ := x
  unfold AbortSignal
  cases r <;> simp [stepLive, isOp] <;> (repeat' split) <;> simp_all

/-- `aborted` of the monitor (while no cancellation has been seen) = some abort signal in the log -/
theorem aborted_iff (cfg : Cfg) (tr : List (Req × Ans)) (hc : (cur cfg tr).cancelled = none) :
    (cur cfg tr).aborted = true ↔ ∃ y ∈ tr, AbortSignal y := by
  induction tr with
  | nil => simp [cur]
  | cons x tr ih =>
    rw [cur_cons] at hc ⊢
    have hc' := cancelled_none_step cfg _ _ hc
    rw [(step_live cfg _ _ hc').2.2, aborted_stepLive, ih hc']
    simp only [List.mem_cons, exists_eq_or_imp]
    exact Or.comm

/-- once a cancellation has been seen, an accepted log continues with breaker bookkeeping only -/
theorem after_cancel (cfg : Cfg) (c : Exn) (q : Trace) : ∀ s, s.cancelled = some c →
    (q.foldl (step cfg) s).bad = false →
    (∀ y ∈ q, isRecord y.1 = true) ∧ (q.foldl (step cfg) s).cancelled = some c := by
  induction q with
  | nil => exact fun s hc _ => ⟨by simp, hc⟩
  | cons x q ih =>
    intro s hc hb
    cases hr : isRecord x.1 with
    | false =>
      have h1 := bad_fold cfg q _ hb
      have := live_at cfg s x hr h1
      rw [hc] at this; cases this
    | true =>
      simp only [List.foldl_cons, step_record cfg s x hr] at hb ⊢
      obtain ⟨h1, h2⟩ := ih s hc hb
      exact ⟨by simpa [hr] using h1, h2⟩

/-- a cancellation signal: any callback other than breaker bookkeeping (which is not a callback) —
    the operation, a sleep, the abort predicate, an attempt hook, a classifier, a strategy, a sleep
    handler, a before-sleep hook, a metric or log hook — raised CancelledError / KeyboardInterrupt /
    SystemExit / GeneratorExit -/
def CancelSignal (y : Req × Ans) : Prop :=
  isRecord y.1 = false ∧ ∃ e d, y.2 = .raise e d ∧ e.isCancelKind = true

theorem cancel_step (cfg : Cfg) (s : St) (x : Req × Ans) (e : Exn) (d : Nat) (hc : s.cancelled = none)
    (hx : isRecord x.1 = false) (ha : x.2 = .raise e d) (hk : e.isCancelKind = true) :
    (step cfg s x).cancelled = some e := by
  rw [step_none cfg s x hc]
  simp [hx, ha, cancelMark, hk]

theorem cancelled_step (cfg : Cfg) (s : St) (x : Req × Ans) :
    (step cfg s x).cancelled ≠ none ↔ s.cancelled ≠ none ∨ CancelSignal x := by
  cases hc : s.cancelled with
  | some c => simp [step_some cfg s x c hc]
  | none =>
    rw [step_none cfg s x hc]
    unfold CancelSignal
    obtain ⟨r, a⟩ := x
    cases hr : isRecord r with
    | true => simp [hr, hc]
    | false =>
      have := stepLive_cancelled cfg s (r, a)
      cases a <;> simp_all [cancelMark]
      split <;> simp_all

/-- `cancelled` of the monitor = some cancellation signal in the log -/
theorem cancelled_iff (cfg : Cfg) (tr : List (Req × Ans)) :
    (cur cfg tr).cancelled ≠ none ↔ ∃ y ∈ tr, CancelSignal y := by
  induction tr with
  | nil => simp [cur]
  | cons x tr ih =>
    rw [cur_cons, cancelled_step, ih]
    simp only [List.mem_cons, exists_eq_or_imp]
    exact Or.comm

/-- what acceptance by the monitor means -/
def Accepted (cfg : Cfg) (t : Trace) (r : Res) : Prop := verdict t (run cfg t) r = true

theorem Accepted.bad {cfg : Cfg} {t : Trace} {r : Res} (h : Accepted cfg t r) : (run cfg t).bad = false := by
  unfold Accepted verdict at h
  simp only [Bool.and_eq_true, Bool.not_eq_true'] at h
  exact h.1.1

theorem run_cancelled_rev (cfg : Cfg) (p : Trace) : run cfg p = cur cfg p.reverse := by
  rw [← run_reverse, List.reverse_reverse]

/-- at an attempt or a sleep of an accepted log: nothing wrong, no cancellation before, and the
    poll / abort part of the step is not `bad` -/
theorem at_action {cfg : Cfg} {t : Trace} {r : Res} (h : Accepted cfg t r)
    (p q : Trace) (x : Req × Ans) (ht : t = p ++ x :: q) (hx : isOp x.1 = true ∨ isSleeper x.1 = true) :
    (run cfg p).cancelled = none ∧ (stepLive cfg (run cfg p) x).bad = false := by
  have hb := bad_at cfg p q x (ht ▸ h.bad)
  have hc := live_at cfg _ x (op_not_record _ hx) hb
  exact ⟨hc, (step_live cfg _ x hc).1 ▸ hb⟩

/-- **`abort_if` is consulted before every attempt**: in an accepted log, between an invocation of the
    operation and the previous invocation or sleep (or the start of the call) there is a poll. -/
theorem poll_before_every_attempt {cfg : Cfg} {t : Trace} {r : Res} (h : Accepted cfg t r)
    (hab : cfg.abortIf = true) (p q : Trace) (x : Req × Ans) (ht : t = p ++ x :: q)
    (hx : isOp x.1 = true) : PolledSince p.reverse := by
  obtain ⟨hc, hb⟩ := at_action h p q x ht (Or.inl hx)
  rw [run_cancelled_rev] at hc hb
  rw [← polled_iff cfg _ hc]
  obtain ⟨rq, a⟩ := x
  cases rq <;> simp_all [isOp, stepLive]
  revert hb
  (repeat' split) <;> simp_all

/-- **…and before every backoff sleep** -/
theorem poll_before_every_sleep {cfg : Cfg} {t : Trace} {r : Res} (h : Accepted cfg t r)
    (hab : cfg.abortIf = true) (p q : Trace) (x : Req × Ans) (ht : t = p ++ x :: q)
    (hx : isSleeper x.1 = true) : PolledSince p.reverse := by
  obtain ⟨hc, hb⟩ := at_action h p q x ht (Or.inr hx)
  rw [run_cancelled_rev] at hc hb
  rw [← polled_iff cfg _ hc]
  obtain ⟨rq, a⟩ := x
  cases rq <;> simp_all [isSleeper, stepLive]

/-- **once aborted, the operation is not invoked again and no sleep is started** -/
theorem nothing_after_abort {cfg : Cfg} {t : Trace} {r : Res} (h : Accepted cfg t r)
    (p q : Trace) (x : Req × Ans) (ht : t = p ++ x :: q)
    (hx : isOp x.1 = true ∨ isSleeper x.1 = true) : ¬ ∃ y ∈ p, AbortSignal y := by
  obtain ⟨hc, hb⟩ := at_action h p q x ht hx
  rw [run_cancelled_rev] at hc hb
  intro hy
  have : (cur cfg p.reverse).aborted = true := by
    rw [aborted_iff cfg _ hc]
    simpa using hy
  obtain ⟨rq, a⟩ := x
  cases rq <;> simp_all [isOp, isSleeper, stepLive] <;> (revert hb; (repeat' split) <;> simp_all)

/-- **…and the run ends with `AbortRetryError` or an ABORTED outcome** (unless a cancellation
    intervened, or an error raised by some other callback — a hook, the classifier — after the abort;
    `.stuck` is the model's "ill-shaped answer stream") -/
theorem abort_ends_aborted {cfg : Cfg} {t : Trace} {r : Res} (h : Accepted cfg t r)
    (ha : ∃ y ∈ t, AbortSignal y) (hc : ¬ ∃ y ∈ t, CancelSignal y) :
    match r with
    | .raised e => e.isAbort = true ∨ e = .stuck ∨ Raised t e
    | .outcome o _ => o.stop = some .aborted
    | .ret _ => False := by
  have h2 : (run cfg t).cancelled = none := by
    have := mt (cancelled_iff cfg t.reverse).mp (by simpa using hc)
    rw [run_cancelled_rev]
    simpa using this
  have h1 : (run cfg t).aborted = true := by
    rw [run_cancelled_rev] at h2 ⊢
    rw [aborted_iff cfg _ h2]
    simpa using ha
  unfold Accepted verdict at h
  simp only [h1, h2, Option.isNone_none, Bool.and_self, if_true, Bool.and_eq_true] at h
  have h3 := h.2
  cases r with
  | ret v => simp at h3
  | outcome o tl => simpa using h3
  | raised e =>
    simp only [Bool.or_eq_true, beq_iff_eq, raisedBy_iff] at h3
    rcases h3 with (h3 | h3) | h3
    · exact Or.inl h3
    · exact Or.inr (Or.inl h3)
    · exact Or.inr (Or.inr h3)

/-- **A cancellation-type exception (CancelledError, KeyboardInterrupt, SystemExit, GeneratorExit)
    raised at ANY callback — the operation, a sleep, the abort predicate, an attempt hook, a
    classifier, a strategy, a sleep handler, a before-sleep hook, a metric or log hook: every await
    point of an async run — propagates unchanged at once**: the call raises exactly that exception,
    and nothing follows in the log but breaker bookkeeping (`record_cancel` of the `except` arms,
    `ensure_settled` of the `finally`): no classification, no retry, no sleep, no hook, no event. -/
theorem cancellation_propagates_unchanged {cfg : Cfg} {t : Trace} {r : Res} (h : Accepted cfg t r)
    (p q : Trace) (x : Req × Ans) (ht : t = p ++ x :: q) (e : Exn) (d : Nat)
    (hx : isRecord x.1 = false) (ha : x.2 = .raise e d) (hk : e.isCancelKind = true) :
    r = .raised e ∧ ∀ y ∈ q, isRecord y.1 = true := by
  have hb := h.bad
  have hb1 := bad_at cfg p q x (ht ▸ hb)
  have hc0 := live_at cfg _ x hx hb1
  subst ht
  rw [run_append] at hb
  simp only [List.foldl_cons] at hb
  have hc := cancel_step cfg (run cfg p) x e d hc0 hx ha hk
  obtain ⟨h1, h2⟩ := after_cancel cfg e q _ hc hb
  refine ⟨?_, h1⟩
  unfold Accepted verdict at h
  rw [run_append] at h
  simp only [List.foldl_cons, h2, Bool.and_eq_true] at h
  simpa using h.1.2

/-- …in particular, a second cancellation never happens in an accepted log -/
theorem at_most_one_cancellation {cfg : Cfg} {t : Trace} {r : Res} (h : Accepted cfg t r)
    (p q : Trace) (x : Req × Ans) (ht : t = p ++ x :: q) (hx : CancelSignal x) :
    ¬ ∃ y ∈ q, CancelSignal y := by
  obtain ⟨hr, e, d, ha, hk⟩ := hx
  obtain ⟨_, h2⟩ := cancellation_propagates_unchanged h p q x ht e d hr ha hk
  rintro ⟨y, hy, hyr, _⟩
  rw [h2 y hy] at hyr
  cases hyr


/-- every run of the model is accepted: the conjuncts above apply to it -/
theorem run_accepted (cfg : Cfg) (e : Entry) (w : World) :
    Accepted cfg (runEntry cfg e w).2.trace.reverse (runEntry cfg e w).1 :=
  abort_cancel_hold cfg e w

instance (cfg : Cfg) (t : Trace) (r : Res) : Decidable (Accepted cfg t r) := by
  unfold Accepted; infer_instance

/-- a sample log: two attempts, a sleep, a poll before each of them -/
def sampleLog : Trace :=
  [(.abortIf, .bool false 0), (.op 1, .raise (.ordinary 1 .transient) 3),
   (.abortIf, .bool false 0), (.classify "o1", .klass ⟨.transient, none⟩ 0), (.abortIf, .bool false 0),
   (.sleeper .dflt 7, .unit 7), (.abortIf, .bool false 0), (.op 2, .value 42 1)]

/-- non-vacuity of the hypotheses of `poll_before_every_attempt` / `poll_before_every_sleep` -/
example : Accepted { abortIf := true } sampleLog (.ret 42) ∧
    sampleLog = sampleLog.take 7 ++ (.op 2, .value 42 1) :: [] ∧
    sampleLog = sampleLog.take 5 ++ (.sleeper .dflt 7, .unit 7) :: sampleLog.drop 6 := by
  refine ⟨by decide, rfl, rfl⟩

/-- the context a before-sleep hook sees in the samples below -/
def sampleCtx : BackoffCtx :=
  { attempt := 1, klass := .transient, retryAfter := none, prev := none, remaining := 50, cause := .exception }

/-- non-vacuity: abort signals and cancellation signals (at the operation, and at an async
    `before_sleep` hook) exist and occur in accepted logs -/
example :
    Accepted { abortIf := true } [(.abortIf, .bool true 0)] (.raised .libAbort) ∧
    AbortSignal (.abortIf, .bool true 0) ∧
    Accepted { abortIf := true }
      [(.abortIf, .bool false 0), (.op 1, .raise .keyboardInterrupt 0), (.breakerCancel, .recorded none .closed)]
      (.raised .keyboardInterrupt) ∧
    CancelSignal (.op 1, .raise .keyboardInterrupt 0) ∧
    Accepted {}
      [(.op 1, .raise (.ordinary 1 .transient) 0), (.classify "o1", .klass ⟨.transient, none⟩ 0),
       (.beforeSleep .call sampleCtx 3, .raise .cancelled 0), (.breakerCancel, .recorded none .closed)]
      (.raised .cancelled) ∧
    CancelSignal (.beforeSleep .call sampleCtx 3, .raise .cancelled 0) := by
  refine ⟨by decide, Or.inl ⟨rfl, 0, rfl⟩, by decide, ⟨rfl, _, _, rfl, rfl⟩, by decide, ⟨rfl, _, _, rfl, rfl⟩⟩

/-- the monitor has teeth: an attempt without a poll, an attempt after an abort, a swallowed
    cancellation, a retried one, and — the seeded defect — a `CancelledError` delivered inside an async
    `before_sleep` hook that is swallowed (the sleep starts, the operation is retried) are all rejected -/
example :
    ¬ Accepted { abortIf := true } [(.op 1, .value 1 0)] (.ret 1) ∧
    ¬ Accepted { abortIf := true } [(.abortIf, .bool true 0), (.op 1, .value 1 0)] (.ret 1) ∧
    ¬ Accepted {} [(.op 1, .raise .cancelled 0)] (.ret 1) ∧
    ¬ Accepted {} [(.op 1, .raise .cancelled 0), (.classify "cancelled", .klass ⟨.unknown, none⟩ 0)]
        (.raised .cancelled) ∧
    ¬ Accepted {}
      [(.op 1, .raise (.ordinary 1 .transient) 0), (.classify "o1", .klass ⟨.transient, none⟩ 0),
       (.beforeSleep .call sampleCtx 3, .raise .cancelled 0), (.sleeper .dflt 3, .unit 3), (.op 2, .value 7 0)]
      (.ret 7) ∧
    ¬ Accepted {}
      [(.op 1, .raise (.ordinary 1 .transient) 0), (.classify "o1", .klass ⟨.transient, none⟩ 0),
       (.metric .retry 1 3 {}, .raise .keyboardInterrupt 0), (.sleeper .dflt 3, .unit 3)]
      (.raised .keyboardInterrupt) := by
  refine ⟨by decide, by decide, by decide, by decide, by decide, by decide⟩

end Redress.Props.C13
