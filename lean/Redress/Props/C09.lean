/-
  C09 — One breaker record per policy call, by final outcome, not per attempt.

  `Mon.C09.ok` is true of every run of the model: in the stated environment (no attempt hook / abort
  predicate raising, no metric / log / before-sleep hook raising a BaseException-only kind — these
  runs belong to C08 only), every call the breaker admitted makes EXACTLY ONE `record_*`, after the
  admission, and it is the one the final outcome dictates (`Mon.C09.expected`); a call it did not
  admit makes none.

  Nothing is needed from inside the retry loop beyond `runCall_ext` / `runExecute_ext`: the loop never
  talks to the breaker, so failed attempts inside a call that goes on to retry are not reported.
-/
import Redress.Props.C07Policy

open Std.Do

namespace Redress.Props.C09
open Redress Redress.Retry Redress.Policy Redress.Mon Redress.Mon.C09
open Redress.Props.C08 (cur cur_cons run_reverse decision startWorld)

/-! ### the stated environment -/

/-- one exchange that puts the run outside C09's stated environment -/
def faultX (x : Req × Ans) : Bool :=
  (isAttemptHook x.1 && (x.2 matches .raise ..)) ||
  ((match x.1 with
      | .metric .. | .log .. | .beforeSleep .. => true
      | _ => false) && (match x.2 with
      | .raise e _ => !e.isException
      | _ => false))

/-- … somewhere in the (newest-first) log -/
def fault (tr : List (Req × Ans)) : Bool := tr.any faultX

theorem any_or_any {α : Type} (l : List α) (p q : α → Bool) :
    (l.any p || l.any q) = l.any (fun x => p x || q x) := by
  induction l with
  | nil => rfl
  | cons x l ih =>
    simp only [List.any_cons, ← ih]
    cases p x <;> cases q x <;> cases l.any p <;> cases l.any q <;> rfl

theorem fault_reverse (tr : List (Req × Ans)) :
    (Mon.hookBaseFault tr.reverse || Mon.attemptHookFault tr.reverse) = fault tr := by
  simp only [Mon.hookBaseFault, Mon.attemptHookFault, List.any_reverse, any_or_any, fault]
  congr 1
  funext x
  obtain ⟨r, a⟩ := x
  cases r <;> simp [faultX, isAttemptHook] <;> cases a <;> simp

@[simp] theorem fault_cons (x : Req × Ans) (tr : List (Req × Ans)) :
    fault (x :: tr) = (faultX x || fault tr) := rfl

theorem fault_append (δ tr : List (Req × Ans)) (h : fault (δ ++ tr) = false) : fault tr = false := by
  simp only [fault, List.any_append, Bool.or_eq_false_iff] at h
  exact h.2

/-! ### what the argument looks at -/

/-- the monitor's admission / records / last classifier exchange, and the execution context's flags -/
structure V where
  adm : Option Bool
  recs : List Req
  pre : Nat
  lc : Option (String × EClass)
  cr : Option Exn
  xadm : Bool
  xset : Bool

def view (w : World) : V :=
  ⟨(cur w.trace).admitted, (cur w.trace).records, (cur w.trace).preRecords, (cur w.trace).lastClass,
   (cur w.trace).clsRaised, w.xc.admitted, w.xc.settled⟩

/-- every request kind of the loop but the classifier's -/
def quietK : Kind → Bool
  | .classify | .breakerAllow | .breakerSuccess | .breakerFailure | .breakerCancel => false
  | _ => true

theorem quietK_loopK (k : Kind) (h : quietK k = true) : loopK k = true := by
  cases k <;> simp_all [quietK, loopK]

theorem step_quiet (s : St) (x : Req × Ans) (h : quietK x.1.kind = true) :
    (step s x).admitted = s.admitted ∧ (step s x).records = s.records ∧
    (step s x).preRecords = s.preRecords ∧ (step s x).lastClass = s.lastClass ∧
    (step s x).clsRaised = s.clsRaised := by
  obtain ⟨r, a⟩ := x
  cases r <;> simp_all [quietK, Req.kind, step, count, noteClassifier, isRecord] <;>
    (repeat' split) <;> simp_all

theorem view_cons_quiet (w : World) (x : Req × Ans) (h : quietK x.1.kind = true) (w' : World)
    (ht : w'.trace = x :: w.trace) (hx : w'.xc = w.xc) : view w' = view w := by
  have := step_quiet (cur w.trace) x h
  simp only [view, ht, cur_cons, hx]
  simp [this]

theorem cur_append_quiet (δ t : List (Req × Ans)) (h : ∀ x ∈ δ, quietK x.1.kind = true) :
    (cur (δ ++ t)).admitted = (cur t).admitted ∧ (cur (δ ++ t)).records = (cur t).records ∧
    (cur (δ ++ t)).preRecords = (cur t).preRecords ∧ (cur (δ ++ t)).lastClass = (cur t).lastClass ∧
    (cur (δ ++ t)).clsRaised = (cur t).clsRaised := by
  induction δ with
  | nil => simp
  | cons x δ ih =>
    have hx := step_quiet (cur (δ ++ t)) x (h x (by simp))
    have := ih (fun y hy => h y (by simp [hy]))
    simp only [List.cons_append, cur_cons]
    exact ⟨hx.1.trans this.1, hx.2.1.trans this.2.1, hx.2.2.1.trans this.2.2.1,
      hx.2.2.2.1.trans this.2.2.2.1, hx.2.2.2.2.trans this.2.2.2.2⟩

theorem view_ext_quiet {w w' : World} (h : Ext quietK w w') : view w' = view w := by
  obtain ⟨δ, e, k⟩ := h.trace
  have := cur_append_quiet δ w.trace k
  simp only [view, e, h.xc]
  simp [this]

/-- "… unless the run has left the stated environment" -/
def OF (P : V → Prop) (w : World) : Prop := fault w.trace = false → P (view w)

theorem OF.ext_quiet {P : V → Prop} {w w' : World} (h : Ext quietK w w') (hp : OF P w) : OF P w' := by
  intro hf
  obtain ⟨δ, e, _⟩ := h.trace
  rw [view_ext_quiet h]
  exact hp (fault_append δ _ (e ▸ hf))

/-- any predicate on the admission, the records and the context flags (not on the last classifier
    exchange) survives the retry loop -/
def Core (P : Option Bool → List Req → Nat → Bool → Bool → Prop) (v : V) : Prop :=
  P v.adm v.recs v.pre v.xadm v.xset

theorem OF.ext_loop {P : Option Bool → List Req → Nat → Bool → Bool → Prop} {w w' : World}
    (h : Ext loopK w w') (hp : OF (Core P) w) : OF (Core P) w' := by
  intro hf
  obtain ⟨δ, e, k⟩ := h.trace
  have hc := C08.cur_append_loop δ w.trace k
  have := hp (fault_append δ _ (e ▸ hf))
  simp only [Core, view, e, h.xc, hc.1, hc.2.2.1, hc.2.2.2] at this ⊢
  exact this


/-! ### states of an admitted call -/

/-- no constraint on the last classifier exchange -/
abbrev Any : Option (String × EClass) → Option Exn → Prop := fun _ _ => True

/-- admitted, nothing recorded yet (`F` : what is known about the last classifier exchange) -/
def OpenL (F : Option (String × EClass) → Option Exn → Prop) (v : V) : Prop :=
  v.adm = some true ∧ v.pre = 0 ∧ v.recs = [] ∧ v.xadm = true ∧ v.xset = false ∧ F v.lc v.cr

/-- admitted, exactly `rec` recorded -/
def ClosedL (rec : Req) (F : Option (String × EClass) → Option Exn → Prop) (v : V) : Prop :=
  v.adm = some true ∧ v.pre = 0 ∧ v.recs = [rec] ∧ v.xadm = true ∧ v.xset = true ∧ F v.lc v.cr

theorem OF.open_loop {w w' : World} (h : Ext loopK w w') (hp : OF (OpenL Any) w) : OF (OpenL Any) w' := by
  have : OF (Core fun adm recs pre xadm xset =>
      adm = some true ∧ pre = 0 ∧ recs = [] ∧ xadm = true ∧ xset = false) w := by
    intro hf; have := hp hf; simp_all [OpenL, Core]
  have := OF.ext_loop h this
  intro hf; have := this hf; simp_all [OpenL, Core]

/-- `Mon.C09.expected` as a function of the last classifier exchange -/
def want (cfg : Cfg) (lc : Option (String × EClass)) (cr : Option Exn) (r : Res) : Option Req :=
  expected cfg { lastClass := lc, clsRaised := cr } r

theorem expected_eq (cfg : Cfg) (m : St) (r : Res) : expected cfg m r = want cfg m.lastClass m.clsRaised r := by
  cases r <;> rfl

/-- what will be true once `ensure_settled` has run: one record, of the dictated kind -/
def GoodV (cfg : Cfg) (r : Res) (v : V) : Prop :=
  v.adm = some true ∧ v.pre = 0 ∧ v.xadm = true ∧
  ∃ rec, (if v.xset then v.recs else v.recs ++ [Req.breakerCancel]) = [rec] ∧
    ∀ x, want cfg v.lc v.cr r = some x → rec = x

/-- the verdict for an admitted call -/
def FinalV (cfg : Cfg) (r : Res) (v : V) : Prop :=
  v.adm = some true ∧ v.pre = 0 ∧ ∃ rec, v.recs = [rec] ∧ ∀ x, want cfg v.lc v.cr r = some x → rec = x

theorem OF.good_closed {cfg : Cfg} {r : Res} {rec : Req} {F : Option (String × EClass) → Option Exn → Prop}
    {w : World} (h : OF (ClosedL rec F) w)
    (hm : ∀ l c, F l c → ∀ x, want cfg l c r = some x → rec = x) : OF (GoodV cfg r) w := by
  intro hf
  obtain ⟨h1, h2, h3, h4, h5, h6⟩ := h hf
  exact ⟨h1, h2, h4, rec, by simp [h5, h3], hm _ _ h6⟩

theorem OF.good_open {cfg : Cfg} {r : Res} {F : Option (String × EClass) → Option Exn → Prop}
    {w : World} (h : OF (OpenL F) w)
    (hm : ∀ l c, F l c → ∀ x, want cfg l c r = some x → Req.breakerCancel = x) : OF (GoodV cfg r) w := by
  intro hf
  obtain ⟨h1, h2, h3, h4, h5, h6⟩ := h hf
  exact ⟨h1, h2, h4, .breakerCancel, by simp [h5, h3], hm _ _ h6⟩

theorem OF.of_fault {P : V → Prop} {w : World} (h : fault w.trace = true) : OF P w := by
  intro hf; simp_all

theorem OF.weaken {P Q : V → Prop} {w : World} (h : OF P w) (hpq : ∀ v, P v → Q v) : OF Q w :=
  fun hf => hpq _ (h hf)

/-! ### leaves -/

/-- would `r` answered by raising `e` put the run outside the stated environment? -/
def faultOn (r : Req) (e : Exn) : Bool := faultX (r, .raise e 0)

theorem faultX_raise (r : Req) (e : Exn) (d : Nat) : faultX (r, .raise e d) = faultOn r e := by
  cases r <;> rfl

theorem OF.cons_quiet {P : V → Prop} {s : World} (x : Req × Ans) (hq : quietK x.1.kind = true)
    (s' : World) (ht : s'.trace = x :: s.trace) (hx : s'.xc = s.xc) (h : OF P s) : OF P s' := by
  intro hf
  rw [ht] at hf
  simp only [fault_cons, Bool.or_eq_false_iff] at hf
  rw [view_cons_quiet s x hq s' ht hx]
  exact h hf.2

theorem fault_head {s' : World} {tr : List (Req × Ans)} (x : Req × Ans) (ht : s'.trace = x :: tr)
    (hx : faultX x = true) : fault s'.trace = true := by
  simp [ht, hx]

/-- one exchange with a callback that is neither the classifier nor the breaker -/
theorem ask_of (r : Req) (hq : quietK r.kind = true) (P : V → Prop) :
    ⦃fun w => ⌜OF P w⌝⦄ ask r
    ⦃post⟨fun _ w => ⌜OF P w⌝,
          fun e w => ⌜OF P w ∧ (faultOn r e = true → fault w.trace = true)⌝⟩⦄ := by
  mvcgen [ask]
  all_goals (try subst_vars) <;> (try intros)
  all_goals first
    | exact OF.cons_quiet (r, _) hq _ rfl rfl (by assumption)
    | exact ⟨OF.cons_quiet (r, _) hq _ rfl rfl (by assumption),
        fun hx => by simp [faultX_raise, hx]⟩


theorem askHook_of (r : Req) (hq : quietK r.kind = true) (P : V → Prop) :
    ⦃fun w => ⌜OF P w⌝⦄ askHook r
    ⦃post⟨fun _ w => ⌜OF P w⌝,
          fun e w => ⌜OF P w ∧ (faultOn r e = true → fault w.trace = true)⌝⟩⦄ :=
  askHook_triple r (ask_of r hq P) (fun w h => presil_cases (OF P) w (fun _ => h))

macro "of_close" : tactic => `(tactic| all_goals (
  (try subst_vars) <;> (try intros) <;>
  first
    | assumption
    | rfl
    | (simp_all +zetaDelta [faultOn, faultX, isAttemptHook]; done)
    | skip))

section hooks
variable (cfg : Cfg) (P : V → Prop)

/-- `_emit_breaker_event`: only a BaseException-only kind raised by a hook gets out -/
theorem emitBreakerEvent_of (ev : Option Event) (st : CState) (k : Option EClass) :
    ⦃fun w => ⌜OF P w⌝⦄ emitBreakerEvent cfg ev st k ⦃post⟨fun _ w => ⌜OF P w⌝, fun _ w => ⌜fault w.trace = true⌝⟩⦄ := by
  have h := fun r hq => askHook_of r hq P
  mvcgen [emitBreakerEvent, swallowException, askMetric, askLog, h]
  of_close

theorem noRetryStartHook_of :
    ⦃fun w => ⌜OF P w⌝⦄ noRetryStartHook cfg ⦃post⟨fun _ w => ⌜OF P w⌝, fun _ w => ⌜fault w.trace = true⌝⟩⦄ := by
  have h := fun r hq => ask_of r hq P
  mvcgen [noRetryStartHook, xElapsed, h]
  of_close

theorem noRetryEndHook_of (exc : Option Exn) (r : Option Nat) (d : AttemptDecision)
    (stop : Option StopReason) (cause : Option Cause) :
    ⦃fun w => ⌜OF P w⌝⦄ noRetryEndHook cfg exc r d stop cause ⦃post⟨fun _ w => ⌜OF P w⌝, fun _ w => ⌜fault w.trace = true⌝⟩⦄ := by
  have h := fun r hq => ask_of r hq P
  mvcgen [noRetryEndHook, xElapsed, h]
  of_close

theorem policyOutcome_of (ok : Bool) (value : Option Nat) (stop : Option StopReason) (attempts : Nat)
    (lc : Option EClass) (le : Option String) (cause : Option Cause) :
    ⦃fun w => ⌜OF P w⌝⦄ policyOutcome ok value stop attempts lc le cause
    ⦃post⟨fun o w => ⌜OF P w ∧ o.ok = ok ∧ o.stop = stop ∧ o.lastClass = lc⌝, fun _ _ => ⌜False⌝⟩⦄ := by
  mvcgen [policyOutcome, xElapsed]
  of_close

end hooks


/-! ### the classifier, asked by the policy for the breaker -/

theorem step_admitted_record (s : St) (hs : s.admitted = some true) (r : Req) (ans : Ans)
    (hr : isRecord r = true) : step s (r, ans) = { s with records := s.records ++ [r] } := by
  cases r <;> simp_all [step, count, noteClassifier, isRecord]

theorem step_admitted_classify (s : St) (hs : s.admitted = some true) (ref : String) (a : Ans) :
    step s (.classify ref, a) =
      { s with lastClass := (match a with | .klass c _ => some (ref, c.klass) | _ => none),
               clsRaised := (match a with | .raise e _ => some e | _ => none) } := by
  cases a <;> simp_all [step, count, noteClassifier, isRecord]

/-- what the last classifier exchange `(classify ref, a)` leaves in the monitor -/
def clsF (ref : String) (a : Ans) : Option (String × EClass) → Option Exn → Prop := fun l c =>
  l = (match a with | .klass k _ => some (ref, k.klass) | _ => none) ∧
  c = (match a with | .raise e _ => some e | _ => none)

theorem OF.classified {F : Option (String × EClass) → Option Exn → Prop} {s : World} (ref : String) (a : Ans)
    (s' : World) (ht : s'.trace = (.classify ref, a) :: s.trace) (hx : s'.xc = s.xc)
    (h : OF (OpenL F) s) : OF (OpenL (clsF ref a)) s' := by
  intro hf
  rw [ht] at hf
  simp only [fault_cons, Bool.or_eq_false_iff] at hf
  obtain ⟨h1, h2, h3, h4, h5, _⟩ := h hf.2
  simp only [view] at h1 h2 h3 h4 h5
  simp only [OpenL, view, ht, cur_cons, hx, step_admitted_classify _ h1, clsF]
  simp [h1, h2, h3, h4, h5]

theorem callClassifier_of (F : Option (String × EClass) → Option Exn → Prop) (e : Exn) :
    ⦃fun w => ⌜OF (OpenL F) w⌝⦄ callClassifier e
    ⦃post⟨fun c w => ⌜OF (OpenL fun l r => l = some (e.ref, c.klass) ∧ r = none) w⌝,
          fun e' w => ⌜OF (OpenL fun _ r => e' = .stuck ∨ r = some e') w⌝⟩⦄ := by
  mvcgen [callClassifier, ask]
  all_goals (try subst_vars) <;> (try intros)
  all_goals
    (refine OF.weaken (OF.classified e.ref _ _ rfl rfl (by assumption)) ?_
     intro v hv
     simp_all [OpenL, clsF])

/-! ### `record_*`, `ensure_settled` -/

theorem OF.record {F : Option (String × EClass) → Option Exn → Prop} {s : World} (r : Req) (ans : Ans)
    (st : Breaker.St) (hr : isRecord r = true) (h : OF (OpenL F) s) :
    OF (ClosedL r F)
      { s with breaker := st, xc := { s.xc with settled := true }, trace := (r, ans) :: s.trace } := by
  intro hf
  simp only [fault_cons, Bool.or_eq_false_iff] at hf
  obtain ⟨h1, h2, h3, h4, h5, h6⟩ := h hf.2
  simp only [view] at h1 h2 h3 h4 h5 h6
  simp only [ClosedL, view, cur_cons, step_admitted_record _ h1 r ans hr]
  simp [h1, h2, h3, h4, h6]

theorem OF.settle {cfg : Cfg} {r : Res} {s : World} (ans : Ans) (st : Breaker.St)
    (h : OF (GoodV cfg r) s) (hc : (s.xc.admitted && !s.xc.settled) = true) :
    OF (FinalV cfg r)
      { s with breaker := st, xc := { s.xc with settled := true },
               trace := (.breakerCancel, ans) :: s.trace } := by
  intro hf
  simp only [fault_cons, Bool.or_eq_false_iff] at hf
  obtain ⟨h1, h2, h3, rec, h4, h5⟩ := h hf.2
  simp only [view] at h1 h2 h3 h4 h5
  have hset : s.xc.settled = false := by simp_all
  simp only [hset, Bool.false_eq_true, if_false] at h4
  simp only [FinalV, view, cur_cons, step_admitted_record _ h1 .breakerCancel ans rfl]
  exact ⟨h1, h2, rec, h4, h5⟩

theorem OF.settled {cfg : Cfg} {r : Res} {s : World}
    (h : OF (GoodV cfg r) s) (hc : ¬ (s.xc.admitted && !s.xc.settled) = true) :
    OF (FinalV cfg r) s := by
  intro hf
  obtain ⟨h1, h2, h3, rec, h4, h5⟩ := h hf
  simp only [view] at h1 h2 h3 h4 h5
  have hset : s.xc.settled = true := by simp_all
  simp only [hset, if_true] at h4
  exact ⟨h1, h2, rec, h4, h5⟩

section records
variable (cfg : Cfg) (bc : Breaker.Cfg) (hb : cfg.breaker = some bc)
  (F : Option (String × EClass) → Option Exn → Prop)
include hb

theorem recordCancel_of :
    ⦃fun w => ⌜OF (OpenL F) w⌝⦄ Policy.recordCancel cfg
    ⦃post⟨fun _ w => ⌜OF (ClosedL .breakerCancel F) w⌝, fun _ _ => ⌜False⌝⟩⦄ := by
  unfold Policy.recordCancel
  simp only [hb]
  mvcgen
  all_goals (try subst_vars) <;> (try intros)
  exact OF.record _ _ _ rfl (by assumption)

theorem recordSuccess_of :
    ⦃fun w => ⌜OF (OpenL F) w⌝⦄ Policy.recordSuccess cfg
    ⦃post⟨fun _ w => ⌜OF (ClosedL .breakerSuccess F) w⌝, fun _ w => ⌜fault w.trace = true⌝⟩⦄ := by
  have he := emitBreakerEvent_of cfg (ClosedL .breakerSuccess F)
  unfold Policy.recordSuccess
  simp only [hb]
  mvcgen [he]
  all_goals (try subst_vars) <;> (try intros)
  exact OF.record _ _ _ rfl (by assumption)

theorem recordFailure_of (k : EClass) :
    ⦃fun w => ⌜OF (OpenL F) w⌝⦄ Policy.recordFailure cfg k
    ⦃post⟨fun _ w => ⌜OF (ClosedL (.breakerFailure k) F) w⌝, fun _ w => ⌜fault w.trace = true⌝⟩⦄ := by
  have he := emitBreakerEvent_of cfg (ClosedL (.breakerFailure k) F)
  unfold Policy.recordFailure
  simp only [hb]
  mvcgen [he]
  all_goals (try subst_vars) <;> (try intros)
  exact OF.record _ _ _ rfl (by assumption)

/-- `ensure_settled`: an admitted call that made no record gets its cancel now -/
theorem ensureSettled_of (r : Res) :
    ⦃fun w => ⌜OF (GoodV cfg r) w⌝⦄ ensureSettled cfg
    ⦃post⟨fun _ w => ⌜OF (FinalV cfg r) w⌝, fun _ _ => ⌜False⌝⟩⦄ := by
  unfold ensureSettled Policy.recordCancel
  simp only [hb]
  mvcgen
  all_goals (try subst_vars) <;> (try intros)
  · exact OF.settle _ _ (by assumption) (by assumption)
  · exact OF.settled (by assumption) (by assumption)

end records


/-! ### which record the final outcome dictates (pure facts about `Mon.C09.expected`) -/

/-- AbortRetryError, cancellation kinds, a nested CircuitOpenError (and the model's `stuck`) -/
def cancelLike (e : Exn) : Bool := e.isCancelKind || e.isAbort || e.isCircuitOpen || e == .stuck

theorem want_cancelLike (cfg : Cfg) (l : Option (String × EClass)) (c : Option Exn) (e : Exn)
    (h : cancelLike e = true) : want cfg l c (.raised e) = some .breakerCancel := by
  simp only [want, expected]
  rw [if_pos (by simpa [cancelLike] using h)]

theorem want_not_cancelLike (cfg : Cfg) (l : Option (String × EClass)) (c : Option Exn) (e : Exn)
    (h : cancelLike e = false) : want cfg l c (.raised e) =
      if cfg.hasRetry && c == some e then none
      else if e.isExhausted then some (.breakerFailure (e.exhaustedClass.getD .unknown))
      else if cfg.hasRetry then
        l.bind fun p => if p.1 == e.ref then some (.breakerFailure p.2) else none
      else some (.breakerFailure (Policy.defaultClass e)) := by
  simp only [want, expected]
  rw [if_neg (by simpa [cancelLike] using h)]

theorem kiSe_cancelLike {e : Exn} (h : e.isKiSe = true) : cancelLike e = true := by
  cases e <;> simp_all [Exn.isKiSe, cancelLike, Exn.isCancelKind]

theorem nonException_cancelLike {e : Exn} (h : e.isException = false) : cancelLike e = true := by
  cases e <;> simp_all [Exn.isException, cancelLike, Exn.isCancelKind]

theorem exhausted_not_cancelLike {e : Exn} (h : e.isExhausted = true) : cancelLike e = false := by
  cases e <;> simp_all [Exn.isExhausted, cancelLike, Exn.isCancelKind, Exn.isAbort, Exn.isCircuitOpen]

theorem exception_not_cancelLike {e : Exn} (h1 : e.isException = true) (h2 : e.isAbort = false)
    (h3 : e.isCircuitOpen = false) : cancelLike e = false := by
  cases e <;> simp_all [Exn.isException, cancelLike, Exn.isCancelKind, Exn.isAbort, Exn.isCircuitOpen]

section glue
variable {cfg : Cfg} {w : World} {F : Option (String × EClass) → Option Exn → Prop}

theorem good_cancel {e : Exn} (h : OF (ClosedL .breakerCancel F) w) (hc : cancelLike e = true) :
    OF (GoodV cfg (.raised e)) w :=
  h.good_closed fun l c _ x hx => by rw [want_cancelLike cfg l c e hc] at hx; exact Option.some.inj hx

theorem good_open_cancel {e : Exn} (h : OF (OpenL F) w) (hc : cancelLike e = true) :
    OF (GoodV cfg (.raised e)) w :=
  h.good_open fun l c _ x hx => by rw [want_cancelLike cfg l c e hc] at hx; exact Option.some.inj hx

theorem good_exhausted {e : Exn} (h : OF (ClosedL (.breakerFailure (e.exhaustedClass.getD .unknown)) F) w)
    (he : e.isExhausted = true) : OF (GoodV cfg (.raised e)) w :=
  h.good_closed fun l c _ x hx => by
    rw [want_not_cancelLike cfg l c e (exhausted_not_cancelLike he)] at hx
    split at hx
    · cases hx
    · exact Option.some.inj hx

theorem good_classified {e : Exn} {k : EClass} (hret : cfg.hasRetry = true)
    (h : OF (ClosedL (.breakerFailure k) (fun l r => l = some (e.ref, k) ∧ r = none)) w)
    (h1 : e.isException = true) (h2 : e.isAbort = false) (h3 : e.isCircuitOpen = false)
    (h4 : e.isExhausted = false) : OF (GoodV cfg (.raised e)) w :=
  h.good_closed fun l c hlc x hx => by
    obtain ⟨rfl, rfl⟩ := hlc
    rw [want_not_cancelLike cfg _ _ e (exception_not_cancelLike h1 h2 h3)] at hx
    simp [hret, h4] at hx
    exact hx

theorem good_cls_raised {e' : Exn} (hret : cfg.hasRetry = true)
    (h : OF (OpenL fun _ r => e' = .stuck ∨ r = some e') w) : OF (GoodV cfg (.raised e')) w :=
  h.good_open fun l c hlc x hx => by
    cases hcl : cancelLike e' with
    | true => rw [want_cancelLike cfg l c e' hcl] at hx; exact Option.some.inj hx
    | false =>
      rw [want_not_cancelLike cfg l c e' hcl] at hx
      rcases hlc with rfl | rfl
      · simp [cancelLike] at hcl
      · simp [hret] at hx

theorem good_default {e : Exn} (hret : cfg.hasRetry = false)
    (h : OF (ClosedL (.breakerFailure (Policy.defaultClass e)) F) w)
    (h1 : e.isException = true) (h2 : e.isAbort = false) (h3 : e.isCircuitOpen = false)
    (h4 : e.isExhausted = false) : OF (GoodV cfg (.raised e)) w :=
  h.good_closed fun l c _ x hx => by
    rw [want_not_cancelLike cfg _ _ e (exception_not_cancelLike h1 h2 h3)] at hx
    simp [hret, h4] at hx
    exact hx

theorem good_ret {v : Nat} (h : OF (ClosedL .breakerSuccess F) w) : OF (GoodV cfg (.ret v)) w :=
  h.good_closed fun l c _ x hx => by simp only [want, expected] at hx; exact Option.some.inj hx

theorem good_outcome {o : Outcome} {tl : List TimelineEv} {rec : Req} (h : OF (ClosedL rec F) w)
    (hr : rec = (if o.ok then Req.breakerSuccess else if o.stop == some .aborted then .breakerCancel
      else .breakerFailure (o.lastClass.getD .unknown))) : OF (GoodV cfg (.outcome o tl)) w :=
  h.good_closed fun l c _ x hx => by
    simp only [want, expected] at hx
    subst hr
    split at hx
    · simp_all
    · split at hx <;> simp_all

end glue


/-! ### the `except` ladders -/

/-- prove `cancelLike e = true` from the branch conditions in context -/
macro "cancel_like" : tactic => `(tactic| first
  | rfl
  | (apply kiSe_cancelLike; simp_all; done)
  | (apply nonException_cancelLike; simp_all; done)
  | (simp_all [cancelLike]; done)
  | (simp_all [cancelLike, Exn.isCancelKind]; done))

/-- close "the record made is the one the outcome dictates" goals -/
macro "glue" : tactic => `(tactic| first
  | assumption
  | (apply OF.of_fault; assumption)
  | (apply good_ret; assumption)
  | (apply good_cls_raised <;> assumption)
  | (apply good_classified <;> first | assumption | (simp_all; done))
  | (apply good_default <;> first | assumption | (simp_all; done))
  | (apply good_exhausted <;> first | assumption | (simp_all; done))
  | (apply good_cancel <;> first | assumption | cancel_like)
  | (apply good_open_cancel <;> first | assumption | cancel_like))

abbrev goodPost (cfg : Cfg) : PostCond α (.except Exn (.arg World .pure)) :=
  post⟨fun _ _ => ⌜False⌝, fun e w => ⌜OF (GoodV cfg (.raised e)) w⌝⟩

section ladders
variable (cfg : Cfg) (bc : Breaker.Cfg) (hb : cfg.breaker = some bc)
include hb

/-- `_handle_exception_call` with a retry component: the classifier is asked for the breaker -/
theorem handleExceptionCall_retry (hret : cfg.hasRetry = true) (e : Exn) (b : Bool)
    (h1 : e.isException = true) (h2 : e.isAbort = false) (h4 : e.isExhausted = false) :
    ⦃fun w => ⌜OF (OpenL Any) w⌝⦄ handleExceptionCall cfg e b
    ⦃post⟨fun _ w => ⌜OF (GoodV cfg (.raised e)) w⌝, fun e' w => ⌜OF (GoodV cfg (.raised e')) w⌝⟩⦄ := by
  have hc := callClassifier_of Any e
  have hr := fun F k => recordFailure_of cfg bc hb F k
  unfold handleExceptionCall classifyForBreaker
  simp only [hret, Bool.not_true, Bool.false_and, if_true]
  mvcgen [hc, hr]
  all_goals (try subst_vars) <;> (try intros)
  all_goals glue

/-- `_handle_exception_call` without a retry component: `default_classifier` -/
theorem handleExceptionCall_nr (hret : cfg.hasRetry = false) (e : Exn) (b : Bool)
    (h1 : e.isException = true) (h2 : e.isAbort = false) (h4 : e.isExhausted = false) :
    ⦃fun w => ⌜OF (OpenL Any) w⌝⦄ handleExceptionCall cfg e b
    ⦃post⟨fun _ w => ⌜OF (GoodV cfg (.raised e)) w⌝, fun e' w => ⌜OF (GoodV cfg (.raised e')) w⌝⟩⦄ := by
  have hh := noRetryEndHook_of cfg (OpenL Any)
  have hr := fun F k => recordFailure_of cfg bc hb F k
  unfold handleExceptionCall classifyForBreaker
  simp only [hret, Bool.not_false, Bool.true_and]
  mvcgen [hh, hr]
  all_goals (try subst_vars) <;> (try intros)
  all_goals glue

/-- `_handle_abort_call` -/
theorem handleAbortCall_of (e : Exn) :
    ⦃fun w => ⌜OF (OpenL Any) w⌝⦄ handleAbortCall cfg e
    ⦃post⟨fun _ w => ⌜OF (ClosedL .breakerCancel Any) w⌝, fun _ w => ⌜fault w.trace = true⌝⟩⦄ := by
  have hh := noRetryEndHook_of cfg (OpenL Any)
  have hr := recordCancel_of cfg bc hb Any
  mvcgen [handleAbortCall, hh, hr]
  all_goals (try subst_vars) <;> (try intros)
  all_goals first | assumption | (simp_all; done)

/-- `_handle_exhausted_call` -/
theorem handleExhaustedCall_of (e : Exn) :
    ⦃fun w => ⌜OF (OpenL Any) w⌝⦄ handleExhaustedCall cfg e
    ⦃post⟨fun _ w => ⌜OF (ClosedL (.breakerFailure (e.exhaustedClass.getD .unknown)) Any) w⌝,
          fun _ w => ⌜fault w.trace = true⌝⟩⦄ := by
  have hr := fun k => recordFailure_of cfg bc hb Any k
  mvcgen [handleExhaustedCall, hr]

/-- the `except` ladder of `Policy.call` / `AsyncPolicy.call`: whatever came out of the attempt(s),
    what propagates is matched by the record made — or by the cancel `ensure_settled` will make -/
theorem callLadder_of (e : Exn) :
    ⦃fun w => ⌜OF (OpenL Any) w⌝⦄ callLadder cfg e ⦃goodPost cfg⦄ := by
  have h1 := recordCancel_of cfg bc hb Any
  have h2 := handleAbortCall_of cfg bc hb
  have h3 := handleExhaustedCall_of cfg bc hb
  cases hret : cfg.hasRetry with
  | true =>
    have h4 := fun e b x1 x2 x3 => handleExceptionCall_retry cfg bc hb hret e b x1 x2 x3
    mvcgen [callLadder, h1, h2, h3, h4]
    all_goals (try subst_vars) <;> (try intros)
    all_goals first | glue | (simp_all; done)
  | false =>
    have h4 := fun e b x1 x2 x3 => handleExceptionCall_nr cfg bc hb hret e b x1 x2 x3
    mvcgen [callLadder, h1, h2, h3, h4]
    all_goals (try subst_vars) <;> (try intros)
    all_goals first | glue | (simp_all; done)

/-! ### `call` -/

omit hb in
theorem runCall_of : ⦃fun w => ⌜OF (OpenL Any) w⌝⦄ runCall cfg
    ⦃post⟨fun _ w => ⌜OF (OpenL Any) w⌝, fun _ w => ⌜OF (OpenL Any) w⌝⟩⦄ :=
  inv_of_ext (OF (OpenL Any)) (fun w0 => runCall_ext w0 cfg) (fun _ _ => OF.open_loop)

omit hb in
theorem runExecute_of : ⦃fun w => ⌜OF (OpenL Any) w⌝⦄ runExecute cfg
    ⦃post⟨fun _ w => ⌜OF (OpenL Any) w⌝, fun _ w => ⌜OF (OpenL Any) w⌝⟩⦄ :=
  inv_of_ext (OF (OpenL Any)) (fun w0 => runExecute_ext w0 cfg) (fun _ _ => OF.open_loop)

omit hb in
theorem invokeOp_of (n : Nat) : ⦃fun w => ⌜OF (OpenL Any) w⌝⦄ invokeOp n
    ⦃post⟨fun _ w => ⌜OF (OpenL Any) w⌝, fun _ w => ⌜OF (OpenL Any) w⌝⟩⦄ :=
  inv_of_ext (OF (OpenL Any)) (fun w0 => invokeOp_ext w0 n) (fun _ _ => OF.open_loop)

omit hb in
/-- `_call_without_retry`: an exception of the operation leaves the call unrecorded; one of an
    attempt hook leaves the stated environment -/
theorem callWithoutRetry_of : ⦃fun w => ⌜OF (OpenL Any) w⌝⦄ callWithoutRetry cfg
    ⦃post⟨fun _ w => ⌜OF (OpenL Any) w⌝, fun _ w => ⌜OF (OpenL Any) w⌝⟩⦄ := by
  have h1 := noRetryStartHook_of cfg (OpenL Any)
  have h2 := invokeOp_of
  have h3 := noRetryEndHook_of cfg (OpenL Any)
  mvcgen [callWithoutRetry, h1, h2, h3]
  all_goals (try subst_vars) <;> (try intros)
  all_goals first | assumption | (apply OF.of_fault; assumption)

/-- `check_abort_no_retry` (after admission) -/
theorem checkAbortNoRetry_of : ⦃fun w => ⌜OF (OpenL Any) w⌝⦄ checkAbortNoRetry cfg
    ⦃post⟨fun b w => ⌜if b then OF (ClosedL .breakerCancel Any) w else OF (OpenL Any) w⌝,
          fun e w => ⌜OF (GoodV cfg (.raised e)) w⌝⟩⦄ := by
  have h1 := ask_of .abortIf rfl (OpenL Any)
  have h2 := recordCancel_of cfg bc hb Any
  mvcgen [checkAbortNoRetry, h1, h2]
  all_goals (try subst_vars) <;> (try intros)
  all_goals first
    | assumption
    | (simp_all; done)
    | (apply OF.of_fault; simp_all [faultOn, faultX, isAttemptHook]; done)
    | (apply good_open_cancel (by assumption); rfl)
    | skip

omit hb in
/-- `breaker.allow()` answering "allowed" -/
theorem breakerAllow_adm (b0 : Breaker.St) (now0 : Nat) (ha : decision bc b0 now0 = true) :
    ⦃fun w => ⌜w.trace = [] ∧ w.breaker = b0 ∧ w.now = now0 ∧ w.xc.settled = false⌝⦄
    breakerAllow bc
    ⦃post⟨fun d w => ⌜d.1 = true ∧ OF (OpenL Any) w⌝, fun _ _ => ⌜False⌝⟩⦄ := by
  mvcgen [breakerAllow]
  rename_i h
  obtain ⟨h1, h2, h3, h4⟩ := h
  subst h2 h3
  have ha' : (Breaker.allow bc _ _).1.1 = true := ha
  refine ⟨ha', fun _ => ?_⟩
  simp [OpenL, view, h1, h4, C08.cur, step, count, noteClassifier, ha']

theorem checkBreaker_adm (b0 : Breaker.St) (now0 : Nat) (ha : decision bc b0 now0 = true) :
    ⦃fun w => ⌜w.trace = [] ∧ w.breaker = b0 ∧ w.now = now0 ∧ w.xc.settled = false⌝⦄
    checkBreaker cfg
    ⦃post⟨fun _ w => ⌜OF (OpenL Any) w⌝, fun _ w => ⌜fault w.trace = true⌝⟩⦄ := by
  have h1 := breakerAllow_adm bc b0 now0 ha
  have h2 := emitBreakerEvent_of cfg (OpenL Any)
  unfold checkBreaker
  simp only [hb]
  mvcgen [h1, h2]
  all_goals (try subst_vars) <;> (try intros)
  all_goals first | assumption | (simp_all; done)

theorem callAdmitted_adm (b0 : Breaker.St) (now0 : Nat) (ha : decision bc b0 now0 = true) :
    ⦃fun w => ⌜w.trace = [] ∧ w.breaker = b0 ∧ w.now = now0 ∧ w.xc.settled = false⌝⦄
    callAdmitted cfg
    ⦃post⟨fun v w => ⌜OF (GoodV cfg (.ret v)) w⌝, fun e w => ⌜OF (GoodV cfg (.raised e)) w⌝⟩⦄ := by
  have h0 := checkBreaker_adm cfg bc hb b0 now0 ha
  have h1 := checkAbortNoRetry_of cfg bc hb
  have h2 := runCall_of cfg
  have h3 := callWithoutRetry_of cfg
  have h4 := recordSuccess_of cfg bc hb Any
  have h5 := callLadder_of cfg bc hb
  mvcgen [callAdmitted, h0, h1, h2, h3, h4, h5]
  all_goals (try subst_vars) <;> (try intros)
  all_goals first
    | glue
    | (simp_all; done)
    | (simp only [↓reduceIte] at *; glue)
    | skip

/-- `Policy.call` / `AsyncPolicy.call` when the breaker admits -/
theorem call_adm (b0 : Breaker.St) (now0 : Nat) (ha : decision bc b0 now0 = true) :
    ⦃fun w => ⌜w.trace = [] ∧ w.breaker = b0 ∧ w.now = now0⌝⦄
    Policy.call cfg
    ⦃post⟨fun v w => ⌜OF (FinalV cfg (.ret v)) w⌝, fun e w => ⌜OF (FinalV cfg (.raised e)) w⌝⟩⦄ := by
  have h0 := callAdmitted_adm cfg bc hb b0 now0 ha
  have h1 := ensureSettled_of cfg bc hb
  mvcgen [Policy.call, initCtx, withFinally, h0, h1]
  all_goals (try subst_vars) <;> (try intros)
  all_goals first
    | assumption
    | (simp_all +zetaDelta; done)
    | skip

/-! ### `execute` -/

/-- the `except` ladder around `retry.execute(...)` -/
theorem executeLadder_of (e : Exn) :
    ⦃fun w => ⌜OF (OpenL Any) w⌝⦄ executeLadder cfg e ⦃goodPost cfg⦄ := by
  have h1 := recordCancel_of cfg bc hb Any
  have h3 := handleExhaustedCall_of cfg bc hb
  cases hret : cfg.hasRetry with
  | true =>
    have h4 := fun e b x1 x2 x3 => handleExceptionCall_retry cfg bc hb hret e b x1 x2 x3
    mvcgen [executeLadder, h1, h3, h4]
    all_goals (try subst_vars) <;> (try intros)
    all_goals first | glue | (simp_all; done)
  | false =>
    have h4 := fun e b x1 x2 x3 => handleExceptionCall_nr cfg bc hb hret e b x1 x2 x3
    mvcgen [executeLadder, h1, h3, h4]
    all_goals (try subst_vars) <;> (try intros)
    all_goals first | glue | (simp_all; done)

abbrev outPost (cfg : Cfg) : PostCond Outcome (.except Exn (.arg World .pure)) :=
  post⟨fun o w => ⌜OF (GoodV cfg (.outcome o [])) w⌝, fun e w => ⌜OF (GoodV cfg (.raised e)) w⌝⟩

/-- `_execute_with_retry`: one record, by the outcome -/
theorem executeWithRetry_of : ⦃fun w => ⌜OF (OpenL Any) w⌝⦄ executeWithRetry cfg ⦃outPost cfg⦄ := by
  have h0 := runExecute_of cfg
  have h1 := recordCancel_of cfg bc hb Any
  have h2 := recordSuccess_of cfg bc hb Any
  have h3 := fun k => recordFailure_of cfg bc hb Any k
  have h4 := executeLadder_of cfg bc hb
  unfold executeWithRetry
  simp only [hb]
  mvcgen [h0, h1, h2, h3, h4]
  all_goals (try subst_vars) <;> (try intros)
  all_goals first
    | glue
    | (simp_all; done)
    | (apply good_outcome <;> first | assumption | (simp_all; done))
    | skip

/-- the `except` ladder of `_execute_without_retry`: it returns an outcome (`inr`) or re-raises -/
theorem noRetryLadder_of (b : Bool) (e : Exn) :
    ⦃fun w => ⌜OF (OpenL Any) w⌝⦄ noRetryLadder cfg b e ⦃outPost cfg⦄ := by
  have h1 := recordCancel_of cfg bc hb Any
  have h3 := fun k => recordFailure_of cfg bc hb Any k
  have h4 := fun rec => noRetryEndHook_of cfg (ClosedL rec Any)
  have h5 := fun rec => policyOutcome_of (ClosedL rec Any)
  mvcgen [noRetryLadder, h1, h3, h4, h5]
  all_goals (try subst_vars) <;> (try intros)
  all_goals first
    | glue
    | (simp_all; done)
    | (apply good_outcome <;> first | assumption | (simp_all; done))
    | skip

/-- `_execute_without_retry` -/
theorem executeWithoutRetry_of :
    ⦃fun w => ⌜OF (OpenL Any) w⌝⦄ executeWithoutRetry cfg ⦃outPost cfg⦄ := by
  have h0 := noRetryStartHook_of cfg (OpenL Any)
  have h1 := invokeOp_of
  have h2 := recordSuccess_of cfg bc hb Any
  have h3 := noRetryLadder_of cfg bc hb
  have h4 := fun rec => noRetryEndHook_of cfg (ClosedL rec Any)
  have h5 := fun rec => policyOutcome_of (ClosedL rec Any)
  mvcgen [executeWithoutRetry, h0, h1, h2, h3, h4, h5]
  all_goals (try subst_vars) <;> (try intros)
  all_goals first
    | glue
    | (simp_all; done)
    | (apply good_outcome <;> first | assumption | (simp_all; done))
    | skip

theorem executeAdmitted2_of :
    ⦃fun w => ⌜OF (OpenL Any) w⌝⦄ executeAdmitted2 cfg ⦃outPost cfg⦄ := by
  have h0 := checkAbortNoRetry_of cfg bc hb
  have h1 := executeWithRetry_of cfg bc hb
  have h2 := executeWithoutRetry_of cfg bc hb
  have h5 := policyOutcome_of (ClosedL .breakerCancel Any)
  mvcgen [executeAdmitted2, h0, h1, h2, h5]
  all_goals (try subst_vars) <;> (try intros)
  all_goals first
    | glue
    | (simp_all; done)
    | (apply good_outcome <;> first | assumption | (simp_all; done))
    | (simp only [↓reduceIte] at *; glue)
    | skip

theorem executeAdmitted_adm (b0 : Breaker.St) (now0 : Nat) (ha : decision bc b0 now0 = true) :
    ⦃fun w => ⌜w.trace = [] ∧ w.breaker = b0 ∧ w.now = now0 ∧ w.xc.settled = false⌝⦄
    executeAdmitted cfg ⦃outPost cfg⦄ := by
  have h1 := breakerAllow_adm bc b0 now0 ha
  have h2 := emitBreakerEvent_of cfg (OpenL Any)
  have h3 := executeAdmitted2_of cfg bc hb
  unfold executeAdmitted
  simp only [hb]
  mvcgen [h1, h2, h3]
  all_goals (try subst_vars) <;> (try intros)
  all_goals first
    | glue
    | (simp_all; done)
    | skip

/-- `Policy.execute` / `AsyncPolicy.execute` when the breaker admits -/
theorem execute_adm (b0 : Breaker.St) (now0 : Nat) (ha : decision bc b0 now0 = true) :
    ⦃fun w => ⌜w.trace = [] ∧ w.breaker = b0 ∧ w.now = now0⌝⦄
    Policy.execute cfg
    ⦃post⟨fun o w => ⌜OF (FinalV cfg (.outcome o [])) w⌝,
          fun e w => ⌜OF (FinalV cfg (.raised e)) w⌝⟩⦄ := by
  have h0 := executeAdmitted_adm cfg bc hb b0 now0 ha
  have h1 := ensureSettled_of cfg bc hb
  mvcgen [Policy.execute, initCtx, withFinally, h0, h1]
  all_goals (try subst_vars) <;> (try intros)
  all_goals first
    | assumption
    | (simp_all +zetaDelta; done)
    | skip

end ladders


/-! ### the theorems -/

theorem finalV_outcome_tl {cfg : Cfg} {o : Outcome} {tl : List TimelineEv} {v : V}
    (h : FinalV cfg (.outcome o []) v) : FinalV cfg (.outcome o tl) v := h

/-- non-vacuity of `ha`: a CLOSED breaker, an OPEN one after its timeout, a free HALF_OPEN one -/
example : decision Breaker.exCfg Breaker.St.init 0 = true ∧
    decision Breaker.exCfg (Breaker.St.openedAtTime 7) 12 = true ∧
    decision Breaker.exCfg { state := .halfOpen, probe := false } 0 = true := by decide

/-- What the policy entry points establish when the breaker admits the call (in the stated
    environment): exactly one record, after the admission, of the kind the result dictates. -/
theorem entry_admitted (cfg : Cfg) (bc : Breaker.Cfg) (hb : cfg.breaker = some bc) (e : Entry)
    (he : e.isPolicy = true) (w : World) (ha : decision bc w.breaker w.now = true) :
    OF (FinalV cfg (runEntry cfg e w).1) (runEntry cfg e w).2 := by
  cases e with
  | call => cases he
  | execute => cases he
  | pcall =>
    have := adequacy (call_adm cfg bc hb w.breaker w.now ha) (startWorld w) ⟨rfl, rfl, rfl⟩
    simp only [runEntry, startWorld] at this ⊢
    split at this <;> rename_i heq <;> simp only [heq, toRes] <;> exact this
  | pexecute =>
    have := adequacy (execute_adm cfg bc hb w.breaker w.now ha) (startWorld w) ⟨rfl, rfl, rfl⟩
    simp only [runEntry, startWorld] at this ⊢
    split at this <;> rename_i heq <;> simp only [heq, toResO]
    · exact fun hf => finalV_outcome_tl (this hf)
    · exact this

/--
**C09.**  For every configuration, every entry point and every world (every answer stream, clock and
breaker state) in the property's stated environment — no attempt hook / abort predicate raising, no
metric / log / before-sleep hook raising a BaseException-only kind:

* a call the breaker admitted makes EXACTLY ONE `record_*`, after the admission (none before it) —
  however many attempts, retries and failed attempts happened inside the call;
* it is `record_success` if the call returned a value / an ok outcome; `record_cancel` if it was
  aborted (ABORTED outcome, AbortRetryError) or cancelled (CancelledError, KeyboardInterrupt,
  SystemExit, GeneratorExit) or ended with a nested CircuitOpenError; otherwise `record_failure(k)`
  with `k` the class of the final failure: `outcome.last_class`, `RetryExhaustedError.last_class`, the
  class the classifier gave the raised exception when asked for the breaker (`default_classifier`'s
  without a retry component), UNKNOWN when absent;
* a call the breaker did not admit makes no `record_*` at all.
-/
theorem one_record_hold (cfg : Cfg) (e : Entry) (w : World) :
    Mon.C09.ok cfg e (runEntry cfg e w).2.trace.reverse (runEntry cfg e w).1 = true := by
  unfold Mon.C09.ok
  cases he : e.isPolicy with
  | false => simp
  | true =>
    cases hb : cfg.breaker with
    | none => simp
    | some bc =>
      cases hf : fault (runEntry cfg e w).2.trace with
      | true =>
        have := fault_reverse (runEntry cfg e w).2.trace
        rw [hf] at this
        rcases Bool.or_eq_true_iff.mp this with h | h <;> simp [h]
      | false =>
        have := fault_reverse (runEntry cfg e w).2.trace
        rw [hf, Bool.or_eq_false_iff] at this
        simp only [Bool.true_and, Option.isSome_some, this.1, this.2, Bool.not_false, if_true,
          run_reverse]
        cases ha : decision bc w.breaker w.now with
        | false =>
          obtain ⟨hr, -⟩ := C07.entry_rejected cfg bc hb e he w ha
          have ha' : (Breaker.allow bc w.breaker w.now).1.1 = false := ha
          simp only [C07.allowX, ha'] at hr
          rw [hr.cur]
          rfl
        | true =>
          obtain ⟨h1, h2, rec, h3, h4⟩ := entry_admitted cfg bc hb e he w ha hf
          simp only [view] at h1 h2 h3 h4
          rw [← expected_eq] at h4
          simp only [h1, h2, h3, beq_self_eq_true, Bool.true_and]
          cases hx : expected cfg (cur (runEntry cfg e w).2.trace) (runEntry cfg e w).1 with
          | none => rfl
          | some x => simp [h4 x hx]

/-- …and therefore of every call in every script of calls and clock advances on ONE policy object
    sharing one breaker: each admitted call counts exactly once, whatever earlier calls did. -/
theorem one_record_hold_script (cfg : Cfg) : ∀ (steps : List Step) (w : World),
    ∀ l ∈ (runScript cfg steps w).1, Mon.C09.ok cfg l.entry l.trace l.res = true := by
  intro steps
  induction steps with
  | nil => intro w l hl; simp [runScript] at hl
  | cons st rest ih =>
    intro w l hl
    cases st with
    | advance d => exact ih _ l (by simpa [runScript] using hl)
    | run e =>
      simp only [runScript, List.mem_cons] at hl
      rcases hl with rfl | hl
      · exact one_record_hold cfg e w
      · exact ih _ l hl

end Redress.Props.C09
