/-
  C11 for a `Policy` WITHOUT a retry component — `Policy.execute` returns a faithful outcome.

  `Mon.C11NR.ok` (Redress/MonitorsNR.lean) is true of EVERY run of the model: every configuration, every
  entry point, every world.  `Mon.C11` is guarded by `hasLoop`, i.e. silent when `retry is None`; this file
  closes that gap for `execute()`.  In particular `attempts_eq_invocations_nr`: an operation that was invoked
  and raised `AbortRetryError` yields an ABORTED outcome with `attempts = 1` (the real code used to report 0).

  Framework (fold state `cur`, `Stable` predicates, leaf specifications, `HSrc` / `OSrc` provenance of
  exceptions) from `Props/C04NR.lean`.
-/
import Redress.Props.C04NR

open Std.Do

namespace Redress.Props.C11NR
open Redress Redress.Retry Redress.Policy Redress.Mon Redress.Mon.C04NR Redress.Mon.C11NR
open Redress.Props.C04NR

/-! ### what the argument looks at -/

/-- outside the monitor's scope: the breaker refused the call, or an attempt hook / the abort predicate
    itself raised (both visible in the log, and both stay true whatever is appended) -/
def Esc (t : List (Req × Ans)) : Prop := Mon.rejected t = true ∨ Mon.attemptHookFault t = true

theorem mono_Esc : Mono Esc := mono_rejected.or mono_hookFault

/-- all conjuncts of the monitor about an outcome -/
def OutV (o : Outcome) (t : List (Req × Ans)) : Prop :=
  Esc t ∨ ((cur t).ops ≤ 1 ∧ attemptsV (cur t) o = true ∧ okV (cur t) o = true ∧
    failureV (cur t) o = true ∧ constV o = true)

/-- all conjuncts of the monitor about a propagating exception -/
def RaiseV (e : Exn) (t : List (Req × Ans)) : Prop :=
  Esc t ∨ ((cur t).ops ≤ 1 ∧ e.isException = false ∧
    ((cur t).opExc = some e ∨ Mon.raisedBy isObsHook t e = true ∨ e = .stuck))

/-- the verdict on a result, unless the run is outside the monitor's scope -/
def G (r : Res) (t : List (Req × Ans)) : Prop :=
  match r with
  | .ret _ => Esc t
  | .raised e => RaiseV e t
  | .outcome o _ => OutV o t

theorem stable_OutV (o : Outcome) : Stable (OutV o) :=
  mono_Esc.stable.or (stable_cur (fun s => s.ops ≤ 1 ∧ attemptsV s o = true ∧ okV s o = true ∧
    failureV s o = true ∧ constV o = true))

theorem stable_RaiseV (e : Exn) : Stable (RaiseV e) :=
  mono_Esc.stable.or ((stable_cur (fun s => s.ops ≤ 1)).and ((Mono.const _).stable.and
    ((stable_cur (fun s => s.opExc = some e)).or ((mono_raisedBy _ _).stable.or (Mono.const _).stable))))

theorem stable_G (r : Res) : Stable (G r) := by
  cases r with
  | ret v => exact mono_Esc.stable
  | raised e => exact stable_RaiseV e
  | outcome o tl => exact stable_OutV o

/-- what the `except` ladder of `_execute_without_retry` knows about the exception it caught: the run is
    out of scope, or the operation was invoked (`invoked = True`) and raised it, or it is the model's `stuck` -/
structure LadPre (b : Bool) (e : Exn) (t : List (Req × Ans)) : Prop where
  ops : (cur t).ops ≤ 1
  src : Esc t ∨ (b = true ∧ ExcSt e (cur t)) ∨ e = .stuck

theorem stable_LadPre (b : Bool) (e : Exn) : Stable (LadPre b e) := by
  intro x t hx h
  have hc : cur (x :: t) = cur t := by simp [step_inert _ x hx]
  exact ⟨by rw [hc]; exact h.ops, by rw [hc]; exact h.src.imp (mono_Esc x t) id⟩

/-! ### the outcome object -/

/-- `_build_policy_outcome(...)` -/
def mkO (ok : Bool) (value : Option Nat) (stop : Option StopReason) (attempts : Nat)
    (lc : Option EClass) (le : Option String) (cause : Option Cause) (el : Nat) : Outcome :=
  { ok, value := if ok then value else none, stop, attempts, lastClass := lc, lastExc := le,
    lastResult := none, cause, elapsed := el, nextSleep := none }

/-- `o` was built from these arguments (the elapsed time is not looked at) -/
def IsO (o : Outcome) (ok : Bool) (value : Option Nat) (stop : Option StopReason) (attempts : Nat)
    (lc : Option EClass) (le : Option String) (cause : Option Cause) : Prop :=
  ∃ el, o = mkO ok value stop attempts lc le cause el

theorem policyOutcome_o (P : List (Req × Ans) → Prop) (ok : Bool) (value : Option Nat)
    (stop : Option StopReason) (attempts : Nat) (lc : Option EClass) (le : Option String)
    (cause : Option Cause) :
    ⦃fun w => ⌜P w.trace⌝⦄ policyOutcome ok value stop attempts lc le cause
    ⦃post⟨fun o w => ⌜P w.trace ∧ IsO o ok value stop attempts lc le cause⌝, fun _ _ => ⌜False⌝⟩⦄ := by
  mvcgen [policyOutcome, xElapsed]
  rename_i h
  exact ⟨h, _, rfl⟩

/-! ### pure facts: each way `execute()` ends satisfies the monitor's conjuncts -/

theorem isAbort_isException {e : Exn} (h : e.isAbort = true) : e.isException = true := by
  cases e <;> simp_all [Exn.isAbort, Exn.isException]

theorem isKiSe_not_exception {e : Exn} (h : e.isKiSe = true) : e.isException = false := by
  cases e <;> simp_all [Exn.isKiSe, Exn.isException]

theorem async_cancelled {b : Bool} {e : Exn} (h : (b && decide (e = .cancelled)) = true) :
    e.isException = false := by
  simp only [Bool.and_eq_true, decide_eq_true_eq] at h
  rw [h.2]; rfl

theorem HSrc.esc {e : Exn} {t : List (Req × Ans)} (h : HSrc e t) : e = .stuck ∨ Esc t :=
  h.hookFault.imp id Or.inr

/-- the pre-flight abort: ABORTED, zero attempts -/
theorem OutV.preflight {b : Bool} {o : Outcome} {t : List (Req × Ans)}
    (h : Is (if b = true then stAbort else {}) t) (hb : b = true)
    (ho : IsO o false none (some .aborted) 0 none none none) : OutV o t := by
  obtain ⟨el, rfl⟩ := ho
  subst hb
  simp only [if_true] at h
  refine Or.inr ?_
  rw [h]
  simp [stAbort, mkO, attemptsV, okV, failureV, constV, abortedForm]

/-- the invocation returned `v`: ok, one attempt, that value -/
theorem OutV.success {v : Nat} {o : Outcome} {t : List (Req × Ans)} (h : Is (stVal v) t)
    (ho : IsO o true (some v) none 1 none none none) : OutV o t := by
  obtain ⟨el, rfl⟩ := ho
  refine Or.inr ?_
  rw [h]
  simp [stVal, mkO, attemptsV, okV, failureV, constV]

/-- the breaker refused: out of scope -/
theorem OutV.rejected {b : Bool} {o : Outcome} {t : List (Req × Ans)} (h : IsB b t) (hb : ¬ b = true) :
    OutV o t :=
  Or.inl (Or.inl (h.rej (by simpa using hb)))

/-- the `AbortRetryError` arm: ABORTED, and `attempts` says whether the operation had been invoked -/
theorem OutV.abort {b : Bool} {e : Exn} {o : Outcome} {t : List (Req × Ans)} (h : LadPre b e t)
    (ha : e.isAbort = true)
    (ho : IsO o false none (some .aborted) (if b = true then 1 else 0) none none none) : OutV o t := by
  obtain ⟨el, rfl⟩ := ho
  obtain ⟨h1, h2⟩ := h
  rcases h2 with h2 | ⟨hb, h2⟩ | h2
  · exact Or.inl h2
  · subst hb
    refine Or.inr ⟨h1, ?_⟩
    obtain ⟨g1, g2, g3, g4⟩ := h2
    rcases g4 with g4 | ⟨g4, _⟩
    · simp [mkO, attemptsV, okV, failureV, constV, abortedForm, g1, g2, g4, ha, isAbort_isException ha]
    · subst g4; cases ha
  · subst h2; cases ha

/-- the `Exception` arm: no stop reason, the failure fields describe the operation's exception -/
theorem OutV.exc {b : Bool} {e : Exn} {k : EClass} {o : Outcome} {t : List (Req × Ans)} (h : LadPre b e t)
    (hk : k = defaultClass e) (ha : ¬ e.isAbort = true) (hx : e.isException = true)
    (ho : IsO o false none none 1 (some k) (some e.ref) (some .exception)) : OutV o t := by
  obtain ⟨el, rfl⟩ := ho
  subst hk
  obtain ⟨h1, h2⟩ := h
  rcases h2 with h2 | ⟨hb, h2⟩ | h2
  · exact Or.inl h2
  · refine Or.inr ⟨h1, ?_⟩
    obtain ⟨g1, g2, g3, g4⟩ := h2
    rcases g4 with g4 | ⟨g4, _⟩
    · simp [mkO, attemptsV, okV, failureV, constV, exceptionForm, g1, g2, g4, ha, hx]
    · subst g4; cases hx
  · subst h2; cases hx

/-- an error of an attempt hook: `stuck`, or the run is out of scope -/
theorem RaiseV.hsrc {e : Exn} {t : List (Req × Ans)} (h1 : (cur t).ops ≤ 1) (hs : HSrc e t) : RaiseV e t := by
  rcases HSrc.esc hs with h | h
  · subst h; exact Or.inr ⟨h1, rfl, Or.inr (Or.inr rfl)⟩
  · exact Or.inl h

/-- an error of a metric / log hook that was not swallowed: not an `Exception` -/
theorem RaiseV.osrc {e : Exn} {t : List (Req × Ans)} (h1 : (cur t).ops ≤ 1) (hs : OSrc e t) : RaiseV e t :=
  Or.inr ⟨h1, hs.1, Or.inr (hs.2.elim Or.inr Or.inl)⟩

theorem RaiseV.init_hsrc {e : Exn} {t : List (Req × Ans)} (h : Is {} t) (hs : HSrc e t) : RaiseV e t :=
  RaiseV.hsrc (by rw [h]; decide) hs

theorem RaiseV.init_osrc {e : Exn} {t : List (Req × Ans)} (h : Is {} t) (hs : OSrc e t) : RaiseV e t :=
  RaiseV.osrc (by rw [h]; decide) hs

theorem RaiseV.b_osrc {b : Bool} {e : Exn} {t : List (Req × Ans)} (h : IsB b t) (hs : OSrc e t) : RaiseV e t :=
  RaiseV.init_osrc h.1 hs

theorem RaiseV.val_hsrc {v : Nat} {e : Exn} {t : List (Req × Ans)} (h : Is (stVal v) t) (hs : HSrc e t) :
    RaiseV e t :=
  RaiseV.hsrc (by rw [h]; simp [stVal]) hs

theorem RaiseV.val_osrc {v : Nat} {e : Exn} {t : List (Req × Ans)} (h : Is (stVal v) t) (hs : OSrc e t) :
    RaiseV e t :=
  RaiseV.osrc (by rw [h]; simp [stVal]) hs

theorem RaiseV.lad_hsrc {b : Bool} {e e' : Exn} {t : List (Req × Ans)} (h : LadPre b e t) (hs : HSrc e' t) :
    RaiseV e' t :=
  RaiseV.hsrc h.1 hs

theorem RaiseV.lad_osrc {b : Bool} {e e' : Exn} {t : List (Req × Ans)} (h : LadPre b e t) (hs : OSrc e' t) :
    RaiseV e' t :=
  RaiseV.osrc h.1 hs

/-- the ladder re-raises what it caught only if that is not an `Exception` -/
theorem RaiseV.rethrow {b : Bool} {e : Exn} {t : List (Req × Ans)} (h : LadPre b e t)
    (hx : e.isException = false) : RaiseV e t := by
  obtain ⟨h1, h2⟩ := h
  rcases h2 with h2 | ⟨_, h2⟩ | h2
  · exact Or.inl h2
  · refine Or.inr ⟨h1, hx, ?_⟩
    rcases h2.opExc with g | ⟨g, _⟩
    · exact Or.inl g
    · exact Or.inr (Or.inr g)
  · exact Or.inr ⟨h1, hx, Or.inr (Or.inr h2)⟩

theorem LadPre.of_start {e : Exn} {t : List (Req × Ans)} (h : Is {} t) (hs : HSrc e t) : LadPre false e t := by
  refine ⟨by rw [h]; decide, ?_⟩
  rcases HSrc.esc hs with g | g
  · exact Or.inr (Or.inr g)
  · exact Or.inl g

theorem LadPre.of_op {e : Exn} {t : List (Req × Ans)} (h : ExcSt e (cur t)) : LadPre true e t :=
  ⟨by rw [h.ops]; decide, Or.inr (Or.inl ⟨rfl, h⟩)⟩

/-- close the verification conditions of the structural procedures -/
macro "x_close" : tactic => `(tactic| all_goals (
  (try subst_vars) <;> (try intros) <;> (try split_conjs) <;>
  first
    | assumption
    | exact OutV.preflight (by assumption) (by assumption) (by assumption)
    | exact OutV.preflight (by assumption) rfl (by assumption)
    | exact OutV.success (by assumption) (by assumption)
    | exact OutV.rejected (by assumption) (by assumption)
    | exact OutV.abort (by assumption) (by assumption) (by assumption)
    | exact OutV.exc (by assumption) rfl (by assumption) (by assumption) (by assumption)
    | exact RaiseV.init_hsrc (by assumption) (by assumption)
    | exact RaiseV.init_osrc (by assumption) (by assumption)
    | exact RaiseV.b_osrc (by assumption) (by assumption)
    | exact RaiseV.val_hsrc (by assumption) (by assumption)
    | exact RaiseV.val_osrc (by assumption) (by assumption)
    | exact RaiseV.lad_hsrc (by assumption) (by assumption)
    | exact RaiseV.lad_osrc (by assumption) (by assumption)
    | exact RaiseV.rethrow (by assumption) (isKiSe_not_exception (by assumption))
    | exact RaiseV.rethrow (by assumption) (async_cancelled (by assumption))
    | exact RaiseV.rethrow (by assumption) (Bool.eq_false_iff.mpr (by assumption))
    | exact LadPre.of_start (by assumption) (by assumption)
    | exact LadPre.of_op (by assumption)
    | (simp_all +zetaDelta; done)
    | skip))

section execute
variable (cfg : Cfg)

/-- the `except` ladder of `_execute_without_retry`: an outcome for `Exception`s (ABORTED for abort kinds,
    with `attempts` telling whether the operation had been invoked), everything else re-raised -/
theorem noRetryLadder_st (b : Bool) (e : Exn) :
    ⦃fun w => ⌜LadPre b e w.trace⌝⦄ noRetryLadder cfg b e
    ⦃post⟨fun o w => ⌜OutV o w.trace⌝, fun e' w => ⌜RaiseV e' w.trace⌝⟩⦄ := by
  have h1 := recordCancel_st cfg (LadPre b e) (stable_LadPre b e)
  have h2 := recordFailure_st cfg (LadPre b e) (stable_LadPre b e)
  have h3 := noRetryEndHook_st cfg (LadPre b e) (stable_LadPre b e)
  have h4 := policyOutcome_o (LadPre b e)
  mvcgen [noRetryLadder, h1, h2, h3, h4]
  x_close

/-- `_execute_without_retry`: the start hook, then the (single) invocation, each under the `except` ladder -/
theorem executeWithoutRetry_st :
    ⦃fun w => ⌜Is {} w.trace⌝⦄ executeWithoutRetry cfg
    ⦃post⟨fun o w => ⌜OutV o w.trace⌝, fun e w => ⌜RaiseV e w.trace⌝⟩⦄ := by
  have h0 := noRetryStartHook_st cfg (Is {}) (stable_Is _)
  have h1 := invokeOp_st
  have h2 := noRetryLadder_st cfg
  have h3 := fun v => recordSuccess_st cfg (Is (stVal v)) (stable_Is _)
  have h4 := fun v => noRetryEndHook_st cfg (Is (stVal v)) (stable_Is _)
  have h5 := fun v => policyOutcome_o (Is (stVal v))
  mvcgen [executeWithoutRetry, h0, h1, h2, h3, h4, h5]
  x_close

/-- after the admission: the pre-flight abort poll, then the single attempt -/
theorem executeAdmitted2_st (hret : cfg.hasRetry = false) :
    ⦃fun w => ⌜Is {} w.trace⌝⦄ executeAdmitted2 cfg
    ⦃post⟨fun o w => ⌜OutV o w.trace⌝, fun e w => ⌜RaiseV e w.trace⌝⟩⦄ := by
  have h0 := checkAbortNoRetry_st cfg
  have h1 := executeWithoutRetry_st cfg
  have h2 := fun b => policyOutcome_o (Is (if b = true then stAbort else {}))
  unfold executeAdmitted2
  simp only [hret, Bool.false_eq_true, if_false]
  mvcgen [h0, h1, h2]
  x_close

theorem executeAdmitted_st (hret : cfg.hasRetry = false) :
    ⦃fun w => ⌜Is {} w.trace⌝⦄ executeAdmitted cfg
    ⦃post⟨fun o w => ⌜OutV o w.trace⌝, fun e w => ⌜RaiseV e w.trace⌝⟩⦄ := by
  have h0 := breakerAllow_b
  have h1 := fun b => emitBreakerEvent_st cfg (IsB b) (stable_IsB b)
  have h2 := executeAdmitted2_st cfg hret
  have h3 := fun b => policyOutcome_o (IsB b)
  mvcgen [executeAdmitted, h0, h1, h2, h3]
  x_close
  all_goals first
    | exact IsB.is (by assumption)
    | skip

/-- `Policy.execute` / `AsyncPolicy.execute` without a retry component -/
theorem execute_st (hret : cfg.hasRetry = false) :
    ⦃fun w => ⌜Is {} w.trace⌝⦄ Policy.execute cfg
    ⦃post⟨fun o w => ⌜G (.outcome o []) w.trace⌝, fun e w => ⌜G (.raised e) w.trace⌝⟩⦄ := by
  have h0 := initCtx_st (Is {})
  have h1 := executeAdmitted_st cfg hret
  have h2 := fun r => ensureSettled_st cfg (G r) (stable_G r)
  mvcgen [Policy.execute, withFinally, h0, h1, h2]
  x_close

end execute

/-! ### the theorems -/

/-- from the invariant to the monitor -/
theorem ok_of_G (cfg : Cfg) (e : Entry) (t : List (Req × Ans)) (r : Res) (h : G r t) :
    Mon.C11NR.ok cfg e t.reverse r = true := by
  unfold Mon.C11NR.ok neverRetOk attemptsOk okOk failureOk constOk propagationOk
  cases happ : Mon.C11NR.applies cfg e t.reverse with
  | false => simp
  | true =>
    have hesc : ¬ Esc t := by
      simp only [Mon.C11NR.applies, rejected_reverse, hookFault_reverse, Bool.and_eq_true,
        Bool.not_eq_true'] at happ
      rintro (h | h)
      · rw [happ.1.2] at h; cases h
      · rw [happ.2] at h; cases h
    simp only [run_reverse, if_true]
    cases r with
    | ret v => exact (hesc h).elim
    | raised x =>
      rcases h with h | ⟨h1, h2, h3⟩
      · exact (hesc h).elim
      · simp only [h1, decide_true, Bool.true_and, Bool.and_true, propagationV, h2, Bool.not_false,
          raisedBy_reverse, Bool.or_eq_true, beq_iff_eq]
        rcases h3 with h3 | h3 | h3
        · exact Or.inl (Or.inl h3)
        · exact Or.inl (Or.inr h3)
        · exact Or.inr h3
    | outcome o tl =>
      rcases h with h | ⟨h1, h2, h3, h4, h5⟩
      · exact (hesc h).elim
      · simp [h1, h2, h3, h4, h5]

/--
**C11, no retry component.**  For every configuration, every entry point and every world (answer stream,
clock, breaker state), the run satisfies `Mon.C11NR.ok`: a `Policy.execute` of a policy whose `retry` is
`None`, not refused by the breaker and in which no attempt hook / abort predicate raised, never returns like
`call()`; invokes the operation at most once and reports `attempts` = the number of invocations; is `ok`
exactly when the invocation answered a value, `value` being that object; otherwise has no value and is
either ABORTED without failure fields (pre-flight abort poll True and no invocation, or the invocation
raised an abort kind) or has no stop reason, `cause = "exception"` and `last_exception` / `last_class`
describing the invocation's exception; never sets `next_sleep_s` / `last_result`; and lets only
BaseException-only kinds propagate (the invocation's own, or a metric / log hook's).
-/
theorem no_retry_execute_faithful (cfg : Cfg) (e : Entry) (w : World) :
    Mon.C11NR.ok cfg e (runEntry cfg e w).2.trace.reverse (runEntry cfg e w).1 = true := by
  have hna : ∀ t r, Mon.C11NR.applies cfg e t = false → Mon.C11NR.ok cfg e t r = true := by
    intro t r h
    simp [Mon.C11NR.ok, neverRetOk, attemptsOk, okOk, failureOk, constOk, propagationOk, h]
  cases e with
  | call => exact hna _ _ (by simp [Mon.C11NR.applies, Entry.isPolicy])
  | execute => exact hna _ _ (by simp [Mon.C11NR.applies, Entry.isPolicy])
  | pcall => exact hna _ _ (by simp [Mon.C11NR.applies, Entry.isExecute])
  | pexecute =>
    cases hret : cfg.hasRetry with
    | true => exact hna _ _ (by simp [Mon.C11NR.applies, hret])
    | false =>
      have := adequacy (execute_st cfg hret) (startWorld w) rfl
      simp only [runEntry, startWorld] at this ⊢
      split at this <;> rename_i heq <;> simp only [heq, toResO]
      · exact ok_of_G _ _ _ _ this
      · exact ok_of_G _ _ _ _ this

/-- …and therefore of every call in every script of calls and clock advances on one policy object. -/
theorem no_retry_execute_faithful_script (cfg : Cfg) : ∀ (steps : List Step) (w : World),
    ∀ l ∈ (runScript cfg steps w).1, Mon.C11NR.ok cfg l.entry l.trace l.res = true := by
  intro steps
  induction steps with
  | nil => intro w l hl; simp [runScript] at hl
  | cons st rest ih =>
    intro w l hl
    cases st with
    | advance d => exact ih _ l (by simpa [runScript] using hl)
    | run e =>
      simp only [runScript, List.mem_cons] at hl
      rcases hl with rfl | hl
      · exact no_retry_execute_faithful cfg e w
      · exact ih _ l hl

/-! ### the conjuncts, one by one (corollaries of `no_retry_execute_faithful`) -/

section conjuncts
variable (cfg : Cfg) (e : Entry) (w : World)

theorem conjuncts_nr :
    let t := (runEntry cfg e w).2.trace.reverse
    let r := (runEntry cfg e w).1
    neverRetOk cfg e t r = true ∧ attemptsOk cfg e t r = true ∧ okOk cfg e t r = true ∧
    failureOk cfg e t r = true ∧ constOk cfg e t r = true ∧ propagationOk cfg e t r = true := by
  have h := no_retry_execute_faithful cfg e w
  simp only [Mon.C11NR.ok, Bool.and_eq_true] at h
  exact ⟨h.1.1.1.1.1, h.1.1.1.1.2, h.1.1.1.2, h.1.1.2, h.1.2, h.2⟩

/-- `execute()` never returns like `call()` -/
theorem never_ret_nr (v : Nat)
    (happ : Mon.C11NR.applies cfg e (runEntry cfg e w).2.trace.reverse = true) :
    (runEntry cfg e w).1 ≠ .ret v := by
  intro hr
  have h := (conjuncts_nr cfg e w).1
  simp only [hr] at h
  simp [neverRetOk, happ] at h

/-- the operation is invoked at most once -/
theorem invoked_at_most_once_nr
    (happ : Mon.C11NR.applies cfg e (runEntry cfg e w).2.trace.reverse = true) :
    (run (runEntry cfg e w).2.trace.reverse).ops ≤ 1 := by
  have h := (conjuncts_nr cfg e w).2.1
  simp only [attemptsOk, happ, if_true, Bool.and_eq_true, decide_eq_true_eq] at h
  exact h.1

/-- **attempts_eq_invocations_nr.**  `attempts` of the outcome is the number of times the operation was
    invoked (0 or 1) — in particular 1 when the operation was invoked and raised `AbortRetryError`. -/
theorem attempts_eq_invocations_nr (o : Outcome) (tl : List TimelineEv)
    (happ : Mon.C11NR.applies cfg e (runEntry cfg e w).2.trace.reverse = true)
    (hr : (runEntry cfg e w).1 = .outcome o tl) :
    o.attempts = (run (runEntry cfg e w).2.trace.reverse).ops := by
  have h := (conjuncts_nr cfg e w).2.1
  simp only [hr] at h
  simp only [attemptsOk, happ, if_true, Bool.and_eq_true, attemptsV, beq_iff_eq] at h
  exact h.2

/-- **ok_iff_returned_nr.**  `ok` exactly when the invocation answered a value; `value` is then that very
    object and neither a stop reason nor a failure field is set. -/
theorem ok_iff_returned_nr (o : Outcome) (tl : List TimelineEv)
    (happ : Mon.C11NR.applies cfg e (runEntry cfg e w).2.trace.reverse = true)
    (hr : (runEntry cfg e w).1 = .outcome o tl) :
    let s := run (runEntry cfg e w).2.trace.reverse
    (o.ok = s.opVal.isSome) ∧
    (o.ok = true → o.value = s.opVal ∧ o.stop = none ∧ o.cause = none ∧ o.lastClass = none ∧
      o.lastExc = none) := by
  have h := (conjuncts_nr cfg e w).2.2.1
  simp only [hr] at h
  simp only [okOk, happ, if_true, okV, Bool.and_eq_true, beq_iff_eq, Bool.or_eq_true, Bool.not_eq_true',
    Option.isNone_iff_eq_none] at h
  refine ⟨h.1, fun hok => ?_⟩
  rcases h.2 with h2 | h2
  · rw [hok] at h2; cases h2
  · exact ⟨h2.1.1.1.1, h2.1.1.1.2, h2.1.1.2, h2.1.2, h2.2⟩

/-- **failure_fields_nr.**  A not-ok outcome has no value, and:
    * if the invocation raised `x` — then `x` is an `Exception` — it is ABORTED without failure fields when
      `x` is an abort kind, and otherwise has no stop reason, `cause = "exception"`, `last_exception` is `x`
      and `last_class` is `default_classifier(x)`;
    * otherwise the operation was never invoked, the pre-flight abort poll answered True, and the outcome is
      ABORTED without failure fields. -/
theorem failure_fields_nr (o : Outcome) (tl : List TimelineEv)
    (happ : Mon.C11NR.applies cfg e (runEntry cfg e w).2.trace.reverse = true)
    (hr : (runEntry cfg e w).1 = .outcome o tl) (hok : o.ok = false) :
    let s := run (runEntry cfg e w).2.trace.reverse
    o.value = none ∧
    (∀ x, s.opExc = some x → x.isException = true ∧
      (x.isAbort = true → abortedForm o = true) ∧
      (x.isAbort = false → o.stop = none ∧ o.cause = some .exception ∧ o.lastExc = some x.ref ∧
        o.lastClass = some (Policy.defaultClass x))) ∧
    (s.opExc = none → s.ops = 0 ∧ s.preAbort = true ∧ abortedForm o = true) := by
  have h := (conjuncts_nr cfg e w).2.2.2.1
  simp only [hr] at h
  simp only [failureOk, happ, if_true, failureV, hok, Bool.false_or, Bool.and_eq_true,
    Option.isNone_iff_eq_none] at h
  refine ⟨h.1, ?_, ?_⟩
  · intro x hx
    have h2 := h.2
    rw [hx] at h2
    simp only [Bool.and_eq_true] at h2
    refine ⟨h2.1, fun ha => ?_, fun ha => ?_⟩
    · simpa [ha] using h2.2
    · have := h2.2
      simp only [ha, Bool.false_eq_true, if_false, exceptionForm, Bool.and_eq_true, beq_iff_eq,
        Option.isNone_iff_eq_none] at this
      exact ⟨this.1.1.1, this.1.1.2, this.1.2, this.2⟩
  · intro hx
    have h2 := h.2
    rw [hx] at h2
    simp only [Bool.and_eq_true, beq_iff_eq] at h2
    exact ⟨h2.1.1, h2.1.2, h2.2⟩

/-- `next_sleep_s` and `last_result` are never set -/
theorem no_sleep_no_result_nr (o : Outcome) (tl : List TimelineEv)
    (happ : Mon.C11NR.applies cfg e (runEntry cfg e w).2.trace.reverse = true)
    (hr : (runEntry cfg e w).1 = .outcome o tl) : o.nextSleep = none ∧ o.lastResult = none := by
  have h := (conjuncts_nr cfg e w).2.2.2.2.1
  simp only [hr] at h
  simpa [constOk, happ, constV] using h

/-- **propagation_nr.**  What comes out of `execute()` as an exception is not an `Exception`, and it is the
    exception the invocation raised, or one a metric / log hook raised, or the model's `stuck`. -/
theorem propagation_nr (x : Exn)
    (happ : Mon.C11NR.applies cfg e (runEntry cfg e w).2.trace.reverse = true)
    (hr : (runEntry cfg e w).1 = .raised x) :
    let t := (runEntry cfg e w).2.trace.reverse
    x.isException = false ∧
    ((run t).opExc = some x ∨ Mon.raisedBy isObsHook t x = true ∨ x = .stuck) := by
  have h := (conjuncts_nr cfg e w).2.2.2.2.2
  simp only [hr] at h
  simp only [propagationOk, happ, if_true, propagationV, Bool.and_eq_true, Bool.not_eq_true',
    Bool.or_eq_true, beq_iff_eq] at h
  refine ⟨h.1, ?_⟩
  rcases h.2 with (h2 | h2) | h2
  · exact Or.inl h2
  · exact Or.inr (Or.inl h2)
  · exact Or.inr (Or.inr h2)

end conjuncts

/-! Non-vacuity and teeth, at the level of the monitor alone (runs of the model are exercised through the
    compiled driver, never by kernel reduction). -/

/-- the operation was invoked and raised `AbortRetryError`: ABORTED with `attempts = 1` is accepted … -/
example : Mon.C11NR.ok { hasRetry := false } .pexecute
    [(.op 1, .raise (.abort 1) 0)]
    (.outcome { ok := false, value := none, stop := some .aborted, attempts := 1, lastClass := none,
                lastExc := none, lastResult := none, cause := none, elapsed := 0, nextSleep := none } []) = true := by
  decide

/-- … `attempts = 0` (what the implementation used to report) is not … -/
example : Mon.C11NR.ok { hasRetry := false } .pexecute
    [(.op 1, .raise (.abort 1) 0)]
    (.outcome { ok := false, value := none, stop := some .aborted, attempts := 0, lastClass := none,
                lastExc := none, lastResult := none, cause := none, elapsed := 0, nextSleep := none } []) = false := by
  decide

/-- … a pre-flight abort has `attempts = 0` … -/
example : Mon.C11NR.ok { hasRetry := false, abortIf := true } .pexecute
    [(.abortIf, .bool true 0)]
    (.outcome { ok := false, value := none, stop := some .aborted, attempts := 0, lastClass := none,
                lastExc := none, lastResult := none, cause := none, elapsed := 0, nextSleep := none } []) = true := by
  decide

/-- … an ordinary failure is described by its own exception and `default_classifier`'s class … -/
example : Mon.C11NR.ok { hasRetry := false } .pexecute
    [(.op 1, .raise (.ordinary 7 .transient) 0)]
    (.outcome { ok := false, value := none, stop := none, attempts := 1, lastClass := some .transient,
                lastExc := some "o7", lastResult := none, cause := some .exception, elapsed := 0,
                nextSleep := none } []) = true := by
  decide

/-- … not by another exception … -/
example : Mon.C11NR.ok { hasRetry := false } .pexecute
    [(.op 1, .raise (.ordinary 7 .transient) 0)]
    (.outcome { ok := false, value := none, stop := none, attempts := 1, lastClass := some .transient,
                lastExc := some "o8", lastResult := none, cause := some .exception, elapsed := 0,
                nextSleep := none } []) = false := by
  decide

/-- … and an `Exception` never propagates. -/
example : Mon.C11NR.ok { hasRetry := false } .pexecute
    [(.op 1, .raise (.ordinary 7 .transient) 0)] (.raised (.ordinary 7 .transient)) = false := by
  decide

end Redress.Props.C11NR
