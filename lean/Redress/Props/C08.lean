/-
  C08 — Every admitted call settles the breaker; no half-open probe slot is leaked.

  `Mon.C08.ok` (the monitor the driver also evaluates on implementation logs) is true of EVERY run of
  the model: every configuration, every entry point, every world — i.e. every answer stream (any
  exception kind raised by any callback at any invocation, which subsumes "thrown into the coroutine
  at any suspension point"), any clock, any state of the embedded breaker.

  The argument barely looks inside the retry loop: `runCall` / `runExecute` never touch the policy's
  `ExecutionContext` nor the breaker (`runCall_ext`, `runExecute_ext` in Lemmas/Footprint.lean), every
  `record_*` sets `settled`, and the `finally: ensure_settled(ctx)` records a cancel when an admitted
  call is about to end unsettled.
-/
import Redress.Lemmas.Footprint
import Redress.Monitors
import Redress.Props.C07Breaker

open Std.Do

namespace Redress.Props.C08
open Redress Redress.Retry Redress.Policy Redress.Mon Redress.Mon.C09

/-- the monitor state as a function of the world's (newest-first) log -/
def cur (tr : List (Req × Ans)) : St := tr.foldr (fun x s => step s x) {}

@[simp] theorem cur_cons (x : Req × Ans) (t : List (Req × Ans)) : cur (x :: t) = step (cur t) x := rfl

theorem run_reverse (t : List (Req × Ans)) : run t.reverse = cur t := by
  simp [run, cur, List.foldl_reverse]

/-- requests of the retry loop move neither the admission nor the records -/
theorem step_loop (s : St) (x : Req × Ans) (h : loopK x.1.kind = true) :
    (step s x).admitted = s.admitted ∧ (step s x).admitState = s.admitState ∧
    (step s x).records = s.records ∧ (step s x).preRecords = s.preRecords := by
  obtain ⟨r, a⟩ := x
  cases r <;> simp_all [loopK, Req.kind, step, count, noteClassifier, isRecord] <;>
    (repeat' split) <;> simp_all

theorem cur_append_loop (δ t : List (Req × Ans)) (h : ∀ x ∈ δ, loopK x.1.kind = true) :
    (cur (δ ++ t)).admitted = (cur t).admitted ∧ (cur (δ ++ t)).admitState = (cur t).admitState ∧
    (cur (δ ++ t)).records = (cur t).records ∧ (cur (δ ++ t)).preRecords = (cur t).preRecords := by
  induction δ with
  | nil => simp
  | cons x δ ih =>
    have hx := step_loop (cur (δ ++ t)) x (h x (by simp))
    have := ih (fun y hy => h y (by simp [hy]))
    simp only [List.cons_append, cur_cons]
    exact ⟨hx.1.trans this.1, hx.2.1.trans this.2.1, hx.2.2.1.trans this.2.2.1, hx.2.2.2.trans this.2.2.2⟩

/-- a half-open breaker whose probe slot is taken -/
def phantom (s : Breaker.St) : Prop := s.state = .halfOpen ∧ s.probe = true

theorem recordSuccess_free (s : Breaker.St) : ¬ phantom (Breaker.recordSuccess s).2 := by
  unfold phantom Breaker.recordSuccess
  cases h : s.state <;> simp [h, Breaker.clear]

theorem recordCancel_free (s : Breaker.St) : ¬ phantom (Breaker.recordCancel s) := by
  unfold phantom Breaker.recordCancel
  cases h : s.state <;> simp [h]

theorem recordFailure_free (c : Breaker.Cfg) (s : Breaker.St) (k : EClass) (now : Nat) :
    ¬ phantom (Breaker.recordFailure c s k now).2 := by
  unfold phantom Breaker.recordFailure
  cases h : s.state with
  | halfOpen => simp [Breaker.clear]
  | opened => simp [h]
  | closed =>
    simp only []
    split
    · split
      · simp [Breaker.clear]
      · rename_i hn
        have : (Breaker.noteFailure c s k now).2.state = .closed := by
          unfold Breaker.noteFailure
          cases c.classThreshold k with
          | none => simp [h]
          | some th => simp only []; split <;> simp [h]
        simp [this]
    · simp [h]


/-- What holds from the admission decision `a` on, whatever the call does:
    the monitor saw the decision; the execution context agrees with it; and once a `record_*` has
    been made (`settled`), it is in the monitor's list (if the call was admitted) and the breaker's
    probe slot is free.  (`F` = "no probe was outstanding when the call started": a rejection does not
    change that.) -/
structure Inv (a : Bool) (F : Prop) (w : World) : Prop where
  adm : (cur w.trace).admitted = some a
  xadm : w.xc.admitted = a
  recs : w.xc.settled = true → a = true → (cur w.trace).records ≠ []
  free : w.xc.settled = true → ¬ phantom w.breaker
  idle : a = false → F → ¬ phantom w.breaker

theorem Inv.ext {a : Bool} {F : Prop} {w w' : World} (h : Ext loopK w w') (hi : Inv a F w) : Inv a F w' := by
  obtain ⟨δ, e, k⟩ := h.trace
  have hc := cur_append_loop δ w.trace k
  have hx := h.xc
  have hb := h.breaker
  refine ⟨?_, ?_, ?_, ?_, ?_⟩
  · rw [e, hc.1]; exact hi.adm
  · rw [hx]; exact hi.xadm
  · rw [hx, e, hc.2.2.1]; exact hi.recs
  · rw [hx, hb]; exact hi.free
  · rw [hb]; exact hi.idle

/-- the step of the monitor on a `record_*` request -/
theorem step_record (s : St) (r : Req) (ans : Ans) (hr : isRecord r = true) :
    (step s (r, ans)).admitted = s.admitted ∧
    (step s (r, ans)).records = (if s.admitted == some true then s.records ++ [r] else s.records) := by
  cases r <;> simp_all [step, count, noteClassifier, isRecord] <;> (repeat' split) <;> simp_all

/-- a `record_*` keeps the invariant: it settles, is listed, and frees the probe slot -/
theorem Inv.record {a : Bool} {F : Prop} {w : World} (hi : Inv a F w) (r : Req) (ans : Ans) (hr : isRecord r = true)
    (st : Breaker.St) (hst : ¬ phantom st) :
    Inv a F { w with breaker := st, xc := { w.xc with settled := true }, trace := (r, ans) :: w.trace } := by
  have hs := step_record (cur w.trace) r ans hr
  refine ⟨?_, hi.xadm, ?_, fun _ => hst, fun _ _ => hst⟩
  · simp only [cur_cons]; rw [hs.1]; exact hi.adm
  · intro _ ha
    simp only [cur_cons]
    rw [hs.2, hi.adm, ha]
    simp

abbrev invPost (a : Bool) (F : Prop) : PostCond α (.except Exn (.arg World .pure)) :=
  post⟨fun _ w => ⌜Inv a F w⌝, fun _ w => ⌜Inv a F w⌝⟩

section leaves
variable (a : Bool) (F : Prop) (cfg : Cfg)

theorem emitBreakerEvent_i (ev : Option Event) (st : CState) (k : Option EClass) :
    ⦃fun w => ⌜Inv a F w⌝⦄ emitBreakerEvent cfg ev st k ⦃invPost a F⦄ :=
  inv_of_ext (Inv a F) (fun w0 => emitBreakerEvent_ext loopK w0 rfl rfl cfg ev st k) (fun _ _ => Inv.ext)

theorem noRetryStartHook_i : ⦃fun w => ⌜Inv a F w⌝⦄ noRetryStartHook cfg ⦃invPost a F⦄ :=
  inv_of_ext (Inv a F) (fun w0 => noRetryStartHook_ext loopK w0 rfl cfg) (fun _ _ => Inv.ext)

theorem noRetryEndHook_i (exc : Option Exn) (r : Option Nat) (d : AttemptDecision)
    (stop : Option StopReason) (cause : Option Cause) :
    ⦃fun w => ⌜Inv a F w⌝⦄ noRetryEndHook cfg exc r d stop cause ⦃invPost a F⦄ :=
  inv_of_ext (Inv a F) (fun w0 => noRetryEndHook_ext loopK w0 rfl cfg exc r d stop cause) (fun _ _ => Inv.ext)

theorem policyOutcome_i (ok : Bool) (value : Option Nat) (stop : Option StopReason) (attempts : Nat)
    (lc : Option EClass) (le : Option String) (cause : Option Cause) :
    ⦃fun w => ⌜Inv a F w⌝⦄ policyOutcome ok value stop attempts lc le cause ⦃invPost a F⦄ :=
  inv_of_ext (Inv a F) (fun w0 => policyOutcome_ext loopK w0 ok value stop attempts lc le cause) (fun _ _ => Inv.ext)

theorem classifyForBreaker_i (e : Exn) : ⦃fun w => ⌜Inv a F w⌝⦄ classifyForBreaker cfg e ⦃invPost a F⦄ :=
  inv_of_ext (Inv a F) (fun w0 => classifyForBreaker_ext loopK w0 rfl cfg e) (fun _ _ => Inv.ext)

theorem abortIf_i : ⦃fun w => ⌜Inv a F w⌝⦄ ask .abortIf ⦃invPost a F⦄ :=
  inv_of_ext (Inv a F) (fun w0 => abortIf_ext loopK w0 rfl) (fun _ _ => Inv.ext)

theorem invokeOp_i (n : Nat) : ⦃fun w => ⌜Inv a F w⌝⦄ invokeOp n ⦃invPost a F⦄ :=
  inv_of_ext (Inv a F) (fun w0 => invokeOp_ext w0 n) (fun _ _ => Inv.ext)

theorem runCall_i : ⦃fun w => ⌜Inv a F w⌝⦄ runCall cfg ⦃invPost a F⦄ :=
  inv_of_ext (Inv a F) (fun w0 => runCall_ext w0 cfg) (fun _ _ => Inv.ext)

theorem runExecute_i : ⦃fun w => ⌜Inv a F w⌝⦄ runExecute cfg ⦃invPost a F⦄ :=
  inv_of_ext (Inv a F) (fun w0 => runExecute_ext w0 cfg) (fun _ _ => Inv.ext)

end leaves

macro "inv_close" : tactic => `(tactic| all_goals (
  (try subst_vars) <;> (try intros) <;>
  first
    | assumption
    | (simp_all +zetaDelta; done)
    | (refine Inv.record (by assumption) _ _ rfl _ ?_ <;>
        first | exact recordSuccess_free _ | exact recordCancel_free _ | exact recordFailure_free _ _ _ _)
    | skip))

theorem recordSuccess_i (a : Bool) (F : Prop) (cfg : Cfg) :
    ⦃fun w => ⌜Inv a F w⌝⦄ Policy.recordSuccess cfg ⦃invPost a F⦄ := by
  have he := emitBreakerEvent_i a F cfg
  mvcgen [Policy.recordSuccess, he]
  inv_close

theorem recordCancel_i (a : Bool) (F : Prop) (cfg : Cfg) :
    ⦃fun w => ⌜Inv a F w⌝⦄ Policy.recordCancel cfg ⦃invPost a F⦄ := by
  mvcgen [Policy.recordCancel]
  inv_close

theorem recordFailure_i (a : Bool) (F : Prop) (cfg : Cfg) (k : EClass) :
    ⦃fun w => ⌜Inv a F w⌝⦄ Policy.recordFailure cfg k ⦃invPost a F⦄ := by
  have he := emitBreakerEvent_i a F cfg
  mvcgen [Policy.recordFailure, he]
  inv_close


/-- the admitted call has been settled -/
structure Done (a : Bool) (F : Prop) (w : World) : Prop where
  inv : Inv a F w
  settled : a = true → w.xc.settled = true

abbrev donePost (a : Bool) (F : Prop) : PostCond α (.except Exn (.arg World .pure)) :=
  post⟨fun _ w => ⌜Done a F w⌝, fun _ w => ⌜Done a F w⌝⟩

/-- `ensure_settled`, the `finally` of `call()` / `execute()` -/
theorem ensureSettled_spec (a : Bool) (F : Prop) (cfg : Cfg) (bc : Breaker.Cfg) (hb : cfg.breaker = some bc) :
    ⦃fun w => ⌜Inv a F w⌝⦄ ensureSettled cfg ⦃donePost a F⦄ := by
  mvcgen [ensureSettled, Policy.recordCancel]
  all_goals (try subst_vars) <;> (try intros)
  · simp_all
  · exact ⟨Inv.record (by assumption) _ _ rfl _ (recordCancel_free _), fun _ => rfl⟩
  · rename_i hi hn
    refine ⟨hi, fun ha => ?_⟩
    have := hi.xadm
    simp_all


/-! ### the policy wrappers -/

section wrappers
variable (a : Bool) (F : Prop) (cfg : Cfg)

theorem checkAbortNoRetry_i : ⦃fun w => ⌜Inv a F w⌝⦄ checkAbortNoRetry cfg ⦃invPost a F⦄ := by
  have h1 := abortIf_i a F
  have h2 := recordCancel_i a F cfg
  mvcgen [checkAbortNoRetry, h1, h2]
  inv_close

theorem handleAbortCall_i (e : Exn) : ⦃fun w => ⌜Inv a F w⌝⦄ handleAbortCall cfg e ⦃invPost a F⦄ := by
  have h1 := noRetryEndHook_i a F cfg
  have h2 := recordCancel_i a F cfg
  mvcgen [handleAbortCall, h1, h2]
  inv_close

theorem handleExhaustedCall_i (e : Exn) : ⦃fun w => ⌜Inv a F w⌝⦄ handleExhaustedCall cfg e ⦃invPost a F⦄ := by
  have h2 := recordFailure_i a F cfg
  mvcgen [handleExhaustedCall, h2]
  inv_close

theorem handleExceptionCall_i (e : Exn) (b : Bool) :
    ⦃fun w => ⌜Inv a F w⌝⦄ handleExceptionCall cfg e b ⦃invPost a F⦄ := by
  have h1 := noRetryEndHook_i a F cfg
  have h2 := recordFailure_i a F cfg
  have h3 := classifyForBreaker_i a F cfg
  mvcgen [handleExceptionCall, h1, h2, h3]
  inv_close

theorem callLadder_i (e : Exn) : ⦃fun w => ⌜Inv a F w⌝⦄ callLadder cfg e ⦃invPost a F⦄ := by
  have h1 := recordCancel_i a F cfg
  have h2 := handleAbortCall_i a F cfg
  have h3 := handleExhaustedCall_i a F cfg
  have h4 := handleExceptionCall_i a F cfg
  mvcgen [callLadder, h1, h2, h3, h4]
  inv_close

theorem callWithoutRetry_i : ⦃fun w => ⌜Inv a F w⌝⦄ callWithoutRetry cfg ⦃invPost a F⦄ := by
  have h1 := noRetryStartHook_i a F cfg
  have h2 := invokeOp_i a F
  have h3 := noRetryEndHook_i a F cfg
  mvcgen [callWithoutRetry, h1, h2, h3]
  inv_close

theorem executeLadder_i (e : Exn) : ⦃fun w => ⌜Inv a F w⌝⦄ executeLadder cfg e ⦃invPost a F⦄ := by
  have h1 := recordCancel_i a F cfg
  have h3 := handleExhaustedCall_i a F cfg
  have h4 := handleExceptionCall_i a F cfg
  mvcgen [executeLadder, h1, h3, h4]
  inv_close

theorem executeWithRetry_i : ⦃fun w => ⌜Inv a F w⌝⦄ executeWithRetry cfg ⦃invPost a F⦄ := by
  have h0 := runExecute_i a F cfg
  have h1 := recordCancel_i a F cfg
  have h2 := recordSuccess_i a F cfg
  have h3 := recordFailure_i a F cfg
  have h4 := executeLadder_i a F cfg
  mvcgen [executeWithRetry, h0, h1, h2, h3, h4]
  inv_close

theorem noRetryLadder_i (b : Bool) (e : Exn) : ⦃fun w => ⌜Inv a F w⌝⦄ noRetryLadder cfg b e ⦃invPost a F⦄ := by
  have h1 := recordCancel_i a F cfg
  have h3 := recordFailure_i a F cfg
  have h4 := noRetryEndHook_i a F cfg
  have h5 := policyOutcome_i a F
  mvcgen [noRetryLadder, h1, h3, h4, h5]
  inv_close

theorem executeWithoutRetry_i : ⦃fun w => ⌜Inv a F w⌝⦄ executeWithoutRetry cfg ⦃invPost a F⦄ := by
  have h0 := noRetryStartHook_i a F cfg
  have h1 := invokeOp_i a F
  have h2 := recordSuccess_i a F cfg
  have h3 := noRetryLadder_i a F cfg
  have h4 := noRetryEndHook_i a F cfg
  have h5 := policyOutcome_i a F
  mvcgen [executeWithoutRetry, h0, h1, h2, h3, h4, h5]
  inv_close

theorem executeAdmitted2_i : ⦃fun w => ⌜Inv a F w⌝⦄ executeAdmitted2 cfg ⦃invPost a F⦄ := by
  have h0 := checkAbortNoRetry_i a F cfg
  have h1 := executeWithRetry_i a F cfg
  have h2 := executeWithoutRetry_i a F cfg
  have h5 := policyOutcome_i a F
  mvcgen [executeAdmitted2, h0, h1, h2, h5]
  inv_close

end wrappers

/-- a rejected `allow()` leaves state and probe flag alone -/
theorem allow_reject_free (c : Breaker.Cfg) (s : Breaker.St) (now : Nat)
    (hrej : (Breaker.allow c s now).1.1 = false) (h : ¬ phantom s) : ¬ phantom (Breaker.allow c s now).2 := by
  have := Breaker.rejections_count_nothing c s now hrej
  unfold phantom at *
  rw [this.2.2.1, this.2.2.2.1]
  exact h

/-- the admission decision of a call started with breaker state `b0` at clock value `now0` -/
abbrev decision (bc : Breaker.Cfg) (b0 : Breaker.St) (now0 : Nat) : Bool := (Breaker.allow bc b0 now0).1.1

/-- `breaker.allow()`: from a fresh log and an unsettled context to the invariant -/
theorem breakerAllow_spec (bc : Breaker.Cfg) (b0 : Breaker.St) (now0 : Nat) :
    ⦃fun w => ⌜cur w.trace = {} ∧ w.breaker = b0 ∧ w.now = now0 ∧ w.xc.settled = false⌝⦄
    breakerAllow bc
    ⦃post⟨fun d w => ⌜d = (Breaker.allow bc b0 now0).1 ∧ Inv (decision bc b0 now0) (¬ phantom b0) w⌝,
          fun _ _ => ⌜False⌝⟩⦄ := by
  mvcgen [breakerAllow]
  rename_i h
  obtain ⟨h1, h2, h3, h4⟩ := h
  subst h2 h3
  refine ⟨rfl, ⟨?_, rfl, ?_, ?_, ?_⟩⟩
  · simp [cur_cons, h1, step, count, noteClassifier]
  · intro hs; simp_all
  · intro hs; simp_all
  · intro ha hf
    exact allow_reject_free bc _ _ ha hf

section entry
variable (cfg : Cfg) (bc : Breaker.Cfg) (hb : cfg.breaker = some bc) (b0 : Breaker.St) (now0 : Nat)
include hb

theorem checkBreaker_spec :
    ⦃fun w => ⌜cur w.trace = {} ∧ w.breaker = b0 ∧ w.now = now0 ∧ w.xc.settled = false⌝⦄
    checkBreaker cfg ⦃invPost (decision bc b0 now0) (¬ phantom b0)⦄ := by
  have h1 := breakerAllow_spec bc b0 now0
  have h2 := emitBreakerEvent_i (decision bc b0 now0) (¬ phantom b0) cfg
  unfold checkBreaker
  simp only [hb]
  mvcgen [h1, h2]
  inv_close

theorem callAdmitted_spec :
    ⦃fun w => ⌜cur w.trace = {} ∧ w.breaker = b0 ∧ w.now = now0 ∧ w.xc.settled = false⌝⦄
    callAdmitted cfg ⦃invPost (decision bc b0 now0) (¬ phantom b0)⦄ := by
  have h0 := checkBreaker_spec cfg bc hb b0 now0
  have h1 := checkAbortNoRetry_i (decision bc b0 now0) (¬ phantom b0) cfg
  have h2 := runCall_i (decision bc b0 now0) (¬ phantom b0) cfg
  have h3 := callWithoutRetry_i (decision bc b0 now0) (¬ phantom b0) cfg
  have h4 := recordSuccess_i (decision bc b0 now0) (¬ phantom b0) cfg
  have h5 := callLadder_i (decision bc b0 now0) (¬ phantom b0) cfg
  mvcgen [callAdmitted, h0, h1, h2, h3, h4, h5]
  inv_close

/-- `Policy.call` / `AsyncPolicy.call`, with or without a retry component -/
theorem call_spec :
    ⦃fun w => ⌜cur w.trace = {} ∧ w.breaker = b0 ∧ w.now = now0⌝⦄
    Policy.call cfg ⦃donePost (decision bc b0 now0) (¬ phantom b0)⦄ := by
  have h0 := callAdmitted_spec cfg bc hb b0 now0
  have h1 := ensureSettled_spec (decision bc b0 now0) (¬ phantom b0) cfg bc hb
  mvcgen [Policy.call, initCtx, withFinally, h0, h1]
  inv_close

theorem executeAdmitted_spec :
    ⦃fun w => ⌜cur w.trace = {} ∧ w.breaker = b0 ∧ w.now = now0 ∧ w.xc.settled = false⌝⦄
    executeAdmitted cfg ⦃invPost (decision bc b0 now0) (¬ phantom b0)⦄ := by
  have h1 := breakerAllow_spec bc b0 now0
  have h2 := emitBreakerEvent_i (decision bc b0 now0) (¬ phantom b0) cfg
  have h3 := executeAdmitted2_i (decision bc b0 now0) (¬ phantom b0) cfg
  have h4 := policyOutcome_i (decision bc b0 now0) (¬ phantom b0)
  unfold executeAdmitted
  simp only [hb]
  mvcgen [h1, h2, h3, h4]
  inv_close

/-- `Policy.execute` / `AsyncPolicy.execute`, with or without a retry component -/
theorem execute_spec :
    ⦃fun w => ⌜cur w.trace = {} ∧ w.breaker = b0 ∧ w.now = now0⌝⦄
    Policy.execute cfg ⦃donePost (decision bc b0 now0) (¬ phantom b0)⦄ := by
  have h0 := executeAdmitted_spec cfg bc hb b0 now0
  have h1 := ensureSettled_spec (decision bc b0 now0) (¬ phantom b0) cfg bc hb
  mvcgen [Policy.execute, initCtx, withFinally, h0, h1]
  inv_close

end entry

/-! ### the theorems -/

/-- the world `runEntry` starts a call from -/
def startWorld (w : World) : World := { w with trace := [], timeline := [], opCalls := 0 }

/-- What the policy entry points establish, as a statement about `runEntry`: the monitor saw the
    breaker's decision `a` for this call, and if it was an admission the call has settled. -/
theorem entry_done (cfg : Cfg) (bc : Breaker.Cfg) (hb : cfg.breaker = some bc) (e : Entry)
    (he : e.isPolicy = true) (w : World) :
    Done (decision bc w.breaker w.now) (¬ phantom w.breaker) (runEntry cfg e w).2 := by
  cases e with
  | call => cases he
  | execute => cases he
  | pcall =>
    have := adequacy (call_spec cfg bc hb w.breaker w.now) (startWorld w) ⟨rfl, rfl, rfl⟩
    simp only [runEntry, startWorld] at this ⊢
    split at this <;> rename_i heq <;> simp only [heq, toRes] <;> exact this
  | pexecute =>
    have := adequacy (execute_spec cfg bc hb w.breaker w.now) (startWorld w) ⟨rfl, rfl, rfl⟩
    simp only [runEntry, startWorld] at this ⊢
    split at this <;> rename_i heq <;> simp only [heq, toResO] <;> exact this

/--
**C08.**  For every configuration, every entry point and every world — every answer stream (every
exception kind, `CancelledError` / `KeyboardInterrupt` / `SystemExit` / `GeneratorExit` included, raised
by any callback at any invocation: operation, classifier, attempt hooks, abort predicate, strategy,
sleep handler, sleeper, metric and log hooks), every clock value and every state of the embedded
breaker: if the breaker admitted the call, at least one `record_success | record_failure |
record_cancel` follows the admission before `call()` / `execute()` returns or raises.
-/
theorem settled_hold (cfg : Cfg) (e : Entry) (w : World) :
    Mon.C08.ok cfg e (runEntry cfg e w).2.trace.reverse (runEntry cfg e w).1 = true := by
  unfold Mon.C08.ok
  cases he : e.isPolicy with
  | false => simp
  | true =>
    cases hb : cfg.breaker with
    | none => simp
    | some bc =>
      have hd := entry_done cfg bc hb e he w
      simp only [Bool.true_and, Option.isSome_some, if_true, run_reverse, hd.inv.adm]
      cases ha : decision bc w.breaker w.now with
      | false => rfl
      | true =>
        have := hd.inv.recs (hd.settled ha) ha
        simpa [List.isEmpty_iff] using this

/-- …and therefore of every call in every script of calls and clock advances on ONE policy object
    sharing one breaker, whatever state earlier calls left behind. -/
theorem settled_hold_script (cfg : Cfg) : ∀ (steps : List Step) (w : World),
    ∀ l ∈ (runScript cfg steps w).1, Mon.C08.ok cfg l.entry l.trace l.res = true := by
  intro steps
  induction steps with
  | nil => intro w l hl; simp [runScript] at hl
  | cons st rest ih =>
    intro w l hl
    cases st with
    | advance d => exact ih _ l (by simpa [runScript] using hl)
    | run e =>
      simp only [runScript, List.mem_cons] at hl
      rcases hl with rfl | hl
      · exact settled_hold cfg e w
      · exact ih _ l hl

/-! ### with the embedded breaker: no phantom probe -/

/-- non-vacuity of `hb`, `he`: a policy entry point on a configuration with a breaker -/
example : ({ breaker := some Breaker.exCfg } : Cfg).breaker = some Breaker.exCfg ∧
    Entry.pcall.isPolicy = true ∧ Entry.pexecute.isPolicy = true := ⟨rfl, rfl, rfl⟩

/-- The monitor's `admitted` is exactly the embedded breaker's decision at the start of the call. -/
theorem entry_decision (cfg : Cfg) (bc : Breaker.Cfg) (hb : cfg.breaker = some bc) (e : Entry)
    (he : e.isPolicy = true) (w : World) :
    (Mon.C09.run (runEntry cfg e w).2.trace.reverse).admitted = some (decision bc w.breaker w.now) := by
  rw [run_reverse]
  exact (entry_done cfg bc hb e he w).inv.adm

/-- **no_phantom_probe.**  After ANY policy call that the breaker admitted — however it ended — the
    breaker is not left half-open with the probe slot taken. -/
theorem admitted_call_frees_probe_slot (cfg : Cfg) (bc : Breaker.Cfg) (hb : cfg.breaker = some bc)
    (e : Entry) (he : e.isPolicy = true) (w : World)
    (hadm : (Mon.C09.run (runEntry cfg e w).2.trace.reverse).admitted = some true) :
    ¬ ((runEntry cfg e w).2.breaker.state = .halfOpen ∧ (runEntry cfg e w).2.breaker.probe = true) := by
  have hd := entry_done cfg bc hb e he w
  rw [entry_decision cfg bc hb e he w] at hadm
  have ha : decision bc w.breaker w.now = true := by simpa using hadm
  exact hd.inv.free (hd.settled ha)

/-- **no_phantom_probe** (no call outstanding version).  If no probe was outstanding when the call
    started, none is outstanding when it has ended — admitted or rejected, however it ended. -/
theorem no_phantom_probe (cfg : Cfg) (bc : Breaker.Cfg) (hb : cfg.breaker = some bc)
    (e : Entry) (he : e.isPolicy = true) (w : World)
    (h0 : ¬ (w.breaker.state = .halfOpen ∧ w.breaker.probe = true)) :
    ¬ ((runEntry cfg e w).2.breaker.state = .halfOpen ∧ (runEntry cfg e w).2.breaker.probe = true) := by
  have hd := entry_done cfg bc hb e he w
  cases ha : decision bc w.breaker w.now with
  | true => exact hd.inv.free (hd.settled ha)
  | false => exact hd.inv.idle ha h0

/-- non-vacuity of `h0`: a fresh breaker, an OPEN one, a HALF_OPEN one whose slot is free -/
example : ¬ (Breaker.St.init.state = .halfOpen ∧ Breaker.St.init.probe = true) ∧
    ¬ ((Breaker.St.openedAtTime 7).state = .halfOpen ∧ (Breaker.St.openedAtTime 7).probe = true) ∧
    ¬ (({ state := .halfOpen, probe := false } : Breaker.St).state = .halfOpen ∧
       ({ state := .halfOpen, probe := false } : Breaker.St).probe = true) := by
  simp [Breaker.St.init, Breaker.St.openedAtTime]

/-- a breaker whose probe slot is free admits as soon as the recovery timeout has elapsed (always,
    when it is not OPEN) -/
theorem allow_of_free (c : Breaker.Cfg) (s : Breaker.St) (now : Nat)
    (hfree : ¬ (s.state = .halfOpen ∧ s.probe = true))
    (hrec : s.state = .opened → ∃ t0, s.openedAt = some t0 ∧ t0 + c.recovery ≤ now) :
    (Breaker.allow c s now).1.1 = true := by
  cases hs : s.state with
  | closed => simp [Breaker.allow, hs]
  | halfOpen =>
    have : s.probe = false := by
      cases hp : s.probe with
      | false => rfl
      | true => exact absurd ⟨hs, hp⟩ hfree
    simp [Breaker.allow, hs, this]
  | opened =>
    obtain ⟨t0, h1, h2⟩ := hrec hs
    simp [Breaker.allow, hs, h1, h2]

/-- non-vacuity of `hrec`: OPEN since 7, recovery 5, asked at 12 -/
example : (Breaker.St.openedAtTime 7).state = .opened →
    ∃ t0, (Breaker.St.openedAtTime 7).openedAt = some t0 ∧ t0 + Breaker.exCfg.recovery ≤ 12 :=
  fun _ => ⟨7, rfl, by decide⟩

/-- **next_call_admitted_after_recovery.**  Take any policy call (however it ends) on a breaker with
    no probe outstanding, let any amount `d` of time pass, and make the next policy call: if the
    breaker is then not OPEN, or it is OPEN and `recovery` has elapsed since it opened, the next call
    is admitted (so no call can wedge the breaker). -/
theorem next_call_admitted_after_recovery (cfg : Cfg) (bc : Breaker.Cfg) (hb : cfg.breaker = some bc)
    (e e' : Entry) (he : e.isPolicy = true) (he' : e'.isPolicy = true) (w : World) (d : Nat)
    (h0 : ¬ (w.breaker.state = .halfOpen ∧ w.breaker.probe = true))
    (hrec : (runEntry cfg e w).2.breaker.state = .opened →
      ∃ t0, (runEntry cfg e w).2.breaker.openedAt = some t0 ∧
        t0 + bc.recovery ≤ (runEntry cfg e w).2.now + d) :
    (Mon.C09.run (runEntry cfg e' { (runEntry cfg e w).2 with now := (runEntry cfg e w).2.now + d }).2.trace.reverse).admitted
      = some true := by
  rw [entry_decision cfg bc hb e' he']
  have := no_phantom_probe cfg bc hb e he w h0
  exact congrArg some (allow_of_free bc _ _ this hrec)

end Redress.Props.C08
