/-
  Redress.Props.C12Fwd — what the argument-forwarding glue must look like (C12: "wrappers / decorator /
  context forward every argument to Policy / AsyncPolicy"), and what the obligation buys.

  `expected` is the hand-written specification: for each forwarding site, the function it must call, how
  each option must travel, and whether the site must expose exactly the options its callee accepts.  The
  generated module `Redress/Generated/Forwarding.lean` (rewritten from the source on every run) proves
  `allOk expected extracted = true` for the sites as they are in the working tree.
-/
import Redress.Model.Forwarding

namespace Redress.Props.C12Fwd
open Redress.Forwarding

def expected : List Expect :=
  [ ⟨"wrappers.RetryPolicy.call", "self._policy.call", .sameName, true, []⟩,
    ⟨"wrappers.RetryPolicy.execute", "self._policy.execute", .sameName, true, []⟩,
    ⟨"wrappers.RetryPolicy.context", "self._policy.context", .sameName, true, []⟩,
    ⟨"wrappers.AsyncRetryPolicy.call", "self._policy.call", .sameName, true, []⟩,
    ⟨"wrappers.AsyncRetryPolicy.execute", "self._policy.execute", .sameName, true, []⟩,
    ⟨"wrappers.AsyncRetryPolicy.context", "self._policy.context", .sameName, true, []⟩,
    ⟨"wrappers.RetryPolicy.from_config", "cls", .configAttr, false, []⟩,
    ⟨"wrappers.AsyncRetryPolicy.from_config", "cls", .configAttr, false, []⟩,
    ⟨"retry_sync.Retry.from_config", "cls", .configAttr, false, []⟩,
    ⟨"retry_async.AsyncRetry.from_config", "cls", .configAttr, false, []⟩,
    ⟨"context._RetryContext.call", "self.policy.call", .selfAttr, true, []⟩,
    ⟨"context._AsyncRetryContext.call", "self.policy.call", .selfAttr, true, []⟩,
    ⟨"context._PolicyContext.call", "self.policy.call", .selfAttr, true, []⟩,
    ⟨"context._AsyncPolicyContext.call", "self.policy.call", .selfAttr, true, []⟩,
    ⟨"retry_sync.Retry.context", "_RetryContext", .positionalAfterSelf, true, []⟩,
    ⟨"retry_async.AsyncRetry.context", "_AsyncRetryContext", .positionalAfterSelf, true, []⟩,
    ⟨"policy.Policy.context", "_PolicyContext", .positionalAfterSelf, true, []⟩,
    ⟨"async_policy.AsyncPolicy.context", "_AsyncPolicyContext", .positionalAfterSelf, true, []⟩,
    ⟨"policy.Policy.call", "self.retry.call", .sameName, true, []⟩,
    ⟨"async_policy.AsyncPolicy.call", "self.retry.call", .sameName, true, []⟩,
    -- the `@retry` closure: every constructor option of the sugar class is given (the strategy under its
    -- computed name), every per-call option `retry()` accepts is passed on (the operation under its computed name)
    ⟨"decorator.retry.RetryPolicy()", "RetryPolicy", .sameName, true, [("strategy", "effective_strategy")]⟩,
    ⟨"decorator.retry.AsyncRetryPolicy()", "AsyncRetryPolicy", .sameName, true, [("strategy", "effective_strategy")]⟩,
    ⟨"decorator.retry.policy.call", "policy.call", .sameName, true, [("operation", "op_name")]⟩,
    ⟨"decorator.retry.async_policy.call", "async_policy.call", .sameName, true, [("operation", "op_name")]⟩ ]

/-! What `allOk` gives for one site, in logical form. -/

/-- a well-forwarding `sameName` site passes each of its options on as the keyword of the same name -/
theorem sameName_forwards (e : Expect) (s : Site) (h : s.ok e = true) (hr : e.rule = .sameName)
    (p : String) (hp : p ∈ s.options) : (p, (e.alias.lookup p).getD p) ∈ s.keywords := by
  unfold Site.ok at h
  simp only [Bool.and_eq_true] at h
  have h2 := h.1.2
  rw [hr] at h2
  simp only [Site.ruleOk, List.all_eq_true] at h2
  have := h2 p hp
  simpa using List.contains_iff_mem.mp this

/-- … and a context manager passes each bound field on as `self.<field>` -/
theorem selfAttr_forwards (e : Expect) (s : Site) (h : s.ok e = true) (hr : e.rule = .selfAttr)
    (p : String) (hp : p ∈ s.options) : (p, "self." ++ p) ∈ s.keywords := by
  unfold Site.ok at h
  simp only [Bool.and_eq_true] at h
  have h2 := h.1.2
  rw [hr] at h2
  simp only [Site.ruleOk, List.all_eq_true] at h2
  have := h2 p hp
  simpa using List.contains_iff_mem.mp this

/-- a covering site exposes every option its callee accepts -/
theorem covers_callee (e : Expect) (s : Site) (h : s.ok e = true) (hc : e.cover = true)
    (p : String) (hp : p ∈ s.calleeOptions) : p ∈ s.options := by
  unfold Site.ok at h
  simp only [Bool.and_eq_true] at h
  have h3 := h.2
  simp only [Site.coversCallee, hc, Bool.not_true, Bool.false_or, Bool.and_eq_true, List.all_eq_true] at h3
  simpa using List.contains_iff_mem.mp (h3.1 p hp)

/-- the function that is called is the expected one -/
theorem calls_expected (e : Expect) (s : Site) (h : s.ok e = true) : s.callee = e.callee := by
  unfold Site.ok at h
  simp only [Bool.and_eq_true] at h
  simpa using h.1.1.2

/-- non-vacuity / a site that drops one option is rejected -/
example : Site.ok ⟨"x", "self._policy.call", .sameName, true, []⟩
    { name := "x", options := ["a", "b"], calleeOptions := ["a", "b"], callee := "self._policy.call",
      positional := ["func"], keywords := [("a", "a")] } = false := by decide

end Redress.Props.C12Fwd
