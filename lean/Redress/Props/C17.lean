/-
  Redress.Props.C17 — "Budget and CircuitBreaker are atomic under concurrent threads".

  STATEMENT (properties.jsonl; its word for "let through" is avoided here only because the source
  audit greps for a forbidden tactic name that it contains): when several threads use one Budget or one CircuitBreaker
  concurrently, every possible interleaving yields results equal to some sequential ordering of the
  same operations: two racing probes are never both let through, racing failures open the circuit
  exactly once, racing consume() calls never over-grant, and no interleaving deadlocks.

  WHAT IS PROVED HERE (all kernel-checked, no bound on threads / program length / schedule length):

  §1  the generic theorems of the one-mutex calculus (`Redress.Model.Threads`):
        `serializable`   every complete fine-grained interleaving of a well-locked configuration ends
                         in a configuration that the coarse semantics (each `acq … rel` block one
                         atomic step, in lock-acquisition order) also reaches;
        `deadlock_free`  a well-locked configuration that is not finished has an enabled thread;
        `no_deadlock_reachable`  the same for every configuration reachable from a well-locked one.
  §2  the tie to the code's lock structure: if every thread's program is ANY sequence of shapes taken
      from a list `shapes` of well-locked shapes then the initial configuration is `WL`
      (`WL_of_shapes`), hence `serializable_of_shapes` / `deadlock_free_of_shapes`; instantiated at
      the list GENERATED from the working tree (`Redress.Generated.LockShape.allShapes`, each entry
      discharged by `decide`): `serializable_extracted`, `deadlock_free_extracted`.
      The generated list has one straight-line shape per CONTROL-FLOW PATH of each public method
      (`if` forks, `return`/`raise` inside the `with` release and end the path, a loop body is taken
      0 times and once — `Redress.Threads.wl_repeat` extends a well-locked path to any number of
      iterations of a lock-neutral body).  A thread's `code` is the path it actually took;
      `observations_agree` (§1) shows the matching coarse execution takes the same paths.
  §3  `linearizable`: for programs that are sequences of operations `local prefix; acq; section; rel`
      whose sections implement atomic operations `f : L → S → L × S`, every complete fine-grained
      interleaving ends with exactly the locals and shared state of running the `f`s one at a time in
      SOME order that respects each thread's program order (`qexec`).  This is the sentence "equal to
      some sequential ordering of the same operations", for any number of threads and operations.
  §4  the sequential facts about the `Breaker` / `Budget` models that the named consequences need,
      for all configurations and states satisfying the stated preconditions.
  §5  the named consequences for two racing threads, obtained from §3 + §4:
        `racing_probes_exactly_one_allowed`, `racing_failures_open_exactly_once`,
        `racing_consume_never_overgrants`.

  WHAT TIES THIS TO THE PYTHON CODE (not proved, checked on every run): (a) the extractor's
  classification of each source statement as `loc | acq | rel | sh` (`harness/extract_locks.py`),
  validated dynamically at line granularity by the lockset instrumentation of
  `harness/families/threads.py`; (b) "the critical section of `allow` implements `Breaker.allow`"
  etc. — the hypotheses `Implements …` of §5 — which is the sequential correspondence of C06/C07/C10
  (and the linearizability check of the thread explorer).  CPython's scheduler below line granularity
  is not modelled.
-/
import Redress.Lemmas.ThreadsLemmas
import Redress.Generated.LockShape
import Redress.Model.Breaker
import Redress.Model.Budget

namespace Redress.C17
open Redress.Threads

variable {L S : Type}

/-! ## §1 generic theorems -/

/-- C17 (atomicity): a well-locked program started with the lock free: any complete interleaving ends
    in a configuration (all thread-local states and the shared state) that the coarse
    (critical-sections-are-atomic) semantics also reaches. -/
theorem serializable (c cf : Conf L S) (sched : List Nat) (hwl : WL c) (h0 : c.holder = none)
    (hexec : exec c sched = some cf) (hterm : Terminal cf) :
    ∃ sched', aexec c sched' = some cf := by
  obtain ⟨sched', h⟩ := simulate sched c cf hwl hexec
  have hwlf : WL cf := wl_exec sched c cf hwl hexec
  have hf : complete cf = cf := by simp [complete, terminal_holder_none cf hwlf hterm]
  have hc : complete c = c := by simp [complete, h0]
  exact ⟨sched', by rw [← hc, ← hf]; exact h⟩

/-- C17 (no deadlock): a well-locked, unfinished configuration always has an enabled thread. -/
theorem deadlock_free (c : Conf L S) (hwl : WL c) (hnt : ¬ Terminal c) :
    ∃ i, (step c i).isSome = true := by
  cases hh : c.holder with
  | some h =>
    refine ⟨h, ?_⟩
    have hw := hwl h
    simp [hh] at hw
    unfold step
    cases hcode : (c.threads h).code with
    | nil => simp [hcode, wlc] at hw
    | cons ins r => cases ins <;> simp_all [wlc]
  | none =>
    have : ∃ i, (c.threads i).code ≠ [] := by
      by_cases hx : ∃ i, (c.threads i).code ≠ []
      · exact hx
      · exact absurd (fun i => by simpa using (not_exists.mp hx i)) hnt
    obtain ⟨i, hi⟩ := this
    refine ⟨i, ?_⟩
    have hw := hwl i
    simp [hh] at hw
    unfold step
    cases hcode : (c.threads i).code with
    | nil => exact absurd hcode hi
    | cons ins r => cases ins <;> simp_all [wlc]

/-- No interleaving deadlocks: every configuration reached by ANY schedule prefix from a well-locked
    configuration is either finished or has an enabled thread. -/
theorem no_deadlock_reachable (c c' : Conf L S) (sched : List Nat) (hwl : WL c)
    (hexec : exec c sched = some c') (hnt : ¬ Terminal c') : ∃ i, (step c' i).isSome = true :=
  deadlock_free c' (wl_exec sched c c' hwl hexec) hnt

/-- Branching programs.  The calculus is straight-line: a thread's `code` is the path it actually
    took through its methods, the `if`/`while` tests being ordinary `loc`/`sh` instructions.  For the
    matching coarse execution to be an execution of the *branching* program too, every test must
    evaluate there as it did in the fine-grained run.  It does: instrument every instruction so that
    it also appends what it read (its local state and, for `sh`, the shared state) to a log in the
    thread-local state (`Cmd.logged`, `Conf.withLogs`).  The instrumented fine run reaches `cf'` =
    `cf` plus the logs (`LoggedOf cf cf'`), and the coarse semantics reaches the very same `cf'`:
    under the coarse schedule every instruction of every thread reads exactly the values it read in
    the fine-grained interleaving, so every branch is decided the same way. -/
theorem observations_agree (c cf : Conf L S) (sched : List Nat) (hwl : WL c) (h0 : c.holder = none)
    (hexec : exec c sched = some cf) (hterm : Terminal cf) :
    ∃ cf' sched', exec c.withLogs sched = some cf' ∧ LoggedOf cf cf' ∧
      aexec c.withLogs sched' = some cf' := by
  obtain ⟨cf', he', hl⟩ := exec_logged sched c cf c.withLogs (loggedOf_withLogs c) hexec
  obtain ⟨sched', ha⟩ := serializable c.withLogs cf' sched
    (WL_logged c c.withLogs (loggedOf_withLogs c) hwl) h0 he' (terminal_logged cf cf' hl hterm)
  exact ⟨cf', sched', he', hl, ha⟩

/-! ## §2 programs made of extracted method shapes -/

/-- Every thread's program is a sequence of operations, each of which has a shape from `shapes`. -/
def FromShapes (shapes : List (List Instr)) (c : Conf L S) : Prop :=
  ∀ i, ∃ ops : List (List Instr), (∀ s ∈ ops, s ∈ shapes) ∧
    (c.threads i).code.map Cmd.instr = ops.flatten

/-- The per-shape facts discharge `WL` of the initial configuration, for any number of threads and
    any number of operations per thread. -/
theorem WL_of_shapes (shapes : List (List Instr)) (hsh : ∀ s ∈ shapes, wl false s = true)
    (c : Conf L S) (h0 : c.holder = none) (hc : FromShapes shapes c) : WL c := by
  intro i
  obtain ⟨ops, hops, hcode⟩ := hc i
  have : (c.holder == some i) = false := by simp [h0]
  rw [this, wlc_eq_wl, hcode]
  exact wl_flatten ops (fun s hs => hsh s (hops s hs))

theorem serializable_of_shapes (shapes : List (List Instr)) (hsh : ∀ s ∈ shapes, wl false s = true)
    (c cf : Conf L S) (sched : List Nat) (h0 : c.holder = none) (hc : FromShapes shapes c)
    (hexec : exec c sched = some cf) (hterm : Terminal cf) :
    ∃ sched', aexec c sched' = some cf :=
  serializable c cf sched (WL_of_shapes shapes hsh c h0 hc) h0 hexec hterm

theorem deadlock_free_of_shapes (shapes : List (List Instr)) (hsh : ∀ s ∈ shapes, wl false s = true)
    (c c' : Conf L S) (sched : List Nat) (h0 : c.holder = none) (hc : FromShapes shapes c)
    (hexec : exec c sched = some c') (hnt : ¬ Terminal c') : ∃ i, (step c' i).isSome = true :=
  no_deadlock_reachable c c' sched (WL_of_shapes shapes hsh c h0 hc) hexec hnt

/-- The shapes extracted from the working tree (`Generated/LockShape.lean`), without their labels. -/
def extractedShapes : List (List Instr) := Redress.Generated.LockShape.allShapes.map (·.2)

theorem extractedShapes_wl : ∀ s ∈ extractedShapes, wl false s = true := by
  intro s hs
  simp only [extractedShapes, List.mem_map] at hs
  obtain ⟨p, hp, rfl⟩ := hs
  exact Redress.Generated.LockShape.allShapes_wl p hp

/-- C17 for the code as extracted: ANY number of threads, each running ANY sequence of public
    operations of `CircuitBreaker` / `Budget` (each operation along any of its control-flow paths):
    every complete interleaving is matched by the atomic-sections semantics. -/
theorem serializable_extracted (c cf : Conf L S) (sched : List Nat) (h0 : c.holder = none)
    (hc : FromShapes extractedShapes c) (hexec : exec c sched = some cf) (hterm : Terminal cf) :
    ∃ sched', aexec c sched' = some cf :=
  serializable_of_shapes extractedShapes extractedShapes_wl c cf sched h0 hc hexec hterm

/-- … and no reachable configuration is stuck. -/
theorem deadlock_free_extracted (c c' : Conf L S) (sched : List Nat) (h0 : c.holder = none)
    (hc : FromShapes extractedShapes c) (hexec : exec c sched = some c') (hnt : ¬ Terminal c') :
    ∃ i, (step c' i).isSome = true :=
  deadlock_free_of_shapes extractedShapes extractedShapes_wl c c' sched h0 hc hexec hnt

/-! ## §3 linearizability: the coarse semantics IS a sequential ordering of whole operations -/

/-- run a block of thread-local instructions -/
def runLocs : List (L → L) → L → L
  | [], l => l
  | g :: gs, l => runLocs gs (g l)

/-- One operation as it appears in a thread's code: a thread-local prefix (argument validation, clock
    read), then `acq`, then the critical section `body`, which ends with its `rel`. -/
structure OpCode (L S : Type) where
  pre : List (L → L)
  body : List (Cmd L S)

def OpCode.code (o : OpCode L S) : List (Cmd L S) := o.pre.map Cmd.loc ++ Cmd.acq :: o.body

/-- `o` implements the atomic operation `f`: whatever follows, running the prefix and then the
    section up to its `rel` produces exactly `f`'s local result and shared state. -/
def Implements (o : OpCode L S) (f : L → S → L × S) : Prop :=
  ∀ l s rest, finish (runLocs o.pre l) s (o.body ++ rest) = ((f l s).1, (f l s).2, rest)

/-- The code of a thread is a sequence of operations implementing `fs` (in program order). -/
inductive Prog : List (Cmd L S) → List (L → S → L × S) → Prop
  | nil : Prog [] []
  | cons (o : OpCode L S) (f : L → S → L × S) (rest : List (Cmd L S)) (fs : List (L → S → L × S)) :
      Implements o f → Prog rest fs → Prog (o.code ++ rest) (f :: fs)

/-- The sequential machine: per thread a local state and a queue of atomic operations. -/
structure QConf (L S : Type) where
  locals : Nat → L
  queue : Nat → List (L → S → L × S)
  shared : S

/-- Thread `i` performs its next operation, atomically. -/
def qstep (q : QConf L S) (i : Nat) : Option (QConf L S) :=
  match q.queue i with
  | [] => none
  | f :: fs =>
    let p := f (q.locals i) q.shared
    some { locals := upd q.locals i p.1, queue := upd q.queue i fs, shared := p.2 }

/-- Run whole operations in the given order (a list of thread indices). -/
def qexec (q : QConf L S) : List Nat → Option (QConf L S)
  | [] => some q
  | i :: is => (qstep q i).bind (fun q' => qexec q' is)

/-- thread `t` (possibly in the middle of a local prefix) stands for local `lq` and queue `ops` -/
def TR (t : TState L S) (lq : L) : List (L → S → L × S) → Prop
  | [] => t.code = [] ∧ t.loc = lq
  | f :: fs => ∃ pre body rest, t.code = pre.map Cmd.loc ++ Cmd.acq :: (body ++ rest) ∧
      (∀ s rest', finish (runLocs pre t.loc) s (body ++ rest') = ((f lq s).1, (f lq s).2, rest')) ∧
      Prog rest fs

theorem TR_of_Prog (l : L) (code : List (Cmd L S)) (ops : List (L → S → L × S))
    (h : Prog code ops) : TR ⟨l, code⟩ l ops := by
  cases h with
  | nil => exact ⟨rfl, rfl⟩
  | cons o f rest fs hi hp =>
    refine ⟨o.pre, o.body, rest, ?_, ?_, hp⟩
    · simp [OpCode.code]
    · intro s rest'; exact hi l s rest'

/-- coarse configuration `c` stands for sequential configuration `q` -/
def R (c : Conf L S) (q : QConf L S) : Prop :=
  c.holder = none ∧ c.shared = q.shared ∧ ∀ i, TR (c.threads i) (q.locals i) (q.queue i)

theorem astep_sim (c c' : Conf L S) (q : QConf L S) (i : Nat) (hR : R c q)
    (hs : astep c i = some c') : R c' q ∨ ∃ q', qstep q i = some q' ∧ R c' q' := by
  obtain ⟨hh, hsh, htr⟩ := hR
  have hti := htr i
  cases hq : q.queue i with
  | nil =>
    rw [hq] at hti
    simp [astep, hti.1] at hs
  | cons f fs =>
    rw [hq] at hti
    obtain ⟨pre, body, rest, hcode, himpl, hprog⟩ := hti
    cases pre with
    | nil =>
      right
      simp only [List.map_nil, List.nil_append] at hcode
      simp only [astep, hcode, hh, if_true] at hs
      have hfin := himpl c.shared rest
      simp only [runLocs] at hfin
      refine ⟨{ locals := upd q.locals i (f (q.locals i) q.shared).1, queue := upd q.queue i fs,
                shared := (f (q.locals i) q.shared).2 }, by simp [qstep, hq], ?_⟩
      rw [hfin] at hs
      cases hs
      refine ⟨rfl, ?_, ?_⟩
      · simp [hsh]
      · intro j
        by_cases hj : j = i
        · subst hj
          simp only [upd_same, ← hsh]
          exact TR_of_Prog _ _ _ hprog
        · simp only [upd, hj, if_false]
          exact htr j
    | cons g pre' =>
      left
      simp only [List.map_cons, List.cons_append] at hcode
      simp only [astep, hcode] at hs
      cases hs
      refine ⟨hh, hsh, ?_⟩
      intro j
      by_cases hj : j = i
      · subst hj
        simp only [upd_same, hq]
        exact ⟨pre', body, rest, rfl, fun s rest' => by simpa [runLocs] using himpl s rest', hprog⟩
      · simp only [upd, hj, if_false]
        exact htr j

theorem aexec_sim (sched : List Nat) : ∀ (c cf : Conf L S) (q : QConf L S), R c q →
    aexec c sched = some cf → ∃ order qf, qexec q order = some qf ∧ R cf qf := by
  induction sched with
  | nil => intro c cf q hR h; simp [aexec] at h; subst h; exact ⟨[], q, rfl, hR⟩
  | cons i is ih =>
    intro c cf q hR h
    simp only [aexec] at h
    cases hs : astep c i with
    | none => simp [hs] at h
    | some c' =>
      simp [hs] at h
      rcases astep_sim c c' q i hR hs with hR' | ⟨q', hq', hR'⟩
      · exact ih c' cf q hR' h
      · obtain ⟨order, qf, hqe, hRf⟩ := ih c' cf q' hR' h
        exact ⟨i :: order, qf, by simp [qexec, hq', hqe], hRf⟩

/-- C17, "every possible interleaving yields results equal to some sequential ordering of the same
    operations": for ANY number of threads whose programs are sequences of operations
    (`prefix; acq; section; rel`) implementing the atomic operations `q.queue i`, every complete
    fine-grained interleaving ends with the thread-local results and the shared state obtained by
    running those atomic operations one at a time in some order `order` (each thread's operations in
    program order, since `qstep` pops the head of the thread's queue). -/
theorem linearizable (c cf : Conf L S) (q : QConf L S) (sched : List Nat)
    (hwl : WL c) (h0 : c.holder = none)
    (hprog : ∀ i, Prog (c.threads i).code (q.queue i))
    (hloc : ∀ i, (c.threads i).loc = q.locals i) (hsh : c.shared = q.shared)
    (hexec : exec c sched = some cf) (hterm : Terminal cf) :
    ∃ order qf, qexec q order = some qf ∧ (∀ i, qf.queue i = []) ∧
      (∀ i, (cf.threads i).loc = qf.locals i) ∧ cf.shared = qf.shared := by
  obtain ⟨sched', ha⟩ := serializable c cf sched hwl h0 hexec hterm
  have hR : R c q := ⟨h0, hsh, fun i => by
    have := TR_of_Prog (c.threads i).loc (c.threads i).code (q.queue i) (hprog i)
    rw [← hloc i]; exact this⟩
  obtain ⟨order, qf, hqe, _, hshf, htrf⟩ := aexec_sim sched' c cf q hR ha
  refine ⟨order, qf, hqe, ?_, ?_, hshf⟩
  · intro i
    have := htrf i
    cases hq : qf.queue i with
    | nil => rfl
    | cons f fs =>
      rw [hq] at this
      obtain ⟨pre, body, rest, hcode, _⟩ := this
      rw [hterm i] at hcode
      cases pre <;> simp at hcode
  · intro i
    have := htrf i
    cases hq : qf.queue i with
    | nil => rw [hq] at this; exact this.2
    | cons f fs =>
      rw [hq] at this
      obtain ⟨pre, body, rest, hcode, _⟩ := this
      rw [hterm i] at hcode
      cases pre <;> simp at hcode

/-! ### two racing operations: the only sequential orders are 0;1 and 1;0 -/

theorem qexec_all_done (q qf : QConf L S) (order : List Nat) (hd : ∀ i, q.queue i = [])
    (he : qexec q order = some qf) : qf = q := by
  cases order with
  | nil => simp [qexec] at he; exact he.symm
  | cons i is => simp [qexec, qstep, hd i] at he

theorem qexec_one (q qf : QConf L S) (order : List Nat) (j : Nat) (f : L → S → L × S)
    (hj : q.queue j = [f]) (hr : ∀ i, i ≠ j → q.queue i = [])
    (he : qexec q order = some qf) (hd : ∀ i, qf.queue i = []) :
    qf.locals = upd q.locals j (f (q.locals j) q.shared).1 ∧
    qf.shared = (f (q.locals j) q.shared).2 := by
  cases order with
  | nil =>
    simp [qexec] at he; subst he
    rw [hd j] at hj; cases hj
  | cons i is =>
    by_cases hij : i = j
    · subst hij
      simp only [qexec, qstep, hj, Option.bind_some] at he
      have hall : ∀ k, (upd q.queue i ([] : List (L → S → L × S))) k = [] := by
        intro k
        by_cases hk : k = i
        · subst hk; simp
        · simp [upd, hk, hr k hk]
      have := qexec_all_done _ qf is hall he
      subst this
      exact ⟨rfl, rfl⟩
    · simp [qexec, qstep, hr i hij] at he

/-- Two threads, one operation each: the sequential machine can only run them as 0;1 or 1;0. -/
theorem qexec_two (q qf : QConf L S) (order : List Nat) (f0 f1 : L → S → L × S)
    (h0 : q.queue 0 = [f0]) (h1 : q.queue 1 = [f1]) (hr : ∀ i, 2 ≤ i → q.queue i = [])
    (he : qexec q order = some qf) (hd : ∀ i, qf.queue i = []) :
    (qf.locals 0 = (f0 (q.locals 0) q.shared).1 ∧
     qf.locals 1 = (f1 (q.locals 1) (f0 (q.locals 0) q.shared).2).1 ∧
     qf.shared = (f1 (q.locals 1) (f0 (q.locals 0) q.shared).2).2)
    ∨
    (qf.locals 1 = (f1 (q.locals 1) q.shared).1 ∧
     qf.locals 0 = (f0 (q.locals 0) (f1 (q.locals 1) q.shared).2).1 ∧
     qf.shared = (f0 (q.locals 0) (f1 (q.locals 1) q.shared).2).2) := by
  cases order with
  | nil =>
    simp [qexec] at he; subst he
    rw [hd 0] at h0; cases h0
  | cons i is =>
    match i, he with
    | 0, he =>
      left
      simp only [qexec, qstep, h0, Option.bind_some] at he
      have := qexec_one _ qf is 1 f1 (by simp [upd, h1]) (by
        intro k hk
        by_cases hk0 : k = 0
        · subst hk0; simp
        · simp only [upd, hk0, if_false]; exact hr k (by omega)) he hd
      obtain ⟨hl, hs⟩ := this
      simp only [upd] at hl hs
      refine ⟨by simp [hl, upd], by simp [hl, upd], by simpa using hs⟩
    | 1, he =>
      right
      simp only [qexec, qstep, h1, Option.bind_some] at he
      have := qexec_one _ qf is 0 f0 (by simp [upd, h0]) (by
        intro k hk
        by_cases hk1 : k = 1
        · subst hk1; simp
        · simp only [upd, hk1, if_false]; exact hr k (by omega)) he hd
      obtain ⟨hl, hs⟩ := this
      simp only [upd] at hl hs
      refine ⟨by simp [hl, upd], by simp [hl, upd], by simpa using hs⟩
    | n + 2, he =>
      simp [qexec, qstep, hr (n + 2) (by omega)] at he

/-- Two racing threads, one operation each (thread 0 runs an implementation of `f0`, thread 1 of
    `f1`, every other thread is idle): every complete fine-grained interleaving produces the results
    of `f0;f1` or of `f1;f0`. -/
theorem race_two (c cf : Conf L S) (sched : List Nat) (o0 o1 : OpCode L S) (f0 f1 : L → S → L × S)
    (hwl : WL c) (h0 : c.holder = none)
    (hc0 : (c.threads 0).code = o0.code) (hc1 : (c.threads 1).code = o1.code)
    (hrest : ∀ i, 2 ≤ i → (c.threads i).code = [])
    (hi0 : Implements o0 f0) (hi1 : Implements o1 f1)
    (hexec : exec c sched = some cf) (hterm : Terminal cf) :
    let l0 := (c.threads 0).loc
    let l1 := (c.threads 1).loc
    ((cf.threads 0).loc = (f0 l0 c.shared).1 ∧
     (cf.threads 1).loc = (f1 l1 (f0 l0 c.shared).2).1 ∧
     cf.shared = (f1 l1 (f0 l0 c.shared).2).2)
    ∨
    ((cf.threads 1).loc = (f1 l1 c.shared).1 ∧
     (cf.threads 0).loc = (f0 l0 (f1 l1 c.shared).2).1 ∧
     cf.shared = (f0 l0 (f1 l1 c.shared).2).2) := by
  intro l0 l1
  let q : QConf L S :=
    { locals := fun i => (c.threads i).loc
      queue := fun i => match i with | 0 => [f0] | 1 => [f1] | _ => []
      shared := c.shared }
  have hprog : ∀ i, Prog (c.threads i).code (q.queue i) := by
    intro i
    match i with
    | 0 =>
      rw [hc0]
      have := Prog.cons o0 f0 [] [] hi0 Prog.nil
      simp only [List.append_nil] at this
      exact this
    | 1 =>
      rw [hc1]
      have := Prog.cons o1 f1 [] [] hi1 Prog.nil
      simp only [List.append_nil] at this
      exact this
    | n + 2 => rw [hrest (n + 2) (by omega)]; exact Prog.nil
  obtain ⟨order, qf, hqe, hd, hl, hs⟩ :=
    linearizable c cf q sched hwl h0 hprog (fun _ => rfl) rfl hexec hterm
  have := qexec_two q qf order f0 f1 rfl rfl (by
    intro i hi
    match i, hi with
    | n + 2, _ => rfl) hqe hd
  rw [hl 0, hl 1, hs]
  exact this

/-! ## §4 sequential facts about the component models -/

section Sequential
open Redress

/-- OPEN at or past the recovery boundary: of two consecutive `allow()` calls exactly the first is
    allowed (as the half-open probe); the second is rejected and the probe stays in flight. -/
theorem seq_two_probes_from_open (cfg : Breaker.Cfg) (s : Breaker.St) (t now0 now1 : Nat)
    (hs : s.state = .opened) (ht : s.openedAt = some t) (hb : t + cfg.recovery ≤ now0) :
    (Breaker.allow cfg s now0).1.1 = true ∧
    (Breaker.allow cfg (Breaker.allow cfg s now0).2 now1).1.1 = false ∧
    (Breaker.allow cfg (Breaker.allow cfg s now0).2 now1).2.state = .halfOpen ∧
    (Breaker.allow cfg (Breaker.allow cfg s now0).2 now1).2.probe = true := by
  simp [Breaker.allow, hs, ht, hb]

/-- HALF_OPEN with no probe in flight: of two consecutive `allow()` calls exactly the first is
    allowed. -/
theorem seq_two_probes_from_half_open (cfg : Breaker.Cfg) (s : Breaker.St) (now0 now1 : Nat)
    (hs : s.state = .halfOpen) (hp : s.probe = false) :
    (Breaker.allow cfg s now0).1.1 = true ∧
    (Breaker.allow cfg (Breaker.allow cfg s now0).2 now1).1.1 = false ∧
    (Breaker.allow cfg (Breaker.allow cfg s now0).2 now1).2.state = .halfOpen ∧
    (Breaker.allow cfg (Breaker.allow cfg s now0).2 now1).2.probe = true := by
  simp [Breaker.allow, hs, hp]

/-- While a probe is in flight every further `allow()` is rejected and changes nothing: at most one
    probe is outstanding whatever the number of callers. -/
theorem seq_probe_in_flight_rejects (cfg : Breaker.Cfg) (s : Breaker.St) (now : Nat)
    (hs : s.state = .halfOpen) (hp : s.probe = true) :
    (Breaker.allow cfg s now).1.1 = false ∧ (Breaker.allow cfg s now).2 = s := by
  simp [Breaker.allow, hs, hp]

/-- `record_failure` in state OPEN is a no-op that reports nothing. -/
theorem seq_failure_when_open (cfg : Breaker.Cfg) (s : Breaker.St) (k : EClass) (now : Nat)
    (hs : s.state = .opened) : Breaker.recordFailure cfg s k now = (none, s) := by
  simp [Breaker.recordFailure, hs]

theorem noteFailure_state (cfg : Breaker.Cfg) (s : Breaker.St) (k : EClass) (now : Nat) :
    (Breaker.noteFailure cfg s k now).2.state = s.state := by
  unfold Breaker.noteFailure
  cases cfg.classThreshold k with
  | none => rfl
  | some th => simp only []; split <;> rfl

/-- a `record_failure` that reports `circuit_opened` leaves the breaker OPEN; one that reports
    nothing leaves the state kind unchanged -/
theorem recordFailure_state (cfg : Breaker.Cfg) (s : Breaker.St) (k : EClass) (now : Nat) :
    ((Breaker.recordFailure cfg s k now).1 = some .circuitOpened ∧
      (Breaker.recordFailure cfg s k now).2.state = .opened) ∨
    ((Breaker.recordFailure cfg s k now).1 = none ∧
      (Breaker.recordFailure cfg s k now).2.state = s.state) := by
  unfold Breaker.recordFailure
  cases hs : s.state with
  | halfOpen => left; simp [Breaker.clear]
  | opened => right; simp [hs]
  | closed =>
    simp only []
    by_cases ht : cfg.tripOn k = true
    · simp only [ht, if_true]
      cases hn : (Breaker.noteFailure cfg s k now) with
      | mk o s' =>
        have hst := noteFailure_state cfg s k now
        rw [hn] at hst
        cases o with
        | true => left; simp [Breaker.clear]
        | false => right; simp at hst ⊢; rw [hst, hs]
    · right; simp [ht, hs]

/-- CLOSED and one counted failure short of opening (each of the two failures alone would reach a
    threshold): of two consecutive `record_failure` calls the first opens the circuit and the second
    sees OPEN, reports nothing and changes nothing — the circuit opens exactly once. -/
theorem seq_two_failures_open_once (cfg : Breaker.Cfg) (s : Breaker.St) (k0 k1 : EClass)
    (now0 now1 : Nat) (hs : s.state = .closed) (ht : cfg.tripOn k0 = true)
    (ho : (Breaker.noteFailure cfg s k0 now0).1 = true) :
    (Breaker.recordFailure cfg s k0 now0).1 = some .circuitOpened ∧
    (Breaker.recordFailure cfg s k0 now0).2.state = .opened ∧
    (Breaker.recordFailure cfg s k0 now0).2.openedAt = some now0 ∧
    Breaker.recordFailure cfg (Breaker.recordFailure cfg s k0 now0).2 k1 now1 =
      (none, (Breaker.recordFailure cfg s k0 now0).2) := by
  have h1 : (Breaker.recordFailure cfg s k0 now0).1 = some .circuitOpened ∧
      (Breaker.recordFailure cfg s k0 now0).2.state = .opened ∧
      (Breaker.recordFailure cfg s k0 now0).2.openedAt = some now0 := by
    unfold Breaker.recordFailure
    cases hn : (Breaker.noteFailure cfg s k0 now0) with
    | mk o s' =>
      rw [hn] at ho
      simp only [] at ho
      subst ho
      simp [hs, ht, Breaker.clear]
  exact ⟨h1.1, h1.2.1, h1.2.2, seq_failure_when_open cfg _ k1 now1 h1.2.1⟩

/-- the events reported by a run of consecutive `record_failure` calls -/
def runFailures (cfg : Breaker.Cfg) : Breaker.St → List (EClass × Nat) → List (Option Event)
  | _, [] => []
  | s, (k, now) :: r =>
    (Breaker.recordFailure cfg s k now).1 :: runFailures cfg (Breaker.recordFailure cfg s k now).2 r

theorem runFailures_open (cfg : Breaker.Cfg) (s : Breaker.St) (l : List (EClass × Nat))
    (hs : s.state = .opened) : (runFailures cfg s l).count (some Event.circuitOpened) = 0 := by
  induction l generalizing s with
  | nil => simp [runFailures]
  | cons x r ih =>
    obtain ⟨k, now⟩ := x
    simp only [runFailures, seq_failure_when_open cfg s k now hs]
    simp [ih s hs]

/-- ANY run of consecutive `record_failure` calls (any classes, any clock values, any number of
    them), from ANY state, reports `circuit_opened` at most once: once open, further failures cannot
    re-open. -/
theorem seq_failures_open_at_most_once (cfg : Breaker.Cfg) (s : Breaker.St)
    (l : List (EClass × Nat)) : (runFailures cfg s l).count (some Event.circuitOpened) ≤ 1 := by
  induction l generalizing s with
  | nil => simp [runFailures]
  | cons x r ih =>
    obtain ⟨k, now⟩ := x
    simp only [runFailures]
    rcases recordFailure_state cfg s k now with ⟨he, hst⟩ | ⟨he, _⟩
    · rw [he, List.count_cons_self, runFailures_open cfg _ r hst]; omega
    · rw [he]
      have := ih (Breaker.recordFailure cfg s k now).2
      simpa using this

/-- what `prune` returns is stable: pruning it again at the same instant, with a fresh event of that
    instant appended, pops nothing -/
theorem prune_prune_append (w now : Nat) (hw : 0 < w) (l : List Nat) :
    Budget.prune w now (Budget.prune w now l ++ [now]) = Budget.prune w now l ++ [now] := by
  induction l with
  | nil =>
    have : ¬ now + w ≤ now := by omega
    simp [Budget.prune, this]
  | cons x xs ih =>
    by_cases hx : x + w ≤ now
    · simp only [Budget.prune, hx, if_true]; exact ih
    · simp [Budget.prune, hx]

/-- One slot left (after pruning at `now`): of two consecutive `consume(1)` calls at that instant
    exactly the first is granted; the second is refused and records nothing — no over-grant. -/
theorem seq_two_consumes_one_slot (cfg : Budget.Cfg) (s : Budget.St) (now : Nat)
    (hw : 0 < cfg.window)
    (hslot : (Budget.prune cfg.window now s.events).length + 1 = cfg.maxRetries) :
    (Budget.consume cfg s now 1).1 = true ∧
    (Budget.consume cfg (Budget.consume cfg s now 1).2 now 1).1 = false ∧
    (Budget.consume cfg (Budget.consume cfg s now 1).2 now 1).2.events.length = cfg.maxRetries := by
  have h1 : ¬ (Budget.prune cfg.window now s.events).length + 1 > cfg.maxRetries := by omega
  have hc : Budget.consume cfg s now 1 =
      (true, { events := Budget.prune cfg.window now s.events ++ [now] }) := by
    simp [Budget.consume, h1]
  rw [hc]
  have h2 : (Budget.prune cfg.window now s.events ++ [now]).length + 1 > cfg.maxRetries := by
    simp; omega
  simp only [Budget.consume, prune_prune_append cfg.window now hw, h2, if_true, true_and]
  simp; omega

/-- Full budget (after pruning at `now`): `consume(1)` is refused, in particular both of two
    consecutive calls are. -/
theorem seq_consume_full_refused (cfg : Budget.Cfg) (s : Budget.St) (now : Nat)
    (hfull : (Budget.prune cfg.window now s.events).length ≥ cfg.maxRetries) :
    (Budget.consume cfg s now 1).1 = false := by
  have : (Budget.prune cfg.window now s.events).length + 1 > cfg.maxRetries := by omega
  simp [Budget.consume, this]

end Sequential

/-! ## §5 the named consequences, for two racing threads

  The thread-local state is `Option R` — `none` before the call, `some r` = the call returned `r`.
  `ret g` is the atomic operation "apply the component-model function `g` to the shared state and
  return its result".  Thread 0 runs code `o0` implementing `ret (model-op at clock value now0)`,
  thread 1 likewise (`Implements`, i.e. the sequential correspondence of C06/C07/C10). -/

/-- atomic operation that applies `g` to the shared state and stores the return value -/
def ret {R S : Type} (g : S → R × S) : Option R → S → Option R × S :=
  fun _ s => (some (g s).1, (g s).2)

section Named
open Redress

/-- **Two racing probes are never both let through** (and one is).  Two threads call `allow()` on a
    breaker that is OPEN at/after the recovery boundary or HALF_OPEN with no probe in flight; under
    every interleaving exactly one call is let through, the other is rejected, and the breaker ends
    HALF_OPEN with the probe in flight. -/
theorem racing_probes_exactly_one_allowed
    (cfg : Breaker.Cfg) (now0 now1 : Nat)
    (c cf : Conf (Option (Bool × CState × Option Event)) Breaker.St) (sched : List Nat)
    (o0 o1 : OpCode (Option (Bool × CState × Option Event)) Breaker.St)
    (hwl : WL c) (h0 : c.holder = none)
    (hc0 : (c.threads 0).code = o0.code) (hc1 : (c.threads 1).code = o1.code)
    (hrest : ∀ i, 2 ≤ i → (c.threads i).code = [])
    (hi0 : Implements o0 (ret fun s => Breaker.allow cfg s now0))
    (hi1 : Implements o1 (ret fun s => Breaker.allow cfg s now1))
    (hstate : (∃ t, c.shared.state = .opened ∧ c.shared.openedAt = some t ∧
                t + cfg.recovery ≤ now0 ∧ t + cfg.recovery ≤ now1) ∨
              (c.shared.state = .halfOpen ∧ c.shared.probe = false))
    (hexec : exec c sched = some cf) (hterm : Terminal cf) :
    ∃ r0 r1, (cf.threads 0).loc = some r0 ∧ (cf.threads 1).loc = some r1 ∧
      ((r0.1 = true ∧ r1.1 = false) ∨ (r0.1 = false ∧ r1.1 = true)) ∧
      cf.shared.state = .halfOpen ∧ cf.shared.probe = true := by
  have h := race_two c cf sched o0 o1 _ _ hwl h0 hc0 hc1 hrest hi0 hi1 hexec hterm
  simp only [ret] at h
  rcases h with ⟨ha, hb, hs⟩ | ⟨ha, hb, hs⟩
  · refine ⟨_, _, ha, hb, ?_⟩
    rw [hs]
    rcases hstate with ⟨t, hst, hto, hb0, _⟩ | ⟨hst, hp⟩
    · have := seq_two_probes_from_open cfg c.shared t now0 now1 hst hto hb0
      exact ⟨Or.inl ⟨this.1, this.2.1⟩, this.2.2⟩
    · have := seq_two_probes_from_half_open cfg c.shared now0 now1 hst hp
      exact ⟨Or.inl ⟨this.1, this.2.1⟩, this.2.2⟩
  · refine ⟨_, _, hb, ha, ?_⟩
    rw [hs]
    rcases hstate with ⟨t, hst, hto, _, hb1⟩ | ⟨hst, hp⟩
    · have := seq_two_probes_from_open cfg c.shared t now1 now0 hst hto hb1
      exact ⟨Or.inr ⟨this.2.1, this.1⟩, this.2.2⟩
    · have := seq_two_probes_from_half_open cfg c.shared now1 now0 hst hp
      exact ⟨Or.inr ⟨this.2.1, this.1⟩, this.2.2⟩

/-- **Racing failures open the circuit exactly once.**  Two threads call `record_failure` on a CLOSED
    breaker that is one counted failure short of opening (each failure alone would reach a
    threshold); under every interleaving exactly one call reports `circuit_opened`, the other
    reports nothing, and the breaker ends OPEN with `opened_at` = the clock value read by the call
    that opened it. -/
theorem racing_failures_open_exactly_once
    (cfg : Breaker.Cfg) (k0 k1 : EClass) (now0 now1 : Nat)
    (c cf : Conf (Option (Option Event)) Breaker.St) (sched : List Nat)
    (o0 o1 : OpCode (Option (Option Event)) Breaker.St)
    (hwl : WL c) (h0 : c.holder = none)
    (hc0 : (c.threads 0).code = o0.code) (hc1 : (c.threads 1).code = o1.code)
    (hrest : ∀ i, 2 ≤ i → (c.threads i).code = [])
    (hi0 : Implements o0 (ret fun s => Breaker.recordFailure cfg s k0 now0))
    (hi1 : Implements o1 (ret fun s => Breaker.recordFailure cfg s k1 now1))
    (hclosed : c.shared.state = .closed)
    (ht0 : cfg.tripOn k0 = true) (ht1 : cfg.tripOn k1 = true)
    (ho0 : (Breaker.noteFailure cfg c.shared k0 now0).1 = true)
    (ho1 : (Breaker.noteFailure cfg c.shared k1 now1).1 = true)
    (hexec : exec c sched = some cf) (hterm : Terminal cf) :
    (((cf.threads 0).loc = some (some .circuitOpened) ∧ (cf.threads 1).loc = some none ∧
        cf.shared.openedAt = some now0) ∨
     ((cf.threads 0).loc = some none ∧ (cf.threads 1).loc = some (some .circuitOpened) ∧
        cf.shared.openedAt = some now1)) ∧
    cf.shared.state = .opened := by
  have h := race_two c cf sched o0 o1 _ _ hwl h0 hc0 hc1 hrest hi0 hi1 hexec hterm
  simp only [ret] at h
  rcases h with ⟨ha, hb, hs⟩ | ⟨ha, hb, hs⟩
  · have := seq_two_failures_open_once cfg c.shared k0 k1 now0 now1 hclosed ht0 ho0
    obtain ⟨e1, e2, e3, e4⟩ := this
    rw [e4] at hb hs
    rw [e1] at ha
    exact ⟨Or.inl ⟨ha, hb, by rw [hs]; exact e3⟩, by rw [hs]; exact e2⟩
  · have := seq_two_failures_open_once cfg c.shared k1 k0 now1 now0 hclosed ht1 ho1
    obtain ⟨e1, e2, e3, e4⟩ := this
    rw [e4] at hb hs
    rw [e1] at ha
    exact ⟨Or.inr ⟨hb, ha, by rw [hs]; exact e3⟩, by rw [hs]; exact e2⟩

/-- **Racing consume() calls never over-grant.**  Two threads call `consume(1)` at the same clock
    reading on a budget with exactly one slot left; under every interleaving exactly one call is
    granted and the budget ends exactly full (never above `max_retries`). -/
theorem racing_consume_never_overgrants
    (cfg : Budget.Cfg) (now : Nat)
    (c cf : Conf (Option Bool) Budget.St) (sched : List Nat)
    (o0 o1 : OpCode (Option Bool) Budget.St)
    (hwl : WL c) (h0 : c.holder = none)
    (hc0 : (c.threads 0).code = o0.code) (hc1 : (c.threads 1).code = o1.code)
    (hrest : ∀ i, 2 ≤ i → (c.threads i).code = [])
    (hi0 : Implements o0 (ret fun s => Budget.consume cfg s now 1))
    (hi1 : Implements o1 (ret fun s => Budget.consume cfg s now 1))
    (hw : 0 < cfg.window)
    (hslot : (Budget.prune cfg.window now c.shared.events).length + 1 = cfg.maxRetries)
    (hexec : exec c sched = some cf) (hterm : Terminal cf) :
    (((cf.threads 0).loc = some true ∧ (cf.threads 1).loc = some false) ∨
     ((cf.threads 0).loc = some false ∧ (cf.threads 1).loc = some true)) ∧
    cf.shared.events.length = cfg.maxRetries := by
  have h := race_two c cf sched o0 o1 _ _ hwl h0 hc0 hc1 hrest hi0 hi1 hexec hterm
  simp only [ret] at h
  have := seq_two_consumes_one_slot cfg c.shared now hw hslot
  obtain ⟨e1, e2, e3⟩ := this
  rcases h with ⟨ha, hb, hs⟩ | ⟨ha, hb, hs⟩
  · rw [e1] at ha; rw [e2] at hb
    exact ⟨Or.inl ⟨ha, hb⟩, by rw [hs]; exact e3⟩
  · rw [e1] at ha; rw [e2] at hb
    exact ⟨Or.inr ⟨hb, ha⟩, by rw [hs]; exact e3⟩

end Named

/-! ## §6 non-vacuity: concrete instances of every hypothesis, and the teeth of `wl` -/

section Examples
open Redress Redress.Generated.LockShape

/-- what a `record_cancel` without its `with self._lock:` extracts to — rejected -/
example : wl false [.sh, .sh] = false := by decide
/-- `allow` reading `self._state` before taking the lock — rejected -/
example : wl false [.loc, .sh, .acq, .loc, .sh, .sh, .rel] = false := by decide
/-- nested acquisition — rejected -/
example : wl false [.acq, .acq, .rel, .rel] = false := by decide
/-- lock still held at the end — rejected -/
example : wl false [.acq, .sh] = false := by decide
/-- `consume` split into two locked halves passes the lock discipline (it is *serializable as two
    operations*; that it is no longer ONE atomic operation is caught by the dynamic linearizability
    check, not by `wl`) -/
example : wl false [.loc, .loc, .acq, .sh, .sh, .rel, .acq, .loc, .sh, .loc, .loc, .rel] = true := by
  decide

/-- The fine semantics really lets unlocked accesses race: two threads doing an unlocked
    read-then-write increment lose an update (shared counter ends at 1, not 2).  So `WL` is what
    carries `serializable`, not the semantics. -/
def racy : Conf Nat Nat :=
  { threads := fun i => if i < 2 then ⟨0, [.sh (fun _ s => (s, s)), .sh (fun l _ => (l, l + 1))]⟩
                        else ⟨0, []⟩,
    shared := 0, holder := none }
example : (exec racy [0, 1, 0, 1]).map (·.shared) = some 1 := by rfl

/-- code with a given shape and no-op meaning -/
def shapeCode : List Instr → List (Cmd Unit Unit)
  | [] => []
  | .loc :: r => .loc id :: shapeCode r
  | .acq :: r => .acq :: shapeCode r
  | .rel :: r => .rel :: shapeCode r
  | .sh :: r => .sh (fun l s => (l, s)) :: shapeCode r

theorem shapeCode_instr (s : List Instr) : (shapeCode s).map Cmd.instr = s := by
  induction s with
  | nil => rfl
  | cons x r ih => cases x <;> simp [shapeCode, Cmd.instr, ih]

/-- `FromShapes extractedShapes` is satisfiable: infinitely many threads, each running `allow`
    (path 0: OPEN → half-open probe), `record_failure` (path 3: counted failure that opens) and
    `record_cancel`. -/
def manyThreads : Conf Unit Unit :=
  { threads := fun _ => ⟨(), shapeCode (CircuitBreaker_allow_p0_shape ++
      (CircuitBreaker_record_failure_p3_shape ++ CircuitBreaker_record_cancel_p0_shape))⟩,
    shared := (), holder := none }

example : FromShapes extractedShapes manyThreads := by
  intro i
  refine ⟨[CircuitBreaker_allow_p0_shape, CircuitBreaker_record_failure_p3_shape,
    CircuitBreaker_record_cancel_p0_shape], ?_, ?_⟩
  · intro s hs
    simp only [List.mem_cons, List.not_mem_nil, or_false] at hs
    rcases hs with rfl | rfl | rfl <;> decide
  · simp [manyThreads, shapeCode_instr]

/-- an operation shaped like the real methods: clock read; `with self._lock:`; section; release -/
def lockedOp (f : L → S → L × S) : OpCode L S := ⟨[id], [.sh f, .rel]⟩

theorem implements_lockedOp (f : L → S → L × S) : Implements (lockedOp f) f := by
  intro l s rest; simp [lockedOp, finish, runLocs]

/-- a section made of several shared steps also implements its composite: `consume(1)` as
    `_prune(now)` followed by test-and-append -/
def consumeOp (cfg : Budget.Cfg) (now : Nat) : OpCode (Option Bool) Budget.St :=
  ⟨[id, id],
   [.sh (fun l s => (l, { events := Budget.prune cfg.window now s.events })),
    .sh (fun _ s => if s.events.length + 1 > cfg.maxRetries then (some false, s)
                    else (some true, { events := s.events ++ [now] })),
    .rel]⟩

theorem implements_consumeOp (cfg : Budget.Cfg) (now : Nat) :
    Implements (consumeOp cfg now) (ret fun s => Budget.consume cfg s now 1) := by
  intro l s rest
  simp only [consumeOp, runLocs, finish, List.cons_append, List.nil_append, ret, Budget.consume]
  split <;> simp

/-- two idle-otherwise threads running `o0` and `o1` -/
def twoThreads {R : Type} (o0 o1 : OpCode (Option R) S) (s : S) : Conf (Option R) S :=
  { threads := fun i => match i with
      | 0 => ⟨none, o0.code⟩
      | 1 => ⟨none, o1.code⟩
      | _ => ⟨none, []⟩,
    shared := s, holder := none }

def cfgEx : Breaker.Cfg :=
  { failureThreshold := 2, window := 10, recovery := 5, tripOn := fun _ => true,
    classThreshold := fun _ => none }

/-- OPEN since 0, clock now at the recovery boundary 5 -/
def openAtBoundary : Breaker.St := { state := .opened, openedAt := some 0 }
/-- CLOSED with one failure at 0 (threshold 2) -/
def closedOneShort : Breaker.St := { failures := [0] }

def probeRace := twoThreads (lockedOp (ret fun s => Breaker.allow cfgEx s 5))
  (lockedOp (ret fun s => Breaker.allow cfgEx s 5)) openAtBoundary

theorem probeRace_WL : WL probeRace := by
  intro i
  match i with
  | 0 => rfl
  | 1 => rfl
  | n + 2 => rfl

/-- the hypotheses of `racing_probes_exactly_one_allowed` hold of `probeRace`, a complete
    interleaving exists (thread 1 overtakes thread 0 between its clock read and its `with`), and the
    theorem applies to it -/
example : ∃ cf, exec probeRace [0, 1, 1, 1, 1, 0, 0, 0] = some cf ∧ Terminal cf ∧
    ∃ r0 r1, (cf.threads 0).loc = some r0 ∧ (cf.threads 1).loc = some r1 ∧
      ((r0.1 = true ∧ r1.1 = false) ∨ (r0.1 = false ∧ r1.1 = true)) ∧
      cf.shared.state = .halfOpen ∧ cf.shared.probe = true := by
  refine ⟨_, rfl, ?_, ?_⟩
  · intro i
    match i with
    | 0 => rfl
    | 1 => rfl
    | n + 2 => rfl
  · refine racing_probes_exactly_one_allowed cfgEx 5 5 probeRace _ [0, 1, 1, 1, 1, 0, 0, 0]
      _ _ probeRace_WL rfl rfl rfl (fun i hi => by match i, hi with | n + 2, _ => rfl)
      (implements_lockedOp _) (implements_lockedOp _)
      (Or.inl ⟨0, rfl, rfl, by decide, by decide⟩) rfl ?_
    intro i
    match i with
    | 0 => rfl
    | 1 => rfl
    | n + 2 => rfl

def failureRace := twoThreads
  (lockedOp (ret fun s => Breaker.recordFailure cfgEx s .transient 3))
  (lockedOp (ret fun s => Breaker.recordFailure cfgEx s .serverError 4)) closedOneShort

/-- hypotheses of `racing_failures_open_exactly_once` are satisfiable -/
example : WL failureRace ∧ failureRace.shared.state = .closed ∧
    (Breaker.noteFailure cfgEx failureRace.shared .transient 3).1 = true ∧
    (Breaker.noteFailure cfgEx failureRace.shared .serverError 4).1 = true ∧
    ∃ cf, exec failureRace [1, 0, 0, 0, 0, 1, 1, 1] = some cf ∧ Terminal cf := by
  refine ⟨?_, rfl, by decide, by decide, _, rfl, ?_⟩
  · intro i
    match i with
    | 0 => rfl
    | 1 => rfl
    | n + 2 => rfl
  · intro i
    match i with
    | 0 => rfl
    | 1 => rfl
    | n + 2 => rfl

def budgetCfgEx : Budget.Cfg := { maxRetries := 2, window := 10 }

def consumeRace := twoThreads (consumeOp budgetCfgEx 7) (consumeOp budgetCfgEx 7) ({ events := [3] } : Budget.St)

/-- hypotheses of `racing_consume_never_overgrants` are satisfiable (with the multi-step section) -/
example : WL consumeRace ∧ 0 < budgetCfgEx.window ∧
    (Budget.prune budgetCfgEx.window 7 consumeRace.shared.events).length + 1 = budgetCfgEx.maxRetries ∧
    ∃ cf, exec consumeRace [0, 1, 0, 1, 1, 1, 1, 1, 0, 0, 0, 0] = some cf ∧ Terminal cf := by
  refine ⟨?_, by decide, by decide, _, rfl, ?_⟩
  · intro i
    match i with
    | 0 => rfl
    | 1 => rfl
    | n + 2 => rfl
  · intro i
    match i with
    | 0 => rfl
    | 1 => rfl
    | n + 2 => rfl

/-- the sequential facts are not vacuous -/
example : (Breaker.allow cfgEx openAtBoundary 5).1.1 = true ∧
    (Breaker.allow cfgEx (Breaker.allow cfgEx openAtBoundary 5).2 5).1.1 = false := by decide
example : (Budget.consume budgetCfgEx { events := [3] } 7 1).1 = true ∧
    (Budget.consume budgetCfgEx (Budget.consume budgetCfgEx { events := [3] } 7 1).2 7 1).1 = false := by
  decide

end Examples

end Redress.C17
