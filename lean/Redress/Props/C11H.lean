/-
  C11H — `execute()`'s outcome reports `attempts` = the number of times the operation was invoked,
  also in the runs `Mon.C11` does not judge because an attempt hook or the abort predicate RAISED.

  The theorem is about `Mon.C11H.ok` (Redress/MonitorsNR.lean), the monitor the driver also evaluates on the
  implementation's logs: for EVERY configuration, entry point and world (answer stream, clock, component
  states) the model's run satisfies it.

  Scope of the monitor: `execute()` with a retry loop, and no invocation of the operation FOLLOWS a start
  hook / abort predicate that raised a plain `Exception` (`preOpFault`).  In scope, in particular: hooks or
  `abort_if` raising `AbortRetryError` / cancellation kinds / `RetryExhaustedError`; end hooks raising
  anything; a start hook / `abort_if` raising a plain `Exception` that ends the run without another
  invocation; calls rejected by the breaker.

  Proof.  `execPre` sets `attempts := attempt` only AFTER the abort poll and the start hook returned and
  immediately before the invocation, and everything else in the loop leaves `attempts` and the number of `op`
  exchanges alone (`Q`, proved for every procedure of the loop in `section QSpecs`).  Invariant at the top
  of attempt `a` (`Top a`): unless the run is out of scope, `attempts` = #`op` exchanges, and = `a - 1` as
  long as no start hook / abort poll has failed.  An attempt leaves the loop going (`none`) either after
  its invocation (`Aft a`) or — never having invoked the operation — because its abort poll / start hook
  raised a plain `Exception`; the latter is visible in the log (`faulted`), and the next invocation then
  puts the run out of scope.  At policy level the outcome passes through unchanged and only breaker /
  metric / log exchanges are added (`Foot polK`).
-/
import Redress.Lemmas.Footprint
import Redress.MonitorsNR

open Std.Do

namespace Redress.Props.C11H
open Redress Redress.Retry Redress.Mon Redress.Mon.C11H

abbrev Log := List (Req × Ans)

/-! ### the monitor's ingredients, as functions of the world's (newest-first) log -/

/-- invocations so far -/
def ops (tr : Log) : Nat := opCount tr
/-- a start hook / abort predicate has raised a plain `Exception` -/
def faulted (tr : Log) : Bool := tr.any isPreOpFault
/-- …and the operation was invoked afterwards: the monitor's guard -/
def bad (tr : Log) : Bool := preOpFault tr.reverse

theorem opCount_reverse (t : Log) : opCount t.reverse = opCount t := by
  simp [opCount, List.filter_reverse]

theorem preOpFault_snoc (t : Log) (x : Req × Ans) :
    preOpFault (t ++ [x]) = (preOpFault t || (isOp x.1 && t.any isPreOpFault)) := by
  induction t with
  | nil => simp [preOpFault]
  | cons y t ih =>
    simp only [List.cons_append, preOpFault, ih, List.any_append, List.any_cons, List.any_nil,
      Bool.or_false]
    generalize isPreOpFault y = b1
    generalize isOp x.1 = b2
    generalize preOpFault t = b3
    generalize (t.any fun y => isOp y.1) = b4
    generalize t.any isPreOpFault = b5
    cases b1 <;> cases b2 <;> cases b3 <;> cases b4 <;> cases b5 <;> rfl

theorem ops_cons (x : Req × Ans) (tr : Log) : ops (x :: tr) = ops tr + (if isOp x.1 = true then 1 else 0) := by
  simp only [ops, opCount, List.filter_cons]
  split <;> simp

theorem faulted_cons (x : Req × Ans) (tr : Log) : faulted (x :: tr) = (isPreOpFault x || faulted tr) := by
  simp [faulted]

theorem bad_cons (x : Req × Ans) (tr : Log) : bad (x :: tr) = (bad tr || (isOp x.1 && faulted tr)) := by
  simp [bad, faulted, preOpFault_snoc]

/-! ### quiet steps: anything but an invocation -/

/-- `w` arises from `w0` by steps that leave the invocation count, the guard and `execute()`'s local
    `attempts` as they are; `faulted` can only become true (everything else is free) -/
def Q (w0 w : World) : Prop :=
  ops w.trace = ops w0.trace ∧ bad w.trace = bad w0.trace ∧ w.attempts = w0.attempts ∧
    (faulted w0.trace = true → faulted w.trace = true)

theorem Q.refl (w : World) : Q w w := ⟨rfl, rfl, rfl, id⟩

/-- one exchange that is not an invocation -/
theorem Q.cons {w0 : World} {tr : Log} {n : Nat} (r : Req) (a : Ans) (hk : isOp r = false)
    (h : ops tr = ops w0.trace ∧ bad tr = bad w0.trace ∧ n = w0.attempts ∧
      (faulted w0.trace = true → faulted tr = true)) :
    ops ((r, a) :: tr) = ops w0.trace ∧ bad ((r, a) :: tr) = bad w0.trace ∧ n = w0.attempts ∧
      (faulted w0.trace = true → faulted ((r, a) :: tr) = true) := by
  simp only [ops_cons, bad_cons, faulted_cons, hk]
  refine ⟨by simpa using h.1, by simpa using h.2.1, h.2.2.1, fun h0 => ?_⟩
  simp [h.2.2.2 h0]

abbrev qPost (w0 : World) : PostCond α (.except Exn (.arg World .pure)) :=
  post⟨fun _ w => ⌜Q w0 w⌝, fun _ w => ⌜Q w0 w⌝⟩

macro "q_close" : tactic => `(tactic| all_goals (
  (try subst_vars) <;> (try intros) <;>
  (try simp +zetaDelta only [Q, restore_dummy, true_and, and_true, ne_eq, reduceCtorEq, not_false_eq_true,
    false_implies, implies_true, forall_const] at *) <;>
  first
    | assumption
    | rfl
    | exact Q.cons _ _ rfl (by assumption)
    | (simp_all; done)
    | (and_intros <;> first | (simp_all [isFault]; done) | (intros; simp_all [isFault]; done))
    | skip))

/-! ### every procedure of the loop but `invokeOp` / `execPre` and what contains them is quiet

One lemma per procedure, same shape (and, below `emit`, same two-line proof) as the `_ext` family of
`Lemmas/Footprint.lean`.  `mvcgen` instantiates the origin `w0` of a callee's specification with the state at
the call, so the value facts read "the outcome's `attempts` is the `attempts` local at the time of the call".
The `[local spec]` attributes end with the section: further down the same procedures get invariant-style
specifications. -/
section QSpecs

section
variable (w0 : World)

theorem ask_q (r : Req) (hk : isOp r = false) :
    ⦃fun w => ⌜Q w0 w⌝⦄ ask r ⦃qPost w0⦄ := by
  mvcgen [ask]
  all_goals (simp only [Q] at *; exact Q.cons _ _ hk (by assumption))

theorem askHook_q (r : Req) (hk : isOp r = false) :
    ⦃fun w => ⌜Q w0 w⌝⦄ askHook r ⦃qPost w0⦄ :=
  askHook_triple r (ask_q w0 r hk) (fun w h => presil_cases (Q w0) w (fun _ => h))

end
attribute [local spec] ask_q askHook_q

theorem askMetric_q (w0 : World) (ev : Event) (a s : Nat) (t : Tags) :
    ⦃fun w => ⌜Q w0 w⌝⦄ askMetric ev a s t ⦃qPost w0⦄ := by
  mvcgen [askMetric]
  q_close
attribute [local spec] askMetric_q

theorem askLog_q (w0 : World) (ev : Event) (a s : Nat) (t : Tags) (ra : Option Int) :
    ⦃fun w => ⌜Q w0 w⌝⦄ askLog ev a s t ra ⦃qPost w0⦄ := by
  mvcgen [askLog]
  q_close
attribute [local spec] askLog_q

theorem setStop_q (w0 : World) (s : StopReason) :
    ⦃fun w => ⌜Q w0 w⌝⦄ setStop s ⦃qPost w0⦄ := by
  mvcgen [setStop, modifyRS]
  q_close
attribute [local spec] setStop_q

theorem recordTimeline_q (w0 : World) (ev : Event) (a s : Nat) (t : Tags) :
    ⦃fun w => ⌜Q w0 w⌝⦄ recordTimeline ev a s t ⦃qPost w0⦄ := by
  mvcgen [recordTimeline]
  q_close
attribute [local spec] recordTimeline_q

theorem metricHook_q (w0 : World) (cfg : Cfg) (tl : Bool) (ev : Event) (a s : Nat) (t : Tags) :
    ⦃fun w => ⌜Q w0 w⌝⦄ metricHook cfg tl ev a s t ⦃qPost w0⦄ := by
  mvcgen [metricHook]
  q_close
attribute [local spec] metricHook_q

theorem emit_q (w0 : World) (cfg : Cfg) (tl : Bool) (ev : Event) (attempt sleep : Nat) (klass : Option EClass) (exc : Option Exn) (stop : Option StopReason) (cause : Option Cause) (cls : Option Classification) :
    ⦃fun w => ⌜Q w0 w⌝⦄ emit cfg tl ev attempt sleep klass exc stop cause cls
    ⦃post⟨fun _ w => ⌜Q w0 w⌝, fun e w => ⌜e.isException = false ∧ Q w0 w⌝⟩⦄ := by
  mvcgen [emit, swallowException]
  q_close
attribute [local spec] emit_q

theorem checkAbort_q (w0 : World) (cfg : Cfg) (tl : Bool) (attempt : Nat) :
    ⦃fun w => ⌜Q w0 w⌝⦄ checkAbort cfg tl attempt ⦃qPost w0⦄ := by
  mvcgen [checkAbort]
  q_close
attribute [local spec] checkAbort_q

theorem retryRecordFailure_q (w0 : World) (c : Classification) (cause : Cause) (e : Option Exn) (r : Option Nat) :
    ⦃fun w => ⌜Q w0 w⌝⦄ Retry.recordFailure c cause e r ⦃qPost w0⦄ := by
  mvcgen [Retry.recordFailure, modifyRS]
  q_close
attribute [local spec] retryRecordFailure_q

theorem recordStrategySuccess_q (w0 : World) (cfg : Cfg) :
    ⦃fun w => ⌜Q w0 w⌝⦄ recordStrategySuccess cfg ⦃qPost w0⦄ := by
  mvcgen [recordStrategySuccess, getRS]
  q_close
attribute [local spec] recordStrategySuccess_q

theorem callStrategy_q (w0 : World) (key : SKey) (kind : SKind) (ctx : BackoffCtx) :
    ⦃fun w => ⌜Q w0 w⌝⦄ callStrategy key kind ctx ⦃qPost w0⦄ := by
  mvcgen [callStrategy]
  q_close
attribute [local spec] callStrategy_q

theorem stratRecordFailure_q (w0 : World) (cfg : Cfg) (key : SKey) (k : EClass) :
    ⦃fun w => ⌜Q w0 w⌝⦄ stratRecordFailure cfg key k ⦃qPost w0⦄ := by
  mvcgen [stratRecordFailure]
  q_close
attribute [local spec] stratRecordFailure_q

theorem budgetConsume_q (w0 : World) (cfg : Cfg) :
    ⦃fun w => ⌜Q w0 w⌝⦄ budgetConsume cfg ⦃qPost w0⦄ := by
  mvcgen [budgetConsume]
  q_close
attribute [local spec] budgetConsume_q

theorem stopWith_q (w0 : World) (cfg : Cfg) (tl : Bool) (s : StopReason) (ev : Event) (attempt : Nat) (k : EClass) (exc : Option Exn) (cause : Cause) :
    ⦃fun w => ⌜Q w0 w⌝⦄ stopWith cfg tl s ev attempt k exc cause ⦃qPost w0⦄ := by
  mvcgen [stopWith]
  q_close
attribute [local spec] stopWith_q

theorem grantRetry_q (w0 : World) (cfg : Cfg) (tl : Bool) (c : Classification) (a : Nat) (cause : Cause) (e : Option Exn) (key : SKey) (kind : SKind) (rem : Nat) :
    ⦃fun w => ⌜Q w0 w⌝⦄ grantRetry cfg tl c a cause e key kind rem ⦃qPost w0⦄ := by
  mvcgen [grantRetry, getRS, modifyRS]
  q_close
attribute [local spec] grantRetry_q

theorem handleFailure2_q (w0 : World) (cfg : Cfg) (tl : Bool) (c : Classification) (a : Nat) (cause : Cause) (e : Option Exn) :
    ⦃fun w => ⌜Q w0 w⌝⦄ handleFailure2 cfg tl c a cause e ⦃qPost w0⦄ := by
  mvcgen [handleFailure2, elapsed, modifyRS]
  q_close
attribute [local spec] handleFailure2_q

theorem handleUnknown_q (w0 : World) (cfg : Cfg) (tl : Bool) (c : Classification) (a : Nat) (cause : Cause) (e : Option Exn) :
    ⦃fun w => ⌜Q w0 w⌝⦄ handleUnknown cfg tl c a cause e ⦃qPost w0⦄ := by
  mvcgen [handleUnknown, getRS, modifyRS]
  q_close
attribute [local spec] handleUnknown_q

theorem handleFailure1_q (w0 : World) (cfg : Cfg) (tl : Bool) (c : Classification) (a : Nat) (cause : Cause) (e : Option Exn) :
    ⦃fun w => ⌜Q w0 w⌝⦄ handleFailure1 cfg tl c a cause e ⦃qPost w0⦄ := by
  mvcgen [handleFailure1, getRS]
  q_close
attribute [local spec] handleFailure1_q

theorem handleFailure_q (w0 : World) (cfg : Cfg) (tl : Bool) (c : Classification) (a : Nat) (cause : Cause) (e : Option Exn) (r : Option Nat) :
    ⦃fun w => ⌜Q w0 w⌝⦄ handleFailure cfg tl c a cause e r ⦃qPost w0⦄ := by
  mvcgen [handleFailure, modifyRS]
  q_close
attribute [local spec] handleFailure_q

theorem callClassifier_q (w0 : World) (e : Exn) :
    ⦃fun w => ⌜Q w0 w⌝⦄ callClassifier e ⦃qPost w0⦄ := by
  mvcgen [callClassifier]
  q_close
attribute [local spec] callClassifier_q

theorem handleException_q (w0 : World) (cfg : Cfg) (tl : Bool) (e : Exn) (a : Nat) :
    ⦃fun w => ⌜Q w0 w⌝⦄ handleException cfg tl e a ⦃qPost w0⦄ := by
  mvcgen [handleException]
  q_close
attribute [local spec] handleException_q

theorem buildOutcome_q (w0 : World) (ok : Bool) (value : Option Nat) (n : Nat) (ns : Option Nat) :
    ⦃fun w => ⌜Q w0 w⌝⦄ buildOutcome ok value n ns
    ⦃post⟨fun o w => ⌜o.attempts = n ∧ Q w0 w⌝, fun _ w => ⌜Q w0 w⌝⟩⦄ := by
  mvcgen [buildOutcome, getRS, elapsed]
  q_close
attribute [local spec] buildOutcome_q

theorem emitAbortedOnce_q (w0 : World) (cfg : Cfg) (tl : Bool) (a : Nat) :
    ⦃fun w => ⌜Q w0 w⌝⦄ emitAbortedOnce cfg tl a ⦃qPost w0⦄ := by
  mvcgen [emitAbortedOnce, getRS]
  q_close
attribute [local spec] emitAbortedOnce_q

theorem abortOutcome_q (w0 : World) (cfg : Cfg) (tl : Bool) (a : Nat) :
    ⦃fun w => ⌜Q w0 w⌝⦄ abortOutcome cfg tl a
    ⦃post⟨fun o w => ⌜o.attempts = a ∧ Q w0 w⌝, fun _ w => ⌜Q w0 w⌝⟩⦄ := by
  mvcgen [abortOutcome]
  q_close
attribute [local spec] abortOutcome_q

theorem callAttemptStart_q (w0 : World) (cfg : Cfg) (a : Nat) :
    ⦃fun w => ⌜Q w0 w⌝⦄ callAttemptStart cfg a ⦃qPost w0⦄ := by
  mvcgen [callAttemptStart, elapsed]
  q_close
attribute [local spec] callAttemptStart_q

theorem callAttemptEnd_q (w0 : World) (cfg : Cfg) (attempt : Nat) (cls : Option Classification) (exc : Option Exn) (result : Option Nat) (d : AttemptDecision) (stop : Option StopReason) (cause : Option Cause) (sleep : Option Nat) :
    ⦃fun w => ⌜Q w0 w⌝⦄ callAttemptEnd cfg attempt cls exc result d stop cause sleep ⦃qPost w0⦄ := by
  mvcgen [callAttemptEnd, elapsed]
  q_close
attribute [local spec] callAttemptEnd_q

theorem callAttemptEndFromOutcome_q (w0 : World) (cfg : Cfg) (a : Nat) (o : AOutcome) :
    ⦃fun w => ⌜Q w0 w⌝⦄ callAttemptEndFromOutcome cfg a o ⦃qPost w0⦄ := by
  mvcgen [callAttemptEndFromOutcome]
  q_close
attribute [local spec] callAttemptEndFromOutcome_q

theorem finalizeAttempt_q (w0 : World) (cfg : Cfg) (tl : Bool) (a : Nat) (d : Decision) (act : Option SleepDecision) (cls : Option Classification) (e : Option Exn) (r : Option Nat) (c : Option Cause) :
    ⦃fun w => ⌜Q w0 w⌝⦄ finalizeAttempt cfg tl a d act cls e r c ⦃qPost w0⦄ := by
  mvcgen [finalizeAttempt, getRS, elapsed]
  q_close
attribute [local spec] finalizeAttempt_q

theorem handleSleepDecision_q (w0 : World) (cfg : Cfg) (tl : Bool) (act : SleepDecision) (a s : Nat) :
    ⦃fun w => ⌜Q w0 w⌝⦄ handleSleepDecision cfg tl act a s ⦃qPost w0⦄ := by
  mvcgen [handleSleepDecision, getRS]
  q_close
attribute [local spec] handleSleepDecision_q

theorem callBeforeSleep_q (w0 : World) (cfg : Cfg) (ctx : BackoffCtx) (s : Nat) :
    ⦃fun w => ⌜Q w0 w⌝⦄ callBeforeSleep cfg ctx s ⦃qPost w0⦄ := by
  mvcgen [callBeforeSleep, swallowException]
  q_close
attribute [local spec] callBeforeSleep_q

theorem callSleeper_q (w0 : World) (cfg : Cfg) (s : Nat) :
    ⦃fun w => ⌜Q w0 w⌝⦄ callSleeper cfg s ⦃qPost w0⦄ := by
  mvcgen [callSleeper]
  q_close
attribute [local spec] callSleeper_q

theorem callSleepHandler_q (w0 : World) (lvl : Lvl) (ctx : BackoffCtx) (s : Nat) :
    ⦃fun w => ⌜Q w0 w⌝⦄ callSleepHandler lvl ctx s ⦃qPost w0⦄ := by
  mvcgen [callSleepHandler]
  q_close
attribute [local spec] callSleepHandler_q

theorem sleepAction_q (w0 : World) (cfg : Cfg) (tl : Bool) (a s : Nat) (ctx : BackoffCtx) :
    ⦃fun w => ⌜Q w0 w⌝⦄ sleepAction cfg tl a s ctx ⦃qPost w0⦄ := by
  mvcgen [sleepAction]
  q_close
attribute [local spec] sleepAction_q

theorem failureOutcome_q (w0 : World) (cfg : Cfg) (tl : Bool) (a : Nat) (d : Decision) (cls : Option Classification) (e : Option Exn) (r : Option Nat) (c : Option Cause) :
    ⦃fun w => ⌜Q w0 w⌝⦄ failureOutcome cfg tl a d cls e r c ⦃qPost w0⦄ := by
  mvcgen [failureOutcome]
  q_close
attribute [local spec] failureOutcome_q

theorem shouldClassifyResult_q (w0 : World) (cfg : Cfg) (x : Nat) :
    ⦃fun w => ⌜Q w0 w⌝⦄ shouldClassifyResult cfg x ⦃qPost w0⦄ := by
  mvcgen [shouldClassifyResult]
  q_close
attribute [local spec] shouldClassifyResult_q

theorem handleSuccessAttemptEnd_q (w0 : World) (cfg : Cfg) (tl : Bool) (a x : Nat) :
    ⦃fun w => ⌜Q w0 w⌝⦄ handleSuccessAttemptEnd cfg tl a x ⦃qPost w0⦄ := by
  mvcgen [handleSuccessAttemptEnd]
  q_close
attribute [local spec] handleSuccessAttemptEnd_q

theorem handleAbortAttemptEnd_q (w0 : World) (cfg : Cfg) (a : Nat) (e : Exn) :
    ⦃fun w => ⌜Q w0 w⌝⦄ handleAbortAttemptEnd cfg a e ⦃qPost w0⦄ := by
  mvcgen [handleAbortAttemptEnd, getAS, modifyAS]
  q_close
attribute [local spec] handleAbortAttemptEnd_q

theorem emitMaxAttemptsExceeded_q (w0 : World) (cfg : Cfg) (tl : Bool) :
    ⦃fun w => ⌜Q w0 w⌝⦄ emitMaxAttemptsExceeded cfg tl ⦃qPost w0⦄ := by
  mvcgen [emitMaxAttemptsExceeded, getRS]
  q_close
attribute [local spec] emitMaxAttemptsExceeded_q

theorem deliverExecute_q (w0 : World) (cfg : Cfg) (tl : Bool) (act : Action) (o : AOutcome) :
    ⦃fun w => ⌜Q w0 w⌝⦄ deliverExecute cfg tl act o
    ⦃post⟨fun r w => ⌜(∀ o, r = some o → o.attempts = w0.attempts) ∧ Q w0 w⌝, fun _ w => ⌜Q w0 w⌝⟩⦄ := by
  mvcgen [deliverExecute]
  q_close
attribute [local spec] deliverExecute_q

theorem execResultFailure_q (w0 : World) (cfg : Cfg) (tl : Bool) (a x : Nat) (c : Classification) :
    ⦃fun w => ⌜Q w0 w⌝⦄ execResultFailure cfg tl a x c
    ⦃post⟨fun r w => ⌜(∀ o, r = some o → o.attempts = w0.attempts) ∧ Q w0 w⌝, fun _ w => ⌜Q w0 w⌝⟩⦄ := by
  mvcgen [execResultFailure, getRS, modifyAS]
  q_close
attribute [local spec] execResultFailure_q

theorem execResultPath_q (w0 : World) (cfg : Cfg) (tl : Bool) (a x : Nat) (ha : w0.attempts = a) :
    ⦃fun w => ⌜Q w0 w⌝⦄ execResultPath cfg tl a x
    ⦃post⟨fun r w => ⌜(∀ o, r = some o → o.attempts = w0.attempts) ∧ Q w0 w⌝, fun _ w => ⌜Q w0 w⌝⟩⦄ := by
  mvcgen [execResultPath]
  q_close
attribute [local spec] execResultPath_q

theorem execAbortExit_q (w0 : World) (cfg : Cfg) (tl : Bool) (a : Nat) (e : Exn) :
    ⦃fun w => ⌜Q w0 w⌝⦄ execAbortExit cfg tl a e
    ⦃post⟨fun r w => ⌜r ≠ none ∧ (∀ o, r = some o → o.attempts = w0.attempts) ∧ Q w0 w⌝, fun _ w => ⌜Q w0 w⌝⟩⦄ := by
  mvcgen [execAbortExit]
  q_close
attribute [local spec] execAbortExit_q

theorem checkAbortCaught_q (w0 : World) (cfg : Cfg) (tl : Bool) (a : Nat) :
    ⦃fun w => ⌜Q w0 w⌝⦄ checkAbortCaught cfg tl a ⦃qPost w0⦄ := by
  mvcgen [checkAbortCaught, abortToTrue]
  q_close
attribute [local spec] checkAbortCaught_q

theorem execExceptionPath3_q (w0 : World) (cfg : Cfg) (tl : Bool) (a : Nat) (e : Exn) (d : Decision) :
    ⦃fun w => ⌜Q w0 w⌝⦄ execExceptionPath3 cfg tl a e d
    ⦃post⟨fun r w => ⌜(∀ o, r = some o → o.attempts = w0.attempts) ∧ Q w0 w⌝, fun _ w => ⌜Q w0 w⌝⟩⦄ := by
  mvcgen [execExceptionPath3, getRS, modifyAS]
  q_close
attribute [local spec] execExceptionPath3_q

theorem execExceptionPath2_q (w0 : World) (cfg : Cfg) (tl : Bool) (a : Nat) (e : Exn) :
    ⦃fun w => ⌜Q w0 w⌝⦄ execExceptionPath2 cfg tl a e
    ⦃post⟨fun r w => ⌜(∀ o, r = some o → o.attempts = w0.attempts) ∧ Q w0 w⌝, fun _ w => ⌜Q w0 w⌝⟩⦄ := by
  mvcgen [execExceptionPath2, getRS, modifyAS]
  q_close
attribute [local spec] execExceptionPath2_q

theorem execExceptionPath_q (w0 : World) (cfg : Cfg) (tl : Bool) (a : Nat) (e : Exn) :
    ⦃fun w => ⌜Q w0 w⌝⦄ execExceptionPath cfg tl a e
    ⦃post⟨fun r w => ⌜(∀ o, r = some o → o.attempts = w0.attempts) ∧ Q w0 w⌝, fun _ w => ⌜Q w0 w⌝⟩⦄ := by
  mvcgen [execExceptionPath, modifyAS]
  q_close
attribute [local spec] execExceptionPath_q

theorem execHandler_q (w0 : World) (cfg : Cfg) (tl : Bool) (a : Nat) (e : Exn) :
    ⦃fun w => ⌜Q w0 w⌝⦄ execHandler cfg tl a e
    ⦃post⟨fun r w => ⌜(∀ o, r = some o → o.attempts = w0.attempts) ∧ (r = none → isFault e = true) ∧ Q w0 w⌝, fun _ w => ⌜Q w0 w⌝⟩⦄ := by
  mvcgen [execHandler]
  q_close
attribute [local spec] execHandler_q

theorem execReturnedHandler_q (w0 : World) (cfg : Cfg) (tl : Bool) (a : Nat) (e : Exn) :
    ⦃fun w => ⌜Q w0 w⌝⦄ execReturnedHandler cfg tl a e
    ⦃post⟨fun r w => ⌜(∀ o, r = some o → o.attempts = w0.attempts) ∧ Q w0 w⌝, fun _ w => ⌜Q w0 w⌝⟩⦄ := by
  mvcgen [execReturnedHandler]
  q_close
attribute [local spec] execReturnedHandler_q

theorem buildExhaustedOutcome_q (w0 : World) (cfg : Cfg) (tl : Bool) :
    ⦃fun w => ⌜Q w0 w⌝⦄ buildExhaustedOutcome cfg tl
    ⦃post⟨fun o w => ⌜o.attempts = w0.attempts ∧ Q w0 w⌝, fun _ w => ⌜Q w0 w⌝⟩⦄ := by
  mvcgen [buildExhaustedOutcome]
  q_close
attribute [local spec] buildExhaustedOutcome_q

end QSpecs

/-! ### the invariant -/

/-- unless the run is out of scope, `attempts` is the number of invocations -/
def GoodP (tr : Log) (n : Nat) : Prop := bad tr = false → n = ops tr

/-- at the top of attempt `a`: moreover, unless a start hook / abort poll has failed, `a - 1` invocations
    have been made -/
def TopP (a : Nat) (tr : Log) (n : Nat) : Prop :=
  bad tr = false → n = ops tr ∧ (faulted tr = false → ops tr + 1 = a)

def Good (w : World) : Prop := GoodP w.trace w.attempts
def Top (a : Nat) (w : World) : Prop := TopP a w.trace w.attempts
/-- after the invocation of attempt `a` -/
def Aft (a : Nat) (w : World) : Prop := w.attempts = a ∧ Good w
/-- when the part of attempt `a` up to and including the invocation raised `e` -/
def PreErr (a : Nat) (e : Exn) (w : World) : Prop := Good w ∧ (isFault e = true → Top (a + 1) w)
/-- at the end of attempt `a` -/
def StepPost (a : Nat) (r : Option Outcome) (w : World) : Prop :=
  Good w ∧ (r = none → Top (a + 1) w) ∧ (∀ o, r = some o → o.attempts = w.attempts)
/-- what the monitor checks -/
def Fin (o : Outcome) (w : World) : Prop := bad w.trace = false → o.attempts = ops w.trace

theorem Good.q {w w' : World} (h : Q w w') (hg : Good w) : Good w' := by
  obtain ⟨h1, h2, h3, _⟩ := h
  intro hb
  rw [h1, h3]
  exact hg (by rw [← h2]; exact hb)

theorem Top.q {a : Nat} {w w' : World} (h : Q w w') (ht : Top a w) : Top a w' := by
  obtain ⟨h1, h2, h3, h4⟩ := h
  intro hb
  have := ht (by rw [← h2]; exact hb)
  rw [h1, h3]
  refine ⟨this.1, fun hf => this.2 ?_⟩
  cases hf0 : faulted w.trace with
  | false => rfl
  | true => rw [h4 hf0] at hf; cases hf

theorem Aft.q {a : Nat} {w w' : World} (h : Q w w') (ht : Aft a w) : Aft a w' :=
  ⟨by rw [h.2.2.1]; exact ht.1, Good.q h ht.2⟩

theorem Top.good {a : Nat} {w : World} (h : Top a w) : Good w := fun hb => (h hb).1

theorem Aft.top {a : Nat} {w : World} (h : Aft a w) : Top (a + 1) w := by
  intro hb
  have := h.2 hb
  refine ⟨this, fun _ => ?_⟩
  rw [← this, h.1]

theorem Aft.preErr {a : Nat} {w : World} (e : Exn) (h : Aft a w) : PreErr a e w := ⟨h.2, fun _ => h.top⟩

/-- from a specification relative to an origin to one about an invariant -/
theorem of_q {α : Type} {x : M α} (P : World → Prop) (R : α → World → World → Prop)
    (E : Exn → World → World → Prop) (P' : α → World → Prop) (E' : Exn → World → Prop)
    (hx : ∀ w0, P w0 → ⦃fun w => ⌜Q w0 w⌝⦄ x ⦃post⟨fun r w => ⌜R r w0 w⌝, fun e w => ⌜E e w0 w⌝⟩⦄)
    (hR : ∀ r w0 w, P w0 → R r w0 w → P' r w) (hE : ∀ e w0 w, P w0 → E e w0 w → E' e w) :
    ⦃fun w => ⌜P w⌝⦄ x ⦃post⟨fun r w => ⌜P' r w⌝, fun e w => ⌜E' e w⌝⟩⦄ := by
  apply triple_of_run
  intro w hw
  have := adequacy (hx w hw) w (Q.refl w)
  generalize x.run w = res at this ⊢
  cases res with
  | ok r w' => exact hR r w w' hw this
  | error e w' => exact hE e w w' hw this

/-- the handler of the part of an attempt before the operation returned -/
theorem execHandler_top (cfg : Cfg) (tl : Bool) (a : Nat) (e : Exn) :
    ⦃fun w => ⌜PreErr a e w⌝⦄ execHandler cfg tl a e
    ⦃post⟨fun r w => ⌜StepPost a r w⌝, fun _ _ => ⌜True⌝⟩⦄ :=
  of_q (PreErr a e)
    (fun r w0 w => (∀ o, r = some o → o.attempts = w0.attempts) ∧ (r = none → isFault e = true) ∧ Q w0 w)
    (fun _ w0 w => Q w0 w) _ _
    (fun w0 _ => execHandler_q w0 cfg tl a e)
    (fun r w0 w hp ⟨h1, h2, h3⟩ =>
      ⟨Good.q h3 hp.1, fun hn => Top.q h3 (hp.2 (h2 hn)), fun o ho => by rw [h1 o ho, h3.2.2.1]⟩)
    (fun _ _ _ _ _ => trivial)

theorem execResultPath_top (cfg : Cfg) (tl : Bool) (a x : Nat) :
    ⦃fun w => ⌜Aft a w⌝⦄ execResultPath cfg tl a x
    ⦃post⟨fun r w => ⌜StepPost a r w⌝, fun _ w => ⌜Aft a w⌝⟩⦄ :=
  of_q (Aft a)
    (fun r w0 w => (∀ o, r = some o → o.attempts = w0.attempts) ∧ Q w0 w)
    (fun _ w0 w => Q w0 w) _ _
    (fun w0 hp => execResultPath_q w0 cfg tl a x hp.1)
    (fun r w0 w hp ⟨h1, h3⟩ =>
      ⟨Good.q h3 hp.2, fun _ => (Aft.q h3 hp).top, fun o ho => by rw [h1 o ho, h3.2.2.1]⟩)
    (fun _ _ _ hp h => Aft.q h hp)

theorem execReturnedHandler_top (cfg : Cfg) (tl : Bool) (a : Nat) (e : Exn) :
    ⦃fun w => ⌜Aft a w⌝⦄ execReturnedHandler cfg tl a e
    ⦃post⟨fun r w => ⌜StepPost a r w⌝, fun _ _ => ⌜True⌝⟩⦄ :=
  of_q (Aft a)
    (fun r w0 w => (∀ o, r = some o → o.attempts = w0.attempts) ∧ Q w0 w)
    (fun _ w0 w => Q w0 w) _ _
    (fun w0 _ => execReturnedHandler_q w0 cfg tl a e)
    (fun r w0 w hp ⟨h1, h3⟩ =>
      ⟨Good.q h3 hp.2, fun _ => (Aft.q h3 hp).top, fun o ho => by rw [h1 o ho, h3.2.2.1]⟩)
    (fun _ _ _ _ _ => trivial)

theorem buildExhaustedOutcome_top (cfg : Cfg) (tl : Bool) :
    ⦃fun w => ⌜Good w⌝⦄ buildExhaustedOutcome cfg tl
    ⦃post⟨fun o w => ⌜Fin o w⌝, fun _ _ => ⌜True⌝⟩⦄ :=
  of_q Good
    (fun o w0 w => o.attempts = w0.attempts ∧ Q w0 w)
    (fun _ w0 w => Q w0 w) _ _
    (fun w0 _ => buildExhaustedOutcome_q w0 cfg tl)
    (fun o w0 w hp ⟨h1, h3⟩ hb => by
      have := Good.q h3 hp hb
      rw [h1, ← h3.2.2.1]; exact this)
    (fun _ _ _ _ _ => trivial)

/-! ### the part of an attempt before the invocation: who raised what -/

theorem TopP.cons {a n : Nat} {tr : Log} (r : Req) (x : Ans) (hk : isOp r = false) (h : TopP a tr n) :
    TopP a ((r, x) :: tr) n := by
  intro hb
  rw [bad_cons] at hb
  simp only [hk, Bool.false_and, Bool.or_false] at hb
  have := h hb
  simp only [ops_cons, hk, faulted_cons, Bool.false_eq_true, if_false, Nat.add_zero, Bool.or_eq_false_iff]
  exact ⟨this.1, fun hf => this.2 hf.2⟩

theorem emit_top (a : Nat) (cfg : Cfg) (tl : Bool) (ev : Event) (attempt sleep : Nat) (klass : Option EClass)
    (exc : Option Exn) (stop : Option StopReason) (cause : Option Cause) (cls : Option Classification) :
    ⦃fun w => ⌜Top a w⌝⦄ emit cfg tl ev attempt sleep klass exc stop cause cls
    ⦃post⟨fun _ w => ⌜Top a w⌝, fun e w => ⌜e.isException = false ∧ Top a w⌝⟩⦄ :=
  of_q (Top a) (fun _ w0 w => Q w0 w) (fun e w0 w => e.isException = false ∧ Q w0 w) _ _
    (fun w0 _ => emit_q w0 cfg tl ev attempt sleep klass exc stop cause cls)
    (fun _ _ _ hp h => Top.q h hp) (fun _ _ _ hp h => ⟨h.1, Top.q h.2 hp⟩)

theorem setStop_top (a : Nat) (st : StopReason) :
    ⦃fun w => ⌜Top a w⌝⦄ setStop st ⦃post⟨fun _ w => ⌜Top a w⌝, fun _ _ => ⌜False⌝⟩⦄ := by
  mvcgen [setStop, modifyRS]

macro "pre_close" : tactic => `(tactic| all_goals (
  (try intros) <;>
  first
    | assumption
    | exact TopP.cons _ _ rfl (by assumption)
    | (refine ⟨by first | assumption | exact TopP.cons _ _ rfl (by assumption), fun hf => ?_⟩
       simp_all [isFault, faulted_cons, isPreOpFault, Exn.isException, Exn.isAbort, Exn.isExhausted])))

theorem checkAbort_top (cfg : Cfg) (tl : Bool) (a n : Nat) :
    ⦃fun w => ⌜Top a w⌝⦄ checkAbort cfg tl n
    ⦃post⟨fun _ w => ⌜Top a w⌝, fun e w => ⌜Top a w ∧ (isFault e = true → faulted w.trace = true)⌝⟩⦄ := by
  have h1 := emit_top a cfg tl
  have h2 := setStop_top a
  mvcgen [checkAbort, ask, h1, h2]
  pre_close

theorem callAttemptStart_top (cfg : Cfg) (a n : Nat) :
    ⦃fun w => ⌜Top a w⌝⦄ callAttemptStart cfg n
    ⦃post⟨fun _ w => ⌜Top a w⌝, fun e w => ⌜Top a w ∧ (isFault e = true → faulted w.trace = true)⌝⟩⦄ := by
  mvcgen [callAttemptStart, elapsed, ask]
  pre_close

/-! ### the invocation, the attempt, the loop -/

/-- just before the invocation of attempt `a`: `attempts` has been set to `a` -/
def Ready (a : Nat) (w : World) : Prop :=
  w.attempts = a ∧ (bad w.trace = false → faulted w.trace = false → ops w.trace + 1 = a)

theorem Ready.op {a : Nat} {s s' : World} (k : Nat) (x : Ans) (h : Ready a s)
    (ht : s'.trace = (Req.op k, x) :: s.trace) (ha : s'.attempts = s.attempts) : Aft a s' := by
  refine ⟨ha.trans h.1, fun hb => ?_⟩
  rw [ht, bad_cons] at hb
  simp only [isOp, Bool.true_and, Bool.or_eq_false_iff] at hb
  rw [ht, ops_cons, ha, h.1]
  simp only [isOp, if_true]
  exact (h.2 hb.1 hb.2).symm

theorem Top.ready {a : Nat} {s s' : World} (h : Top a s) (ht : s'.trace = s.trace) (ha : s'.attempts = a) :
    Ready a s' := by
  refine ⟨ha, fun hb hf => ?_⟩
  rw [ht] at hb hf ⊢
  exact (h hb).2 hf

theorem Top.preErr {a : Nat} {e : Exn} {w : World} (h : Top a w)
    (hf : isFault e = true → faulted w.trace = true) : PreErr a e w := by
  refine ⟨h.good, fun he hb => ?_⟩
  refine ⟨(h hb).1, fun hn => ?_⟩
  rw [hf he] at hn
  cases hn

theorem invokeOp_spec (a x : Nat) :
    ⦃fun w => ⌜Ready a w⌝⦄ invokeOp x ⦃post⟨fun _ w => ⌜Aft a w⌝, fun _ w => ⌜Aft a w⌝⟩⦄ := by
  mvcgen [invokeOp, ask]
  all_goals exact Ready.op _ _ (by assumption) rfl rfl

/-- The part of attempt `a` up to and including the invocation.  `attempts := a` comes AFTER the start
    hook returned: if the abort poll or the start hook raises, `attempts` is still the number of
    invocations; and if what they raise is a plain `Exception` the log now says so (`faulted`). -/
theorem execPre_spec (cfg : Cfg) (tl : Bool) (a : Nat) :
    ⦃fun w => ⌜Top a w⌝⦄ execPre cfg tl a
    ⦃post⟨fun _ w => ⌜Aft a w⌝, fun e w => ⌜PreErr a e w⌝⟩⦄ := by
  have h1 := checkAbort_top cfg tl a (a - 1)
  have h2 := callAttemptStart_top cfg a a
  have h3 := invokeOp_spec a a
  mvcgen [execPre, modifyAS, h1, h2, h3]
  all_goals (try intros)
  all_goals first
    | assumption
    | exact Top.preErr (by assumption) (by assumption)
    | exact Aft.preErr _ (by assumption)
    | (apply Top.ready <;> first | assumption | rfl)

/-- one iteration of the loop -/
theorem execAttempt_spec (cfg : Cfg) (tl : Bool) (a : Nat) :
    ⦃fun w => ⌜Top a w⌝⦄ execAttempt cfg tl a
    ⦃post⟨fun r w => ⌜StepPost a r w⌝, fun _ _ => ⌜True⌝⟩⦄ := by
  have hpre := execPre_spec cfg tl a
  have hh := execHandler_top cfg tl a
  have hrp := execResultPath_top cfg tl a
  have hrh := execReturnedHandler_top cfg tl a
  mvcgen [execAttempt, hpre, hh, hrp, hrh]
  all_goals (try intros)
  all_goals first
    | assumption
    | trivial

theorem StepPost.fin {a : Nat} {o : Outcome} {w : World} (h : StepPost a (some o) w) : Fin o w := by
  intro hb
  rw [h.2.2 o rfl]
  exact h.1 hb

/-- the loop, from the top of attempt `a` -/
theorem execLoop_spec (cfg : Cfg) (tl : Bool) : ∀ (fuel a : Nat),
    ⦃fun w => ⌜Top a w⌝⦄ execLoop cfg tl fuel a
    ⦃post⟨fun o w => ⌜Fin o w⌝, fun _ _ => ⌜True⌝⟩⦄ := by
  intro fuel
  induction fuel with
  | zero =>
    intro a
    have hb := buildExhaustedOutcome_top cfg tl
    mvcgen [execLoop, hb]
    all_goals (try intros)
    all_goals first
      | assumption
      | trivial
      | exact Top.good (by assumption)
  | succ f ih =>
    intro a
    have h := ih (a + 1)
    have hat := execAttempt_spec cfg tl a
    mvcgen [execLoop, hat, h]
    all_goals (try intros)
    all_goals first
      | assumption
      | trivial
      | exact StepPost.fin (by assumption)
      | exact (by assumption : StepPost _ _ _).2.1 rfl

/-- nothing relevant has happened yet: no invocation, no failed start hook / abort poll -/
def Pre0 (w : World) : Prop := ops w.trace = 0 ∧ faulted w.trace = false ∧ bad w.trace = false

theorem Pre0.top {s s' : World} (h : Pre0 s) (ht : s'.trace = s.trace) (ha : s'.attempts = 0) : Top 1 s' := by
  show TopP 1 s'.trace s'.attempts
  rw [ht, ha]
  intro _
  rw [h.1]
  exact ⟨rfl, fun _ => rfl⟩

/-- `Retry.execute` (and its async twin) -/
theorem runExecute_spec (cfg : Cfg) :
    ⦃fun w => ⌜Pre0 w⌝⦄ runExecute cfg ⦃post⟨fun o w => ⌜Fin o w⌝, fun _ _ => ⌜True⌝⟩⦄ := by
  have hloop := execLoop_spec cfg cfg.timeline cfg.maxAttempts 1
  mvcgen [runExecute, initState, hloop]
  all_goals (try intros)
  all_goals first
    | assumption
    | trivial
    | (apply Pre0.top <;> first | assumption | rfl)

/-! ### policy level: the outcome of `Retry.execute` passes through; nothing is invoked or polled outside it -/
open Policy

/-- every request kind but the operation's and those of the two pre-invocation callbacks -/
def polK : Kind → Bool
  | .op | .attemptStart | .abortIf => false
  | _ => true

theorem polK_inert (x : Req × Ans) (h : polK x.1.kind = true) :
    isOp x.1 = false ∧ isPreOpFault x = false := by
  obtain ⟨r, a⟩ := x
  cases r <;> simp_all [polK, Req.kind, isOp, isPreOpFault]

theorem keep_polK (δ tr : Log) (h : ∀ x ∈ δ, polK x.1.kind = true) :
    ops (δ ++ tr) = ops tr ∧ faulted (δ ++ tr) = faulted tr ∧ bad (δ ++ tr) = bad tr := by
  induction δ with
  | nil => simp
  | cons x δ ih =>
    have hx := polK_inert x (h x (by simp))
    have := ih (fun y hy => h y (by simp [hy]))
    simp only [List.cons_append, ops_cons, bad_cons, faulted_cons, hx.1, hx.2]
    simpa using this

theorem Pre0.foot {w w' : World} (h : Foot polK w w') (hp : Pre0 w) : Pre0 w' := by
  obtain ⟨δ, e, k⟩ := h.trace
  have := keep_polK δ w.trace k
  unfold Pre0
  rw [e, this.1, this.2.1, this.2.2]
  exact hp

theorem Fin.foot {o : Outcome} {w w' : World} (h : Foot polK w w') (hp : Fin o w) : Fin o w' := by
  obtain ⟨δ, e, k⟩ := h.trace
  have := keep_polK δ w.trace k
  unfold Fin
  rw [e, this.1, this.2.2]
  exact hp

/-- any program, no claim -/
theorem triple_true {α : Type} (x : M α) :
    ⦃fun _ => ⌜True⌝⦄ x ⦃post⟨fun _ _ => ⌜True⌝, fun _ _ => ⌜True⌝⟩⦄ := by
  apply triple_of_run
  intro w _
  split <;> trivial

/-- what `_execute_with_retry` does with the outcome of `retry.execute(...)`: tell the breaker, return it -/
def tail (cfg : Cfg) (o : Outcome) : M Outcome :=
  match cfg.breaker with
  | none => pure o
  | some _ =>
    if o.ok then do Policy.recordSuccess cfg; pure o
    else if o.stop = some .aborted then do Policy.recordCancel cfg; pure o
    else do Policy.recordFailure cfg (o.lastClass.getD .unknown); pure o

theorem executeWithRetry_eq (cfg : Cfg) :
    executeWithRetry cfg = (do let o ← tryCatch (runExecute cfg) (executeLadder cfg); tail cfg o) := rfl

theorem tail_spec (cfg : Cfg) (o : Outcome) :
    ⦃fun w => ⌜Fin o w⌝⦄ tail cfg o ⦃post⟨fun o' w => ⌜Fin o' w⌝, fun _ _ => ⌜True⌝⟩⦄ := by
  have h1 := inv_of_foot (Fin o) (fun w0 => recordSuccess_foot polK w0 rfl rfl rfl cfg)
    (fun _ _ hf h => Fin.foot hf h)
  have h2 := inv_of_foot (Fin o) (fun w0 => recordCancel_foot polK w0 rfl cfg)
    (fun _ _ hf h => Fin.foot hf h)
  have h3 := fun k => inv_of_foot (Fin o) (fun w0 => recordFailure_foot polK w0 rfl rfl rfl cfg k)
    (fun _ _ hf h => Fin.foot hf h)
  mvcgen [tail, h1, h2, h3]
  all_goals (try intros)
  all_goals first
    | assumption
    | trivial

/-- the `except` ladder around `retry.execute(...)` always re-raises -/
theorem executeLadder_throws (cfg : Cfg) (e : Exn) :
    ⦃fun _ => ⌜True⌝⦄ executeLadder cfg e ⦃post⟨fun _ _ => ⌜False⌝, fun _ _ => ⌜True⌝⟩⦄ := by
  have h1 := triple_true (handleExhaustedCall cfg e)
  have h2 := triple_true (Policy.recordCancel cfg)
  have h3 := triple_true (handleExceptionCall cfg e false)
  mvcgen [executeLadder, h1, h2, h3]

theorem executeWithRetry_spec (cfg : Cfg) :
    ⦃fun w => ⌜Pre0 w⌝⦄ executeWithRetry cfg ⦃post⟨fun o w => ⌜Fin o w⌝, fun _ _ => ⌜True⌝⟩⦄ := by
  rw [executeWithRetry_eq]
  have hrun := runExecute_spec cfg
  have hl := executeLadder_throws cfg
  have ht := tail_spec cfg
  mvcgen [hrun, hl, ht]
  all_goals (try intros)
  all_goals first
    | assumption
    | trivial

theorem policyOutcome_spec (ok : Bool) (value : Option Nat) (stop : Option StopReason)
    (lc : Option EClass) (le : Option String) (cause : Option Cause) :
    ⦃fun w => ⌜Pre0 w⌝⦄ policyOutcome ok value stop 0 lc le cause
    ⦃post⟨fun o w => ⌜Fin o w⌝, fun _ _ => ⌜True⌝⟩⦄ := by
  mvcgen [policyOutcome, xElapsed]
  all_goals (try intros)
  all_goals first
    | trivial
    | (intro _; exact (by assumption : Pre0 _).1.symm)

theorem executeAdmitted_spec (cfg : Cfg) (hret : cfg.hasRetry = true) :
    ⦃fun w => ⌜Pre0 w⌝⦄ executeAdmitted cfg ⦃post⟨fun o w => ⌜Fin o w⌝, fun _ _ => ⌜True⌝⟩⦄ := by
  have e2 : executeAdmitted2 cfg = executeWithRetry cfg := by
    unfold executeAdmitted2
    simp [hret]
  have hx2 : ⦃fun w => ⌜Pre0 w⌝⦄ executeAdmitted2 cfg ⦃post⟨fun o w => ⌜Fin o w⌝, fun _ _ => ⌜True⌝⟩⦄ := by
    rw [e2]; exact executeWithRetry_spec cfg
  have hba := fun bc => inv_of_foot Pre0 (fun w0 => breakerAllow_foot polK w0 rfl bc)
    (fun _ _ hf h => Pre0.foot hf h)
  have hev := fun ev st k => inv_of_foot Pre0 (fun w0 => emitBreakerEvent_foot polK w0 rfl rfl cfg ev st k)
    (fun _ _ hf h => Pre0.foot hf h)
  have hpo := policyOutcome_spec
  mvcgen [executeAdmitted, hx2, hba, hev, hpo]
  all_goals (try intros)
  all_goals first
    | assumption
    | trivial

/-- the `finally` of `Policy.execute` on the normal path -/
def settleRet (cfg : Cfg) (o : Outcome) : M Outcome := do ensureSettled cfg; pure o

theorem execute_eq (cfg : Cfg) :
    Policy.execute cfg = (do
      initCtx
      let o ← tryCatch (executeAdmitted cfg) (fun e => do ensureSettled cfg; throw e)
      settleRet cfg o) := rfl

theorem settleRet_spec (cfg : Cfg) (o : Outcome) :
    ⦃fun w => ⌜Fin o w⌝⦄ settleRet cfg o ⦃post⟨fun o' w => ⌜Fin o' w⌝, fun _ _ => ⌜True⌝⟩⦄ := by
  have h1 := inv_of_foot (Fin o) (fun w0 => ensureSettled_foot polK w0 rfl cfg)
    (fun _ _ hf h => Fin.foot hf h)
  mvcgen [settleRet, h1]
  all_goals (try intros)
  all_goals first
    | assumption
    | trivial

/-- `Policy.execute` with a retry component -/
theorem execute_retry_spec (cfg : Cfg) (hret : cfg.hasRetry = true) :
    ⦃fun w => ⌜Pre0 w⌝⦄ Policy.execute cfg ⦃post⟨fun o w => ⌜Fin o w⌝, fun _ _ => ⌜True⌝⟩⦄ := by
  rw [execute_eq]
  have hic := inv_of_foot Pre0 (fun w0 => initCtx_foot polK w0) (fun _ _ hf h => Pre0.foot hf h)
  have hadm := executeAdmitted_spec cfg hret
  have hes := triple_true (ensureSettled cfg)
  have hsr := settleRet_spec cfg
  mvcgen [hic, hadm, hes, hsr]
  all_goals (try intros)
  all_goals first
    | assumption
    | trivial

/-! ### the theorems -/

/-- the world `runEntry` starts a call from -/
def startWorld (w : World) : World := { w with trace := [], timeline := [], opCalls := 0 }

theorem pre0_start (w : World) : Pre0 (startWorld w) := ⟨rfl, rfl, rfl⟩

theorem ok_of_fin {cfg : Cfg} {e : Entry} {tr : Log} {o : Outcome} {tl : List TimelineEv}
    (h : bad tr = false → o.attempts = ops tr) :
    Mon.C11H.ok cfg e tr.reverse (.outcome o tl) = true := by
  unfold Mon.C11H.ok
  split
  · rename_i hg
    simp only [Bool.and_eq_true, Bool.not_eq_true'] at hg
    have := h hg.2
    simp only [opCount_reverse, beq_iff_eq]
    exact this
  · rfl

theorem ok_raised (cfg : Cfg) (e : Entry) (t : Trace) (x : Exn) : Mon.C11H.ok cfg e t (.raised x) = true := by
  unfold Mon.C11H.ok
  split <;> rfl

/--
**C11, `attempts` = invocations, hook faults included.**  For every configuration, every entry point and
every world — every answer stream (any callback raising anything at any invocation, in particular an
attempt hook or the abort predicate raising `AbortRetryError`, a cancellation kind, `RetryExhaustedError`
or a plain `Exception`), every clock value, every state of a shared budget or breaker — the run satisfies
`Mon.C11H.ok`: if `execute()` (of a `Retry`, or of a `Policy` with a retry component) returns an outcome
and no invocation of the operation follows a start hook / abort predicate that raised a plain `Exception`,
then `outcome.attempts` is the number of `op` exchanges in the log.
-/
theorem attempts_eq_invocations (cfg : Cfg) (e : Entry) (w : World) :
    Mon.C11H.ok cfg e (runEntry cfg e w).2.trace.reverse (runEntry cfg e w).1 = true := by
  cases e with
  | call => simp [Mon.C11H.ok, Entry.isExecute]
  | pcall => simp [Mon.C11H.ok, Entry.isExecute]
  | execute =>
    have := adequacy (runExecute_spec cfg) (startWorld w) (pre0_start w)
    simp only [runEntry, startWorld] at this ⊢
    split at this <;> rename_i heq <;> simp only [heq, toResO]
    · exact ok_of_fin this
    · exact ok_raised ..
  | pexecute =>
    cases hret : cfg.hasRetry with
    | false => simp [Mon.C11H.ok, hasLoop, hret, Entry.isPolicy]
    | true =>
      have := adequacy (execute_retry_spec cfg hret) (startWorld w) (pre0_start w)
      simp only [runEntry, startWorld] at this ⊢
      split at this <;> rename_i heq <;> simp only [heq, toResO]
      · exact ok_of_fin this
      · exact ok_raised ..

/-- …and therefore of every call in every script of calls and clock advances on ONE policy object,
    whatever state earlier calls left behind. -/
theorem attempts_eq_invocations_script (cfg : Cfg) : ∀ (steps : List Step) (w : World),
    ∀ l ∈ (runScript cfg steps w).1, Mon.C11H.ok cfg l.entry l.trace l.res = true := by
  intro steps
  induction steps with
  | nil => intro w l hl; simp [runScript] at hl
  | cons st rest ih =>
    intro w l hl
    cases st with
    | advance d => exact ih _ l (by simpa [runScript] using hl)
    | run e =>
      simp only [runScript, List.mem_cons] at hl
      rcases hl with rfl | hl
      · exact attempts_eq_invocations cfg e w
      · exact ih _ l hl

/-- The same, as a statement about the run: `o.attempts` is the number of `op` exchanges of the log. -/
theorem attempts_eq_invocations_logical (cfg : Cfg) (e : Entry) (w : World) (o : Outcome)
    (tl : List TimelineEv)
    (he : e.isExecute = true) (hl : hasLoop cfg e = true)
    (hs : preOpFault (runEntry cfg e w).2.trace.reverse = false)
    (hr : (runEntry cfg e w).1 = .outcome o tl) :
    o.attempts = ((runEntry cfg e w).2.trace.reverse.filter (fun x => isOp x.1)).length := by
  have h := attempts_eq_invocations cfg e w
  rw [hr] at h
  unfold Mon.C11H.ok at h
  simpa [he, hl, hs, opCount] using h

/-! ### what is in scope -/

/-- no start hook / abort predicate raised a plain `Exception` at all ⇒ in scope -/
theorem preOpFault_of_none (t : Trace) (h : ∀ x ∈ t, isPreOpFault x = false) : preOpFault t = false := by
  induction t with
  | nil => rfl
  | cons x t ih =>
    simp only [preOpFault, h x (by simp), Bool.false_and, Bool.false_or]
    exact ih (fun y hy => h y (by simp [hy]))

theorem preOpFault_no_op (t : Trace) (h : ∀ x ∈ t, isOp x.1 = false) : preOpFault t = false := by
  induction t with
  | nil => rfl
  | cons x t ih =>
    have h1 : (t.any fun y => isOp y.1) = false := by
      rw [List.any_eq_false]
      intro y hy
      simp [h y (by simp [hy])]
    simp only [preOpFault, h1, Bool.and_false, Bool.false_or]
    exact ih (fun y hy => h y (by simp [hy]))

/-- the operation is not invoked after the (last) such error ⇒ in scope -/
theorem preOpFault_of_no_later_op (t₁ t₂ : Trace) (h1 : preOpFault t₁ = false)
    (h2 : ∀ x ∈ t₂, isOp x.1 = false) : preOpFault (t₁ ++ t₂) = false := by
  induction t₁ with
  | nil => simpa using preOpFault_no_op t₂ h2
  | cons x t₁ ih =>
    have h3 : (t₂.any fun y => isOp y.1) = false := by
      rw [List.any_eq_false]
      intro y hy
      simp [h2 y hy]
    simp only [preOpFault, Bool.or_eq_false_iff] at h1
    simp only [List.cons_append, preOpFault, List.any_append, h3, Bool.or_false, h1.1, Bool.false_or]
    exact ih h1.2

theorem fault_shape (x : Req × Ans) (h : isPreOpFault x = true) :
    isAttemptHook x.1 = true ∧ ∃ e d, x.2 = Ans.raise e d ∧ isFault e = true := by
  obtain ⟨r, a⟩ := x
  unfold isPreOpFault at h
  simp only [Bool.and_eq_true] at h
  obtain ⟨h1, h2⟩ := h
  constructor
  · cases r <;> first | rfl | (simp at h1)
  · cases a <;> first | exact ⟨_, _, rfl, h2⟩ | (simp at h2)

/-- every run `Mon.C11` judges (no attempt hook and no abort predicate raised anything) is in scope -/
theorem preOpFault_of_no_hookFault (t : Trace) (h : attemptHookFault t = false) : preOpFault t = false := by
  apply preOpFault_of_none
  intro x hx
  cases hfx : isPreOpFault x with
  | false => rfl
  | true =>
    obtain ⟨h1, e, d, h2, _⟩ := fault_shape x hfx
    have : attemptHookFault t = true := by
      unfold attemptHookFault
      rw [List.any_eq_true]
      exact ⟨x, hx, by simp [h1, h2]⟩
    rw [h] at this
    cases this

/-- **The case the property is about**: whatever the hooks and the abort predicate raise is an
    `AbortRetryError`, a `RetryExhaustedError` or not an `Exception` (cancellation kinds) ⇒ in scope. -/
theorem preOpFault_of_aborts_only (t : Trace)
    (h : ∀ r e d, (r, Ans.raise e d) ∈ t → isAttemptHook r = true →
      e.isAbort = true ∨ e.isExhausted = true ∨ e.isException = false) :
    preOpFault t = false := by
  apply preOpFault_of_none
  intro x hx
  cases hfx : isPreOpFault x with
  | false => rfl
  | true =>
    obtain ⟨h1, e, d, h2, h3⟩ := fault_shape x hfx
    obtain ⟨r, a⟩ := x
    simp only at h1 h2
    subst h2
    have := h r e d hx h1
    simp only [isFault, Bool.and_eq_true, Bool.not_eq_true'] at h3
    rcases this with h4 | h4 | h4 <;> simp [h4] at h3

/-! Non-vacuity.  The hypotheses of `attempts_eq_invocations_logical` are about `runEntry`; instances are
    exhibited through the compiled driver by `harness/families/loop.py`.  At the level of the monitor
    alone, on literal logs: the start hook of attempt 2 raises `AbortRetryError` after one invocation. -/

/-- `attempts = 1` = one invocation: accepted … -/
example : Mon.C11H.ok { cAttemptStart := true } .execute
    [(.attemptStart { attempt := 1, elapsed := 0 }, .unit 0),
     (.op 1, .raise (.ordinary 1 .transient) 0),
     (.classify "o1", .klass ⟨.transient, none⟩ 0),
     (.strategy .default .ctx ⟨1, .transient, none, none, 60, .exception⟩, .delay (.fin 1) 0),
     (.sleeper .dflt 1, .unit 0),
     (.attemptStart { attempt := 2, elapsed := 1 }, .raise (.abort 7) 0)]
    (.outcome { ok := false, value := none, stop := some .aborted, attempts := 1, lastClass := some .transient,
                lastExc := some "o1", lastResult := none, cause := some .exception, elapsed := 1,
                nextSleep := none } []) = true := by decide

/-- … `attempts = 2` (the assignment moved before the hook) with one invocation in the log: rejected -/
example : Mon.C11H.ok { cAttemptStart := true } .execute
    [(.attemptStart { attempt := 1, elapsed := 0 }, .unit 0),
     (.op 1, .raise (.ordinary 1 .transient) 0),
     (.classify "o1", .klass ⟨.transient, none⟩ 0),
     (.strategy .default .ctx ⟨1, .transient, none, none, 60, .exception⟩, .delay (.fin 1) 0),
     (.sleeper .dflt 1, .unit 0),
     (.attemptStart { attempt := 2, elapsed := 1 }, .raise (.abort 7) 0)]
    (.outcome { ok := false, value := none, stop := some .aborted, attempts := 2, lastClass := some .transient,
                lastExc := some "o1", lastResult := none, cause := some .exception, elapsed := 1,
                nextSleep := none } []) = false := by decide

/-- the same through a `Policy` with a retry component, and with the abort predicate raising instead -/
example : Mon.C11H.ok { abortIf := true } .pexecute
    [(.abortIf, .bool false 0), (.op 1, .value 5 0), (.resultClassify 5, .klass ⟨.transient, none⟩ 0),
     (.abortIf, .raise (.abort 3) 0)]
    (.outcome { ok := false, value := none, stop := some .aborted, attempts := 2, lastClass := none,
                lastExc := none, lastResult := none, cause := none, elapsed := 0, nextSleep := none } [])
    = false := by decide

/-- a start hook that raises a plain `Exception` and is NOT followed by an invocation is judged
    (`attempts = 1` accepted, `attempts = 2` rejected) … -/
example : Mon.C11H.ok { cAttemptStart := true } .execute
    [(.attemptStart { attempt := 1, elapsed := 0 }, .unit 0), (.op 1, .raise (.ordinary 1 .transient) 0),
     (.classify "o1", .klass ⟨.transient, none⟩ 0),
     (.strategy .default .ctx ⟨1, .transient, none, none, 60, .exception⟩, .delay (.fin 1) 0),
     (.sleeper .dflt 1, .unit 0),
     (.attemptStart { attempt := 2, elapsed := 1 }, .raise (.ordinary 2 .permanent) 0),
     (.classify "o2", .klass ⟨.permanent, none⟩ 0)]
    (.outcome { ok := false, value := none, stop := some .nonRetryableClass, attempts := 2,
                lastClass := some .permanent, lastExc := some "o2", lastResult := none, cause := some .exception,
                elapsed := 1, nextSleep := none } []) = false := by decide

/-- … and once an invocation follows it the run is out of scope (DESIGN §6.2): `attempts = 3` after two
    invocations is what `execute()` reports by design -/
example : Mon.C11H.ok { cAttemptStart := true } .execute
    [(.attemptStart { attempt := 1, elapsed := 0 }, .unit 0), (.op 1, .raise (.ordinary 1 .transient) 0),
     (.classify "o1", .klass ⟨.transient, none⟩ 0),
     (.strategy .default .ctx ⟨1, .transient, none, none, 60, .exception⟩, .delay (.fin 0) 0),
     (.sleeper .dflt 0, .unit 0),
     (.attemptStart { attempt := 2, elapsed := 0 }, .raise (.ordinary 2 .transient) 0),
     (.classify "o2", .klass ⟨.transient, none⟩ 0),
     (.strategy .default .ctx ⟨2, .transient, none, some 0, 60, .exception⟩, .delay (.fin 0) 0),
     (.sleeper .dflt 0, .unit 0),
     (.attemptStart { attempt := 3, elapsed := 0 }, .unit 0), (.op 2, .value 9 0)]
    (.outcome { ok := true, value := some 9, stop := none, attempts := 3, lastClass := none, lastExc := none,
                lastResult := none, cause := none, elapsed := 0, nextSleep := none } []) = true := by decide

end Redress.Props.C11H
