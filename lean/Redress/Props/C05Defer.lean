/-
  C05 (what `next_sleep_s` reports) — "… that same delay is what the sleeper receives and what `retry` events
  and next_sleep_s report".  `Mon.C05.flowOk` says: IF a `next_sleep_s` is reported it is the delay of the
  attempt's one strategy call; it accepts a run that reports none.  When a sleep handler answered DEFER the
  run must report it — `Mon.C16.deferOk`: SCHEDULED with `next_sleep_s` = the delay the handler was offered
  (which `flowOk` ties to the strategy's sanitised output).  This file restates that conjunct of C16 under C05,
  so that the driver evaluates it on the implementation's logs for C05 as well; the theorem is
  `Props.C16.defer_schedules`.
-/
import Redress.Props.C16

namespace Redress.Props.C05Defer
open Redress Redress.Mon

/-- **C05, deferred delay reported.**  For every configuration, entry point and world: after a sleep handler
    answered DEFER (and nothing intervened) the run ends as SCHEDULED and reports `next_sleep_s` = the delay
    the handler was offered. -/
theorem deferred_delay_reported (cfg : Cfg) (e : Entry) (w : World) :
    Mon.C16.deferOk cfg e (runEntry cfg e w).2.trace.reverse (runEntry cfg e w).1 = true :=
  Redress.Props.C16.defer_schedules cfg e w

theorem deferred_delay_reported_script (cfg : Cfg) : ∀ (steps : List Step) (w : World),
    ∀ l ∈ (runScript cfg steps w).1, Mon.C16.deferOk cfg l.entry l.trace l.res = true := by
  intro steps
  induction steps with
  | nil => intro w l hl; simp [runScript] at hl
  | cons st rest ih =>
    intro w l hl
    cases st with
    | advance d => exact ih _ l (by simpa [runScript] using hl)
    | run e =>
      simp only [runScript, List.mem_cons] at hl
      rcases hl with rfl | hl
      · exact deferred_delay_reported cfg e w
      · exact ih _ l hl

end Redress.Props.C05Defer
