/-
  Redress.Props.C05Sig — decision logic of `_normalize_strategy` stated outright (C05: "the strategy
  registered for the class … is called with its signature kind").
-/
import Redress.Model.Signature

namespace Redress.Props.C05Sig
open Redress

/-- context-style exactly when there is one required positional parameter and no required
    keyword-only one — whatever defaulted parameters, `*args`, `**kwargs` come with it -/
theorem ctx_iff (s : Sig) : normalizeSig s = some .ctx ↔ (s.kwReq = 0 ∧ s.req = 1) := by
  unfold normalizeSig
  by_cases h1 : s.kwReq > 0 <;> by_cases h2 : s.req = 1 <;> by_cases h3 : s.req = 3 <;>
    simp [h1, h2, h3] <;> omega

/-- legacy exactly when there are three required positional parameters (and no required kw-only) -/
theorem legacy_iff (s : Sig) : normalizeSig s = some .legacy ↔ (s.kwReq = 0 ∧ s.req = 3) := by
  unfold normalizeSig
  by_cases h1 : s.kwReq > 0 <;> by_cases h2 : s.req = 1 <;> by_cases h3 : s.req = 3 <;>
    simp [h1, h2, h3] <;> omega

/-- rejected (TypeError) in every other case -/
theorem rejected_iff (s : Sig) :
    normalizeSig s = none ↔ (s.kwReq > 0 ∨ (s.req ≠ 1 ∧ s.req ≠ 3)) := by
  unfold normalizeSig
  by_cases h1 : s.kwReq > 0 <;> by_cases h2 : s.req = 1 <;> by_cases h3 : s.req = 3 <;>
    simp [h1, h2, h3] <;> omega

/-- defaulted parameters, `*args` and `**kwargs` never change the decision -/
theorem optional_parts_irrelevant (s : Sig) (o : Nat) (v : Bool) (ko : Nat) (vk : Bool) :
    normalizeSig { s with opt := o, varargs := v, kwOpt := ko, varkw := vk } = normalizeSig s := rfl

/-- non-vacuity / the seeded defect's input: `def strat(ctx, scale=2.0, floor_s=0.1)` is context-style -/
example : normalizeSig { req := 1, opt := 2, varargs := false, kwReq := 0, kwOpt := 0, varkw := false }
    = some .ctx := by decide

end Redress.Props.C05Sig
